#!/bin/bash
# Maintenance helper (not a registered check): apply a behaviour-preserving refactor of /repo
# (written by a sub-agent), run every quick check against it, undo it. Any VIOLATION line is a
# false alarm (or a broken correspondence reported with no-failing-input-found).
#   tools/refaceval.sh <dir with patch.diff + meta.json> <id>
S=$1; ID=$2
D=/verif/seeded/refactors/$ID
mkdir -p $D; cp $S/patch.diff $S/meta.json $D/
(
  flock 9
  git -C /repo apply $D/patch.diff || { echo "patch does not apply" > $D/result.log; exit 0; }
  cd /verif
  : > $D/result.log
  for Q in C01 C02 C03 C04 C05 C06 C07 C08 C09 C10 C11 C12 C13 C14 C15 C16 C17 C18 C19 C20; do
    bin/check $Q quick > $D/check_$Q.out 2>&1; RC=$?
    N=$(grep -c '^VIOLATION' $D/check_$Q.out)
    echo "$Q exit=$RC violations=$N $(grep '^VIOLATION' $D/check_$Q.out | head -1 | cut -c1-220)" >> $D/result.log
    [ "$RC" = 0 ] && rm -f $D/check_$Q.out
  done
  git -C /repo checkout -- .
) 9>/verif/work/.lock-seed
echo "== $ID: $(grep -c 'exit=0' $D/result.log)/20 quiet"; grep -v "exit=0" $D/result.log
