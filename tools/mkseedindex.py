#!/usr/bin/env python3
"""Maintenance helper: regenerate seeded/INDEX.md and the table of DESIGN.md section 11 from
seeded/<id>/meta.json and confirm.log (first check run -> last recheck, per property)."""
import json, os, re, glob
ROOT = os.path.dirname(os.path.dirname(os.path.abspath(__file__)))

def classify(line):
    m = re.search(r"exit=(\d+) (\d+) violation", line)
    if not m:
        return "?"
    if m.group(1) == "0":
        return "missed"
    first = re.search(r"VIOLATION[^\n]*?\](?: (no-failing-input-found))?", line)
    if "no-failing-input-found" in line and not re.search(r"\[(oracle|impl)", line):
        return "model/proof only"
    return "concrete"

rows = []
for d in sorted(glob.glob(os.path.join(ROOT, "seeded", "C*-m*"))):
    sid = os.path.basename(d)
    meta = json.load(open(os.path.join(d, "meta.json")))
    log = open(os.path.join(d, "confirm.log")).read().splitlines()
    conf = "yes" if any(l.strip().endswith("confirmed=yes") for l in log) else "no"
    res = {}
    for l in log:
        m = re.match(r"(check|recheck) (C\d\d) quick: (.*)", l)
        if m:
            res.setdefault(m.group(2), []).append(classify(m.group(3)))
    own = sid.split("-")[0]
    cells = []
    for p in [own] + [p for p in res if p != own]:
        if p not in res:
            continue
        first, last = res[p][0], res[p][-1]
        cells.append(f"{p}: {first}" if first == last else f"{p}: {first} → {last}")
    cut = lambda s: re.sub(r"\s+", " ", str(s)).replace("|", "/")[:150]
    rows.append(f"| {sid} | {cut(meta.get('summary', ''))} | {cut(meta.get('needs', ''))} | {conf} | {'; '.join(cells)} |")

head = "| id | change | needs | confirmed | quick checks: first run → after strengthening |\n|---|---|---|---|---|\n"
table = head + "\n".join(rows) + "\n"
open(os.path.join(ROOT, "seeded", "INDEX.md"), "w").write("# Seeded changes\n\n" + table)
p = os.path.join(ROOT, "DESIGN.md")
s = open(p).read()
i = s.index("| id | change | needs | confirmed |")
j = s.index("\nNotes. (1)", i)
s = s[:i] + table + s[j:]
open(p, "w").write(s)
print(len(rows), "rows")
