#!/bin/bash
# Maintenance helper (not a registered check): confirm a seeded change delivered by a sub-agent in
# its scratch worktree, file it under /verif/seeded/<id>/, run the checks against it.
#   tools/seedeval.sh <Cxx> <mN> [extra properties whose checks to run as well…]
set -u
P=$1; M=$2; shift 2
W=${SEEDW:-/tmp/seed-$P}
O=$W/OUT/$M
ID=$P-$M
D=/verif/seeded/$ID
export CARGO_NET_OFFLINE=true CARGO_TARGET_DIR=$W/target
mkdir -p $D
cp $O/patch.diff $O/demo.diff $O/meta.json $D/ 2>/dev/null
cd $W || exit 2
git checkout -q -- . ; git clean -qfd -e OUT -e target
LOG=$D/confirm.log; : > $LOG
DEMO_CMD=$(python3 -c "import json;print(json.load(open('$O/meta.json'))['demo_cmd'])" | sed "s#CARGO_TARGET_DIR=[^ ]* ##")
echo "demo_cmd: $DEMO_CMD" >> $LOG
# 1. suite with the change
git apply $O/patch.diff || { echo "patch does not apply" >> $LOG; exit 2; }
cargo test --workspace --no-fail-fast --offline > $D/suite.out 2>&1
SUITE=$(grep -c "^test result: ok" $D/suite.out); FAILS=$(grep -c "^test result: FAILED" $D/suite.out)
echo "suite with change: ok-groups=$SUITE failed-groups=$FAILS" >> $LOG
# 2. demonstration with the change
git apply $O/demo.diff || echo "demo does not apply on the changed tree" >> $LOG
( eval "$DEMO_CMD" ) > $D/demo_with.out 2>&1; R1=$?
echo "demo with change: exit=$R1" >> $LOG
# 3. demonstration without the change
git apply -R $O/patch.diff
( eval "$DEMO_CMD" ) > $D/demo_without.out 2>&1; R2=$?
echo "demo without change: exit=$R2" >> $LOG
git checkout -q -- . ; git clean -qfd -e OUT -e target
CONF=no; [ "$FAILS" = 0 ] && [ "$SUITE" -ge 2 ] && [ $R1 -ne 0 ] && [ $R2 -eq 0 ] && CONF=yes
echo "confirmed=$CONF" >> $LOG
# 4. the checks against the change (one at a time on /repo, undone straight afterwards)
(
  flock 9
  git -C /repo apply $D/patch.diff || { echo "patch does not apply to /repo" >> $LOG; exit 0; }
  unset CARGO_TARGET_DIR
  cd /verif
  for Q in $P "$@"; do
    bin/check $Q quick > $D/check_$Q.out 2>&1; RC=$?
    echo "check $Q quick: exit=$RC $(grep -c '^VIOLATION' $D/check_$Q.out) violation line(s): $(grep '^VIOLATION' $D/check_$Q.out | head -2 | cut -c1-260 | tr '\n' ' ')" >> $LOG
    mkdir -p $D/replays; grep -o 'replay=[^ ]*' $D/check_$Q.out | cut -d= -f2 | while read r; do cp "$r" $D/replays/ 2>/dev/null; done
  done
  git -C /repo checkout -- .
) 9>/verif/work/.lock-seed
rm -f $D/suite.out
cat $LOG
