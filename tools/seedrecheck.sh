#!/bin/bash
# Maintenance helper: re-run the quick checks of the given properties against an already filed
# seeded change.   tools/seedrecheck.sh <id> <Cxx> [<Cxx>…]
ID=$1; shift
D=/verif/seeded/$ID
(
  flock 9
  git -C /repo apply $D/patch.diff || exit 0
  cd /verif
  for Q in "$@"; do
    bin/check $Q quick > $D/check_$Q.out 2>&1; RC=$?
    echo "recheck $Q quick: exit=$RC $(grep -c '^VIOLATION' $D/check_$Q.out) violation line(s): $(grep '^VIOLATION' $D/check_$Q.out | head -2 | cut -c1-260 | tr '\n' ' ')" >> $D/confirm.log
    mkdir -p $D/replays; grep -o 'replay=[^ ]*' $D/check_$Q.out | cut -d= -f2 | while read r; do cp "$r" $D/replays/ 2>/dev/null; done
  done
  git -C /repo checkout -- .
) 9>/verif/work/.lock-seed
tail -n $# $D/confirm.log
