#!/usr/bin/env python3
"""Maintenance helper (not part of any check): emit a Props theorem that restates a theorem of a
Proofs file verbatim and discharges it by applying the Proofs theorem.
usage: mkprops.py <Proofs file> <Proofs namespace> name [name ...]
"""
import re, sys

def extract(src, name):
    m = re.search(r"((?:/--(?:(?!-/).)*-/\s*)?)theorem\s+%s\b" % re.escape(name), src, flags=re.S)
    if not m:
        raise SystemExit("not found: " + name)
    doc = m.group(1)
    i = m.end()
    # header runs until ':=' at depth 0
    depth = 0
    j = i
    while j < len(src):
        c = src[j]
        if c in "([{⟨":
            depth += 1
        elif c in ")]}⟩":
            depth -= 1
        elif src.startswith(":=", j) and depth == 0:
            break
        j += 1
    header = src[i:j].rstrip()
    # binder names: top-level (...) groups before the top-level ':'
    names = []
    depth = 0
    k = 0
    start = None
    while k < len(header):
        c = header[k]
        if c == "(":
            if depth == 0:
                start = k
            depth += 1
        elif c == ")":
            depth -= 1
            if depth == 0:
                grp = header[start + 1:k]
                if ":" in grp:
                    vs = grp.split(":", 1)[0].split()
                    names += vs
        elif c == ":" and depth == 0:
            break
        k += 1
    return doc, header, names

def main():
    path, ns = sys.argv[1], sys.argv[2]
    src = open(path, encoding="utf-8").read()
    for name in sys.argv[3:]:
        doc, header, names = extract(src, name)
        print(f"{doc}theorem {name}{header} :=\n  {ns}.{name} {' '.join(names)}\n")

main()
