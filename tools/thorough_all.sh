#!/bin/bash
# Maintenance helper for `vp run --with-repo`: thorough checks of all claimed properties against a
# snapshot of /repo (so that later edits of /repo do not disturb the run).
set -u
REPO=${VP_RUN_REPO:-/repo}
sed -i "s#path = \"/repo\"#path = \"$REPO\"#" harness/Cargo.toml
export BEETSWAP_REPO=$REPO
bin/setup > setup.log 2>&1 || { tail -20 setup.log; exit 2; }
RC=0
for p in "$@"; do
  /usr/bin/time -f "$p wall=%es" bin/check $p thorough 2>&1 | tail -6 | cut -c1-400 || RC=1
done
exit $RC
