/-!
`builder.rs::protocol_prefix`, `utils.rs::stream_protocol` and
`libp2p_swarm::StreamProtocol::try_from_owned` (which accepts exactly the strings that start
with '/'). Strings are `List Char`.
-/
namespace Beetswap.Builder

/-- Specification literal; `Generated.implProtocolSites` is what the source says. -/
def protocolSuffix : List Char := "/ipfs/bitswap/1.2.0".toList

/-- `BehaviourBuilder::protocol_prefix`: accept exactly the prefixes that start with '/'. -/
def acceptPrefix (p : List Char) : Bool := p.head? == some '/'

/-- `StreamProtocol::try_from_owned` -/
def tryStreamProtocol (s : List Char) : Option (List Char) :=
  if s.head? == some '/' then some s else none

/-- `utils::stream_protocol(prefix, protocol)` -/
def streamProtocol (pfx : Option (List Char)) (protocol : List Char) : Option (List Char) :=
  match pfx with
  | some p => tryStreamProtocol (p ++ protocol)
  | none => some protocol

inductive BuildRes where
  | rejected                       -- `Err(InvalidProtocolPrefix)`
  | built (protocol : List Char)   -- the protocol of the behaviour, its client and its server
  | panic                          -- an `expect` in `build` / `ClientBehaviour::new` / `ServerBehaviour::new`
deriving Repr, DecidableEq

/-- `Behaviour::builder(..).protocol_prefix(p)?.build()` (`none` = no prefix configured). -/
def build (pfx : Option (List Char)) : BuildRes :=
  match pfx with
  | some p =>
    if acceptPrefix p then
      match streamProtocol (some p) protocolSuffix with
      | some s => .built s
      | none => .panic
    else .rejected
  | none =>
    match streamProtocol none protocolSuffix with
    | some s => .built s
    | none => .panic

end Beetswap.Builder
