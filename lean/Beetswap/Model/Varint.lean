/-!
`unsigned-varint` 0.8 (`decode::u64` / `decode::usize` on 64-bit targets, `encode::u64`),
as used by `message.rs` for the frame length prefix and by `cid_prefix.rs`.
Bytes are `Nat`s (well-formed when `< 256`).
-/
namespace Beetswap.Varint

inductive Res where
  | ok (n : Nat) (rest : List Nat)
  | insufficient
  | overflow
  | notMinimal
deriving Repr, DecidableEq

/-- `decode!` macro with `max_bytes = 9`: `acc |= (b & 0x7f) << (7*i)` on a `u64`
(so bits shifted past bit 63 vanish), minimality check on the last byte, at most 10 bytes. -/
def decAux (i acc : Nat) : List Nat → Res
  | [] => .insufficient
  | b :: bs =>
    let acc' := (acc + (b % 128) * 2 ^ (7 * i)) % 2 ^ 64
    if b < 128 then
      if b = 0 ∧ 0 < i then .notMinimal else .ok acc' bs
    else if i = 9 then .overflow
    else decAux (i + 1) acc' bs

def dec (bs : List Nat) : Res := decAux 0 0 bs

/-- `encode::u64` -/
def enc (n : Nat) : List Nat :=
  if _h : n < 128 then [n] else (n % 128 + 128) :: enc (n / 128)
termination_by n
decreasing_by omega

end Beetswap.Varint
