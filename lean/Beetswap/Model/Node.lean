import Beetswap.Model.Server
/-!
`lib.rs::Behaviour`: client half, server half and the glue between them, driven through the
`NetworkBehaviour` entry points.
-/
namespace Beetswap.Node
open Std Beetswap.Client Beetswap.Wl

structure State where
  client : Client.State := {}
  server : Server.State := {}
  now : Nat := 0
  seq : Nat := 0            -- number of blockstore calls started so far

inductive Op where
  | connect (p c : Nat)                 -- `handle_established_*_connection`
  | closed (p c rem : Nat)              -- `FromSwarm::ConnectionClosed`, `rem` = `remaining_established`
  | closing (p c : Nat)                 -- `ToBehaviourEvent::ClientClosingConnection`
  | get (k : Nat) (fits : Bool)
  | cancel (q : Nat)
  | msg (p : Nat) (haves dontHaves : List Nat) (blocks : List (Nat × Nat))
        (wantlist : Option (Bool × List Server.Entry))   -- `IncomingMessage`
  | sending (p src : Nat) (st : Sending)  -- `SendingStateChanged` reported by the handler of connection `src`
  | newBlocks (bs : List (Nat × Nat))   -- `NewBlocksAvailable`
  | complete (seq : Nat) (r : StoreRes)
  | tick (ms : Nat)
  | drain (pref : List (Nat × Nat)) (obs : List (Nat × Nat))
      -- poll until `Pending`; observed connection choices (peer, conn) and lookup order (call, cid)
deriving Repr

def prefOf (l : List (Nat × Nat)) (p : Nat) : Option Nat := (l.find? (·.1 == p)).map (·.2)

/-- One step. The `Option Nat` is the query id returned by `get`; `none` state = the op is not
applicable (completing a call nobody waits for). -/
def step (s : State) : Op → State × List Out × Option Nat
  | .connect p c =>
    ({ s with client := Client.connect s.client p c, server := Server.connect s.server p }, [], none)
  | .closed p c rem =>
    let s := { s with client := Client.closed s.client p c }
    (if rem = 0 then { s with server := Server.disconnected s.server p } else s, [], none)
  | .closing p c => ({ s with client := Client.closed s.client p c }, [], none)
  | .get k fits =>
    let (c, q) := Client.get s.client k fits
    ({ s with client := c }, [], some q)
  | .cancel q => ({ s with client := Client.cancel s.client q }, [], none)
  | .msg p hs ds bs w =>
    let s := if hs.isEmpty && ds.isEmpty && bs.isEmpty then s
      else { s with client := Client.incoming s.client p hs ds bs }
    (match w with
     | some (full, es) => { s with server := Server.incoming s.server p full es }
     | none => s, [], none)
  | .sending p src st => ({ s with client := Client.sendingChanged s.client p src st }, [], none)
  | .newBlocks bs => ({ s with server := Server.newBlocks s.server bs }, [], none)
  | .complete seq r =>
    match Client.complete s.client seq r with
    | some c => ({ s with client := c }, [], none)
    | none =>
      match Server.complete s.server seq r with
      | some sv => ({ s with server := sv }, [], none)
      | none => (s, [], none)
  | .tick ms => ({ s with now := s.now + ms }, [], none)
  | .drain pref obs =>
    let (c, seq, o1) := Client.drain s.client s.now s.seq (prefOf pref)
    let (c, nb) := Client.takeNewBlocks c
    let sv := if nb.isEmpty then s.server else Server.newBlocks s.server nb
    let (sv, seq, o2) := Server.drain sv seq (prefOf obs)
    ({ s with client := c, server := sv, seq := seq }, o1 ++ o2, none)

def run (s : State) (ops : List Op) : State × List (List Out) :=
  ops.foldl (fun acc op => let (s, o, _) := step acc.1 op; (s, acc.2 ++ [o])) (s, [])

end Beetswap.Node
