import Beetswap.Model.Cid
import Beetswap.Model.Proto
/-!
`incoming_stream.rs::process_message`: classification of a decoded `Message` into the
client part (block presences, blocks keyed by the *recomputed* CID) and the server part
(the wantlist), or `none` = fatal: drop the whole message and end the stream.
-/
namespace Beetswap.Incoming
open Beetswap.Cid Beetswap.Proto

/-- last-wins insertion into an association list (models `FnvHashMap::insert`) -/
def insertKV {V : Type} (l : List (Cid × V)) (k : Cid) (v : V) : List (Cid × V) :=
  l.filter (fun kv => kv.1 ≠ k) ++ [(k, v)]

structure ClientMessage where
  presences : List (Cid × Nat) := []     -- type: 0 = Have, 1 = DontHave
  blocks : List (Cid × List Nat) := []
deriving Repr

structure IncomingMessage where
  client : Option ClientMessage := none
  server : Option Wantlist := none
deriving Repr

def clientOf (m : IncomingMessage) : ClientMessage := m.client.getD {}

/-- `some m` / `None` of `process_message`, plus the panic the `expect` in `to_cid` would be. -/
inductive ProcRes where
  | ok (m : IncomingMessage)
  | fatal
  | panic
deriving Repr

/-- Presences: an unparsable CID is fatal. `parseCid` is `CidGeneric::<S>::try_from`
(the `cid` crate; an oracle here). -/
def processPresences (parseCid : List Nat → Option Cid) (ps : List Presence)
    (acc : IncomingMessage) : Option IncomingMessage :=
  match ps with
  | [] => some acc
  | p :: ps =>
    match parseCid p.cid with
    | none => none
    | some c =>
      let cm := clientOf acc
      processPresences parseCid ps
        { acc with client := some { cm with presences := insertKV cm.presences c p.type } }

/-- Blocks: unparsable prefix, oversize declared digest or a fatal hasher error are fatal;
unknown hash code or a custom error skip the block. -/
def processBlocks (S : Nat) (H : Hasher) (bs : List Block) (acc : IncomingMessage) :
    ProcRes :=
  match bs with
  | [] => .ok acc
  | b :: bs =>
    match CidPrefix.fromBytes b.pfx with
    | none => .fatal
    | some pfx =>
      match pfx.toCid S H b.data with
      | .ok c =>
        let cm := clientOf acc
        processBlocks S H bs
          { acc with client := some { cm with blocks := insertKV cm.blocks c b.data } }
      | .unknown => processBlocks S H bs acc
      | .custom => processBlocks S H bs acc
      | .size => .fatal
      | .fatal => .fatal
      | .panic => .panic

def processMessage (S : Nat) (H : Hasher) (parseCid : List Nat → Option Cid) (msg : Message) :
    ProcRes :=
  match processPresences parseCid msg.presences {} with
  | none => .fatal
  | some acc =>
    match processBlocks S H msg.payload acc with
    | .fatal => .fatal
    | .panic => .panic
    | .ok acc =>
      match msg.wantlist with
      | some w =>
        -- a full wantlist is accepted even if empty, otherwise it needs entries
        if w.full || !w.entries.isEmpty then .ok { acc with server := some w } else .ok acc
      | none => .ok acc

end Beetswap.Incoming
