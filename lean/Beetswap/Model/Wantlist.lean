import Beetswap.Model.KMap
/-!
`wantlist.rs`: the node's global `Wantlist` and the per-peer `WantlistState` that diffs it
into update / full wantlist messages. CIDs are opaque `Nat` keys.
-/
namespace Beetswap.Wl
open Std

inductive Req where
  | sentWantHave | gotHave | gotDontHave | sentWantBlock | gotBlock
deriving Repr, DecidableEq

structure Wantlist where
  cids : KSet := ∅
  revision : Nat := 0

def Wantlist.insert (w : Wantlist) (k : Nat) : Wantlist × Bool :=
  if k ∈ w.cids then (w, false) else ({ cids := w.cids.insert k, revision := w.revision + 1 }, true)

def Wantlist.remove (w : Wantlist) (k : Nat) : Wantlist × Bool :=
  if k ∈ w.cids then ({ cids := w.cids.erase k, revision := w.revision + 1 }, true) else (w, false)

structure WState where
  req : KMap Req := ∅
  force : Bool := false
  synced : Nat := 0

def WState.isUpdated (s : WState) (w : Wantlist) : Bool := !s.force && s.synced == w.revision

/-- `entry(cid).and_modify(..)`: only an existing entry changes. -/
def modifyReq (req : KMap Req) (k : Nat) (r : Req) : KMap Req :=
  if k ∈ req then req.insert k r else req

def WState.gotHave (s : WState) (k : Nat) : WState :=
  { s with req := modifyReq s.req k .gotHave, force := true }

def WState.gotDontHave (s : WState) (k : Nat) : WState :=
  { s with req := modifyReq s.req k .gotDontHave }

def WState.gotBlock (s : WState) (k : Nat) : WState :=
  { s with req := modifyReq s.req k .gotBlock }

/-- `wanted_again`: the CID entered the wantlist again; forget that this peer delivered it. -/
def WState.wantedAgain (s : WState) (k : Nat) : WState :=
  if s.req[k]? = some .gotBlock then { s with req := s.req.erase k } else s

/-- The wire content of one wantlist message, entries grouped by kind, each group sorted. -/
structure WlMsg where
  full : Bool
  wantHave : List Nat
  wantBlock : List Nat
  cancel : List Nat
deriving Repr, DecidableEq

def WlMsg.isEmpty (m : WlMsg) : Bool := m.wantHave.isEmpty && m.wantBlock.isEmpty && m.cancel.isEmpty

/-- candidate keys of a rewrite of the per-peer table -/
def candKeys (s : WState) (w : Wantlist) : List Nat := s.req.keys ++ w.cids.toList

/-- New request state of `k` after a **full** wantlist was generated. -/
def fullNext (s : WState) (w : Wantlist) (k : Nat) : Option Req :=
  if k ∈ w.cids then
    match s.req[k]? with
    | none => some .sentWantHave
    | some .gotHave => some .sentWantBlock
    | some r => some r
  else none

def fullIsWantHave (s : WState) (k : Nat) : Bool :=
  match s.req[k]? with
  | none | some .sentWantHave => true
  | _ => false

def fullIsWantBlock (s : WState) (k : Nat) : Bool :=
  match s.req[k]? with
  | some .gotHave | some .sentWantBlock => true
  | _ => false

/-- `generate_proto_full` (does not touch `force_update` / `synced_revision`). -/
def WState.genFull (s : WState) (w : Wantlist) : WState × WlMsg :=
  let ks := w.cids.toList
  ({ s with req := KMap.tab (candKeys s w) (fullNext s w) },
   { full := true,
     wantHave := ks.filter (fullIsWantHave s),
     wantBlock := ks.filter (fullIsWantBlock s),
     cancel := [] })

/-- New request state of `k` after an **update** was generated. -/
def updNext (s : WState) (w : Wantlist) (k : Nat) : Option Req :=
  if k ∈ w.cids then
    match s.req[k]? with
    | none => some .sentWantHave
    | some .gotHave => some .sentWantBlock
    | some r => some r
  else none

def updIsCancel (s : WState) (w : Wantlist) (k : Nat) : Bool :=
  k ∉ w.cids &&
  match s.req[k]? with
  | some .gotBlock => false
  | some _ => true
  | none => false

def updIsWantHave (s : WState) (w : Wantlist) (k : Nat) : Bool :=
  k ∈ w.cids &&
  match s.req[k]? with
  | none => true
  | _ => false

def updIsWantBlock (s : WState) (w : Wantlist) (k : Nat) : Bool :=
  k ∈ w.cids &&
  match s.req[k]? with
  | some .gotHave => true
  | _ => false

/-- `generate_proto_update` -/
def WState.genUpdate (s : WState) (w : Wantlist) : WState × WlMsg :=
  if s.isUpdated w then (s, { full := false, wantHave := [], wantBlock := [], cancel := [] })
  else
    ({ req := KMap.tab (candKeys s w) (updNext s w), force := false, synced := w.revision },
     { full := false,
       wantHave := w.cids.toList.filter (updIsWantHave s w),
       wantBlock := w.cids.toList.filter (updIsWantBlock s w),
       cancel := s.req.keys.filter (updIsCancel s w) })

end Beetswap.Wl
