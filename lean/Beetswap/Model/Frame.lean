import Beetswap.Model.Proto
/-!
`message.rs`: `Codec::encode` / `Codec::decode` and the `asynchronous_codec::FramedRead`
loop that `IncomingStream` drives.
-/
namespace Beetswap.Frame
open Beetswap.Proto

/-- Bitswap spec: maximum `Message` size is 4 MiB. This literal is the *specification*;
`Generated.implMaxMessageSize` is what the source says. -/
def maxMessageSize : Nat := 4 * 1024 * 1024

/-! ### `check_nesting`: the structural pre-check of `Codec::decode`

quick-protobuf does not check that a nested field ends within the message that contains it
(the `overrun` class of `Proto`); `decode` therefore validates the nesting before it hands the
frame to the parser. -/

/-- `read_varint` of `message.rs`: at most 10 bytes, bits shifted past bit 63 vanish. -/
def readVarintAux (i acc : Nat) : List Nat → Option (Nat × List Nat)
  | [] => none
  | b :: bs =>
    if i ≥ 10 then none
    else
      let acc := (acc + (b % 128) * 2 ^ (7 * i)) % 2 ^ 64
      if b < 128 then some (acc, bs) else readVarintAux (i + 1) acc bs

def readVarint (bs : List Nat) : Option (Nat × List Nat) := readVarintAux 0 0 bs

inductive Nesting where
  | message | wantlist | leaf
deriving Repr, DecidableEq

/-- which length-delimited fields are messages themselves -/
def nestedOf (n : Nesting) (tag : Nat) : Option Nesting :=
  match n with
  | .message => if tag = 10 then some .wantlist else if tag = 26 ∨ tag = 34 then some .leaf else none
  | .wantlist => if tag = 10 then some .leaf else none
  | .leaf => none

/-- `check_nesting`: every field ends within the message, recursively. Fuel: every field consumes
at least one byte; nested checks work on strictly shorter slices. -/
def checkNesting (fuel : Nat) (bs : List Nat) (n : Nesting) : Bool :=
  match fuel with
  | 0 => false
  | fuel + 1 =>
    match bs with
    | [] => true
    | _ =>
      match readVarint bs with
      | none => false
      | some (tag, rest) =>
        let tag := tag % 2 ^ 32          -- quick-protobuf reads tags as 32 bit varints
        match tag % 8 with
        | 0 =>
          match readVarint rest with
          | some (_, rest) => checkNesting fuel rest n
          | none => false
        | 1 => if rest.length ≥ 8 then checkNesting fuel (rest.drop 8) n else false
        | 5 => if rest.length ≥ 4 then checkNesting fuel (rest.drop 4) n else false
        | 2 =>
          match readVarint rest with
          | none => false
          | some (len, rest) =>
            if len > rest.length then false
            else
              (match nestedOf n tag with
               | some sub => checkNesting fuel (rest.take len) sub
               | none => true) && checkNesting fuel (rest.drop len) n
        | _ => false

inductive DecRes where
  | ok (m : Message) (rest : List Nat)
  | needMore
  | err
  | overrun
deriving Repr

/-- `Codec::decode` on the current buffer. -/
def decode (buf : List Nat) : DecRes :=
  match Varint.dec buf with
  | .insufficient => .needMore
  | .overflow => .err
  | .notMinimal => .err
  | .ok len rest =>
    -- a prefix whose value was silently truncated by the 64-bit decoder is not a valid varint
    if (Varint.enc len).length ≠ buf.length - rest.length then .err
    else if len > maxMessageSize then .err
    else if rest.length < len then .needMore
    else if !checkNesting (len + 1) (rest.take len) .message then .err
    else
      match parseMessage rest len with
      | .ok m _ _ => .ok m (rest.drop len)
      | .err => .err
      | .overrun => .overrun

/-- `Codec::encode` appends `varint(get_size) ++ body`. -/
def encode (m : Message) : List Nat := Varint.enc (sizeMessage m) ++ encodeBody m

/-! ### `FramedRead` -/

inductive End where
  | eof        -- clean end of stream
  | err        -- decode error or bytes remaining at end of stream
  | overrun    -- unspecified (see `Proto`)
deriving Repr, DecidableEq

structure RunRes where
  msgs : List Message
  fin : End
  /-- largest buffer length right after a read was appended -/
  maxBuf : Nat
  /-- largest buffer length retained after decoding everything decodable -/
  maxKept : Nat
deriving Repr

/-- Decode as many frames as the buffer holds. Returns the messages, the remaining buffer and
`none` if the decoder wants more bytes, `some e` if the stream ended with `e`. Fuel: every
decoded frame consumes at least one byte. -/
def drain (fuel : Nat) (buf : List Nat) (acc : List Message) :
    List Message × List Nat × Option End :=
  match fuel with
  | 0 => (acc, buf, some .err)
  | fuel + 1 =>
    match decode buf with
    | .ok m rest => drain fuel rest (acc ++ [m])
    | .needMore => (acc, buf, none)
    | .err => (acc, buf, some .err)
    | .overrun => (acc, buf, some .overrun)

/-- Feed the chunks (each non-empty, at most 8 KiB — one `poll_read`) and then end of stream. -/
def run (chunks : List (List Nat)) (buf : List Nat) (acc : List Message) (maxBuf maxKept : Nat) :
    RunRes :=
  match chunks with
  | [] =>
    -- `poll_read` returned 0: end of stream
    if buf.isEmpty then ⟨acc, .eof, maxBuf, maxKept⟩ else ⟨acc, .err, maxBuf, maxKept⟩
  | c :: cs =>
    let buf := buf ++ c
    let maxBuf := max maxBuf buf.length
    match drain (buf.length + 1) buf acc with
    | (acc, buf, none) => run cs buf acc maxBuf (max maxKept buf.length)
    | (acc, _, some e) => ⟨acc, e, maxBuf, maxKept⟩

def framedRead (chunks : List (List Nat)) : RunRes := run chunks [] [] 0 0

end Beetswap.Frame
