import Beetswap.Model.Proto
/-!
`message.rs`: `Codec::encode` / `Codec::decode` and the `asynchronous_codec::FramedRead`
loop that `IncomingStream` drives.
-/
namespace Beetswap.Frame
open Beetswap.Proto

/-- Bitswap spec: maximum `Message` size is 4 MiB. This literal is the *specification*;
`Generated.implMaxMessageSize` is what the source says. -/
def maxMessageSize : Nat := 4 * 1024 * 1024

inductive DecRes where
  | ok (m : Message) (rest : List Nat)
  | needMore
  | err
  | overrun
deriving Repr

/-- `Codec::decode` on the current buffer. -/
def decode (buf : List Nat) : DecRes :=
  match Varint.dec buf with
  | .insufficient => .needMore
  | .overflow => .err
  | .notMinimal => .err
  | .ok len rest =>
    -- a prefix whose value was silently truncated by the 64-bit decoder is not a valid varint
    if (Varint.enc len).length ≠ buf.length - rest.length then .err
    else if len > maxMessageSize then .err
    else if rest.length < len then .needMore
    else
      match parseMessage rest len with
      | .ok m _ _ => .ok m (rest.drop len)
      | .err => .err
      | .overrun => .overrun

/-- `Codec::encode` appends `varint(get_size) ++ body`. -/
def encode (m : Message) : List Nat := Varint.enc (sizeMessage m) ++ encodeBody m

/-! ### `FramedRead` -/

inductive End where
  | eof        -- clean end of stream
  | err        -- decode error or bytes remaining at end of stream
  | overrun    -- unspecified (see `Proto`)
deriving Repr, DecidableEq

structure RunRes where
  msgs : List Message
  fin : End
  /-- largest buffer length right after a read was appended -/
  maxBuf : Nat
  /-- largest buffer length retained after decoding everything decodable -/
  maxKept : Nat
deriving Repr

/-- Decode as many frames as the buffer holds. Returns the messages, the remaining buffer and
`none` if the decoder wants more bytes, `some e` if the stream ended with `e`. Fuel: every
decoded frame consumes at least one byte. -/
def drain (fuel : Nat) (buf : List Nat) (acc : List Message) :
    List Message × List Nat × Option End :=
  match fuel with
  | 0 => (acc, buf, some .err)
  | fuel + 1 =>
    match decode buf with
    | .ok m rest => drain fuel rest (acc ++ [m])
    | .needMore => (acc, buf, none)
    | .err => (acc, buf, some .err)
    | .overrun => (acc, buf, some .overrun)

/-- Feed the chunks (each non-empty, at most 8 KiB — one `poll_read`) and then end of stream. -/
def run (chunks : List (List Nat)) (buf : List Nat) (acc : List Message) (maxBuf maxKept : Nat) :
    RunRes :=
  match chunks with
  | [] =>
    -- `poll_read` returned 0: end of stream
    if buf.isEmpty then ⟨acc, .eof, maxBuf, maxKept⟩ else ⟨acc, .err, maxBuf, maxKept⟩
  | c :: cs =>
    let buf := buf ++ c
    let maxBuf := max maxBuf buf.length
    match drain (buf.length + 1) buf acc with
    | (acc, buf, none) => run cs buf acc maxBuf (max maxKept buf.length)
    | (acc, _, some e) => ⟨acc, e, maxBuf, maxKept⟩

def framedRead (chunks : List (List Nat)) : RunRes := run chunks [] [] 0 0

end Beetswap.Frame
