import Beetswap.Model.Frame
/-!
Canonical text forms shared by the Rust harness and the Lean driver.

message := `w=<N|0|1>/<entry;entry;…>|b=<block;…>|p=<presence;…>|pb=<int>`
entry := `<hex>.<prio>.<cancel>.<wantType>.<sendDontHave>`; block := `<hex>.<hex>`;
presence := `<hex>.<type>`; an empty byte string is the empty string.
-/
namespace Beetswap.Text
open Beetswap.Proto

def hexDigit (n : Nat) : Char :=
  if n < 10 then Char.ofNat (48 + n) else Char.ofNat (87 + n)

def hex (bs : List Nat) : String :=
  String.ofList (bs.foldr (fun b acc => hexDigit (b / 16) :: hexDigit (b % 16) :: acc) [])

def unhexDigit (c : Char) : Option Nat :=
  let n := c.toNat
  if 48 ≤ n ∧ n ≤ 57 then some (n - 48)
  else if 97 ≤ n ∧ n ≤ 102 then some (n - 87)
  else if 65 ≤ n ∧ n ≤ 70 then some (n - 55)
  else none

def unhexAux : List Char → List Nat → Option (List Nat)
  | [], acc => some acc.reverse
  | [_], _ => none
  | a :: b :: rest, acc =>
    match unhexDigit a, unhexDigit b with
    | some x, some y => unhexAux rest ((x * 16 + y) :: acc)
    | _, _ => none

def unhex (s : String) : Option (List Nat) := unhexAux s.toList []

def showBool (b : Bool) : String := if b then "1" else "0"

def showEntry (e : Entry) : String :=
  s!"{hex e.block}.{e.priority}.{showBool e.cancel}.{e.wantType}.{showBool e.sendDontHave}"

def showMessage (m : Message) : String :=
  let w := match m.wantlist with
    | none => "w=N/"
    | some w => s!"w={showBool w.full}/" ++ ";".intercalate (w.entries.map showEntry)
  let b := ";".intercalate (m.payload.map fun b => s!"{hex b.pfx}.{hex b.data}")
  let p := ";".intercalate (m.presences.map fun p => s!"{hex p.cid}.{p.type}")
  s!"{w}|b={b}|p={p}|pb={m.pendingBytes}"

def splitList (s : String) : List String := if s.isEmpty then [] else s.splitOn ";"

def parseBool (s : String) : Option Bool :=
  if s == "1" then some true else if s == "0" then some false else none

def parseEntry (s : String) : Option Entry :=
  match s.splitOn "." with
  | [b, pr, c, wt, sdh] => do
    let b ← unhex b
    let pr ← pr.toInt?
    let c ← parseBool c
    let wt ← wt.toNat?
    let sdh ← parseBool sdh
    pure { block := b, priority := pr, cancel := c, wantType := wt, sendDontHave := sdh }
  | _ => none

def parseBlock (s : String) : Option Block :=
  match s.splitOn "." with
  | [a, b] => do pure { pfx := ← unhex a, data := ← unhex b }
  | _ => none

def parsePresence (s : String) : Option Presence :=
  match s.splitOn "." with
  | [a, t] => do pure { cid := ← unhex a, type := ← t.toNat? }
  | _ => none

def parseMessage (s : String) : Option Message :=
  match s.splitOn "|" with
  | [w, b, p, pb] => do
    let wl ← (if w.startsWith "w=N/" then some none else
      match (w.drop 2).toString.splitOn "/" with
      | [f, es] => do
        let f ← parseBool f
        let es ← (splitList es).mapM parseEntry
        pure (some { entries := es, full := f : Wantlist })
      | _ => none)
    let bs ← (splitList (b.drop 2).toString).mapM parseBlock
    let ps ← (splitList (p.drop 2).toString).mapM parsePresence
    let pb ← (pb.drop 3).toString.toInt?
    pure { wantlist := wl, payload := bs, presences := ps, pendingBytes := pb }
  | _ => none

def natList (s : String) : Option (List Nat) :=
  if s.isEmpty then some [] else (s.splitOn ",").mapM (·.toNat?)

def showNatList (l : List Nat) : String := ",".intercalate (l.map toString)

end Beetswap.Text
