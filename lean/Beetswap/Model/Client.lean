import Beetswap.Model.Wantlist
/-!
`client.rs::ClientBehaviour` as a state machine. Peers, connections, queries, CIDs and block
contents are opaque `Nat` keys. Asynchronous blockstore calls are pairs of events: a `call`
output when the task first runs, a `complete` input later. Time is an input (`tick`).
-/
namespace Beetswap.Client
open Std Beetswap.Wl

def sendFullInterval : Nat := 30000
def receiveRequestTimeout : Nat := 1000

inductive Sending where
  | ready
  | requested (t : Nat) (c : Nat)
  | requestReceived (c : Nat)
  | sending (c : Nat)
  | failed (c : Nat)
deriving Repr, DecidableEq

structure PeerSt where
  conns : KSet := ∅
  sending : Sending := .ready
  wl : WState := {}
  sendFull : Bool := true

inductive StoreRes where
  | hit (d : Nat) | miss | error | putOk | putErr
deriving Repr, DecidableEq

inductive TaskKind where
  | get (q k : Nat)
  | put (blocks : List (Nat × Nat))
deriving Repr

inductive TaskSt where
  | fresh
  | waiting (seq : Nat)
  | done (r : StoreRes)
deriving Repr

structure Task where
  id : Nat
  kind : TaskKind
  st : TaskSt := .fresh
  aborted : Bool := false
deriving Repr

/-- Observable outputs. -/
inductive Out where
  | resp (q d : Nat)                         -- `GetQueryResponse`
  | err (q : Nat) (kind : Nat)               -- `GetQueryError`: 0 = invalid multihash size, 1 = blockstore
  | send (p c : Nat) (m : WlMsg)             -- `NotifyHandler::One(c)` + `SendWantlist`
  | callGet (seq k : Nat)                    -- `store.get(k)` started
  | callPut (seq : Nat) (blocks : List (Nat × Nat))  -- `store.put_many_keyed(blocks)` started
  | blocks (p : Nat) (bs : List (Nat × Nat)) -- server: `QueueOutgoingMessages`
deriving Repr

structure State where
  sdh : Bool := true
  queue : List Out := []
  wantlist : Wantlist := {}
  peers : KMap PeerSt := ∅
  waiters : KMap (List Nat) := ∅          -- `cid_to_queries`
  tasks : List Task := []
  runq : List Nat := []                   -- ready-to-run queue of `FuturesUnordered`
  abort : KMap Nat := ∅                   -- `query_abort_handle`: query → task
  nextQuery : Nat := 0
  nextTask : Nat := 0
  deadline : Nat := sendFullInterval      -- `send_full_timer`
  newBlocks : List (Nat × Nat) := []

def enqueue (runq : List Nat) (id : Nat) : List Nat := if id ∈ runq then runq else runq ++ [id]

/-- `new_connection_handler` -/
def connect (s : State) (p c : Nat) : State :=
  let ps := s.peers[p]?.getD {}
  { s with peers := s.peers.insert p { ps with conns := ps.conns.insert c } }

/-- `on_connection_closed` -/
def closed (s : State) (p c : Nat) : State :=
  match s.peers[p]? with
  | none => s
  | some ps =>
    let conns := ps.conns.erase c
    if conns.isEmpty then { s with peers := s.peers.erase p }
    else { s with peers := s.peers.insert p { ps with conns := conns } }

def pushTask (s : State) (kind : TaskKind) : State × Nat :=
  let id := s.nextTask
  ({ s with tasks := s.tasks ++ [{ id := id, kind := kind }], runq := s.runq ++ [id],
            nextTask := id + 1 }, id)

/-- `get`: `fits` = whether `convert_cid` succeeds. Returns the fresh query id. -/
def get (s : State) (k : Nat) (fits : Bool) : State × Nat :=
  let q := s.nextQuery
  let s := { s with nextQuery := q + 1 }
  if fits then
    let (s, tid) := pushTask s (.get q k)
    ({ s with abort := s.abort.insert q tid }, q)
  else ({ s with queue := s.queue ++ [.err q 0] }, q)

/-- `cancel` -/
def cancel (s : State) (q : Nat) : State :=
  let s := match s.abort[q]? with
    | some tid =>
      let live := s.tasks.any (·.id == tid)
      { s with abort := s.abort.erase q,
               tasks := s.tasks.map (fun t => if t.id == tid then { t with aborted := true } else t),
               runq := if live then enqueue s.runq tid else s.runq }
    | none => s
  -- the first CID (there is at most one) whose waiter list holds `q`
  match s.waiters.keys.find? (fun k => q ∈ (s.waiters[k]?.getD [])) with
  | none => s
  | some k =>
    let qs := (s.waiters[k]?.getD []).erase q
    if qs.isEmpty then
      { s with waiters := s.waiters.erase k, wantlist := (s.wantlist.remove k).1 }
    else { s with waiters := s.waiters.insert k qs }

/-- A blockstore call completes: the task waiting on `seq` becomes ready. -/
def complete (s : State) (seq : Nat) (r : StoreRes) : Option State :=
  match s.tasks.find? (fun t => match t.st with | .waiting n => n == seq | _ => false) with
  | none => none
  | some t =>
    some { s with tasks := s.tasks.map (fun u => if u.id == t.id then { u with st := .done r } else u),
                  runq := enqueue s.runq t.id }

/-- `process_incoming_message`: `haves` / `dontHaves` / `blocks` have pairwise distinct CIDs. -/
def applyBlock (s : State) (p : Nat) (k d : Nat) (acc : List (Nat × Nat)) : State × List (Nat × Nat) :=
  let (w, removed) := s.wantlist.remove k
  if !removed then (s, acc)
  else
    let s := { s with wantlist := w }
    let s := match s.peers[p]? with
      | some ps => { s with peers := s.peers.insert p { ps with wl := ps.wl.gotBlock k } }
      | none => s
    let qs := s.waiters[k]?.getD []
    ({ s with waiters := s.waiters.erase k, queue := s.queue ++ qs.map (fun q => Out.resp q d) },
     acc ++ [(k, d)])

def incoming (s : State) (p : Nat) (haves dontHaves : List Nat) (blocks : List (Nat × Nat)) : State :=
  match s.peers[p]? with
  | none => s
  | some ps =>
    let wl := haves.foldl (fun w k => w.gotHave k) ps.wl
    let wl := dontHaves.foldl (fun w k => w.gotDontHave k) wl
    let s := { s with peers := s.peers.insert p { ps with wl := wl } }
    let (s, nb) := blocks.foldl (fun (acc : State × List (Nat × Nat)) kd => applyBlock acc.1 p kd.1 kd.2 acc.2) (s, [])
    if nb.isEmpty then s else (pushTask s (.put nb)).1

/-- The connection a transmission is tracked on (`None` for `Ready`). -/
def Sending.conn? : Sending → Option Nat
  | .ready => none
  | .requested _ c => some c
  | .requestReceived c => some c
  | .sending c => some c
  | .failed c => some c

/-- The peer's sending state is overwritten. -/
def setSending (s : State) (p : Nat) (st : Sending) : State :=
  match s.peers[p]? with
  | some ps => { s with peers := s.peers.insert p { ps with sending := st } }
  | none => s

/-- The current transmission to `p` is tracked on a connection other than `src`. -/
def tracksOther (s : State) (p src : Nat) : Bool :=
  match s.peers[p]? with
  | some ps =>
    match ps.sending.conn? with
    | some c => c != src
    | none => false
  | none => false

/-- `sending_state_changed`: `src` is the connection whose handler reports. A report from a
connection other than the one the current transmission is tracked on is ignored (that
connection was given up after `RECEIVE_REQUEST_TIMEOUT`). -/
def sendingChanged (s : State) (p src : Nat) (st : Sending) : State :=
  if tracksOther s p src then s else setSending s p st

/-- One task of the ready-to-run queue is polled. -/
def pollTask (s : State) (seq : Nat) (id : Nat) : State × Nat × List Out :=
  match s.tasks.find? (·.id == id) with
  | none => (s, seq, [])
  | some t =>
    let drop (s : State) : State := { s with tasks := s.tasks.filter (·.id != id) }
    if t.aborted then (drop s, seq, [])           -- `TaskResult::Cancelled`
    else
      match t.st, t.kind with
      | .fresh, .get _ k =>
        ({ s with tasks := s.tasks.map (fun u => if u.id == id then { u with st := .waiting seq } else u) },
         seq + 1, [.callGet seq k])
      | .fresh, .put bs =>
        ({ s with tasks := s.tasks.map (fun u => if u.id == id then { u with st := .waiting seq } else u) },
         seq + 1, [.callPut seq bs])
      | .waiting _, _ => (s, seq, [])
      | .done r, .get q k =>
        let s := drop s
        let s := { s with abort := s.abort.erase q }   -- the query's abort handle is released
        match r with
        | .hit d => (s, seq, [.resp q d])
        | .miss =>
          let (w, fresh) := s.wantlist.insert k
          let peers := if fresh then
              KMap.tab s.peers.keys (fun p => (s.peers[p]?).map (fun ps => { ps with wl := ps.wl.wantedAgain k }))
            else s.peers
          ({ s with wantlist := w, peers := peers,
                    waiters := s.waiters.insert k ((s.waiters[k]?.getD []) ++ [q]) }, seq, [])
        | _ => (s, seq, [.err q 1])
      | .done r, .put bs =>
        let s := drop s
        match r with
        | .putOk => ({ s with newBlocks := s.newBlocks ++ bs }, seq, [])
        | _ => (s, seq, [])

def pollTasks (s : State) (seq : Nat) : List Nat → State × Nat × List Out
  | [] => (s, seq, [])
  | id :: ids =>
    let (s, seq, o1) := pollTask s seq id
    let (s, seq, o2) := pollTasks s seq ids
    (s, seq, o1 ++ o2)

/-- `established_connections.iter().next()`: the code takes whichever connection the hash
set yields first. The model is nondeterministic here: `pref` is the observed / quantified
choice, honoured when it is a member; any member can be chosen this way. The fallback is the
least element (`toList` is ascending; written this way because it reduces in the kernel). -/
def pickConn (conns : KSet) (pref : Option Nat) : Nat :=
  match pref with
  | some c => if c ∈ conns then c else conns.toList.head?.getD 0
  | none => conns.toList.head?.getD 0

/-- The per-peer part of `update_handlers`. Returns the new peer state (`none` = the peer has
no connection left and is dropped) and the wantlist handed to a connection, if any. -/
def updatePeer (w : Wantlist) (now : Nat) (ps : PeerSt) (pref : Option Nat) :
    Option PeerSt × Option (Nat × WlMsg) :=
  let go (ps : PeerSt) : Option PeerSt × Option (Nat × WlMsg) :=
    if ps.conns.isEmpty then (none, none)
    else
      let c := pickConn ps.conns pref
      let (wl, m) := if ps.sendFull then ps.wl.genFull w else ps.wl.genUpdate w
      if !ps.sendFull && m.isEmpty then (some { ps with wl := wl }, none)
      else (some { ps with wl := wl, sendFull := false, sending := .requested now c }, some (c, m))
  match ps.sending with
  | .ready => go ps
  | .requested t c =>
    if now - t < receiveRequestTimeout then (some ps, none)
    else go { ps with conns := ps.conns.erase c, sendFull := true, sending := .ready }
  | .requestReceived _ => (some ps, none)
  | .sending _ => (some ps, none)
  | .failed c => go { ps with conns := ps.conns.erase c, sendFull := true, sending := .ready }

/-- `update_handlers` over all peers (independent of iteration order). -/
def updateHandlers (s : State) (now : Nat) (pref : Nat → Option Nat) : State × List Out :=
  s.peers.keys.foldl (fun (acc : State × List Out) p =>
    match acc.1.peers[p]? with
    | none => acc
    | some ps =>
      let (ps', m) := updatePeer acc.1.wantlist now ps (pref p)
      let peers := match ps' with
        | some ps' => acc.1.peers.insert p ps'
        | none => acc.1.peers.erase p
      ({ acc.1 with peers := peers },
       match m with
       | some (c, m) => acc.2 ++ [Out.send p c m]
       | none => acc.2)) (s, [])

/-- `poll` until `Pending`: queued events, refresh timer, every ready task, then
`update_handlers`. `seq` numbers the blockstore calls of the whole node. -/
def drain (s : State) (now seq : Nat) (pref : Nat → Option Nat) : State × Nat × List Out :=
  let q := s.queue
  let s := { s with queue := [] }
  let s := if s.deadline ≤ now then
      { s with peers := KMap.tab s.peers.keys (fun p => (s.peers[p]?).map (fun ps => { ps with sendFull := true })),
               deadline := now + sendFullInterval }
    else s
  let runq := s.runq
  let (s, seq, o1) := pollTasks { s with runq := [] } seq runq
  -- events queued by task results (none in the current code) come before handler updates
  let (s, o2) := updateHandlers s now pref
  (s, seq, q ++ o1 ++ o2)

/-- `get_new_blocks` -/
def takeNewBlocks (s : State) : State × List (Nat × Nat) := ({ s with newBlocks := [] }, s.newBlocks)

/-! ### The client half as a labelled transition system -/

structure Sys where
  s : State := {}
  now : Nat := 0
  seq : Nat := 0       -- blockstore calls started so far

inductive Op where
  | connect (p c : Nat)
  | closed (p c : Nat)
  | get (k : Nat) (fits : Bool)
  | cancel (q : Nat)
  | complete (seq : Nat) (r : StoreRes)
  | msg (p : Nat) (haves dontHaves : List Nat) (blocks : List (Nat × Nat))
  | sending (p src : Nat) (st : Sending)
  | tick (ms : Nat)
  | drain (pref : Nat → Option Nat)
  | takeNewBlocks

def step (x : Sys) : Op → Sys × List Out
  | .connect p c => ({ x with s := connect x.s p c }, [])
  | .closed p c => ({ x with s := closed x.s p c }, [])
  | .get k fits => ({ x with s := (get x.s k fits).1 }, [])
  | .cancel q => ({ x with s := cancel x.s q }, [])
  | .complete n r => ({ x with s := (complete x.s n r).getD x.s }, [])
  | .msg p hs ds bs => ({ x with s := incoming x.s p hs ds bs }, [])
  | .sending p src st => ({ x with s := sendingChanged x.s p src st }, [])
  | .tick ms => ({ x with now := x.now + ms }, [])
  | .drain pref =>
    let (s, seq, outs) := drain x.s x.now x.seq pref
    ({ x with s := s, seq := seq }, outs)
  | .takeNewBlocks => ({ x with s := (takeNewBlocks x.s).1 }, [])

/-- Run a sequence of operations from a state, collecting all outputs in order. -/
def run (x : Sys) : List Op → Sys × List Out
  | [] => (x, [])
  | op :: ops =>
    let (x', o1) := step x op
    let (x'', o2) := run x' ops
    (x'', o1 ++ o2)

end Beetswap.Client
