import Beetswap.Model.Node
/-!
Two connected beetswap nodes: a requesting node `a` and a serving node `b`, one connection,
fault-free transport. Composition of two `Node` models with

* the wantlist hand-off abstracted to "a wantlist handed to the connection is taken over at once
  (no late acknowledgement), delivered whole, then acknowledged" (what C14's `handler_refines_spec`
  gives for a fault-free connection): `wireAB` holds the wantlists in flight (the handshake allows
  at most one), the requester's sending state is `Sending` meanwhile,
* block replies in flight in `wireBA` (FIFO),
* healthy blockstores: lookups at `b` answer from `storeB` (fixed content), lookups at `a` answer
  from `storeA` (empty: every requested block has to come from the network; what `a` receives it
  stores, but evictions make later lookups miss again — modelled by `storeA` staying empty).

Node `a` knows `b` as peer 1, node `b` knows `a` as peer 0, both over connection 1.
-/
namespace Beetswap.Net
open Std Beetswap.Client Beetswap.Wl

structure State where
  a : Node.State := {}
  b : Node.State := {}
  storeB : KMap Nat := ∅                   -- cid → data held by the serving node
  wireAB : List WlMsg := []
  wireBA : List (List (Nat × Nat)) := []
  callsA : List (Nat × Nat) := []           -- pending blockstore calls of a: (seq, cid); puts use cid 0 and are tagged below
  putsA : List Nat := []                    -- pending put calls of a (seq)
  callsB : List (Nat × Nat) := []
  answered : List (Nat × Nat) := []         -- (query, data) responses delivered to the user of a
  errors : List Nat := []

inductive Act where
  -- the user of node a
  | get (k : Nat)
  | cancel (q : Nat)
  | refresh                                 -- the 30 s wantlist refresh timer of a expires
  -- internal actions (scheduler's choice)
  | drainA
  | drainB
  | lookupA (seq : Nat)                     -- a blockstore call of a completes (miss: storeA is empty)
  | putDoneA (seq : Nat)
  | lookupB (seq : Nat)                     -- a blockstore call of b completes from storeB
  | deliverAB                               -- head wantlist reaches b; the handshake completes at a
  | deliverBA                               -- head block batch reaches a
deriving Repr

def entriesOf (m : WlMsg) : List Server.Entry :=
  (m.wantHave ++ m.wantBlock).map (fun k => ⟨some k, false⟩) ++ m.cancel.map (fun k => ⟨some k, true⟩)

def absorbA (s : State) (outs : List Out) : State :=
  outs.foldl (fun s o => match o with
    | .resp q d => { s with answered := s.answered ++ [(q, d)] }
    | .err q _ => { s with errors := s.errors ++ [q] }
    | .send _ _ m => { s with wireAB := s.wireAB ++ [m] }
    | .callGet seq k => { s with callsA := s.callsA ++ [(seq, k)] }
    | .callPut seq _ => { s with putsA := s.putsA ++ [seq] }
    | .blocks _ _ => s) s

def absorbB (s : State) (outs : List Out) : State :=
  outs.foldl (fun s o => match o with
    | .blocks _ bs => { s with wireBA := s.wireBA ++ [bs] }
    | .callGet seq k => { s with callsB := s.callsB ++ [(seq, k)] }
    | _ => s) s

/-- Initial state: the two nodes are connected (a dialled b) and `b` holds `store`. -/
def init (store : KMap Nat) : State :=
  { a := (Node.step {} (.connect 1 1)).1, b := (Node.step {} (.connect 0 1)).1, storeB := store }

def step (s : State) : Act → State
  | .get k =>
    let (a, _, _) := Node.step s.a (.get k true)
    { s with a := a }
  | .cancel q => { s with a := (Node.step s.a (.cancel q)).1 }
  | .refresh => { s with a := (Node.step s.a (.tick sendFullInterval)).1 }
  | .drainA =>
    let (a, outs, _) := Node.step s.a (.drain [] [])
    -- the connection handler takes the wantlist over at once (acknowledgements are not late:
    -- `Requested` lasts only for the swarm-internal hand-over) and reports `Sending` while the
    -- wantlist is in flight; `deliverAB` reports `Ready`
    let a := if outs.any (fun o => match o with | .send .. => true | _ => false)
      then (Node.step a (.sending 1 1 (.sending 1))).1 else a
    absorbA { s with a := a } outs
  | .drainB =>
    let (b, outs, _) := Node.step s.b (.drain [] [])
    absorbB { s with b := b } outs
  | .lookupA seq =>
    if s.callsA.any (·.1 == seq) then
      { s with a := (Node.step s.a (.complete seq .miss)).1, callsA := s.callsA.filter (·.1 != seq) }
    else s
  | .putDoneA seq =>
    if seq ∈ s.putsA then
      { s with a := (Node.step s.a (.complete seq .putOk)).1, putsA := s.putsA.filter (· != seq) }
    else s
  | .lookupB seq =>
    match s.callsB.find? (·.1 == seq) with
    | some (_, k) =>
      let r := match s.storeB[k]? with
        | some d => StoreRes.hit d
        | none => StoreRes.miss
      { s with b := (Node.step s.b (.complete seq r)).1, callsB := s.callsB.filter (·.1 != seq) }
    | none => s
  | .deliverAB =>
    match s.wireAB with
    | [] => s
    | m :: rest =>
      let b := (Node.step s.b (.msg 0 [] [] [] (some (m.full, entriesOf m)))).1
      let a := (Node.step s.a (.sending 1 1 .ready)).1
      { s with a := a, b := b, wireAB := rest }
  | .deliverBA =>
    match s.wireBA with
    | [] => s
    | bs :: rest => { s with a := (Node.step s.a (.msg 1 [] [] bs none)).1, wireBA := rest }

def run (s : State) (acts : List Act) : State := acts.foldl step s

/-- Nothing in flight and nothing left to do without the user or the clock. -/
def quiescent (s : State) : Bool :=
  s.wireAB.isEmpty && s.wireBA.isEmpty && s.callsA.isEmpty && s.putsA.isEmpty && s.callsB.isEmpty
  && (Node.step s.a (.drain [] [])).2.1.isEmpty && (Node.step s.b (.drain [] [])).2.1.isEmpty
  && s.a.client.runq.isEmpty && s.b.server.runq.isEmpty && s.b.server.outq.isEmpty
  && s.a.client.queue.isEmpty

/-- One round of the canonical fair schedule: drain both nodes, complete every pending blockstore
call, deliver everything in flight. -/
def round (s : State) : State :=
  let s := step s .drainA
  let s := s.callsA.foldl (fun s c => step s (.lookupA c.1)) s
  let s := s.putsA.foldl (fun s c => step s (.putDoneA c)) s
  let s := step s .drainA
  let s := s.wireAB.foldl (fun s _ => step s .deliverAB) s
  let s := step s .drainB
  let s := s.callsB.foldl (fun s c => step s (.lookupB c.1)) s
  let s := step s .drainB
  let s := s.wireBA.foldl (fun s _ => step s .deliverBA) s
  step s .drainA

def settle (fuel : Nat) (s : State) : State :=
  match fuel with
  | 0 => s
  | fuel + 1 => if quiescent s then s else settle fuel (round s)

/-- The CIDs node a still wants. -/
def wants (s : State) : List Nat := s.a.client.wantlist.cids.toList

end Beetswap.Net
