import Beetswap.Model.Client
import Beetswap.Model.ClientHandler
/-!
The client half of a node together with the client halves of all its connection handlers:
`Model/Client` (the behaviour: `ClientBehaviour`) composed with one `Model/ClientHandler`
automaton per connection, joined the way libp2p-swarm joins them:

* a `SendWantlist` event the behaviour emits (`NotifyHandler::One(c)`) waits in the swarm until the
  task of connection `c` hands it to the handler (`cmds`); once the connection is closing it is
  dropped;
* an event a handler returns from `poll` / `poll_close` waits until the swarm hands it to the
  behaviour (`reps`), in order, together with the id of the connection it comes from
  (`on_connection_handler_event(peer, connection, event)`): a `SendingStateChanged` becomes
  `sending_state_changed(peer, connection, state)`, a `ClientClosingConnection` becomes
  `on_connection_closed`;
* the swarm reports `ConnectionClosed` after `poll_close` has run to completion and every event
  of the handler has been delivered.

Nothing bounds the delays: commands and reports of different connections overtake each other
freely, a connection task may be starved for any time (late acknowledgements included), handlers
fail, time out and close at any point. The sink, timer and stream negotiation are the
environment's choice, as in `Model/ClientHandler`.
-/
namespace Beetswap.ClientLink
open Std Beetswap.Client

structure Link where
  peer : Nat
  h : ClientHandler.H := {}
  /-- wantlists (numbered by the drain that handed them over) on their way to the handler -/
  cmds : List Nat := []
  /-- handler events on their way to the behaviour, oldest first -/
  reps : List ClientHandler.Report := []
  /-- `ConnectionClosed` was delivered -/
  gone : Bool := false
  /-- history: every input the handler has seen (ghost) -/
  ins : List ClientHandler.In := []

structure State where
  cl : Client.Sys := {}
  links : KMap Link := ∅
  nextW : Nat := 0

/-- the client operations that involve no connection handler -/
def plain : Client.Op → Bool
  | .get .. | .cancel _ | .complete .. | .msg .. | .tick _ | .takeNewBlocks => true
  | _ => false

/-- the handler's copy of the sending state, as the behaviour receives it from connection `c` -/
def toSending (c : Nat) : ClientHandler.HS → Sending
  | .ready => .ready
  | .requestReceived => .requestReceived c
  | .sending => .sending c
  | .failed => .failed c

/-- the wantlists (all numbered `n`) a drain hands to connection `c` -/
def handed (c n : Nat) (outs : List Client.Out) : List Nat :=
  outs.filterMap fun o => match o with
    | .send _ c' _ => if c' = c then some n else none
    | _ => none

/-- `NotifyHandler::One(c)` for every wantlist a drain hands over: it joins the events waiting
for the task of connection `c` -/
def route (links : KMap Link) (n : Nat) (outs : List Client.Out) : KMap Link :=
  KMap.tab links.keys fun c => (links[c]?).map fun l => { l with cmds := l.cmds ++ handed c n outs }

/-- what libp2p-swarm may call on a handler (its side of the contract): a stream or an allocation
failure only in answer to a request, nothing but `poll_close` once closing has begun;
`send_wantlist` is not the swarm's to call (see `deliverCmd`). -/
def allowed (h : ClientHandler.H) : ClientHandler.In → Bool
  | .sendWantlist _ => false
  | .setStream _ => (decide (h.sink = .requested) || h.halted) && !h.closing
  | .allocFailed => (decide (h.sink = .requested) || h.halted) && !h.closing
  | .poll _ => !h.closing
  | .pollClose => true

def reportsOf (outs : List ClientHandler.Out) : List ClientHandler.Report :=
  outs.filterMap fun o => match o with
    | .report r => some r
    | _ => none

/-- the behaviour's entry point for one handler event from connection `c` of peer `p` -/
def repOp (p c : Nat) : ClientHandler.Report → Client.Op
  | .state hs => .sending p c (toSending c hs)
  | .closingConn => .closed p c

inductive Act where
  | client (op : Client.Op)                       -- get / cancel / blockstore completion / message / tick
  | connect (p c : Nat)                           -- a new connection (fresh id) to peer `p`
  | drain (pref : Nat → Option Nat)               -- the behaviour is polled until `Pending`
  | deliverCmd (c : Nat)                          -- the task of connection `c` takes the next `SendWantlist`
  | handler (c : Nat) (i : ClientHandler.In)      -- the swarm calls the handler of connection `c`
  | deliverRep (c : Nat)                          -- the swarm hands the next event of connection `c` to the behaviour
  | swarmClosed (c : Nat)                         -- `FromSwarm::ConnectionClosed`

def step (s : State) : Act → State
  | .client op => if plain op then { s with cl := (Client.step s.cl op).1 } else s
  | .connect p c =>
    if c ∈ s.links then s
    else { s with cl := (Client.step s.cl (.connect p c)).1, links := s.links.insert c { peer := p } }
  | .drain pref =>
    let r := Client.step s.cl (.drain pref)
    { s with cl := r.1, links := route s.links s.nextW r.2, nextW := s.nextW + 1 }
  | .deliverCmd c =>
    match s.links[c]? with
    | some l =>
      match l.cmds with
      | w :: rest =>
        if l.gone || l.h.closing then { s with links := s.links.insert c { l with cmds := rest } }
        else
          let l' : Link := { l with cmds := rest, h := ClientHandler.sendWantlist l.h w, ins := l.ins ++ [.sendWantlist w] }
          { s with links := s.links.insert c l' }
      | [] => s
    | none => s
  | .handler c i =>
    match s.links[c]? with
    | some l =>
      if l.gone || !allowed l.h i then s
      else
        let r := ClientHandler.step l.h i
        let l' : Link := { l with h := r.1, reps := l.reps ++ reportsOf r.2, ins := l.ins ++ [i] }
        { s with links := s.links.insert c l' }
    | none => s
  | .deliverRep c =>
    match s.links[c]? with
    | some l =>
      match l.reps with
      | r :: rest =>
        { s with cl := (Client.step s.cl (repOp l.peer c r)).1, links := s.links.insert c { l with reps := rest } }
      | [] => s
    | none => s
  | .swarmClosed c =>
    match s.links[c]? with
    | some l =>
      if !l.gone && l.h.closing && l.h.queue.isEmpty && l.reps.isEmpty then
        { s with cl := (Client.step s.cl (.closed l.peer c)).1,
                 links := s.links.insert c { l with gone := true, cmds := [] } }
      else s
    | none => s

def run (s : State) (acts : List Act) : State := acts.foldl step s

inductive Reachable : State → Prop where
  | init : Reachable {}
  | step {s} (a : Act) : Reachable s → Reachable (step s a)

/-- What `send_wantlist` asserts (`debug_assert!(self.msg.is_none())`,
`debug_assert!(matches!(self.sending_state, SendingState::Ready))`) and the specification of one
connection demands: the handler has reported the outcome of everything it was handed before. -/
def handlerFree (h : ClientHandler.H) : Bool :=
  decide (h.ss = .ready) && h.msg.isNone && h.queue.isEmpty

/-- The hand-over discipline, as a check on a state: every wantlist waiting to be taken by a live
connection finds the handler free, and no connection has two waiting. -/
def disciplined (s : State) : Bool :=
  s.links.toList.all fun cl =>
    let l := cl.2
    decide (l.cmds.length ≤ 1) && (l.cmds.isEmpty || l.gone || l.h.closing || handlerFree l.h)

end Beetswap.ClientLink

namespace Beetswap.ClientLink
open Std Beetswap.Client

/-- The composition as it was before the repair of finding F14: `sending_state_changed` did not
know which connection reports and overwrote the peer's sending state unconditionally. Everything
else is `step`. -/
def stepPinned (s : State) (a : Act) : State :=
  match a with
  | .deliverRep c =>
    match s.links[c]? with
    | some l =>
      match l.reps with
      | .state hs :: rest =>
        { s with cl := { s.cl with s := Client.setSending s.cl.s l.peer (toSending c hs) },
                 links := s.links.insert c { l with reps := rest } }
      | _ => step s a
    | none => s
  | _ => step s a

end Beetswap.ClientLink
