import Beetswap.Model.ClientHandler
import Beetswap.Model.ServerSink
import Beetswap.Model.Inbound
/-!
`lib.rs::ConnHandler`: the connection handler the swarm talks to — the client half
(`Model/ClientHandler`), the server half (`Model/ServerSink`) and the inbound substreams
(`Model/Inbound`) of one connection, and how behaviour events, connection events and `poll` are
routed between them.
-/
namespace Beetswap.ConnHandler
open Beetswap.Proto

structure CH where
  client : ClientHandler.H := {}
  server : ServerSink.H := {}
  streams : Inbound.Streams := []
deriving Repr, DecidableEq

inductive Requester where
  | client | server
deriving Repr, DecidableEq

/-- what the environment answers during one `poll` -/
structure Env where
  order : List Nat := []                 -- inbound substreams polled, in order
  inbound : Nat → Inbound.Env := fun _ => {}
  client : ClientHandler.Env := { timerFired := false, pollReady := .pending, startSendOk := true, flush := .pending }
  server : List ServerSink.Ans := []

inductive In where
  | sendWantlist (w : Nat)               -- `ToHandlerEvent::SendWantlist`
  | queueBlocks (bs : List Block)        -- `ToHandlerEvent::QueueOutgoingMessages`
  | outbound (r : Requester) (sid : Nat) -- `FullyNegotiatedOutbound`
  | dialError (r : Requester)            -- `DialUpgradeError`
  | inbound (sid : Nat)                  -- `FullyNegotiatedInbound`
  | poll (env : Env)
  | pollClose

/-- what `poll` / `poll_close` hand back to the swarm -/
inductive Ev where
  | incoming (sid m : Nat)               -- `NotifyBehaviour(IncomingMessage(peer, msg))`
  | report (r : ClientHandler.Report)    -- `NotifyBehaviour` from the client half
  | openSubstream (r : Requester)        -- `OutboundSubstreamRequest`
deriving Repr, DecidableEq

/-- effects on the outbound substreams -/
inductive Out where
  | ev (e : Ev)
  | client (o : ClientHandler.Out)
  | server (o : ServerSink.Out)
deriving Repr, DecidableEq

/-- `connection_keep_alive` -/
def keepAlive (h : CH) : Bool := !h.client.halted

def clientOuts (os : List ClientHandler.Out) : List Out :=
  os.filterMap fun o => match o with
    | .report _ => none
    | .openSubstream => none
    | o => some (.client o)

def serverOuts (os : List ServerSink.Out) : List Out :=
  os.filterMap fun o => match o with
    | .openSubstream => none
    | o => some (.server o)

/-- `poll`: inbound substreams first, then the client half, then the server half; the first one
that is ready returns, the others are not polled in this call. -/
def poll (h : CH) (env : Env) : CH × List Out :=
  match Inbound.selectPoll h.streams env.inbound env.order with
  | (ss, some (sid, m)) => ({ h with streams := ss }, [.ev (.incoming sid m)])
  | (ss, none) =>
    let h := { h with streams := ss }
    let (c, r, co) := ClientHandler.poll ClientHandler.pollFuel h.client env.client []
    match r with
    | .event rep => ({ h with client := c }, clientOuts co ++ [.ev (.report rep)])
    | .openSubstream => ({ h with client := c }, clientOuts co ++ [.ev (.openSubstream .client)])
    | .pending =>
      let h := { h with client := c }
      let (s, r, so) := ServerSink.poll h.server env.server
      match r with
      | .openSubstream => ({ h with server := s }, clientOuts co ++ serverOuts so ++ [.ev (.openSubstream .server)])
      | .pending => ({ h with server := s }, clientOuts co ++ serverOuts so)

def step (h : CH) : In → CH × List Out
  | .sendWantlist w => ({ h with client := ClientHandler.sendWantlist h.client w }, [])
  | .queueBlocks bs => ({ h with server := ServerSink.queue h.server bs }, [])
  | .outbound .client sid => ({ h with client := ClientHandler.setStream h.client sid }, [])
  | .outbound .server sid => ({ h with server := ServerSink.setStream h.server sid }, [])
  | .dialError .client => ({ h with client := ClientHandler.allocFailed h.client }, [])
  | .dialError .server => ({ h with server := ServerSink.allocFailed h.server }, [])
  | .inbound sid => ({ h with streams := Inbound.push h.streams sid }, [])
  | .poll env => poll h env
  | .pollClose =>
    let (c, o) := ClientHandler.beginClose h.client
    let (c, r) := ClientHandler.popClose c
    ({ h with client := c }, clientOuts o ++ (match r with
      | some r => [.ev (.report r)]
      | none => []))

def run (h : CH) : List In → CH × List Out
  | [] => (h, [])
  | i :: is =>
    let (h', o1) := step h i
    let (h'', o2) := run h' is
    (h'', o1 ++ o2)

end Beetswap.ConnHandler
