import Beetswap.Model.Client
/-!
`server.rs::ServerBehaviour` as a state machine. A wantlist message from a peer is a list of
entries `(cid?, cancel)` where `cid? = none` stands for bytes that do not parse as a CID.
-/
namespace Beetswap.Server
open Std Beetswap.Client

/-- Specification literal; `Generated.implMaxWantlistEntries` is what the source says. -/
def maxWantlistEntries : Nat := 1024

structure Entry where
  cid : Option Nat
  cancel : Bool
deriving Repr, DecidableEq

inductive LookupSt where
  | fresh
  | waiting (seq : Nat)
  | ready (r : StoreRes)       -- the current `store.get` completed, task not yet polled
deriving Repr

/-- `get_multiple_cids_from_store`: sequential lookups for one peer. -/
structure Task where
  id : Nat
  peer : Nat
  todo : List Nat                       -- CIDs still to look up (head = current)
  results : List (Nat × StoreRes) := [] -- finished lookups, in order
  st : LookupSt := .fresh
deriving Repr

structure State where
  wl : KMap KSet := ∅                 -- `peers_wantlists`
  waiting : KMap (List Nat) := ∅      -- `peers_waiting_for_cid`
  outq : List (Nat × Nat) := []       -- `outgoing_queue`: (cid, data)
  evq : List Out := []                -- `outgoing_event_queue`
  tasks : List Task := []
  runq : List Nat := []
  nextTask : Nat := 0

def dedup : List Nat → List Nat
  | [] => []
  | k :: ks => if k ∈ ks then dedup ks else k :: dedup ks

/-- `PeerWantlist::process_wantlist`: returns the new record, the additions and the removals. -/
def processWantlist (cur : KSet) (full : Bool) (entries : List Entry) : KSet × List Nat × List Nat :=
  if full then
    -- non-cancel decodable CIDs of the first `maxWantlistEntries` such entries
    let wanted := (entries.filterMap (fun e => if e.cancel then none else e.cid)).take maxWantlistEntries
    let new : KSet := wanted.foldl (fun s k => s.insert k) ∅
    (new, new.toList.filter (fun k => k ∉ cur), cur.toList.filter (fun k => k ∉ new))
  else
    let decodable := entries.filterMap (fun e => e.cid.map (fun k => (e.cancel, k)))
    let cancels := (decodable.filter (·.1)).map (·.2)
    let adds := (decodable.filter (fun e => !e.1)).map (·.2)
    -- cancels first, so that the cap is applied to what remains
    let (cur, removed) := cancels.foldl (fun (acc : KSet × List Nat) k =>
      if k ∈ acc.1 then (acc.1.erase k, acc.2 ++ [k]) else acc) (cur, [])
    let rec addLoop (cur : KSet) (added : List Nat) : List Nat → KSet × List Nat
      | [] => (cur, added)
      | k :: ks =>
        if cur.size ≥ maxWantlistEntries then (cur, added)
        else if k ∈ cur then addLoop cur added ks
        else addLoop (cur.insert k) (added ++ [k]) ks
    let (cur, added) := addLoop cur [] adds
    (cur, added, removed)

/-- `cancel_request`: remove one occurrence of the peer from the waiter list of `k`. -/
def cancelRequest (s : State) (p k : Nat) : State :=
  match s.waiting[k]? with
  | none => s
  | some ps =>
    let ps' := ps.erase p
    if ps'.isEmpty then { s with waiting := s.waiting.erase k }
    else { s with waiting := s.waiting.insert k ps' }

/-- `new_connection_handler` -/
def connect (s : State) (p : Nat) : State :=
  if p ∈ s.wl then s else { s with wl := s.wl.insert p ∅ }

/-- the peer's last connection closed: its record and its waiter entries are dropped -/
def disconnected (s : State) (p : Nat) : State :=
  { s with wl := s.wl.erase p,
           waiting := KMap.tab s.waiting.keys (fun k =>
             match (s.waiting[k]?.getD []).filter (· != p) with
             | [] => none
             | l => some l) }

/-- `process_incoming_message` -/
def incoming (s : State) (p : Nat) (full : Bool) (entries : List Entry) : State :=
  match s.wl[p]? with
  | none => s
  | some cur =>
    let (cur, added, removed) := processWantlist cur full entries
    let s := { s with wl := s.wl.insert p cur }
    -- withdrawals first, then the new wants are registered
    let s := removed.foldl (fun s k => cancelRequest s p k) s
    let s := added.foldl (fun s k => { s with waiting := s.waiting.insert k ((s.waiting[k]?.getD []) ++ [p]) }) s
    let id := s.nextTask
    { s with tasks := s.tasks ++ [{ id := id, peer := p, todo := added }], runq := s.runq ++ [id],
             nextTask := id + 1 }

/-- `new_blocks_available` -/
def newBlocks (s : State) (bs : List (Nat × Nat)) : State := { s with outq := s.outq ++ bs }

def complete (s : State) (seq : Nat) (r : StoreRes) : Option State :=
  match s.tasks.find? (fun t => match t.st with | .waiting n => n == seq | _ => false) with
  | none => none
  | some t =>
    some { s with tasks := s.tasks.map (fun u => if u.id == t.id then { u with st := .ready r } else u),
                  runq := Client.enqueue s.runq t.id }

/-- `process_store_get_results` -/
def finish (s : State) (results : List (Nat × StoreRes)) : State :=
  { s with outq := s.outq ++ results.filterMap (fun kr => match kr.2 with
      | .hit d => some (kr.1, d)
      | _ => none) }

/-- One task of the ready-to-run queue is polled. The order in which the additions of a
*full* wantlist are looked up is the iteration order of a hash set: `obs seq` is the observed /
quantified choice of the CID looked up by call `seq`, honoured when it is still to do. -/
def pollTask (s : State) (seq : Nat) (obs : Nat → Option Nat) (id : Nat) : State × Nat × List Out :=
  match s.tasks.find? (·.id == id) with
  | none => (s, seq, [])
  | some t =>
    let set (t' : Task) (s : State) : State := { s with tasks := s.tasks.map (fun u => if u.id == id then t' else u) }
    let drop (s : State) : State := { s with tasks := s.tasks.filter (·.id != id) }
    -- start the next lookup of the task, or finish it
    let next (t : Task) (s : State) : State × Nat × List Out :=
      match t.todo with
      | [] => (finish (drop s) t.results, seq, [])
      | k0 :: _ =>
        let k := match obs seq with
          | some k => if k ∈ t.todo then k else k0
          | none => k0
        (set { t with todo := k :: t.todo.erase k, st := .waiting seq } s, seq + 1, [.callGet seq k])
    match t.st with
    | .fresh => next t s
    | .waiting _ => (s, seq, [])
    | .ready r =>
      match t.todo with
      | [] => (finish (drop s) t.results, seq, [])
      | k :: rest => next { t with todo := rest, results := t.results ++ [(k, r)], st := .fresh } s

def pollTasks (s : State) (seq : Nat) (obs : Nat → Option Nat) : List Nat → State × Nat × List Out
  | [] => (s, seq, [])
  | id :: ids =>
    let (s, seq, o1) := pollTask s seq obs id
    let (s, seq, o2) := pollTasks s seq obs ids
    (s, seq, o1 ++ o2)

/-- insertion of one block into the per-peer batches (peers in first-seen order) -/
def addBlock (acc : List (Nat × List (Nat × Nat))) (p : Nat) (kd : Nat × Nat) :
    List (Nat × List (Nat × Nat)) :=
  if acc.any (·.1 == p) then acc.map (fun e => if e.1 == p then (e.1, e.2 ++ [kd]) else e)
  else acc ++ [(p, [kd])]

/-- `update_handlers`: every queued block goes to the peers waiting for it; a served want is
forgotten. -/
def updateHandlers (s : State) : State × List Out :=
  let (s, batches) := s.outq.foldl (fun (acc : State × List (Nat × List (Nat × Nat))) kd =>
    match acc.1.waiting[kd.1]? with
    | none => acc
    | some ps =>
      let st := { acc.1 with waiting := acc.1.waiting.erase kd.1 }
      ps.foldl (fun (acc : State × List (Nat × List (Nat × Nat))) p =>
        ({ acc.1 with wl := match acc.1.wl[p]? with
            | some set => acc.1.wl.insert p (set.erase kd.1)
            | none => acc.1.wl },
         addBlock acc.2 p kd)) (st, acc.2)) ({ s with outq := [] }, [])
  (s, batches.map (fun e => Out.blocks e.1 e.2))

/-- `poll` until `Pending` -/
def drain (s : State) (seq : Nat) (obs : Nat → Option Nat) : State × Nat × List Out :=
  let q := s.evq
  let runq := s.runq
  let (s, seq, o1) := pollTasks { s with evq := [], runq := [] } seq obs runq
  let (s, o2) := updateHandlers s
  (s, seq, q ++ o1 ++ o2)

/-! ### The server half as a labelled transition system -/

inductive Op where
  | connect (p : Nat)
  | disconnected (p : Nat)
  | msg (p : Nat) (full : Bool) (entries : List Entry)
  | newBlocks (bs : List (Nat × Nat))
  | complete (seq : Nat) (r : StoreRes)
  | drain (obs : Nat → Option Nat)

/-- One step; `seq` counts the blockstore calls started so far. -/
def step (s : State) (seq : Nat) : Op → State × Nat × List Out
  | .connect p => (connect s p, seq, [])
  | .disconnected p => (disconnected s p, seq, [])
  | .msg p full es => (incoming s p full es, seq, [])
  | .newBlocks bs => (newBlocks s bs, seq, [])
  | .complete n r => ((complete s n r).getD s, seq, [])
  | .drain obs => drain s seq obs

/-- States reachable from the initial state by any finite sequence of operations. -/
inductive Reachable : State → Nat → Prop where
  | init : Reachable {} 0
  | step {s seq} (op : Op) : Reachable s seq → Reachable (step s seq op).1 (step s seq op).2.1

end Beetswap.Server
