import Beetswap.Model.Varint
/-!
CID layer: `cid_prefix.rs`, `multihasher.rs`, `utils.rs::convert_*`, and the three-line
validity rule of `cid::CidGeneric::new`.
-/
namespace Beetswap.Cid

def DAG_PB : Nat := 0x70
def SHA2_256 : Nat := 0x12
def SHA2_256_SIZE : Nat := 0x20

structure Multihash where
  code : Nat
  digest : List Nat
deriving Repr, DecidableEq

/-- `version` is 0 or 1. -/
structure Cid where
  version : Nat
  codec : Nat
  hash : Multihash
deriving Repr, DecidableEq

/-- What `cid::CidGeneric` values can be: a v0 CID is dag-pb / sha2-256 / 32 bytes. -/
def Cid.WF (c : Cid) : Prop :=
  (c.version = 0 ∨ c.version = 1) ∧
  (c.version = 0 → c.codec = DAG_PB ∧ c.hash.code = SHA2_256 ∧ c.hash.digest.length = 32)

/-- `CidGeneric::new` -/
def Cid.new (version codec : Nat) (hash : Multihash) : Option Cid :=
  if version = 0 then
    if codec ≠ DAG_PB then none
    else if hash.code ≠ SHA2_256 ∨ hash.digest.length ≠ 32 then none
    else some ⟨0, DAG_PB, hash⟩
  else some ⟨1, codec, hash⟩

structure CidPrefix where
  version : Nat
  codec : Nat
  mhCode : Nat
  mhSize : Nat
deriving Repr, DecidableEq

/-- `CidPrefix::from_cid` -/
def CidPrefix.fromCid (c : Cid) : CidPrefix :=
  ⟨c.version, c.codec, c.hash.code, c.hash.digest.length⟩

/-- `CidPrefix::from_bytes` -/
def CidPrefix.fromBytes (bs : List Nat) : Option CidPrefix :=
  match Varint.dec bs with
  | .ok rawVersion rest =>
    match Varint.dec rest with
    | .ok codec rest =>
      -- CIDv0 is a naked multihash with fixed code and size
      if rawVersion = SHA2_256 ∧ codec = SHA2_256_SIZE then
        some ⟨0, DAG_PB, SHA2_256, SHA2_256_SIZE⟩
      else if rawVersion > 1 then none
      else
        match Varint.dec rest with
        | .ok mhCode rest =>
          match Varint.dec rest with
          | .ok mhSize _ =>
            -- an explicit version 0 must describe a valid CIDv0
            if rawVersion = 0 ∧ ¬ (codec = DAG_PB ∧ mhCode = SHA2_256 ∧ mhSize = SHA2_256_SIZE) then none
            else some ⟨rawVersion, codec, mhCode, mhSize⟩
          | _ => none
        | _ => none
    | _ => none
  | _ => none

/-- `CidPrefix::to_bytes` -/
def CidPrefix.toBytes (p : CidPrefix) : List Nat :=
  if p.version = 0 then Varint.enc SHA2_256 ++ Varint.enc SHA2_256_SIZE
  else Varint.enc p.version ++ Varint.enc p.codec ++ Varint.enc p.mhCode ++ Varint.enc p.mhSize

/-- Outcome of one multihasher. -/
inductive HashRes where
  | ok (mh : Multihash)
  | unknown          -- `UnknownMultihashCode`
  | size             -- `InvalidMultihashSize`
  | custom           -- `Custom(_)`
  | fatal            -- `CustomFatal(_)`
deriving Repr, DecidableEq

/-- A multihasher: code → data → result. Hash functions are not modelled; they are
parameters (oracles) of every theorem. -/
abbrev Hasher := Nat → List Nat → HashRes

/-- `MultihasherTable::hash`: the table is in consultation order (most recently registered
first, built-in last); the first answer that is not `unknown` wins. -/
def tableHash (table : List Hasher) (code : Nat) (data : List Nat) : HashRes :=
  match table with
  | [] => .unknown
  | h :: rest =>
    match h code data with
    | .unknown => tableHash rest code data
    | r => r

/-- `MultihasherTable::register` pushes to the front; `new` starts with the built-in one. -/
def tableRegister (table : List Hasher) (h : Hasher) : List Hasher := h :: table

inductive ToCidRes where
  | ok (c : Cid)
  | unknown
  | size
  | custom
  | fatal
  | panic            -- `expect("prefix for cidv0 was initalized incorrectly")`
deriving Repr, DecidableEq

/-- `CidPrefix::to_cid::<S>` -/
def CidPrefix.toCid (S : Nat) (H : Hasher) (p : CidPrefix) (data : List Nat) : ToCidRes :=
  if p.mhSize > S then .size
  else
    match H p.mhCode data with
    | .ok mh =>
      match Cid.new p.version p.codec mh with
      | some c => .ok c
      | none => .panic
    | .unknown => .unknown
    | .size => .size
    | .custom => .custom
    | .fatal => .fatal

/-- `convert_multihash::<S, NEW_S>`: `Multihash::wrap` fails iff the digest does not fit. -/
def convertMultihash (newS : Nat) (mh : Multihash) : Option Multihash :=
  if mh.digest.length ≤ newS then some mh else none

/-- `convert_cid::<S, NEW_S>` -/
def convertCid (newS : Nat) (c : Cid) : Option Cid :=
  match convertMultihash newS c.hash with
  | some h => Cid.new c.version c.codec h
  | none => none

end Beetswap.Cid
