import Beetswap.Model.ClientHandler
/-!
`ClientConnectionHandler` with its clock: `start_sending_timeout = Delay::new(START_SENDING_TIMEOUT)`
is armed when a wantlist is accepted and, polled, is ready exactly when that much time has
passed. `Model/ClientHandler` leaves "the timer fired" to the environment; here it is a function
of the time of the call, everything else is unchanged.
-/
namespace Beetswap.ClientHandlerTimed
open Beetswap.ClientHandler

/-- `START_SENDING_TIMEOUT`, milliseconds -/
def startSendingTimeout : Nat := 5000

structure T where
  h : H := {}
  deadline : Nat := 0          -- meaningful while `h.timer`
deriving Repr, DecidableEq

/-- what the sink answers during one `poll` (the timer is no longer the environment's) -/
structure SinkEnv where
  pollReady : IoRes
  startSendOk : Bool
  flush : IoRes
deriving Repr, DecidableEq

def envAt (t : T) (now : Nat) (e : SinkEnv) : Env :=
  { timerFired := decide (t.deadline ≤ now), pollReady := e.pollReady, startSendOk := e.startSendOk, flush := e.flush }

inductive TIn where
  | sendWantlist (now w : Nat)
  | setStream (sid : Nat)
  | allocFailed
  | poll (now : Nat) (e : SinkEnv)
  | pollClose
deriving Repr

/-- the untimed input a timed input amounts to in state `t` -/
def untimed (t : T) : TIn → In
  | .sendWantlist _ w => .sendWantlist w
  | .setStream sid => .setStream sid
  | .allocFailed => .allocFailed
  | .poll now e => .poll (envAt t now e)
  | .pollClose => .pollClose

def step (t : T) (i : TIn) : T × List Out :=
  let (h', o) := ClientHandler.step t.h (untimed t i)
  match i with
  | .sendWantlist now _ =>
    ({ h := h', deadline := if t.h.halted then t.deadline else now + startSendingTimeout }, o)
  | _ => ({ t with h := h' }, o)

def run (t : T) : List TIn → T × List Out
  | [] => (t, [])
  | i :: is =>
    let (t', o1) := step t i
    let (t'', o2) := run t' is
    (t'', o1 ++ o2)

/-- the untimed inputs of a timed run -/
def untimedRun (t : T) : List TIn → List In
  | [] => []
  | i :: is => untimed t i :: untimedRun (step t i).1 is

end Beetswap.ClientHandlerTimed
