/-!
`client.rs::ClientConnectionHandler` as an automaton. Wantlists are opaque tags, streams are
numbered by the environment. What the sink (a `FramedWrite` over a yamux stream) and the timer
answer is the environment's choice (`Env`), an input of `poll`.
-/
namespace Beetswap.ClientHandler

inductive Sink where
  | none
  | requested
  | ready (sid : Nat)
deriving Repr, DecidableEq

/-- the handler's copy of `SendingState` (the connection id is implicit) -/
inductive HS where
  | ready | requestReceived | sending | failed
deriving Repr, DecidableEq

inductive Report where
  | state (s : HS)            -- `SendingStateChanged`
  | closingConn               -- `ClientClosingConnection`
deriving Repr, DecidableEq

structure H where
  msg : Option Nat := none
  sink : Sink := .none
  ss : HS := .ready
  timer : Bool := false        -- `start_sending_timeout` armed
  halted : Bool := false
  closing : Bool := false
  queue : List Report := []
deriving Repr, DecidableEq

inductive IoRes where
  | ok | err | pending
deriving Repr, DecidableEq

/-- What the environment answers during one `poll`. -/
structure Env where
  timerFired : Bool
  pollReady : IoRes
  startSendOk : Bool
  flush : IoRes
deriving Repr, DecidableEq

/-- Observable effects. -/
inductive Out where
  | report (r : Report)        -- event to the behaviour
  | openSubstream              -- `OutboundSubstreamRequest`
  | wrote (sid w : Nat)        -- one complete frame of wantlist `w` buffered on stream `sid`
  | flushed (sid : Nat)        -- the buffered frame reached the stream
  | closed (sid : Nat)         -- stream closed / dropped by the handler
deriving Repr, DecidableEq

/-- `change_sending_state` -/
def changeState (h : H) (s : HS) : H :=
  if h.ss = s then h else { h with ss := s, queue := h.queue ++ [.state s] }

def dropSink (h : H) : H × List Out :=
  match h.sink with
  | .ready sid => ({ h with sink := .none }, [.closed sid])
  | _ => ({ h with sink := .none }, [])

/-- `send_wantlist` -/
def sendWantlist (h : H) (w : Nat) : H :=
  if h.halted then h
  else { changeState { h with msg := some w } .requestReceived with timer := true }

/-- `set_stream` -/
def setStream (h : H) (sid : Nat) : H := if h.halted then h else { h with sink := .ready sid }

/-- `stream_allocation_failed` -/
def allocFailed (h : H) : H := if h.halted then h else { h with sink := .none }

/-- `poll_close`, first call: the remaining events are then popped one per call. -/
def beginClose (h : H) : H × List Out :=
  if h.closing then (h, [])
  else
    let h := { h with closing := true, msg := none }
    let (h, o) := dropSink h
    let h := if h.ss = .requestReceived ∨ h.ss = .sending then changeState h .failed else h
    ({ h with queue := h.queue ++ [.closingConn] }, o)

def popClose (h : H) : H × Option Report :=
  match h.queue with
  | [] => (h, none)
  | r :: rest => ({ h with queue := rest }, some r)

inductive PollRes where
  | event (r : Report)
  | openSubstream
  | pending
deriving Repr, DecidableEq

/-- `poll`: the loop runs at most a few iterations (`fuel`); each iteration either returns or
changes the state towards a return. -/
def poll (fuel : Nat) (h : H) (env : Env) (acc : List Out) : H × PollRes × List Out :=
  match fuel with
  | 0 => (h, .pending, acc)
  | fuel + 1 =>
    match h.queue with
    | r :: rest => ({ h with queue := rest }, .event r, acc)
    | [] =>
      if h.halted then (h, .pending, acc)
      else if h.timer ∧ env.timerFired then
        -- never reached `Sending` in time: abort and halt this connection
        let (h, o) := dropSink { h with timer := false, msg := none }
        let h := changeState h .failed
        poll fuel { h with halted := true } env (acc ++ o)
      else
        match h.msg, h.sink with
        | none, .none => (h, .pending, acc)
        | some _, .none => ({ h with sink := .requested }, .openSubstream, acc)
        | _, .requested => (h, .pending, acc)
        | none, .ready sid =>
          match env.flush with
          | .pending => (h, .pending, acc)
          | .err =>
            let (h, o) := dropSink h
            poll fuel (changeState h .failed) env (acc ++ o)
          | .ok =>
            -- sending finished: close the stream
            let h := { h with sink := .none }
            poll fuel (changeState h .ready) env (acc ++ [.flushed sid, .closed sid])
        | some w, .ready sid =>
          match env.pollReady with
          | .pending => (h, .pending, acc)
          | .err =>
            let (h, o) := dropSink h
            poll fuel h env (acc ++ o)
          | .ok =>
            if env.startSendOk then
              let h := { h with msg := none, timer := false }
              poll fuel (changeState h .sending) env (acc ++ [.wrote sid w])
            else
              let (h, o) := dropSink h
              poll fuel h env (acc ++ o)

def pollFuel : Nat := 6

inductive In where
  | sendWantlist (w : Nat)
  | setStream (sid : Nat)
  | allocFailed
  | poll (env : Env)
  | pollClose
deriving Repr

/-- One input; outputs in order. For `pollClose` the report popped, if any, is the last output. -/
def step (h : H) : In → H × List Out
  | .sendWantlist w => (sendWantlist h w, [])
  | .setStream sid => (setStream h sid, [])
  | .allocFailed => (allocFailed h, [])
  | .poll env =>
    let (h, r, o) := poll pollFuel h env []
    (h, o ++ (match r with
      | .event r => [.report r]
      | .openSubstream => [.openSubstream]
      | .pending => []))
  | .pollClose =>
    let (h, o) := beginClose h
    let (h, r) := popClose h
    (h, o ++ (match r with
      | some r => [.report r]
      | none => []))

def run (h : H) : List In → H × List Out
  | [] => (h, [])
  | i :: is =>
    let (h', o1) := step h i
    let (h'', o2) := run h' is
    (h'', o1 ++ o2)

end Beetswap.ClientHandler
