import Beetswap.Model.Varint
/-!
Model of the generated `proto/message.rs` reader/writer on top of quick-protobuf 0.8.1's
`BytesReader` / `Writer`, and of `message.rs::Codec`.

Reader state: `avail` = the bytes from the cursor to the end of the *buffer* the reader was
given, `n` = number of bytes from the cursor to the end of the *current slice* (`end - start`).
quick-protobuf's `read_u8` indexes the whole buffer and never looks at `end`, so a read can
cross the end of the slice: that class of inputs is `overrun`, on which this model leaves the
behaviour of the real parser unspecified (it can panic in overflow-checked builds and loop in
release builds — findings F5/F6).
-/
namespace Beetswap.Proto

/-- Result of a reader step. -/
inductive PRes (α : Type) where
  | ok (v : α) (avail : List Nat) (n : Nat)
  | err
  | overrun
deriving Repr

def u8 (avail : List Nat) (n : Nat) : PRes Nat :=
  match avail with
  | [] => .err
  | b :: rest => if n = 0 then .overrun else .ok b rest (n - 1)

/-- Discard up to `k` continuation bytes (tail of `read_varint32`). -/
def skipCont (k : Nat) (r : Nat) (avail : List Nat) (n : Nat) : PRes Nat :=
  match k with
  | 0 => .err
  | k + 1 =>
    match u8 avail n with
    | .ok b avail n => if b < 128 then .ok r avail n else skipCont k r avail n
    | .err => .err
    | .overrun => .overrun

/-- Bytes 1..3 of `read_varint32` (shift 7, 14, 21), then byte 4 masked with `0xf`. -/
def varint32Aux (i : Nat) (r : Nat) (avail : List Nat) (n : Nat) : PRes Nat :=
  match i with
  | 0 => -- byte 4
    match u8 avail n with
    | .ok b avail n =>
      let r := r + (b % 16) * 2 ^ 28
      if b < 128 then .ok r avail n else skipCont 5 r avail n
    | .err => .err
    | .overrun => .overrun
  | i + 1 =>
    match u8 avail n with
    | .ok b avail n =>
      let r := r + (b % 128) * 2 ^ (7 * (4 - (i + 1)))
      if b < 128 then .ok r avail n else varint32Aux i r avail n
    | .err => .err
    | .overrun => .overrun

/-- `BytesReader::read_varint32`: result `< 2^32`; at most 10 bytes, silent truncation. -/
def readVarint32 (avail : List Nat) (n : Nat) : PRes Nat := varint32Aux 4 0 avail n

/-- `BytesReader::read_varint64`: byte `i` contributes `(b & 0x7f) << 7i` for `i < 9`;
byte 9 contributes `b << 63` truncated to 64 bits; more than 10 bytes is an error. -/
def varint64Aux (i : Nat) (r : Nat) (avail : List Nat) (n : Nat) : PRes Nat :=
  match i with
  | 0 => -- byte 9
    match u8 avail n with
    | .ok b avail n =>
      let r := r + (b % 2) * 2 ^ 63
      if b < 128 then .ok r avail n else .err
    | .err => .err
    | .overrun => .overrun
  | i + 1 =>
    match u8 avail n with
    | .ok b avail n =>
      let r := r + (b % 128) * 2 ^ (7 * (9 - (i + 1)))
      if b < 128 then .ok r avail n else varint64Aux i r avail n
    | .err => .err
    | .overrun => .overrun

def readVarint64 (avail : List Nat) (n : Nat) : PRes Nat := varint64Aux 9 0 avail n

/-- `u32 as i32` -/
def toI32 (u : Nat) : Int := if u < 2 ^ 31 then (u : Int) else (u : Int) - 2 ^ 32

/-- `i32 as u64` (sign extension), the value the writer emits for an `int32`. -/
def i32ToU64 (i : Int) : Nat := if 0 ≤ i then i.toNat else (i + 2 ^ 64).toNat

/-- `read_bytes`: length by `read_varint32`, then the slice. -/
def readBytes (avail : List Nat) (n : Nat) : PRes (List Nat) :=
  match readVarint32 avail n with
  | .ok len avail n =>
    if avail.length < len then .err
    else if n < len then .overrun
    else .ok (avail.take len) (avail.drop len) (n - len)
  | .err => .err
  | .overrun => .overrun

/-- `read_unknown` -/
def readUnknown (tag : Nat) (avail : List Nat) (n : Nat) : PRes Unit :=
  let skip (off : Nat) (avail : List Nat) (n : Nat) : PRes Unit :=
    if n < off then .err else .ok () (avail.drop off) (n - off)
  match tag % 8 with
  | 0 =>
    match readVarint64 avail n with
    | .ok _ avail n => .ok () avail n
    | .err => .err
    | .overrun => .overrun
  | 1 => skip 8 avail n
  | 5 => skip 4 avail n
  | 2 =>
    match readVarint64 avail n with
    | .ok off avail n => skip off avail n
    | .err => .err
    | .overrun => .overrun
  | _ => .err

/-- `read_message` (`read_len_varint` + `from_reader`): `body avail len` parses the nested
message on the slice of `len` bytes starting at the cursor. -/
def readNested {α : Type} (body : List Nat → Nat → PRes α) (avail : List Nat) (n : Nat) : PRes α :=
  match readVarint32 avail n with
  | .ok len avail n =>
    if avail.length < len then
      -- the nested slice ends past the buffer: the nested reader always ends in an error,
      -- unless one of its own reads crosses a slice end first
      match body avail len with
      | .overrun => .overrun
      | _ => .err
    else if n < len then .overrun
    else
      match body avail len with
      | .ok v avail' _ => .ok v avail' (n - len)
      | .err => .err
      | .overrun => .overrun
  | .err => .err
  | .overrun => .overrun

/-! ### Message types (`proto/message.rs`) -/

structure Entry where
  block : List Nat := []
  priority : Int := 0
  cancel : Bool := false
  wantType : Nat := 0        -- 0 = Block, 1 = Have
  sendDontHave : Bool := false
deriving Repr, DecidableEq

structure Wantlist where
  entries : List Entry := []
  full : Bool := false
deriving Repr, DecidableEq

structure Block where
  pfx : List Nat := []
  data : List Nat := []
deriving Repr, DecidableEq

structure Presence where
  cid : List Nat := []
  type : Nat := 0            -- 0 = Have, 1 = DontHave
deriving Repr, DecidableEq

structure Message where
  wantlist : Option Wantlist := none
  payload : List Block := []
  presences : List Presence := []
  pendingBytes : Int := 0
deriving Repr, DecidableEq

/-- `From<i32>` of the two enums: 0 and 1 are kept, everything else is the default 0. -/
def enum01 (u : Nat) : Nat := if toI32 u = 1 then 1 else 0

/-- One iteration of a `from_reader` loop applied until `is_eof`. `fuel` bounds the number of
iterations; every iteration consumes at least one byte, so `n + 1` always suffices. -/
def entryLoop (fuel : Nat) (e : Entry) (avail : List Nat) (n : Nat) : PRes Entry :=
  match fuel with
  | 0 => .err
  | fuel + 1 =>
    if n = 0 then .ok e avail 0 else
    match readVarint32 avail n with
    | .ok tag avail n =>
      if tag = 10 then
        match readBytes avail n with
        | .ok v avail n => entryLoop fuel { e with block := v } avail n
        | .err => .err | .overrun => .overrun
      else if tag = 16 then
        match readVarint32 avail n with
        | .ok v avail n => entryLoop fuel { e with priority := toI32 v } avail n
        | .err => .err | .overrun => .overrun
      else if tag = 24 then
        match readVarint32 avail n with
        | .ok v avail n => entryLoop fuel { e with cancel := v != 0 } avail n
        | .err => .err | .overrun => .overrun
      else if tag = 32 then
        match readVarint32 avail n with
        | .ok v avail n => entryLoop fuel { e with wantType := enum01 v } avail n
        | .err => .err | .overrun => .overrun
      else if tag = 40 then
        match readVarint32 avail n with
        | .ok v avail n => entryLoop fuel { e with sendDontHave := v != 0 } avail n
        | .err => .err | .overrun => .overrun
      else
        match readUnknown tag avail n with
        | .ok _ avail n => entryLoop fuel e avail n
        | .err => .err | .overrun => .overrun
    | .err => .err
    | .overrun => .overrun

def parseEntry (avail : List Nat) (n : Nat) : PRes Entry := entryLoop (n + 1) {} avail n

def wantlistLoop (fuel : Nat) (w : Wantlist) (avail : List Nat) (n : Nat) : PRes Wantlist :=
  match fuel with
  | 0 => .err
  | fuel + 1 =>
    if n = 0 then .ok w avail 0 else
    match readVarint32 avail n with
    | .ok tag avail n =>
      if tag = 10 then
        match readNested parseEntry avail n with
        | .ok v avail n => wantlistLoop fuel { w with entries := w.entries ++ [v] } avail n
        | .err => .err | .overrun => .overrun
      else if tag = 16 then
        match readVarint32 avail n with
        | .ok v avail n => wantlistLoop fuel { w with full := v != 0 } avail n
        | .err => .err | .overrun => .overrun
      else
        match readUnknown tag avail n with
        | .ok _ avail n => wantlistLoop fuel w avail n
        | .err => .err | .overrun => .overrun
    | .err => .err
    | .overrun => .overrun

def parseWantlist (avail : List Nat) (n : Nat) : PRes Wantlist := wantlistLoop (n + 1) {} avail n

def blockLoop (fuel : Nat) (b : Block) (avail : List Nat) (n : Nat) : PRes Block :=
  match fuel with
  | 0 => .err
  | fuel + 1 =>
    if n = 0 then .ok b avail 0 else
    match readVarint32 avail n with
    | .ok tag avail n =>
      if tag = 10 then
        match readBytes avail n with
        | .ok v avail n => blockLoop fuel { b with pfx := v } avail n
        | .err => .err | .overrun => .overrun
      else if tag = 18 then
        match readBytes avail n with
        | .ok v avail n => blockLoop fuel { b with data := v } avail n
        | .err => .err | .overrun => .overrun
      else
        match readUnknown tag avail n with
        | .ok _ avail n => blockLoop fuel b avail n
        | .err => .err | .overrun => .overrun
    | .err => .err
    | .overrun => .overrun

def parseBlock (avail : List Nat) (n : Nat) : PRes Block := blockLoop (n + 1) {} avail n

def presenceLoop (fuel : Nat) (p : Presence) (avail : List Nat) (n : Nat) : PRes Presence :=
  match fuel with
  | 0 => .err
  | fuel + 1 =>
    if n = 0 then .ok p avail 0 else
    match readVarint32 avail n with
    | .ok tag avail n =>
      if tag = 10 then
        match readBytes avail n with
        | .ok v avail n => presenceLoop fuel { p with cid := v } avail n
        | .err => .err | .overrun => .overrun
      else if tag = 16 then
        match readVarint32 avail n with
        | .ok v avail n => presenceLoop fuel { p with type := enum01 v } avail n
        | .err => .err | .overrun => .overrun
      else
        match readUnknown tag avail n with
        | .ok _ avail n => presenceLoop fuel p avail n
        | .err => .err | .overrun => .overrun
    | .err => .err
    | .overrun => .overrun

def parsePresence (avail : List Nat) (n : Nat) : PRes Presence := presenceLoop (n + 1) {} avail n

def messageLoop (fuel : Nat) (m : Message) (avail : List Nat) (n : Nat) : PRes Message :=
  match fuel with
  | 0 => .err
  | fuel + 1 =>
    if n = 0 then .ok m avail 0 else
    match readVarint32 avail n with
    | .ok tag avail n =>
      if tag = 10 then
        match readNested parseWantlist avail n with
        | .ok v avail n => messageLoop fuel { m with wantlist := some v } avail n
        | .err => .err | .overrun => .overrun
      else if tag = 26 then
        match readNested parseBlock avail n with
        | .ok v avail n => messageLoop fuel { m with payload := m.payload ++ [v] } avail n
        | .err => .err | .overrun => .overrun
      else if tag = 34 then
        match readNested parsePresence avail n with
        | .ok v avail n => messageLoop fuel { m with presences := m.presences ++ [v] } avail n
        | .err => .err | .overrun => .overrun
      else if tag = 40 then
        match readVarint32 avail n with
        | .ok v avail n => messageLoop fuel { m with pendingBytes := toI32 v } avail n
        | .err => .err | .overrun => .overrun
      else
        match readUnknown tag avail n with
        | .ok _ avail n => messageLoop fuel m avail n
        | .err => .err | .overrun => .overrun
    | .err => .err
    | .overrun => .overrun

/-- `read_message_by_len(rest, len)` at the top level. -/
def parseMessage (avail : List Nat) (n : Nat) : PRes Message := messageLoop (n + 1) {} avail n

/-! ### Writer (`write_message` / `get_size`) -/

/-- `Writer::write_varint` (protobuf varint of a `u64`) — same bytes as unsigned-varint. -/
def wVarint (v : Nat) : List Nat := Varint.enc v

def sizeofVarint (v : Nat) : Nat := (Varint.enc v).length

def sizeofLen (l : Nat) : Nat := sizeofVarint l + l

def bool01 (b : Bool) : Nat := if b then 1 else 0

def wBytesField (tag : Nat) (bs : List Nat) : List Nat :=
  if bs.isEmpty then [] else wVarint tag ++ wVarint bs.length ++ bs

def wVarintField (tag : Nat) (isDefault : Bool) (v : Nat) : List Nat :=
  if isDefault then [] else wVarint tag ++ wVarint v

def encodeEntry (e : Entry) : List Nat :=
  wBytesField 10 e.block
  ++ wVarintField 16 (e.priority == 0) (i32ToU64 e.priority)
  ++ wVarintField 24 (e.cancel == false) (bool01 e.cancel)
  ++ wVarintField 32 (e.wantType == 0) e.wantType
  ++ wVarintField 40 (e.sendDontHave == false) (bool01 e.sendDontHave)

def sizeEntry (e : Entry) : Nat :=
  (if e.block.isEmpty then 0 else 1 + sizeofLen e.block.length)
  + (if e.priority == 0 then 0 else 1 + sizeofVarint (i32ToU64 e.priority))
  + (if e.cancel == false then 0 else 1 + sizeofVarint (bool01 e.cancel))
  + (if e.wantType == 0 then 0 else 1 + sizeofVarint e.wantType)
  + (if e.sendDontHave == false then 0 else 1 + sizeofVarint (bool01 e.sendDontHave))

def wMsgField (tag : Nat) (body : List Nat) : List Nat :=
  wVarint tag ++ wVarint body.length ++ body

def encodeWantlist (w : Wantlist) : List Nat :=
  (w.entries.map (fun e => wMsgField 10 (encodeEntry e))).flatten
  ++ wVarintField 16 (w.full == false) (bool01 w.full)

def sizeWantlist (w : Wantlist) : Nat :=
  (w.entries.map (fun e => 1 + sizeofLen (sizeEntry e))).sum
  + (if w.full == false then 0 else 1 + sizeofVarint (bool01 w.full))

def encodeBlock (b : Block) : List Nat := wBytesField 10 b.pfx ++ wBytesField 18 b.data

def sizeBlock (b : Block) : Nat :=
  (if b.pfx.isEmpty then 0 else 1 + sizeofLen b.pfx.length)
  + (if b.data.isEmpty then 0 else 1 + sizeofLen b.data.length)

def encodePresence (p : Presence) : List Nat :=
  wBytesField 10 p.cid ++ wVarintField 16 (p.type == 0) p.type

def sizePresence (p : Presence) : Nat :=
  (if p.cid.isEmpty then 0 else 1 + sizeofLen p.cid.length)
  + (if p.type == 0 then 0 else 1 + sizeofVarint p.type)

def encodeBody (m : Message) : List Nat :=
  (match m.wantlist with
   | some w => wMsgField 10 (encodeWantlist w)
   | none => [])
  ++ (m.payload.map (fun b => wMsgField 26 (encodeBlock b))).flatten
  ++ (m.presences.map (fun p => wMsgField 34 (encodePresence p))).flatten
  ++ wVarintField 40 (m.pendingBytes == 0) (i32ToU64 m.pendingBytes)

/-- `Message::get_size` -/
def sizeMessage (m : Message) : Nat :=
  (match m.wantlist with
   | some w => 1 + sizeofLen (sizeWantlist w)
   | none => 0)
  + (m.payload.map (fun b => 1 + sizeofLen (sizeBlock b))).sum
  + (m.presences.map (fun p => 1 + sizeofLen (sizePresence p))).sum
  + (if m.pendingBytes == 0 then 0 else 1 + sizeofVarint (i32ToU64 m.pendingBytes))

end Beetswap.Proto
