/-!
`incoming_stream.rs::IncomingStream::poll_next` (one inbound substream: a `FramedRead` plus the
future that processes the message just read) and the `SelectAll` of the inbound substreams of one
connection, as used by `lib.rs::ConnHandler::poll`.

Messages are opaque tags. What the framed reader and the processing future answer is the
environment's choice, consumed in order (`reads`, `procs`); when the answers run out the answer
is `Pending`.
-/
namespace Beetswap.Inbound

/-- answer of `self.stream.poll_next_unpin` -/
inductive ReadAns where
  | msg (m : Nat)       -- a decoded `Message`
  | err                 -- decoding failed (or the stream failed)
  | eof
  | pending
deriving Repr, DecidableEq

/-- answer of polling `process_message` for the message being processed -/
inductive ProcAns where
  | fwd                 -- `Some(incoming)` with a client or a server half
  | empty               -- `Some(incoming)` with neither half: nothing to forward
  | fatal               -- `None`: fatal error in the message
  | pending
deriving Repr, DecidableEq

/-- one inbound substream -/
structure S where
  proc : Option Nat := none        -- the message whose processing future is active
deriving Repr, DecidableEq

inductive Res where
  | item (m : Nat)      -- `Poll::Ready(Some(msg))`
  | ended               -- `Poll::Ready(None)`: the stream is dropped
  | pending
deriving Repr, DecidableEq

/-- `poll_next`: returns the new state, the result and the unconsumed answers. Every iteration
consumes an answer or returns. -/
def pollNext (fuel : Nat) (s : S) (reads : List ReadAns) (procs : List ProcAns) :
    S × Res × List ReadAns × List ProcAns :=
  match fuel with
  | 0 => (s, .pending, reads, procs)
  | fuel + 1 =>
    match s.proc with
    | some m =>
      match procs with
      | [] => (s, .pending, reads, procs)
      | .pending :: ps => (s, .pending, reads, ps)
      | .fwd :: ps => ({ proc := none }, .item m, reads, ps)
      | .fatal :: ps => ({ proc := none }, .ended, reads, ps)
      | .empty :: ps => pollNext fuel { proc := none } reads ps
    | none =>
      match reads with
      | [] => (s, .pending, reads, procs)
      | .pending :: rs => (s, .pending, rs, procs)
      | .err :: rs => (s, .ended, rs, procs)
      | .eof :: rs => (s, .ended, rs, procs)
      | .msg m :: rs => pollNext fuel { proc := some m } rs procs

def poll (s : S) (reads : List ReadAns) (procs : List ProcAns) : S × Res :=
  let r := pollNext (reads.length + procs.length + 1) s reads procs
  (r.1, r.2.1)

/-! ### The inbound substreams of one connection (`SelectAll`) -/

/-- the answers one substream gives during one `poll` of the connection handler -/
structure Env where
  reads : List ReadAns := []
  procs : List ProcAns := []
deriving Repr, DecidableEq

abbrev Streams := List (Nat × S)

def setS (ss : Streams) (sid : Nat) (s : S) : Streams :=
  ss.map fun p => if p.1 = sid then (sid, s) else p

def remove (ss : Streams) (sid : Nat) : Streams := ss.filter fun p => p.1 ≠ sid

/-- what one poll of a substream leaves of its answers -/
def restOf (s : S) (e : Env) : Env :=
  let r := pollNext (e.reads.length + e.procs.length + 1) s e.reads e.procs
  { reads := r.2.2.1, procs := r.2.2.2 }

/-- the answers of substream `sid` after one of its polls -/
def leftover (env : Nat → Env) (sid : Nat) (e : Env) : Nat → Env :=
  fun v => if v = sid then e else env v

/-- `SelectAll::poll_next`: the woken substreams are polled in the order the executor presents
them (`order`, the environment's choice); the first item is returned, the rest are not polled;
a substream that ends is dropped. A substream that wakes itself while it is polled (a processing
future that is not ready at its first poll) is presented again in the same call: `order` may name
it several times, and each poll consumes the answers the previous one left. -/
def selectPoll (ss : Streams) (env : Nat → Env) : List Nat → Streams × Option (Nat × Nat)
  | [] => (ss, none)
  | sid :: order =>
    match ss.lookup sid with
    | none => selectPoll ss env order
    | some s =>
      match poll s (env sid).reads (env sid).procs with
      | (s', .item m) => (setS ss sid s', some (sid, m))
      | (_, .ended) => selectPoll (remove ss sid) (leftover env sid (restOf s (env sid))) order
      | (s', .pending) => selectPoll (setS ss sid s') (leftover env sid (restOf s (env sid))) order

/-- the answers `selectPoll` leaves unconsumed (it stops at the first item) -/
def selectRest (ss : Streams) (env : Nat → Env) : List Nat → Nat → Env
  | [] => env
  | sid :: order =>
    match ss.lookup sid with
    | none => selectRest ss env order
    | some s =>
      match poll s (env sid).reads (env sid).procs with
      | (_, .item _) => leftover env sid (restOf s (env sid))
      | (_, .ended) => selectRest (remove ss sid) (leftover env sid (restOf s (env sid))) order
      | (s', .pending) => selectRest (setS ss sid s') (leftover env sid (restOf s (env sid))) order

/-- `FullyNegotiatedInbound`: a new substream -/
def push (ss : Streams) (sid : Nat) : Streams := ss ++ [(sid, ({} : S))]

end Beetswap.Inbound
