import Beetswap.Model.Server
import Beetswap.Model.ServerSink
/-!
The server half of a node together with the server halves of all its connection handlers:
`Model/Server` (the behaviour: `ServerBehaviour`) composed with one `Model/ServerSink` automaton
per connection, joined the way libp2p-swarm 0.45.1 joins them (`Swarm::poll_next_event`,
`notify_any`, `connection/pool/task.rs`):

* a `QueueOutgoingMessages` event the behaviour emits (`NotifyHandler::Any`) leaves the
  behaviour's queue when the swarm polls it (`take`); at that moment the swarm notes the
  connections of the peer that are in its pool (`ids`) and keeps the event as its one
  `pending_handler_event`;
* `notify_any` offers the event to those connections: the first whose channel is ready accepts it
  (`accept c`); a connection that is closing is skipped; when every candidate is closing or gone
  the event is dropped without a trace (`giveUp`);
* an accepted event waits in the channel of its connection until the connection task hands it to
  the handler (`deliverCmd`: `on_behaviour_event` → `queue_messages`); when the connection begins
  to close — by command, by either side, or after an error — the channel is closed and what waits
  in it is never processed (`beginClose`), the handler is no longer polled;
* `ConnectionClosed` reaches the behaviour afterwards (`swarmClosed`), with
  `remaining_established` = the other connections of the peer still in the pool; lib.rs tells the
  server half that the peer is gone when that number is 0.

The server handler reports nothing to the behaviour, so the composition is a pipeline; nothing
bounds the delays in it. Sink answers and stream negotiation are the environment's choice, as in
`Model/ServerSink`.

Ghost state (`place`, `lost`, `ins`, `outs`, `delivered`) records where every dispatched event is
and what every handler has seen and done; no transition reads it.
-/
namespace Beetswap.ServerLink
open Std Beetswap.Proto

/-- one `(cid, data)` pair of the behaviour model as a protobuf `Block` (injective) -/
def encB (kd : Nat × Nat) : Block := { pfx := [kd.1], data := [kd.2] }

/-- a dispatched `QueueOutgoingMessages` event, numbered in the order of dispatch -/
structure Ev where
  id : Nat
  peer : Nat
  blocks : List (Nat × Nat)
deriving Repr, DecidableEq

inductive Place where
  | nowhere                 -- not dispatched (yet)
  | outbox                  -- in the behaviour's `outgoing_event_queue`
  | pend                    -- the swarm's `pending_handler_event`
  | cmd (c : Nat)           -- in the channel of connection `c`
  | handler (c : Nat)       -- handed to the handler of connection `c` (`queue_messages`)
  | lost                    -- dropped by the swarm: no usable connection, or its channel was closed
deriving Repr, DecidableEq

structure Link where
  peer : Nat
  h : ServerSink.H := {}
  /-- events accepted by the channel of this connection, oldest first -/
  cmds : List Ev := []
  /-- the connection task has begun to close -/
  closing : Bool := false
  /-- `ConnectionClosed` was delivered -/
  gone : Bool := false
  /-- ghost: every input the handler has seen, everything it did, the events it was handed -/
  ins : List ServerSink.In := []
  outs : List ServerSink.Out := []
  delivered : List Ev := []

structure State where
  sv : Server.State := {}
  seq : Nat := 0
  links : KMap Link := ∅
  outbox : List Ev := []
  pend : Option (Ev × List Nat) := none
  nextE : Nat := 0
  /-- ghost -/
  place : Nat → Place := fun _ => .nowhere
  lost : List Ev := []

/-- the behaviour operations that involve no connection -/
def plain : Server.Op → Bool
  | .msg .. | .newBlocks _ | .complete .. => true
  | _ => false

/-- the `QueueOutgoingMessages` events among the outputs of a drain, numbered from `n` -/
def mkEvs (n : Nat) : List Client.Out → List Ev
  | [] => []
  | .blocks p bs :: os => { id := n, peer := p, blocks := bs } :: mkEvs (n + 1) os
  | _ :: os => mkEvs n os

/-- connections of peer `p` that are in the swarm's pool (`iter_established_connections_of_peer`) -/
def poolOf (links : KMap Link) (p : Nat) : List Nat :=
  links.keys.filter fun c => match links[c]? with
    | some l => l.peer == p && !l.gone
    | none => false

/-- the connection can take a handler event: in the pool and its channel is open -/
def usable (links : KMap Link) (c : Nat) : Bool :=
  match links[c]? with
  | some l => !l.closing && !l.gone
  | none => false

/-- what libp2p-swarm may call on the server half of a handler: a stream or an allocation failure
only in answer to a request; `queue_messages` only through `deliverCmd` -/
def allowed (h : ServerSink.H) : ServerSink.In → Bool
  | .queue _ => false
  | .setStream _ => decide (h.sink = .requested)
  | .allocFailed => decide (h.sink = .requested)
  | .poll _ => true

def setPlace (f : Nat → Place) (n : Nat) (x : Place) : Nat → Place := fun m => if m = n then x else f m

def setPlaces (f : Nat → Place) (ns : List Nat) (x : Place) : Nat → Place := fun m => if m ∈ ns then x else f m

inductive Act where
  | server (op : Server.Op)                     -- wantlist message / new blocks / blockstore completion
  | connect (p c : Nat)                         -- a new connection (fresh id) to peer `p`
  | drain (obs : Nat → Option Nat)              -- the behaviour is polled until `Pending`
  | take                                        -- the swarm takes the next event of the behaviour
  | accept (c : Nat)                            -- `notify_any`: connection `c` accepts the pending event
  | giveUp                                      -- `notify_any`: every candidate is closing or gone
  | deliverCmd (c : Nat)                        -- the task of connection `c` hands the next event to the handler
  | handler (c : Nat) (i : ServerSink.In)       -- the swarm calls the handler of connection `c`
  | beginClose (c : Nat)                        -- connection `c` begins to close
  | swarmClosed (c : Nat)                       -- `FromSwarm::ConnectionClosed`

def step (s : State) : Act → State
  | .server op =>
    if plain op then
      let r := Server.step s.sv s.seq op
      { s with sv := r.1, seq := r.2.1 }
    else s
  | .connect p c =>
    if c ∈ s.links then s
    else { s with sv := Server.connect s.sv p, links := s.links.insert c { peer := p } }
  | .drain obs =>
    let r := Server.drain s.sv s.seq obs
    let evs := mkEvs s.nextE r.2.2
    { s with sv := r.1, seq := r.2.1, outbox := s.outbox ++ evs, nextE := s.nextE + evs.length,
             place := setPlaces s.place (evs.map (·.id)) .outbox }
  | .take =>
    match s.pend, s.outbox with
    | none, e :: rest =>
      { s with outbox := rest, pend := some (e, poolOf s.links e.peer), place := setPlace s.place e.id .pend }
    | _, _ => s
  | .accept c =>
    match s.pend with
    | some (e, ids) =>
      match s.links[c]? with
      | some l =>
        if c ∈ ids && !l.closing && !l.gone then
          { s with pend := none, links := s.links.insert c { l with cmds := l.cmds ++ [e] },
                   place := setPlace s.place e.id (.cmd c) }
        else s
      | none => s
    | none => s
  | .giveUp =>
    match s.pend with
    | some (e, ids) =>
      if ids.all (fun c => !usable s.links c) then
        { s with pend := none, lost := s.lost ++ [e], place := setPlace s.place e.id .lost }
      else s
    | none => s
  | .deliverCmd c =>
    match s.links[c]? with
    | some l =>
      match l.cmds with
      | e :: rest =>
        if l.closing || l.gone then s
        else
          let l' : Link := { l with cmds := rest, h := ServerSink.queue l.h (e.blocks.map encB),
                                    ins := l.ins ++ [.queue (e.blocks.map encB)], delivered := l.delivered ++ [e] }
          { s with links := s.links.insert c l', place := setPlace s.place e.id (.handler c) }
      | [] => s
    | none => s
  | .handler c i =>
    match s.links[c]? with
    | some l =>
      if l.closing || l.gone || !allowed l.h i then s
      else
        let r := ServerSink.step l.h i
        { s with links := s.links.insert c { l with h := r.1, ins := l.ins ++ [i], outs := l.outs ++ r.2 } }
    | none => s
  | .beginClose c =>
    match s.links[c]? with
    | some l =>
      if l.closing then s
      else
        { s with links := s.links.insert c { l with closing := true, cmds := [] },
                 lost := s.lost ++ l.cmds, place := setPlaces s.place (l.cmds.map (·.id)) .lost }
    | none => s
  | .swarmClosed c =>
    match s.links[c]? with
    | some l =>
      if l.closing && !l.gone then
        let links := s.links.insert c { l with gone := true }
        { s with links := links,
                 sv := if (poolOf links l.peer).isEmpty then Server.disconnected s.sv l.peer else s.sv }
      else s
    | none => s

def run (s : State) (acts : List Act) : State := acts.foldl step s

inductive Reachable : State → Prop where
  | init : Reachable {}
  | step {s} (a : Act) : Reachable s → Reachable (step s a)

/-- the blocks of a list of events, as the handler sees them -/
def blocksOf (es : List Ev) : List Block := es.flatMap fun e => e.blocks.map encB

end Beetswap.ServerLink
