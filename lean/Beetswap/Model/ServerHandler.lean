import Beetswap.Model.Frame
/-!
`server.rs::take_next_message`: how `ServerConnectionHandler` packs pending blocks into the
next outgoing message.
-/
namespace Beetswap.ServerHandler
open Beetswap.Proto Beetswap.Frame

/-- size of one `payload` field: tag + length prefix + encoded block -/
def blockFieldSize (b : Block) : Nat := 1 + sizeofLen (sizeBlock b)

/-- How many of the pending blocks go into the next message: as many as fit, at least one. -/
def takeCount (size count : Nat) : List Block → Nat
  | [] => count
  | b :: bs =>
    if 0 < count ∧ size + blockFieldSize b > maxMessageSize then count
    else takeCount (size + blockFieldSize b) (count + 1) bs

/-- `take_next_message`: the message and the blocks that stay pending. -/
def packNext (pending : List Block) : Message × List Block :=
  let n := takeCount 0 0 pending
  ({ payload := pending.take n }, pending.drop n)

/-- All messages the handler sends for a batch of pending blocks. Fuel: every message takes at
least one block. -/
def packAll (fuel : Nat) (pending : List Block) : List Message :=
  match fuel with
  | 0 => []
  | fuel + 1 =>
    if pending.isEmpty then []
    else
      let (m, rest) := packNext pending
      m :: packAll fuel rest

def frames (pending : List Block) : List Message := packAll pending.length pending

end Beetswap.ServerHandler
