import Beetswap.Model.ServerHandler
/-!
`server.rs::ServerConnectionHandler` as an automaton: `queue_messages`, `set_stream`, and the
loop of `poll_outgoing` around `take_next_message` (`Model/ServerHandler.packNext`). Streams are
numbered by the environment. What the sink (a `FramedWrite` over a yamux stream) answers is the
environment's choice: one `Ans` per iteration of the loop, consumed in order; when the answers
run out the sink is `Pending`.
-/
namespace Beetswap.ServerSink
open Beetswap.Proto Beetswap.ServerHandler

inductive Sink where
  | none
  | requested
  | ready (sid : Nat)
deriving Repr, DecidableEq

structure H where
  pending : Option (List Block) := none
  sink : Sink := .none
deriving Repr, DecidableEq

inductive IoRes where
  | ok | err | pending
deriving Repr, DecidableEq

/-- What the sink answers in one iteration of the loop: `poll_flush`, then (only if a message is
taken) `start_send`. -/
structure Ans where
  flush : IoRes
  sendOk : Bool := true
deriving Repr, DecidableEq

/-- Observable effects. -/
inductive Out where
  | openSubstream              -- `OutboundSubstreamRequest` (server)
  | wrote (sid : Nat) (m : Message)   -- one complete frame buffered on stream `sid`
  | dropped (m : Message)      -- `start_send` failed: the blocks taken for `m` are gone
  | closed (sid : Nat)         -- the handler dropped stream `sid` after a sink error
deriving Repr, DecidableEq

/-- `queue_messages`: `get_or_insert_with(Vec::new).extend(blocks)` -/
def queue (h : H) (bs : List Block) : H :=
  { h with pending := some (h.pending.getD [] ++ bs) }

/-- `set_stream` -/
def setStream (h : H) (sid : Nat) : H := { h with sink := .ready sid }

/-- `DialUpgradeError` for a server stream: nothing happens (`// TODO` in lib.rs) -/
def allocFailed (h : H) : H := h

inductive PollRes where
  | openSubstream
  | pending
deriving Repr, DecidableEq

/-- `poll_outgoing`. Every iteration returns, or takes at least one block, or drops the sink
(after which the next iteration returns): `fuel` bounds the iterations. -/
def pollLoop (fuel : Nat) (h : H) (env : List Ans) (acc : List Out) : H × PollRes × List Out :=
  match fuel with
  | 0 => (h, .pending, acc)
  | fuel + 1 =>
    match h.pending, h.sink with
    | _, .requested => (h, .pending, acc)
    | none, .none => (h, .pending, acc)
    | none, .ready sid =>
      match env.head?.map (fun a => a.flush) with
      | some IoRes.err => ({ h with sink := .none }, .pending, acc ++ [.closed sid])
      | _ => (h, .pending, acc)
    | some _, .none => ({ h with sink := .requested }, .openSubstream, acc)
    | some p, .ready sid =>
      match env.head? with
      | none => (h, .pending, acc)
      | some a =>
        match a.flush with
        | .pending => (h, .pending, acc)
        | .err => pollLoop fuel { h with sink := .none } env.tail (acc ++ [.closed sid])
        | .ok =>
          let (m, rest) := packNext p
          let pend := if rest.isEmpty then none else some rest
          if a.sendOk then
            pollLoop fuel { pending := pend, sink := .ready sid } env.tail (acc ++ [.wrote sid m])
          else
            pollLoop fuel { pending := pend, sink := .none } env.tail (acc ++ [.dropped m, .closed sid])

/-- enough iterations for every pending block plus the closing ones -/
def pollFuel (h : H) : Nat := (h.pending.getD []).length + 3

def poll (h : H) (env : List Ans) : H × PollRes × List Out := pollLoop (pollFuel h) h env []

inductive In where
  | queue (bs : List Block)
  | setStream (sid : Nat)
  | allocFailed
  | poll (env : List Ans)
deriving Repr

def step (h : H) : In → H × List Out
  | .queue bs => (queue h bs, [])
  | .setStream sid => (setStream h sid, [])
  | .allocFailed => (allocFailed h, [])
  | .poll env =>
    let (h, r, o) := poll h env
    (h, o ++ (match r with
      | .openSubstream => [.openSubstream]
      | .pending => []))

def run (h : H) : List In → H × List Out
  | [] => (h, [])
  | i :: is =>
    let (h', o1) := step h i
    let (h'', o2) := run h' is
    (h'', o1 ++ o2)

/-! ### History read off a run -/

/-- all blocks handed to the handler, in order -/
def queuedOf : List In → List Block
  | [] => []
  | .queue bs :: is => bs ++ queuedOf is
  | _ :: is => queuedOf is

/-- the blocks taken out of the pending list (written or dropped), in order -/
def takenOf : List Out → List Block
  | [] => []
  | .wrote _ m :: os => m.payload ++ takenOf os
  | .dropped m :: os => m.payload ++ takenOf os
  | _ :: os => takenOf os

def writtenOf : List Out → List Block
  | [] => []
  | .wrote _ m :: os => m.payload ++ writtenOf os
  | _ :: os => writtenOf os

def droppedOf : List Out → List Block
  | [] => []
  | .dropped m :: os => m.payload ++ droppedOf os
  | _ :: os => droppedOf os

end Beetswap.ServerSink
