import Std.Data.ExtTreeMap
import Std.Data.ExtTreeSet

/-!
Finite maps and sets keyed by `Nat` (opaque CID / peer / connection / query keys), used by
the state-machine models in place of `FnvHashMap` / `FnvHashSet`.

`KMap.tab ks g` is the one construction primitive the models use for "loop over the table
and rewrite it": the map whose value at `k` is `g k` for `k ∈ ks` and absent elsewhere.
-/

open Std

abbrev KMap (V : Type) := ExtTreeMap Nat V compare
abbrev KSet := ExtTreeSet Nat compare

namespace KMap

def tab {V : Type} (ks : List Nat) (g : Nat → Option V) : KMap V :=
  ks.foldl (fun m k => match g k with
    | some v => m.insert k v
    | none => m.erase k) ∅

theorem get_tab_aux {V : Type} (g : Nat → Option V) (ks : List Nat) (m : KMap V) (k : Nat) :
    (ks.foldl (fun m k => match g k with
      | some v => m.insert k v
      | none => m.erase k) m)[k]? = if k ∈ ks then g k else m[k]? := by
  induction ks generalizing m with
  | nil => simp
  | cons a as ih =>
    simp only [List.foldl_cons, ih, List.mem_cons]
    by_cases hk : k ∈ as
    · simp [hk]
    · simp only [hk, if_false, or_false]
      by_cases ha : k = a
      · subst ha
        cases hg : g k <;> simp
      · have : a ≠ k := fun h => ha h.symm
        cases hg : g a <;> simp [ha, this, ExtTreeMap.getElem?_insert, ExtTreeMap.getElem?_erase]

@[simp] theorem get_tab {V : Type} (ks : List Nat) (g : Nat → Option V) (k : Nat) :
    (tab ks g)[k]? = if k ∈ ks then g k else none := by
  unfold tab; rw [get_tab_aux]; simp

end KMap
