import Beetswap.Proofs.Codec
import Beetswap.Generated
/-!
# C11 — Wire format conforms to the Bitswap 1.2.0 protobuf schema

`Spec/Wire.lean` is the schema over the generic proto3 wire format, written independently of
quick-protobuf. A field tree is one schema-valid encoding choice (any field order, explicit
defaults, unknown fields).
-/
namespace Beetswap.Props.C11
open Beetswap Beetswap.Proto Beetswap.Frame Beetswap.Spec.Wire

/-- The spec's varint is the varint both crates write. -/
theorem uvar_eq_enc (v : Nat) : uvar v = Varint.enc v := Proofs.Codec.uvar_eq_enc v

/-- **Emission**: the bytes the node emits for any message are the serialisation of the
canonical field tree of that message, behind an unsigned-varint length prefix … -/
theorem emit_conformant (m : Message) : encodeBody m = serMessage (messageFields m) :=
  Proofs.Codec.emit_conformant m

theorem frame_is_length_prefixed (m : Message) :
    encode m = uvar (encodeBody m).length ++ encodeBody m :=
  Proofs.Codec.frame_is_length_prefixed m

/-- … that tree is schema-valid and denotes the same logical message. -/
theorem messageFields_valid (m : Message) (h : MessageWF m)
    (hs : (encodeBody m).length < 2 ^ 32) : MsgValid (messageFields m) :=
  Proofs.Codec.messageFields_valid m h hs

theorem interp_messageFields (m : Message) (h : MessageWF m) :
    interpMessage (messageFields m) = m :=
  Proofs.Codec.interp_messageFields m h

/-- **Acceptance**: *every* schema-valid encoding — unknown fields, fields in any order,
explicitly encoded defaults, unknown enum numbers — is decoded to the logical message it
denotes. -/
theorem parse_valid_encoding (fs : List MsgFld) (h : MsgValid fs) (rest : List Nat) :
    parseMessage (serMessage fs ++ rest) (serMessage fs).length
      = .ok (interpMessage fs) rest 0 :=
  Proofs.Codec.parse_valid_encoding fs h rest

theorem decode_valid_frame (fs : List MsgFld) (h : MsgValid fs)
    (hs : (serMessage fs).length ≤ maxMessageSize) (rest : List Nat) :
    decode (uvar (serMessage fs).length ++ serMessage fs ++ rest)
      = .ok (interpMessage fs) rest :=
  Proofs.Codec.decode_valid_frame fs h hs rest

/-! What "the logical message it denotes" means for non-canonical encodings. -/

theorem unknown_fields_ignored (fs₁ fs₂ : List MsgFld) (u : Unk) :
    interpMessage (fs₁ ++ [.unk u] ++ fs₂) = interpMessage (fs₁ ++ fs₂) := by
  simp [interpMessage, List.foldl_append, MsgFld.apply]

theorem unknown_enum_tolerated (v : Nat) (h : v ≠ 1) : enumOfWire v = 0 := by
  simp [enumOfWire, h]

theorem explicit_default_accepted (fs : List EntryFld) :
    (interpEntry ([.priority 0, .cancel 0, .wantType 0, .sendDontHave 0] ++ fs))
      = interpEntry fs := by
  simp [interpEntry, EntryFld.apply, i32OfWire, enumOfWire]

/-- Scalar fields of an entry commute when they are different fields: field order is
irrelevant for the denoted message. -/
theorem entry_scalar_order_irrelevant (e : Entry) (bs : List Nat) (v : Nat) :
    (EntryFld.apply (EntryFld.apply e (.block bs)) (.priority v))
      = EntryFld.apply (EntryFld.apply e (.priority v)) (.block bs) := by
  simp [EntryFld.apply]

/-- quick-protobuf replaces a repeated singular message field instead of merging it; this is
why `MsgValid` asks for at most one `wantlist` field (what every encoder writes). -/
example : interpMessage [.wantlist [.full 1], .wantlist []] = { wantlist := some {} } := by
  simp [interpMessage, MsgFld.apply, interpWantlist, WantlistFld.apply]

/-- Non-vacuity: a non-canonical but valid encoding choice. -/
example : MsgValid [.unk (.varint 9 300), .pendingBytes 5, .wantlist [.full 0, .unk (.len 7 [1, 2])]] := by
  refine ⟨?_, by decide⟩
  intro f hf
  simp at hf
  rcases hf with rfl | rfl | rfl
  · simp [MsgFld.Valid, Unk.Valid, Unk.num, Unk.wt, messageKnown]
  · simp [MsgFld.Valid, I32Wire]
  · refine ⟨?_, by simp [serWantlist, WantlistFld.ser, Unk.ser, uvar]⟩
    intro g hg
    simp at hg
    rcases hg with rfl | rfl
    · simp [WantlistFld.Valid, BoolWire]
    · simp [WantlistFld.Valid, Unk.Valid, Unk.num, Unk.wt, wantlistKnown, bytesOk]

/-! ### Translator obligations: the schema and the generated tag tables in /repo -/

/-- The Bitswap 1.2.0 message schema: (message, label, type, field, number). -/
def bitswap120Schema : List (String × String × String × String × Nat) :=
  [("Entry", "singular", "bytes", "block", 1), ("Entry", "singular", "int32", "priority", 2),
   ("Entry", "singular", "bool", "cancel", 3), ("Entry", "singular", "WantType", "wantType", 4),
   ("Entry", "singular", "bool", "sendDontHave", 5),
   ("Wantlist", "repeated", "Entry", "entries", 1), ("Wantlist", "singular", "bool", "full", 2),
   ("Block", "singular", "bytes", "prefix", 1), ("Block", "singular", "bytes", "data", 2),
   ("BlockPresence", "singular", "bytes", "cid", 1),
   ("BlockPresence", "singular", "BlockPresenceType", "type", 2),
   ("Message", "singular", "Wantlist", "wantlist", 1), ("Message", "repeated", "Block", "payload", 3),
   ("Message", "repeated", "BlockPresence", "blockPresences", 4),
   ("Message", "singular", "int32", "pendingBytes", 5)]

def bitswap120Enums : List (String × Nat × String) :=
  [("WantType", 0, "Block"), ("WantType", 1, "Have"),
   ("BlockPresenceType", 0, "Have"), ("BlockPresenceType", 1, "DontHave")]

/-- proto3 wire type and quick-protobuf accessor kind of a field type. -/
def kindOf (ty : String) : Nat × String :=
  if ty == "bytes" then (2, "bytes")
  else if ty == "int32" then (0, "int32")
  else if ty == "bool" then (0, "bool")
  else if ty == "WantType" || ty == "BlockPresenceType" then (0, "enum")
  else (2, "message")

/-- (message, tag = number * 8 + wire type, accessor kind) derived from the schema. -/
def specTags : List (String × Nat × String) :=
  bitswap120Schema.map fun (m, _, ty, _, n) => (m, n * 8 + (kindOf ty).1, (kindOf ty).2)

theorem schema_is_spec : Generated.implSchema = bitswap120Schema := by decide

theorem enums_are_spec :
    Generated.implSchemaEnums = bitswap120Enums ∧ Generated.implEnumTable = bitswap120Enums := by decide

/-- Every reader arm and every writer line of `proto/message.rs` uses the tag and the accessor
the schema dictates, and there are no others. (A symmetric change of reader and writer, which a
round-trip test cannot see, breaks this.) -/
theorem read_table_matches :
    (Generated.implReadTable.map fun (m, tag, _, fn, _) => (m, tag, fn)).length = specTags.length ∧
    ∀ r ∈ specTags, (r.1, r.2.1, "read_" ++ r.2.2) ∈
      (Generated.implReadTable.map fun (m, tag, _, fn, _) => (m, tag, fn)) := by decide

theorem write_table_matches :
    Generated.implWriteTable.length = specTags.length ∧
    ∀ r ∈ specTags, (r.1, r.2.1, "write_" ++ r.2.2) ∈ Generated.implWriteTable := by decide

/-- Repeated fields are appended, singular scalars replaced, the singular message field set. -/
theorem read_modes_match :
    ∀ r ∈ Generated.implReadTable,
      (r.2.2.2.2 = "push" ↔ (r.1, "repeated") ∈ bitswap120Schema.map fun (m, l, _, f, _) =>
        if f == r.2.2.1 || (f == "type" && r.2.2.1 == "type_pb") then (m, l) else ("", "")) := by decide

end Beetswap.Props.C11
