import Beetswap.Proofs.Codec
/-!
# C11 — Wire format conforms to the Bitswap 1.2.0 protobuf schema

`Spec/Wire.lean` is the schema over the generic proto3 wire format, written independently of
quick-protobuf. A field tree is one schema-valid encoding choice (any field order, explicit
defaults, unknown fields).
-/
namespace Beetswap.Props.C11
open Beetswap Beetswap.Proto Beetswap.Frame Beetswap.Spec.Wire

/-- The spec's varint is the varint both crates write. -/
theorem uvar_eq_enc (v : Nat) : uvar v = Varint.enc v := Proofs.Codec.uvar_eq_enc v

/-- **Emission**: the bytes the node emits for any message are the serialisation of the
canonical field tree of that message, behind an unsigned-varint length prefix … -/
theorem emit_conformant (m : Message) : encodeBody m = serMessage (messageFields m) :=
  Proofs.Codec.emit_conformant m

theorem frame_is_length_prefixed (m : Message) :
    encode m = uvar (encodeBody m).length ++ encodeBody m :=
  Proofs.Codec.frame_is_length_prefixed m

/-- … that tree is schema-valid and denotes the same logical message. -/
theorem messageFields_valid (m : Message) (h : MessageWF m)
    (hs : (encodeBody m).length < 2 ^ 32) : MsgValid (messageFields m) :=
  Proofs.Codec.messageFields_valid m h hs

theorem interp_messageFields (m : Message) (h : MessageWF m) :
    interpMessage (messageFields m) = m :=
  Proofs.Codec.interp_messageFields m h

/-- **Acceptance**: *every* schema-valid encoding — unknown fields, fields in any order,
explicitly encoded defaults, unknown enum numbers — is decoded to the logical message it
denotes. -/
theorem parse_valid_encoding (fs : List MsgFld) (h : MsgValid fs) (rest : List Nat) :
    parseMessage (serMessage fs ++ rest) (serMessage fs).length
      = .ok (interpMessage fs) rest 0 :=
  Proofs.Codec.parse_valid_encoding fs h rest

theorem decode_valid_frame (fs : List MsgFld) (h : MsgValid fs)
    (hs : (serMessage fs).length ≤ maxMessageSize) (rest : List Nat) :
    decode (uvar (serMessage fs).length ++ serMessage fs ++ rest)
      = .ok (interpMessage fs) rest :=
  Proofs.Codec.decode_valid_frame fs h hs rest

/-! What "the logical message it denotes" means for non-canonical encodings. -/

theorem unknown_fields_ignored (fs₁ fs₂ : List MsgFld) (u : Unk) :
    interpMessage (fs₁ ++ [.unk u] ++ fs₂) = interpMessage (fs₁ ++ fs₂) := by
  simp [interpMessage, List.foldl_append, MsgFld.apply]

theorem unknown_enum_tolerated (v : Nat) (h : v ≠ 1) : enumOfWire v = 0 := by
  simp [enumOfWire, h]

theorem explicit_default_accepted (fs : List EntryFld) :
    (interpEntry ([.priority 0, .cancel 0, .wantType 0, .sendDontHave 0] ++ fs))
      = interpEntry fs := by
  simp [interpEntry, EntryFld.apply, i32OfWire, enumOfWire]

/-- Scalar fields of an entry commute when they are different fields: field order is
irrelevant for the denoted message. -/
theorem entry_scalar_order_irrelevant (e : Entry) (bs : List Nat) (v : Nat) :
    (EntryFld.apply (EntryFld.apply e (.block bs)) (.priority v))
      = EntryFld.apply (EntryFld.apply e (.priority v)) (.block bs) := by
  simp [EntryFld.apply]

/-- quick-protobuf replaces a repeated singular message field instead of merging it; this is
why `MsgValid` asks for at most one `wantlist` field (what every encoder writes). -/
example : interpMessage [.wantlist [.full 1], .wantlist []] = { wantlist := some {} } := by
  simp [interpMessage, MsgFld.apply, interpWantlist, WantlistFld.apply]

/-- Non-vacuity: a non-canonical but valid encoding choice. -/
example : MsgValid [.unk (.varint 9 300), .pendingBytes 5, .wantlist [.full 0, .unk (.len 7 [1, 2])]] := by
  refine ⟨?_, by decide⟩
  intro f hf
  simp at hf
  rcases hf with rfl | rfl | rfl
  · simp [MsgFld.Valid, Unk.Valid, Unk.num, Unk.wt, messageKnown]
  · simp [MsgFld.Valid, I32Wire]
  · refine ⟨?_, by simp [serWantlist, WantlistFld.ser, Unk.ser, uvar]⟩
    intro g hg
    simp at hg
    rcases hg with rfl | rfl
    · simp [WantlistFld.Valid, BoolWire]
    · simp [WantlistFld.Valid, Unk.Valid, Unk.num, Unk.wt, wantlistKnown, bytesOk]

end Beetswap.Props.C11
