import Beetswap.Proofs.CidLayer
/-!
# C12 — CID prefixes identify the CID exactly
Model: `Model/Cid.lean`. Hash functions are a parameter `H` of every theorem.
-/
namespace Beetswap.Props.C12
open Beetswap Beetswap.Cid Beetswap.Proofs.CidLayer

/-- The prefix derived from a CID, serialised and parsed back, is unchanged (whatever follows). -/
theorem prefix_bytes_roundtrip (c : Cid) (h : c.WF) (hs : Cid.Sized c) (rest : List Nat) :
    CidPrefix.fromBytes ((CidPrefix.fromCid c).toBytes ++ rest) = some (CidPrefix.fromCid c) :=
  Proofs.CidLayer.prefix_bytes_roundtrip c h hs rest

/-- Rebuilding a CID from its prefix and a byte string yields the original CID exactly when the
byte string hashes to the CID's digest. -/
theorem tocid_iff_hash (S : Nat) (H : Hasher) (c : Cid) (h : c.WF) (hfit : c.hash.digest.length ≤ S)
    (data : List Nat) :
    (CidPrefix.fromCid c).toCid S H data = ToCidRes.ok c ↔ H c.hash.code data = HashRes.ok c.hash :=
  Proofs.CidLayer.tocid_iff_hash S H c h hfit data

/-- A prefix that declares a digest longer than the configured maximum is rejected, not truncated. -/
theorem oversize_rejected (S : Nat) (H : Hasher) (p : CidPrefix) (data : List Nat)
    (h : p.mhSize > S) : p.toCid S H data = ToCidRes.size :=
  Proofs.CidLayer.oversize_rejected S H p data h

/-- Different CIDs (up to the digest) have different prefix bytes. -/
theorem prefix_injective (c₁ c₂ : Cid) (h₁ : c₁.WF) (h₂ : c₂.WF) (s₁ : Cid.Sized c₁) (s₂ : Cid.Sized c₂)
    (h : (CidPrefix.fromCid c₁).toBytes = (CidPrefix.fromCid c₂).toBytes) :
    CidPrefix.fromCid c₁ = CidPrefix.fromCid c₂ :=
  Proofs.CidLayer.prefix_injective c₁ c₂ h₁ h₂ s₁ s₂ h

/-- Whatever CID `to_cid` returns is recomputed from the data: its digest is the hasher's
answer for the prefix's hash code, its version and codec are the prefix's. -/
theorem tocid_recomputes (S : Nat) (H : Hasher) (p : CidPrefix) (data : List Nat) (c : Cid)
    (h : p.toCid S H data = ToCidRes.ok c) :
    H p.mhCode data = HashRes.ok c.hash ∧ c.version = (if p.version = 0 then 0 else 1)
      ∧ (p.version ≠ 0 → c.codec = p.codec) :=
  Proofs.CidLayer.tocid_recomputes S H p data c h

/-- Non-vacuity: a CIDv1 and a CIDv0 meeting the hypotheses. -/
example : Cid.WF ⟨1, 0x55, ⟨0x12, List.replicate 32 0⟩⟩ ∧ Cid.Sized ⟨1, 0x55, ⟨0x12, List.replicate 32 0⟩⟩ := by
  simp [Cid.WF, Cid.Sized]
example : Cid.WF ⟨0, 0x70, ⟨0x12, List.replicate 32 0⟩⟩ := by
  simp [Cid.WF, DAG_PB, SHA2_256]

end Beetswap.Props.C12
