import Beetswap.Proofs.CidLayer
import Beetswap.Generated
/-!
# C20 — Protocol prefix is validated and isolates networks (partial)
Partial: that nodes with different protocol names never exchange messages additionally relies
on multistream-select matching protocol names exactly (assumed; exercised by the simulator).
-/
namespace Beetswap.Props.C20
open Beetswap Beetswap.Builder Beetswap.Proofs.CidLayer

/-- The builder accepts a protocol prefix exactly when it begins with '/'. -/
theorem accept_iff_leading_slash (p : List Char) : acceptPrefix p = true ↔ ∃ t, p = '/' :: t :=
  Proofs.CidLayer.accept_iff_leading_slash p

theorem rejected_iff (p : List Char) : build (some p) = BuildRes.rejected ↔ acceptPrefix p = false :=
  Proofs.CidLayer.rejected_iff p

/-- Building never panics, and the protocol is prefix + "/ipfs/bitswap/1.2.0". -/
theorem accepted_never_panics (p : List Char) (h : acceptPrefix p = true) :
    build (some p) = BuildRes.built (p ++ protocolSuffix) :=
  Proofs.CidLayer.accepted_never_panics p h

theorem unprefixed_builds : build none = BuildRes.built protocolSuffix :=
  Proofs.CidLayer.unprefixed_builds 

/-- Different prefixes give different protocol names (so multistream-select, which matches
protocol names exactly, keeps the networks apart); equal prefixes give equal names. -/
theorem name_injective (p₁ p₂ : List Char) (h : p₁ ++ protocolSuffix = p₂ ++ protocolSuffix) : p₁ = p₂ :=
  Proofs.CidLayer.name_injective p₁ p₂ h

end Beetswap.Props.C20
