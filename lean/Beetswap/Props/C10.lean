import Beetswap.Proofs.Codec
/-!
# C10 — Framing round-trips and is independent of stream chunking

Model: `Model/Proto.lean` (generated reader/writer on quick-protobuf), `Model/Frame.lean`
(`Codec`, `FramedRead`). All statements are for every message value / byte string / chunking.
-/
namespace Beetswap.Props.C10
open Beetswap Beetswap.Proto Beetswap.Frame Beetswap.Spec.Wire

/-- `get_size` agrees with what `write_message` writes (so `encode` never hits
"buffer too small" and the length prefix is the body length). -/
theorem size_eq_length (m : Message) : sizeMessage m = (encodeBody m).length :=
  Proofs.Codec.size_eq_length m

/-- Decoding the encoding of any message value yields an equal message. -/
theorem decode_encode (m : Message) (h : MessageWF m) (hs : (encodeBody m).length < 2 ^ 32)
    (rest : List Nat) :
    parseMessage (encodeBody m ++ rest) (encodeBody m).length = .ok m rest 0 :=
  Proofs.Codec.decode_encode m h hs rest

/-- One frame is consumed, the bytes after it are untouched. -/
theorem frame_roundtrip (m : Message) (h : MessageWF m) (hs : sizeMessage m ≤ maxMessageSize)
    (rest : List Nat) : decode (encode m ++ rest) = .ok m rest :=
  Proofs.Codec.frame_roundtrip m h hs rest

/-- A strict prefix of a frame never yields a message: the decoder waits. -/
theorem needMore_on_strict_prefix (m : Message) (h : MessageWF m)
    (hs : sizeMessage m ≤ maxMessageSize) (p : List Nat) (hp : p <+: encode m)
    (hne : p ≠ encode m) : decode p = .needMore :=
  Proofs.Codec.needMore_on_strict_prefix m h hs p hp hne

/-- Feeding the concatenated encodings split at arbitrary byte boundaries yields exactly the
sequence of messages, then a clean end of stream. -/
theorem chunk_independent (ms : List Message)
    (hwf : ∀ m ∈ ms, MessageWF m ∧ sizeMessage m ≤ maxMessageSize)
    (chunks : List (List Nat)) (hne : ∀ c ∈ chunks, c ≠ [])
    (hcat : chunks.flatten = (ms.map encode).flatten) :
    (framedRead chunks).msgs = ms ∧ (framedRead chunks).fin = .eof :=
  Proofs.Codec.chunk_independent ms hwf chunks hne hcat

/-- A stream that ends inside a frame yields the complete messages and then an error, never
a truncated message. -/
theorem truncated_stream (ms : List Message) (m : Message)
    (hwf : ∀ m' ∈ m :: ms, MessageWF m' ∧ sizeMessage m' ≤ maxMessageSize)
    (p : List Nat) (hp : p <+: encode m) (hp0 : p ≠ []) (hp1 : p ≠ encode m)
    (chunks : List (List Nat)) (hne : ∀ c ∈ chunks, c ≠ [])
    (hcat : chunks.flatten = (ms.map encode).flatten ++ p) :
    (framedRead chunks).msgs = ms ∧ (framedRead chunks).fin = .err :=
  Proofs.Codec.truncated_stream ms m hwf p hp hp0 hp1 chunks hne hcat

/-- Non-vacuity: a concrete non-trivial message meets the hypotheses. -/
def sample : Message :=
  { wantlist := some { entries := [{ block := [1, 85], priority := (-1 : Int), wantType := 1,
                                     sendDontHave := true }], full := true },
    payload := [{ pfx := [1, 85, 18, 32], data := [97, 98, 99] }],
    pendingBytes := 7 }

example : MessageWF sample := by
  refine ⟨?_, ?_, ?_, ?_⟩ <;> simp [sample, WantlistWF, EntryWF, BlockWF, bytesOk, I32]

end Beetswap.Props.C10
