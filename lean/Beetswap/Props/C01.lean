import Beetswap.Proofs.ClientQuery
import Beetswap.Proofs.CidLayer
import Beetswap.Proofs.Server
import Beetswap.Proofs.NodeStore
/-!
# C01 — Delivered and stored blocks always match the requested CID

Three layers: (1) `process_message` keys every block by the CID recomputed from its own bytes
(`Model/Incoming`), (2) the client gate hands a block to queries / the store / the server half
only if that recomputed CID is wanted (`Model/Client.applyBlock`), (3) the server half only
dispatches what is queued for a CID to peers waiting for that CID (`Model/Server`).
Hash functions are a parameter `H`.
-/
namespace Beetswap.Props.C01
open Std Beetswap Beetswap.Cid Beetswap.Incoming Beetswap.Proto Beetswap.Proofs.CidLayer

/-- C01: every block handed on is keyed by the CID recomputed from its own bytes: never by an
identifier the peer supplied. -/
theorem block_key_recomputed (S : Nat) (H : Hasher) (parse : List Nat → Option Cid) (msg : Message)
    (m : IncomingMessage) (h : processMessage S H parse msg = ProcRes.ok m) (c : Cid) (d : List Nat)
    (hb : (c, d) ∈ (clientOf m).blocks) :
    ∃ b ∈ msg.payload, b.data = d ∧ ∃ p, CidPrefix.fromBytes b.pfx = some p ∧ p.toCid S H d = ToCidRes.ok c :=
  Proofs.CidLayer.block_key_recomputed S H parse msg m h c d hb

/-- C01: … so the data's multihash, computed with the hash function named in the CID, is the
CID's digest. -/
theorem block_hash_matches (S : Nat) (H : Hasher) (hH : HasherSane H) (parse : List Nat → Option Cid)
    (msg : Message) (m : IncomingMessage) (h : processMessage S H parse msg = ProcRes.ok m)
    (c : Cid) (d : List Nat) (hb : (c, d) ∈ (clientOf m).blocks) :
    H c.hash.code d = HashRes.ok c.hash :=
  Proofs.CidLayer.block_hash_matches S H hH parse msg m h c d hb

/-- Whatever CID `to_cid` returns is recomputed from the data: its digest is the hasher's
answer for the prefix's hash code, its version and codec are the prefix's. -/
theorem tocid_recomputes (S : Nat) (H : Hasher) (p : CidPrefix) (data : List Nat) (c : Cid)
    (h : p.toCid S H data = ToCidRes.ok c) :
    H p.mhCode data = HashRes.ok c.hash ∧ c.version = (if p.version = 0 then 0 else 1)
      ∧ (p.version ≠ 0 → c.codec = p.codec) :=
  Proofs.CidLayer.tocid_recomputes S H p data c h

section
open Beetswap.Client Beetswap.Wl Beetswap.Spec.ClientSpec Beetswap.Proofs.ClientQuery
/-- The gate of `process_incoming_message`: a block for a CID that is not wanted changes nothing
(no event, no store write, no exchange-state change). -/
theorem unwanted_block_inert (s : State) (p k d : Nat) (acc : List (Nat × Nat))
    (h : k ∉ s.wantlist.cids) : applyBlock s p k d acc = (s, acc) :=
  Proofs.ClientQuery.unwanted_block_inert s p k d acc h

/-- A wanted block answers exactly the queries waiting for that CID, with that data, removes the
want, and is scheduled for storing under that CID. -/
theorem wanted_block_answers (s : State) (p k d : Nat) (acc : List (Nat × Nat))
    (h : k ∈ s.wantlist.cids) :
    (applyBlock s p k d acc).2 = acc ++ [(k, d)] ∧
    (applyBlock s p k d acc).1.queue = s.queue ++ ((s.waiters[k]?).getD []).map (fun q => Out.resp q d) ∧
    k ∉ (applyBlock s p k d acc).1.wantlist.cids ∧ (applyBlock s p k d acc).1.waiters[k]? = none :=
  Proofs.ClientQuery.wanted_block_answers s p k d acc h

end

/-! ### The whole node: what is stored and what is forwarded (`Spec/NodeSpec`: `hrun` = any
operation sequence with the history of outputs, of blocks accepted by the client gate, and of
blockstore hits / application-announced blocks) -/
section
open Beetswap.Node Beetswap.Spec.NodeSpec
open Beetswap.Client (Out StoreRes)

/-- Every block the node writes to its blockstore on behalf of the network was accepted by the
client gate under exactly that CID (for all operation sequences). -/
theorem store_keyed (ops : List Node.Op) (seq : Nat) (bs : List (Nat × Nat)) (kd : Nat × Nat)
    (h : Out.callPut seq bs ∈ (hrun ({}, {}) ops).2.outs) (hk : kd ∈ bs) :
    kd ∈ (hrun ({}, {}) ops).2.accepted :=
  Proofs.NodeStore.store_keyed ops seq bs kd h hk

/-- Every block forwarded to another peer was accepted by the client gate (and stored), or is a
blockstore hit / an application-announced block: never a received block that was not wanted. -/
theorem forwarded_subset (ops : List Node.Op) (p : Nat) (bs : List (Nat × Nat)) (kd : Nat × Nat)
    (h : Out.blocks p bs ∈ (hrun ({}, {}) ops).2.outs) (hk : kd ∈ bs) :
    kd ∈ (hrun ({}, {}) ops).2.accepted ∨ kd ∈ (hrun ({}, {}) ops).2.external :=
  Proofs.NodeStore.forwarded_subset ops p bs kd h hk

/-- A block is handed from the client half to the server half only after its store write
succeeded. -/
theorem new_blocks_were_stored (ops : List Node.Op) (kd : Nat × Nat)
    (h : kd ∈ (hrun ({}, {}) ops).1.client.newBlocks) : kd ∈ (hrun ({}, {}) ops).2.accepted :=
  Proofs.NodeStore.new_blocks_were_stored ops kd h

/-- A received block for a CID that is not wanted leaves the whole node unchanged. -/
theorem unwanted_block_inert_node (s : Node.State) (p k d : Nat) (h : k ∉ s.client.wantlist.cids) :
    (step s (.msg p [] [] [(k, d)] none)).1.client.queue = s.client.queue ∧
    (step s (.msg p [] [] [(k, d)] none)).1.client.tasks = s.client.tasks ∧
    (step s (.msg p [] [] [(k, d)] none)).1.client.newBlocks = s.client.newBlocks ∧
    (step s (.msg p [] [] [(k, d)] none)).1.server = s.server ∧
    (step s (.msg p [] [] [(k, d)] none)).2.1 = [] :=
  Proofs.NodeStore.unwanted_block_inert_node s p k d h

end

end Beetswap.Props.C01
