import Beetswap.Proofs.ClientQuery
import Beetswap.Proofs.CidLayer
import Beetswap.Proofs.Server
/-!
# C01 — Delivered and stored blocks always match the requested CID

Three layers: (1) `process_message` keys every block by the CID recomputed from its own bytes
(`Model/Incoming`), (2) the client gate hands a block to queries / the store / the server half
only if that recomputed CID is wanted (`Model/Client.applyBlock`), (3) the server half only
dispatches what is queued for a CID to peers waiting for that CID (`Model/Server`).
Hash functions are a parameter `H`.
-/
namespace Beetswap.Props.C01
open Std Beetswap Beetswap.Cid Beetswap.Incoming Beetswap.Proto Beetswap.Proofs.CidLayer

/-- C01: every block handed on is keyed by the CID recomputed from its own bytes: never by an
identifier the peer supplied. -/
theorem block_key_recomputed (S : Nat) (H : Hasher) (parse : List Nat → Option Cid) (msg : Message)
    (m : IncomingMessage) (h : processMessage S H parse msg = ProcRes.ok m) (c : Cid) (d : List Nat)
    (hb : (c, d) ∈ (clientOf m).blocks) :
    ∃ b ∈ msg.payload, b.data = d ∧ ∃ p, CidPrefix.fromBytes b.pfx = some p ∧ p.toCid S H d = ToCidRes.ok c :=
  Proofs.CidLayer.block_key_recomputed S H parse msg m h c d hb

/-- C01: … so the data's multihash, computed with the hash function named in the CID, is the
CID's digest. -/
theorem block_hash_matches (S : Nat) (H : Hasher) (hH : HasherSane H) (parse : List Nat → Option Cid)
    (msg : Message) (m : IncomingMessage) (h : processMessage S H parse msg = ProcRes.ok m)
    (c : Cid) (d : List Nat) (hb : (c, d) ∈ (clientOf m).blocks) :
    H c.hash.code d = HashRes.ok c.hash :=
  Proofs.CidLayer.block_hash_matches S H hH parse msg m h c d hb

/-- Whatever CID `to_cid` returns is recomputed from the data: its digest is the hasher's
answer for the prefix's hash code, its version and codec are the prefix's. -/
theorem tocid_recomputes (S : Nat) (H : Hasher) (p : CidPrefix) (data : List Nat) (c : Cid)
    (h : p.toCid S H data = ToCidRes.ok c) :
    H p.mhCode data = HashRes.ok c.hash ∧ c.version = (if p.version = 0 then 0 else 1)
      ∧ (p.version ≠ 0 → c.codec = p.codec) :=
  Proofs.CidLayer.tocid_recomputes S H p data c h

section
open Beetswap.Client Beetswap.Wl Beetswap.Spec.ClientSpec Beetswap.Proofs.ClientQuery
/-- The gate of `process_incoming_message`: a block for a CID that is not wanted changes nothing
(no event, no store write, no exchange-state change). -/
theorem unwanted_block_inert (s : State) (p k d : Nat) (acc : List (Nat × Nat))
    (h : k ∉ s.wantlist.cids) : applyBlock s p k d acc = (s, acc) :=
  Proofs.ClientQuery.unwanted_block_inert s p k d acc h

/-- A wanted block answers exactly the queries waiting for that CID, with that data, removes the
want, and is scheduled for storing under that CID. -/
theorem wanted_block_answers (s : State) (p k d : Nat) (acc : List (Nat × Nat))
    (h : k ∈ s.wantlist.cids) :
    (applyBlock s p k d acc).2 = acc ++ [(k, d)] ∧
    (applyBlock s p k d acc).1.queue = s.queue ++ ((s.waiters[k]?).getD []).map (fun q => Out.resp q d) ∧
    k ∉ (applyBlock s p k d acc).1.wantlist.cids ∧ (applyBlock s p k d acc).1.waiters[k]? = none :=
  Proofs.ClientQuery.wanted_block_answers s p k d acc h

end

end Beetswap.Props.C01
