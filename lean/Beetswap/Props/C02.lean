import Beetswap.Proofs.Net
/-!
# C02 — Every query for a block held by a connected peer completes (partial)

`Model/Net.lean`: a requesting node `a` and a serving node `b` (each a full `Node` model: client
half, server half, glue), one connection, fault-free transport with the wantlist hand-off
abstracted to "taken over at once, delivered whole, then acknowledged" (C14), healthy
blockstores. `Reachable store s`: every state reachable from the connected initial state by ANY
user behaviour at `a` (gets — concurrent or repeated for one CID, cancels, refresh expiries;
`a`'s own store never holds the block, which covers re-fetch after local eviction) interleaved
in ANY order with ANY scheduling of the internal actions (drains, blockstore completions in any
order, deliveries). `settle n` = `n` rounds of the canonical fair schedule.

Liveness is stated without temporal logic: progress (`settle_quiesces`), no deadlock at quiescence
(`quiescent_answered_or_gap`), and the refresh closing the only tolerated gap
(`refresh_closes_gap`). The gap is real (`gap_witness`): it is the "already delivered it since
being asked" exemption of C04 and the "one 30 s refresh later" allowance of this property.

PARTIAL: two nodes and one connection in the theorems; chains of 3–4 nodes, several connections,
evictions at the serving side, connection faults and real schedulers are covered by the Tier 2
simulator only; `hcap` — at most 1024 queries issued — because the serving side's per-peer cap
(C13) silently drops wants beyond 1024 and a refresh re-sends them in the same order (finding F15);
late acknowledgements are excluded (finding F13).
-/
namespace Beetswap.Props.C02
open Std Beetswap.Net Beetswap.Wl Beetswap.Proofs.Net

/-- Progress: from every reachable state the canonical fair schedule reaches quiescence. (No
fixed number of rounds suffices: `n` distinct gets need `n + 2` rounds, see `NET_NOTES.md`.) -/
theorem settle_quiesces (store : KMap Nat) (s : Net.State) (h : Reachable store s) :
    ∃ n, quiescent (settle n s) = true :=
  Proofs.Net.settle_quiesces store s h

/-- C02 (no deadlock): at quiescence every CID `a` still wants is either not held by `b`, or in
the tolerated gap. -/
theorem quiescent_answered_or_gap (store : KMap Nat) (s : Net.State) (h : Reachable store s)
    (hq : quiescent s = true) (k : Nat) (hk : k ∈ wants s) :
    s.storeB[k]? = none ∨ InGap s k :=
  Proofs.Net.quiescent_answered_or_gap store s h hq k hk

/-- C02 (one refresh later): after the wantlist refresh and settling, `a` wants nothing that `b`
holds: every such query has received its block. Holds whenever settling (for any number `n` of
rounds) has reached quiescence (`settle_quiesces`: it does), as long as the cap of `b`'s record
cannot bind (at most `maxWantlistEntries` queries issued so far; see `NET_NOTES.md` for the
counterexample beyond the cap). -/
theorem refresh_closes_gap (store : KMap Nat) (s : Net.State) (h : Reachable store s)
    (hq : quiescent s = true) (hcap : s.a.client.nextQuery ≤ Server.maxWantlistEntries) (n : Nat)
    (hn : quiescent (settle n (step s .refresh)) = true) (k : Nat)
    (hk : k ∈ wants (settle n (step s .refresh))) :
    (settle n (step s .refresh)).storeB[k]? = none :=
  Proofs.Net.refresh_closes_gap store s h hq hcap n hn k hk

/-- C02, in one statement: after a refresh from a quiescent state the canonical schedule settles
again, and then `a` wants nothing that `b` holds. -/
theorem refresh_then_settled (store : KMap Nat) (s : Net.State) (h : Reachable store s)
    (hq : quiescent s = true) (hcap : s.a.client.nextQuery ≤ Server.maxWantlistEntries) :
    ∃ n, quiescent (settle n (step s .refresh)) = true ∧
      ∀ k, k ∈ wants (settle n (step s .refresh)) → (settle n (step s .refresh)).storeB[k]? = none :=
  Proofs.Net.refresh_then_settled store s h hq hcap

/-- C02: a response always carries the serving node's bytes for the queried CID. -/
theorem answers_are_store_bytes (store : KMap Nat) (s : Net.State) (h : Reachable store s)
    (q d : Nat) (ha : (q, d) ∈ s.answered) : ∃ k : Nat, s.storeB[k]? = some d :=
  Proofs.Net.answers_are_store_bytes store s h q d ha

/-- The tolerated gap occurs: a reachable quiescent state in which `a` wants CID 0, `b` holds
it, `a` believes `b` has its want (`SentWantHave`) and `b` has served and forgotten it. So the
second disjunct of `quiescent_answered_or_gap` cannot be dropped; only the refresh
(`refresh_closes_gap`) gets the block to `a`. -/
theorem gap_witness :
    ∃ s, Reachable gapStore s ∧ quiescent s = true ∧ 0 ∈ wants s ∧ s.storeB[(0 : Nat)]? = some 100 ∧
      InGap s 0 :=
  Proofs.Net.gap_witness 

end Beetswap.Props.C02
