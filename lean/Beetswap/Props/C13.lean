import Beetswap.Proofs.ClientQuery
import Beetswap.Proofs.Server
import Beetswap.Generated
import Beetswap.Proofs.ServerLinkThms
import Beetswap.Proofs.ServerCap
/-!
# C13 — State held per peer and per query is bounded and released
-/
namespace Beetswap.Props.C13
open Std Beetswap.Client Beetswap.Wl Beetswap.Spec.ClientSpec Beetswap.Proofs.ClientQuery

/-! ### Server side -/
section
open Beetswap.Server Beetswap.Spec.ServerSpec
/-- C13: whatever mix of update and full wantlists a peer sends, at most 1024 CIDs are recorded. -/
theorem server_cap (s : Server.State) (seq : Nat) (h : Reachable s seq) (p : Nat) (set : KSet)
    (hp : s.wl[p]? = some set) : set.size ≤ 1024 :=
  Proofs.Server.server_cap s seq h p set hp

/-- C13: all server-side state about a peer is dropped when its last connection closes. -/
theorem disconnect_drops (s : Server.State) (p : Nat) :
    (disconnected s p).wl[p]? = none ∧ ∀ k, ¬ Waits (disconnected s p) p k :=
  Proofs.Server.disconnect_drops s p

/-- Translator obligation: the cap in the source is the specification's 1024. -/
theorem cap_is_spec : Generated.implMaxWantlistEntries = Server.maxWantlistEntries := by decide
end

/-! ### Client side -/

/-- Abort handles are kept only for queries whose lookup is still running. -/
theorem abort_released (x : Sys) (outs : List Out) (h : Reach x outs) (q : Nat)
    (hq : q ∈ x.s.abort) : ∃ t ∈ x.s.tasks, isLiveGet q t = true :=
  Proofs.ClientQuery.abort_released x outs h q hq

/-- Everything about a peer is dropped when its last connection closes. -/
theorem client_drop_on_last_close (s : State) (p c : Nat) (ps : PeerSt)
    (h : s.peers[p]? = some ps) (hl : ∀ c', c' ∈ ps.conns → c' = c) :
    (closed s p c).peers[p]? = none :=
  Proofs.ClientQuery.client_drop_on_last_close s p c ps h hl

/-- Waiter lists never hold a query twice and never are empty; a query waits for at most one CID. -/
theorem waiters_wellformed (x : Sys) (outs : List Out) (h : Reach x outs) (k : Nat) (qs : List Nat)
    (hk : x.s.waiters[k]? = some qs) : qs ≠ [] ∧ qs.Nodup :=
  Proofs.ClientQuery.waiters_wellformed x outs h k qs hk

/-- The wantlist is exactly the set of CIDs with at least one waiting query
(this also discharges the `debug_assert!` in `process_incoming_message`). -/
theorem wantlist_eq_waiter_keys (x : Sys) (outs : List Out) (h : Reach x outs) (k : Nat) :
    k ∈ x.s.wantlist.cids ↔ ∃ qs, x.s.waiters[k]? = some qs ∧ qs ≠ [] :=
  Proofs.ClientQuery.wantlist_eq_waiter_keys x outs h k

/-- The bookkeeping invariant: a query is held at most once (as a running lookup, a waiter or a
queued event), never after an event for it was emitted, and only if it was issued. -/
theorem presence_bound (x : Sys) (outs : List Out) (h : Reach x outs) (q : Nat) :
    eventsFor outs q + presence x.s q ≤ 1 ∧
    (0 < eventsFor outs q + presence x.s q → q < x.s.nextQuery) :=
  Proofs.ClientQuery.presence_bound x outs h q

/-- When no query is live and no peer is connected, the client retains nothing but blocks waiting
to be handed to the server half. -/
theorem retained_released (x : Sys) (outs : List Out) (h : Reach x outs)
    (hq : ∀ q, presence x.s q = 0) (hp : x.s.peers.isEmpty = true) (ht : x.s.tasks = []) :
    retained x.s = x.s.newBlocks.length :=
  Proofs.ClientQuery.retained_released x outs h hq hp ht


/-! ### The whole pipeline: server behaviour, swarm routing (`NotifyHandler::Any`), one handler per
connection (`Model/ServerLink`), for every schedule -/
section Pipeline
open Beetswap.ServerLink Beetswap.ServerSink
open Beetswap.Proofs.ServerLink (Holds Connected ids deliverVia okAns)
open Beetswap.Proofs.ServerSink (pendingOf)

/-- C13, server side, for every schedule of connections opening and closing: the server half has
a record for a peer exactly while one of the peer's connections is in the swarm's pool. -/
theorem record_iff_connected (s : ServerLink.State) (hr : ServerLink.Reachable s) (p : Nat) :
    p ∈ s.sv.wl ↔ Connected s.links p :=
  Proofs.ServerLink.record_iff_connected s hr p

theorem record_dropped_with_last_connection (s : ServerLink.State) (hr : ServerLink.Reachable s) (p : Nat)
    (hall : ∀ (c : Nat) (l : Link), s.links[c]? = some l → l.peer = p → l.gone = true) : p ∉ s.sv.wl :=
  Proofs.ServerLink.record_dropped_with_last_connection s hr p hall

end Pipeline

/-! ### Known finding F15: what the cap costs (see `known_findings.json`, DESIGN.md 0.4) -/
section F15
open Beetswap.Server Beetswap.Proofs.Server

/-- The cap C13 requires, seen from the requester: of a full wantlist for `n` CIDs the server records the
first 1024 and drops the rest, whatever it recorded before … -/
theorem full_beyond_cap_dropped (cur : KSet) (n k : Nat) :
    k ∈ (processWantlist cur true (wantsUpTo n)).1 ↔ k < maxWantlistEntries ∧ k < n :=
  Proofs.Server.full_beyond_cap_dropped cur n k

/-- … and the same wantlist sent again (every refresh, same order) drops the same ones: with more than
1024 wants outstanding towards one peer the tail is not served by that peer (C02 carries the
hypothesis `nextQuery ≤ 1024` for this reason). -/
theorem full_again_drops_same (cur : KSet) (n : Nat) :
    ∀ k, k ∈ (processWantlist (processWantlist cur true (wantsUpTo n)).1 true (wantsUpTo n)).1 ↔
         k ∈ (processWantlist cur true (wantsUpTo n)).1 :=
  Proofs.Server.full_again_drops_same cur n

example : (1030 : Nat) ∉ (processWantlist ∅ true (wantsUpTo 2000)).1 := by
  rw [Proofs.Server.full_beyond_cap_dropped]; decide

end F15

end Beetswap.Props.C13
