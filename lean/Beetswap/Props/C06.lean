import Beetswap.Proofs.ConnHandler
import Beetswap.Proofs.Server
import Beetswap.Proofs.ServerLinkThms
/-!
# C06 — Server answers every live want once the block is available

Model: `Model/Server.lean` (`ServerBehaviour`). `Spec/ServerSpec.lean`: `Wants` (the peer's
recorded wantlist holds the CID), `Waits` (the peer is registered in the waiter list), the
invariant `Inv` (a peer waits for a CID exactly when it wants it, exactly once), `sentTo`.
All theorems hold for every reachable state / every message / every lookup order (`obs`).
-/
namespace Beetswap.Props.C06
open Std Beetswap.Server Beetswap.Spec.ServerSpec
open Beetswap.Client (Out StoreRes)

theorem inv_reachable (s : State) (seq : Nat) (h : Reachable s seq) : Inv s :=
  Proofs.Server.inv_reachable s seq h

/-- C06: a want that is new for the peer's record (first expression, re-expression after it was
served, or first in a new session) registers the peer and schedules a blockstore lookup. -/
theorem new_want_scheduled (s : State) (p : Nat) (full : Bool) (es : List Entry) (h : Inv s)
    (cur : KSet) (hc : s.wl[p]? = some cur) (k : Nat) (hk : k ∉ cur)
    (hnew : Wants (incoming s p full es) p k) :
    Waits (incoming s p full es) p k ∧
    ∃ t ∈ (incoming s p full es).tasks, t.peer = p ∧ k ∈ t.todo ∧ t.id ∈ (incoming s p full es).runq :=
  Proofs.Server.new_want_scheduled s p full es h cur hc k hk hnew

/-- C06: an update with a non-cancel entry for `k` records the want when the record is below
the cap and the message does not cancel `k`. -/
theorem update_want_recorded (s : State) (p : Nat) (es : List Entry) (cur : KSet)
    (hc : s.wl[p]? = some cur) (k : Nat) (hk : (⟨some k, false⟩ : Entry) ∈ es)
    (hsmall : cur.size + es.length ≤ maxWantlistEntries) :
    Wants (incoming s p false es) p k :=
  Proofs.Server.update_want_recorded s p es cur hc k hk hsmall

/-- C06: a full wantlist records every wanted CID among its first 1024 wanted entries. -/
theorem full_want_recorded (s : State) (p : Nat) (es : List Entry) (cur : KSet)
    (hc : s.wl[p]? = some cur) (k : Nat) (hk : (⟨some k, false⟩ : Entry) ∈ es)
    (hsmall : es.length ≤ maxWantlistEntries) :
    Wants (incoming s p true es) p k :=
  Proofs.Server.full_want_recorded s p es cur hc k hk hsmall

/-- C06: blocks that become available through the node's own fetches are queued. -/
theorem newBlocks_queued (s : State) (bs : List (Nat × Nat)) (kd : Nat × Nat) (h : kd ∈ bs) :
    kd ∈ (newBlocks s bs).outq :=
  Proofs.Server.newBlocks_queued s bs kd h

/-- C06: whatever is queued for dispatch reaches every peer that waits for it. -/
theorem queued_block_dispatched (s : State) (seq : Nat) (obs : Nat → Option Nat) (h : Inv s)
    (p k d : Nat) (hq : (k, d) ∈ s.outq) (hw : Wants s p k) :
    ∃ d', (k, d') ∈ sentTo (drain s seq obs).2.2 p :=
  Proofs.Server.queued_block_dispatched s seq obs h p k d hq hw

/-- … and the want is forgotten once served, so a second copy needs a new want. -/
theorem served_want_forgotten (s : State) (seq : Nat) (obs : Nat → Option Nat) (h : Inv s)
    (p k d : Nat) (hs : (k, d) ∈ sentTo (drain s seq obs).2.2 p) :
    ¬ Wants (drain s seq obs).1 p k :=
  Proofs.Server.served_want_forgotten s seq obs h p k d hs

/-- C06: … and a reconnecting peer starts from an empty record, so every want is new again. -/
theorem reconnect_fresh (s : State) (p : Nat) :
    (connect (disconnected s p) p).wl[p]? = some ∅ :=
  Proofs.Server.reconnect_fresh s p

/-- Non-vacuity: a state in which a peer wants a queued block satisfies the invariant. -/
example : Inv (incoming (connect {} 1) 1 false [⟨some 5, false⟩]) :=
  Proofs.Server.inv_step _ 0 (.msg 1 false [⟨some 5, false⟩]) (Proofs.Server.inv_step _ 0 (.connect 1) Proofs.Server.inv_init)


/-! ### The connection handler (`Model/ServerSink`, `Model/ConnHandler`): from `QueueOutgoingMessages` to the stream

What the behaviour dispatches is handed to the server half of a connection handler. The theorems
below follow every block from there to the frame it is written in, for every behaviour of the
sink. The handler traces recorded from real swarms (with the sink's answers) are replayed through
this model on every run (`bsdriver cvalidate`). -/
section
open Beetswap.Proto Beetswap.Frame Beetswap.ServerSink Beetswap.ServerHandler Beetswap.Proofs.ServerSink

/-- Conservation: at any point of any run, with any behaviour of the sink, the blocks taken out
of the pending list so far (in the order taken) followed by the blocks still pending are exactly
the blocks that were pending at the start followed by the blocks handed over since, in order:
nothing is duplicated, reordered or invented, and a block leaves the handler only inside a frame
that was written or whose `start_send` failed. -/
theorem run_conservation (h : H) (ins : List In) :
    takenOf (run h ins).2 ++ pendingOf (run h ins).1 = pendingOf h ++ queuedOf ins :=
  Proofs.ServerSink.run_conservation h ins

/-- Blocks are lost only when `start_send` fails: if the sink accepts every frame, whatever the
flushes answer, every block taken was written. -/
theorem nothing_dropped_without_send_error (h : H) (ins : List In)
    (hok : ∀ env, In.poll env ∈ ins → ∀ a ∈ env, a.sendOk = true) :
    droppedOf (run h ins).2 = [] ∧ writtenOf (run h ins).2 = takenOf (run h ins).2 :=
  Proofs.ServerSink.nothing_dropped_without_send_error h ins hok

/-- While the previous frame is not flushed (`poll_flush` is `Pending`) nothing is taken from the
pending list: state unchanged, no effect. -/
theorem pending_flush_takes_nothing (h : H) (sid : Nat) (a : Ans) (env : List Ans)
    (hs : h.sink = .ready sid) (ha : a.flush = .pending) :
    poll h (a :: env) = (h, .pending, []) :=
  Proofs.ServerSink.pending_flush_takes_nothing h sid a env hs ha

/-- A failed flush of the previous frame takes nothing either: the stream is dropped, a new one is
requested and every pending block is still pending. -/
theorem failed_flush_keeps_blocks (h : H) (sid : Nat) (p : List Block) (a : Ans) (env : List Ans)
    (hs : h.sink = .ready sid) (hp : h.pending = some p) (ha : a.flush = .err) :
    poll h (a :: env) = ({ pending := some p, sink := .requested }, .openSubstream, [.closed sid]) :=
  Proofs.ServerSink.failed_flush_keeps_blocks h sid p a env hs hp ha

/-- Fault-free delivery: with a stream and a sink that accepts and flushes everything, one `poll`
with enough answers writes every pending block, in order, and leaves nothing pending. -/
theorem faultfree_writes_all (h : H) (sid : Nat) (p : List Block) (n : Nat)
    (hs : h.sink = .ready sid) (hp : h.pending = some p) (hn : p.length + 1 ≤ n) :
    let r := poll h (List.replicate n { flush := .ok, sendOk := true })
    r.1 = { pending := none, sink := .ready sid } ∧ r.2.1 = .pending ∧
    writtenOf r.2.2 = p ∧ droppedOf r.2.2 = [] :=
  Proofs.ServerSink.faultfree_writes_all h sid p n hs hp hn

/-- … and from scratch: queue, poll (a substream is requested), the stream arrives, poll. -/
theorem faultfree_run (bs : List Block) (sid : Nat) (n : Nat) (hn : bs.length + 1 ≤ n) :
    let r := run {} [.queue bs, .poll [], .setStream sid, .poll (List.replicate n { flush := .ok, sendOk := true })]
    r.1 = { pending := none, sink := .ready sid } ∧ writtenOf r.2 = bs ∧
    r.2.head? = some .openSubstream :=
  Proofs.ServerSink.faultfree_run bs sid n hn

/-- A frame is written only on the stream that is current when `poll` is called. -/
theorem wrote_on_current_stream (h : H) (env : List Ans) (sid : Nat) (m : Message)
    (hm : Out.wrote sid m ∈ (poll h env).2.2) : h.sink = .ready sid :=
  Proofs.ServerSink.wrote_on_current_stream h env sid m hm

end

section
open Beetswap.Proto Beetswap.ConnHandler Beetswap.Proofs.ConnHandler

/-- The same for the server half. -/
theorem server_projection (h : CH) (ins : List In) :
    (run h ins).1.server = (ServerSink.run h.server (serverIns h ins)).1 ∧
    serverOutsOf (run h ins).2 = (ServerSink.run h.server (serverIns h ins)).2 :=
  Proofs.ConnHandler.server_projection h ins

theorem queued_reach_server (h : CH) (ins : List In) :
    ServerSink.queuedOf (serverIns h ins) = queuedBlocks ins :=
  Proofs.ConnHandler.queued_reach_server h ins

/-- Conservation of blocks for the whole connection handler. -/
theorem blocks_conserved (ins : List In) :
    ServerSink.takenOf (serverOutsOf (run {} ins).2) ++ ((run {} ins).1.server.pending.getD []) =
      ServerSink.queuedOf (serverIns {} ins) :=
  Proofs.ConnHandler.blocks_conserved ins

end

/-- Non-vacuity: two blocks queued, stream granted, sink healthy: both are written, in order. -/
example : ServerSink.writtenOf (ServerSink.run {} [.queue [⟨[1], [2]⟩, ⟨[3], [4]⟩], .poll [], .setStream 0,
    .poll (List.replicate 3 { flush := .ok, sendOk := true })]).2 = [⟨[1], [2]⟩, ⟨[3], [4]⟩] :=
  (Proofs.ServerSink.faultfree_run [⟨[1], [2]⟩, ⟨[3], [4]⟩] 0 3 (by decide)).2.1


/-! ### The whole pipeline: server behaviour, swarm routing (`NotifyHandler::Any`), one handler per
connection (`Model/ServerLink`), for every schedule -/
section Pipeline
open Beetswap.ServerLink Beetswap.ServerSink
open Beetswap.Proofs.ServerLink (Holds Connected ids deliverVia okAns)
open Beetswap.Proofs.ServerSink (pendingOf)

/-- C06 through the pipeline: nothing vanishes. An event the behaviour has dispatched is in the
behaviour's queue, is the swarm's pending event, waits in the channel of one connection, was handed
to the handler of one connection, or was dropped by the swarm and is recorded as lost. -/
theorem dispatched_is_somewhere (s : ServerLink.State) (hr : ServerLink.Reachable s) (n : Nat) (hn : n < s.nextE) :
    ∃ pl, pl ≠ .nowhere ∧ Holds s n pl :=
  Proofs.ServerLink.dispatched_is_somewhere s hr n hn

/-- Conservation per connection, for every behaviour of the sink: blocks taken by the handler
(written, or in a frame whose `start_send` failed) followed by the blocks still pending are
exactly the blocks of the events handed to this connection, in order. -/
theorem pipeline_conservation (s : ServerLink.State) (hr : ServerLink.Reachable s) (c : Nat) (l : Link)
    (hl : s.links[c]? = some l) : takenOf l.outs ++ pendingOf l.h = blocksOf l.delivered :=
  Proofs.ServerLink.handler_conservation s hr c l hl

theorem nothing_lost_in_handler (s : ServerLink.State) (hr : ServerLink.Reachable s) (c : Nat) (l : Link)
    (hl : s.links[c]? = some l) (hd : droppedOf l.outs = []) :
    writtenOf l.outs ++ pendingOf l.h = blocksOf l.delivered :=
  Proofs.ServerLink.nothing_lost_in_handler s hr c l hl hd

/-- The swarm drops an event only when every candidate connection is closing or gone, or when a
connection begins to close while events wait in its channel. -/
theorem lost_only_by_fault (s : ServerLink.State) (a : Act) (h : (ServerLink.step s a).lost ≠ s.lost) :
    (a = .giveUp ∧ ∃ e cs, s.pend = some (e, cs) ∧ cs.all (fun c => !usable s.links c) = true) ∨
    (∃ c l, a = .beginClose c ∧ s.links[c]? = some l ∧ l.cmds ≠ []) :=
  Proofs.ServerLink.lost_only_by_fault s a h

theorem no_giveUp_with_usable_candidate (s : ServerLink.State) (e : Ev) (cs : List Nat) (hp : s.pend = some (e, cs))
    (c : Nat) (hc : c ∈ cs) (hu : usable s.links c = true) : ServerLink.step s .giveUp = s :=
  Proofs.ServerLink.no_giveUp_with_usable_candidate s e cs hp c hc hu

/-- Fault-free delivery through the whole pipeline (behaviour queue → swarm → channel → handler →
frames on the stream), in order and complete. -/
theorem faultfree_delivery (s : ServerLink.State) (e : Ev) (rest : List Ev) (c sid : Nat) (l : Link) (n : Nat)
    (hob : s.outbox = e :: rest) (hpd : s.pend = none) (hl : s.links[c]? = some l) (hp : l.peer = e.peer)
    (hcl : l.closing = false) (hg : l.gone = false) (hcm : l.cmds = [])
    (hh : l.h = { pending := none, sink := .ready sid }) (hn : e.blocks.length + 1 ≤ n) :
    let s' := ServerLink.run s (deliverVia c n)
    s'.outbox = rest ∧ s'.pend = none ∧ s'.lost = s.lost ∧
    ∃ l', s'.links[c]? = some l' ∧ l'.cmds = [] ∧ l'.h = { pending := none, sink := .ready sid } ∧
      l'.delivered = l.delivered ++ [e] ∧
      writtenOf l'.outs = writtenOf l.outs ++ e.blocks.map encB ∧ droppedOf l'.outs = droppedOf l.outs ∧
      l'.peer = l.peer ∧ l'.closing = false ∧ l'.gone = false :=
  Proofs.ServerLink.faultfree_delivery s e rest c sid l n hob hpd hl hp hcl hg hcm hh hn

/-- … and of a whole queue: everything the behaviour has queued for the peer of a healthy connection
is written on its stream in the order of dispatch; nothing is dropped, nothing stays behind. -/
theorem faultfree_delivers_all (es : List Ev) (s : ServerLink.State) (c sid : Nat) (l : Link) (n : Nat)
    (hob : s.outbox = es) (hpd : s.pend = none) (hl : s.links[c]? = some l) (hp : ∀ e ∈ es, e.peer = l.peer)
    (hcl : l.closing = false) (hg : l.gone = false) (hcm : l.cmds = [])
    (hh : l.h = { pending := none, sink := .ready sid }) (hn : ∀ e ∈ es, e.blocks.length + 1 ≤ n) :
    let s' := ServerLink.run s (Proofs.ServerLink.deliverAllVia c n es.length)
    s'.outbox = [] ∧ s'.pend = none ∧ s'.lost = s.lost ∧
    ∃ l', s'.links[c]? = some l' ∧ l'.cmds = [] ∧ l'.h = { pending := none, sink := .ready sid } ∧
      l'.delivered = l.delivered ++ es ∧
      writtenOf l'.outs = writtenOf l.outs ++ blocksOf es ∧ droppedOf l'.outs = droppedOf l.outs :=
  Proofs.ServerLink.faultfree_delivers_all es s c sid l n hob hpd hl hp hcl hg hcm hh hn

/-- Non-vacuity: a peer with two connections wants CID 5, the blockstore has it, one connection
begins to close after the swarm took the event, the other carries the block to the wire. -/
def pipelineDemo : List Act :=
  [.connect 0 1, .connect 0 2, .server (.msg 0 true [{ cid := some 5, cancel := false }]), .drain (fun _ => none),
   .server (.complete 0 (.hit 9)), .drain (fun _ => none), .take, .beginClose 2, .accept 1, .deliverCmd 1,
   .handler 1 (.poll []), .handler 1 (.setStream 7), .handler 1 (.poll (List.replicate 3 okAns))]

example : ((ServerLink.run {} pipelineDemo).links[1]?.map (fun l => writtenOf l.outs)) = some [encB (5, 9)] := by decide
example : (ServerLink.run {} pipelineDemo).nextE = 1 ∧ (ServerLink.run {} pipelineDemo).lost = [] := by decide

end Pipeline

end Beetswap.Props.C06
