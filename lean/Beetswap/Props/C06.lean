import Beetswap.Proofs.Server
/-!
# C06 — Server answers every live want once the block is available

Model: `Model/Server.lean` (`ServerBehaviour`). `Spec/ServerSpec.lean`: `Wants` (the peer's
recorded wantlist holds the CID), `Waits` (the peer is registered in the waiter list), the
invariant `Inv` (a peer waits for a CID exactly when it wants it, exactly once), `sentTo`.
All theorems hold for every reachable state / every message / every lookup order (`obs`).
-/
namespace Beetswap.Props.C06
open Std Beetswap.Server Beetswap.Spec.ServerSpec
open Beetswap.Client (Out StoreRes)

theorem inv_reachable (s : State) (seq : Nat) (h : Reachable s seq) : Inv s :=
  Proofs.Server.inv_reachable s seq h

/-- C06: a want that is new for the peer's record (first expression, re-expression after it was
served, or first in a new session) registers the peer and schedules a blockstore lookup. -/
theorem new_want_scheduled (s : State) (p : Nat) (full : Bool) (es : List Entry) (h : Inv s)
    (cur : KSet) (hc : s.wl[p]? = some cur) (k : Nat) (hk : k ∉ cur)
    (hnew : Wants (incoming s p full es) p k) :
    Waits (incoming s p full es) p k ∧
    ∃ t ∈ (incoming s p full es).tasks, t.peer = p ∧ k ∈ t.todo ∧ t.id ∈ (incoming s p full es).runq :=
  Proofs.Server.new_want_scheduled s p full es h cur hc k hk hnew

/-- C06: an update with a non-cancel entry for `k` records the want when the record is below
the cap and the message does not cancel `k`. -/
theorem update_want_recorded (s : State) (p : Nat) (es : List Entry) (cur : KSet)
    (hc : s.wl[p]? = some cur) (k : Nat) (hk : (⟨some k, false⟩ : Entry) ∈ es)
    (hsmall : cur.size + es.length ≤ maxWantlistEntries) :
    Wants (incoming s p false es) p k :=
  Proofs.Server.update_want_recorded s p es cur hc k hk hsmall

/-- C06: a full wantlist records every wanted CID among its first 1024 wanted entries. -/
theorem full_want_recorded (s : State) (p : Nat) (es : List Entry) (cur : KSet)
    (hc : s.wl[p]? = some cur) (k : Nat) (hk : (⟨some k, false⟩ : Entry) ∈ es)
    (hsmall : es.length ≤ maxWantlistEntries) :
    Wants (incoming s p true es) p k :=
  Proofs.Server.full_want_recorded s p es cur hc k hk hsmall

/-- C06: blocks that become available through the node's own fetches are queued. -/
theorem newBlocks_queued (s : State) (bs : List (Nat × Nat)) (kd : Nat × Nat) (h : kd ∈ bs) :
    kd ∈ (newBlocks s bs).outq :=
  Proofs.Server.newBlocks_queued s bs kd h

/-- C06: whatever is queued for dispatch reaches every peer that waits for it. -/
theorem queued_block_dispatched (s : State) (seq : Nat) (obs : Nat → Option Nat) (h : Inv s)
    (p k d : Nat) (hq : (k, d) ∈ s.outq) (hw : Wants s p k) :
    ∃ d', (k, d') ∈ sentTo (drain s seq obs).2.2 p :=
  Proofs.Server.queued_block_dispatched s seq obs h p k d hq hw

/-- … and the want is forgotten once served, so a second copy needs a new want. -/
theorem served_want_forgotten (s : State) (seq : Nat) (obs : Nat → Option Nat) (h : Inv s)
    (p k d : Nat) (hs : (k, d) ∈ sentTo (drain s seq obs).2.2 p) :
    ¬ Wants (drain s seq obs).1 p k :=
  Proofs.Server.served_want_forgotten s seq obs h p k d hs

/-- C06: … and a reconnecting peer starts from an empty record, so every want is new again. -/
theorem reconnect_fresh (s : State) (p : Nat) :
    (connect (disconnected s p) p).wl[p]? = some ∅ :=
  Proofs.Server.reconnect_fresh s p

/-- Non-vacuity: a state in which a peer wants a queued block satisfies the invariant. -/
example : Inv (incoming (connect {} 1) 1 false [⟨some 5, false⟩]) :=
  Proofs.Server.inv_step _ 0 (.msg 1 false [⟨some 5, false⟩]) (Proofs.Server.inv_step _ 0 (.connect 1) Proofs.Server.inv_init)

end Beetswap.Props.C06
