import Beetswap.Proofs.CidLayer
/-!
# C19 — CID and multihash size conversion preserves identity
-/
namespace Beetswap.Props.C19
open Beetswap Beetswap.Cid Beetswap.Proofs.CidLayer

theorem convert_multihash_iff (T : Nat) (mh mh' : Multihash) :
    convertMultihash T mh = some mh' ↔ (mh.digest.length ≤ T ∧ mh' = mh) :=
  Proofs.CidLayer.convert_multihash_iff T mh mh'

/-- `convert_cid` returns the same CID (version, codec, hash code, digest) whenever the digest
fits the target size, and `none` exactly when it does not. -/
theorem convert_cid_iff (T : Nat) (c c' : Cid) (h : c.WF) :
    convertCid T c = some c' ↔ (c.hash.digest.length ≤ T ∧ c' = c) :=
  Proofs.CidLayer.convert_cid_iff T c c' h

theorem convert_cid_none_iff (T : Nat) (c : Cid) (h : c.WF) :
    convertCid T c = none ↔ T < c.hash.digest.length :=
  Proofs.CidLayer.convert_cid_none_iff T c h

/-- Converting back yields the original. -/
theorem convert_back (S T : Nat) (c c' : Cid) (h : c.WF) (hS : c.hash.digest.length ≤ S)
    (hc : convertCid T c = some c') : convertCid S c' = some c :=
  Proofs.CidLayer.convert_back S T c c' h hS hc

end Beetswap.Props.C19
