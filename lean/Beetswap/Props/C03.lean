import Beetswap.Proofs.ClientQuery
import Beetswap.Proofs.ClientWantlistGrowth
/-!
# C03 — Each query gets at most one outcome, and the right one

Model: `Model/Client.lean`. `run {} ops` = the state and all outputs after any finite sequence of
operations (`get`, `cancel`, blockstore completions in any order, incoming messages from any
peers, handshake reports, clock ticks, drains) from the initial state. `eventsFor outs q` counts
the `GetQueryResponse` / `GetQueryError` events for query `q`; `presence s q` counts how often the
state still holds `q` (running lookup, waiter, queued event).
-/
namespace Beetswap.Props.C03
open Std Beetswap.Client Beetswap.Wl Beetswap.Spec.ClientSpec Beetswap.Proofs.ClientQuery

/-- Every call to `get` returns a fresh id: the counter value, which then increases. -/
theorem get_fresh (s : State) (k : Nat) (fits : Bool) :
    (get s k fits).2 = s.nextQuery ∧ (get s k fits).1.nextQuery = s.nextQuery + 1 :=
  Proofs.ClientQuery.get_fresh s k fits

theorem nextQuery_mono (x : Sys) (op : Op) : x.s.nextQuery ≤ (step x op).1.s.nextQuery :=
  Proofs.ClientQuery.nextQuery_mono x op

/-- The bookkeeping invariant: a query is held at most once (as a running lookup, a waiter or a
queued event), never after an event for it was emitted, and only if it was issued. -/
theorem presence_bound (x : Sys) (outs : List Out) (h : Reach x outs) (q : Nat) :
    eventsFor outs q + presence x.s q ≤ 1 ∧
    (0 < eventsFor outs q + presence x.s q → q < x.s.nextQuery) :=
  Proofs.ClientQuery.presence_bound x outs h q

/-- At most one event is ever emitted per query id … -/
theorem at_most_one_event (ops : List Op) (q : Nat) : eventsFor (run {} ops).2 q ≤ 1 :=
  Proofs.ClientQuery.at_most_one_event ops q

/-- … and none for ids that were not issued. -/
theorem only_issued (ops : List Op) (q : Nat) (h : 0 < eventsFor (run {} ops).2 q) :
    q < (run {} ops).1.s.nextQuery :=
  Proofs.ClientQuery.only_issued ops q h

/-- A CID present in the local blockstore is answered from it: the hit produces the response and
touches neither the wantlist nor any peer's exchange state, so no wantlist entry is caused. -/
theorem hit_adds_no_want (s : State) (seq id q k d : Nat) (t : Task)
    (ht : s.tasks.find? (·.id == id) = some t) (hk : t.kind = TaskKind.get q k)
    (hs : t.st = TaskSt.done (StoreRes.hit d)) (ha : t.aborted = false) :
    (pollTask s seq id).2.2 = [Out.resp q d] ∧ (pollTask s seq id).1.wantlist = s.wantlist
      ∧ (pollTask s seq id).1.waiters = s.waiters ∧ (pollTask s seq id).1.peers = s.peers :=
  Proofs.ClientQuery.hit_adds_no_want s seq id q k d t ht hk hs ha

/-- A CID whose multihash does not fit yields exactly one queued `GetQueryError` and nothing else. -/
theorem oversize_one_error (s : State) (k : Nat) :
    (get s k false).1.queue = s.queue ++ [Out.err s.nextQuery 0] ∧ (get s k false).1.tasks = s.tasks
      ∧ (get s k false).1.wantlist = s.wantlist ∧ (get s k false).1.waiters = s.waiters :=
  Proofs.ClientQuery.oversize_one_error s k

/-- A failed blockstore lookup yields exactly one `GetQueryError` and no want. -/
theorem lookup_error_one_error (s : State) (seq id q k : Nat) (t : Task)
    (ht : s.tasks.find? (·.id == id) = some t) (hk : t.kind = TaskKind.get q k)
    (hs : t.st = TaskSt.done StoreRes.error) (ha : t.aborted = false) :
    (pollTask s seq id).2.2 = [Out.err q 1] ∧ (pollTask s seq id).1.wantlist = s.wantlist
      ∧ (pollTask s seq id).1.waiters = s.waiters :=
  Proofs.ClientQuery.lookup_error_one_error s seq id q k t ht hk hs ha

/-- After `cancel q` the state no longer holds `q` unless its event is already queued … -/
theorem cancel_releases (x : Sys) (outs : List Out) (h : Reach x outs) (q : Nat)
    (hq : x.s.queue.filter (aboutQuery q) = []) : presence (cancel x.s q) q = 0 :=
  Proofs.ClientQuery.cancel_releases x outs h q hq

/-- … so a query cancelled before its answer reached the node yields no event, ever. -/
theorem cancel_silences (ops1 ops2 : List Op) (q : Nat)
    (hi : q < (run {} ops1).1.s.nextQuery)
    (h0 : eventsFor (run {} ops1).2 q = 0)
    (hq : (run {} ops1).1.s.queue.filter (aboutQuery q) = []) :
    eventsFor (run (step (run {} ops1).1 (Op.cancel q)).1 ops2).2 q = 0 :=
  Proofs.ClientQuery.cancel_silences ops1 ops2 q hi h0 hq

/-- Cancelling one query leaves every other query where it was. -/
theorem cancel_preserves_others (x : Sys) (outs : List Out) (h : Reach x outs) (q q' : Nat)
    (hne : q' ≠ q) : presence (cancel x.s q) q' = presence x.s q' :=
  Proofs.ClientQuery.cancel_preserves_others x outs h q q' hne

/-- The wantlist is exactly the set of CIDs with at least one waiting query
(this also discharges the `debug_assert!` in `process_incoming_message`). -/
theorem wantlist_eq_waiter_keys (x : Sys) (outs : List Out) (h : Reach x outs) (k : Nat) :
    k ∈ x.s.wantlist.cids ↔ ∃ qs, x.s.waiters[k]? = some qs ∧ qs ≠ [] :=
  Proofs.ClientQuery.wantlist_eq_waiter_keys x outs h k

/-- A wanted block answers exactly the queries waiting for that CID, with that data, removes the
want, and is scheduled for storing under that CID. -/
theorem wanted_block_answers (s : State) (p k d : Nat) (acc : List (Nat × Nat))
    (h : k ∈ s.wantlist.cids) :
    (applyBlock s p k d acc).2 = acc ++ [(k, d)] ∧
    (applyBlock s p k d acc).1.queue = s.queue ++ ((s.waiters[k]?).getD []).map (fun q => Out.resp q d) ∧
    k ∉ (applyBlock s p k d acc).1.wantlist.cids ∧ (applyBlock s p k d acc).1.waiters[k]? = none :=
  Proofs.ClientQuery.wanted_block_answers s p k d acc h

/-- Non-vacuity: a history with two queries for one CID, one cancelled, one answered from the
network. -/
example : ∃ x outs, Reach x outs ∧ eventsFor outs 1 = 1 ∧ eventsFor outs 0 = 0 :=
  ⟨_, _, ⟨[.connect 1 1, .get 7 true, .get 7 true, .drain (fun _ => none), .complete 0 .miss,
           .complete 1 .miss, .drain (fun _ => none), .cancel 0, .msg 1 [] [] [(7, 9)],
           .drain (fun _ => none)], rfl⟩, by decide, by decide⟩

/-- C03, "a CID present in the local blockstore is answered from it; a failing lookup yields an error":
a poll of the behaviour adds a CID to the wantlist — and so to what is asked of the network — only if a
local blockstore lookup for that CID had completed with a *miss* and was not cancelled. A hit, an
error of any kind and a cancelled lookup never turn into a request to the network. (The rule the
monitor "a CID enters the wantlist only because a local lookup for it missed" checks on the
implementation's traces.) -/
theorem wantlist_grows_only_by_miss (s : Beetswap.Client.State) (now seq : Nat) (pref : Nat → Option Nat) (k : Nat)
    (h : k ∈ (Beetswap.Client.drain s now seq pref).1.wantlist.cids) :
    k ∈ s.wantlist.cids ∨ ∃ t ∈ s.tasks, Proofs.ClientQuery.MissedLookup t k :=
  Proofs.ClientQuery.drain_wantlist s now seq pref k h

end Beetswap.Props.C03
