import Beetswap.Proofs.ClientView
import Beetswap.Generated
import Beetswap.Proofs.ClientLink
/-!
# C05 — Wantlist delivery self-heals after any transmission fault (partial)

Behaviour side (`update_handlers`, `Model/Client.updatePeer`). PARTIAL: "keeps receiving updates
as long as it has a working connection" additionally needs that acknowledgements are not late
(known findings F13 / F14); the handler side (5 s stream-allocation timeout, close mid-send) is
exercised by the simulator, not proved.
-/
namespace Beetswap.Props.C05
open Std Beetswap.Client Beetswap.Wl Beetswap.Spec.ClientSpec Beetswap.Proofs.ClientView

/-- After a transmission is reported failed, the connection is dropped and the next wantlist
is a full one over a remaining connection (or the peer is dropped if none remains). -/
theorem failed_forces_full (w : Wantlist) (now : Nat) (ps : PeerSt) (pref : Option Nat) (c : Nat)
    (hs : ps.sending = Sending.failed c) : FaultOutcome now ps c (updatePeer w now ps pref) :=
  Proofs.ClientView.failed_forces_full w now ps pref c hs

/-- Same when the handler never acknowledged the request within the timeout. -/
theorem ack_timeout_forces_full (w : Wantlist) (now : Nat) (ps : PeerSt) (pref : Option Nat)
    (t c : Nat) (hs : ps.sending = Sending.requested t c) (ht : ¬ now - t < receiveRequestTimeout) :
    FaultOutcome now ps c (updatePeer w now ps pref) :=
  Proofs.ClientView.ack_timeout_forces_full w now ps pref t c hs ht

/-- While a transmission is in flight nothing is handed to any connection of the peer and the
peer state is untouched. -/
theorem one_in_flight (w : Wantlist) (now : Nat) (ps : PeerSt) (pref : Option Nat)
    (hs : (∃ c, ps.sending = Sending.requestReceived c) ∨ (∃ c, ps.sending = Sending.sending c) ∨
          (∃ t c, ps.sending = Sending.requested t c ∧ now - t < receiveRequestTimeout)) :
    updatePeer w now ps pref = (some ps, none) :=
  Proofs.ClientView.one_in_flight w now ps pref hs

/-- A pending full wantlist is sent as soon as the peer is ready, over one of its connections. -/
theorem sendfull_next_is_full (w : Wantlist) (now : Nat) (ps : PeerSt) (pref : Option Nat)
    (hr : ps.sending = Sending.ready) (hf : ps.sendFull = true) (hc : ps.conns.isEmpty = false) :
    ∃ ps' c m, updatePeer w now ps pref = (some ps', some (c, m)) ∧ m.full = true ∧ c ∈ ps.conns
      ∧ ps'.sendFull = false ∧ ps'.sending = Sending.requested now c :=
  Proofs.ClientView.sendfull_next_is_full w now ps pref hr hf hc

/-- Every wantlist is handed to exactly one connection, which is one of the peer's. -/
theorem send_on_own_connection (w : Wantlist) (now : Nat) (ps : PeerSt) (pref : Option Nat)
    (ps' : PeerSt) (c : Nat) (m : WlMsg) (h : updatePeer w now ps pref = (some ps', some (c, m))) :
    c ∈ ps.conns ∧ c ∈ ps'.conns ∧ ps'.sending = Sending.requested now c :=
  Proofs.ClientView.send_on_own_connection w now ps pref ps' c m h

/-- The first wantlist of every new peer session is full. -/
theorem first_of_session_full (s : State) (p c : Nat) (h : s.peers[p]? = none) :
    ∃ ps, (connect s p c).peers[p]? = some ps ∧ ps.sendFull = true ∧ ps.sending = Sending.ready
      ∧ c ∈ ps.conns :=
  Proofs.ClientView.first_of_session_full s p c h

/-- When the refresh timer has expired, a drain marks every peer for a full wantlist: each
peer either is sent a full wantlist in this drain, or still has it pending, or is dropped. -/
theorem refresh_sets_full_all (s : State) (now seq : Nat) (pref : Nat → Option Nat)
    (hd : s.deadline ≤ now) (p : Nat) (ps : PeerSt) (hp : s.peers[p]? = some ps) :
    (drain s now seq pref).1.deadline = now + sendFullInterval ∧
    ((∃ c m, Out.send p c m ∈ (drain s now seq pref).2.2 ∧ m.full = true) ∨
     (∃ ps', (drain s now seq pref).1.peers[p]? = some ps' ∧ ps'.sendFull = true) ∨
     (drain s now seq pref).1.peers[p]? = none) :=
  Proofs.ClientView.refresh_sets_full_all s now seq pref hd p ps hp

/-- Translator obligations: the refresh period and the two timeouts in the source. -/
theorem timers_are_spec :
    Generated.implSendFullIntervalMs = sendFullInterval ∧
    Generated.implReceiveRequestTimeoutMs = receiveRequestTimeout ∧
    Generated.implStartSendingTimeoutMs = 5000 := by decide

/-! ### Known finding F13, stated on the composition `Model/ClientLink` (see `known_findings.json`) -/
section F13
open Beetswap.ClientLink

/-- PARTIAL — what C05 promises and the code does not deliver under a late acknowledgement: the trace
`f13Trace` (one connection whose task is not scheduled for `RECEIVE_REQUEST_TIMEOUT` after it was
handed the first wantlist) reaches a state in which the connection is alive, its handler has sent
that wantlist completely and is `Ready`, and the behaviour has no entry for the peer any more — the
CID wanted afterwards (8) is never announced although the peer has a working connection. The
theorems above hold for every run in which acknowledgements are not late. -/
theorem f13_live_connection_given_up :
    (ClientLink.run {} Proofs.ClientLink.f13Trace).cl.s.peers.toList.map (·.1) = [] ∧
    ((ClientLink.run {} Proofs.ClientLink.f13Trace).links[1]?.map fun l =>
      (!l.gone && !l.h.closing && decide (l.h.ss = ClientHandler.HS.ready) && l.cmds.isEmpty && l.reps.isEmpty)) = some true ∧
    (ClientLink.run {} Proofs.ClientLink.f13Trace).cl.s.wantlist.cids.toList = [7, 8] :=
  Proofs.ClientLink.f13_live_connection_given_up

theorem f13_reachable : ClientLink.Reachable (ClientLink.run {} Proofs.ClientLink.f13Trace) :=
  Proofs.ClientLink.f13_reachable

end F13

end Beetswap.Props.C05
