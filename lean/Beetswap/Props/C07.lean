import Beetswap.Proofs.Server
/-!
# C07 — Server sends a peer only blocks it currently wants
-/
namespace Beetswap.Props.C07
open Std Beetswap.Server Beetswap.Spec.ServerSpec
open Beetswap.Client (Out StoreRes)

/-- C07: a block is dispatched to a peer only if, when the drain started, the peer's recorded
wantlist held its CID. -/
theorem sent_implies_wanted (s : State) (seq : Nat) (obs : Nat → Option Nat) (h : Inv s)
    (p k d : Nat) (hs : (k, d) ∈ sentTo (drain s seq obs).2.2 p) : Wants s p k :=
  Proofs.Server.sent_implies_wanted s seq obs h p k d hs

/-- C07: a cancel, or a full wantlist omitting the CID, withdraws the want. -/
theorem cancel_withdraws (s : State) (p : Nat) (es : List Entry) (cur : KSet)
    (hc : s.wl[p]? = some cur) (k : Nat) (hk : (⟨some k, true⟩ : Entry) ∈ es)
    (hno : (⟨some k, false⟩ : Entry) ∉ es) : ¬ Wants (incoming s p false es) p k :=
  Proofs.Server.cancel_withdraws s p es cur hc k hk hno

theorem full_omission_withdraws (s : State) (p : Nat) (es : List Entry) (cur : KSet)
    (hc : s.wl[p]? = some cur) (k : Nat) (hno : (⟨some k, false⟩ : Entry) ∉ es) :
    ¬ Wants (incoming s p true es) p k :=
  Proofs.Server.full_omission_withdraws s p es cur hc k hno

/-- C07: at most one copy per expressed want: in one drain a peer gets at most one block per CID … -/
theorem one_copy_per_drain (s : State) (seq : Nat) (obs : Nat → Option Nat) (h : Inv s)
    (p k : Nat) : ((sentTo (drain s seq obs).2.2 p).filter (fun kd => kd.1 = k)).length ≤ 1 :=
  Proofs.Server.one_copy_per_drain s seq obs h p k

/-- … and the want is forgotten once served, so a second copy needs a new want. -/
theorem served_want_forgotten (s : State) (seq : Nat) (obs : Nat → Option Nat) (h : Inv s)
    (p k d : Nat) (hs : (k, d) ∈ sentTo (drain s seq obs).2.2 p) :
    ¬ Wants (drain s seq obs).1 p k :=
  Proofs.Server.served_want_forgotten s seq obs h p k d hs

/-- C07: the dispatched bytes are bytes the blockstore returned for that CID (or bytes the
client half accepted and stored for it). -/
theorem sent_is_available (s : State) (seq : Nat) (obs : Nat → Option Nat) (h : Inv s)
    (p k d : Nat) (hs : (k, d) ∈ sentTo (drain s seq obs).2.2 p) : Available s k d :=
  Proofs.Server.sent_is_available s seq obs h p k d hs

/-- C13: all server-side state about a peer is dropped when its last connection closes. -/
theorem disconnect_drops (s : State) (p : Nat) :
    (disconnected s p).wl[p]? = none ∧ ∀ k, ¬ Waits (disconnected s p) p k :=
  Proofs.Server.disconnect_drops s p

end Beetswap.Props.C07
