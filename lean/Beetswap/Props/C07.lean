import Beetswap.Proofs.Server
import Beetswap.Proofs.ServerLinkThms
import Beetswap.Proofs.ServerLinkOrigin
/-!
# C07 — Server sends a peer only blocks it currently wants
-/
namespace Beetswap.Props.C07
open Std Beetswap.Server Beetswap.Spec.ServerSpec
open Beetswap.Client (Out StoreRes)

/-- C07: a block is dispatched to a peer only if, when the drain started, the peer's recorded
wantlist held its CID. -/
theorem sent_implies_wanted (s : State) (seq : Nat) (obs : Nat → Option Nat) (h : Inv s)
    (p k d : Nat) (hs : (k, d) ∈ sentTo (drain s seq obs).2.2 p) : Wants s p k :=
  Proofs.Server.sent_implies_wanted s seq obs h p k d hs

/-- C07: a cancel, or a full wantlist omitting the CID, withdraws the want. -/
theorem cancel_withdraws (s : State) (p : Nat) (es : List Entry) (cur : KSet)
    (hc : s.wl[p]? = some cur) (k : Nat) (hk : (⟨some k, true⟩ : Entry) ∈ es)
    (hno : (⟨some k, false⟩ : Entry) ∉ es) : ¬ Wants (incoming s p false es) p k :=
  Proofs.Server.cancel_withdraws s p es cur hc k hk hno

theorem full_omission_withdraws (s : State) (p : Nat) (es : List Entry) (cur : KSet)
    (hc : s.wl[p]? = some cur) (k : Nat) (hno : (⟨some k, false⟩ : Entry) ∉ es) :
    ¬ Wants (incoming s p true es) p k :=
  Proofs.Server.full_omission_withdraws s p es cur hc k hno

/-- C07: at most one copy per expressed want: in one drain a peer gets at most one block per CID … -/
theorem one_copy_per_drain (s : State) (seq : Nat) (obs : Nat → Option Nat) (h : Inv s)
    (p k : Nat) : ((sentTo (drain s seq obs).2.2 p).filter (fun kd => kd.1 = k)).length ≤ 1 :=
  Proofs.Server.one_copy_per_drain s seq obs h p k

/-- … and the want is forgotten once served, so a second copy needs a new want. -/
theorem served_want_forgotten (s : State) (seq : Nat) (obs : Nat → Option Nat) (h : Inv s)
    (p k d : Nat) (hs : (k, d) ∈ sentTo (drain s seq obs).2.2 p) :
    ¬ Wants (drain s seq obs).1 p k :=
  Proofs.Server.served_want_forgotten s seq obs h p k d hs

/-- C07: the dispatched bytes are bytes the blockstore returned for that CID (or bytes the
client half accepted and stored for it). -/
theorem sent_is_available (s : State) (seq : Nat) (obs : Nat → Option Nat) (h : Inv s)
    (p k d : Nat) (hs : (k, d) ∈ sentTo (drain s seq obs).2.2 p) : Available s k d :=
  Proofs.Server.sent_is_available s seq obs h p k d hs

/-- C13: all server-side state about a peer is dropped when its last connection closes. -/
theorem disconnect_drops (s : State) (p : Nat) :
    (disconnected s p).wl[p]? = none ∧ ∀ k, ¬ Waits (disconnected s p) p k :=
  Proofs.Server.disconnect_drops s p


/-! ### The whole pipeline: server behaviour, swarm routing (`NotifyHandler::Any`), one handler per
connection (`Model/ServerLink`), for every schedule -/
section Pipeline
open Beetswap.ServerLink Beetswap.ServerSink
open Beetswap.Proofs.ServerLink (Holds Connected ids deliverVia okAns)
open Beetswap.Proofs.ServerSink (pendingOf)

/-- C07 carried to the pipeline: what a drain adds to the behaviour's queue are blocks the peer's
record held when the drain started, with bytes that were available for that CID. -/
theorem dispatched_was_wanted (s : ServerLink.State) (hr : ServerLink.Reachable s) (obs : Nat → Option Nat) (e : Ev)
    (he : e ∈ (ServerLink.step s (.drain obs)).outbox) (hnew : e ∉ s.outbox) (k d : Nat) (hk : (k, d) ∈ e.blocks) :
    Wants s.sv e.peer k ∧ Available s.sv k d :=
  Proofs.ServerLink.dispatched_was_wanted s hr obs e he hnew k d hk

/-- At most one copy: a dispatched event is accepted by at most one connection … -/
theorem never_two_connections (s : ServerLink.State) (hr : ServerLink.Reachable s) (n c1 c2 : Nat) (l1 l2 : Link)
    (h1 : s.links[c1]? = some l1) (h2 : s.links[c2]? = some l2)
    (m1 : n ∈ ids l1.cmds ∨ n ∈ ids l1.delivered) (m2 : n ∈ ids l2.cmds ∨ n ∈ ids l2.delivered) : c1 = c2 :=
  Proofs.ServerLink.never_two_connections s hr n c1 c2 l1 l2 h1 h2 m1 m2

/-- … occurs once wherever it is … -/
theorem no_duplicates (s : ServerLink.State) (hr : ServerLink.Reachable s) :
    (ids s.outbox).Nodup ∧ (ids s.lost).Nodup ∧
    ∀ (c : Nat) (l : Link), s.links[c]? = some l → (ids l.cmds).Nodup ∧ (ids l.delivered).Nodup :=
  Proofs.ServerLink.no_duplicates s hr

/-- … and the handler writes no block more often than it was handed it: the blocks written on a
connection are a subsequence of the blocks of the events handed to that connection. -/
theorem written_sublist_delivered (s : ServerLink.State) (hr : ServerLink.Reachable s) (c : Nat) (l : Link)
    (hl : s.links[c]? = some l) : List.Sublist (writtenOf l.outs) (blocksOf l.delivered) :=
  Proofs.ServerLink.written_sublist_delivered s hr c l hl

/-- A peer that never asked gets nothing: an event reaches only connections of the peer it was
dispatched to. -/
theorem routed_to_own_peer (s : ServerLink.State) (hr : ServerLink.Reachable s) (c : Nat) (l : Link)
    (hl : s.links[c]? = some l) (e : Ev) (he : e ∈ l.cmds ∨ e ∈ l.delivered) : e.peer = l.peer :=
  Proofs.ServerLink.routed_to_own_peer s hr c l hl e he

/-- … so every block written on a connection belongs to an event dispatched to that connection's peer. -/
theorem written_from_own_event (s : ServerLink.State) (hr : ServerLink.Reachable s) (c : Nat) (l : Link)
    (hl : s.links[c]? = some l) (b : Beetswap.Proto.Block) (hb : b ∈ writtenOf l.outs) :
    ∃ e ∈ l.delivered, e.peer = l.peer ∧ b ∈ e.blocks.map encB :=
  Proofs.ServerLink.written_from_own_event s hr c l hl b hb

/-- C07 from the behaviour to the wire, for every schedule: every block that is ever written on a
connection belongs to an event for that connection's peer which a drain of a reachable state put into
the behaviour's queue — a state in which the peer's recorded wantlist held the block's CID and the
bytes were available for it (`dispatched_was_wanted` carried along every path an event can take:
queue, the swarm's pending event, a channel, a handler). -/
theorem written_was_wanted (s : ServerLink.State) (hr : ServerLink.Reachable s) (c : Nat) (l : Link)
    (hl : s.links[c]? = some l) (b : Beetswap.Proto.Block) (hb : b ∈ writtenOf l.outs) :
    ∃ (s0 : ServerLink.State) (k d : Nat), ServerLink.Reachable s0 ∧ b = encB (k, d) ∧
      Wants s0.sv l.peer k ∧ Available s0.sv k d :=
  Proofs.ServerLink.written_was_wanted s hr c l hl b hb

end Pipeline

end Beetswap.Props.C07
