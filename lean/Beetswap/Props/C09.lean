import Beetswap.Proofs.ServerSink
import Beetswap.Proofs.Codec
import Beetswap.Proofs.Pack
import Beetswap.Generated
/-!
# C09 — The 4 MiB message limit is enforced in both directions
-/
namespace Beetswap.Props.C09
open Beetswap Beetswap.Proto Beetswap.Frame Beetswap.Spec.Limit

/-- A frame whose length prefix announces more than 4 MiB fails as soon as the prefix can be
read, whatever follows — including values that do not fit 64 bits. -/
theorem oversize_rejected (p : List Nat) (hp : CompleteVarint p)
    (hv : natValue p > maxMessageSize) (rest : List Nat) : decode (p ++ rest) = .err :=
  Proofs.Codec.oversize_rejected p hp hv rest

/-- A non-minimal length prefix is not a valid unsigned varint: the stream fails. -/
theorem nonminimal_rejected (p : List Nat) (hp : CompleteVarint p) (hm : ¬ Minimal p)
    (rest : List Nat) : decode (p ++ rest) = .err :=
  Proofs.Codec.nonminimal_rejected p hp hm rest

/-- Ten continuation bytes can not start a valid prefix: the stream fails. -/
theorem overlong_rejected (p : List Nat) (hl : p.length = 10) (hc : ∀ b ∈ p, 128 ≤ b)
    (rest : List Nat) : decode (p ++ rest) = .err :=
  Proofs.Codec.overlong_rejected p hl hc rest

/-- Whenever the decoder asks for more bytes it holds less than one maximum-size frame. -/
theorem needMore_bounded (buf : List Nat) (h : decode buf = .needMore) :
    buf.length < maxMessageSize + 4 :=
  Proofs.Codec.needMore_bounded buf h

/-- So a peer can never make the node buffer more than one maximum-size frame (plus one
8 KiB read) per stream, whatever it sends and however it is chunked. -/
theorem buffer_bounded (chunks : List (List Nat)) (hc : ∀ c ∈ chunks, c.length ≤ 8192) :
    (framedRead chunks).maxBuf ≤ maxMessageSize + 4 + 8192 :=
  Proofs.Codec.buffer_bounded chunks hc

/-- Translator obligation: the limit in the source is the specification's 4 MiB. (That `Codec::decode`
compares the *decoded length* with it, after rejecting prefixes that do not re-encode to themselves, and
checks the nesting before parsing is what the `limit` / `frame` streams decide on every run; an earlier
obligation on the text of the guards raised an alarm on a behaviour-preserving rewrite and was removed.) -/
theorem limit_is_spec : Generated.implMaxMessageSize = maxMessageSize := by decide

/-- Non-vacuity: `81 80 80 02` denotes 4 MiB + 1. -/
example : CompleteVarint [0x81, 0x80, 0x80, 0x02] ∧ natValue [0x81, 0x80, 0x80, 0x02] > maxMessageSize := by
  refine ⟨⟨[0x81, 0x80, 0x80], 0x02, rfl, by decide, by decide⟩, by decide⟩

/-! ### Outbound: `take_next_message` of the server connection handler (`Model/ServerHandler`) -/
section
open Beetswap.ServerHandler

/-- Nothing is lost, duplicated or reordered by one packing step. -/
theorem packNext_concat (p : List Block) : (packNext p).1.payload ++ (packNext p).2 = p :=
  Proofs.Pack.packNext_concat p

/-- Every message takes at least one block (so the handler makes progress). -/
theorem packNext_progress (p : List Block) (h : p ≠ []) : (packNext p).1.payload ≠ [] :=
  Proofs.Pack.packNext_progress p h

/-- If each single block fits in a frame, the message does not exceed the limit. -/
theorem packNext_within_limit (p : List Block) (h : ∀ b ∈ p, blockFieldSize b ≤ maxMessageSize) :
    sizeMessage (packNext p).1 ≤ maxMessageSize :=
  Proofs.Pack.packNext_within_limit p h

/-- All frames sent for a batch: together they carry exactly the pending blocks, in order … -/
theorem frames_concat (p : List Block) : ((frames p).map (·.payload)).flatten = p :=
  Proofs.Pack.frames_concat p

/-- … and no frame exceeds the limit as long as each individual block fits in one: the encoded
frame is the length prefix (at most 4 bytes) plus at most 4 MiB. -/
theorem frames_within_limit (p : List Block) (h : ∀ b ∈ p, blockFieldSize b ≤ maxMessageSize)
    (m : Message) (hm : m ∈ frames p) :
    sizeMessage m ≤ maxMessageSize ∧ (encode m).length ≤ maxMessageSize + 4 :=
  Proofs.Pack.frames_within_limit p h m hm

/-- The frames carry blocks only. -/
theorem frames_only_blocks (p : List Block) (m : Message) (hm : m ∈ frames p) :
    m.wantlist = none ∧ m.presences = [] ∧ m.pendingBytes = 0 ∧ m.payload ≠ [] :=
  Proofs.Pack.frames_only_blocks p m hm

end


/-! ### At the connection handler: every frame the server half writes, in any run, with any sink -/
section
open Beetswap.Proto Beetswap.Frame Beetswap.ServerSink Beetswap.ServerHandler Beetswap.Proofs.ServerSink

/-- C09, outbound, at the handler level: every frame written in any run respects the limit,
provided every single queued block fits in a frame. -/
theorem wrote_within_limit (h : H) (ins : List In)
    (hfit : ∀ b ∈ pendingOf h ++ queuedOf ins, blockFieldSize b ≤ maxMessageSize)
    (sid : Nat) (m : Message) (hm : Out.wrote sid m ∈ (run h ins).2) :
    sizeMessage m ≤ maxMessageSize :=
  Proofs.ServerSink.wrote_within_limit h ins hfit sid m hm

end

end Beetswap.Props.C09
