import Beetswap.Proofs.Codec
import Beetswap.Generated
/-!
# C09 — The 4 MiB message limit is enforced in both directions (inbound part)
-/
namespace Beetswap.Props.C09
open Beetswap Beetswap.Proto Beetswap.Frame Beetswap.Spec.Limit

/-- A frame whose length prefix announces more than 4 MiB fails as soon as the prefix can be
read, whatever follows — including values that do not fit 64 bits. -/
theorem oversize_rejected (p : List Nat) (hp : CompleteVarint p)
    (hv : natValue p > maxMessageSize) (rest : List Nat) : decode (p ++ rest) = .err :=
  Proofs.Codec.oversize_rejected p hp hv rest

/-- A non-minimal length prefix is not a valid unsigned varint: the stream fails. -/
theorem nonminimal_rejected (p : List Nat) (hp : CompleteVarint p) (hm : ¬ Minimal p)
    (rest : List Nat) : decode (p ++ rest) = .err :=
  Proofs.Codec.nonminimal_rejected p hp hm rest

/-- Ten continuation bytes can not start a valid prefix: the stream fails. -/
theorem overlong_rejected (p : List Nat) (hl : p.length = 10) (hc : ∀ b ∈ p, 128 ≤ b)
    (rest : List Nat) : decode (p ++ rest) = .err :=
  Proofs.Codec.overlong_rejected p hl hc rest

/-- Whenever the decoder asks for more bytes it holds less than one maximum-size frame. -/
theorem needMore_bounded (buf : List Nat) (h : decode buf = .needMore) :
    buf.length < maxMessageSize + 4 :=
  Proofs.Codec.needMore_bounded buf h

/-- So a peer can never make the node buffer more than one maximum-size frame (plus one
8 KiB read) per stream, whatever it sends and however it is chunked. -/
theorem buffer_bounded (chunks : List (List Nat)) (hc : ∀ c ∈ chunks, c.length ≤ 8192) :
    (framedRead chunks).maxBuf ≤ maxMessageSize + 4 + 8192 :=
  Proofs.Codec.buffer_bounded chunks hc

/-- Translator obligations: the limit in the source is the specification's 4 MiB, and the guards
of `Codec::decode` compare the *decoded length* (not the prefix length) with it, after
rejecting prefixes that do not re-encode to themselves. -/
theorem limit_is_spec : Generated.implMaxMessageSize = maxMessageSize := by decide

theorem guards_spec :
    Generated.implDecodeGuards =
      ["unsigned_varint::encode::usize(len, &mut varint_buf).len() != varint_len",
       "len > MAX_MESSAGE_SIZE", "rest.len() < len"] := by decide

/-- Non-vacuity: `81 80 80 02` denotes 4 MiB + 1. -/
example : CompleteVarint [0x81, 0x80, 0x80, 0x02] ∧ natValue [0x81, 0x80, 0x80, 0x02] > maxMessageSize := by
  refine ⟨⟨[0x81, 0x80, 0x80], 0x02, rfl, by decide, by decide⟩, by decide⟩

end Beetswap.Props.C09
