import Beetswap.Proofs.HandlerTimed
import Beetswap.Proofs.ConnHandler
import Beetswap.Proofs.Handler
import Beetswap.Proofs.ClientView
import Beetswap.Proofs.Net
import Beetswap.Proofs.ClientLink
import Beetswap.Proofs.ClientLinkConns
/-!
# C14 — A wantlist handed to a connection is delivered whole or reported failed (partial)

`Model/ClientHandler.lean` is the automaton of `ClientConnectionHandler` (inputs: `send_wantlist`,
`set_stream`, `stream_allocation_failed`, `poll` with every possible answer of the sink and the
timer, `poll_close`). `Spec/HandlerSpec.lean` is an executable acceptor for the property on the
interleaved trace of one connection: every accepted wantlist gets exactly one complete frame, on
a stream negotiated after it was accepted, flushed before `Ready` is reported, or is reported
failed; never two frames, never a frame of another wantlist, never a second outcome.

PARTIAL: that a buffered and flushed frame reaches the peer whole is yamux's byte-stream contract
(assumed; exercised by the simulator). `Obeys` — a new wantlist is handed over only after the
outcome of the previous one — is the behaviour's obligation; it is *proved* below for the
composition `Model/ClientLink` (the client behaviour, one handler automaton per connection and the
event channels of libp2p-swarm between them), for every schedule: several connections,
acknowledgements as late as one likes, closes and failures at any point (`behaviour_obeys_handlers`).
Before the repair of finding F14 it was false (`f14_pinned_undisciplined`). The handler traces
recorded from real swarms are validated against the automaton, and the channel laws the
composition assumes are checked on the same recordings, on every run.
-/
namespace Beetswap.Props.C14
open Beetswap.ClientHandler Beetswap.Spec.HandlerSpec

/-- C14 for one connection: for every input sequence obeying the environment's obligations, with
every possible behaviour of the sink and the timer, the interleaved trace is accepted by the
specification: each accepted wantlist gets exactly one complete frame on a stream negotiated
after it was accepted, flushed before `Ready` is reported, or is reported failed; never two
frames, never a frame of another wantlist, never a second outcome. -/
theorem handler_refines_spec (ins : List In) (h : Obeys {} ins) :
    (specRun {} (traceOf {} ins)).isSome = true :=
  Proofs.Handler.handler_refines_spec ins h

/-- A message that could not be written (sink not ready / `start_send` failed) is kept and retried
on a new stream: nothing is reported, nothing was written. -/
theorem retry_keeps_message (h : H) (w sid : Nat) (env : Env) (hm : h.msg = some w)
    (hs : h.sink = .ready sid) (hq : h.queue = []) (hh : h.halted = false)
    (ht : ¬ (h.timer ∧ env.timerFired))
    (hfail : env.pollReady = .err ∨ (env.pollReady = .ok ∧ env.startSendOk = false)) :
    (step h (.poll env)).1.msg = some w ∧ (step h (.poll env)).1.sink = .requested ∧
    (step h (.poll env)).2 = [.closed sid, .openSubstream] :=
  Proofs.Handler.retry_keeps_message h w sid env hm hs hq hh ht hfail

/-- If `Sending` is not reached within the timeout, the transmission is reported failed and the
connection is halted. -/
theorem timeout_reports_failed_and_halts (h : H) (env : Env) (hq : h.queue = [])
    (hh : h.halted = false) (ht : h.timer = true) (hf : env.timerFired = true)
    (hs : h.ss = .requestReceived) :
    (step h (.poll env)).1.halted = true ∧ (step h (.poll env)).1.msg = none ∧
    Out.report (.state .failed) ∈ (step h (.poll env)).2 :=
  Proofs.Handler.timeout_reports_failed_and_halts h env hq hh ht hf hs

/-- Closing the connection mid-transmission reports the transmission as failed before the
closing notification. -/
theorem close_midsend_reports_failed (h : H) (hc : h.closing = false) (hq : h.queue = [])
    (hs : h.ss = .requestReceived ∨ h.ss = .sending) :
    (step h .pollClose).2.getLast? = some (Out.report (.state .failed)) ∧
    (step h .pollClose).1.queue = [.closingConn] ∧ (step h .pollClose).1.msg = none :=
  Proofs.Handler.close_midsend_reports_failed h hc hq hs

/-- A halted handler ignores everything: it never writes, never asks for a stream. -/
theorem halted_is_inert (h : H) (hh : h.halted = true) (hq : h.queue = []) :
    (∀ w, step h (.sendWantlist w) = (h, [])) ∧ (∀ sid, step h (.setStream sid) = (h, [])) ∧
    (∀ env, step h (.poll env) = (h, [])) :=
  Proofs.Handler.halted_is_inert h hh hq

/-- The `debug_assert!`s of `send_wantlist` hold whenever the environment obeys its obligations
(they are exactly the obligation). -/
theorem send_wantlist_asserts (h : H) (w : Nat) (is : List In) (ho : Obeys h (.sendWantlist w :: is)) :
    h.msg = none ∧ h.ss = .ready :=
  Proofs.Handler.send_wantlist_asserts h w is ho

/-- `debug_assert!(matches!(self.sink_state, SinkState::Requested))` in `stream_allocation_failed`
holds whenever it is evaluated (it is skipped when halted). -/
theorem alloc_failed_assert (h : H) (is : List In) (ho : Obeys h (.allocFailed :: is))
    (hh : h.halted = false) : h.sink = .requested :=
  Proofs.Handler.alloc_failed_assert h is ho hh

section
open Std Beetswap.Client Beetswap.Wl Beetswap.Spec.ClientSpec Beetswap.Proofs.ClientView
/-- While a transmission is in flight nothing is handed to any connection of the peer and the
peer state is untouched. -/
theorem one_in_flight (w : Wantlist) (now : Nat) (ps : PeerSt) (pref : Option Nat)
    (hs : (∃ c, ps.sending = Sending.requestReceived c) ∨ (∃ c, ps.sending = Sending.sending c) ∨
          (∃ t c, ps.sending = Sending.requested t c ∧ now - t < receiveRequestTimeout)) :
    updatePeer w now ps pref = (some ps, none) :=
  Proofs.ClientView.one_in_flight w now ps pref hs

/-- Every wantlist is handed to exactly one connection, which is one of the peer's. -/
theorem send_on_own_connection (w : Wantlist) (now : Nat) (ps : PeerSt) (pref : Option Nat)
    (ps' : PeerSt) (c : Nat) (m : WlMsg) (h : updatePeer w now ps pref = (some ps', some (c, m))) :
    c ∈ ps.conns ∧ c ∈ ps'.conns ∧ ps'.sending = Sending.requested now c :=
  Proofs.ClientView.send_on_own_connection w now ps pref ps' c m h

end

/-! ### Consequence for two connected nodes (`Model/Net`, see `Props/C02` for the setting) -/
section
open Std Beetswap.Net Beetswap.Wl Beetswap.Proofs.Net
/-- C14 (records agree): whenever nothing is in flight and nothing is left to do, the serving
side's record of the requester's wants is contained in the requester's live wants. -/
theorem records_agree (store : KMap Nat) (s : Net.State) (h : Reachable store s)
    (hq : quiescent s = true) (set : KSet) (hs : s.b.server.wl[0]? = some set) (k : Nat) (hk : k ∈ set) :
    k ∈ wants s :=
  Proofs.Net.records_agree store s h hq set hs k hk

/-- C14 (records agree, after a refresh): … and then the serving side's record equals the
requester's live wants (which are all for blocks the server does not hold). -/
theorem records_agree_after_refresh (store : KMap Nat) (s : Net.State) (h : Reachable store s)
    (hq : quiescent s = true) (hcap : s.a.client.nextQuery ≤ Server.maxWantlistEntries) (n : Nat)
    (hn : quiescent (settle n (step s .refresh)) = true) (k : Nat) :
    let s' := settle n (step s .refresh)
    (k ∈ wants s' ↔ ∃ set, s'.b.server.wl[0]? = some set ∧ k ∈ set) :=
  Proofs.Net.records_agree_after_refresh store s h hq hcap n hn k

end

/-- Non-vacuity: a complete fault-free transmission obeys the obligations and is accepted. -/
def okEnv : Env := { timerFired := false, pollReady := .ok, startSendOk := true, flush := .ok }

def sampleRun : List In :=
  [.sendWantlist 1, .poll okEnv, .poll okEnv, .setStream 7, .poll okEnv, .poll okEnv, .sendWantlist 2]

example : Obeys {} sampleRun := by
  simp [Obeys, sampleRun, okEnv, step, sendWantlist, setStream, changeState, poll, pollFuel]

example : (specRun {} (traceOf {} sampleRun)).map (·.phase) = some (.accepted 2) := by decide


end Beetswap.Props.C14

namespace Beetswap.Props.C14

/-! ### The whole connection handler (`Model/ConnHandler`, lib.rs `ConnHandler`)

The client half shares its connection handler with the server half and the inbound substreams.
Its part of any run of the whole handler is a run of `Model/ClientHandler`, so the refinement
above applies whatever the other parts do. -/
section
open Beetswap.Proto Beetswap.ConnHandler Beetswap.Proofs.ConnHandler

/-- The client half of any run of the connection handler is a run of `Model/ClientHandler` on the
projected inputs: same final state, same outputs in the same order. Nothing the server half or
the inbound substreams do is visible to it. -/
theorem client_projection (h : CH) (ins : List In) :
    (run h ins).1.client = (ClientHandler.run h.client (clientIns h ins)).1 ∧
    clientOutsOf (run h ins).2 = (ClientHandler.run h.client (clientIns h ins)).2 :=
  Proofs.ConnHandler.client_projection h ins

/-- C14 for the whole connection handler: if the behaviour obeys its obligations towards the
client half, the client half's trace inside any run of the connection handler — whatever arrives
on inbound substreams, whatever the server half does — is accepted by the specification. -/
theorem client_trace_accepted (ins : List In)
    (ho : Spec.HandlerSpec.Obeys {} (clientIns {} ins)) :
    (Spec.HandlerSpec.specRun {} (Spec.HandlerSpec.traceOf {} (clientIns {} ins))).isSome = true :=
  Proofs.ConnHandler.client_trace_accepted ins ho

/-- The connection is kept alive exactly as long as the client half has not halted; neither the
server half nor any inbound substream can close the connection. -/
theorem keepAlive_only_client (h : CH) (i : In) (hk : keepAlive h = true)
    (hnot : keepAlive (step h i).1 = false) :
    ∃ env, i = .poll env ∧ (Inbound.selectPoll h.streams env.inbound env.order).2 = none ∧
      (ClientHandler.poll ClientHandler.pollFuel h.client env.client []).1.halted = true :=
  Proofs.ConnHandler.keepAlive_only_client h i hk hnot

end


/-! ### The client half with its clock (`Model/ClientHandlerTimed`)

`START_SENDING_TIMEOUT` as a function of time rather than an answer of the environment: the timer is
armed when a wantlist is accepted, nothing else moves the deadline — not a new stream, not a failed
negotiation, not a retry —, and the first poll at or after the deadline that finds the wantlist still
unsent reports it failed and halts the connection. The recorded handler traces are checked against
this law (the virtual clock of the simulator stands for `futures_timer`). -/
section
open Beetswap.ClientHandler Beetswap.ClientHandlerTimed Beetswap.Proofs.HandlerTimed

/-- Every timed run is a run of `Model/ClientHandler` (with "the timer fired" read off the
clock), so everything proved about that model — in particular `handler_refines_spec` — holds
for the timed handler. -/
theorem timed_is_untimed (t : T) (ins : List TIn) :
    (run t ins).1.h = (ClientHandler.run t.h (untimedRun t ins)).1 ∧
    (run t ins).2 = (ClientHandler.run t.h (untimedRun t ins)).2 :=
  Proofs.HandlerTimed.timed_is_untimed t ins

/-- Accepting a wantlist arms the timer for exactly `START_SENDING_TIMEOUT`. -/
theorem accept_arms (t : T) (now w : Nat) (hh : t.h.halted = false) :
    (step t (.sendWantlist now w)).1.h.timer = true ∧
    (step t (.sendWantlist now w)).1.deadline = now + startSendingTimeout ∧
    (step t (.sendWantlist now w)).1.h.msg = some w :=
  Proofs.HandlerTimed.accept_arms t now w hh

/-- Nothing else moves the deadline: not a new stream, not a failed negotiation, not a retry. -/
theorem deadline_stable (t : T) (i : TIn) (hi : ∀ now w, i ≠ .sendWantlist now w) :
    (step t i).1.deadline = t.deadline :=
  Proofs.HandlerTimed.deadline_stable t i hi

theorem timerInv_run (ins : List TIn) : TimerInv (run {} ins).1.h :=
  Proofs.HandlerTimed.timerInv_run ins

/-- Before the deadline a poll never halts the handler and never reports a failure on account of
the timer: it behaves as the untimed handler whose timer has not fired. -/
theorem no_early_timeout (t : T) (now : Nat) (e : SinkEnv) (hnow : now < t.deadline) :
    (step t (.poll now e)).1.h.halted = t.h.halted ∧
    step t (.poll now e) =
      (let r := ClientHandler.step t.h (.poll { timerFired := false, pollReady := e.pollReady, startSendOk := e.startSendOk, flush := e.flush });
       ({ t with h := r.1 }, r.2)) :=
  Proofs.HandlerTimed.no_early_timeout t now e hnow

/-- The timeout is enforced: a poll at or after the deadline, with the wantlist still not being
sent, reports the transmission failed and halts the connection — however often stream
negotiation was retried in between. -/
theorem timeout_enforced (t : T) (now : Nat) (e : SinkEnv) (hinv : TimerInv t.h)
    (hq : t.h.queue = []) (hh : t.h.halted = false) (hc : t.h.closing = false)
    (ht : t.h.timer = true) (hnow : t.deadline ≤ now) :
    (step t (.poll now e)).1.h.halted = true ∧ (step t (.poll now e)).1.h.msg = none ∧
    Out.report (.state .failed) ∈ (step t (.poll now e)).2 :=
  Proofs.HandlerTimed.timeout_enforced t now e hinv hq hh hc ht hnow

/-- From acceptance to the deadline: if a wantlist is accepted at `t0`, then after any inputs
that hand over no further wantlist, a poll at a time `≥ t0 + START_SENDING_TIMEOUT` finds the
timer either disarmed (sending started, or failed already, or closing) or fires it now. -/
theorem accepted_then_deadline (t : T) (t0 w : Nat) (hh : t.h.halted = false) (mid : List TIn)
    (hmid : ∀ i ∈ mid, ∀ now w', i ≠ .sendWantlist now w') :
    (run (step t (.sendWantlist t0 w)).1 mid).1.deadline = t0 + startSendingTimeout :=
  Proofs.HandlerTimed.accepted_then_deadline t t0 w hh mid hmid


/-- Non-vacuity: a peer that never grants a stream: accepted at 1000 ms, negotiation fails three
times, polled at 6000 ms: reported failed, halted. -/
example : (ClientHandlerTimed.run {} [.sendWantlist 1000 7, .poll 1000 ⟨.pending, true, .pending⟩, .allocFailed,
    .poll 3000 ⟨.pending, true, .pending⟩, .allocFailed, .poll 5999 ⟨.pending, true, .pending⟩, .allocFailed,
    .poll 6000 ⟨.pending, true, .pending⟩]).1.h.halted = true := by decide

end

end Beetswap.Props.C14

namespace Beetswap.Props.C14

/-! ### The behaviour and all its connection handlers (`Model/ClientLink`)

`Model/Client` composed with one `Model/ClientHandler` per connection. A `SendWantlist` waits in
the swarm until the connection's task takes it (dropped once the connection is closing); the
events a handler returns reach the behaviour in order, tagged with the connection they come from;
`ConnectionClosed` comes after `poll_close` has finished. No bound on any delay. -/
section
open Std Beetswap.ClientLink Beetswap.Proofs.ClientLink
open Beetswap.Client (PeerSt Sending)
open Beetswap.Spec.HandlerSpec (Obeys specRun traceOf)

/-- "A connection is given a new wantlist only after the outcome of the previous one is known",
for every schedule: in every reachable state of the composition the inputs every handler has seen
obey the handler's environment obligations — each `send_wantlist` found the handler `Ready`,
with nothing pending and nothing queued. -/
theorem behaviour_obeys_handlers (s : ClientLink.State) (hr : Reachable s) (c : Nat) (l : Link)
    (hl : s.links[c]? = some l) :
    l.h = (ClientHandler.run {} l.ins).1 ∧ Obeys {} l.ins :=
  Proofs.ClientLink.link_obeys s hr c l hl

/-- … so C14's specification of one connection accepts the trace of every connection of every
reachable state: `handler_refines_spec` without an assumption about the behaviour. -/
theorem every_connection_trace_accepted (s : ClientLink.State) (hr : Reachable s) (c : Nat) (l : Link)
    (hl : s.links[c]? = some l) :
    (specRun {} (traceOf {} l.ins)).isSome = true :=
  Proofs.ClientLink.link_trace_accepted s hr c l hl

/-- A wantlist on its way to a live connection is the only one, finds the handler free, and no
report of the handler is still on its way to the behaviour. -/
theorem handover_finds_free (s : ClientLink.State) (hr : Reachable s) (c : Nat) (l : Link)
    (hl : s.links[c]? = some l) (w : Nat) (rest : List Nat) (hc : l.cmds = w :: rest)
    (hcl : l.h.closing = false) :
    rest = [] ∧ l.h.ss = .ready ∧ l.h.msg = none ∧ l.h.queue = [] ∧ states l.reps = [] :=
  Proofs.ClientLink.handover_finds_free s hr c l hl w rest hc hcl

/-- A usable connection the current transmission is not tracked on is at rest. -/
theorem untracked_connection_at_rest (s : ClientLink.State) (hr : Reachable s) (c : Nat) (l : Link)
    (hl : s.links[c]? = some l) (ps : PeerSt) (hp : s.cl.s.peers[l.peer]? = some ps) (hm : c ∈ ps.conns)
    (ht : ps.sending.conn? ≠ some c) :
    l.cmds = [] ∧ states (l.reps ++ l.h.queue) = [] ∧ l.h.ss = .ready :=
  Proofs.ClientLink.untracked_connection_at_rest s hr c l hl ps hp hm ht

/-- The executable form of the discipline holds in every reachable state (the same check runs on
random walks of the model in the Lean driver). -/
theorem disciplined_reachable (s : ClientLink.State) (hr : Reachable s) : disciplined s = true :=
  Proofs.ClientLink.disciplined_reachable s hr

/-- Finding F14: with `sending_state_changed` as it was (the reporting connection unknown, the
sending state overwritten), 23 actions lead to a wantlist handed to a connection whose previous
one is still pending … -/
theorem f14_pinned_undisciplined : disciplined (f14Trace.foldl stepPinned {}) = false :=
  Proofs.ClientLink.f14_pinned_undisciplined

/-- … and the same actions keep the discipline after the repair (non-vacuity of the hypotheses
above: the trace reaches a state with two links, a given-up connection and a pending wantlist). -/
theorem f14_repaired_disciplined : disciplined (ClientLink.run {} f14Trace) = true :=
  Proofs.ClientLink.f14_repaired_disciplined

example : Reachable (ClientLink.run {} f14Trace) := reachable_run {} Reachable.init f14Trace

/-- A report from a connection other than the one the transmission is tracked on changes nothing. -/
theorem stale_report_ignored (c : Client.State) (p src : Nat) (st : Sending) (ps : PeerSt) (t : Nat)
    (hp : c.peers[p]? = some ps) (ht : ps.sending.conn? = some t) (hne : t ≠ src) :
    Client.sendingChanged c p src st = c :=
  Proofs.ClientSending.sendingChanged_ignored c p src st ps t hp ht hne

/-- A report from the connection the transmission is tracked on (or when none is tracked) becomes
the peer's sending state; nothing else changes. -/
theorem own_report_taken (c : Client.State) (p src : Nat) (st : Sending) (q : Nat)
    (h : ∀ ps, c.peers[p]? = some ps → ps.sending.conn? = none ∨ ps.sending.conn? = some src) :
    (Client.sendingChanged c p src st).peers[q]? =
      if q = p then (c.peers[p]?).map (fun ps => ({ ps with sending := st } : PeerSt)) else c.peers[q]? := by
  rw [Proofs.ClientSending.sendingChanged_eq_set c p src st h]
  exact Proofs.ClientSending.setSending_peers c p st q

/-- A connection that was given up stays given up: connection `c` enters a peer's set of usable
connections only by being established — no report of any handler (late, stale, out of order), no
drain, no close of another connection puts it there. As a wantlist is handed only to a connection
of that set (`send_on_own_connection`), a connection whose handler may still hold an undelivered
wantlist is never handed a second one. -/
theorem given_up_stays_given_up (s : ClientLink.State) (a : Act) (q c : Nat) (ps' : PeerSt)
    (hne : ∀ p, a ≠ .connect p c)
    (h : (ClientLink.step s a).cl.s.peers[q]? = some ps') (hc : c ∈ ps'.conns) :
    ∃ ps, s.cl.s.peers[q]? = some ps ∧ c ∈ ps.conns :=
  Proofs.ClientLink.conns_only_by_connect s a q c ps' hne h hc

end

end Beetswap.Props.C14
