import Beetswap.Proofs.ClientView
import Beetswap.Generated
/-!
# C17 — Full blocks are requested only from peers that announced them
-/
namespace Beetswap.Props.C17
open Std Beetswap.Client Beetswap.Wl Beetswap.Spec.ClientSpec Beetswap.Proofs.ClientView

/-- A want-block entry for `k` is sent to `p` only if `p` answered HAVE for `k` during the
session and has not answered DONT_HAVE for it since. -/
theorem want_block_needs_have (x : GSys) (h : GReachable x) (op : Op) (p c : Nat) (m : WlMsg)
    (hs : Out.send p c m ∈ (gstep x op).2) (k : Nat) (hk : k ∈ m.wantBlock) :
    ∃ g, x.ghost[p]? = some g ∧ k ∈ g.haveOk :=
  Proofs.ClientView.want_block_needs_have x h op p c m hs k hk

/-- A peer whose latest answer is HAVE is sent the want-block with the next update. -/
theorem have_gets_want_block (s : WState) (w : Wantlist) (k : Nat)
    (hr : s.req[k]? = some Req.gotHave) (hf : s.force = true) (hk : k ∈ w.cids) :
    k ∈ (s.genUpdate w).2.wantBlock ∧ (s.genUpdate w).1.req[k]? = some Req.sentWantBlock :=
  Proofs.ClientView.have_gets_want_block s w k hr hf hk

/-- HAVE for a CID with an exchange entry forces an update. -/
theorem have_forces_update (s : WState) (w : Wantlist) (k : Nat) :
    (s.gotHave k).isUpdated w = false :=
  Proofs.ClientView.have_forces_update s w k

theorem ginv_reachable (x : GSys) (h : GReachable x) : GInv x :=
  Proofs.ClientView.ginv_reachable x h

end Beetswap.Props.C17
