import Beetswap.Proofs.CidLayer
/-!
# C18 — Custom multihashers are consulted in the documented order
The table is a list in consultation order: `register` conses, the built-in hasher is last.
-/
namespace Beetswap.Props.C18
open Beetswap Beetswap.Cid Beetswap.Incoming Beetswap.Proto Beetswap.Proofs.CidLayer

/-- The most recently registered hasher that does not answer unknown-code wins. -/
theorem first_non_unknown_wins (pre post : List Hasher) (h : Hasher) (code : Nat) (data : List Nat)
    (hpre : ∀ g ∈ pre, g code data = HashRes.unknown) (hh : h code data ≠ HashRes.unknown) :
    tableHash (pre ++ h :: post) code data = h code data :=
  Proofs.CidLayer.first_non_unknown_wins pre post h code data hpre hh

theorem all_unknown (table : List Hasher) (code : Nat) (data : List Nat)
    (h : ∀ g ∈ table, g code data = HashRes.unknown) : tableHash table code data = HashRes.unknown :=
  Proofs.CidLayer.all_unknown table code data h

/-- Registration puts the new hasher in front: it is consulted first, the older ones (and the
built-in table, registered first of all) only if it answers unknown-code. -/
theorem register_consulted_first (table : List Hasher) (h : Hasher) (code : Nat) (data : List Nat) :
    tableHash (tableRegister table h) code data =
      (if h code data = HashRes.unknown then tableHash table code data else h code data) :=
  Proofs.CidLayer.register_consulted_first table h code data

/-- The built-in table is consulted last: only when every registered hasher answers unknown-code. -/
theorem builtin_last (customs : List Hasher) (builtin : Hasher) (code : Nat) (data : List Nat) :
    tableHash (customs ++ [builtin]) code data =
      (if ∀ g ∈ customs, g code data = HashRes.unknown then builtin code data
       else tableHash customs code data) :=
  Proofs.CidLayer.builtin_last customs builtin code data

/-- A block whose hash code is unknown to every hasher, or whose hasher reports a non-fatal
error, is skipped: the rest of the message is processed as if the block were not there. -/
theorem skip_keeps_rest (S : Nat) (H : Hasher) (b : Block) (bs : List Block) (acc : IncomingMessage)
    (p : CidPrefix) (hp : CidPrefix.fromBytes b.pfx = some p)
    (hs : p.toCid S H b.data = ToCidRes.unknown ∨ p.toCid S H b.data = ToCidRes.custom) :
    processBlocks S H (b :: bs) acc = processBlocks S H bs acc :=
  Proofs.CidLayer.skip_keeps_rest S H b bs acc p hp hs

/-- An unparsable block prefix, an oversize declared digest or a fatal hasher error drops the
whole message and ends the stream. -/
theorem bad_block_fatal (S : Nat) (H : Hasher) (b : Block) (bs : List Block) (acc : IncomingMessage)
    (h : CidPrefix.fromBytes b.pfx = none ∨
         ∃ p, CidPrefix.fromBytes b.pfx = some p ∧
           (p.toCid S H b.data = ToCidRes.size ∨ p.toCid S H b.data = ToCidRes.fatal)) :
    processBlocks S H (b :: bs) acc = ProcRes.fatal :=
  Proofs.CidLayer.bad_block_fatal S H b bs acc h

/-- Rebuilding a CID from its prefix and a byte string yields the original CID exactly when the
byte string hashes to the CID's digest. -/
theorem tocid_iff_hash (S : Nat) (H : Hasher) (c : Cid) (h : c.WF) (hfit : c.hash.digest.length ≤ S)
    (data : List Nat) :
    (CidPrefix.fromCid c).toCid S H data = ToCidRes.ok c ↔ H c.hash.code data = HashRes.ok c.hash :=
  Proofs.CidLayer.tocid_iff_hash S H c h hfit data

end Beetswap.Props.C18
