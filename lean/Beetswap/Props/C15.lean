import Beetswap.Proofs.ClientView
import Beetswap.Proofs.Server
/-!
# C15 — Extra connections to a peer neither duplicate nor reset the exchange (partial)
PARTIAL: with late acknowledgements two connections can interfere (known finding F14).
-/
namespace Beetswap.Props.C15
open Std Beetswap.Client Beetswap.Wl Beetswap.Spec.ClientSpec Beetswap.Proofs.ClientView

theorem extra_connection_keeps_state (s : State) (p c : Nat) (ps : PeerSt)
    (h : s.peers[p]? = some ps) :
    ∃ ps', (connect s p c).peers[p]? = some ps' ∧ ps'.wl = ps.wl ∧ ps'.sending = ps.sending
      ∧ ps'.sendFull = ps.sendFull ∧ (∀ c', c' ∈ ps'.conns ↔ (c' = c ∨ c' ∈ ps.conns))
      ∧ (∀ q, q ≠ p → (connect s p c).peers[q]? = s.peers[q]?)
      ∧ (connect s p c).wantlist = s.wantlist ∧ (connect s p c).queue = s.queue :=
  Proofs.ClientView.extra_connection_keeps_state s p c ps h

theorem close_one_keeps_peer (s : State) (p c : Nat) (ps : PeerSt) (h : s.peers[p]? = some ps)
    (c2 : Nat) (h2 : c2 ∈ ps.conns) (hne : c2 ≠ c) :
    ∃ ps', (closed s p c).peers[p]? = some ps' ∧ ps'.wl = ps.wl ∧ ps'.sending = ps.sending
      ∧ ps'.sendFull = ps.sendFull ∧ (∀ c', c' ∈ ps'.conns ↔ (c' ≠ c ∧ c' ∈ ps.conns)) :=
  Proofs.ClientView.close_one_keeps_peer s p c ps h c2 h2 hne

theorem discard_only_on_last (s : State) (p c : Nat) (ps : PeerSt) (h : s.peers[p]? = some ps) :
    ((closed s p c).peers[p]? = none ↔ ∀ c', c' ∈ ps.conns → c' = c) :=
  Proofs.ClientView.discard_only_on_last s p c ps h

/-- Every wantlist is handed to exactly one connection, which is one of the peer's. -/
theorem send_on_own_connection (w : Wantlist) (now : Nat) (ps : PeerSt) (pref : Option Nat)
    (ps' : PeerSt) (c : Nat) (m : WlMsg) (h : updatePeer w now ps pref = (some ps', some (c, m))) :
    c ∈ ps.conns ∧ c ∈ ps'.conns ∧ ps'.sending = Sending.requested now c :=
  Proofs.ClientView.send_on_own_connection w now ps pref ps' c m h

/-- While a transmission is in flight nothing is handed to any connection of the peer and the
peer state is untouched. -/
theorem one_in_flight (w : Wantlist) (now : Nat) (ps : PeerSt) (pref : Option Nat)
    (hs : (∃ c, ps.sending = Sending.requestReceived c) ∨ (∃ c, ps.sending = Sending.sending c) ∨
          (∃ t c, ps.sending = Sending.requested t c ∧ now - t < receiveRequestTimeout)) :
    updatePeer w now ps pref = (some ps, none) :=
  Proofs.ClientView.one_in_flight w now ps pref hs

/-- Server side: a further connection of a known peer changes nothing. -/
theorem server_extra_connection_keeps_state (s : Server.State) (p : Nat) (h : p ∈ s.wl) :
    Server.connect s p = s :=
  Proofs.Server.extra_connection_keeps_state s p h

end Beetswap.Props.C15
