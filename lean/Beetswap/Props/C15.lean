import Beetswap.Proofs.ClientView
import Beetswap.Proofs.Server
import Beetswap.Proofs.ClientSending
import Beetswap.Proofs.ServerLinkThms
/-!
# C15 — Extra connections to a peer neither duplicate nor reset the exchange (partial)
PARTIAL: the theorems are about the behaviours' bookkeeping; the connections themselves (libp2p-swarm,
yamux) are exercised by the simulator. That two connections cannot interfere through late
acknowledgements (finding F14, repaired) is `stale_report_ignored` here and
`Props.C14.behaviour_obeys_handlers` for the whole composition.
-/
namespace Beetswap.Props.C15
open Std Beetswap.Client Beetswap.Wl Beetswap.Spec.ClientSpec Beetswap.Proofs.ClientView

theorem extra_connection_keeps_state (s : State) (p c : Nat) (ps : PeerSt)
    (h : s.peers[p]? = some ps) :
    ∃ ps', (connect s p c).peers[p]? = some ps' ∧ ps'.wl = ps.wl ∧ ps'.sending = ps.sending
      ∧ ps'.sendFull = ps.sendFull ∧ (∀ c', c' ∈ ps'.conns ↔ (c' = c ∨ c' ∈ ps.conns))
      ∧ (∀ q, q ≠ p → (connect s p c).peers[q]? = s.peers[q]?)
      ∧ (connect s p c).wantlist = s.wantlist ∧ (connect s p c).queue = s.queue :=
  Proofs.ClientView.extra_connection_keeps_state s p c ps h

theorem close_one_keeps_peer (s : State) (p c : Nat) (ps : PeerSt) (h : s.peers[p]? = some ps)
    (c2 : Nat) (h2 : c2 ∈ ps.conns) (hne : c2 ≠ c) :
    ∃ ps', (closed s p c).peers[p]? = some ps' ∧ ps'.wl = ps.wl ∧ ps'.sending = ps.sending
      ∧ ps'.sendFull = ps.sendFull ∧ (∀ c', c' ∈ ps'.conns ↔ (c' ≠ c ∧ c' ∈ ps.conns)) :=
  Proofs.ClientView.close_one_keeps_peer s p c ps h c2 h2 hne

theorem discard_only_on_last (s : State) (p c : Nat) (ps : PeerSt) (h : s.peers[p]? = some ps) :
    ((closed s p c).peers[p]? = none ↔ ∀ c', c' ∈ ps.conns → c' = c) :=
  Proofs.ClientView.discard_only_on_last s p c ps h

/-- Every wantlist is handed to exactly one connection, which is one of the peer's. -/
theorem send_on_own_connection (w : Wantlist) (now : Nat) (ps : PeerSt) (pref : Option Nat)
    (ps' : PeerSt) (c : Nat) (m : WlMsg) (h : updatePeer w now ps pref = (some ps', some (c, m))) :
    c ∈ ps.conns ∧ c ∈ ps'.conns ∧ ps'.sending = Sending.requested now c :=
  Proofs.ClientView.send_on_own_connection w now ps pref ps' c m h

/-- While a transmission is in flight nothing is handed to any connection of the peer and the
peer state is untouched. -/
theorem one_in_flight (w : Wantlist) (now : Nat) (ps : PeerSt) (pref : Option Nat)
    (hs : (∃ c, ps.sending = Sending.requestReceived c) ∨ (∃ c, ps.sending = Sending.sending c) ∨
          (∃ t c, ps.sending = Sending.requested t c ∧ now - t < receiveRequestTimeout)) :
    updatePeer w now ps pref = (some ps, none) :=
  Proofs.ClientView.one_in_flight w now ps pref hs

/-- Server side: a further connection of a known peer changes nothing. -/
theorem server_extra_connection_keeps_state (s : Server.State) (p : Nat) (h : p ∈ s.wl) :
    Server.connect s p = s :=
  Proofs.Server.extra_connection_keeps_state s p h

/-- A report of a connection other than the one the current transmission is tracked on — a
connection given up after `RECEIVE_REQUEST_TIMEOUT`, still running — changes nothing: the
exchange over the remaining connection is not disturbed. -/
theorem stale_report_ignored (c : State) (p src : Nat) (st : Sending) (ps : PeerSt) (t : Nat)
    (hp : c.peers[p]? = some ps) (ht : ps.sending.conn? = some t) (hne : t ≠ src) :
    sendingChanged c p src st = c :=
  Proofs.ClientSending.sendingChanged_ignored c p src st ps t hp ht hne

/-- No report ever touches the wantlist, the exchange state or the connections of a peer. -/
theorem report_keeps_exchange (c : State) (p src : Nat) (st : Sending) :
    (sendingChanged c p src st).wantlist = c.wantlist ∧
    (((sendingChanged c p src st).peers[p]?).getD {}).wl = ((c.peers[p]?).getD {}).wl ∧
    (((sendingChanged c p src st).peers[p]?).getD {}).sendFull = ((c.peers[p]?).getD {}).sendFull :=
  ⟨(Proofs.ClientSending.sendingChanged_fields c p src st).2.1,
   (Proofs.ClientSending.sendingChanged_fields c p src st).2.2.2.2.2.2,
   (Proofs.ClientSending.sendingChanged_fields c p src st).2.2.2.2.2.1⟩


/-! ### The whole pipeline: server behaviour, swarm routing (`NotifyHandler::Any`), one handler per
connection (`Model/ServerLink`), for every schedule -/
section Pipeline
open Beetswap.ServerLink Beetswap.ServerSink
open Beetswap.Proofs.ServerLink (Holds Connected ids deliverVia okAns)
open Beetswap.Proofs.ServerSink (pendingOf)

/-- Server side, for every schedule: while any connection of the peer is in the pool the server
keeps the peer's record — a further connection does not reset it, closing one of several keeps it. -/
theorem record_kept_while_connected (s : ServerLink.State) (hr : ServerLink.Reachable s) (c : Nat) (l : Link)
    (hl : s.links[c]? = some l) (hg : l.gone = false) : l.peer ∈ s.sv.wl :=
  Proofs.ServerLink.record_kept_while_connected s hr c l hl hg

/-- Each block reply goes over exactly one connection: wherever the state holds a dispatched
event, it holds it once. -/
theorem one_place (s : ServerLink.State) (hr : ServerLink.Reachable s) (n : Nat) (p1 p2 : Place)
    (h1 : Holds s n p1) (h2 : Holds s n p2) : p1 = p2 :=
  Proofs.ServerLink.one_place s hr n p1 p2 h1 h2

/-- A connection that has begun to close holds nothing in its channel and is offered nothing more:
replies dispatched afterwards go over the remaining connections. -/
theorem closing_connection_gets_nothing (s : ServerLink.State) (hr : ServerLink.Reachable s) (c : Nat) (l : Link)
    (hl : s.links[c]? = some l) (hc : l.closing = true) : l.cmds = [] :=
  Proofs.ServerLink.closing_connection_gets_nothing s hr c l hl hc

/-- A further connection of a known peer leaves the whole server behaviour as it is. -/
theorem extra_connection_keeps_server_state (s : ServerLink.State) (p c : Nat) (hp : p ∈ s.sv.wl) :
    (ServerLink.step s (.connect p c)).sv = s.sv :=
  Proofs.ServerLink.extra_connection_keeps_server_state s p c hp

end Pipeline

end Beetswap.Props.C15
