import Beetswap.Proofs.CidLayer
import Beetswap.Proofs.ClientQuery
import Beetswap.Proofs.Codec
/-!
# C08 — No bytes from a remote peer can panic the node

Every model function is total (accepted by Lean without `partial`), and returns an explicit
outcome for the inputs on which the Rust code errors or would panic: `ToCidRes.panic` /
`ProcRes.panic` is the `expect` in `CidPrefix::to_cid`; `PRes.overrun` / `DecRes.overrun` marks the
frames on which quick-protobuf's cursor crosses the end of a nested slice — on those the codec
model leaves the third-party parser's behaviour unspecified (known findings F5 / F6).

PARTIAL: the theorems below cover the CID layer, message classification, the behaviours'
`debug_assert!`s and the codec on every frame that is not of the `overrun` class; the connection
handlers' `debug_assert!`s are covered by the simulator (C14), not by a theorem.
-/
namespace Beetswap.Props.C08
open Std Beetswap Beetswap.Cid Beetswap.Incoming Beetswap.Proto Beetswap.Frame Beetswap.Proofs.CidLayer

/-- No byte string makes `from_bytes` + `to_cid` reach the `expect`. -/
theorem prefix_no_panic (S : Nat) (H : Hasher) (hH : HasherSane H) (bs data : List Nat) (p : CidPrefix)
    (h : CidPrefix.fromBytes bs = some p) : p.toCid S H data ≠ ToCidRes.panic :=
  Proofs.CidLayer.prefix_no_panic S H hH bs data p h

theorem process_message_no_panic (S : Nat) (H : Hasher) (hH : HasherSane H)
    (parse : List Nat → Option Cid) (msg : Message) :
    processMessage S H parse msg ≠ ProcRes.panic :=
  Proofs.CidLayer.process_message_no_panic S H hH parse msg

/-- The codec never reports the unspecified class on a schema-valid frame: such frames decode. -/
theorem valid_frame_never_overrun (fs : List Spec.Wire.MsgFld) (h : Spec.Wire.MsgValid fs)
    (hs : (Spec.Wire.serMessage fs).length ≤ maxMessageSize) (rest : List Nat) :
    ∃ m, decode (Spec.Wire.uvar (Spec.Wire.serMessage fs).length ++ Spec.Wire.serMessage fs ++ rest) = .ok m rest :=
  ⟨_, Proofs.Codec.decode_valid_frame fs h hs rest⟩

section
open Beetswap.Client Beetswap.Wl Beetswap.Spec.ClientSpec Beetswap.Proofs.ClientQuery
/-- `debug_assert!(!self.cid_to_queries.contains_key(&cid))` in `process_incoming_message`
(taken when `wantlist.remove` fails) can not fire: a CID that is not in the wantlist has no
waiting queries, in every reachable state. -/
theorem gate_debug_assert_holds (x : Sys) (outs : List Out) (h : Reach x outs) (k : Nat)
    (hk : k ∉ x.s.wantlist.cids) : x.s.waiters[k]? = none ∨ x.s.waiters[k]? = some [] := by
  rcases hq : x.s.waiters[k]? with _ | qs
  · exact Or.inl rfl
  · right
    by_cases hne : qs = []
    · simp [hne]
    · exact absurd ((Proofs.ClientQuery.wantlist_eq_waiter_keys x outs h k).mpr ⟨qs, hq, hne⟩) hk
end

/-- On the pinned tree the `expect` was reachable: the prefix `00 55 12 20` parsed (as an explicit
version 0 with codec raw) and `CidGeneric::new(V0, raw, _)` fails. The repaired `from_bytes`
rejects it. -/
example : CidPrefix.fromBytes [0x00, 0x55, 0x12, 0x20] = none := by
  simp [CidPrefix.fromBytes, Varint.dec, Varint.decAux, SHA2_256, SHA2_256_SIZE, DAG_PB]

/-- … while go-cid's explicit form of a CIDv0 prefix is still accepted. -/
example : CidPrefix.fromBytes [0x00, 0x70, 0x12, 0x20] = some ⟨0, 0x70, 0x12, 0x20⟩ := by
  simp [CidPrefix.fromBytes, Varint.dec, Varint.decAux, SHA2_256, SHA2_256_SIZE, DAG_PB]

end Beetswap.Props.C08
