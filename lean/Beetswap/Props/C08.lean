import Beetswap.Proofs.CidLayer
import Beetswap.Proofs.ClientQuery
import Beetswap.Proofs.Codec
/-!
# C08 — No bytes from a remote peer can panic the node

Every model function is total (accepted by Lean without `partial`), and returns an explicit
outcome for the inputs on which the Rust code errors or would panic: `ToCidRes.panic` /
`ProcRes.panic` is the `expect` in `CidPrefix::to_cid`; `PRes.overrun` / `DecRes.overrun` marks the
reads on which quick-protobuf's cursor would cross the end of a nested slice — where the
third-party parser panics (overflow-checked builds) or loops forever (release builds): findings
F5 / F6. `Codec::decode` now validates the nesting of every frame first (`check_nesting`), and
`decode_never_overruns` proves that this class is unreachable for EVERY byte string.

PARTIAL only in this: the client connection handler's `debug_assert!`s hold under the
environment obligations of C14 (`send_wantlist_asserts`), which late acknowledgements break
(finding F14); the server connection handler is covered by the simulator, not by a theorem.
-/
namespace Beetswap.Props.C08
open Std Beetswap Beetswap.Cid Beetswap.Incoming Beetswap.Proto Beetswap.Frame Beetswap.Proofs.CidLayer

/-- No byte string makes `from_bytes` + `to_cid` reach the `expect`. -/
theorem prefix_no_panic (S : Nat) (H : Hasher) (hH : HasherSane H) (bs data : List Nat) (p : CidPrefix)
    (h : CidPrefix.fromBytes bs = some p) : p.toCid S H data ≠ ToCidRes.panic :=
  Proofs.CidLayer.prefix_no_panic S H hH bs data p h

theorem process_message_no_panic (S : Nat) (H : Hasher) (hH : HasherSane H)
    (parse : List Nat → Option Cid) (msg : Message) :
    processMessage S H parse msg ≠ ProcRes.panic :=
  Proofs.CidLayer.process_message_no_panic S H hH parse msg

/-- The codec never reports the unspecified class on a schema-valid frame: such frames decode. -/
theorem valid_frame_never_overrun (fs : List Spec.Wire.MsgFld) (h : Spec.Wire.MsgValid fs)
    (hs : (Spec.Wire.serMessage fs).length ≤ maxMessageSize) (rest : List Nat) :
    ∃ m, decode (Spec.Wire.uvar (Spec.Wire.serMessage fs).length ++ Spec.Wire.serMessage fs ++ rest) = .ok m rest :=
  ⟨_, Proofs.Codec.decode_valid_frame fs h hs rest⟩

section
open Beetswap.Spec.Wire
/-- C08 for the codec: for EVERY byte string `decode` returns a message, asks for more bytes or
fails the stream; the parser's unspecified class is unreachable. -/
theorem decode_never_overruns (buf : List Nat) (hb : ∀ b ∈ buf, b < 256) : decode buf ≠ DecRes.overrun :=
  Proofs.Codec.decode_never_overruns buf hb

/-- A frame body that passes the pre-check never makes the parser read across the end of a
slice: the unspecified class of the codec model is excluded.

The hypothesis `hl` (the body is shorter than 4 GiB; `decode` only checks bodies of at most
`maxMessageSize` = 4 MiB) is necessary: quick-protobuf reads the length of a nested message with
`read_varint32`, i.e. modulo `2 ^ 32`, so on a body of `2 ^ 32` bytes or more the parser can cut a
nested slice that is not the one the pre-check validated (`CodecOverrunCex.lean`:
`checked_overruns_without_bound`). -/
theorem checked_never_overruns (bs rest : List Nat) (hb : ∀ b ∈ bs, b < 256)
    (hl : bs.length < 2 ^ 32)
    (h : checkNesting (bs.length + 1) bs .message = true) :
    parseMessage (bs ++ rest) bs.length ≠ PRes.overrun :=
  Proofs.Codec.checked_never_overruns bs rest hb hl h

/-- Every schema-valid encoding passes the pre-check (so the check rejects nothing an encoder
conforming to the schema can produce). -/
theorem check_valid_encoding (fs : List MsgFld) (h : MsgValid fs)
    (hs : (serMessage fs).length ≤ maxMessageSize) :
    checkNesting ((serMessage fs).length + 1) (serMessage fs) .message = true :=
  Proofs.Codec.check_valid_encoding fs h hs

end

section
open Beetswap.Client Beetswap.Wl Beetswap.Spec.ClientSpec Beetswap.Proofs.ClientQuery
/-- `debug_assert!(!self.cid_to_queries.contains_key(&cid))` in `process_incoming_message`
(taken when `wantlist.remove` fails) can not fire: a CID that is not in the wantlist has no
waiting queries, in every reachable state. -/
theorem gate_debug_assert_holds (x : Sys) (outs : List Out) (h : Reach x outs) (k : Nat)
    (hk : k ∉ x.s.wantlist.cids) : x.s.waiters[k]? = none ∨ x.s.waiters[k]? = some [] := by
  rcases hq : x.s.waiters[k]? with _ | qs
  · exact Or.inl rfl
  · right
    by_cases hne : qs = []
    · simp [hne]
    · exact absurd ((Proofs.ClientQuery.wantlist_eq_waiter_keys x outs h k).mpr ⟨qs, hq, hne⟩) hk
end

/-- On the pinned tree the `expect` was reachable: the prefix `00 55 12 20` parsed (as an explicit
version 0 with codec raw) and `CidGeneric::new(V0, raw, _)` fails. The repaired `from_bytes`
rejects it. -/
example : CidPrefix.fromBytes [0x00, 0x55, 0x12, 0x20] = none := by
  simp [CidPrefix.fromBytes, Varint.dec, Varint.decAux, SHA2_256, SHA2_256_SIZE, DAG_PB]

/-- … while go-cid's explicit form of a CIDv0 prefix is still accepted. -/
example : CidPrefix.fromBytes [0x00, 0x70, 0x12, 0x20] = some ⟨0, 0x70, 0x12, 0x20⟩ := by
  simp [CidPrefix.fromBytes, Varint.dec, Varint.decAux, SHA2_256, SHA2_256_SIZE, DAG_PB]

end Beetswap.Props.C08
