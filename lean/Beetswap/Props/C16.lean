import Beetswap.Proofs.CidLayer
/-!
# C16 — One bad message costs only its own stream
`processMessage = .fatal` is `process_message` returning `None`: `IncomingStream` then yields
`None` and `SelectAll` drops that stream only; streams are independent values.
-/
namespace Beetswap.Props.C16
open Beetswap Beetswap.Cid Beetswap.Incoming Beetswap.Proto Beetswap.Proofs.CidLayer

/-- An invalid CID in a block presence drops the whole message and ends the stream. -/
theorem bad_presence_fatal (S : Nat) (H : Hasher) (parse : List Nat → Option Cid) (msg : Message)
    (p : Presence) (hp : p ∈ msg.presences) (hbad : parse p.cid = none) :
    processMessage S H parse msg = ProcRes.fatal :=
  Proofs.CidLayer.bad_presence_fatal S H parse msg p hp hbad

/-- An unparsable block prefix, an oversize declared digest or a fatal hasher error drops the
whole message and ends the stream. -/
theorem bad_block_fatal (S : Nat) (H : Hasher) (b : Block) (bs : List Block) (acc : IncomingMessage)
    (h : CidPrefix.fromBytes b.pfx = none ∨
         ∃ p, CidPrefix.fromBytes b.pfx = some p ∧
           (p.toCid S H b.data = ToCidRes.size ∨ p.toCid S H b.data = ToCidRes.fatal)) :
    processBlocks S H (b :: bs) acc = ProcRes.fatal :=
  Proofs.CidLayer.bad_block_fatal S H b bs acc h

/-- A block whose hash code is unknown to every hasher, or whose hasher reports a non-fatal
error, is skipped: the rest of the message is processed as if the block were not there. -/
theorem skip_keeps_rest (S : Nat) (H : Hasher) (b : Block) (bs : List Block) (acc : IncomingMessage)
    (p : CidPrefix) (hp : CidPrefix.fromBytes b.pfx = some p)
    (hs : p.toCid S H b.data = ToCidRes.unknown ∨ p.toCid S H b.data = ToCidRes.custom) :
    processBlocks S H (b :: bs) acc = processBlocks S H bs acc :=
  Proofs.CidLayer.skip_keeps_rest S H b bs acc p hp hs

/-- A message carrying both a wantlist and blocks / presences has both parts applied. -/
theorem both_halves_applied (S : Nat) (H : Hasher) (parse : List Nat → Option Cid) (msg : Message)
    (m : IncomingMessage) (h : processMessage S H parse msg = ProcRes.ok m) (w : Wantlist)
    (hw : msg.wantlist = some w) (hne : w.full = true ∨ w.entries ≠ []) :
    m.server = some w ∧
    (∀ b ∈ msg.payload, ∀ p c, CidPrefix.fromBytes b.pfx = some p → p.toCid S H b.data = ToCidRes.ok c →
        ∃ d, (c, d) ∈ (clientOf m).blocks) ∧
    (∀ pr ∈ msg.presences, ∀ c, parse pr.cid = some c → ∃ t, (c, t) ∈ (clientOf m).presences) :=
  Proofs.CidLayer.both_halves_applied S H parse msg m h w hw hne

theorem earlier_stay_applied (S : Nat) (H : Hasher) (parse : List Nat → Option Cid)
    (good : List Message) (bad : Message) (later : List Message)
    (hg : ∀ m ∈ good, ∃ im, processMessage S H parse m = ProcRes.ok im)
    (hb : processMessage S H parse bad = ProcRes.fatal) :
    deliver S H parse (good ++ bad :: later) = deliver S H parse good :=
  Proofs.CidLayer.earlier_stay_applied S H parse good bad later hg hb

end Beetswap.Props.C16
