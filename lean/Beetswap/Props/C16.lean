import Beetswap.Proofs.ConnHandler
import Beetswap.Proofs.CidLayer
/-!
# C16 — One bad message costs only its own stream
`processMessage = .fatal` is `process_message` returning `None`: `IncomingStream` then yields
`None` and `SelectAll` drops that stream only; streams are independent values.
-/
namespace Beetswap.Props.C16
open Beetswap Beetswap.Cid Beetswap.Incoming Beetswap.Proto Beetswap.Proofs.CidLayer

/-- An invalid CID in a block presence drops the whole message and ends the stream. -/
theorem bad_presence_fatal (S : Nat) (H : Hasher) (parse : List Nat → Option Cid) (msg : Message)
    (p : Presence) (hp : p ∈ msg.presences) (hbad : parse p.cid = none) :
    processMessage S H parse msg = ProcRes.fatal :=
  Proofs.CidLayer.bad_presence_fatal S H parse msg p hp hbad

/-- An unparsable block prefix, an oversize declared digest or a fatal hasher error drops the
whole message and ends the stream. -/
theorem bad_block_fatal (S : Nat) (H : Hasher) (b : Block) (bs : List Block) (acc : IncomingMessage)
    (h : CidPrefix.fromBytes b.pfx = none ∨
         ∃ p, CidPrefix.fromBytes b.pfx = some p ∧
           (p.toCid S H b.data = ToCidRes.size ∨ p.toCid S H b.data = ToCidRes.fatal)) :
    processBlocks S H (b :: bs) acc = ProcRes.fatal :=
  Proofs.CidLayer.bad_block_fatal S H b bs acc h

/-- A block whose hash code is unknown to every hasher, or whose hasher reports a non-fatal
error, is skipped: the rest of the message is processed as if the block were not there. -/
theorem skip_keeps_rest (S : Nat) (H : Hasher) (b : Block) (bs : List Block) (acc : IncomingMessage)
    (p : CidPrefix) (hp : CidPrefix.fromBytes b.pfx = some p)
    (hs : p.toCid S H b.data = ToCidRes.unknown ∨ p.toCid S H b.data = ToCidRes.custom) :
    processBlocks S H (b :: bs) acc = processBlocks S H bs acc :=
  Proofs.CidLayer.skip_keeps_rest S H b bs acc p hp hs

/-- A message carrying both a wantlist and blocks / presences has both parts applied. -/
theorem both_halves_applied (S : Nat) (H : Hasher) (parse : List Nat → Option Cid) (msg : Message)
    (m : IncomingMessage) (h : processMessage S H parse msg = ProcRes.ok m) (w : Wantlist)
    (hw : msg.wantlist = some w) (hne : w.full = true ∨ w.entries ≠ []) :
    m.server = some w ∧
    (∀ b ∈ msg.payload, ∀ p c, CidPrefix.fromBytes b.pfx = some p → p.toCid S H b.data = ToCidRes.ok c →
        ∃ d, (c, d) ∈ (clientOf m).blocks) ∧
    (∀ pr ∈ msg.presences, ∀ c, parse pr.cid = some c → ∃ t, (c, t) ∈ (clientOf m).presences) :=
  Proofs.CidLayer.both_halves_applied S H parse msg m h w hw hne

theorem earlier_stay_applied (S : Nat) (H : Hasher) (parse : List Nat → Option Cid)
    (good : List Message) (bad : Message) (later : List Message)
    (hg : ∀ m ∈ good, ∃ im, processMessage S H parse m = ProcRes.ok im)
    (hb : processMessage S H parse bad = ProcRes.fatal) :
    deliver S H parse (good ++ bad :: later) = deliver S H parse good :=
  Proofs.CidLayer.earlier_stay_applied S H parse good bad later hg hb


/-! ### The inbound substreams of a connection (`Model/Inbound`, `Model/ConnHandler`)

`IncomingStream::poll_next` and the `SelectAll` of a connection's inbound substreams, with every
possible answer of the framed readers and the processing futures: a substream ends only for a
reason of its own, the other substreams and both halves of the handler are untouched, the
connection stays up. -/
section
open Beetswap.Inbound Beetswap.Proofs.Inbound

/-- A substream ends only for a reason of its own: a decoding / transport error, the end of the
stream, or a message with a fatal error. -/
theorem ended_reason (s : S) (reads : List ReadAns) (procs : List ProcAns)
    (h : (poll s reads procs).2 = .ended) :
    ReadAns.err ∈ reads ∨ ReadAns.eof ∈ reads ∨ ProcAns.fatal ∈ procs :=
  Proofs.Inbound.ended_reason s reads procs h

/-- A message with a fatal error ends its substream … -/
theorem fatal_ends_stream (m : Nat) (reads : List ReadAns) (procs : List ProcAns) :
    (poll { proc := some m } reads (.fatal :: procs)).2 = .ended :=
  Proofs.Inbound.fatal_ends_stream m reads procs

/-- … and so does a frame that cannot be decoded. -/
theorem decode_error_ends_stream (reads : List ReadAns) (procs : List ProcAns) :
    (poll { proc := none } (.err :: reads) procs).2 = .ended :=
  Proofs.Inbound.decode_error_ends_stream reads procs

/-- A message that is empty after its skippable parts were dropped is not forwarded and does not
end the substream: reading goes on. -/
theorem empty_message_keeps_stream (m : Nat) (reads : List ReadAns) (procs : List ProcAns) :
    poll { proc := some m } reads (.empty :: procs) =
      ((pollNext (reads.length + procs.length + 1) { proc := none } reads procs).1,
       (pollNext (reads.length + procs.length + 1) { proc := none } reads procs).2.1) :=
  Proofs.Inbound.empty_message_keeps_stream m reads procs

theorem empty_then_next_message (m m' : Nat) :
    poll { proc := some m } [.msg m'] [.empty, .fwd] = ({ proc := none }, .item m') :=
  Proofs.Inbound.empty_then_next_message m m'

/-- Substreams that are not polled are untouched. -/
theorem selectPoll_untouched (ss : Streams) (env : Nat → Env) (order : List Nat) (sid : Nat)
    (h : sid ∉ order) : (selectPoll ss env order).1.lookup sid = ss.lookup sid :=
  Proofs.Inbound.selectPoll_untouched ss env order sid h

/-- C16 at the connection level: whatever the other substreams of the connection receive — errors,
fatal messages, ends — a substream is either untouched, or advanced by its own answers only; it is
dropped only if *its own* `poll_next` ended. -/
theorem selectPoll_own_answers_only (ss : Streams) (hnd : Nodup ss) (env : Nat → Env)
    (order : List Nat) (hord : order.Nodup) (sid : Nat) (s : S) (hs : ss.lookup sid = some s) :
    (selectPoll ss env order).1.lookup sid = some s ∨
    ((poll s (env sid).reads (env sid).procs).2 ≠ .ended ∧
      (selectPoll ss env order).1.lookup sid = some (poll s (env sid).reads (env sid).procs).1) ∨
    ((poll s (env sid).reads (env sid).procs).2 = .ended ∧
      (selectPoll ss env order).1.lookup sid = none) :=
  Proofs.Inbound.selectPoll_own_answers_only ss hnd env order hord sid s hs

/-- … in particular a substream disappears only because of its own error / end / fatal message. -/
theorem dropped_only_by_own_fault (ss : Streams) (hnd : Nodup ss) (env : Nat → Env)
    (order : List Nat) (hord : order.Nodup) (sid : Nat) (s : S) (hs : ss.lookup sid = some s)
    (hgone : (selectPoll ss env order).1.lookup sid = none) :
    ReadAns.err ∈ (env sid).reads ∨ ReadAns.eof ∈ (env sid).reads ∨ ProcAns.fatal ∈ (env sid).procs :=
  Proofs.Inbound.dropped_only_by_own_fault ss hnd env order hord sid s hs hgone

/-- … also when `SelectAll` presents a substream several times in one call (its processing future —
a custom multihasher that is not ready at its first poll — woke itself): no assumption on `order`. -/
theorem dropped_only_by_own_fault_any (ss : Streams) (env : Nat → Env) (order : List Nat) (sid : Nat)
    (s : S) (hs : ss.lookup sid = some s) (hgone : (selectPoll ss env order).1.lookup sid = none) :
    ReadAns.err ∈ (env sid).reads ∨ ReadAns.eof ∈ (env sid).reads ∨ ProcAns.fatal ∈ (env sid).procs :=
  Proofs.Inbound.dropped_only_by_own_fault_any ss env order sid s hs hgone

theorem selectPoll_item_any (ss : Streams) (env : Nat → Env) (order : List Nat) (sid m : Nat)
    (h : (selectPoll ss env order).2 = some (sid, m)) : sid ∈ order ∧ (ss.lookup sid).isSome = true :=
  Proofs.Inbound.selectPoll_item_any ss env order sid m h

/-- A dropped substream never forwards anything again. -/
theorem gone_is_silent (ss : Streams) (env : Nat → Env) (order : List Nat) (sid m : Nat)
    (hgone : ss.lookup sid = none) : (selectPoll ss env order).2 ≠ some (sid, m) :=
  Proofs.Inbound.gone_is_silent ss env order sid m hgone

end

section
open Beetswap.Proto Beetswap.ConnHandler Beetswap.Proofs.ConnHandler

/-- An inbound substream that ends — bad frame, fatal message, end of stream — changes nothing else:
in a `poll` in which no message is forwarded, the client half and the server half are polled exactly
as if the substreams did not exist, and every other substream follows its own answers. -/
theorem stream_end_costs_nothing_else (h : CH) (env : Env)
    (hnone : (Inbound.selectPoll h.streams env.inbound env.order).2 = none) :
    (poll h env).1.client = (ClientHandler.poll ClientHandler.pollFuel h.client env.client []).1 ∧
    ((ClientHandler.poll ClientHandler.pollFuel h.client env.client []).2.1 = .pending →
      (poll h env).1.server = (ServerSink.poll h.server env.server).1) ∧
    (poll h env).1.streams = (Inbound.selectPoll h.streams env.inbound env.order).1 :=
  Proofs.ConnHandler.stream_end_costs_nothing_else h env hnone

/-- Inputs for one part leave the other parts untouched. -/
theorem routing (h : CH) :
    (∀ w, (step h (.sendWantlist w)).1.server = h.server ∧ (step h (.sendWantlist w)).1.streams = h.streams) ∧
    (∀ bs, (step h (.queueBlocks bs)).1.client = h.client ∧ (step h (.queueBlocks bs)).1.streams = h.streams) ∧
    (∀ sid, (step h (.inbound sid)).1.client = h.client ∧ (step h (.inbound sid)).1.server = h.server) ∧
    (∀ sid, (step h (.outbound .client sid)).1.server = h.server ∧ (step h (.outbound .server sid)).1.client = h.client) ∧
    ((step h (.dialError .server)).1.client = h.client ∧ (step h (.dialError .client)).1.server = h.server) :=
  Proofs.ConnHandler.routing h

/-- A message forwarded to the behaviour comes from one of the connection's own substreams and is
what that substream's `poll_next` returned. -/
theorem incoming_origin (h : CH) (hnd : Proofs.Inbound.Nodup h.streams) (env : Env)
    (hord : env.order.Nodup) (sid m : Nat) (hm : Out.ev (.incoming sid m) ∈ (poll h env).2) :
    sid ∈ env.order ∧ ∃ s, h.streams.lookup sid = some s ∧
      (Inbound.poll s (env.inbound sid).reads (env.inbound sid).procs).2 = .item m :=
  Proofs.ConnHandler.incoming_origin h hnd env hord sid m hm

theorem incoming_origin_any (h : CH) (env : Env) (sid m : Nat)
    (hm : Out.ev (.incoming sid m) ∈ (poll h env).2) :
    sid ∈ env.order ∧ (h.streams.lookup sid).isSome = true :=
  Proofs.ConnHandler.incoming_origin_any h env sid m hm


/-- No inbound substream and no server-side event can close the connection: only the client
half's own halt does. -/
theorem keepAlive_only_client (h : CH) (i : In) (hk : keepAlive h = true)
    (hnot : keepAlive (step h i).1 = false) :
    ∃ env, i = .poll env ∧ (Inbound.selectPoll h.streams env.inbound env.order).2 = none ∧
      (ClientHandler.poll ClientHandler.pollFuel h.client env.client []).1.halted = true :=
  Proofs.ConnHandler.keepAlive_only_client h i hk hnot

end

/-- Non-vacuity: two substreams, the first receives a frame that cannot be decoded, the second a
good message: the first is dropped, the second forwards its message. -/
example : Inbound.selectPoll [(0, {}), (1, {})]
    (fun sid => if sid = 0 then { reads := [.err] } else { reads := [.msg 7], procs := [.fwd] }) [0, 1] =
    ([(1, {})], some (1, 7)) := by decide

end Beetswap.Props.C16
