import Beetswap.Proofs.ClientView
import Beetswap.Proofs.ClientQuery
/-!
# C04 — Each peer's view of the wantlist converges to the live queries

`Spec/ClientSpec.lean`: `GSys` = the client transition system plus per-peer history variables
that read the wantlist messages handed to the peer with Bitswap semantics (`told`: a full list
replaces, a cancel removes, an entry adds) and the peer's answers (`deliv`, `dh`). `GReachable`
= every state reachable by any sequence of get / cancel / connect / disconnect / answers /
transmission outcomes / clock ticks / drains with any connection choice. `Quiescent` = the node
has nothing further to send to that peer. The wantlist is exactly the set of CIDs of unresolved,
uncancelled queries (`wantlist_eq_waiter_keys`).
-/
namespace Beetswap.Props.C04
open Std Beetswap.Client Beetswap.Wl Beetswap.Spec.ClientSpec Beetswap.Proofs.ClientView

theorem ginv_reachable (x : GSys) (h : GReachable x) : GInv x :=
  Proofs.ClientView.ginv_reachable x h

/-- Q1: whenever the node has nothing further to send to the peer, every CID in the peer's view
that the peer has not itself delivered belongs to the node's wantlist (= the CIDs of its
unresolved, uncancelled queries, see `ClientQuery.wantlist_eq_waiter_keys`). -/
theorem quiescent_sound (x : GSys) (h : GReachable x) (p : Nat) (ps : PeerSt) (g : Ghost)
    (hp : x.sys.s.peers[p]? = some ps) (hg : x.ghost[p]? = some g) (hq : Quiescent x.sys.s ps)
    (k : Nat) (hk : k ∈ g.told) (hd : k ∉ g.deliv) : k ∈ x.sys.s.wantlist.cids :=
  Proofs.ClientView.quiescent_sound x h p ps g hp hg hq k hk hd

/-- Q2: … and every wanted CID is in the peer's view unless the peer answered DONT_HAVE for it.
(Stronger than the property, which also tolerates "already delivered since being asked".) -/
theorem quiescent_complete (x : GSys) (h : GReachable x) (p : Nat) (ps : PeerSt) (g : Ghost)
    (hp : x.sys.s.peers[p]? = some ps) (hg : x.ghost[p]? = some g) (hq : Quiescent x.sys.s ps)
    (k : Nat) (hk : k ∈ x.sys.s.wantlist.cids) : k ∈ g.told ∨ k ∈ g.dh :=
  Proofs.ClientView.quiescent_complete x h p ps g hp hg hq k hk

/-- Q3: every full wantlist lists exactly the wanted CIDs minus the DONT_HAVE ones, and carries
no cancel entries. -/
theorem full_exact (x : GSys) (h : GReachable x) (op : Op) (p c : Nat) (m : WlMsg)
    (hs : Out.send p c m ∈ (gstep x op).2) (hf : m.full = true) (g : Ghost)
    (hg : x.ghost[p]? = some g) :
    m.cancel = [] ∧
    ∀ k, (k ∈ m.wantHave ∨ k ∈ m.wantBlock) ↔
      (k ∈ (gstep x op).1.sys.s.wantlist.cids ∧ k ∉ g.dh) :=
  Proofs.ClientView.full_exact x h op p c m hs hf g hg

/-- Wantlists are only handed to peers with a running session (so `g` above always exists). -/
theorem no_send_without_session (x : GSys) (h : GReachable x) (op : Op) (p c : Nat) (m : WlMsg)
    (hs : Out.send p c m ∈ (gstep x op).2) : ∃ g, x.ghost[p]? = some g :=
  Proofs.ClientView.no_send_without_session x h op p c m hs

/-- An update cancels every CID that is no longer wanted and that the peer was told about
and has not delivered. -/
theorem update_cancels_unwanted (s : WState) (w : Wantlist) (hu : s.isUpdated w = false) (k : Nat)
    (r : Req) (hr : s.req[k]? = some r) (hb : r ≠ Req.gotBlock) (hk : k ∉ w.cids) :
    k ∈ (s.genUpdate w).2.cancel ∧ (s.genUpdate w).1.req[k]? = none :=
  Proofs.ClientView.update_cancels_unwanted s w hu k r hr hb hk

/-- An update announces every wanted CID the peer has no exchange entry for. -/
theorem update_announces_new (s : WState) (w : Wantlist) (hu : s.isUpdated w = false) (k : Nat)
    (hr : s.req[k]? = none) (hk : k ∈ w.cids) :
    k ∈ (s.genUpdate w).2.wantHave ∧ (s.genUpdate w).1.req[k]? = some Req.sentWantHave :=
  Proofs.ClientView.update_announces_new s w hu k hr hk

/-- `is_updated` never hides a pending difference: every change of the wantlist makes every
peer state not-updated. -/
theorem insert_unsyncs (w : Wantlist) (k : Nat) (s : WState) (hs : s.synced ≤ w.revision)
    (hi : (w.insert k).2 = true) : s.isUpdated (w.insert k).1 = false :=
  Proofs.ClientView.insert_unsyncs w k s hs hi

theorem remove_unsyncs (w : Wantlist) (k : Nat) (s : WState) (hs : s.synced ≤ w.revision)
    (hi : (w.remove k).2 = true) : s.isUpdated (w.remove k).1 = false :=
  Proofs.ClientView.remove_unsyncs w k s hs hi

section
open Beetswap.Proofs.ClientQuery
/-- The wantlist is exactly the set of CIDs with at least one waiting query
(this also discharges the `debug_assert!` in `process_incoming_message`). -/
theorem wantlist_eq_waiter_keys (x : Sys) (outs : List Out) (h : Reach x outs) (k : Nat) :
    k ∈ x.s.wantlist.cids ↔ ∃ qs, x.s.waiters[k]? = some qs ∧ qs ≠ [] :=
  Proofs.ClientQuery.wantlist_eq_waiter_keys x outs h k

end

theorem greachable_grun (x : GSys) (ops : List Op) (h : GReachable x) : GReachable (grun x ops).1 := by
  induction ops generalizing x with
  | nil => simpa [grun] using h
  | cons op ops ih =>
    simp only [grun]
    exact ih _ (GReachable.step op h)

/-- Non-vacuity: a reachable state with a quiescent peer whose view holds a wanted CID. -/
def sampleOps : List Op :=
  [.connect 1 1, .get 7 true, .drain (fun _ => some 1), .complete 0 .miss, .drain (fun _ => some 1),
   .sending 1 1 .ready, .drain (fun _ => some 1), .sending 1 1 .ready, .drain (fun _ => some 1)]

example : GReachable (grun {} sampleOps).1 := greachable_grun _ _ GReachable.init

example : ((grun {} sampleOps).1.ghost[1]?).map (fun g => g.told.contains 7) = some true := by decide

example : ((grun {} sampleOps).1.sys.s.peers[1]?).map
    (fun ps => decide (ps.sending = .ready) && !ps.sendFull && ps.wl.isUpdated (grun {} sampleOps).1.sys.s.wantlist)
    = some true := by decide

end Beetswap.Props.C04
