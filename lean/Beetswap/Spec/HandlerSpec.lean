import Beetswap.Model.ClientHandler
/-!
Specification for C14 at the level of one connection: an executable acceptor over the interleaved
inputs and outputs of the client connection handler.

"Each wantlist handed to the connection reaches the peer as exactly one complete frame on a fresh
stream, or the transmission is reported as failed; never twice, never merged with another, and a
new wantlist is accepted only after the outcome of the previous one is known."
-/
namespace Beetswap.Spec.HandlerSpec
open Beetswap.ClientHandler

inductive Ev where
  | inp (i : In)
  | out (o : Out)

/-- Where the current transmission stands. -/
inductive Phase where
  | idle                                   -- nothing outstanding
  | accepted (w : Nat)                     -- handed over, no byte written yet
  | written (w sid : Nat) (flushed : Bool) -- one complete frame of `w` buffered on stream `sid`
deriving Repr, DecidableEq

structure SpecState where
  phase : Phase := .idle
  /-- the stream negotiated since the current wantlist was accepted, if any -/
  stream : Option Nat := none
  closed : Bool := false
deriving Repr, DecidableEq

/-- One event; `none` = the specification is violated. -/
def specStep (s : SpecState) : Ev → Option SpecState
  | .inp (.sendWantlist w) =>
    -- only when the outcome of the previous one is known
    if s.phase = .idle ∧ ¬ s.closed then some { s with phase := .accepted w, stream := none } else none
  | .inp (.setStream sid) => some { s with stream := some sid }
  | .inp .allocFailed => some s
  | .inp (.poll _) => some s
  | .inp .pollClose => some { s with closed := true }
  | .out (.wrote sid w) =>
    -- exactly one frame, of the accepted wantlist, on a stream negotiated after it was accepted
    match s.phase with
    | .accepted w' => if w = w' ∧ s.stream = some sid then some { s with phase := .written w sid false } else none
    | _ => none
  | .out (.flushed sid) =>
    match s.phase with
    | .written w sid' false => if sid = sid' then some { s with phase := .written w sid true } else none
    | _ => none
  | .out (.closed _) => some { s with stream := none }
  | .out .openSubstream => some s
  | .out (.report (.state .requestReceived)) =>
    match s.phase with
    | .accepted _ => some s
    | _ => none
  | .out (.report (.state .sending)) =>
    match s.phase with
    | .written _ _ _ => some s
    | _ => none
  | .out (.report (.state .ready)) =>
    -- delivered whole: written and flushed
    match s.phase with
    | .written _ _ true => some { s with phase := .idle }
    | _ => none
  | .out (.report (.state .failed)) =>
    -- reported failed: only for an outstanding transmission
    match s.phase with
    | .idle => none
    | _ => some { s with phase := .idle }
  | .out (.report .closingConn) => if s.closed then some s else none

def specRun (s : SpecState) : List Ev → Option SpecState
  | [] => some s
  | e :: es =>
    match specStep s e with
    | some s' => specRun s' es
    | none => none

/-- The interleaved trace of a run: every input followed by the outputs it caused. -/
def traceOf (h : H) : List In → List Ev
  | [] => []
  | i :: is => (Ev.inp i :: (step h i).2.map Ev.out) ++ traceOf (step h i).1 is

/-- The obligations of the handler's environment (the behaviour and libp2p-swarm):
a wantlist is handed over only when the handler reported the outcome of the previous one
(`behaviour_obeys_protocol`: the behaviour sends only in peer state `Ready`, which under the
no-late-acknowledgement assumption mirrors the handler's state), a stream / an allocation
failure is delivered only in answer to a request, after `poll_close` started nothing else is
called. -/
def Obeys (h : H) : List In → Prop
  | [] => True
  | i :: is =>
    (match i with
     | .sendWantlist _ => h.ss = .ready ∧ h.msg = none ∧ h.queue = [] ∧ ¬ h.closing
     | .setStream _ => (h.sink = .requested ∨ h.halted) ∧ ¬ h.closing
     | .allocFailed => (h.sink = .requested ∨ h.halted) ∧ ¬ h.closing
     | .poll _ => ¬ h.closing
     | .pollClose => True) ∧ Obeys (step h i).1 is

/-- Stream ids handed to `set_stream` are fresh (never used before). -/
def FreshStreams : List In → Prop
  | is => ((is.filterMap fun i => match i with | .setStream sid => some sid | _ => none)).Nodup

end Beetswap.Spec.HandlerSpec
