import Beetswap.Model.Node
/-!
Specification vocabulary at the level of the whole node (client half + server half + glue), for
the store / forward clauses of C01.
-/
namespace Beetswap.Spec.NodeSpec
open Std Beetswap.Node
open Beetswap.Client (Out StoreRes)

/-- The blocks of an incoming message that pass the client gate: `(cid, data)` pairs (the CID is
the one recomputed from the data by `process_message`) whose CID is wanted when the message is
applied, from a peer the client knows. -/
def acceptedBy (s : State) : Op → List (Nat × Nat)
  | .msg p _ _ bs _ =>
    if p ∈ s.client.peers then
      -- a CID repeated in one message is accepted once: the first occurrence removes the want
      (bs.foldl (fun (acc : List (Nat × Nat) × List Nat) kd =>
        if kd.1 ∈ s.client.wantlist.cids ∧ kd.1 ∉ acc.2 then (acc.1 ++ [kd], kd.1 :: acc.2) else acc) ([], [])).1
    else []
  | _ => []

/-- What the server half legitimately has to dispatch, apart from client-accepted blocks:
blockstore hits (`complete` with a hit for a server lookup) and blocks announced by the
application through `NewBlocksAvailable`. -/
def externalBlocks (s : State) : Op → List (Nat × Nat)
  | .newBlocks bs => bs
  | .complete seq (StoreRes.hit d) =>
    -- the CID the server task waiting on `seq` is looking up
    (s.server.tasks.filterMap fun t => match t.st, t.todo with
      | .waiting n, k :: _ => if n = seq then some (k, d) else none
      | _, _ => none)
  | _ => []

/-- Run with the history: all outputs, all accepted blocks, all external blocks so far. -/
structure Hist where
  outs : List Out := []
  accepted : List (Nat × Nat) := []
  external : List (Nat × Nat) := []

def hstep (x : State × Hist) (op : Op) : State × Hist :=
  let (s', o, _) := step x.1 op
  (s', { outs := x.2.outs ++ o, accepted := x.2.accepted ++ acceptedBy x.1 op,
         external := x.2.external ++ externalBlocks x.1 op })

def hrun (x : State × Hist) (ops : List Op) : State × Hist := ops.foldl hstep x

end Beetswap.Spec.NodeSpec
