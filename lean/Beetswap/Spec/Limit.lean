import Beetswap.Model.Frame
/-!
Specification vocabulary for C09: what a length prefix *denotes*, independent of the 64-bit
decoder in the code.
-/
namespace Beetswap.Spec.Limit

/-- A complete varint: continuation bytes followed by one final byte. -/
def CompleteVarint (p : List Nat) : Prop :=
  ∃ init last, p = init ++ [last] ∧ last < 128 ∧ ∀ b ∈ init, 128 ≤ b ∧ b < 256

/-- The value a varint denotes, as an unbounded natural number. -/
def natValue : List Nat → Nat
  | [] => 0
  | b :: bs => b % 128 + 128 * natValue bs

/-- Minimal encoding: no trailing zero group. -/
def Minimal (p : List Nat) : Prop := p.length = 1 ∨ p.getLast? ≠ some 0

end Beetswap.Spec.Limit
