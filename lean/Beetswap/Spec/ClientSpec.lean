import Beetswap.Model.Client
/-!
Specification vocabulary for the requesting side (C03, C04, C05, C13, C15, C17).

`GSys` = the client transition system plus, per peer session, *history variables* that read the
wantlist messages handed to that peer with Bitswap semantics and the peer's answers:

* `told`   — the peer's view: a full list replaces, a cancel removes, an entry adds;
* `deliv`  — CIDs the peer delivered (accepted or not) since they were last (re-)added to `told`;
* `dh`     — CIDs for which the peer's latest answer since it was asked is DONT_HAVE (cleared by
             HAVE, by an accepted block, when the CID is announced again, and when the want is
             withdrawn from that peer);
* `haveOk` — CIDs for which the peer answered HAVE during the session and not DONT_HAVE since.

The history variables are updated only from observable events (`send` outputs, incoming
messages, session start / end); they never influence the model's behaviour.
-/
namespace Beetswap.Spec.ClientSpec
open Std Beetswap.Client Beetswap.Wl

structure Ghost where
  told : KSet := ∅
  deliv : KSet := ∅
  dh : KSet := ∅
  haveOk : KSet := ∅

def eraseAll (s : KSet) (ks : List Nat) : KSet := ks.foldl (fun s k => s.erase k) s
def insertAll (s : KSet) (ks : List Nat) : KSet := ks.foldl (fun s k => s.insert k) s
def restrict (s : KSet) (keep : KSet) : KSet := s.toList.foldl (fun acc k => if k ∈ keep then acc else acc.erase k) s

/-- A wantlist message was handed to the peer. `want` = the node's wantlist at that time. -/
def Ghost.recordSend (g : Ghost) (want : KSet) (m : WlMsg) : Ghost :=
  let newly := m.wantHave ++ m.wantBlock
  { g with
    told := if m.full then insertAll ∅ newly else insertAll (eraseAll g.told m.cancel) newly,
    deliv := eraseAll g.deliv newly,
    dh := if m.full then eraseAll (restrict g.dh want) newly
          else eraseAll (eraseAll g.dh m.cancel) newly }

/-- An incoming message from the peer. `hasEntry k` = the node holds an exchange entry for `k`
with this peer; `wanted k` = `k` is in the node's wantlist (the block will be accepted). -/
def Ghost.recordMsg (g : Ghost) (hasEntry wanted : Nat → Bool) (haves dontHaves : List Nat)
    (blocks : List (Nat × Nat)) : Ghost :=
  let g := haves.foldl (fun g k => { g with haveOk := g.haveOk.insert k, dh := g.dh.erase k }) g
  let g := dontHaves.foldl (fun g k =>
    { g with haveOk := g.haveOk.erase k, dh := if hasEntry k then g.dh.insert k else g.dh }) g
  blocks.foldl (fun g kd =>
    { g with deliv := g.deliv.insert kd.1, dh := if wanted kd.1 then g.dh.erase kd.1 else g.dh }) g

structure GSys where
  sys : Sys := {}
  ghost : KMap Ghost := ∅

def sendsTo (outs : List Out) (p : Nat) : List WlMsg :=
  outs.filterMap (fun o => match o with
    | .send q _ m => if q = p then some m else none
    | _ => none)

/-- One step of the system with its history variables. A peer's history starts empty when its
session starts and is discarded when the session ends (the peer entry disappears). -/
def gstep (x : GSys) (op : Op) : GSys × List Out :=
  let (sys', outs) := step x.sys op
  let upd (p : Nat) : Ghost :=
    let g := (x.ghost[p]?).getD {}
    -- a session that did not exist before the step starts with empty history
    let g := if p ∈ x.sys.s.peers then g else {}
    match op with
    | .msg q hs ds bs =>
      if q = p ∧ p ∈ x.sys.s.peers then
        g.recordMsg (fun k => k ∈ ((x.sys.s.peers[p]?).map (·.wl.req)).getD ∅)
                    (fun k => k ∈ x.sys.s.wantlist.cids) hs ds bs
      else g
    | .drain _ => (sendsTo outs p).foldl (fun g m => g.recordSend sys'.s.wantlist.cids m) g
    | _ => g
  ({ sys := sys', ghost := KMap.tab sys'.s.peers.keys (fun p => some (upd p)) }, outs)

def grun (x : GSys) : List Op → GSys × List Out
  | [] => (x, [])
  | op :: ops =>
    let (x', o1) := gstep x op
    let (x'', o2) := grun x' ops
    (x'', o1 ++ o2)

inductive GReachable : GSys → Prop where
  | init : GReachable {}
  | step {x} (op : Op) : GReachable x → GReachable (gstep x op).1

/-- "The node has nothing further to send to that peer." -/
def Quiescent (s : State) (ps : PeerSt) : Prop :=
  ps.sending = .ready ∧ ps.sendFull = false ∧ ps.wl.isUpdated s.wantlist = true

/-- The inductive invariant relating the per-peer exchange state to the history variables. -/
structure PeerInv (s : State) (ps : PeerSt) (g : Ghost) : Prop where
  asked_told : ∀ k : Nat, (ps.wl.req[k]? = some Req.sentWantHave ∨ ps.wl.req[k]? = some Req.sentWantBlock) → k ∈ g.told
  got_deliv : ∀ k : Nat, ps.wl.req[k]? = some Req.gotBlock → k ∈ g.deliv
  got_unwanted : ∀ k : Nat, ps.wl.req[k]? = some Req.gotBlock → k ∉ s.wantlist.cids
  dh_iff : ∀ k : Nat, k ∈ g.dh ↔ ps.wl.req[k]? = some Req.gotDontHave
  told_tracked : ∀ k : Nat, k ∈ g.told → ps.wl.req[k]? = none → k ∈ g.deliv
  wb_have : ∀ k : Nat, (ps.wl.req[k]? = some Req.gotHave ∨ ps.wl.req[k]? = some Req.sentWantBlock) → k ∈ g.haveOk
  have_forces : ∀ k : Nat, ps.wl.req[k]? = some Req.gotHave → ps.wl.force = true
  synced_keys : ps.wl.synced = s.wantlist.revision → ∀ k : Nat, k ∈ ps.wl.req ↔ k ∈ s.wantlist.cids
  synced_le : ps.wl.synced ≤ s.wantlist.revision

structure GInv (x : GSys) : Prop where
  peers : ∀ (p : Nat) (ps : PeerSt), x.sys.s.peers[p]? = some ps → ∃ g, x.ghost[p]? = some g ∧ PeerInv x.sys.s ps g
  rev_zero : x.sys.s.wantlist.revision = 0 → ∀ k : Nat, k ∉ x.sys.s.wantlist.cids
  conns_nonempty : ∀ (p : Nat) (ps : PeerSt), x.sys.s.peers[p]? = some ps → ps.conns.isEmpty = false
  /-- the event queue never holds a `send` (sends are produced by `update_handlers` only) -/
  queue_nosend : ∀ (p c : Nat) (m : WlMsg), Out.send p c m ∉ x.sys.s.queue

/-! ### Query bookkeeping (C03, C13) -/

def aboutQuery (q : Nat) : Out → Bool
  | .resp q' _ => q' == q
  | .err q' _ => q' == q
  | _ => false

def isLiveGet (q : Nat) (t : Task) : Bool :=
  !t.aborted && match t.kind with
    | .get q' _ => q' == q
    | .put _ => false

/-- How many times the state still "holds" query `q`: as a running lookup, as a waiter, as a
queued event. -/
def presence (s : State) (q : Nat) : Nat :=
  (s.tasks.filter (isLiveGet q)).length
  + ((s.waiters.toList.map (fun kv => kv.2.count q)).sum)
  + (s.queue.filter (aboutQuery q)).length

def eventsFor (outs : List Out) (q : Nat) : Nat := (outs.filter (aboutQuery q)).length

/-- The structural size of the client's retained state. -/
def retained (s : State) : Nat :=
  s.queue.length + s.wantlist.cids.size + s.waiters.size
  + (s.waiters.toList.map (fun kv => kv.2.length)).sum + s.tasks.length + s.abort.size
  + s.newBlocks.length
  + (s.peers.toList.map (fun pp => 1 + pp.2.conns.size + pp.2.wl.req.size)).sum

end Beetswap.Spec.ClientSpec
