import Beetswap.Model.Server
/-!
Specification vocabulary for the serving side (C06, C07, C13).
-/
namespace Beetswap.Spec.ServerSpec
open Std Beetswap.Server
open Beetswap.Client (Out StoreRes)

/-- `p` is recorded as wanting `k`. -/
def Wants (s : State) (p k : Nat) : Prop := ∃ set, s.wl[p]? = some set ∧ k ∈ set

/-- `p` is registered as waiting for block `k`. -/
def Waits (s : State) (p k : Nat) : Prop := ∃ ps, s.waiting[k]? = some ps ∧ p ∈ ps

/-- The invariant of the serving side: a peer waits for a CID exactly when its recorded
wantlist holds it, exactly once; records are capped. -/
structure Inv (s : State) : Prop where
  waits_wants : ∀ p k, Waits s p k → Wants s p k
  wants_waits : ∀ p k, Wants s p k → Waits s p k
  nodup : ∀ (k : Nat) (ps : List Nat), s.waiting[k]? = some ps → ps.Nodup ∧ ps ≠ []
  cap : ∀ (p : Nat) (set : KSet), s.wl[p]? = some set → set.size ≤ maxWantlistEntries
  /-- events are handed out in the same `poll` that produces them: nothing stays queued -/
  evq_nil : s.evq = []

/-- The blocks dispatched to `p` by a list of outputs. -/
def sentTo (outs : List Out) (p : Nat) : List (Nat × Nat) :=
  (outs.filterMap (fun o => match o with
    | .blocks q bs => if q = p then some bs else none
    | _ => none)).flatten

/-- What is available for dispatch during a drain: blocks already queued plus the hits of
lookup tasks (finished lookups and the one that just completed). -/
def Available (s : State) (k d : Nat) : Prop :=
  (k, d) ∈ s.outq ∨
  ∃ t ∈ s.tasks, (k, StoreRes.hit d) ∈ t.results ∨
    (t.todo.head? = some k ∧ ∃ r, t.st = LookupSt.ready r ∧ r = StoreRes.hit d)

end Beetswap.Spec.ServerSpec
