import Beetswap.Model.Frame
/-!
The Bitswap 1.2.0 message schema (`message.proto`) over the generic proto3 wire format,
written from the protobuf encoding document, independently of quick-protobuf:

* a field is `tag value`, `tag = uvar (number * 8 + wireType)`;
* wire type 0 = varint, 1 = 8 fixed bytes, 2 = varint length + that many bytes, 5 = 4 fixed bytes;
* `int32` / enum values are sign-extended to 64 bits before varint encoding; `bool` is 0 / 1;
* fields may come in any order, unknown fields are skipped, for a singular scalar the last
  occurrence wins, repeated fields keep their order.

A *field tree* (`List MsgFld`) is one schema-valid encoding choice of a message: which fields
are written (defaults may be written explicitly), in which order, with which unknown fields in
between. `ser*` is the wire format, `interp*` the logical message it denotes.
-/
namespace Beetswap.Spec.Wire
open Beetswap.Proto

/-- base-128 varint, least significant group first -/
def uvar (v : Nat) : List Nat :=
  if _h : v < 128 then [v] else (v % 128 + 128) :: uvar (v / 128)
termination_by v
decreasing_by omega

def bytesOk (bs : List Nat) : Prop := ∀ b ∈ bs, b < 256

/-- An unknown field: a field number / wire type pair that the message type does not define. -/
inductive Unk where
  | varint (num v : Nat)
  | fixed64 (num : Nat) (bs : List Nat)
  | fixed32 (num : Nat) (bs : List Nat)
  | len (num : Nat) (bs : List Nat)
deriving Repr

def Unk.num : Unk → Nat
  | .varint n _ | .fixed64 n _ | .fixed32 n _ | .len n _ => n

def Unk.wt : Unk → Nat
  | .varint .. => 0 | .fixed64 .. => 1 | .len .. => 2 | .fixed32 .. => 5

def Unk.ser : Unk → List Nat
  | .varint num v => uvar (num * 8 + 0) ++ uvar v
  | .fixed64 num bs => uvar (num * 8 + 1) ++ bs
  | .len num bs => uvar (num * 8 + 2) ++ uvar bs.length ++ bs
  | .fixed32 num bs => uvar (num * 8 + 5) ++ bs

/-- `known` = the (number, wire type) pairs the enclosing message type defines. -/
def Unk.Valid (known : List (Nat × Nat)) (u : Unk) : Prop :=
  1 ≤ u.num ∧ u.num < 2 ^ 29 ∧ (u.num, u.wt) ∉ known ∧
  match u with
  | .varint _ v => v < 2 ^ 64
  | .fixed64 _ bs => bs.length = 8 ∧ bytesOk bs
  | .fixed32 _ bs => bs.length = 4 ∧ bytesOk bs
  | .len _ bs => bs.length < 2 ^ 32 ∧ bytesOk bs

/-- wire value of an `int32` / enum field: sign-extended to 64 bits -/
def I32Wire (v : Nat) : Prop := v < 2 ^ 31 ∨ (2 ^ 64 - 2 ^ 31 ≤ v ∧ v < 2 ^ 64)

def i32OfWire (v : Nat) : Int := if v < 2 ^ 31 then (v : Int) else (v : Int) - 2 ^ 64

def BoolWire (v : Nat) : Prop := v = 0 ∨ v = 1

/-! #### Entry -/

inductive EntryFld where
  | block (bs : List Nat)
  | priority (v : Nat)
  | cancel (v : Nat)
  | wantType (v : Nat)
  | sendDontHave (v : Nat)
  | unk (u : Unk)
deriving Repr

def entryKnown : List (Nat × Nat) := [(1, 2), (2, 0), (3, 0), (4, 0), (5, 0)]

def EntryFld.ser : EntryFld → List Nat
  | .block bs => uvar (1 * 8 + 2) ++ uvar bs.length ++ bs
  | .priority v => uvar (2 * 8 + 0) ++ uvar v
  | .cancel v => uvar (3 * 8 + 0) ++ uvar v
  | .wantType v => uvar (4 * 8 + 0) ++ uvar v
  | .sendDontHave v => uvar (5 * 8 + 0) ++ uvar v
  | .unk u => u.ser

def EntryFld.Valid : EntryFld → Prop
  | .block bs => bs.length < 2 ^ 32 ∧ bytesOk bs
  | .priority v => I32Wire v
  | .cancel v => BoolWire v
  | .wantType v => I32Wire v
  | .sendDontHave v => BoolWire v
  | .unk u => u.Valid entryKnown

def serEntry (fs : List EntryFld) : List Nat := (fs.map EntryFld.ser).flatten

/-- unknown enum numbers denote the default value -/
def enumOfWire (v : Nat) : Nat := if v = 1 then 1 else 0

def EntryFld.apply (e : Entry) : EntryFld → Entry
  | .block bs => { e with block := bs }
  | .priority v => { e with priority := i32OfWire v }
  | .cancel v => { e with cancel := v == 1 }
  | .wantType v => { e with wantType := enumOfWire v }
  | .sendDontHave v => { e with sendDontHave := v == 1 }
  | .unk _ => e

def interpEntry (fs : List EntryFld) : Entry := fs.foldl EntryFld.apply {}

/-! #### Wantlist -/

inductive WantlistFld where
  | entry (fs : List EntryFld)
  | full (v : Nat)
  | unk (u : Unk)
deriving Repr

def wantlistKnown : List (Nat × Nat) := [(1, 2), (2, 0)]

def WantlistFld.ser : WantlistFld → List Nat
  | .entry fs => uvar (1 * 8 + 2) ++ uvar (serEntry fs).length ++ serEntry fs
  | .full v => uvar (2 * 8 + 0) ++ uvar v
  | .unk u => u.ser

def WantlistFld.Valid : WantlistFld → Prop
  | .entry fs => (∀ f ∈ fs, f.Valid) ∧ (serEntry fs).length < 2 ^ 32
  | .full v => BoolWire v
  | .unk u => u.Valid wantlistKnown

def serWantlist (fs : List WantlistFld) : List Nat := (fs.map WantlistFld.ser).flatten

def WantlistFld.apply (w : Wantlist) : WantlistFld → Wantlist
  | .entry fs => { w with entries := w.entries ++ [interpEntry fs] }
  | .full v => { w with full := v == 1 }
  | .unk _ => w

def interpWantlist (fs : List WantlistFld) : Wantlist := fs.foldl WantlistFld.apply {}

/-! #### Block -/

inductive BlockFld where
  | pfx (bs : List Nat)
  | data (bs : List Nat)
  | unk (u : Unk)
deriving Repr

def blockKnown : List (Nat × Nat) := [(1, 2), (2, 2)]

def BlockFld.ser : BlockFld → List Nat
  | .pfx bs => uvar (1 * 8 + 2) ++ uvar bs.length ++ bs
  | .data bs => uvar (2 * 8 + 2) ++ uvar bs.length ++ bs
  | .unk u => u.ser

def BlockFld.Valid : BlockFld → Prop
  | .pfx bs => bs.length < 2 ^ 32 ∧ bytesOk bs
  | .data bs => bs.length < 2 ^ 32 ∧ bytesOk bs
  | .unk u => u.Valid blockKnown

def serBlock (fs : List BlockFld) : List Nat := (fs.map BlockFld.ser).flatten

def BlockFld.apply (b : Block) : BlockFld → Block
  | .pfx bs => { b with pfx := bs }
  | .data bs => { b with data := bs }
  | .unk _ => b

def interpBlock (fs : List BlockFld) : Block := fs.foldl BlockFld.apply {}

/-! #### BlockPresence -/

inductive PresenceFld where
  | cid (bs : List Nat)
  | type (v : Nat)
  | unk (u : Unk)
deriving Repr

def presenceKnown : List (Nat × Nat) := [(1, 2), (2, 0)]

def PresenceFld.ser : PresenceFld → List Nat
  | .cid bs => uvar (1 * 8 + 2) ++ uvar bs.length ++ bs
  | .type v => uvar (2 * 8 + 0) ++ uvar v
  | .unk u => u.ser

def PresenceFld.Valid : PresenceFld → Prop
  | .cid bs => bs.length < 2 ^ 32 ∧ bytesOk bs
  | .type v => I32Wire v
  | .unk u => u.Valid presenceKnown

def serPresence (fs : List PresenceFld) : List Nat := (fs.map PresenceFld.ser).flatten

def PresenceFld.apply (p : Presence) : PresenceFld → Presence
  | .cid bs => { p with cid := bs }
  | .type v => { p with type := enumOfWire v }
  | .unk _ => p

def interpPresence (fs : List PresenceFld) : Presence := fs.foldl PresenceFld.apply {}

/-! #### Message -/

inductive MsgFld where
  | wantlist (fs : List WantlistFld)
  | payload (fs : List BlockFld)
  | presence (fs : List PresenceFld)
  | pendingBytes (v : Nat)
  | unk (u : Unk)
deriving Repr

def messageKnown : List (Nat × Nat) := [(1, 2), (3, 2), (4, 2), (5, 0)]

def MsgFld.ser : MsgFld → List Nat
  | .wantlist fs => uvar (1 * 8 + 2) ++ uvar (serWantlist fs).length ++ serWantlist fs
  | .payload fs => uvar (3 * 8 + 2) ++ uvar (serBlock fs).length ++ serBlock fs
  | .presence fs => uvar (4 * 8 + 2) ++ uvar (serPresence fs).length ++ serPresence fs
  | .pendingBytes v => uvar (5 * 8 + 0) ++ uvar v
  | .unk u => u.ser

def MsgFld.Valid : MsgFld → Prop
  | .wantlist fs => (∀ f ∈ fs, f.Valid) ∧ (serWantlist fs).length < 2 ^ 32
  | .payload fs => (∀ f ∈ fs, f.Valid) ∧ (serBlock fs).length < 2 ^ 32
  | .presence fs => (∀ f ∈ fs, f.Valid) ∧ (serPresence fs).length < 2 ^ 32
  | .pendingBytes v => I32Wire v
  | .unk u => u.Valid messageKnown

def serMessage (fs : List MsgFld) : List Nat := (fs.map MsgFld.ser).flatten

/-- quick-protobuf *replaces* a singular message field when it occurs again (proto3 would
merge); encoders write it at most once, which is what `MsgValid` requires. -/
def MsgFld.apply (m : Message) : MsgFld → Message
  | .wantlist fs => { m with wantlist := some (interpWantlist fs) }
  | .payload fs => { m with payload := m.payload ++ [interpBlock fs] }
  | .presence fs => { m with presences := m.presences ++ [interpPresence fs] }
  | .pendingBytes v => { m with pendingBytes := i32OfWire v }
  | .unk _ => m

def interpMessage (fs : List MsgFld) : Message := fs.foldl MsgFld.apply {}

def isWantlistFld : MsgFld → Bool
  | .wantlist _ => true
  | _ => false

/-- A schema-valid encoding choice of a whole message. -/
def MsgValid (fs : List MsgFld) : Prop :=
  (∀ f ∈ fs, f.Valid) ∧ (fs.filter isWantlistFld).length ≤ 1

/-! #### The canonical choice: what an encoder with default elision writes -/

def i32Wire (i : Int) : Nat := if 0 ≤ i then i.toNat else (i + 2 ^ 64).toNat

def boolWire (b : Bool) : Nat := if b then 1 else 0

def entryFields (e : Entry) : List EntryFld :=
  (if e.block.isEmpty then [] else [.block e.block])
  ++ (if e.priority == 0 then [] else [.priority (i32Wire e.priority)])
  ++ (if e.cancel then [.cancel 1] else [])
  ++ (if e.wantType == 0 then [] else [.wantType e.wantType])
  ++ (if e.sendDontHave then [.sendDontHave 1] else [])

def wantlistFields (w : Wantlist) : List WantlistFld :=
  w.entries.map (fun e => .entry (entryFields e)) ++ (if w.full then [.full 1] else [])

def blockFields (b : Block) : List BlockFld :=
  (if b.pfx.isEmpty then [] else [.pfx b.pfx]) ++ (if b.data.isEmpty then [] else [.data b.data])

def presenceFields (p : Presence) : List PresenceFld :=
  (if p.cid.isEmpty then [] else [.cid p.cid]) ++ (if p.type == 0 then [] else [.type p.type])

def messageFields (m : Message) : List MsgFld :=
  (match m.wantlist with
   | some w => [.wantlist (wantlistFields w)]
   | none => [])
  ++ m.payload.map (fun b => .payload (blockFields b))
  ++ m.presences.map (fun p => .presence (presenceFields p))
  ++ (if m.pendingBytes == 0 then [] else [.pendingBytes (i32Wire m.pendingBytes)])

/-! #### Well-formed message values (what the Rust types can hold) -/

def I32 (i : Int) : Prop := -(2 ^ 31) ≤ i ∧ i < 2 ^ 31

def EntryWF (e : Entry) : Prop :=
  bytesOk e.block ∧ e.block.length < 2 ^ 32 ∧ I32 e.priority ∧ e.wantType ≤ 1

def WantlistWF (w : Wantlist) : Prop := ∀ e ∈ w.entries, EntryWF e

def BlockWF (b : Block) : Prop :=
  bytesOk b.pfx ∧ bytesOk b.data ∧ b.pfx.length < 2 ^ 32 ∧ b.data.length < 2 ^ 32

def PresenceWF (p : Presence) : Prop := bytesOk p.cid ∧ p.cid.length < 2 ^ 32 ∧ p.type ≤ 1

def MessageWF (m : Message) : Prop :=
  (∀ w, m.wantlist = some w → WantlistWF w) ∧ (∀ b ∈ m.payload, BlockWF b)
  ∧ (∀ p ∈ m.presences, PresenceWF p) ∧ I32 m.pendingBytes

end Beetswap.Spec.Wire
