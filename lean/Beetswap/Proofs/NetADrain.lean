import Beetswap.Proofs.NetAInv
/-!
The client half of `a` across a `drain`: what it hands to the connection and what happens to the
groups of `AInv`.
-/
namespace Beetswap.Proofs.Net.A
open Std Beetswap.Net Beetswap.Wl
open Beetswap.Client (PeerSt Sending StoreRes Out TaskSt TaskKind Sys sendFullInterval Task)
open Beetswap.Spec.ClientSpec (GSys Ghost gstep grun GInv)

/-! ### Output lists -/

def outSends (outs : List Out) : List WlMsg :=
  outs.filterMap fun o => match o with | .send _ _ m => some m | _ => none
def outResps (outs : List Out) : List (Nat × Nat) :=
  outs.filterMap fun o => match o with | .resp q d => some (q, d) | _ => none
def outErrs (outs : List Out) : List Nat :=
  outs.filterMap fun o => match o with | .err q _ => some q | _ => none
def outGets (outs : List Out) : List (Nat × Nat) :=
  outs.filterMap fun o => match o with | .callGet n k => some (n, k) | _ => none
def outPuts (outs : List Out) : List Nat :=
  outs.filterMap fun o => match o with | .callPut n _ => some n | _ => none

theorem absorbA_eq (outs : List Out) (s : State) :
    (absorbA s outs).wireAB = s.wireAB ++ outSends outs ∧
    (absorbA s outs).answered = s.answered ++ outResps outs ∧
    (absorbA s outs).errors = s.errors ++ outErrs outs ∧
    (absorbA s outs).callsA = s.callsA ++ outGets outs ∧
    (absorbA s outs).putsA = s.putsA ++ outPuts outs := by
  unfold absorbA
  induction outs generalizing s with
  | nil => simp [outSends, outResps, outErrs, outGets, outPuts]
  | cons o outs ih =>
    simp only [List.foldl_cons]
    obtain ⟨h1, h2, h3, h4, h5⟩ := ih (s := _)
    rw [h1, h2, h3, h4, h5]
    cases o <;> simp [outSends, outResps, outErrs, outGets, outPuts]

theorem outSends_append (a b : List Out) : outSends (a ++ b) = outSends a ++ outSends b := by
  simp [outSends]

theorem outSends_nil_of_nosend (a : List Out) (h : ∀ p c m, Out.send p c m ∉ a) : outSends a = [] := by
  unfold outSends
  rw [List.filterMap_eq_nil_iff]
  intro o ho
  cases o with
  | send q c m => exact absurd ho (h q c m)
  | _ => rfl

theorem any_isSend_false (a : List Out) (h : ∀ p c m, Out.send p c m ∉ a) : a.any isSend = false := by
  rw [List.any_eq_false]
  intro o ho
  cases o with
  | send q c m => exact absurd ho (h q c m)
  | _ => simp [isSend]

theorem mem_outResps (outs : List Out) (q d : Nat) : (q, d) ∈ outResps outs ↔ Out.resp q d ∈ outs := by
  simp only [outResps, List.mem_filterMap]
  constructor
  · rintro ⟨o, ho, e⟩
    cases o <;> simp at e
    obtain ⟨rfl, rfl⟩ := e
    exact ho
  · intro h; exact ⟨_, h, rfl⟩

theorem callSeqs_sub (outs : List Out) (m : Nat) (h : m ∈ callSeqs outs) :
    m ∈ (outGets outs).map (·.1) ∨ m ∈ outPuts outs := by
  simp only [callSeqs, List.mem_filterMap] at h
  obtain ⟨o, ho, e⟩ := h
  cases o with
  | callGet n k =>
    left
    simp only [callSeq, Option.some.injEq] at e
    subst e
    exact List.mem_map.2 ⟨(n, k), List.mem_filterMap.2 ⟨_, ho, rfl⟩, rfl⟩
  | callPut n bs =>
    right
    simp only [callSeq, Option.some.injEq] at e
    subst e
    exact List.mem_filterMap.2 ⟨_, ho, rfl⟩
  | _ => simp [callSeq] at e

/-! ### `updatePeer` for the peer `b` of `a` -/

theorem fullNext_vals {wl : WState} {w : Wantlist} (hv : ∀ (k : Nat) (r : Req), wl.req[k]? = some r → r = Req.sentWantHave ∨ r = Req.gotBlock)
    (k : Nat) (r : Req) (h : fullNext wl w k = some r) : r = Req.sentWantHave ∨ r = Req.gotBlock := by
  rw [ClientView.fullNext_eq] at h
  split at h
  · cases hr : wl.req[k]? with
    | none => simp only [hr, Option.some.injEq] at h; exact .inl h.symm
    | some r0 =>
      rcases hv k r0 hr with e | e <;> subst e <;> simp only [hr, Option.some.injEq] at h
      · exact .inl h.symm
      · exact .inr h.symm
  · cases h

theorem updatePeer_a (w : Wantlist) (now : Nat) (ps : PeerSt) (pref : Option Nat)
    (hc : ps.conns.isEmpty = false) (hv : ReqVals ps) :
    (ps.sending = .sending 1 → Client.updatePeer w now ps pref = (some ps, none)) ∧
    (ps.sending = .ready → ∃ ps', (Client.updatePeer w now ps pref).1 = some ps' ∧ ReqVals ps' ∧
      ps'.conns = ps.conns ∧
      (((Client.updatePeer w now ps pref).2 = none ∧ ps'.sending = .ready) ∨
        ∃ m, (Client.updatePeer w now ps pref).2 = some (Client.pickConn ps.conns pref, m) ∧
          ps'.sending = .requested now (Client.pickConn ps.conns pref))) := by
  constructor
  · intro hs
    rw [ClientView.updatePeer_eq, hs]
  · intro hs
    have hfull : ReqVals { ps with wl := (ps.wl.genFull w).1 } := by
      intro k r hr
      have hr : (ps.wl.genFull w).1.req[k]? = some r := hr
      rw [ClientView.genFull_req] at hr
      exact fullNext_vals hv k r hr
    have hupd : ReqVals { ps with wl := (ps.wl.genUpdate w).1 } := by
      intro k r hr
      have hr : (ps.wl.genUpdate w).1.req[k]? = some r := hr
      by_cases hu : ps.wl.isUpdated w = true
      · rw [ClientView.genUpdate_of_updated _ _ hu] at hr
        exact hv k r hr
      · have hu : ps.wl.isUpdated w = false := by simpa using hu
        rw [ClientView.genUpdate_req _ _ hu] at hr
        exact fullNext_vals hv k r hr
    have he : Client.updatePeer w now ps pref = ClientView.goPeer w now pref ps := by
      rw [ClientView.updatePeer_eq, hs]
    rw [he]
    have hr := ClientView.goPeer_res w now pref ps
    generalize ClientView.goPeer w now pref ps = res at hr
    cases hr with
    | drop h => rw [hc] at h; cases h
    | full _ _ => exact ⟨_, rfl, hfull, rfl, .inr ⟨_, rfl, rfl⟩⟩
    | quiet _ _ _ => exact ⟨_, rfl, hupd, rfl, .inl ⟨rfl, hs⟩⟩
    | upd _ _ _ => exact ⟨_, rfl, hupd, rfl, .inr ⟨_, rfl, rfl⟩⟩

theorem list_eq_singleton : ∀ {l : List Nat} {a : Nat}, l.Nodup → (∀ x ∈ l, x = a) → a ∈ l → l = [a]
  | [], _, _, _, ha => by cases ha
  | [x], a, _, hall, _ => by rw [hall x (by simp)]
  | x :: y :: r, a, hn, hall, _ => by
    have h1 := hall x (by simp)
    have h2 := hall y (by simp)
    subst h1 h2
    simp at hn

/-! ### The client after a drain -/

/-- the client half of `a` after `drainA` (cf. `drainedA`) -/
def drainedC (c : Client.State) (now seq : Nat) (pref : Nat → Option Nat) : Client.State :=
  let d := Client.drain c now seq pref
  let c' : Client.State := { d.1 with newBlocks := [] }
  if d.2.2.any isSend then Client.sendingChanged c' 1 1 (.sending 1) else c'

theorem drainedC_frame (c : Client.State) (now seq : Nat) (pref : Nat → Option Nat) :
    ∃ P, drainedC c now seq pref = { (ClientView.afterTasks c now seq).1 with peers := P, newBlocks := [] } := by
  unfold drainedC
  rw [ClientView.drain_eq]
  dsimp only
  have hu := updateHandlers_frame (ClientView.afterTasks c now seq).1 now pref
  split
  · obtain ⟨P, h⟩ := sendingChanged_frame
      { (Client.updateHandlers (ClientView.afterTasks c now seq).1 now pref).1 with newBlocks := [] } 1 1 (.sending 1)
    refine ⟨P, ?_⟩
    rw [h, hu]
  · refine ⟨(Client.updateHandlers (ClientView.afterTasks c now seq).1 now pref).1.peers, ?_⟩
    rw [hu]

theorem drainedC_peers (c : Client.State) (now seq : Nat) (pref : Nat → Option Nat) (p : Nat)
    (htr : (Client.drain c now seq pref).2.2.any isSend = true →
      ∀ ps, (Client.drain c now seq pref).1.peers[1]? = some ps →
        ps.sending.conn? = none ∨ ps.sending.conn? = some 1) :
    (drainedC c now seq pref).peers[p]? =
      if (Client.drain c now seq pref).2.2.any isSend = true ∧ p = 1 then
        ((Client.drain c now seq pref).1.peers[1]?).map (fun ps => ({ ps with sending := .sending 1 } : PeerSt))
      else (Client.drain c now seq pref).1.peers[p]? := by
  unfold drainedC
  dsimp only
  by_cases h : (Client.drain c now seq pref).2.2.any isSend = true
  · simp only [h, if_true, true_and]
    exact sendingChanged_peers { (Client.drain c now seq pref).1 with newBlocks := [] } _ _ (htr h)
  · have h : (Client.drain c now seq pref).2.2.any isSend = false := by simpa using h
    simp only [h, Bool.false_eq_true, if_false, false_and]

/-- the handshake across a drain -/
theorem drain_apeer_tracked {c : Client.State} {w : List WlMsg} (now seq : Nat) (pref : Nat → Option Nat)
    (hp : APeer c w) (hconn : ∀ ps, c.peers[1]? = some ps → ps.conns.isEmpty = false)
    (hq : ∀ p c' m, Out.send p c' m ∉ c.queue) :
    APeer (drainedC c now seq pref) (w ++ outSends (Client.drain c now seq pref).2.2) ∧
    (∀ ps0, (Client.drain c now seq pref).1.peers[1]? = some ps0 →
        ps0.sending.conn? = none ∨ ps0.sending.conn? = some 1) := by
  obtain ⟨ps, hps, hw, hv⟩ := hp.one
  obtain ⟨_, a2, _, _, a5⟩ := ClientView.afterTasks_spec c now seq
  have hsub := (afterTasks_frame c now seq).2.2.2.2.2
  obtain ⟨_, _, _, u4, u5⟩ := ClientView.updateHandlers_spec (ClientView.afterTasks c now seq).1 now pref
  -- the peer table after the task phase
  have hAonly : ∀ p : Nat, p ≠ 1 → (ClientView.afterTasks c now seq).1.peers[p]? = none := by
    intro p hp1
    have := a2 p
    rw [hp.only p hp1] at this
    cases h : (ClientView.afterTasks c now seq).1.peers[p]? with
    | none => rfl
    | some v => rw [h] at this; cases this
  obtain ⟨psA, hpsA, hcA, hsA⟩ : ∃ psA, (ClientView.afterTasks c now seq).1.peers[1]? = some psA ∧
      psA.conns = ps.conns ∧ psA.sending = ps.sending := by
    have := a2 1
    rw [hps] at this
    cases h : (ClientView.afterTasks c now seq).1.peers[1]? with
    | none => rw [h] at this; cases this
    | some v =>
      rw [h] at this
      simp only [Option.map_some, Option.some.injEq, ClientView.pframe, Prod.mk.injEq] at this
      exact ⟨v, rfl, this.1, this.2.1⟩
  have hvA : ReqVals psA := by
    obtain ⟨ps0, e0, f0⟩ := hsub 1 psA hpsA
    rw [hps] at e0; cases e0
    intro k r hr
    exact hv k r (f0 k r hr)
  have hcA' : psA.conns.isEmpty = false := by rw [hcA]; exact hconn ps hps
  -- the keys of the peer table
  have hkeys : (ClientView.afterTasks c now seq).1.peers.keys = [1] := by
    apply list_eq_singleton ExtTreeMap.nodup_keys
    · intro x hx
      rw [ClientView.kmap_mem_keys] at hx
      obtain ⟨v, hv'⟩ := hx
      by_cases h1 : x = 1
      · exact h1
      · rw [hAonly x h1] at hv'; cases hv'
    · rw [ClientView.kmap_mem_keys]; exact ⟨psA, hpsA⟩
  have hU2 : (Client.updateHandlers (ClientView.afterTasks c now seq).1 now pref).2 =
      match (Client.updatePeer (ClientView.afterTasks c now seq).1.wantlist now psA (pref 1)).2 with
      | some (cc, m) => [Out.send 1 cc m]
      | none => [] := by
    rw [u5, hkeys]
    simp only [List.filterMap_cons, List.filterMap_nil, ClientView.sendOf, hpsA]
    rcases (Client.updatePeer (ClientView.afterTasks c now seq).1.wantlist now psA (pref 1)).2 with _ | ⟨cc, m⟩ <;> rfl
  have hU1 : ∀ p : Nat, (Client.updateHandlers (ClientView.afterTasks c now seq).1 now pref).1.peers[p]? =
      if p = 1 then (Client.updatePeer (ClientView.afterTasks c now seq).1.wantlist now psA (pref 1)).1 else none := by
    intro p
    rw [u4 p, ClientView.nextPeer]
    by_cases h1 : p = 1
    · subst h1; simp [hpsA]
    · simp [h1, hAonly p h1]
  have houts : (Client.drain c now seq pref).2.2 =
      c.queue ++ (ClientView.afterTasks c now seq).2.2 ++
        (Client.updateHandlers (ClientView.afterTasks c now seq).1 now pref).2 := by
    rw [ClientView.drain_eq]
  have hD1 : (Client.drain c now seq pref).1 =
      (Client.updateHandlers (ClientView.afterTasks c now seq).1 now pref).1 := by
    rw [ClientView.drain_eq]
  have hsends : outSends (Client.drain c now seq pref).2.2 =
      outSends (Client.updateHandlers (ClientView.afterTasks c now seq).1 now pref).2 := by
    rw [houts, outSends_append, outSends_append, outSends_nil_of_nosend _ hq, outSends_nil_of_nosend _ a5]
    rfl
  have hany : (Client.drain c now seq pref).2.2.any isSend =
      (Client.updateHandlers (ClientView.afterTasks c now seq).1 now pref).2.any isSend := by
    rw [houts, List.any_append, List.any_append, any_isSend_false _ hq, any_isSend_false _ a5]
    rfl
  obtain ⟨up1, up2⟩ := updatePeer_a (ClientView.afterTasks c now seq).1.wantlist now psA (pref 1) hcA' hvA
  -- the one connection is connection 1, so that is where every wantlist goes
  have hpick : Client.pickConn psA.conns (pref 1) = 1 := by
    have := ClientView.pickConn_mem psA.conns (pref 1) hcA'
    rw [hcA] at this
    rw [hcA]
    exact (hp.conn1 ps hps _).1 this
  have hconns : ∀ ps1, (Client.updatePeer (ClientView.afterTasks c now seq).1.wantlist now psA (pref 1)).1 = some ps1 →
      ps1.conns = ps.conns ∧ (ps1.sending.conn? = none ∨ ps1.sending.conn? = some 1) := by
    intro ps1 h1
    rcases hw with ⟨hs, _⟩ | ⟨hs, _, _⟩
    · obtain ⟨ps', e1, _, hc', hcase⟩ := up2 (hsA.trans hs)
      rw [e1] at h1; cases h1
      refine ⟨by rw [hc', hcA], ?_⟩
      rcases hcase with ⟨_, hs'⟩ | ⟨m, _, hs'⟩
      · left; rw [hs']; rfl
      · right; rw [hs', hpick]; rfl
    · rw [up1 (hsA.trans hs)] at h1; cases h1
      exact ⟨hcA, .inr (by rw [hsA.trans hs]; rfl)⟩
  have htr0 : ∀ ps0, (Client.drain c now seq pref).1.peers[1]? = some ps0 →
        ps0.sending.conn? = none ∨ ps0.sending.conn? = some 1 := by
    intro ps0 h0
    rw [hD1, hU1 1] at h0
    simp only [if_true] at h0
    exact (hconns ps0 h0).2
  have htr : (Client.drain c now seq pref).2.2.any isSend = true →
      ∀ ps0, (Client.drain c now seq pref).1.peers[1]? = some ps0 →
        ps0.sending.conn? = none ∨ ps0.sending.conn? = some 1 := fun _ => htr0
  refine ⟨?_, htr0⟩
  constructor
  · intro p hp1
    rw [drainedC_peers _ _ _ _ _ htr]
    simp only [hp1, and_false, if_false]
    rw [hD1, hU1 p]
    simp [hp1]
  · rw [drainedC_peers _ _ _ _ _ htr, hany, hsends, hD1, hU1 1, hU2]
    simp only [and_true, if_true]
    rcases hw with ⟨hs, hw⟩ | ⟨hs, m, hw⟩
    · -- ready
      obtain ⟨ps', e1, hv', _, hcase⟩ := up2 (hsA.trans hs)
      rcases hcase with ⟨e2, hs'⟩ | ⟨m, e2, _⟩
      · rw [e2, e1]
        simp only [List.any_nil, Bool.false_eq_true, if_false]
        exact ⟨ps', rfl, .inl ⟨hs', by rw [hw]; rfl⟩, hv'⟩
      · rw [e2, e1]
        simp only [List.any_cons, isSend, List.any_nil, Bool.or_false, if_true, Option.map_some]
        exact ⟨_, rfl, .inr ⟨rfl, m, by rw [hw]; rfl⟩, hv'⟩
    · -- a wantlist is in flight
      have e := up1 (hsA.trans hs)
      rw [e]
      simp only [List.any_nil, Bool.false_eq_true, if_false]
      exact ⟨psA, rfl, .inr ⟨hsA.trans hs, m, by rw [hw]; rfl⟩, hvA⟩
  · intro ps0 h0 x
    rw [drainedC_peers _ _ _ _ _ htr, hD1, hU1 1] at h0
    simp only [and_true, if_true] at h0
    by_cases ha : (Client.drain c now seq pref).2.2.any isSend = true
    · rw [if_pos ha] at h0
      obtain ⟨ps1, h1, e⟩ := Option.map_eq_some_iff.1 h0
      subst e
      show x ∈ ps1.conns ↔ x = 1
      rw [(hconns ps1 h1).1]; exact hp.conn1 ps hps x
    · rw [if_neg ha] at h0
      rw [(hconns ps0 h0).1]; exact hp.conn1 ps hps x

/-- the handshake across a drain -/
theorem drain_apeer {c : Client.State} {w : List WlMsg} (now seq : Nat) (pref : Nat → Option Nat)
    (hp : APeer c w) (hconn : ∀ ps, c.peers[1]? = some ps → ps.conns.isEmpty = false)
    (hq : ∀ p c' m, Out.send p c' m ∉ c.queue) :
    APeer (drainedC c now seq pref) (w ++ outSends (Client.drain c now seq pref).2.2) :=
  (drain_apeer_tracked now seq pref hp hconn hq).1

/-- after a drain the transmission to `b` is tracked on connection 1 (or on none) -/
theorem drain_tracked {c : Client.State} {w : List WlMsg} (now seq : Nat) (pref : Nat → Option Nat)
    (hp : APeer c w) (hconn : ∀ ps, c.peers[1]? = some ps → ps.conns.isEmpty = false)
    (hq : ∀ p c' m, Out.send p c' m ∉ c.queue) :
    ∀ ps0, (Client.drain c now seq pref).1.peers[1]? = some ps0 →
        ps0.sending.conn? = none ∨ ps0.sending.conn? = some 1 :=
  (drain_apeer_tracked now seq pref hp hconn hq).2

theorem sendOf_not_resp (s : Client.State) (now : Nat) (pref : Nat → Option Nat) (p q d : Nat) :
    ClientView.sendOf s now pref p ≠ some (Out.resp q d) := by
  unfold ClientView.sendOf
  split
  · simp
  · split <;> simp

theorem callSeqs_mem_append_right (a b : List Out) (m : Nat) (h : m ∈ callSeqs b) : m ∈ callSeqs (a ++ b) := by
  rw [callSeqs_append]; exact List.mem_append_right _ h

theorem callSeqs_mem_append_left (a b : List Out) (m : Nat) (h : m ∈ callSeqs a) : m ∈ callSeqs (a ++ b) := by
  rw [callSeqs_append]; exact List.mem_append_left _ h

/-- all groups of `AInv` that live in the client half, across a drain -/
theorem drain_groups {c : Client.State} {w : List WlMsg} {seq : Nat} {P : Nat → Prop} {asked : List Nat}
    (now : Nat) (pref : Nat → Option Nat)
    (hp : APeer c w) (hconn : ∀ ps, c.peers[1]? = some ps → ps.conns.isEmpty = false)
    (hq : ∀ p c' m, Out.send p c' m ∉ c.queue)
    (ht : TInv c.tasks c.nextTask c.runq seq P) (hk : AAsk c asked)
    (hd : c.deadline ≤ now + sendFullInterval) :
    APeer (drainedC c now seq pref) (w ++ outSends (Client.drain c now seq pref).2.2) ∧
    TInv (drainedC c now seq pref).tasks (drainedC c now seq pref).nextTask (drainedC c now seq pref).runq
      (Client.drain c now seq pref).2.1
      (fun m => P m ∨ m ∈ (outGets (Client.drain c now seq pref).2.2).map (·.1) ∨
        m ∈ outPuts (Client.drain c now seq pref).2.2) ∧
    AAsk (drainedC c now seq pref) asked ∧ (drainedC c now seq pref).queue = [] ∧
    (drainedC c now seq pref).deadline ≤ now + sendFullInterval ∧
    (∀ q d, Out.resp q d ∈ (Client.drain c now seq pref).2.2 → Out.resp q d ∈ c.queue) := by
  obtain ⟨PF, hF⟩ := drainedC_frame c now seq pref
  obtain ⟨t1, t2, t3⟩ := afterTasks_tinv (now := now) ht
  obtain ⟨f1, f2, f3, f4, f5, f6⟩ := afterTasks_frame c now seq
  obtain ⟨_, _, a3, a4, _⟩ := ClientView.afterTasks_spec c now seq
  obtain ⟨_, _, _, _, u5⟩ := ClientView.updateHandlers_spec (ClientView.afterTasks c now seq).1 now pref
  have houts : (Client.drain c now seq pref).2.2 =
      c.queue ++ (ClientView.afterTasks c now seq).2.2 ++
        (Client.updateHandlers (ClientView.afterTasks c now seq).1 now pref).2 := by
    rw [ClientView.drain_eq]
  have hseq : (Client.drain c now seq pref).2.1 = (ClientView.afterTasks c now seq).2.1 := by
    rw [ClientView.drain_eq]
  refine ⟨drain_apeer now seq pref hp hconn hq, ?_, ?_, ?_, ?_, ?_⟩
  · rw [hF, hseq]
    show TInv (ClientView.afterTasks c now seq).1.tasks (ClientView.afterTasks c now seq).1.nextTask
      (ClientView.afterTasks c now seq).1.runq _ _
    rw [f1]
    apply t1.mono
    intro m hm
    rcases hm with hm | hm
    · exact .inl hm
    · right
      apply callSeqs_sub
      rw [houts]
      exact callSeqs_mem_append_left _ _ _ (callSeqs_mem_append_right _ _ _ hm)
  · rw [hF]
    refine ⟨hk.len.trans f3.symm, ?_, ?_⟩
    · intro t htm q k hkind
      obtain ⟨u, hu, _, e2, _⟩ := f4 t htm
      exact hk.get_asked u hu q k (e2 ▸ hkind)
    · intro k hkm
      rcases f5 k hkm with h | ⟨t, htm, q, _, hkind⟩
      · exact hk.want_asked k h
      · exact hk.get_asked t htm q k hkind
  · rw [hF]; exact a3
  · rw [hF]
    show (ClientView.afterTasks c now seq).1.deadline ≤ _
    rw [a4]
    split
    · exact Nat.le_refl _
    · exact hd
  · intro q d hm
    rw [houts] at hm
    rcases List.mem_append.1 hm with hm | hm
    · rcases List.mem_append.1 hm with hm | hm
      · exact hm
      · exact absurd hm (t3 q d)
    · rw [u5] at hm
      obtain ⟨p, _, e⟩ := List.mem_filterMap.1 hm
      exact absurd e (sendOf_not_resp _ _ _ _ _ _)

end Beetswap.Proofs.Net.A
