import Beetswap.Proofs.ClientLinkClient
import Beetswap.Proofs.ClientLinkHandler
/-!
The invariant of the composition `Model/ClientLink` (behaviour + one handler automaton per
connection + the event channels between them) and what each action does to it.
-/
namespace Beetswap.Proofs.ClientLink
open Std Beetswap.ClientLink
open Beetswap.Client (PeerSt Sending Out)
open Beetswap.ClientHandler (H HS Report In)
open Beetswap.Spec.HandlerSpec (Obeys SpecState)
open Beetswap.Proofs.Handler (R Obeys1)
open Beetswap.Proofs.ClientView (kmap_get_insert kset_mem_erase kset_mem_insert)

/-- sending states on their way from the handler of a link to the behaviour, oldest first -/
def flight (l : Link) : List HS := states (l.reps ++ l.h.queue)

/-- the link is at rest: nothing handed over, nothing reported, the handler is `Ready` -/
def Idle (l : Link) : Prop := l.cmds = [] ∧ flight l = [] ∧ l.h.ss = .ready

structure LinkInv (cl : Client.State) (c : Nat) (l : Link) : Prop where
  /-- the recorded history is the handler's history -/
  coh : l.h = (ClientHandler.run {} l.ins).1
  /-- … and it obeys the handler's environment obligations -/
  obeys : Obeys {} l.ins
  shape : ∃ sp, R l.h sp
  one : l.cmds.length ≤ 1
  cmd_idle : l.cmds ≠ [] → flight l = [] ∧ l.h.ss = .ready
  last : flight l ≠ [] → (flight l).getLast? = some l.h.ss
  ready_last : ∀ x ∈ (flight l).dropLast, x ≠ .ready
  /-- a usable connection the current transmission is not tracked on is at rest -/
  silent : ∀ ps : PeerSt, cl.peers[l.peer]? = some ps → c ∈ ps.conns → ps.sending.conn? ≠ some c → Idle l

structure LInv (s : State) : Prop where
  nosend : NoSend s.cl.s.queue
  /-- the usable connections of a peer are live links to that peer -/
  own : ∀ (p : Nat) (ps : PeerSt), s.cl.s.peers[p]? = some ps → ∀ c : Nat, c ∈ ps.conns →
    ∃ l : Link, s.links[c]? = some l ∧ l.peer = p ∧ l.gone = false
  link : ∀ c l, s.links[c]? = some l → LinkInv s.cl.s c l

/-! ### transfer -/

/-- the behaviour changed, the link did not: enough that "usable and not tracked" is inherited -/
theorem LinkInv.transfer {cl cl' : Client.State} {c : Nat} {l : Link} (h : LinkInv cl c l)
    (ht : ∀ ps', cl'.peers[l.peer]? = some ps' → c ∈ ps'.conns → ps'.sending.conn? ≠ some c →
      ∃ ps, cl.peers[l.peer]? = some ps ∧ c ∈ ps.conns ∧ ps.sending.conn? ≠ some c) :
    LinkInv cl' c l := by
  refine ⟨h.coh, h.obeys, h.shape, h.one, h.cmd_idle, h.last, h.ready_last, ?_⟩
  intro ps' h1 h2 h3
  obtain ⟨ps, a, b, d⟩ := ht ps' h1 h2 h3
  exact h.silent ps a b d

theorem LinkInv.of_cs {cl cl' : Client.State} {c : Nat} {l : Link} (h : LinkInv cl c l)
    (he : (cl'.peers[l.peer]?).map cs = (cl.peers[l.peer]?).map cs) : LinkInv cl' c l := by
  apply h.transfer
  intro ps' h1 h2 h3
  rw [h1] at he
  cases hp : cl.peers[l.peer]? with
  | none => rw [hp] at he; cases he
  | some ps =>
    rw [hp] at he
    simp only [Option.map_some, Option.some.injEq, cs, Prod.mk.injEq] at he
    exact ⟨ps, rfl, he.1 ▸ h2, he.2 ▸ h3⟩

/-! ### the fresh link -/

theorem linkInv_fresh (cl : Client.State) (c p : Nat) : LinkInv cl c { peer := p } := by
  refine ⟨rfl, trivial, ⟨{}, R.idleReady none⟩, by simp, by simp, by simp [flight, states], by simp [flight, states], ?_⟩
  intro _ _ _ _
  exact ⟨rfl, by simp [flight, states], rfl⟩

/-! ### plain client operations -/

theorem linv_client (s : State) (h : LInv s) (op : Client.Op) : LInv (step s (.client op)) := by
  simp only [step]
  split
  · next hp =>
    refine ⟨plain_nosend s.cl op hp h.nosend, ?_, ?_⟩
    · intro p ps hps c hc
      have he := plain_cs s.cl op hp p
      rw [hps] at he
      cases hq : s.cl.s.peers[p]? with
      | none => rw [hq] at he; cases he
      | some ps0 =>
        rw [hq] at he
        simp only [Option.map_some, Option.some.injEq, cs, Prod.mk.injEq] at he
        exact h.own p ps0 hq c (he.1 ▸ hc)
    · intro c l hl
      exact (h.link c l hl).of_cs (plain_cs s.cl op hp l.peer)
  · exact h

/-! ### a new connection -/

theorem connect_peers (s : Client.State) (p c q : Nat) :
    (Client.connect s p c).peers[q]? =
      if q = p then some { (s.peers[p]?).getD {} with conns := ((s.peers[p]?).getD {}).conns.insert c }
      else s.peers[q]? := by
  simp only [Client.connect, kmap_get_insert]

theorem linv_connect (s : State) (h : LInv s) (p c : Nat) : LInv (step s (.connect p c)) := by
  simp only [step]
  split
  · exact h
  · next hc =>
    have hcn : s.links[c]? = none := by
      cases hl : s.links[c]? with
      | none => rfl
      | some l => exact absurd ((ClientView.kmap_mem_iff _ _).2 ⟨l, hl⟩) hc
    refine ⟨h.nosend, ?_, ?_⟩
    · intro q ps hps c' hc'
      show ∃ l, (s.links.insert c { peer := p })[c']? = some l ∧ _
      rw [kmap_get_insert]
      have hps' : (Client.connect s.cl.s p c).peers[q]? = some ps := hps
      rw [connect_peers] at hps'
      by_cases hq : q = p
      · subst hq
        simp only [if_true, Option.some.injEq] at hps'
        subst hps'
        rcases (kset_mem_insert _ _ _).1 hc' with e | hm
        · subst e; exact ⟨{ peer := q }, by simp, rfl, rfl⟩
        · cases hp0 : s.cl.s.peers[q]? with
          | none => rw [hp0] at hm; simp at hm
          | some ps0 =>
            rw [hp0] at hm
            obtain ⟨l, a, b, d⟩ := h.own q ps0 hp0 c' hm
            have : c' ≠ c := fun e => by rw [e, hcn] at a; cases a
            exact ⟨l, by simp [this, a], b, d⟩
      · simp only [hq, if_false] at hps'
        obtain ⟨l, a, b, d⟩ := h.own q ps hps' c' hc'
        have : c' ≠ c := fun e => by rw [e, hcn] at a; cases a
        exact ⟨l, by simp [this, a], b, d⟩
    · intro c' l hl
      have hl' : (s.links.insert c { peer := p })[c']? = some l := hl
      rw [kmap_get_insert] at hl'
      by_cases hcc : c' = c
      · subst hcc
        simp only [if_true, Option.some.injEq] at hl'
        subst hl'
        exact linkInv_fresh _ _ _
      · simp only [hcc, if_false] at hl'
        apply (h.link c' l hl').transfer
        intro ps' h1 h2 h3
        have h1' : (Client.connect s.cl.s p c).peers[l.peer]? = some ps' := h1
        rw [connect_peers] at h1'
        by_cases hq : l.peer = p
        · simp only [hq, if_true, Option.some.injEq] at h1'
          subst h1'
          cases hp0 : s.cl.s.peers[p]? with
          | none =>
            rw [hp0] at h2
            simp only [Option.getD_none] at h2
            rcases (kset_mem_insert _ _ _).1 h2 with e | hm
            · exact absurd e hcc
            · simp at hm
          | some ps0 =>
            rw [hp0] at h2 h3
            simp only [Option.getD_some] at h2 h3
            rcases (kset_mem_insert _ _ _).1 h2 with e | hm
            · exact absurd e hcc
            · exact ⟨ps0, by rw [hq]; exact hp0, hm, h3⟩
        · simp only [hq, if_false] at h1'
          exact ⟨ps', h1', h2, h3⟩

/-! ### lists -/

theorem mem_dropLast_or_last {α} : ∀ (l : List α) (x : α), x ∈ l → x ∈ l.dropLast ∨ l.getLast? = some x
  | [], x, h => by cases h
  | [a], x, h => by simp at h; subst h; right; rfl
  | a :: b :: r, x, h => by
    rcases List.mem_cons.1 h with e | h'
    · subst e; left; simp [List.dropLast]
    · rcases mem_dropLast_or_last (b :: r) x h' with h1 | h1
      · left; simp only [List.dropLast_cons_cons]; exact List.mem_cons_of_mem _ h1
      · right; simpa [List.getLast?_cons_cons] using h1

/-- the reports in flight after a call that added `A` -/
theorem flight_extend (F A : List HS) (ss ss' : HS)
    (hlast : F ≠ [] → F.getLast? = some ss) (hrl : ∀ x ∈ F.dropLast, x ≠ HS.ready)
    (alast : ss' = (A.getLast?).getD ss) (aquiet : ss = .ready → A = [])
    (arl : ∀ x ∈ A.dropLast, x ≠ HS.ready) :
    (F ++ A ≠ [] → (F ++ A).getLast? = some ss') ∧ (∀ x ∈ (F ++ A).dropLast, x ≠ HS.ready) := by
  by_cases hA : A = []
  · subst hA
    simp only [List.append_nil, List.getLast?_nil, Option.getD_none] at alast ⊢
    subst alast
    exact ⟨hlast, hrl⟩
  · constructor
    · intro _
      rw [List.getLast?_append]
      cases hl : A.getLast? with
      | none => exact absurd (List.getLast?_eq_none_iff.1 hl) hA
      | some y => rw [hl] at alast; simp [alast]
    · rw [List.dropLast_append_of_ne_nil hA]
      intro x hx
      rcases List.mem_append.1 hx with hx | hx
      · intro e
        subst e
        rcases mem_dropLast_or_last F _ hx with h1 | h1
        · exact hrl _ h1 rfl
        · have hne : F ≠ [] := by intro e; subst e; cases hx
          rw [hlast hne] at h1
          exact hA (aquiet (Option.some.inj h1))
      · exact arl x hx

theorem run_snoc (h : H) (ins : List In) (i : In) :
    (ClientHandler.run h (ins ++ [i])).1 = (ClientHandler.step (ClientHandler.run h ins).1 i).1 := by
  induction ins generalizing h with
  | nil => simp [ClientHandler.run]
  | cons a as ih => simp only [List.cons_append, ClientHandler.run]; exact ih _

theorem obeys_snoc (h : H) (ins : List In) (i : In) (ho : Obeys h ins)
    (h1 : Obeys1 (ClientHandler.run h ins).1 i) : Obeys h (ins ++ [i]) := by
  induction ins generalizing h with
  | nil =>
    simp only [List.nil_append]
    cases i <;> exact ⟨h1, trivial⟩
  | cons a as ih =>
    obtain ⟨o1, o2⟩ := Proofs.Handler.obeys_cons h a as ho
    have := ih (ClientHandler.step h a).1 o2 h1
    simp only [List.cons_append]
    cases a <;> exact ⟨o1, this⟩

/-! ### one link changes, the behaviour does not -/

theorem linv_set_link (s : State) (h : LInv s) (c : Nat) (l l' : Link) (hl : s.links[c]? = some l)
    (hp : l'.peer = l.peer) (hg : l.gone = false → l'.gone = false)
    (hi : LinkInv s.cl.s c l') : LInv { s with links := s.links.insert c l' } := by
  refine ⟨h.nosend, ?_, ?_⟩
  · intro p ps hps c' hc'
    obtain ⟨l0, a, b, d⟩ := h.own p ps hps c' hc'
    show ∃ l1, (s.links.insert c l')[c']? = some l1 ∧ _
    rw [kmap_get_insert]
    by_cases hcc : c' = c
    · subst hcc
      rw [hl] at a; cases a
      exact ⟨l', by simp, hp.trans b, hg d⟩
    · exact ⟨l0, by simp [hcc, a], b, d⟩
  · intro c' l1 hl1
    have hl1' : (s.links.insert c l')[c']? = some l1 := hl1
    rw [kmap_get_insert] at hl1'
    by_cases hcc : c' = c
    · subst hcc
      simp only [if_true, Option.some.injEq] at hl1'
      subst hl1'
      exact hi
    · simp only [hcc, if_false] at hl1'
      exact h.link c' l1 hl1'

/-- a handler at rest has exactly one shape -/
theorem idle_shape (h : H) (sp : SpecState) (hr : R h sp) (hs : h.ss = .ready) (hc : h.closing = false) :
    h = { msg := none, sink := .none, ss := .ready, timer := false, halted := false, closing := false, queue := [] } := by
  cases hr with
  | idleReady st => rfl
  | idleFailed hl st => cases hs
  | accepted w sk q st hq hs' => cases hs
  | sending w sid => cases hs
  | closing _ _ hc' _ _ => rw [hc] at hc'; cases hc'

/-! ### the task of a connection takes the next `SendWantlist` -/

theorem linv_deliverCmd (s : State) (h : LInv s) (c : Nat) : LInv (step s (.deliverCmd c)) := by
  simp only [step]
  cases hl : s.links[c]? with
  | none => exact h
  | some l =>
    have hi := h.link c l hl
    cases hcm : l.cmds with
    | nil => simp only [hcm]; exact h
    | cons w rest =>
      have hrest : rest = [] := by
        have := hi.one; rw [hcm] at this
        cases rest with
        | nil => rfl
        | cons _ _ => simp at this
      subst hrest
      obtain ⟨hf, hss⟩ := hi.cmd_idle (by rw [hcm]; simp)
      have hnosilent : ∀ ps : PeerSt, s.cl.s.peers[l.peer]? = some ps → c ∈ ps.conns →
          ps.sending.conn? ≠ some c → False := by
        intro ps a b d
        have := (hi.silent ps a b d).1
        rw [hcm] at this; cases this
      simp only [hcm]
      split
      · -- the connection is closing (or gone): the event is dropped
        refine linv_set_link s h c l _ hl rfl (fun g => g) ?_
        refine ⟨hi.coh, hi.obeys, hi.shape, by simp, by simp, hi.last, hi.ready_last, ?_⟩
        intro ps a b d
        exact (hnosilent ps a b d).elim
      · next hgc =>
        have hcl : l.h.closing = false := by
          cases hx : l.h.closing with
          | false => rfl
          | true => simp [hx] at hgc
        obtain ⟨sp, hr⟩ := hi.shape
        have hidle := idle_shape l.h sp hr hss hcl
        have ho1 : Obeys1 l.h (.sendWantlist w) := by
          rw [hidle]; exact ⟨rfl, rfl, rfl, by simp⟩
        obtain ⟨sp', _, hr'⟩ := Proofs.Handler.sim_step l.h sp (.sendWantlist w) hr ho1
        have hstates : states l.reps = [] := by
          have := hf
          unfold flight at this
          rw [states_append] at this
          exact (List.append_eq_nil_iff.1 this).1
        refine linv_set_link s h c l _ hl rfl (fun g => g) ?_
        refine ⟨?_, ?_, ⟨sp', hr'⟩, by simp, by simp, ?_, ?_, ?_⟩
        · show ClientHandler.sendWantlist l.h w = _
          rw [run_snoc, ← hi.coh]; rfl
        · exact obeys_snoc {} l.ins _ hi.obeys (by rw [← hi.coh]; exact ho1)
        · intro _
          show (states (l.reps ++ (ClientHandler.sendWantlist l.h w).queue)).getLast? = some (ClientHandler.sendWantlist l.h w).ss
          rw [states_append, hstates, hidle]
          simp [ClientHandler.sendWantlist, ClientHandler.changeState, states]
        · show ∀ x ∈ (states (l.reps ++ (ClientHandler.sendWantlist l.h w).queue)).dropLast, x ≠ HS.ready
          rw [states_append, hstates, hidle]
          simp [ClientHandler.sendWantlist, ClientHandler.changeState, states]
        · intro ps a b d
          exact (hnosilent ps a b d).elim

/-! ### the swarm calls a handler -/

theorem allowed_obeys1 (h : H) (i : In) (ha : allowed h i = true) : Obeys1 h i := by
  cases i with
  | sendWantlist w => simp [allowed] at ha
  | setStream sid =>
    simp only [allowed, Bool.and_eq_true, Bool.or_eq_true, decide_eq_true_eq, Bool.not_eq_true'] at ha
    exact ⟨ha.1, by simp [ha.2]⟩
  | allocFailed =>
    simp only [allowed, Bool.and_eq_true, Bool.or_eq_true, decide_eq_true_eq, Bool.not_eq_true'] at ha
    exact ⟨ha.1, by simp [ha.2]⟩
  | poll env =>
    simp only [allowed, Bool.not_eq_true'] at ha
    show ¬ h.closing = true
    simp [ha]
  | pollClose => trivial

theorem linv_handler (s : State) (h : LInv s) (c : Nat) (i : In) : LInv (step s (.handler c i)) := by
  simp only [step]
  cases hl : s.links[c]? with
  | none => exact h
  | some l =>
    simp only []
    split
    · exact h
    · next hga =>
      have hal : allowed l.h i = true := by
        cases hx : allowed l.h i with
        | true => rfl
        | false => simp [hx] at hga
      have hns : ∀ w, i ≠ .sendWantlist w := by
        intro w e; subst e; simp [allowed] at hal
      have hi := h.link c l hl
      obtain ⟨sp, hr⟩ := hi.shape
      have ho1 := allowed_obeys1 l.h i hal
      obtain ⟨sp', _, hr'⟩ := Proofs.Handler.sim_step l.h sp i hr ho1
      have ad := step_adds l.h sp i hr ho1 hns
      -- the reports in flight afterwards
      have hfl : states ((l.reps ++ reportsOf (ClientHandler.step l.h i).2) ++ (ClientHandler.step l.h i).1.queue)
          = flight l ++ states (added l.h i) := by
        rw [List.append_assoc, ad.flight, ← List.append_assoc, states_append]
        rfl
      obtain ⟨e1, e2⟩ := flight_extend (flight l) (states (added l.h i)) l.h.ss (ClientHandler.step l.h i).1.ss
        hi.last hi.ready_last ad.last ad.quiet ad.ready_last
      have hquiet : flight l = [] → l.h.ss = .ready →
          states ((l.reps ++ reportsOf (ClientHandler.step l.h i).2) ++ (ClientHandler.step l.h i).1.queue) = [] ∧
          (ClientHandler.step l.h i).1.ss = .ready := by
        intro hf hs
        have hq := ad.quiet hs
        refine ⟨by rw [hfl, hf, hq]; rfl, ?_⟩
        rw [ad.last, hq]; simpa using hs
      refine linv_set_link s h c l _ hl rfl (fun g => g) ?_
      refine ⟨?_, ?_, ⟨sp', hr'⟩, hi.one, ?_, ?_, ?_, ?_⟩
      · show (ClientHandler.step l.h i).1 = _
        rw [run_snoc, ← hi.coh]
      · exact obeys_snoc {} l.ins _ hi.obeys (by rw [← hi.coh]; exact ho1)
      · intro hc
        obtain ⟨hf, hs⟩ := hi.cmd_idle hc
        exact hquiet hf hs
      · show states _ ≠ [] → (states _).getLast? = _
        rw [hfl]; exact e1
      · show ∀ x ∈ (states _).dropLast, _
        rw [hfl]; exact e2
      · intro ps a b d
        obtain ⟨hc, hf, hs⟩ := hi.silent ps a b d
        obtain ⟨q1, q2⟩ := hquiet hf hs
        exact ⟨hc, q1, q2⟩

/-! ### `on_connection_closed` -/

theorem closed_none (cl : Client.State) (p c : Nat) (hp : cl.peers[p]? = none) : Client.closed cl p c = cl := by
  simp [Client.closed, hp]

/-- what is usable and untracked after `on_connection_closed` was so before, and is not the closed one -/
theorem closed_member (cl : Client.State) (p c q c' : Nat) (ps' : PeerSt)
    (h1 : (Client.closed cl p c).peers[q]? = some ps') (h2 : c' ∈ ps'.conns) :
    ∃ ps, cl.peers[q]? = some ps ∧ c' ∈ ps.conns ∧ ps'.sending = ps.sending ∧ (q = p → c' ≠ c) := by
  cases hp : cl.peers[p]? with
  | none =>
    rw [closed_none cl p c hp] at h1
    refine ⟨ps', h1, h2, rfl, ?_⟩
    intro e; subst e; rw [hp] at h1; cases h1
  | some ps =>
    rw [ClientView.closed_peers cl p c ps hp] at h1
    by_cases hq : q = p
    · subst hq
      simp only [if_true] at h1
      split at h1
      · cases h1
      · cases h1
        obtain ⟨a, b⟩ := (kset_mem_erase _ _ _).1 h2
        exact ⟨ps, hp, b, rfl, fun _ => a⟩
    · simp only [hq, if_false] at h1
      exact ⟨ps', h1, h2, rfl, fun e => absurd e hq⟩

theorem LinkInv.closed {cl : Client.State} {c' : Nat} {l : Link} (h : LinkInv cl c' l) (p c : Nat) :
    LinkInv (Client.closed cl p c) c' l := by
  apply h.transfer
  intro ps' h1 h2 h3
  obtain ⟨ps, a, b, d, _⟩ := closed_member cl p c l.peer c' ps' h1 h2
  exact ⟨ps, a, b, d ▸ h3⟩

/-- a link whose reports in flight, handler and waiting wantlists are those of another one -/
theorem LinkInv.congr {cl : Client.State} {c : Nat} {l l' : Link} (h : LinkInv cl c l)
    (hp : l'.peer = l.peer) (hh : l'.h = l.h) (hc : l'.cmds = l.cmds) (hi : l'.ins = l.ins)
    (hf : flight l' = flight l) : LinkInv cl c l' := by
  refine ⟨by rw [hh, hi]; exact h.coh, by rw [hi]; exact h.obeys, by rw [hh]; exact h.shape,
    by rw [hc]; exact h.one, ?_, ?_, by rw [hf]; exact h.ready_last, ?_⟩
  · intro hne; rw [hf, hh]; exact h.cmd_idle (by rw [← hc]; exact hne)
  · intro hne; rw [hf, hh]; rw [hf] at hne; exact h.last hne
  · intro ps a b d
    rw [hp] at a
    obtain ⟨x, y, z⟩ := h.silent ps a b d
    exact ⟨by rw [hc]; exact x, by rw [hf]; exact y, by rw [hh]; exact z⟩

/-- the behaviour takes the oldest sending state in flight; the link's own part of the invariant -/
theorem LinkInv.pop {cl : Client.State} {c : Nat} {l l' : Link} (h : LinkInv cl c l) (hs : HS)
    (hp : l'.peer = l.peer) (hh : l'.h = l.h) (hc : l'.cmds = l.cmds) (hi : l'.ins = l.ins)
    (hf : flight l = hs :: flight l')
    (hsil : ∀ ps : PeerSt, cl.peers[l.peer]? = some ps → c ∈ ps.conns → ps.sending.conn? ≠ some c → False) :
    LinkInv cl c l' := by
  have hcm : l.cmds = [] := by
    cases hx : l.cmds with
    | nil => rfl
    | cons a b =>
      have := (h.cmd_idle (by rw [hx]; simp)).1
      rw [hf] at this; cases this
  refine ⟨by rw [hh, hi]; exact h.coh, by rw [hi]; exact h.obeys, by rw [hh]; exact h.shape,
    by rw [hc]; exact h.one, ?_, ?_, ?_, ?_⟩
  · intro hne; rw [hc, hcm] at hne; exact absurd rfl hne
  · intro hne
    have := h.last (by rw [hf]; simp)
    rw [hf, List.getLast?_cons_of_ne_nil hne] at this
    rw [hh]; exact this
  · intro x hx
    apply h.ready_last x
    rw [hf]
    cases hfl : flight l' with
    | nil => rw [hfl] at hx; simp at hx
    | cons a b => rw [hfl] at hx; simp only [List.dropLast_cons_cons]; exact List.mem_cons_of_mem _ hx
  · intro ps a b d
    rw [hp] at a
    exact (hsil ps a b d).elim

theorem own_closed (s : State) (h : LInv s) (p c : Nat) (q : Nat) (ps' : PeerSt)
    (h1 : (Client.closed s.cl.s p c).peers[q]? = some ps') (c' : Nat) (h2 : c' ∈ ps'.conns) :
    ∃ l : Link, s.links[c']? = some l ∧ l.peer = q ∧ l.gone = false ∧ (q = p → c' ≠ c) := by
  obtain ⟨ps, a, b, _, e⟩ := closed_member s.cl.s p c q c' ps' h1 h2
  obtain ⟨l, x, y, z⟩ := h.own q ps a c' b
  exact ⟨l, x, y, z, e⟩

/-! ### the swarm hands an event of a handler to the behaviour -/

theorem states_cons_state (hs : HS) (rest : List Report) : states (Report.state hs :: rest) = hs :: states rest := by
  simp [states]

theorem states_cons_closing (rest : List Report) : states (Report.closingConn :: rest) = states rest := by
  simp [states]

theorem toSending_conn (c : Nat) (hs : HS) : (toSending c hs).conn? ≠ some c → hs = .ready := by
  cases hs <;> simp [toSending, Sending.conn?]

theorem linv_deliverRep (s : State) (h : LInv s) (c : Nat) : LInv (step s (.deliverRep c)) := by
  simp only [step]
  cases hl : s.links[c]? with
  | none => exact h
  | some l =>
    have hi := h.link c l hl
    cases hrp : l.reps with
    | nil => simp only [hrp]; exact h
    | cons r rest =>
      simp only [hrp]
      cases r with
      | closingConn =>
        -- `ClientClosingConnection` → `on_connection_closed`
        have hfl : flight { l with reps := rest } = flight l := by
          simp only [flight, hrp, List.cons_append, states_cons_closing]
        refine ⟨?_, ?_, ?_⟩
        · show NoSend (Client.closed s.cl.s l.peer c).queue
          rw [(ClientView.closed_fields _ _ _).2]; exact h.nosend
        · intro q ps' h1 c' h2
          obtain ⟨l0, a, b, d, _⟩ := own_closed s h l.peer c q ps' h1 c' h2
          show ∃ l1 : Link, (s.links.insert c { l with reps := rest })[c']? = some l1 ∧ _
          rw [kmap_get_insert]
          by_cases hcc : c' = c
          · subst hcc
            rw [hl] at a; cases a
            exact ⟨{ l with reps := rest }, by simp, b, d⟩
          · exact ⟨l0, by simp [hcc, a], b, d⟩
        · intro c' l1 hl1
          have hl1' : (s.links.insert c { l with reps := rest })[c']? = some l1 := hl1
          rw [kmap_get_insert] at hl1'
          by_cases hcc : c' = c
          · subst hcc
            simp only [if_true, Option.some.injEq] at hl1'
            subst hl1'
            exact (hi.congr (l' := { l with reps := rest }) rfl rfl rfl rfl hfl).closed l.peer c'
          · simp only [hcc, if_false] at hl1'
            exact (h.link c' l1 hl1').closed l.peer c
      | state hs =>
        have hfl : flight l = hs :: flight { l with reps := rest } := by
          simp only [flight, hrp, List.cons_append, states_cons_state]
        have hq : (Client.sendingChanged s.cl.s l.peer c (toSending c hs)).queue = s.cl.s.queue :=
          (ClientSending.sendingChanged_fields _ _ _ _).2.2.2.2.1
        -- either the report is ignored (or there is no such peer), or it overwrites the sending state
        by_cases hset : ∃ ps : PeerSt, s.cl.s.peers[l.peer]? = some ps ∧
            (ps.sending.conn? = none ∨ ps.sending.conn? = some c)
        · obtain ⟨ps, hps, htr⟩ := hset
          have hsc : Client.sendingChanged s.cl.s l.peer c (toSending c hs) =
              Client.setSending s.cl.s l.peer (toSending c hs) := by
            apply ClientSending.sendingChanged_eq_set
            intro ps0 h0; rw [hps] at h0; cases h0; exact htr
          have hpeers : ∀ q, (Client.sendingChanged s.cl.s l.peer c (toSending c hs)).peers[q]? =
              if q = l.peer then some { ps with sending := toSending c hs } else s.cl.s.peers[q]? := by
            intro q
            rw [hsc, ClientSending.setSending_peers, hps]; rfl
          refine ⟨?_, ?_, ?_⟩
          · show NoSend (Client.sendingChanged s.cl.s l.peer c (toSending c hs)).queue
            rw [hq]; exact h.nosend
          · intro q ps' h1 c' h2
            have h1' : (Client.sendingChanged s.cl.s l.peer c (toSending c hs)).peers[q]? = some ps' := h1
            rw [hpeers] at h1'
            have hold : ∃ ps0 : PeerSt, s.cl.s.peers[q]? = some ps0 ∧ c' ∈ ps0.conns := by
              by_cases hqp : q = l.peer
              · simp only [hqp, if_true, Option.some.injEq] at h1'
                subst h1'
                exact ⟨ps, by rw [hqp]; exact hps, h2⟩
              · simp only [hqp, if_false] at h1'
                exact ⟨ps', h1', h2⟩
            obtain ⟨ps0, x, y⟩ := hold
            obtain ⟨l0, a, b, d⟩ := h.own q ps0 x c' y
            show ∃ l1 : Link, (s.links.insert c { l with reps := rest })[c']? = some l1 ∧ _
            rw [kmap_get_insert]
            by_cases hcc : c' = c
            · subst hcc
              rw [hl] at a; cases a
              exact ⟨{ l with reps := rest }, by simp, b, d⟩
            · exact ⟨l0, by simp [hcc, a], b, d⟩
          · intro c' l1 hl1
            have hl1' : (s.links.insert c { l with reps := rest })[c']? = some l1 := hl1
            rw [kmap_get_insert] at hl1'
            by_cases hcc : c' = c
            · subst hcc
              simp only [if_true, Option.some.injEq] at hl1'
              subst hl1'
              -- the reporting link itself
              have hcm : l.cmds = [] := by
                cases hx : l.cmds with
                | nil => rfl
                | cons a b =>
                  have := (hi.cmd_idle (by rw [hx]; simp)).1
                  rw [hfl] at this; cases this
              refine ⟨hi.coh, hi.obeys, hi.shape, hi.one, ?_, ?_, ?_, ?_⟩
              · intro hne; exact absurd hcm hne
              · intro hne
                have := hi.last (by rw [hfl]; simp)
                rw [hfl, List.getLast?_cons_of_ne_nil hne] at this
                exact this
              · intro x hx
                apply hi.ready_last x
                rw [hfl]
                cases hfl' : flight { l with reps := rest } with
                | nil => rw [hfl'] at hx; simp at hx
                | cons a b => rw [hfl'] at hx; simp only [List.dropLast_cons_cons]; exact List.mem_cons_of_mem _ hx
              · intro ps' h1 h2 h3
                have h1' : (Client.sendingChanged s.cl.s l.peer c' (toSending c' hs)).peers[l.peer]? = some ps' := h1
                rw [hpeers] at h1'
                simp only [if_true, Option.some.injEq] at h1'
                subst h1'
                have hr := toSending_conn c' hs h3
                subst hr
                -- `Ready` was the last report in flight
                have hnil : flight { l with reps := rest } = [] := by
                  cases hfl' : flight { l with reps := rest } with
                  | nil => rfl
                  | cons a b =>
                    have := hi.ready_last HS.ready (by rw [hfl, hfl']; simp [List.dropLast])
                    exact absurd rfl this
                refine ⟨hcm, hnil, ?_⟩
                have := hi.last (by rw [hfl]; simp)
                rw [hfl, hnil] at this
                exact (Option.some.inj this).symm
            · simp only [hcc, if_false] at hl1'
              apply (h.link c' l1 hl1').transfer
              intro ps' h1 h2 h3
              have h1' : (Client.sendingChanged s.cl.s l.peer c (toSending c hs)).peers[l1.peer]? = some ps' := h1
              rw [hpeers] at h1'
              by_cases hqp : l1.peer = l.peer
              · simp only [hqp, if_true, Option.some.injEq] at h1'
                subst h1'
                refine ⟨ps, by rw [hqp]; exact hps, h2, ?_⟩
                rcases htr with e | e <;> rw [e]
                · simp
                · intro e'; exact hcc (Option.some.inj e').symm
              · simp only [hqp, if_false] at h1'
                exact ⟨ps', h1', h2, h3⟩
        · -- ignored: the behaviour is unchanged
          have hsame : Client.sendingChanged s.cl.s l.peer c (toSending c hs) = s.cl.s := by
            cases hps : s.cl.s.peers[l.peer]? with
            | none =>
              rcases ClientSending.sendingChanged_cases s.cl.s l.peer c (toSending c hs) with e | e
              · exact e
              · rw [e]; simp [Client.setSending, hps]
            | some ps =>
              cases htc : ps.sending.conn? with
              | none => exact absurd ⟨ps, hps, .inl htc⟩ hset
              | some t =>
                have hne : t ≠ c := fun e => hset ⟨ps, hps, .inr (by rw [htc, e])⟩
                exact ClientSending.sendingChanged_ignored s.cl.s l.peer c _ ps t hps htc hne
          have hstep : (Client.step s.cl (repOp l.peer c (.state hs))).1 = s.cl := by
            show ({ s.cl with s := Client.sendingChanged s.cl.s l.peer c (toSending c hs) } : Client.Sys) = s.cl
            rw [hsame]
          rw [hstep]
          refine linv_set_link s h c l _ hl rfl (fun g => g) ?_
          apply hi.pop (l' := { l with reps := rest }) hs rfl rfl rfl rfl hfl
          intro ps a b d
          have := (hi.silent ps a b d).2.1
          rw [hfl] at this; cases this

/-! ### `ConnectionClosed` -/

theorem linv_swarmClosed (s : State) (h : LInv s) (c : Nat) : LInv (step s (.swarmClosed c)) := by
  simp only [step]
  cases hl : s.links[c]? with
  | none => exact h
  | some l =>
    simp only []
    split
    · have hi := h.link c l hl
      refine ⟨?_, ?_, ?_⟩
      · show NoSend (Client.closed s.cl.s l.peer c).queue
        rw [(ClientView.closed_fields _ _ _).2]; exact h.nosend
      · intro q ps' h1 c' h2
        obtain ⟨l0, a, b, d, e⟩ := own_closed s h l.peer c q ps' h1 c' h2
        show ∃ l1 : Link, (s.links.insert c { l with gone := true, cmds := [] })[c']? = some l1 ∧ _
        rw [kmap_get_insert]
        by_cases hcc : c' = c
        · subst hcc
          rw [hl] at a; cases a
          exact absurd rfl (e b.symm)
        · exact ⟨l0, by simp [hcc, a], b, d⟩
      · intro c' l1 hl1
        have hl1' : (s.links.insert c { l with gone := true, cmds := [] })[c']? = some l1 := hl1
        rw [kmap_get_insert] at hl1'
        by_cases hcc : c' = c
        · subst hcc
          simp only [if_true, Option.some.injEq] at hl1'
          subst hl1'
          refine ⟨hi.coh, hi.obeys, hi.shape, by simp, by simp, hi.last, hi.ready_last, ?_⟩
          intro ps' h1 h2 h3
          obtain ⟨_, _, _, _, e⟩ := closed_member s.cl.s l.peer c' l.peer c' ps' h1 h2
          exact absurd rfl (e rfl)
        · simp only [hcc, if_false] at hl1'
          exact (h.link c' l1 hl1').closed l.peer c
    · exact h

/-! ### the behaviour is polled: `update_handlers` hands wantlists to connections -/

theorem filterMap_length_le_one {α β} (g : α → Option β) (a0 : α) :
    ∀ (L : List α), L.Nodup → (∀ a ∈ L, (g a).isSome = true → a = a0) → (L.filterMap g).length ≤ 1
  | [], _, _ => by simp
  | a :: as, hn, hg => by
    have hn' := (List.nodup_cons.1 hn)
    cases hga : g a with
    | none =>
      rw [List.filterMap_cons_none hga]
      exact filterMap_length_le_one g a0 as hn'.2 (fun x hx => hg x (List.mem_cons_of_mem _ hx))
    | some b =>
      have ha : a = a0 := hg a List.mem_cons_self (by rw [hga]; rfl)
      have hnil : as.filterMap g = [] := by
        rw [List.filterMap_eq_nil_iff]
        intro x hx
        cases hgx : g x with
        | none => rfl
        | some y =>
          have : x = a0 := hg x (List.mem_cons_of_mem _ hx) (by rw [hgx]; rfl)
          exact absurd (this.trans ha.symm ▸ hx) hn'.1
      rw [List.filterMap_cons_some hga, hnil]
      simp

theorem handed_append (c n : Nat) (a b : List Out) : handed c n (a ++ b) = handed c n a ++ handed c n b := by
  simp [handed, List.filterMap_append]

theorem handed_nosend (c n : Nat) (a : List Out) (h : NoSend a) : handed c n a = [] := by
  unfold handed
  rw [List.filterMap_eq_nil_iff]
  intro o ho
  cases o with
  | send p c' m => exact absurd ho (h p c' m)
  | _ => rfl

/-- the wantlists handed to `c` among those `update_handlers` emits, one candidate per peer -/
def handedBy (s1 : Client.State) (now : Nat) (pref : Nat → Option Nat) (c n : Nat) (p : Nat) : Option Nat :=
  match ClientView.sendOf s1 now pref p with
  | some (.send _ c' _) => if c' = c then some n else none
  | _ => none

theorem handed_filterMap (s1 : Client.State) (now : Nat) (pref : Nat → Option Nat) (c n : Nat) (L : List Nat) :
    handed c n (L.filterMap (ClientView.sendOf s1 now pref)) = L.filterMap (handedBy s1 now pref c n) := by
  unfold handed
  rw [List.filterMap_filterMap]
  congr 1
  funext p
  unfold handedBy
  cases ClientView.sendOf s1 now pref p with
  | none => rfl
  | some o => cases o <;> rfl

theorem handedBy_some (s1 : Client.State) (now : Nat) (pref : Nat → Option Nat) (c n p : Nat)
    (h : (handedBy s1 now pref c n p).isSome = true) :
    ∃ ps1 m, s1.peers[p]? = some ps1 ∧
      (Client.updatePeer s1.wantlist now ps1 (pref p)).2 = some (c, m) := by
  unfold handedBy ClientView.sendOf at h
  cases hp : s1.peers[p]? with
  | none => simp [hp] at h
  | some ps1 =>
    simp only [hp] at h
    cases hu : (Client.updatePeer s1.wantlist now ps1 (pref p)).2 with
    | none => simp [hu] at h
    | some cm =>
      obtain ⟨c', m⟩ := cm
      simp only [hu] at h
      by_cases hcc : c' = c
      · subst hcc; exact ⟨ps1, m, rfl, hu⟩
      · simp [hcc] at h

theorem link_cmds_nil (l : Link) : ({ l with cmds := l.cmds ++ [] } : Link) = l := by
  cases l; simp

theorem linv_drain (s : State) (h : LInv s) (pref : Nat → Option Nat) : LInv (step s (.drain pref)) := by
  -- the drain, in two phases
  let s1 := (ClientView.afterTasks s.cl.s s.cl.now s.cl.seq).1
  let o1 := (ClientView.afterTasks s.cl.s s.cl.now s.cl.seq).2.2
  obtain ⟨_, a2, a3, _, a5⟩ := ClientView.afterTasks_spec s.cl.s s.cl.now s.cl.seq
  obtain ⟨_, u2, _, u4, u5⟩ := ClientView.updateHandlers_spec s1 s.cl.now pref
  have hcl : (Client.step s.cl (.drain pref)).1.s = (Client.updateHandlers s1 s.cl.now pref).1 := rfl
  have houts : (Client.step s.cl (.drain pref)).2 =
      s.cl.s.queue ++ o1 ++ (Client.updateHandlers s1 s.cl.now pref).2 := rfl
  have hcs : ∀ p : Nat, (s1.peers[p]?).map cs = (s.cl.s.peers[p]?).map cs := by
    intro p
    have := a2 p
    change (s1.peers[p]?).map ClientView.pframe = _ at this
    cases hx : s1.peers[p]? <;> cases hy : s.cl.s.peers[p]? <;> rw [hx, hy] at this <;>
      simp [ClientView.pframe, cs] at this ⊢
    exact ⟨this.1, this.2.1⟩
  have hpeers : ∀ p : Nat, (Client.step s.cl (.drain pref)).1.s.peers[p]? =
      (s1.peers[p]?).bind (fun ps => (Client.updatePeer s1.wantlist s.cl.now ps (pref p)).1) := by
    intro p; rw [hcl, u4 p]; rfl
  -- what is handed to a connection comes from `update_handlers`
  have hhand : ∀ c : Nat, handed c s.nextW (Client.step s.cl (.drain pref)).2 =
      s1.peers.keys.filterMap (handedBy s1 s.cl.now pref c s.nextW) := by
    intro c
    rw [houts, handed_append, handed_append, handed_nosend _ _ _ h.nosend, handed_nosend _ _ _ a5, u5,
      handed_filterMap]
    rfl
  -- a connection that is handed something: its peer, and that it was usable and untracked
  have hsrc : ∀ c p : Nat, (handedBy s1 s.cl.now pref c s.nextW p).isSome = true →
      ∃ ps ps1 ps' m, s.cl.s.peers[p]? = some ps ∧ s1.peers[p]? = some ps1 ∧ cs ps1 = cs ps ∧
        Client.updatePeer s1.wantlist s.cl.now ps1 (pref p) = (some ps', some (c, m)) := by
    intro c p hsome
    obtain ⟨ps1, m, e1, e2⟩ := handedBy_some s1 s.cl.now pref c s.nextW p hsome
    have hc := hcs p
    rw [e1] at hc
    cases hp : s.cl.s.peers[p]? with
    | none => rw [hp] at hc; cases hc
    | some ps =>
      rw [hp] at hc
      simp only [Option.map_some, Option.some.injEq] at hc
      cases hu : Client.updatePeer s1.wantlist s.cl.now ps1 (pref p) with
      | mk x mm =>
        rw [hu] at e2
        simp only at e2
        subst e2
        cases x with
        | none => have := updatePeer_none _ _ _ _ _ hu; cases this
        | some ps' => exact ⟨ps, ps1, ps', m, rfl, e1, hc, hu⟩
  simp only [step]
  refine ⟨?_, ?_, ?_⟩
  · show NoSend (Client.step s.cl (.drain pref)).1.s.queue
    rw [hcl, u2]
    show NoSend s1.queue
    rw [a3]; intro p c m hm; cases hm
  · intro p ps' h1 c hc
    have h1' : (Client.step s.cl (.drain pref)).1.s.peers[p]? = some ps' := h1
    rw [hpeers] at h1'
    cases hx : s1.peers[p]? with
    | none => rw [hx] at h1'; cases h1'
    | some ps1 =>
      rw [hx] at h1'
      simp only [Option.bind_some] at h1'
      have hc1 := hcs p
      rw [hx] at hc1
      cases hp : s.cl.s.peers[p]? with
      | none => rw [hp] at hc1; cases hc1
      | some ps =>
        rw [hp] at hc1
        simp only [Option.map_some, Option.some.injEq, cs, Prod.mk.injEq] at hc1
        cases hu : Client.updatePeer s1.wantlist s.cl.now ps1 (pref p) with
        | mk x mm =>
          rw [hu] at h1'
          simp only at h1'
          subst h1'
          obtain ⟨f1, _, _⟩ := updatePeer_cs _ _ _ _ _ _ hu
          obtain ⟨l, a, b, d⟩ := h.own p ps hp c (hc1.1 ▸ f1 c hc)
          refine ⟨{ l with cmds := l.cmds ++ handed c s.nextW (Client.step s.cl (.drain pref)).2 }, ?_, b, d⟩
          show (route s.links s.nextW _)[c]? = _
          unfold route
          rw [ClientView.get_tab_keys s.links (fun c l => ({ l with cmds := l.cmds ++ handed c s.nextW _ } : Link)), a]
          rfl
  · intro c l' hl'
    have hl'' : (route s.links s.nextW (Client.step s.cl (.drain pref)).2)[c]? = some l' := hl'
    unfold route at hl''
    rw [ClientView.get_tab_keys s.links (fun c l => ({ l with cmds := l.cmds ++ handed c s.nextW _ } : Link))] at hl''
    cases hl : s.links[c]? with
    | none => rw [hl] at hl''; cases hl''
    | some l =>
      rw [hl] at hl''
      simp only [Option.map_some, Option.some.injEq] at hl''
      subst hl''
      have hi := h.link c l hl
      -- every hand-over to `c` comes from the peer of the link
      have hfrom : ∀ p, (handedBy s1 s.cl.now pref c s.nextW p).isSome = true → p = l.peer := by
        intro p hsome
        obtain ⟨ps, ps1, ps', m, e1, e2, e3, e4⟩ := hsrc c p hsome
        obtain ⟨f1, _, f3⟩ := updatePeer_cs _ _ _ _ _ _ e4
        have hmem : c ∈ ps.conns := by
          have := f1 c (f3 c m rfl).1
          simp only [cs, Prod.mk.injEq] at e3
          exact e3.1 ▸ this
        obtain ⟨l0, a, b, _⟩ := h.own p ps e1 c hmem
        rw [hl] at a; cases a
        exact b.symm
      have hlen : (handed c s.nextW (Client.step s.cl (.drain pref)).2).length ≤ 1 := by
        rw [hhand c]
        exact filterMap_length_le_one _ l.peer _ ExtTreeMap.nodup_keys (fun p _ hs => hfrom p hs)
      by_cases hh : handed c s.nextW (Client.step s.cl (.drain pref)).2 = []
      · -- nothing is handed to this connection
        rw [hh, link_cmds_nil]
        apply hi.transfer
        intro ps'' h1 h2 h3
        rw [hpeers] at h1
        cases hx : s1.peers[l.peer]? with
        | none => rw [hx] at h1; cases h1
        | some ps1 =>
          rw [hx] at h1
          simp only [Option.bind_some] at h1
          have hc1 := hcs l.peer
          rw [hx] at hc1
          cases hp : s.cl.s.peers[l.peer]? with
          | none => rw [hp] at hc1; cases hc1
          | some ps =>
            rw [hp] at hc1
            simp only [Option.map_some, Option.some.injEq, cs, Prod.mk.injEq] at hc1
            cases hu : Client.updatePeer s1.wantlist s.cl.now ps1 (pref l.peer) with
            | mk x mm =>
              rw [hu] at h1
              simp only at h1
              subst h1
              obtain ⟨f1, f2, f3⟩ := updatePeer_cs _ _ _ _ _ _ hu
              refine ⟨ps, rfl, hc1.1 ▸ f1 c h2, ?_⟩
              rw [← hc1.2]
              cases mm with
              | none =>
                rcases f2 rfl with e | ⟨_, e⟩
                · rw [← e]; exact h3
                · exact e c h2
              | some cm => exact (f3 cm.1 cm.2 rfl).2.2 c h2
      · -- a wantlist is handed to this connection: it was usable and untracked, hence at rest
        have hne : s1.peers.keys.filterMap (handedBy s1 s.cl.now pref c s.nextW) ≠ [] := by
          rw [← hhand c]; exact hh
        obtain ⟨n, hn⟩ := List.exists_mem_of_ne_nil _ hne
        obtain ⟨p, _, hp⟩ := List.mem_filterMap.1 hn
        have hsome : (handedBy s1 s.cl.now pref c s.nextW p).isSome = true := by rw [hp]; rfl
        have hpl := hfrom p hsome
        obtain ⟨ps, ps1, ps', m, e1, e2, e3, e4⟩ := hsrc c p hsome
        subst hpl
        obtain ⟨f1, _, f3⟩ := updatePeer_cs _ _ _ _ _ _ e4
        obtain ⟨g1, g2, g3⟩ := f3 c m rfl
        simp only [cs, Prod.mk.injEq] at e3
        have hidle : Idle l := hi.silent ps e1 (e3.1 ▸ f1 c g1) (e3.2 ▸ g3 c g1)
        obtain ⟨i1, i2, i3⟩ := hidle
        refine ⟨hi.coh, hi.obeys, hi.shape, ?_, ?_, hi.last, hi.ready_last, ?_⟩
        · show (l.cmds ++ _).length ≤ 1
          rw [i1]; simpa using hlen
        · intro _; exact ⟨i2, i3⟩
        · intro ps'' h1 h2 h3
          rw [hpeers, e2] at h1
          simp only [Option.bind_some, e4] at h1
          cases h1
          rw [g2] at h3
          exact absurd rfl h3

end Beetswap.Proofs.ClientLink
