import Beetswap.Proofs.CodecVarint
/-!
Parser layer: the generated `from_reader` loops accept every schema-valid field tree and compute
its interpretation.
-/
namespace Beetswap.Proofs.Codec
open Beetswap Beetswap.Proto Beetswap.Frame Beetswap.Spec.Wire Beetswap.Spec.Limit

/-! ### Generic reader lemmas -/

theorem readTag (t : Nat) (ht : t < 2 ^ 32) (rest : List Nat) (n : Nat)
    (hn : (Varint.enc t).length ≤ n) :
    readVarint32 (Varint.enc t ++ rest) n = .ok t rest (n - (Varint.enc t).length) := by
  rw [readVarint32_enc t (by omega) rest n hn, Nat.mod_eq_of_lt ht]

theorem readTag1 (t : Nat) (ht : t < 128) (rest : List Nat) (n : Nat) (hn : 0 < n) :
    readVarint32 (t :: rest) n = .ok t rest (n - 1) := by
  have := readTag t (by omega) rest n (by rw [enc_length_one ht]; omega)
  rwa [enc_lt ht] at this

theorem readBytes_enc (bs : List Nat) (hb : bs.length < 2 ^ 32) (rest : List Nat) (n : Nat)
    (hn : (Varint.enc bs.length).length + bs.length ≤ n) :
    readBytes (Varint.enc bs.length ++ (bs ++ rest)) n
      = .ok bs rest (n - ((Varint.enc bs.length).length + bs.length)) := by
  rw [readBytes, readTag _ hb _ _ (by omega)]
  have h1 : ¬ (bs ++ rest).length < bs.length := by simp
  have h2 : ¬ n - (Varint.enc bs.length).length < bs.length := by omega
  simp only [h1, h2, if_false, List.take_left', List.drop_left']
  congr 1; omega

theorem toI32_wire (v : Nat) (h : I32Wire v) : toI32 (v % 2 ^ 32) = i32OfWire v := by
  unfold toI32 i32OfWire
  rcases h with h | ⟨h1, h2⟩
  · have : v % 2 ^ 32 = v := Nat.mod_eq_of_lt (by omega)
    rw [this]; simp [h]
  · have h3 : ¬ v < 2 ^ 31 := by omega
    have h4 : ¬ v % 2 ^ 32 < 2 ^ 31 := by omega
    simp only [h3, h4, if_false]
    omega

theorem enum01_wire (v : Nat) (h : I32Wire v) : enum01 (v % 2 ^ 32) = enumOfWire v := by
  unfold enum01 enumOfWire
  rw [toI32_wire v h]
  unfold i32OfWire
  rcases h with h | ⟨h1, h2⟩
  · simp [h];
    by_cases h1 : v = 1 <;> simp [h1]
    omega
  · have h3 : ¬ v < 2 ^ 31 := by omega
    have h5 : v ≠ 1 := by omega
    simp only [h3, h5, if_false]
    split
    · omega
    · rfl

theorem bool_wire (v : Nat) (h : BoolWire v) : (v % 2 ^ 32 != 0) = (v == 1) := by
  rcases h with rfl | rfl <;> decide

/-! ### Unknown fields -/

def Unk.payload : Unk → List Nat
  | .varint _ v => Varint.enc v
  | .fixed64 _ bs => bs
  | .len _ bs => Varint.enc bs.length ++ bs
  | .fixed32 _ bs => bs

theorem unk_ser (u : Unk) : u.ser = Varint.enc (u.num * 8 + u.wt) ++ Unk.payload u := by
  cases u <;> simp [Unk.ser, Unk.payload, Unk.num, Unk.wt, uvar_eq_enc']

theorem unk_tag_lt {known : List (Nat × Nat)} (u : Unk) (h : u.Valid known) :
    u.num * 8 + u.wt < 2 ^ 32 := by
  obtain ⟨_, h2, _, _⟩ := h
  cases u <;> simp [Unk.num, Unk.wt] at h2 ⊢ <;> omega

theorem readUnknown_payload {known : List (Nat × Nat)} (u : Unk) (h : u.Valid known)
    (rest : List Nat) (n : Nat) (hn : (Unk.payload u).length ≤ n) :
    readUnknown (u.num * 8 + u.wt) (Unk.payload u ++ rest) n
      = .ok () rest (n - (Unk.payload u).length) := by
  obtain ⟨_, _, _, h4⟩ := h
  cases u with
  | varint num v =>
    simp only [Unk.payload] at hn ⊢
    have : (num * 8 + 0) % 8 = 0 := by omega
    simp only [readUnknown, Unk.num, Unk.wt, this]
    rw [readVarint64_enc v h4 rest n hn]
  | fixed64 num bs =>
    simp only [Unk.payload] at hn ⊢
    have : (num * 8 + 1) % 8 = 1 := by omega
    simp only [readUnknown, Unk.num, Unk.wt, this]
    simp at h4
    have : ¬ n < 8 := by omega
    rw [if_neg this, List.drop_left' h4.1, h4.1]
  | fixed32 num bs =>
    simp only [Unk.payload] at hn ⊢
    have : (num * 8 + 5) % 8 = 5 := by omega
    simp only [readUnknown, Unk.num, Unk.wt, this]
    simp at h4
    have : ¬ n < 4 := by omega
    rw [if_neg this, List.drop_left' h4.1, h4.1]
  | len num bs =>
    simp only [Unk.payload] at hn ⊢
    have : (num * 8 + 2) % 8 = 2 := by omega
    simp only [readUnknown, Unk.num, Unk.wt, this]
    simp at h4 hn
    rw [List.append_assoc, readVarint64_enc bs.length (by omega) _ n (by omega)]
    have : ¬ n - (Varint.enc bs.length).length < bs.length := by omega
    simp [this]
    omega

theorem uvar_append_length_pos (t : Nat) (l : List Nat) : 0 < (uvar t ++ l).length := by
  rw [uvar_eq_enc']; have := enc_length_pos t; simp; omega

theorem unk_ser_pos (u : Unk) : 0 < u.ser.length := by
  rw [unk_ser]; have := enc_length_pos (u.num * 8 + u.wt); simp; omega

theorem i32wire_lt {v : Nat} (h : I32Wire v) : v < 2 ^ 64 := by
  rcases h with h | h <;> omega

theorem boolwire_lt {v : Nat} (h : BoolWire v) : v < 2 ^ 64 := by
  rcases h with h | h <;> omega

theorem readNested_enc {α : Type} (body : List Nat → Nat → PRes α) (bs rest : List Nat) (n : Nat)
    (v : α) (hb : bs.length < 2 ^ 32) (hn : (Varint.enc bs.length).length + bs.length ≤ n)
    (hbody : body (bs ++ rest) bs.length = .ok v rest 0) :
    readNested body (Varint.enc bs.length ++ (bs ++ rest)) n
      = .ok v rest (n - ((Varint.enc bs.length).length + bs.length)) := by
  rw [readNested, readTag _ hb _ _ (by omega)]
  have h1 : ¬ (bs ++ rest).length < bs.length := by simp
  have h2 : ¬ n - (Varint.enc bs.length).length < bs.length := by omega
  simp only [h1, h2, if_false, hbody]
  congr 1; omega

/-! ### Entry -/

theorem entryLoop_unk_tag (u : Unk) (h : u.Valid entryKnown) :
    u.num * 8 + u.wt ≠ 10 ∧ u.num * 8 + u.wt ≠ 16 ∧ u.num * 8 + u.wt ≠ 24 ∧ u.num * 8 + u.wt ≠ 32 ∧ u.num * 8 + u.wt ≠ 40 := by
  obtain ⟨_, _, h3, _⟩ := h
  cases u <;> simp [Unk.num, Unk.wt, entryKnown] at h3 ⊢ <;> omega

theorem entryLoop_step (fuel : Nat) (e : Entry) (f : EntryFld) (tail : List Nat) (n : Nat)
    (hv : f.Valid) (hn : (EntryFld.ser f).length ≤ n) :
    entryLoop (fuel + 1) e (EntryFld.ser f ++ tail) n
      = entryLoop fuel (EntryFld.apply e f) tail (n - (EntryFld.ser f).length) := by
  cases f with
  | block bs =>
    have hs : EntryFld.ser (.block bs) = 10 :: (Varint.enc bs.length ++ bs) := by
      simp [EntryFld.ser, uvar_eq_enc', enc_lt]
    rw [hs] at hn ⊢
    simp at hn
    rw [entryLoop, if_neg (by omega)]
    simp only [List.cons_append, List.append_assoc]
    rw [readTag1 10 (by omega) _ _ (by omega)]
    simp only [if_true]
    rw [readBytes_enc bs hv.1 tail _ (by omega)]
    simp only [EntryFld.apply, List.length_cons, List.length_append]
    congr 1; omega
  | priority v =>
    have hs : EntryFld.ser (.priority v) = 16 :: Varint.enc v := by
      simp [EntryFld.ser, uvar_eq_enc', enc_lt]
    rw [hs] at hn ⊢
    simp at hn
    rw [entryLoop, if_neg (by omega)]
    simp only [List.cons_append]
    rw [readTag1 16 (by omega) _ _ (by omega)]
    simp only [show (16 : Nat) ≠ 10 by decide, if_false, if_true]
    rw [readVarint32_enc v (i32wire_lt hv) tail _ (by omega)]
    simp only [EntryFld.apply, List.length_cons, toI32_wire v hv]
    congr 1; omega
  | cancel v =>
    have hs : EntryFld.ser (.cancel v) = 24 :: Varint.enc v := by
      simp [EntryFld.ser, uvar_eq_enc', enc_lt]
    rw [hs] at hn ⊢
    simp at hn
    rw [entryLoop, if_neg (by omega)]
    simp only [List.cons_append]
    rw [readTag1 24 (by omega) _ _ (by omega)]
    simp only [show (24 : Nat) ≠ 10 by decide, show (24 : Nat) ≠ 16 by decide, if_false, if_true]
    rw [readVarint32_enc v (boolwire_lt hv) tail _ (by omega)]
    simp only [EntryFld.apply, List.length_cons, bool_wire v hv]
    congr 1; omega
  | wantType v =>
    have hs : EntryFld.ser (.wantType v) = 32 :: Varint.enc v := by
      simp [EntryFld.ser, uvar_eq_enc', enc_lt]
    rw [hs] at hn ⊢
    simp at hn
    rw [entryLoop, if_neg (by omega)]
    simp only [List.cons_append]
    rw [readTag1 32 (by omega) _ _ (by omega)]
    simp only [show (32 : Nat) ≠ 10 by decide, show (32 : Nat) ≠ 16 by decide, show (32 : Nat) ≠ 24 by decide, if_false, if_true]
    rw [readVarint32_enc v (i32wire_lt hv) tail _ (by omega)]
    simp only [EntryFld.apply, List.length_cons, enum01_wire v hv]
    congr 1; omega
  | sendDontHave v =>
    have hs : EntryFld.ser (.sendDontHave v) = 40 :: Varint.enc v := by
      simp [EntryFld.ser, uvar_eq_enc', enc_lt]
    rw [hs] at hn ⊢
    simp at hn
    rw [entryLoop, if_neg (by omega)]
    simp only [List.cons_append]
    rw [readTag1 40 (by omega) _ _ (by omega)]
    simp only [show (40 : Nat) ≠ 10 by decide, show (40 : Nat) ≠ 16 by decide, show (40 : Nat) ≠ 24 by decide, show (40 : Nat) ≠ 32 by decide, if_false, if_true]
    rw [readVarint32_enc v (boolwire_lt hv) tail _ (by omega)]
    simp only [EntryFld.apply, List.length_cons, bool_wire v hv]
    congr 1; omega
  | unk u =>
    have hv : u.Valid entryKnown := hv
    have hs : EntryFld.ser (.unk u) = Varint.enc (u.num * 8 + u.wt) ++ Unk.payload u := unk_ser u
    obtain ⟨k1, k2, k3, k4, k5⟩ := entryLoop_unk_tag u hv
    have hpos := enc_length_pos (u.num * 8 + u.wt)
    rw [hs] at hn ⊢
    simp at hn
    rw [entryLoop, if_neg (by omega)]
    simp only [List.append_assoc]
    rw [readTag _ (unk_tag_lt u hv) _ _ (by omega)]
    simp only [if_neg k1, if_neg k2, if_neg k3, if_neg k4, if_neg k5]
    rw [readUnknown_payload u hv tail _ (by omega)]
    simp only [EntryFld.apply, List.length_append]
    congr 1; omega

theorem serEntry_cons (f : EntryFld) (fs : List EntryFld) :
    serEntry (f :: fs) = EntryFld.ser f ++ serEntry fs := by
  simp [serEntry]

theorem EntryFld_ser_pos (f : EntryFld) : 0 < (EntryFld.ser f).length := by
  cases f <;> simp only [EntryFld.ser, List.append_assoc] <;>
    first | exact uvar_append_length_pos _ _ | exact unk_ser_pos _

theorem entryLoop_ser : ∀ (fs : List EntryFld) (fuel : Nat) (e : Entry) (rest : List Nat),
    (∀ f ∈ fs, f.Valid) → (serEntry fs).length + 1 ≤ fuel →
    entryLoop fuel e (serEntry fs ++ rest) (serEntry fs).length
      = .ok (fs.foldl EntryFld.apply e) rest 0 := by
  intro fs
  induction fs with
  | nil =>
    intro fuel e rest _ hf
    obtain ⟨fuel, rfl⟩ : ∃ k, fuel = k + 1 := ⟨fuel - 1, by omega⟩
    simp [serEntry, entryLoop]
  | cons f fs ih =>
    intro fuel e rest hv hf
    obtain ⟨fuel, rfl⟩ : ∃ k, fuel = k + 1 := ⟨fuel - 1, by omega⟩
    have hpos := EntryFld_ser_pos f
    rw [serEntry_cons] at hf ⊢
    simp only [List.length_append] at hf ⊢
    rw [List.append_assoc, entryLoop_step fuel e f _ _ (hv f (by simp)) (by omega)]
    rw [show (EntryFld.ser f).length + (serEntry fs).length - (EntryFld.ser f).length
          = (serEntry fs).length by omega]
    rw [ih fuel _ rest (fun g hg => hv g (by simp [hg])) (by omega)]
    rfl

theorem parseEntry_ser (fs : List EntryFld) (hv : ∀ f ∈ fs, f.Valid) (rest : List Nat) :
    parseEntry (serEntry fs ++ rest) (serEntry fs).length = .ok (interpEntry fs) rest 0 :=
  entryLoop_ser fs _ _ rest hv (Nat.le_refl _)

/-! ### Block -/

theorem blockLoop_unk_tag (u : Unk) (h : u.Valid blockKnown) :
    u.num * 8 + u.wt ≠ 10 ∧ u.num * 8 + u.wt ≠ 18 := by
  obtain ⟨_, _, h3, _⟩ := h
  cases u <;> simp [Unk.num, Unk.wt, blockKnown] at h3 ⊢ <;> omega

theorem blockLoop_step (fuel : Nat) (e : Block) (f : BlockFld) (tail : List Nat) (n : Nat)
    (hv : f.Valid) (hn : (BlockFld.ser f).length ≤ n) :
    blockLoop (fuel + 1) e (BlockFld.ser f ++ tail) n
      = blockLoop fuel (BlockFld.apply e f) tail (n - (BlockFld.ser f).length) := by
  cases f with
  | pfx bs =>
    have hs : BlockFld.ser (.pfx bs) = 10 :: (Varint.enc bs.length ++ bs) := by
      simp [BlockFld.ser, uvar_eq_enc', enc_lt]
    rw [hs] at hn ⊢
    simp at hn
    rw [blockLoop, if_neg (by omega)]
    simp only [List.cons_append, List.append_assoc]
    rw [readTag1 10 (by omega) _ _ (by omega)]
    simp only [if_true]
    rw [readBytes_enc bs hv.1 tail _ (by omega)]
    simp only [BlockFld.apply, List.length_cons, List.length_append]
    congr 1; omega
  | data bs =>
    have hs : BlockFld.ser (.data bs) = 18 :: (Varint.enc bs.length ++ bs) := by
      simp [BlockFld.ser, uvar_eq_enc', enc_lt]
    rw [hs] at hn ⊢
    simp at hn
    rw [blockLoop, if_neg (by omega)]
    simp only [List.cons_append, List.append_assoc]
    rw [readTag1 18 (by omega) _ _ (by omega)]
    simp only [show (18 : Nat) ≠ 10 by decide, if_false, if_true]
    rw [readBytes_enc bs hv.1 tail _ (by omega)]
    simp only [BlockFld.apply, List.length_cons, List.length_append]
    congr 1; omega
  | unk u =>
    have hv : u.Valid blockKnown := hv
    have hs : BlockFld.ser (.unk u) = Varint.enc (u.num * 8 + u.wt) ++ Unk.payload u := unk_ser u
    obtain ⟨k1, k2⟩ := blockLoop_unk_tag u hv
    have hpos := enc_length_pos (u.num * 8 + u.wt)
    rw [hs] at hn ⊢
    simp at hn
    rw [blockLoop, if_neg (by omega)]
    simp only [List.append_assoc]
    rw [readTag _ (unk_tag_lt u hv) _ _ (by omega)]
    simp only [if_neg k1, if_neg k2]
    rw [readUnknown_payload u hv tail _ (by omega)]
    simp only [BlockFld.apply, List.length_append]
    congr 1; omega

theorem serBlock_cons (f : BlockFld) (fs : List BlockFld) :
    serBlock (f :: fs) = BlockFld.ser f ++ serBlock fs := by
  simp [serBlock]

theorem BlockFld_ser_pos (f : BlockFld) : 0 < (BlockFld.ser f).length := by
  cases f <;> simp only [BlockFld.ser, List.append_assoc] <;>
    first | exact uvar_append_length_pos _ _ | exact unk_ser_pos _

theorem blockLoop_ser : ∀ (fs : List BlockFld) (fuel : Nat) (e : Block) (rest : List Nat),
    (∀ f ∈ fs, f.Valid) → (serBlock fs).length + 1 ≤ fuel →
    blockLoop fuel e (serBlock fs ++ rest) (serBlock fs).length
      = .ok (fs.foldl BlockFld.apply e) rest 0 := by
  intro fs
  induction fs with
  | nil =>
    intro fuel e rest _ hf
    obtain ⟨fuel, rfl⟩ : ∃ k, fuel = k + 1 := ⟨fuel - 1, by omega⟩
    simp [serBlock, blockLoop]
  | cons f fs ih =>
    intro fuel e rest hv hf
    obtain ⟨fuel, rfl⟩ : ∃ k, fuel = k + 1 := ⟨fuel - 1, by omega⟩
    have hpos := BlockFld_ser_pos f
    rw [serBlock_cons] at hf ⊢
    simp only [List.length_append] at hf ⊢
    rw [List.append_assoc, blockLoop_step fuel e f _ _ (hv f (by simp)) (by omega)]
    rw [show (BlockFld.ser f).length + (serBlock fs).length - (BlockFld.ser f).length
          = (serBlock fs).length by omega]
    rw [ih fuel _ rest (fun g hg => hv g (by simp [hg])) (by omega)]
    rfl

theorem parseBlock_ser (fs : List BlockFld) (hv : ∀ f ∈ fs, f.Valid) (rest : List Nat) :
    parseBlock (serBlock fs ++ rest) (serBlock fs).length = .ok (interpBlock fs) rest 0 :=
  blockLoop_ser fs _ _ rest hv (Nat.le_refl _)

/-! ### Presence -/

theorem presenceLoop_unk_tag (u : Unk) (h : u.Valid presenceKnown) :
    u.num * 8 + u.wt ≠ 10 ∧ u.num * 8 + u.wt ≠ 16 := by
  obtain ⟨_, _, h3, _⟩ := h
  cases u <;> simp [Unk.num, Unk.wt, presenceKnown] at h3 ⊢ <;> omega

theorem presenceLoop_step (fuel : Nat) (e : Presence) (f : PresenceFld) (tail : List Nat) (n : Nat)
    (hv : f.Valid) (hn : (PresenceFld.ser f).length ≤ n) :
    presenceLoop (fuel + 1) e (PresenceFld.ser f ++ tail) n
      = presenceLoop fuel (PresenceFld.apply e f) tail (n - (PresenceFld.ser f).length) := by
  cases f with
  | cid bs =>
    have hs : PresenceFld.ser (.cid bs) = 10 :: (Varint.enc bs.length ++ bs) := by
      simp [PresenceFld.ser, uvar_eq_enc', enc_lt]
    rw [hs] at hn ⊢
    simp at hn
    rw [presenceLoop, if_neg (by omega)]
    simp only [List.cons_append, List.append_assoc]
    rw [readTag1 10 (by omega) _ _ (by omega)]
    simp only [if_true]
    rw [readBytes_enc bs hv.1 tail _ (by omega)]
    simp only [PresenceFld.apply, List.length_cons, List.length_append]
    congr 1; omega
  | type v =>
    have hs : PresenceFld.ser (.type v) = 16 :: Varint.enc v := by
      simp [PresenceFld.ser, uvar_eq_enc', enc_lt]
    rw [hs] at hn ⊢
    simp at hn
    rw [presenceLoop, if_neg (by omega)]
    simp only [List.cons_append]
    rw [readTag1 16 (by omega) _ _ (by omega)]
    simp only [show (16 : Nat) ≠ 10 by decide, if_false, if_true]
    rw [readVarint32_enc v (i32wire_lt hv) tail _ (by omega)]
    simp only [PresenceFld.apply, List.length_cons, enum01_wire v hv]
    congr 1; omega
  | unk u =>
    have hv : u.Valid presenceKnown := hv
    have hs : PresenceFld.ser (.unk u) = Varint.enc (u.num * 8 + u.wt) ++ Unk.payload u := unk_ser u
    obtain ⟨k1, k2⟩ := presenceLoop_unk_tag u hv
    have hpos := enc_length_pos (u.num * 8 + u.wt)
    rw [hs] at hn ⊢
    simp at hn
    rw [presenceLoop, if_neg (by omega)]
    simp only [List.append_assoc]
    rw [readTag _ (unk_tag_lt u hv) _ _ (by omega)]
    simp only [if_neg k1, if_neg k2]
    rw [readUnknown_payload u hv tail _ (by omega)]
    simp only [PresenceFld.apply, List.length_append]
    congr 1; omega

theorem serPresence_cons (f : PresenceFld) (fs : List PresenceFld) :
    serPresence (f :: fs) = PresenceFld.ser f ++ serPresence fs := by
  simp [serPresence]

theorem PresenceFld_ser_pos (f : PresenceFld) : 0 < (PresenceFld.ser f).length := by
  cases f <;> simp only [PresenceFld.ser, List.append_assoc] <;>
    first | exact uvar_append_length_pos _ _ | exact unk_ser_pos _

theorem presenceLoop_ser : ∀ (fs : List PresenceFld) (fuel : Nat) (e : Presence) (rest : List Nat),
    (∀ f ∈ fs, f.Valid) → (serPresence fs).length + 1 ≤ fuel →
    presenceLoop fuel e (serPresence fs ++ rest) (serPresence fs).length
      = .ok (fs.foldl PresenceFld.apply e) rest 0 := by
  intro fs
  induction fs with
  | nil =>
    intro fuel e rest _ hf
    obtain ⟨fuel, rfl⟩ : ∃ k, fuel = k + 1 := ⟨fuel - 1, by omega⟩
    simp [serPresence, presenceLoop]
  | cons f fs ih =>
    intro fuel e rest hv hf
    obtain ⟨fuel, rfl⟩ : ∃ k, fuel = k + 1 := ⟨fuel - 1, by omega⟩
    have hpos := PresenceFld_ser_pos f
    rw [serPresence_cons] at hf ⊢
    simp only [List.length_append] at hf ⊢
    rw [List.append_assoc, presenceLoop_step fuel e f _ _ (hv f (by simp)) (by omega)]
    rw [show (PresenceFld.ser f).length + (serPresence fs).length - (PresenceFld.ser f).length
          = (serPresence fs).length by omega]
    rw [ih fuel _ rest (fun g hg => hv g (by simp [hg])) (by omega)]
    rfl

theorem parsePresence_ser (fs : List PresenceFld) (hv : ∀ f ∈ fs, f.Valid) (rest : List Nat) :
    parsePresence (serPresence fs ++ rest) (serPresence fs).length = .ok (interpPresence fs) rest 0 :=
  presenceLoop_ser fs _ _ rest hv (Nat.le_refl _)

/-! ### Wantlist -/

theorem wantlistLoop_unk_tag (u : Unk) (h : u.Valid wantlistKnown) :
    u.num * 8 + u.wt ≠ 10 ∧ u.num * 8 + u.wt ≠ 16 := by
  obtain ⟨_, _, h3, _⟩ := h
  cases u <;> simp [Unk.num, Unk.wt, wantlistKnown] at h3 ⊢ <;> omega

theorem wantlistLoop_step (fuel : Nat) (e : Wantlist) (f : WantlistFld) (tail : List Nat) (n : Nat)
    (hv : f.Valid) (hn : (WantlistFld.ser f).length ≤ n) :
    wantlistLoop (fuel + 1) e (WantlistFld.ser f ++ tail) n
      = wantlistLoop fuel (WantlistFld.apply e f) tail (n - (WantlistFld.ser f).length) := by
  cases f with
  | entry fs =>
    have hs : WantlistFld.ser (.entry fs) = 10 :: (Varint.enc (serEntry fs).length ++ serEntry fs) := by
      simp [WantlistFld.ser, uvar_eq_enc', enc_lt]
    rw [hs] at hn ⊢
    simp at hn
    rw [wantlistLoop, if_neg (by omega)]
    simp only [List.cons_append, List.append_assoc]
    rw [readTag1 10 (by omega) _ _ (by omega)]
    simp only [if_true]
    rw [readNested_enc _ (serEntry fs) tail _ _ hv.2 (by omega) (parseEntry_ser fs hv.1 tail)]
    simp only [WantlistFld.apply, List.length_cons, List.length_append]
    congr 1; omega
  | full v =>
    have hs : WantlistFld.ser (.full v) = 16 :: Varint.enc v := by
      simp [WantlistFld.ser, uvar_eq_enc', enc_lt]
    rw [hs] at hn ⊢
    simp at hn
    rw [wantlistLoop, if_neg (by omega)]
    simp only [List.cons_append]
    rw [readTag1 16 (by omega) _ _ (by omega)]
    simp only [show (16 : Nat) ≠ 10 by decide, if_false, if_true]
    rw [readVarint32_enc v (boolwire_lt hv) tail _ (by omega)]
    simp only [WantlistFld.apply, List.length_cons, bool_wire v hv]
    congr 1; omega
  | unk u =>
    have hv : u.Valid wantlistKnown := hv
    have hs : WantlistFld.ser (.unk u) = Varint.enc (u.num * 8 + u.wt) ++ Unk.payload u := unk_ser u
    obtain ⟨k1, k2⟩ := wantlistLoop_unk_tag u hv
    have hpos := enc_length_pos (u.num * 8 + u.wt)
    rw [hs] at hn ⊢
    simp at hn
    rw [wantlistLoop, if_neg (by omega)]
    simp only [List.append_assoc]
    rw [readTag _ (unk_tag_lt u hv) _ _ (by omega)]
    simp only [if_neg k1, if_neg k2]
    rw [readUnknown_payload u hv tail _ (by omega)]
    simp only [WantlistFld.apply, List.length_append]
    congr 1; omega

theorem serWantlist_cons (f : WantlistFld) (fs : List WantlistFld) :
    serWantlist (f :: fs) = WantlistFld.ser f ++ serWantlist fs := by
  simp [serWantlist]

theorem WantlistFld_ser_pos (f : WantlistFld) : 0 < (WantlistFld.ser f).length := by
  cases f <;> simp only [WantlistFld.ser, List.append_assoc] <;>
    first | exact uvar_append_length_pos _ _ | exact unk_ser_pos _

theorem wantlistLoop_ser : ∀ (fs : List WantlistFld) (fuel : Nat) (e : Wantlist) (rest : List Nat),
    (∀ f ∈ fs, f.Valid) → (serWantlist fs).length + 1 ≤ fuel →
    wantlistLoop fuel e (serWantlist fs ++ rest) (serWantlist fs).length
      = .ok (fs.foldl WantlistFld.apply e) rest 0 := by
  intro fs
  induction fs with
  | nil =>
    intro fuel e rest _ hf
    obtain ⟨fuel, rfl⟩ : ∃ k, fuel = k + 1 := ⟨fuel - 1, by omega⟩
    simp [serWantlist, wantlistLoop]
  | cons f fs ih =>
    intro fuel e rest hv hf
    obtain ⟨fuel, rfl⟩ : ∃ k, fuel = k + 1 := ⟨fuel - 1, by omega⟩
    have hpos := WantlistFld_ser_pos f
    rw [serWantlist_cons] at hf ⊢
    simp only [List.length_append] at hf ⊢
    rw [List.append_assoc, wantlistLoop_step fuel e f _ _ (hv f (by simp)) (by omega)]
    rw [show (WantlistFld.ser f).length + (serWantlist fs).length - (WantlistFld.ser f).length
          = (serWantlist fs).length by omega]
    rw [ih fuel _ rest (fun g hg => hv g (by simp [hg])) (by omega)]
    rfl

theorem parseWantlist_ser (fs : List WantlistFld) (hv : ∀ f ∈ fs, f.Valid) (rest : List Nat) :
    parseWantlist (serWantlist fs ++ rest) (serWantlist fs).length = .ok (interpWantlist fs) rest 0 :=
  wantlistLoop_ser fs _ _ rest hv (Nat.le_refl _)

/-! ### Message -/

theorem messageLoop_unk_tag (u : Unk) (h : u.Valid messageKnown) :
    u.num * 8 + u.wt ≠ 10 ∧ u.num * 8 + u.wt ≠ 26 ∧ u.num * 8 + u.wt ≠ 34 ∧ u.num * 8 + u.wt ≠ 40 := by
  obtain ⟨_, _, h3, _⟩ := h
  cases u <;> simp [Unk.num, Unk.wt, messageKnown] at h3 ⊢ <;> omega

theorem messageLoop_step (fuel : Nat) (e : Message) (f : MsgFld) (tail : List Nat) (n : Nat)
    (hv : f.Valid) (hn : (MsgFld.ser f).length ≤ n) :
    messageLoop (fuel + 1) e (MsgFld.ser f ++ tail) n
      = messageLoop fuel (MsgFld.apply e f) tail (n - (MsgFld.ser f).length) := by
  cases f with
  | wantlist fs =>
    have hs : MsgFld.ser (.wantlist fs) = 10 :: (Varint.enc (serWantlist fs).length ++ serWantlist fs) := by
      simp [MsgFld.ser, uvar_eq_enc', enc_lt]
    rw [hs] at hn ⊢
    simp at hn
    rw [messageLoop, if_neg (by omega)]
    simp only [List.cons_append, List.append_assoc]
    rw [readTag1 10 (by omega) _ _ (by omega)]
    simp only [if_true]
    rw [readNested_enc _ (serWantlist fs) tail _ _ hv.2 (by omega) (parseWantlist_ser fs hv.1 tail)]
    simp only [MsgFld.apply, List.length_cons, List.length_append]
    congr 1; omega
  | payload fs =>
    have hs : MsgFld.ser (.payload fs) = 26 :: (Varint.enc (serBlock fs).length ++ serBlock fs) := by
      simp [MsgFld.ser, uvar_eq_enc', enc_lt]
    rw [hs] at hn ⊢
    simp at hn
    rw [messageLoop, if_neg (by omega)]
    simp only [List.cons_append, List.append_assoc]
    rw [readTag1 26 (by omega) _ _ (by omega)]
    simp only [show (26 : Nat) ≠ 10 by decide, if_false, if_true]
    rw [readNested_enc _ (serBlock fs) tail _ _ hv.2 (by omega) (parseBlock_ser fs hv.1 tail)]
    simp only [MsgFld.apply, List.length_cons, List.length_append]
    congr 1; omega
  | presence fs =>
    have hs : MsgFld.ser (.presence fs) = 34 :: (Varint.enc (serPresence fs).length ++ serPresence fs) := by
      simp [MsgFld.ser, uvar_eq_enc', enc_lt]
    rw [hs] at hn ⊢
    simp at hn
    rw [messageLoop, if_neg (by omega)]
    simp only [List.cons_append, List.append_assoc]
    rw [readTag1 34 (by omega) _ _ (by omega)]
    simp only [show (34 : Nat) ≠ 10 by decide, show (34 : Nat) ≠ 26 by decide, if_false, if_true]
    rw [readNested_enc _ (serPresence fs) tail _ _ hv.2 (by omega) (parsePresence_ser fs hv.1 tail)]
    simp only [MsgFld.apply, List.length_cons, List.length_append]
    congr 1; omega
  | pendingBytes v =>
    have hs : MsgFld.ser (.pendingBytes v) = 40 :: Varint.enc v := by
      simp [MsgFld.ser, uvar_eq_enc', enc_lt]
    rw [hs] at hn ⊢
    simp at hn
    rw [messageLoop, if_neg (by omega)]
    simp only [List.cons_append]
    rw [readTag1 40 (by omega) _ _ (by omega)]
    simp only [show (40 : Nat) ≠ 10 by decide, show (40 : Nat) ≠ 26 by decide, show (40 : Nat) ≠ 34 by decide, if_false, if_true]
    rw [readVarint32_enc v (i32wire_lt hv) tail _ (by omega)]
    simp only [MsgFld.apply, List.length_cons, toI32_wire v hv]
    congr 1; omega
  | unk u =>
    have hv : u.Valid messageKnown := hv
    have hs : MsgFld.ser (.unk u) = Varint.enc (u.num * 8 + u.wt) ++ Unk.payload u := unk_ser u
    obtain ⟨k1, k2, k3, k4⟩ := messageLoop_unk_tag u hv
    have hpos := enc_length_pos (u.num * 8 + u.wt)
    rw [hs] at hn ⊢
    simp at hn
    rw [messageLoop, if_neg (by omega)]
    simp only [List.append_assoc]
    rw [readTag _ (unk_tag_lt u hv) _ _ (by omega)]
    simp only [if_neg k1, if_neg k2, if_neg k3, if_neg k4]
    rw [readUnknown_payload u hv tail _ (by omega)]
    simp only [MsgFld.apply, List.length_append]
    congr 1; omega

theorem serMessage_cons (f : MsgFld) (fs : List MsgFld) :
    serMessage (f :: fs) = MsgFld.ser f ++ serMessage fs := by
  simp [serMessage]

theorem MsgFld_ser_pos (f : MsgFld) : 0 < (MsgFld.ser f).length := by
  cases f <;> simp only [MsgFld.ser, List.append_assoc] <;>
    first | exact uvar_append_length_pos _ _ | exact unk_ser_pos _

theorem messageLoop_ser : ∀ (fs : List MsgFld) (fuel : Nat) (e : Message) (rest : List Nat),
    (∀ f ∈ fs, f.Valid) → (serMessage fs).length + 1 ≤ fuel →
    messageLoop fuel e (serMessage fs ++ rest) (serMessage fs).length
      = .ok (fs.foldl MsgFld.apply e) rest 0 := by
  intro fs
  induction fs with
  | nil =>
    intro fuel e rest _ hf
    obtain ⟨fuel, rfl⟩ : ∃ k, fuel = k + 1 := ⟨fuel - 1, by omega⟩
    simp [serMessage, messageLoop]
  | cons f fs ih =>
    intro fuel e rest hv hf
    obtain ⟨fuel, rfl⟩ : ∃ k, fuel = k + 1 := ⟨fuel - 1, by omega⟩
    have hpos := MsgFld_ser_pos f
    rw [serMessage_cons] at hf ⊢
    simp only [List.length_append] at hf ⊢
    rw [List.append_assoc, messageLoop_step fuel e f _ _ (hv f (by simp)) (by omega)]
    rw [show (MsgFld.ser f).length + (serMessage fs).length - (MsgFld.ser f).length
          = (serMessage fs).length by omega]
    rw [ih fuel _ rest (fun g hg => hv g (by simp [hg])) (by omega)]
    rfl

theorem parseMessage_ser (fs : List MsgFld) (hv : ∀ f ∈ fs, f.Valid) (rest : List Nat) :
    parseMessage (serMessage fs ++ rest) (serMessage fs).length = .ok (interpMessage fs) rest 0 :=
  messageLoop_ser fs _ _ rest hv (Nat.le_refl _)

end Beetswap.Proofs.Codec
