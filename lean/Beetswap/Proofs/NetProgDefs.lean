import Beetswap.Proofs.NetMeasure
import Beetswap.Proofs.NetA
import Beetswap.Proofs.NetB
/-!
Definitions for the progress proof (`settle_quiesces`): the (tiny) invariant of `b`'s own client
half, and the order facts about the lexicographic measure.
-/
namespace Beetswap.Proofs.Net
open Std Beetswap.Net Beetswap.Wl
open Beetswap.Client (PeerSt Sending StoreRes Out TaskSt TaskKind Sys sendFullInterval)

/-- `b`'s own client half: its clock never advances; its only peer `a` (peer 0) is either still
to be sent the initial (empty, full) wantlist, or that hand-over is pending for ever (its
acknowledgement is not modelled; with the clock at 0 it never times out). -/
structure BCInv (s : State) : Prop where
  now0 : s.b.now = 0
  deadline : 0 < s.b.client.deadline
  only0 : ∀ p : Nat, p ≠ 0 → s.b.client.peers[p]? = none
  peers : ∀ (p : Nat) (ps : PeerSt), s.b.client.peers[p]? = some ps → ps.conns.isEmpty = false ∧
    ((ps.sending = .ready ∧ ps.sendFull = true) ∨ ∃ c, ps.sending = .requested 0 c)

/-- node `a` has something to do in a drain -/
def BusyA (s : State) : Prop :=
  s.a.client.runq ≠ [] ∨ s.a.client.queue ≠ [] ∨ (Node.step s.a (.drain [] [])).2.1 ≠ []

/-- node `b` has something to do in a drain -/
def BusyB (s : State) : Prop := s.b.server.runq ≠ [] ∨ bReady s = 1

/-! ### Order facts -/

theorem Meas.le_refl (x : Meas) : x.le x := by
  unfold Meas.le; right; exact ⟨rfl, rfl, rfl, rfl, rfl, rfl, rfl, rfl⟩

theorem Meas.le_of_lt {x y : Meas} (h : x.lt y) : x.le y := Or.inl h

theorem Meas.lt_trans {x y z : Meas} (h1 : x.lt y) (h2 : y.lt z) : x.lt z := by
  unfold Meas.lt at *; omega

theorem Meas.lt_of_lt_of_le {x y z : Meas} (h1 : x.lt y) (h2 : y.le z) : x.lt z := by
  unfold Meas.le at h2
  rcases h2 with h2 | h2
  · exact Meas.lt_trans h1 h2
  · unfold Meas.lt at *; omega

theorem Meas.lt_of_le_of_lt {x y z : Meas} (h1 : x.le y) (h2 : y.lt z) : x.lt z := by
  unfold Meas.le at h1
  rcases h1 with h1 | h1
  · exact Meas.lt_trans h1 h2
  · unfold Meas.lt at *; omega

theorem Meas.le_trans {x y z : Meas} (h1 : x.le y) (h2 : y.le z) : x.le z := by
  rcases h1 with h1 | h1
  · exact Or.inl (Meas.lt_of_lt_of_le h1 h2)
  · rcases h2 with h2 | h2
    · exact Or.inl (Meas.lt_of_le_of_lt (Or.inr h1) h2)
    · right; omega

/-- the lexicographic order as an order on nested pairs -/
def Meas.toLex (x : Meas) : Nat × Nat × Nat × Nat × Nat × Nat × Nat × Nat :=
  (x.c1, x.c2, x.c3, x.c4, x.c5, x.c6, x.c7, x.c8)

theorem wf_lex {α β : Type} {ra : α → α → Prop} {rb : β → β → Prop} (ha : WellFounded ra)
    (hb : WellFounded rb) : WellFounded (Prod.Lex ra rb) :=
  (Prod.lex ⟨ra, ha⟩ ⟨rb, hb⟩).wf

theorem Meas.lt_wf : WellFounded Meas.lt := by
  have hn : WellFounded (fun a b : Nat => a < b) := Nat.lt_wfRel.wf
  have h : WellFounded (fun x y : Meas =>
      (Prod.Lex (fun a b : Nat => a < b) (Prod.Lex (fun a b : Nat => a < b) (Prod.Lex (fun a b : Nat => a < b)
        (Prod.Lex (fun a b : Nat => a < b) (Prod.Lex (fun a b : Nat => a < b) (Prod.Lex (fun a b : Nat => a < b)
        (Prod.Lex (fun a b : Nat => a < b) (fun a b : Nat => a < b)))))))) x.toLex y.toLex) :=
    InvImage.wf _ (wf_lex hn (wf_lex hn (wf_lex hn (wf_lex hn (wf_lex hn (wf_lex hn (wf_lex hn hn)))))))
  apply Subrelation.wf _ h
  intro x y hxy
  unfold Meas.lt at hxy
  simp only [Meas.toLex, Prod.lex_def]
  omega

end Beetswap.Proofs.Net
