import Beetswap.Model.ClientHandlerTimed
import Beetswap.Proofs.Handler
/-!
Proofs about `Model/ClientHandlerTimed`: the client half of the connection handler with its
clock. Used by `Props/C14` and `Props/C05`.
-/
namespace Beetswap.Proofs.HandlerTimed
open Beetswap Beetswap.ClientHandler Beetswap.ClientHandlerTimed

/-! ### Helpers -/

theorem step_h (t : T) (i : TIn) : (step t i).1.h = (ClientHandler.step t.h (untimed t i)).1 := by
  cases i <;> rfl

theorem step_out (t : T) (i : TIn) : (step t i).2 = (ClientHandler.step t.h (untimed t i)).2 := by
  cases i <;> rfl

theorem changeState_timer (h : H) (s : HS) : (changeState h s).timer = h.timer := by
  unfold changeState; split <;> rfl
theorem changeState_msg (h : H) (s : HS) : (changeState h s).msg = h.msg := by
  unfold changeState; split <;> rfl
theorem changeState_closing (h : H) (s : HS) : (changeState h s).closing = h.closing := by
  unfold changeState; split <;> rfl
theorem changeState_halted (h : H) (s : HS) : (changeState h s).halted = h.halted := by
  unfold changeState; split <;> rfl

theorem dropSink_eq {h h' : H} {o : List Out} (e : dropSink h = (h', o)) :
    h' = { h with sink := .none } := by
  unfold dropSink at e; split at e <;> cases e <;> rfl

/-- Without the timer firing, `poll` never halts the handler (any fuel). -/
theorem poll_halted (fuel : Nat) (env : Env) (he : env.timerFired = false) :
    ∀ (h : H) (acc : List Out), (poll fuel h env acc).1.halted = h.halted := by
  induction fuel with
  | zero => intro h acc; rfl
  | succ n ih =>
    intro h acc
    unfold poll
    repeat' split
    all_goals try rfl
    all_goals try (rename_i hd; have := dropSink_eq hd; subst this)
    all_goals first
      | (rename_i hf _ _; simp [he] at hf; done)
      | (rw [ih]; try simp only [changeState_halted])
      | (show (poll n _ env _).1.halted = _; rw [ih]; try simp only [changeState_halted])

/-- Every timed run is a run of `Model/ClientHandler` (with "the timer fired" read off the
clock), so everything proved about that model — in particular `handler_refines_spec` — holds
for the timed handler. -/
theorem timed_is_untimed (t : T) (ins : List TIn) :
    (run t ins).1.h = (ClientHandler.run t.h (untimedRun t ins)).1 ∧
    (run t ins).2 = (ClientHandler.run t.h (untimedRun t ins)).2 := by
  induction ins generalizing t with
  | nil => exact ⟨rfl, rfl⟩
  | cons i is ih =>
    obtain ⟨h1, h2⟩ := ih (step t i).1
    rw [step_h] at h1 h2
    simp only [ClientHandlerTimed.run, untimedRun, ClientHandler.run]
    refine ⟨?_, ?_⟩
    · rw [h1]
    · rw [h2, step_out]

/-- Accepting a wantlist arms the timer for exactly `START_SENDING_TIMEOUT`. -/
theorem accept_arms (t : T) (now w : Nat) (hh : t.h.halted = false) :
    (step t (.sendWantlist now w)).1.h.timer = true ∧
    (step t (.sendWantlist now w)).1.deadline = now + startSendingTimeout ∧
    (step t (.sendWantlist now w)).1.h.msg = some w := by
  simp [ClientHandlerTimed.step, untimed, ClientHandler.step, sendWantlist, hh, changeState_msg]

/-- Nothing else moves the deadline: not a new stream, not a failed negotiation, not a retry. -/
theorem deadline_stable (t : T) (i : TIn) (hi : ∀ now w, i ≠ .sendWantlist now w) :
    (step t i).1.deadline = t.deadline := by
  cases i with
  | sendWantlist now w => exact absurd rfl (hi now w)
  | _ => rfl

/-- While the timer is armed (and the connection is not closing) the wantlist is still waiting
to be sent. -/
def TimerInv (h : H) : Prop :=
  h.timer = true → h.closing = false → h.ss = .requestReceived ∧ h.msg.isSome = true

theorem timerInv_init : TimerInv {} := by
  intro h; cases h

theorem popClose_closing (h : H) : (popClose h).1.closing = h.closing := by
  unfold popClose; split <;> rfl

theorem dropSink_closing (h : H) : (dropSink h).1.closing = h.closing := by
  unfold dropSink; split <;> rfl

theorem beginClose_closing (h : H) : (beginClose h).1.closing = true := by
  unfold beginClose
  split
  · assumption
  · simp only []
    split <;> simp only [changeState_closing, dropSink_closing]

theorem pollClose_closing (h : H) : (ClientHandler.step h .pollClose).1.closing = true := by
  show (popClose (beginClose h).1).1.closing = true
  rw [popClose_closing, beginClose_closing]

/-- `poll` preserves `TimerInv` (any fuel). -/
theorem poll_timerInv (fuel : Nat) (env : Env) :
    ∀ (h : H) (acc : List Out), TimerInv h → TimerInv (poll fuel h env acc).1 := by
  induction fuel with
  | zero => intro h acc hi; exact hi
  | succ n ih =>
    intro h acc hi
    unfold poll
    repeat' split
    all_goals first | exact hi | apply ih
    all_goals try (rename_i hd; have := dropSink_eq hd; subst this)
    all_goals unfold TimerInv at *
    all_goals simp only [changeState_timer, changeState_closing, changeState_msg]
    all_goals intro ht hc
    all_goals first | cases ht | exact hi ht hc | (have := (hi ht hc).2; simp_all)

theorem untimed_step_timerInv (h : H) (i : In) (hinv : TimerInv h) :
    TimerInv (ClientHandler.step h i).1 := by
  cases i with
  | sendWantlist w =>
    simp only [ClientHandler.step, sendWantlist]
    split
    · exact hinv
    · intro _ _
      refine ⟨?_, by simp only [changeState_msg]; rfl⟩
      show (changeState { h with msg := some w } .requestReceived).ss = .requestReceived
      unfold changeState
      split
      · assumption
      · rfl
  | setStream sid =>
    simp only [ClientHandler.step, setStream]
    split <;> exact hinv
  | allocFailed =>
    simp only [ClientHandler.step, allocFailed]
    split <;> exact hinv
  | poll env => exact poll_timerInv pollFuel env h [] hinv
  | pollClose =>
    intro _ hc
    rw [pollClose_closing] at hc
    cases hc

theorem timerInv_step (t : T) (i : TIn) (hinv : TimerInv t.h) : TimerInv (step t i).1.h := by
  rw [step_h]; exact untimed_step_timerInv _ _ hinv

theorem timerInv_run (ins : List TIn) : TimerInv (run {} ins).1.h := by
  suffices ∀ (t : T), TimerInv t.h → TimerInv (run t ins).1.h from this {} timerInv_init
  induction ins with
  | nil => intro t h; exact h
  | cons i is ih =>
    intro t h
    exact ih _ (timerInv_step t i h)

/-- Before the deadline a poll never halts the handler and never reports a failure on account of
the timer: it behaves as the untimed handler whose timer has not fired. -/
theorem no_early_timeout (t : T) (now : Nat) (e : SinkEnv) (hnow : now < t.deadline) :
    (step t (.poll now e)).1.h.halted = t.h.halted ∧
    step t (.poll now e) =
      (let r := ClientHandler.step t.h (.poll { timerFired := false, pollReady := e.pollReady, startSendOk := e.startSendOk, flush := e.flush });
       ({ t with h := r.1 }, r.2)) := by
  have he : envAt t now e = ⟨false, e.pollReady, e.startSendOk, e.flush⟩ := by
    simp [envAt, Nat.not_le.mpr hnow]
  refine ⟨?_, ?_⟩
  · rw [step_h]
    show (poll pollFuel t.h (envAt t now e) []).1.halted = t.h.halted
    exact poll_halted _ _ (by rw [he]) _ _
  · rw [← he]; rfl

/-- The timeout is enforced: a poll at or after the deadline, with the wantlist still not being
sent, reports the transmission failed and halts the connection — however often stream
negotiation was retried in between. -/
theorem timeout_enforced (t : T) (now : Nat) (e : SinkEnv) (hinv : TimerInv t.h)
    (hq : t.h.queue = []) (hh : t.h.halted = false) (hc : t.h.closing = false)
    (ht : t.h.timer = true) (hnow : t.deadline ≤ now) :
    (step t (.poll now e)).1.h.halted = true ∧ (step t (.poll now e)).1.h.msg = none ∧
    Out.report (.state .failed) ∈ (step t (.poll now e)).2 := by
  have hs := (hinv ht hc).1
  have := Handler.timeout_reports_failed_and_halts t.h (envAt t now e) hq hh ht
    (by simp [envAt, hnow]) hs
  rw [step_h, step_out]
  exact this

/-- From acceptance to the deadline: if a wantlist is accepted at `t0`, then after any inputs
that hand over no further wantlist, a poll at a time `≥ t0 + START_SENDING_TIMEOUT` finds the
timer either disarmed (sending started, or failed already, or closing) or fires it now. -/
theorem accepted_then_deadline (t : T) (t0 w : Nat) (hh : t.h.halted = false) (mid : List TIn)
    (hmid : ∀ i ∈ mid, ∀ now w', i ≠ .sendWantlist now w') :
    (run (step t (.sendWantlist t0 w)).1 mid).1.deadline = t0 + startSendingTimeout := by
  have key : ∀ (mid : List TIn) (t' : T), (∀ i ∈ mid, ∀ now w', i ≠ .sendWantlist now w') →
      (ClientHandlerTimed.run t' mid).1.deadline = t'.deadline := by
    intro mid
    induction mid with
    | nil => intro t' _; rfl
    | cons i is ih =>
      intro t' hm
      show (ClientHandlerTimed.run (ClientHandlerTimed.step t' i).1 is).1.deadline = _
      rw [ih _ (fun j hj => hm j (List.mem_cons_of_mem _ hj))]
      exact deadline_stable t' i (hm i (List.mem_cons_self))
  rw [key mid _ hmid]
  exact (accept_arms t t0 w hh).2.1

end Beetswap.Proofs.HandlerTimed
