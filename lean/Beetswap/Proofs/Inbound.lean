import Beetswap.Model.Inbound
/-!
Proofs about `Model/Inbound` (inbound substreams of one connection). Used by `Props/C16`.
-/
namespace Beetswap.Proofs.Inbound
open Beetswap.Inbound

/-! ### One substream: generalised lemmas about the loop -/

theorem pollNext_ended_reason (fuel : Nat) (s : S) (reads : List ReadAns) (procs : List ProcAns) :
    (pollNext fuel s reads procs).2.1 = .ended →
    ReadAns.err ∈ reads ∨ ReadAns.eof ∈ reads ∨ ProcAns.fatal ∈ procs := by
  fun_induction pollNext fuel s reads procs
  case case6 ih =>
    intro h
    rcases ih h with h1 | h1 | h1
    · exact Or.inl h1
    · exact Or.inr (Or.inl h1)
    · exact Or.inr (Or.inr (List.mem_cons_of_mem _ h1))
  case case11 ih =>
    intro h
    rcases ih h with h1 | h1 | h1
    · exact Or.inl (List.mem_cons_of_mem _ h1)
    · exact Or.inr (Or.inl (List.mem_cons_of_mem _ h1))
    · exact Or.inr (Or.inr h1)
  all_goals simp

theorem pollNext_item_origin (fuel : Nat) (s : S) (reads : List ReadAns) (procs : List ProcAns)
    (m : Nat) :
    (pollNext fuel s reads procs).2.1 = .item m → s.proc = some m ∨ ReadAns.msg m ∈ reads := by
  fun_induction pollNext fuel s reads procs
  case case4 hp _ =>
    intro h
    simp only [Res.item.injEq] at h
    left; rw [hp, h]
  case case6 ih =>
    intro h
    rcases ih h with h1 | h1
    · cases h1
    · exact Or.inr h1
  case case11 ih =>
    intro h
    rcases ih h with h1 | h1
    · simp only [Option.some.injEq] at h1
      right; rw [h1]; exact List.mem_cons_self
    · exact Or.inr (List.mem_cons_of_mem _ h1)
  all_goals simp

theorem pollNext_fuel_gen (f1 : Nat) (s : S) (reads : List ReadAns) (procs : List ProcAns) :
    ∀ f2, reads.length + procs.length + 1 ≤ f1 → reads.length + procs.length + 1 ≤ f2 →
      pollNext f1 s reads procs = pollNext f2 s reads procs := by
  fun_induction pollNext f1 s reads procs
  case case1 => intro f2 h1; omega
  case case6 hp _ ih =>
    intro f2 h1 h2
    simp only [List.length_cons] at h1 h2
    obtain ⟨f2, rfl⟩ : ∃ f', f2 = f' + 1 := ⟨f2 - 1, by omega⟩
    conv => rhs; unfold pollNext
    simp only [hp]
    exact ih f2 (by omega) (by omega)
  case case11 hp _ _ ih =>
    intro f2 h1 h2
    simp only [List.length_cons] at h1 h2
    obtain ⟨f2, rfl⟩ : ∃ f', f2 = f' + 1 := ⟨f2 - 1, by omega⟩
    conv => rhs; unfold pollNext
    simp only [hp]
    exact ih f2 (by omega) (by omega)
  all_goals
    intro f2 _ h2
    obtain ⟨f2, rfl⟩ : ∃ f', f2 = f' + 1 := ⟨f2 - 1, by omega⟩
    conv => rhs; unfold pollNext
    simp [*]

/-- A substream ends only for a reason of its own: a decoding / transport error, the end of the
stream, or a message with a fatal error. -/
theorem ended_reason (s : S) (reads : List ReadAns) (procs : List ProcAns)
    (h : (poll s reads procs).2 = .ended) :
    ReadAns.err ∈ reads ∨ ReadAns.eof ∈ reads ∨ ProcAns.fatal ∈ procs :=
  pollNext_ended_reason _ s reads procs h

/-- A message with a fatal error ends its substream … -/
theorem fatal_ends_stream (m : Nat) (reads : List ReadAns) (procs : List ProcAns) :
    (poll { proc := some m } reads (.fatal :: procs)).2 = .ended := by
  simp [poll, pollNext]

/-- … and so does a frame that cannot be decoded. -/
theorem decode_error_ends_stream (reads : List ReadAns) (procs : List ProcAns) :
    (poll { proc := none } (.err :: reads) procs).2 = .ended := by
  simp [poll, pollNext]

/-- A message that is empty after its skippable parts were dropped is not forwarded and does not
end the substream: reading goes on. -/
theorem empty_message_keeps_stream (m : Nat) (reads : List ReadAns) (procs : List ProcAns) :
    poll { proc := some m } reads (.empty :: procs) =
      ((pollNext (reads.length + procs.length + 1) { proc := none } reads procs).1,
       (pollNext (reads.length + procs.length + 1) { proc := none } reads procs).2.1) := by
  have e : reads.length + (ProcAns.empty :: procs).length + 1
      = (reads.length + procs.length + 1) + 1 := by simp only [List.length_cons]; omega
  unfold poll
  rw [e]
  rfl

theorem empty_then_next_message (m m' : Nat) :
    poll { proc := some m } [.msg m'] [.empty, .fwd] = ({ proc := none }, .item m') := by
  simp [poll, pollNext]

/-- What is forwarded is the message being processed or a message read in this call. -/
theorem item_origin (s : S) (reads : List ReadAns) (procs : List ProcAns) (m : Nat)
    (h : (poll s reads procs).2 = .item m) : s.proc = some m ∨ ReadAns.msg m ∈ reads :=
  pollNext_item_origin _ s reads procs m h

/-- The fuel of `poll` is never the reason the loop stops. -/
theorem pollNext_fuel_irrelevant (s : S) (reads : List ReadAns) (procs : List ProcAns) (k : Nat) :
    pollNext (reads.length + procs.length + 1 + k) s reads procs =
      pollNext (reads.length + procs.length + 1) s reads procs :=
  pollNext_fuel_gen _ s reads procs _ (by omega) (Nat.le_refl _)

/-! ### The substreams of one connection -/

def Nodup (ss : Streams) : Prop := (ss.map (·.1)).Nodup

theorem lookup_setS_ne (ss : Streams) (sid k : Nat) (v : S) (hne : sid ≠ k) :
    (setS ss k v).lookup sid = ss.lookup sid := by
  induction ss with
  | nil => rfl
  | cons p ss ih =>
    obtain ⟨k', v'⟩ := p
    simp only [setS, List.map_cons] at ih ⊢
    by_cases hk : k' = k
    · subst hk
      have : (sid == k') = false := by simpa using hne
      simp [List.lookup_cons, this, ih]
    · simp only [hk, if_false, List.lookup_cons, ih]

theorem lookup_setS_self (ss : Streams) (k : Nat) (v : S) :
    (setS ss k v).lookup k = (ss.lookup k).map fun _ => v := by
  induction ss with
  | nil => rfl
  | cons p ss ih =>
    obtain ⟨k', v'⟩ := p
    simp only [setS, List.map_cons] at ih ⊢
    by_cases hk : k' = k
    · subst hk
      simp
    · have : (k == k') = false := by simpa using (Ne.symm hk)
      simp only [hk, if_false, List.lookup_cons, this, ih]

theorem remove_cons (k' : Nat) (v' : S) (ss : Streams) (k : Nat) :
    remove ((k', v') :: ss) k = if k' = k then remove ss k else (k', v') :: remove ss k := by
  unfold remove
  rw [List.filter_cons]
  by_cases h : k' = k <;> simp [h]

theorem lookup_remove_ne (ss : Streams) (sid k : Nat) (hne : sid ≠ k) :
    (remove ss k).lookup sid = ss.lookup sid := by
  induction ss with
  | nil => rfl
  | cons p ss ih =>
    obtain ⟨k', v'⟩ := p
    rw [remove_cons]
    by_cases hk : k' = k
    · subst hk
      have : (sid == k') = false := by simpa using hne
      simp only [if_true, List.lookup_cons, this, ih]
    · simp only [hk, if_false, List.lookup_cons, ih]

theorem lookup_remove_self (ss : Streams) (k : Nat) : (remove ss k).lookup k = none := by
  induction ss with
  | nil => rfl
  | cons p ss ih =>
    obtain ⟨k', v'⟩ := p
    rw [remove_cons]
    by_cases hk : k' = k
    · subst hk
      simp only [if_true, ih]
    · have : (k == k') = false := by simpa using (Ne.symm hk)
      simp only [hk, if_false, List.lookup_cons, this, ih]

theorem lookup_setS_isSome (ss : Streams) (sid k : Nat) (v : S) :
    ((setS ss k v).lookup sid).isSome = (ss.lookup sid).isSome := by
  by_cases h : sid = k
  · subst h; rw [lookup_setS_self]; cases ss.lookup sid <;> rfl
  · rw [lookup_setS_ne _ _ _ _ h]

theorem lookup_remove_isSome (ss : Streams) (sid k : Nat)
    (h : ((remove ss k).lookup sid).isSome = true) : (ss.lookup sid).isSome = true := by
  by_cases hk : sid = k
  · subst hk; rw [lookup_remove_self] at h; cases h
  · rwa [lookup_remove_ne _ _ _ hk] at h

theorem nodup_setS (ss : Streams) (k : Nat) (v : S) (h : Nodup ss) : Nodup (setS ss k v) := by
  have : (setS ss k v).map (·.1) = ss.map (·.1) := by
    simp only [setS, List.map_map]
    apply List.map_congr_left
    intro p _
    simp only [Function.comp]
    split
    · rename_i hk; exact hk.symm
    · rfl
  unfold Nodup
  rw [this]
  exact h

theorem nodup_remove (ss : Streams) (k : Nat) (h : Nodup ss) : Nodup (remove ss k) := by
  unfold Nodup remove
  exact List.Nodup.sublist (List.Sublist.map _ List.filter_sublist) h

/-- Substreams that are not polled are untouched. -/
theorem selectPoll_untouched (ss : Streams) (env : Nat → Env) (order : List Nat) (sid : Nat)
    (h : sid ∉ order) : (selectPoll ss env order).1.lookup sid = ss.lookup sid := by
  revert h
  fun_induction selectPoll ss env order
  case case1 => intro _; rfl
  case case2 ih =>
    intro h
    exact ih (fun hm => h (List.mem_cons_of_mem _ hm))
  case case3 =>
    intro h
    exact lookup_setS_ne _ _ _ _ (fun e => h (by rw [e]; exact List.mem_cons_self))
  case case4 ih =>
    intro h
    rw [ih (fun hm => h (List.mem_cons_of_mem _ hm))]
    exact lookup_remove_ne _ _ _ (fun e => h (by rw [e]; exact List.mem_cons_self))
  case case5 ih =>
    intro h
    rw [ih (fun hm => h (List.mem_cons_of_mem _ hm))]
    exact lookup_setS_ne _ _ _ _ (fun e => h (by rw [e]; exact List.mem_cons_self))

theorem selectPoll_own_gen (ss : Streams) (env : Nat → Env) (order : List Nat) (sid : Nat) (s : S) :
    order.Nodup → ss.lookup sid = some s →
    (selectPoll ss env order).1.lookup sid = some s ∨
    ((poll s (env sid).reads (env sid).procs).2 ≠ .ended ∧
      (selectPoll ss env order).1.lookup sid = some (poll s (env sid).reads (env sid).procs).1) ∨
    ((poll s (env sid).reads (env sid).procs).2 = .ended ∧
      (selectPoll ss env order).1.lookup sid = none) := by
  fun_induction selectPoll ss env order
  case case1 => intro _ hs; exact Or.inl hs
  case case2 ih =>
    intro hord hs
    exact ih (List.nodup_cons.mp hord).2 hs
  case case3 ss env sid' order s0 hl s' m hp =>
    intro hord hs
    by_cases he : sid = sid'
    · subst he
      rw [hl] at hs; cases hs
      right; left
      rw [hp]
      refine ⟨by simp, ?_⟩
      simp only [lookup_setS_self, hl, Option.map_some]
    · left
      simp only [lookup_setS_ne _ _ _ _ he, hs]
  case case4 ss env sid' order s0 hl s' hp ih =>
    intro hord hs
    have hnd := List.nodup_cons.mp hord
    by_cases he : sid = sid'
    · subst he
      rw [hl] at hs; cases hs
      right; right
      rw [hp]
      refine ⟨rfl, ?_⟩
      rw [selectPoll_untouched _ _ _ _ hnd.1, lookup_remove_self]
    · have hle : leftover env sid' (restOf s0 (env sid')) sid = env sid := by simp [leftover, he]
      have := ih hnd.2 (by rw [lookup_remove_ne _ _ _ he]; exact hs)
      rw [hle] at this
      exact this
  case case5 ss env sid' order s0 hl s' hp ih =>
    intro hord hs
    have hnd := List.nodup_cons.mp hord
    by_cases he : sid = sid'
    · subst he
      rw [hl] at hs; cases hs
      right; left
      rw [hp]
      refine ⟨by simp, ?_⟩
      rw [selectPoll_untouched _ _ _ _ hnd.1, lookup_setS_self, hl]
      rfl
    · have hle : leftover env sid' (restOf s0 (env sid')) sid = env sid := by simp [leftover, he]
      have := ih hnd.2 (by rw [lookup_setS_ne _ _ _ _ he]; exact hs)
      rw [hle] at this
      exact this

/-- C16 at the connection level: whatever the other substreams of the connection receive — errors,
fatal messages, ends — a substream is either untouched, or advanced by its own answers only; it is
dropped only if *its own* `poll_next` ended. -/
theorem selectPoll_own_answers_only (ss : Streams) (hnd : Nodup ss) (env : Nat → Env)
    (order : List Nat) (hord : order.Nodup) (sid : Nat) (s : S) (hs : ss.lookup sid = some s) :
    (selectPoll ss env order).1.lookup sid = some s ∨
    ((poll s (env sid).reads (env sid).procs).2 ≠ .ended ∧
      (selectPoll ss env order).1.lookup sid = some (poll s (env sid).reads (env sid).procs).1) ∨
    ((poll s (env sid).reads (env sid).procs).2 = .ended ∧
      (selectPoll ss env order).1.lookup sid = none) := by
  have _ := hnd
  exact selectPoll_own_gen ss env order sid s hord hs

/-- … in particular a substream disappears only because of its own error / end / fatal message. -/
theorem dropped_only_by_own_fault (ss : Streams) (hnd : Nodup ss) (env : Nat → Env)
    (order : List Nat) (hord : order.Nodup) (sid : Nat) (s : S) (hs : ss.lookup sid = some s)
    (hgone : (selectPoll ss env order).1.lookup sid = none) :
    ReadAns.err ∈ (env sid).reads ∨ ReadAns.eof ∈ (env sid).reads ∨ ProcAns.fatal ∈ (env sid).procs := by
  have _ := hnd
  rcases selectPoll_own_gen ss env order sid s hord hs with h | ⟨_, h⟩ | ⟨h, _⟩
  · rw [hgone] at h; cases h
  · rw [hgone] at h; cases h
  · exact ended_reason _ _ _ h

/-- No substream is invented, ids stay distinct. -/
theorem selectPoll_nodup (ss : Streams) (hnd : Nodup ss) (env : Nat → Env) (order : List Nat) :
    Nodup (selectPoll ss env order).1 ∧
    ∀ sid, ((selectPoll ss env order).1.lookup sid).isSome → (ss.lookup sid).isSome := by
  revert hnd
  fun_induction selectPoll ss env order
  case case1 => intro hnd; exact ⟨hnd, fun _ h => h⟩
  case case2 ih => exact ih
  case case3 =>
    intro hnd
    exact ⟨nodup_setS _ _ _ hnd, fun sid h => by rwa [lookup_setS_isSome] at h⟩
  case case4 ih =>
    intro hnd
    have := ih (nodup_remove _ _ hnd)
    exact ⟨this.1, fun sid h => lookup_remove_isSome _ _ _ (this.2 sid h)⟩
  case case5 ih =>
    intro hnd
    have := ih (nodup_setS _ _ _ hnd)
    exact ⟨this.1, fun sid h => by have := this.2 sid h; rwa [lookup_setS_isSome] at this⟩

theorem selectPoll_item_gen (ss : Streams) (env : Nat → Env) (order : List Nat) (sid m : Nat) :
    order.Nodup → (selectPoll ss env order).2 = some (sid, m) →
    sid ∈ order ∧ ∃ s, ss.lookup sid = some s ∧
      (poll s (env sid).reads (env sid).procs).2 = .item m := by
  fun_induction selectPoll ss env order
  case case1 => intro _ h; cases h
  case case2 ih =>
    intro hord h
    obtain ⟨h1, h2⟩ := ih (List.nodup_cons.mp hord).2 h
    exact ⟨List.mem_cons_of_mem _ h1, h2⟩
  case case3 ss env sid' order s0 hl s' m' hp =>
    intro _ h
    simp only [Option.some.injEq, Prod.mk.injEq] at h
    obtain ⟨rfl, rfl⟩ := h
    exact ⟨List.mem_cons_self, s0, hl, by rw [hp]⟩
  case case4 ss env sid' order s0 hl s' hp ih =>
    intro hord h
    have hnd := List.nodup_cons.mp hord
    obtain ⟨h1, s, h2, h3⟩ := ih hnd.2 h
    have hne : sid ≠ sid' := fun e => hnd.1 (e ▸ h1)
    rw [lookup_remove_ne _ _ _ hne] at h2
    have hle : leftover env sid' (restOf s0 (env sid')) sid = env sid := by simp [leftover, hne]
    rw [hle] at h3
    exact ⟨List.mem_cons_of_mem _ h1, s, h2, h3⟩
  case case5 ss env sid' order s0 hl s' hp ih =>
    intro hord h
    have hnd := List.nodup_cons.mp hord
    obtain ⟨h1, s, h2, h3⟩ := ih hnd.2 h
    have hne : sid ≠ sid' := fun e => hnd.1 (e ▸ h1)
    rw [lookup_setS_ne _ _ _ _ hne] at h2
    have hle : leftover env sid' (restOf s0 (env sid')) sid = env sid := by simp [leftover, hne]
    rw [hle] at h3
    exact ⟨List.mem_cons_of_mem _ h1, s, h2, h3⟩

/-- The forwarded message comes from a polled, existing substream and is what that substream's own
`poll_next` returned. -/
theorem selectPoll_item (ss : Streams) (hnd : Nodup ss) (env : Nat → Env) (order : List Nat)
    (hord : order.Nodup) (sid m : Nat) (h : (selectPoll ss env order).2 = some (sid, m)) :
    sid ∈ order ∧ ∃ s, ss.lookup sid = some s ∧
      (poll s (env sid).reads (env sid).procs).2 = .item m := by
  have _ := hnd
  exact selectPoll_item_gen ss env order sid m hord h

/-- A dropped substream never forwards anything again. -/
theorem gone_is_silent (ss : Streams) (env : Nat → Env) (order : List Nat) (sid m : Nat)
    (hgone : ss.lookup sid = none) : (selectPoll ss env order).2 ≠ some (sid, m) := by
  revert hgone
  fun_induction selectPoll ss env order
  case case1 => intro _ h; cases h
  case case2 ih => exact ih
  case case3 ss env sid' order s0 hl s' m' hp =>
    intro hgone h
    simp only [Option.some.injEq, Prod.mk.injEq] at h
    rw [h.1, hgone] at hl
    cases hl
  case case4 ss env sid' order s0 hl s' hp ih =>
    intro hgone
    apply ih
    by_cases he : sid = sid'
    · subst he; exact lookup_remove_self _ _
    · rw [lookup_remove_ne _ _ _ he]; exact hgone
  case case5 ss env sid' order s0 hl s' hp ih =>
    intro hgone
    apply ih
    by_cases he : sid = sid'
    · subst he; rw [lookup_setS_self, hgone]; rfl
    · rw [lookup_setS_ne _ _ _ _ he]; exact hgone

/-! ### A substream polled several times in one call (it woke itself) -/

/-- a poll consumes answers from the front: what it leaves are suffixes of what it was given -/
theorem pollNext_suffix (fuel : Nat) (s : S) (reads : List ReadAns) (procs : List ProcAns) :
    (pollNext fuel s reads procs).2.2.1 <:+ reads ∧ (pollNext fuel s reads procs).2.2.2 <:+ procs := by
  fun_induction pollNext fuel s reads procs
  all_goals first
    | exact ⟨List.suffix_refl _, List.suffix_refl _⟩
    | exact ⟨List.suffix_refl _, List.suffix_cons _ _⟩
    | exact ⟨List.suffix_cons _ _, List.suffix_refl _⟩
    | (rename_i ih; exact ⟨ih.1, ih.2.trans (List.suffix_cons _ _)⟩)
    | (rename_i ih; exact ⟨ih.1.trans (List.suffix_cons _ _), ih.2⟩)

theorem restOf_sub (s : S) (e : Env) :
    (∀ a, a ∈ (restOf s e).reads → a ∈ e.reads) ∧ (∀ a, a ∈ (restOf s e).procs → a ∈ e.procs) := by
  have h := pollNext_suffix (e.reads.length + e.procs.length + 1) s e.reads e.procs
  exact ⟨fun a ha => h.1.subset ha, fun a ha => h.2.subset ha⟩

/-- C16 at the connection level without the assumption that each substream is polled once: however
often `SelectAll` presents the substreams in one call (a substream whose processing future wakes
itself is presented again), a substream disappears only because one of *its own* answers was a
decoding error, the end of the stream or a message with a fatal error. -/
theorem dropped_only_by_own_fault_any (ss : Streams) (env : Nat → Env) (order : List Nat) (sid : Nat) :
    ∀ s, ss.lookup sid = some s → (selectPoll ss env order).1.lookup sid = none →
    ReadAns.err ∈ (env sid).reads ∨ ReadAns.eof ∈ (env sid).reads ∨ ProcAns.fatal ∈ (env sid).procs := by
  fun_induction selectPoll ss env order
  case case1 => intro s hs hg; rw [hs] at hg; cases hg
  case case2 ih => exact ih
  case case3 ss env sid' order s0 hl s' m hp =>
    intro s hs hg
    by_cases he : sid = sid'
    · subst he; rw [lookup_setS_self, hs] at hg; cases hg
    · rw [lookup_setS_ne _ _ _ _ he, hs] at hg; cases hg
  case case4 ss env sid' order s0 hl s' hp ih =>
    intro s hs hg
    by_cases he : sid = sid'
    · subst he
      rw [hl] at hs; cases hs
      exact ended_reason s0 _ _ (by rw [hp])
    · have hle : leftover env sid' (restOf s0 (env sid')) sid = env sid := by simp [leftover, he]
      have := ih s (by rw [lookup_remove_ne _ _ _ he]; exact hs) hg
      rw [hle] at this
      exact this
  case case5 ss env sid' order s0 hl s' hp ih =>
    intro s hs hg
    by_cases he : sid = sid'
    · subst he
      have hle : leftover env sid (restOf s0 (env sid)) sid = restOf s0 (env sid) := by simp [leftover]
      have := ih s' (by rw [lookup_setS_self, hl]; rfl) hg
      rw [hle] at this
      obtain ⟨h1, h2⟩ := restOf_sub s0 (env sid)
      rcases this with h | h | h
      · exact Or.inl (h1 _ h)
      · exact Or.inr (Or.inl (h1 _ h))
      · exact Or.inr (Or.inr (h2 _ h))
    · have hle : leftover env sid' (restOf s0 (env sid')) sid = env sid := by simp [leftover, he]
      have := ih s (by rw [lookup_setS_ne _ _ _ _ he]; exact hs) hg
      rw [hle] at this
      exact this

/-- … and whatever is forwarded comes from a substream that exists and was polled in this call. -/
theorem selectPoll_item_any (ss : Streams) (env : Nat → Env) (order : List Nat) (sid m : Nat) :
    (selectPoll ss env order).2 = some (sid, m) → sid ∈ order ∧ (ss.lookup sid).isSome = true := by
  fun_induction selectPoll ss env order
  case case1 => intro h; cases h
  case case2 ih =>
    intro h
    obtain ⟨h1, h2⟩ := ih h
    exact ⟨List.mem_cons_of_mem _ h1, h2⟩
  case case3 ss env sid' order s0 hl s' m' hp =>
    intro h
    simp only [Option.some.injEq, Prod.mk.injEq] at h
    obtain ⟨rfl, rfl⟩ := h
    exact ⟨List.mem_cons_self, by rw [hl]; rfl⟩
  case case4 ss env sid' order s0 hl s' hp ih =>
    intro h
    obtain ⟨h1, h2⟩ := ih h
    refine ⟨List.mem_cons_of_mem _ h1, ?_⟩
    by_cases he : sid = sid'
    · subst he; rw [lookup_remove_self] at h2; cases h2
    · rw [lookup_remove_ne _ _ _ he] at h2; exact h2
  case case5 ss env sid' order s0 hl s' hp ih =>
    intro h
    obtain ⟨h1, h2⟩ := ih h
    refine ⟨List.mem_cons_of_mem _ h1, ?_⟩
    by_cases he : sid = sid'
    · subst he; rw [hl]; rfl
    · rw [lookup_setS_ne _ _ _ _ he] at h2; exact h2

end Beetswap.Proofs.Inbound
