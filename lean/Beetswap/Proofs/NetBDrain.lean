import Beetswap.Proofs.NetBInv
/-!
Helpers for `Proofs/NetB.lean`, part 3: `Server.drain` (with no observed lookup order) against `MInv`.
-/
namespace Beetswap.Proofs.Net
open Std Beetswap.Net Beetswap.Wl
open Beetswap.Client (PeerSt Sending StoreRes Out TaskSt TaskKind Sys sendFullInterval)
open Beetswap.Server (Task LookupSt)
open Beetswap.Spec.ServerSpec (Inv Wants)
open Beetswap.Proofs.Server (uhStep uhInner Batches sentB KeysNodup UHRes wlist)

theorem mem_rec_iff (sv : Server.State) (p k : Nat) :
    k ∈ (sv.wl[p]?).getD ∅ ↔ Wants sv p k := by
  unfold Wants
  cases sv.wl[p]? with
  | none => simp
  | some set => simp

/-! ### what `updateHandlers` leaves alone -/

/-- the fields `updateHandlers` does not touch -/
def UFrame (s s' : Server.State) : Prop :=
  s'.tasks = s.tasks ∧ s'.runq = s.runq ∧ s'.nextTask = s.nextTask ∧ s'.outq = s.outq ∧
  ∀ q : Nat, (s'.wl[q]?).isSome = (s.wl[q]?).isSome

theorem UFrame.refl (s : Server.State) : UFrame s s := ⟨rfl, rfl, rfl, rfl, fun _ => rfl⟩

theorem UFrame.trans {s s' s'' : Server.State} (h : UFrame s s') (h' : UFrame s' s'') :
    UFrame s s'' :=
  ⟨h'.1.trans h.1, h'.2.1.trans h.2.1, h'.2.2.1.trans h.2.2.1, h'.2.2.2.1.trans h.2.2.2.1,
   fun q => (h'.2.2.2.2 q).trans (h.2.2.2.2 q)⟩

theorem uhInner_frame (k : Nat) (kd : Nat × Nat) (acc : Server.State × Batches) (p : Nat) :
    UFrame acc.1 (uhInner k kd acc p).1 := by
  refine ⟨rfl, rfl, rfl, rfl, ?_⟩
  intro q
  rw [Server.uhInner_wl_get]
  split
  · rename_i h; subst h; cases acc.1.wl[q]? <;> rfl
  · rfl

theorem uhInner_fold_frame (k : Nat) (kd : Nat × Nat) (ps : List Nat)
    (acc : Server.State × Batches) : UFrame acc.1 (ps.foldl (uhInner k kd) acc).1 := by
  induction ps generalizing acc with
  | nil => exact UFrame.refl _
  | cons p ps ih => exact (uhInner_frame k kd acc p).trans (ih _)

theorem uhStep_frame (acc : Server.State × Batches) (kd : Nat × Nat) :
    UFrame acc.1 (uhStep acc kd).1 := by
  unfold uhStep
  split
  · exact UFrame.refl _
  · exact UFrame.trans (s' := { acc.1 with waiting := acc.1.waiting.erase kd.1 })
      ⟨rfl, rfl, rfl, rfl, fun _ => rfl⟩ (uhInner_fold_frame _ _ _ _)

theorem uh_fold_frame (l : List (Nat × Nat)) (acc : Server.State × Batches) :
    UFrame acc.1 (l.foldl uhStep acc).1 := by
  induction l generalizing acc with
  | nil => exact UFrame.refl _
  | cons kd l ih => exact (uhStep_frame acc kd).trans (ih _)

/-! ### a want that `updateHandlers` forgets was served -/

theorem mem_sentB {b : Batches} {q : Nat} {x : Nat × Nat} :
    x ∈ sentB b q ↔ ∃ e ∈ b, e.1 = q ∧ x ∈ e.2 := by
  unfold sentB
  simp only [List.mem_flatten, List.mem_filterMap]
  constructor
  · rintro ⟨l, ⟨e, he, hl⟩, hx⟩
    split at hl
    · rename_i hq; cases hl; exact ⟨e, he, hq, hx⟩
    · cases hl
  · rintro ⟨e, he, hq, hx⟩
    exact ⟨e.2, ⟨e, he, by simp [hq]⟩, hx⟩

theorem uh_lost (l : List (Nat × Nat)) (st : Server.State) (b : Batches) (h : Inv st)
    (hb : KeysNodup b) (q k : Nat) (hw : Wants st q k)
    (hn : ¬ Wants (l.foldl uhStep (st, b)).1 q k) :
    ∃ d, (k, d) ∈ sentB (l.foldl uhStep (st, b)).2 q := by
  induction l generalizing st b with
  | nil => exact absurd hw hn
  | cons kd l ih =>
    obtain ⟨s1, s2, s3, s4⟩ := Server.uhStep_spec st b kd h hb
    have hfold : (kd :: l).foldl uhStep (st, b) =
        l.foldl uhStep ((uhStep (st, b) kd).1, (uhStep (st, b) kd).2) := rfl
    rw [hfold] at hn ⊢
    by_cases hw1 : Wants (uhStep (st, b) kd).1 q k
    · exact ih _ _ s1 s2 hw1 hn
    · have hk : k = kd.1 := by
        by_cases e : k = kd.1
        · exact e
        · exact absurd ((s4 q k).2 ⟨hw, e⟩) hw1
      have hq : q ∈ wlist st kd.1 := by
        rw [((Server.inv_iff st).1 h).1, ← hk]; exact hw
      have hm : kd ∈ sentB (uhStep (st, b) kd).2 q := by
        rw [s3, if_pos hq]; simp
      refine ⟨kd.2, ?_⟩
      have := (Server.uh_fold_spec l _ _ s1 s2).sent_mono q kd hm
      rw [hk]
      exact this

/-! ### outputs -/

theorem filterMap_calls_blocks (b : Batches) :
    (b.map (fun e => Out.blocks e.1 e.2)).filterMap outCalls = [] := by
  rw [List.filterMap_eq_nil_iff]
  intro o ho
  rw [List.mem_map] at ho
  obtain ⟨e, _, rfl⟩ := ho
  rfl

theorem filterMap_blocks_blocks (b : Batches) :
    (b.map (fun e => Out.blocks e.1 e.2)).filterMap outBlocks = b.map (·.2) := by
  induction b with
  | nil => rfl
  | cons e b ih => simp [outBlocks, ih]

theorem filterMap_blocks_calls (l : List Out) (h : ∀ o ∈ l, ∃ a b, o = Out.callGet a b) :
    l.filterMap outBlocks = [] := by
  rw [List.filterMap_eq_nil_iff]
  intro o ho
  obtain ⟨a, b, rfl⟩ := h o ho
  rfl

/-! ### `Server.drain` -/

theorem server_drain_minv {store : KMap Nat} {sv : Server.State} {seq : Nat}
    {calls : List (Nat × Nat)} (hi : Inv sv)
    (h : MInv store ((sv.wl[0]?).getD ∅) sv seq calls sv.runq) :
    MInv store (((Server.drain sv seq (fun _ => none)).1.wl[0]?).getD ∅)
      (Server.drain sv seq (fun _ => none)).1 (Server.drain sv seq (fun _ => none)).2.1
      (calls ++ (Server.drain sv seq (fun _ => none)).2.2.filterMap outCalls)
      (Server.drain sv seq (fun _ => none)).1.runq ∧
    (Server.drain sv seq (fun _ => none)).1.outq = [] ∧
    (∀ q : Nat, ((Server.drain sv seq (fun _ => none)).1.wl[q]?).isSome = (sv.wl[q]?).isSome) ∧
    (∀ k, k ∈ ((Server.drain sv seq (fun _ => none)).1.wl[0]?).getD ∅ → k ∈ (sv.wl[0]?).getD ∅) ∧
    (∀ bs ∈ (Server.drain sv seq (fun _ => none)).2.2.filterMap outBlocks, ∀ kd ∈ bs,
      store[kd.1]? = some kd.2) ∧
    (∀ k, k ∈ (sv.wl[0]?).getD ∅ → k ∉ ((Server.drain sv seq (fun _ => none)).1.wl[0]?).getD ∅ →
      ∃ bs ∈ (Server.drain sv seq (fun _ => none)).2.2.filterMap outBlocks, ∃ d, (k, d) ∈ bs) := by
  have h0 : MInv store ((sv.wl[0]?).getD ∅) { sv with evq := [], runq := [] } seq calls sv.runq :=
    h.change rfl rfl h.outq_ok (fun k hk d hd => ⟨hk, id⟩)
  obtain ⟨m1, m2, m3⟩ := pollTasks_minv sv.runq _ seq calls h0
  have hr := Server.pollTasks_rel sv.runq { sv with evq := [], runq := [] } seq (fun _ => none)
  rw [Server.drain_eq]
  generalize Server.pollTasks { sv with evq := [], runq := [] } seq (fun _ => none) sv.runq = r1
    at m1 m2 m3 hr
  dsimp only
  rw [Server.updateHandlers_eq]
  dsimp only
  have hmid : Inv r1.1 := by
    apply Server.inv_congr (s := sv) hr.wl hr.waiting _ hi
    rw [hr.evq]; exact hi.evq_nil.symm
  have hmid' : Inv { r1.1 with outq := [] } := Server.inv_congr (s := r1.1) rfl rfl rfl hmid
  have hk0 : KeysNodup ([] : Batches) := by simp [KeysNodup]
  have U := Server.uh_fold_spec r1.1.outq { r1.1 with outq := [] } [] hmid' hk0
  have F := uh_fold_frame r1.1.outq ({ r1.1 with outq := [] }, [])
  have L := uh_lost r1.1.outq { r1.1 with outq := [] } [] hmid' hk0
  generalize r1.1.outq.foldl uhStep ({ r1.1 with outq := [] }, []) = r2 at U F L
  obtain ⟨f1, f2, f3, f4, f5⟩ := F
  dsimp only at f1 f2 f3 f4 f5
  -- wants before the drain and in the middle of it
  have hwmid : ∀ k, Wants { r1.1 with outq := [] } 0 k ↔ k ∈ (sv.wl[0]?).getD ∅ := by
    intro k
    rw [mem_rec_iff]
    unfold Wants
    show (∃ set, r1.1.wl[0]? = some set ∧ k ∈ set) ↔ (∃ set, sv.wl[0]? = some set ∧ k ∈ set)
    rw [hr.wl]
  have hsub : ∀ k, k ∈ (r2.1.wl[0]?).getD ∅ → k ∈ (sv.wl[0]?).getD ∅ := by
    intro k hk
    rw [mem_rec_iff] at hk
    exact (hwmid k).1 (U.wants_sub 0 k hk)
  -- outputs
  have hcalls : (sv.evq ++ r1.2.2 ++ r2.2.map (fun e => Out.blocks e.1 e.2)).filterMap outCalls =
      r1.2.2.filterMap outCalls := by
    rw [hi.evq_nil, List.nil_append, List.filterMap_append, filterMap_calls_blocks,
      List.append_nil]
  have hblocks : (sv.evq ++ r1.2.2 ++ r2.2.map (fun e => Out.blocks e.1 e.2)).filterMap outBlocks =
      r2.2.map (·.2) := by
    rw [hi.evq_nil, List.nil_append, List.filterMap_append, filterMap_blocks_blocks,
      filterMap_blocks_calls _ hr.outs, List.nil_append]
  rw [hcalls, hblocks]
  refine ⟨?_, f4, ?_, hsub, ?_, ?_⟩
  · rw [f2, m3]
    refine m1.change f1 f3 (by rw [f4]; simp) ?_
    intro k hk d hd
    refine ⟨hsub k hk, ?_⟩
    intro hq
    exfalso
    rw [mem_rec_iff] at hk
    obtain ⟨d', hd'⟩ := U.disp 0 k d hq ((hwmid k).2 (hsub k ((mem_rec_iff _ _ _).2 hk)))
    rcases U.sent 0 k d' hd' with hs | ⟨_, _, hnw⟩
    · simp [Server.sentB_nil] at hs
    · exact hnw hk
  · intro q
    rw [f5 q]
    show (r1.1.wl[q]?).isSome = _
    rw [hr.wl]
  · intro bs hbs kd hkd
    rw [List.mem_map] at hbs
    obtain ⟨e, he, rfl⟩ := hbs
    have hs : kd ∈ sentB r2.2 e.1 := mem_sentB.2 ⟨e, he, rfl, hkd⟩
    obtain ⟨k, d⟩ := kd
    rcases U.sent e.1 k d hs with hs | ⟨hl, _, _⟩
    · simp [Server.sentB_nil] at hs
    · exact m1.outq_ok _ hl
  · intro k hk hnk
    rw [mem_rec_iff] at hnk
    obtain ⟨d, hd⟩ := L 0 k ((hwmid k).2 hk) hnk
    obtain ⟨e, he, _, hx⟩ := mem_sentB.1 hd
    exact ⟨e.2, List.mem_map.2 ⟨e, he, rfl⟩, d, hx⟩

end Beetswap.Proofs.Net
