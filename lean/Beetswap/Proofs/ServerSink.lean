import Beetswap.Model.ServerSink
import Beetswap.Proofs.Pack
/-!
Proofs about `Model/ServerSink` (the server half of the connection handler): what happens to the
blocks the behaviour hands to a connection. Used by `Props/C06`, `Props/C07`, `Props/C09`.
-/
namespace Beetswap.Proofs.ServerSink
open Beetswap Beetswap.Proto Beetswap.Frame Beetswap.ServerHandler Beetswap.ServerSink

def pendingOf (h : H) : List Block := h.pending.getD []

/-! ### Helpers -/

theorem takenOf_append (a b : List Out) : takenOf (a ++ b) = takenOf a ++ takenOf b := by
  induction a with
  | nil => rfl
  | cons o os ih => cases o <;> simp [takenOf, ih]

theorem writtenOf_append (a b : List Out) : writtenOf (a ++ b) = writtenOf a ++ writtenOf b := by
  induction a with
  | nil => rfl
  | cons o os ih => cases o <;> simp [writtenOf, ih]

theorem droppedOf_append (a b : List Out) : droppedOf (a ++ b) = droppedOf a ++ droppedOf b := by
  induction a with
  | nil => rfl
  | cons o os ih => cases o <;> simp [droppedOf, ih]

theorem pendingOf_pend (rest : List Block) (s : Sink) :
    pendingOf { pending := if rest.isEmpty then none else some rest, sink := s } = rest := by
  cases rest <;> simp [pendingOf]

theorem packNext_eq_concat {p : List Block} {m : Message} {rest : List Block}
    (h : packNext p = (m, rest)) : m.payload ++ rest = p := by
  have := Pack.packNext_concat p
  rw [h] at this
  exact this

theorem run_cons (h : H) (i : In) (is : List In) :
    run h (i :: is) = ((run (step h i).1 is).1, (step h i).2 ++ (run (step h i).1 is).2) := rfl

theorem queuedOf_cons (i : In) (is : List In) : queuedOf (i :: is) = queuedOf [i] ++ queuedOf is := by
  cases i <;> simp [queuedOf]

/-- the outputs of `step` for a `poll`, in terms of the loop -/
theorem step_poll (h : H) (env : List Ans) :
    step h (.poll env) = ((pollLoop (pollFuel h) h env []).1,
      (pollLoop (pollFuel h) h env []).2.2 ++
        (match (pollLoop (pollFuel h) h env []).2.1 with
          | .openSubstream => [Out.openSubstream]
          | .pending => [])) := rfl

/-! ### Conservation -/

theorem pollLoop_conservation (fuel : Nat) (h : H) (env : List Ans) (acc : List Out) :
    takenOf (pollLoop fuel h env acc).2.2 ++ pendingOf (pollLoop fuel h env acc).1
      = takenOf acc ++ pendingOf h := by
  fun_induction pollLoop fuel h env acc
  case case9 ih => rw [ih]; simp [takenOf_append, takenOf, pendingOf]
  case case10 hp _ _ _ _ _ hpk pend _ ih =>
    rw [ih, pendingOf_pend]
    simp [takenOf_append, takenOf, pendingOf, hp, packNext_eq_concat hpk]
  case case11 hp _ _ _ _ _ hpk pend _ ih =>
    rw [ih, pendingOf_pend]
    simp [takenOf_append, takenOf, pendingOf, hp, packNext_eq_concat hpk]
  all_goals simp [takenOf_append, takenOf, pendingOf]

theorem step_conservation (h : H) (i : In) :
    takenOf (step h i).2 ++ pendingOf (step h i).1 = pendingOf h ++ queuedOf [i] := by
  cases i with
  | queue bs => simp [step, queue, takenOf, pendingOf, queuedOf]
  | setStream sid => simp [step, setStream, takenOf, pendingOf, queuedOf]
  | allocFailed => simp [step, allocFailed, takenOf, pendingOf, queuedOf]
  | poll env =>
    have := pollLoop_conservation (pollFuel h) h env []
    rw [step_poll]
    simp only [queuedOf, List.append_nil]
    cases hr : (pollLoop (pollFuel h) h env []).2.1 <;>
      simpa [takenOf_append, takenOf, hr] using this

/-- Conservation: at any point of any run, with any behaviour of the sink, the blocks taken out
of the pending list so far (in the order taken) followed by the blocks still pending are exactly
the blocks that were pending at the start followed by the blocks handed over since, in order:
nothing is duplicated, reordered or invented, and a block leaves the handler only inside a frame
that was written or whose `start_send` failed. -/
theorem run_conservation (h : H) (ins : List In) :
    takenOf (run h ins).2 ++ pendingOf (run h ins).1 = pendingOf h ++ queuedOf ins := by
  induction ins generalizing h with
  | nil => simp [ServerSink.run, takenOf, queuedOf]
  | cons i is ih =>
    rw [run_cons, queuedOf_cons]
    simp only [takenOf_append, List.append_assoc]
    rw [ih, ← List.append_assoc, step_conservation, List.append_assoc]

/-- The written blocks are a subsequence of the taken ones (the others were in dropped frames). -/
theorem written_sublist_taken (os : List Out) : List.Sublist (writtenOf os) (takenOf os) := by
  induction os with
  | nil => exact List.Sublist.refl _
  | cons o os ih =>
    cases o with
    | wrote sid m => exact List.Sublist.append (List.Sublist.refl _) ih
    | dropped m => exact ih.trans (List.sublist_append_right _ _)
    | openSubstream => exact ih
    | closed sid => exact ih

theorem taken_length (os : List Out) :
    (takenOf os).length = (writtenOf os).length + (droppedOf os).length := by
  induction os with
  | nil => rfl
  | cons o os ih =>
    cases o <;> simp only [takenOf, writtenOf, droppedOf, List.length_append, ih] <;> omega

/-! ### No loss without a `start_send` error -/

theorem written_eq_taken_of_dropped_nil (os : List Out) (h : droppedOf os = []) :
    writtenOf os = takenOf os := by
  induction os with
  | nil => rfl
  | cons o os ih =>
    cases o with
    | wrote sid m => simp only [writtenOf, takenOf, droppedOf] at h ⊢; rw [ih h]
    | dropped m =>
      simp only [droppedOf, List.append_eq_nil_iff] at h
      simp only [writtenOf, takenOf, h.1, List.nil_append]
      exact ih h.2
    | openSubstream => exact ih h
    | closed sid => exact ih h

theorem pollLoop_no_drop (fuel : Nat) (h : H) (env : List Ans) (acc : List Out) :
    (∀ a ∈ env, a.sendOk = true) →
    droppedOf (pollLoop fuel h env acc).2.2 = droppedOf acc := by
  fun_induction pollLoop fuel h env acc
  case case9 ih =>
    intro hok
    rw [ih (fun a ha => hok a (List.mem_of_mem_tail ha))]
    simp [droppedOf_append, droppedOf]
  case case10 ih =>
    intro hok
    rw [ih (fun a ha => hok a (List.mem_of_mem_tail ha))]
    simp [droppedOf_append, droppedOf]
  case case11 env _ _ _ _ _ _ a hhead _ _ _ _ _ hno _ =>
    intro hok
    exact absurd (hok a (List.mem_of_head? hhead)) hno
  all_goals intro _; simp [droppedOf_append, droppedOf]

theorem step_no_drop (h : H) (i : In) (hok : ∀ env, i = In.poll env → ∀ a ∈ env, a.sendOk = true) :
    droppedOf (step h i).2 = [] := by
  cases i with
  | queue bs => rfl
  | setStream sid => rfl
  | allocFailed => rfl
  | poll env =>
    have := pollLoop_no_drop (pollFuel h) h env [] (hok env rfl)
    rw [step_poll]
    cases hr : (pollLoop (pollFuel h) h env []).2.1 <;>
      simpa [droppedOf_append, droppedOf, hr] using this

theorem run_no_drop (h : H) (ins : List In)
    (hok : ∀ env, In.poll env ∈ ins → ∀ a ∈ env, a.sendOk = true) :
    droppedOf (run h ins).2 = [] := by
  induction ins generalizing h with
  | nil => rfl
  | cons i is ih =>
    rw [run_cons]
    simp only [droppedOf_append]
    rw [step_no_drop h i (fun env he => hok env (by rw [he]; exact List.mem_cons_self)),
      ih _ (fun env he => hok env (List.mem_cons_of_mem _ he))]
    rfl

/-- Blocks are lost only when `start_send` fails: if the sink accepts every frame, whatever the
flushes answer, every block taken was written. -/
theorem nothing_dropped_without_send_error (h : H) (ins : List In)
    (hok : ∀ env, In.poll env ∈ ins → ∀ a ∈ env, a.sendOk = true) :
    droppedOf (run h ins).2 = [] ∧ writtenOf (run h ins).2 = takenOf (run h ins).2 :=
  ⟨run_no_drop h ins hok, written_eq_taken_of_dropped_nil _ (run_no_drop h ins hok)⟩

/-! ### The frame limit -/

/-- every pending block fits in a frame -/
def Fit (h : H) : Prop := ∀ b ∈ pendingOf h, blockFieldSize b ≤ maxMessageSize

/-- every frame written respects the limit -/
def OutsOk (os : List Out) : Prop := ∀ sid m, Out.wrote sid m ∈ os → sizeMessage m ≤ maxMessageSize

theorem outsOk_append {a b : List Out} (ha : OutsOk a) (hb : OutsOk b) : OutsOk (a ++ b) := by
  intro sid m hm
  rcases List.mem_append.mp hm with hm | hm
  · exact ha sid m hm
  · exact hb sid m hm

theorem pollLoop_within_limit (fuel : Nat) (h : H) (env : List Ans) (acc : List Out) :
    Fit h → OutsOk acc →
    Fit (pollLoop fuel h env acc).1 ∧ OutsOk (pollLoop fuel h env acc).2.2 := by
  fun_induction pollLoop fuel h env acc
  case case4 =>
    intro hf ha
    exact ⟨hf, outsOk_append ha (by intro sid m hm; simp at hm)⟩
  case case9 ih =>
    intro hf ha
    exact ih hf (outsOk_append ha (by intro sid m hm; simp at hm))
  case case10 h env acc fuel p sid hs hp a hhead hfl m rest hpk pend hok ih =>
    intro hf ha
    have hc := packNext_eq_concat hpk
    have hf' : ∀ b ∈ p, blockFieldSize b ≤ maxMessageSize := by
      simpa [Fit, pendingOf, hp] using hf
    have hm : sizeMessage m ≤ maxMessageSize := by
      have := Pack.packNext_within_limit _ hf'
      rwa [hpk] at this
    refine ih ?_ (outsOk_append ha ?_)
    · intro b hb
      rw [pendingOf_pend] at hb
      exact hf' b (by rw [← hc]; exact List.mem_append_right _ hb)
    · intro sid' m' hm'
      simp only [List.mem_singleton, Out.wrote.injEq] at hm'
      rw [hm'.2]; exact hm
  case case11 h env acc fuel p sid hs hp a hhead hfl m rest hpk pend hok ih =>
    intro hf ha
    have hc := packNext_eq_concat hpk
    have hf' : ∀ b ∈ p, blockFieldSize b ≤ maxMessageSize := by
      simpa [Fit, pendingOf, hp] using hf
    refine ih ?_ (outsOk_append ha ?_)
    · intro b hb
      rw [pendingOf_pend] at hb
      exact hf' b (by rw [← hc]; exact List.mem_append_right _ hb)
    · intro sid' m' hm'
      simp at hm'
  all_goals intro hf ha; exact ⟨hf, ha⟩

theorem step_within_limit (h : H) (i : In) (hf : Fit h)
    (hq : ∀ b ∈ queuedOf [i], blockFieldSize b ≤ maxMessageSize) :
    Fit (step h i).1 ∧ OutsOk (step h i).2 := by
  cases i with
  | queue bs =>
    refine ⟨?_, by intro sid m hm; simp [step] at hm⟩
    intro b hb
    simp only [step, queue, pendingOf, Option.getD_some, List.mem_append] at hb
    rcases hb with hb | hb
    · exact hf b hb
    · exact hq b (by simpa [queuedOf] using hb)
  | setStream sid => exact ⟨hf, by intro sid m hm; simp [step] at hm⟩
  | allocFailed => exact ⟨hf, by intro sid m hm; simp [step] at hm⟩
  | poll env =>
    have := pollLoop_within_limit (pollFuel h) h env [] hf (by intro sid m hm; simp at hm)
    rw [step_poll]
    refine ⟨this.1, outsOk_append this.2 ?_⟩
    intro sid m hm
    cases hr : (pollLoop (pollFuel h) h env []).2.1 <;> rw [hr] at hm <;> simp at hm

theorem run_within_limit (h : H) (ins : List In) (hf : Fit h)
    (hq : ∀ b ∈ queuedOf ins, blockFieldSize b ≤ maxMessageSize) : OutsOk (run h ins).2 := by
  induction ins generalizing h with
  | nil => intro sid m hm; simp [ServerSink.run] at hm
  | cons i is ih =>
    rw [run_cons]
    rw [queuedOf_cons] at hq
    have hs := step_within_limit h i hf (fun b hb => hq b (List.mem_append_left _ hb))
    exact outsOk_append hs.2 (ih _ hs.1 (fun b hb => hq b (List.mem_append_right _ hb)))

/-- C09, outbound, at the handler level: every frame written in any run respects the limit,
provided every single queued block fits in a frame. -/
theorem wrote_within_limit (h : H) (ins : List In)
    (hfit : ∀ b ∈ pendingOf h ++ queuedOf ins, blockFieldSize b ≤ maxMessageSize)
    (sid : Nat) (m : Message) (hm : Out.wrote sid m ∈ (run h ins).2) :
    sizeMessage m ≤ maxMessageSize :=
  run_within_limit h ins (fun b hb => hfit b (List.mem_append_left _ hb))
    (fun b hb => hfit b (List.mem_append_right _ hb)) sid m hm

/-! ### One `poll` -/

theorem pollLoop_wrote_stream (fuel : Nat) (h : H) (env : List Ans) (acc : List Out)
    (sid : Nat) (m : Message) :
    Out.wrote sid m ∈ (pollLoop fuel h env acc).2.2 → Out.wrote sid m ∈ acc ∨ h.sink = .ready sid := by
  fun_induction pollLoop fuel h env acc
  case case4 => intro hm; exact Or.inl (by simpa using hm)
  case case9 ih =>
    intro hm
    rcases ih hm with h1 | h1
    · left; simpa using h1
    · cases h1
  case case10 hs _ _ _ _ _ _ _ _ _ ih =>
    intro hm
    rcases ih hm with h1 | h1
    · simp only [List.mem_append, List.mem_singleton, Out.wrote.injEq] at h1
      rcases h1 with h1 | h1
      · exact Or.inl h1
      · right; rw [hs, h1.1]
    · right; rw [hs]; exact h1
  case case11 ih =>
    intro hm
    rcases ih hm with h1 | h1
    · left; simpa using h1
    · cases h1
  all_goals intro hm; exact Or.inl hm

/-- A frame is written only on the stream that is current when `poll` is called. -/
theorem wrote_on_current_stream (h : H) (env : List Ans) (sid : Nat) (m : Message)
    (hm : Out.wrote sid m ∈ (poll h env).2.2) : h.sink = .ready sid := by
  rcases pollLoop_wrote_stream _ h env [] sid m hm with h1 | h1
  · simp at h1
  · exact h1

/-- While the previous frame is not flushed (`poll_flush` is `Pending`) nothing is taken from the
pending list: state unchanged, no effect. -/
theorem pending_flush_takes_nothing (h : H) (sid : Nat) (a : Ans) (env : List Ans)
    (hs : h.sink = .ready sid) (ha : a.flush = .pending) :
    poll h (a :: env) = (h, .pending, []) := by
  obtain ⟨p, s⟩ := h
  simp only at hs
  subst hs
  cases p <;> simp [poll, pollFuel, pollLoop, ha]

/-- A failed flush of the previous frame takes nothing either: the stream is dropped, a new one is
requested and every pending block is still pending. -/
theorem failed_flush_keeps_blocks (h : H) (sid : Nat) (p : List Block) (a : Ans) (env : List Ans)
    (hs : h.sink = .ready sid) (hp : h.pending = some p) (ha : a.flush = .err) :
    poll h (a :: env) = ({ pending := some p, sink := .requested }, .openSubstream, [.closed sid]) := by
  obtain ⟨p', s⟩ := h
  simp only at hs hp
  subst hs hp
  simp [poll, pollFuel, pollLoop, ha]

/-- A new substream is requested exactly when blocks are pending and there is no stream. -/
theorem open_iff (h : H) (env : List Ans) (hs : h.sink = .none) :
    (poll h env).2.1 = .openSubstream ↔ h.pending.isSome = true := by
  obtain ⟨p, s⟩ := h
  simp only at hs
  subst hs
  cases p <;> simp [poll, pollFuel, pollLoop]

theorem pollLoop_open (fuel : Nat) (h : H) (env : List Ans) (acc : List Out) :
    (pollLoop fuel h env acc).2.1 = .openSubstream →
    (pollLoop fuel h env acc).1.sink = .requested ∧ (pollLoop fuel h env acc).1.pending.isSome = true := by
  fun_induction pollLoop fuel h env acc
  case case6 hp => intro _; simp [hp]
  case case9 ih => exact ih
  case case10 ih => exact ih
  case case11 ih => exact ih
  all_goals intro hc; simp at hc

theorem open_sets_requested (h : H) (env : List Ans) (ho : (poll h env).2.1 = .openSubstream) :
    (poll h env).1.sink = .requested ∧ (poll h env).1.pending.isSome = true :=
  pollLoop_open _ h env [] ho

/-- While a substream is being negotiated `poll` does nothing. -/
theorem requested_is_inert (h : H) (env : List Ans) (hs : h.sink = .requested) :
    poll h env = (h, .pending, []) := by
  obtain ⟨p, s⟩ := h
  simp only at hs
  subst hs
  cases p <;> simp [poll, pollFuel, pollLoop]

/-- Observation outside the given properties (the `// TODO` in lib.rs): if the negotiation of
the server's substream fails, the handler never asks again: without a `setStream` the sink stays
`requested` for ever and nothing is written, whatever is queued. -/
theorem stuck_after_alloc_failure (h : H) (ins : List In) (hs : h.sink = .requested)
    (hno : ∀ sid, In.setStream sid ∉ ins) :
    (run h ins).1.sink = .requested ∧ (run h ins).2 = [] := by
  induction ins generalizing h with
  | nil => exact ⟨hs, rfl⟩
  | cons i is ih =>
    rw [run_cons]
    have hno' : ∀ sid, In.setStream sid ∉ is := fun sid hm => hno sid (List.mem_cons_of_mem _ hm)
    have key : (step h i).1.sink = .requested ∧ (step h i).2 = [] := by
      cases i with
      | queue bs => exact ⟨hs, rfl⟩
      | setStream sid => exact absurd List.mem_cons_self (hno sid)
      | allocFailed => exact ⟨hs, rfl⟩
      | poll env =>
        have := requested_is_inert h env hs
        simp only [poll] at this
        rw [step_poll, this]
        exact ⟨hs, rfl⟩
    have := ih _ key.1 hno'
    exact ⟨this.1, by rw [key.2, this.2]; rfl⟩

/-! ### Fault-free delivery -/

theorem pollLoop_faultfree (sid : Nat) : ∀ (fuel : Nat) (p : List Block) (n : Nat) (acc : List Out),
    p.length + 2 ≤ fuel → p.length + 1 ≤ n →
    (pollLoop fuel { pending := some p, sink := .ready sid }
        (List.replicate n { flush := .ok, sendOk := true }) acc).1
      = { pending := none, sink := .ready sid } ∧
    (pollLoop fuel { pending := some p, sink := .ready sid }
        (List.replicate n { flush := .ok, sendOk := true }) acc).2.1 = .pending ∧
    writtenOf (pollLoop fuel { pending := some p, sink := .ready sid }
        (List.replicate n { flush := .ok, sendOk := true }) acc).2.2 = writtenOf acc ++ p ∧
    droppedOf (pollLoop fuel { pending := some p, sink := .ready sid }
        (List.replicate n { flush := .ok, sendOk := true }) acc).2.2 = droppedOf acc := by
  intro fuel
  induction fuel with
  | zero => intro p n acc hf; omega
  | succ fuel ih =>
    intro p n acc hf hn
    obtain ⟨n, rfl⟩ : ∃ n', n = n' + 1 := ⟨n - 1, by omega⟩
    generalize hpk : packNext p = pr
    obtain ⟨m, rest⟩ := pr
    have hc := packNext_eq_concat hpk
    simp only [pollLoop, List.replicate_succ, List.head?_cons, List.tail_cons, hpk, if_true]
    cases rest with
    | nil =>
      obtain ⟨fuel, rfl⟩ : ∃ f', fuel = f' + 1 := ⟨fuel - 1, by omega⟩
      have hmp : m.payload = p := by simpa using hc
      cases n <;>
        simp [pollLoop, List.replicate_succ, writtenOf_append, writtenOf, droppedOf_append, droppedOf, hmp]
    | cons b rest' =>
      have hne : p ≠ [] := by
        intro h0; rw [h0] at hc; simp at hc
      have hlt := Pack.packNext_rest_length p hne
      rw [hpk] at hlt
      simp only at hlt
      have := ih (b :: rest') n (acc ++ [.wrote sid m]) (by omega) (by omega)
      simp only [List.isEmpty_cons, Bool.false_eq_true, if_false]
      refine ⟨this.1, this.2.1, ?_, ?_⟩
      · rw [this.2.2.1]; simp [writtenOf_append, writtenOf, hc]
      · rw [this.2.2.2]; simp [droppedOf_append, droppedOf]

/-- Fault-free delivery: with a stream and a sink that accepts and flushes everything, one `poll`
with enough answers writes every pending block, in order, and leaves nothing pending. -/
theorem faultfree_writes_all (h : H) (sid : Nat) (p : List Block) (n : Nat)
    (hs : h.sink = .ready sid) (hp : h.pending = some p) (hn : p.length + 1 ≤ n) :
    let r := poll h (List.replicate n { flush := .ok, sendOk := true })
    r.1 = { pending := none, sink := .ready sid } ∧ r.2.1 = .pending ∧
    writtenOf r.2.2 = p ∧ droppedOf r.2.2 = [] := by
  obtain ⟨p', s⟩ := h
  simp only at hs hp
  subst hs hp
  have := pollLoop_faultfree sid (p.length + 3) p n [] (by omega) hn
  simpa [poll, pollFuel, writtenOf, droppedOf] using this

/-- … and from scratch: queue, poll (a substream is requested), the stream arrives, poll. -/
theorem faultfree_run (bs : List Block) (sid : Nat) (n : Nat) (hn : bs.length + 1 ≤ n) :
    let r := run {} [.queue bs, .poll [], .setStream sid, .poll (List.replicate n { flush := .ok, sendOk := true })]
    r.1 = { pending := none, sink := .ready sid } ∧ writtenOf r.2 = bs ∧
    r.2.head? = some .openSubstream := by
  have := pollLoop_faultfree sid (bs.length + 3) bs n [] (by omega) hn
  have e1 : step ({} : H) (.queue bs) = ({ pending := some bs, sink := .none }, []) := by
    simp [step, queue]
  have e2 : step ({ pending := some bs, sink := .none } : H) (.poll [])
      = ({ pending := some bs, sink := .requested }, [.openSubstream]) := by
    simp [step, poll, pollFuel, pollLoop]
  have e3 : step ({ pending := some bs, sink := .requested } : H) (.setStream sid)
      = ({ pending := some bs, sink := .ready sid }, []) := by
    simp [step, setStream]
  have e4 : pollFuel ({ pending := some bs, sink := .ready sid } : H) = bs.length + 3 := by
    simp [pollFuel]
  simp only [e1, e2, e3, step_poll, e4, this, ServerSink.run]
  simp [writtenOf, this]

/-! ### The fuel -/

/-- an upper bound of the number of iterations the loop makes from `h` -/
def mu (h : H) : Nat :=
  match h.pending, h.sink with
  | some p, .ready _ => p.length + 2
  | _, _ => 1

theorem mu_pos (h : H) : 1 ≤ mu h := by
  unfold mu; split <;> omega

theorem mu_le_pollFuel (h : H) : mu h ≤ pollFuel h := by
  unfold mu pollFuel; split
  · rename_i hp _; simp [hp]
  · omega

theorem mu_sink_none (pd : Option (List Block)) : mu { pending := pd, sink := .none } = 1 := by
  unfold mu; split
  · rename_i h; cases h
  · rfl

theorem mu_pend {p : List Block} {m : Message} {rest : List Block} (hpk : packNext p = (m, rest))
    (s : Sink) :
    mu { pending := if rest.isEmpty then none else some rest, sink := s } + 1 ≤ p.length + 2 := by
  cases rest with
  | nil => simp [mu]
  | cons b rest' =>
    have hc := packNext_eq_concat hpk
    have hne : p ≠ [] := by
      intro h0; rw [h0] at hc; simp at hc
    have hlt := Pack.packNext_rest_length p hne
    rw [hpk] at hlt
    simp only [List.length_cons] at hlt
    cases s <;> simp [mu] <;> omega

theorem pollLoop_fuel_gen (f1 : Nat) (h : H) (env : List Ans) (acc : List Out) :
    ∀ f2, mu h ≤ f1 → mu h ≤ f2 → pollLoop f1 h env acc = pollLoop f2 h env acc := by
  fun_induction pollLoop f1 h env acc
  case case1 h _ _ => intro f2 h1; have := mu_pos h; omega
  case case9 h env acc fuel p sid hs hp a hhead hfl ih =>
    intro f2 h1 h2
    have hmu : mu h = p.length + 2 := by simp [mu, hs, hp]
    obtain ⟨f2, rfl⟩ : ∃ f', f2 = f' + 1 := ⟨f2 - 1, by omega⟩
    rw [pollLoop.eq_2]
    simp only [hs, hp, hhead, hfl]
    rw [hp] at ih
    exact ih f2 (by rw [mu_sink_none]; omega) (by rw [mu_sink_none]; omega)
  case case10 h env acc fuel p sid hs hp a hhead hfl m rest hpk pend hok ih =>
    intro f2 h1 h2
    have hmu : mu h = p.length + 2 := by simp [mu, hs, hp]
    have hb : mu { pending := pend, sink := .ready sid } + 1 ≤ p.length + 2 := mu_pend hpk (.ready sid)
    obtain ⟨f2, rfl⟩ : ∃ f', f2 = f' + 1 := ⟨f2 - 1, by omega⟩
    rw [pollLoop.eq_2]
    simp only [hs, hp, hhead, hfl, hpk, hok, if_true]
    exact ih f2 (by omega) (by omega)
  case case11 h env acc fuel p sid hs hp a hhead hfl m rest hpk pend hok ih =>
    intro f2 h1 h2
    have hmu : mu h = p.length + 2 := by simp [mu, hs, hp]
    obtain ⟨f2, rfl⟩ : ∃ f', f2 = f' + 1 := ⟨f2 - 1, by omega⟩
    rw [pollLoop.eq_2]
    simp only [hs, hp, hhead, hfl, hpk, hok]
    exact ih f2 (by rw [mu_sink_none]; omega) (by rw [mu_sink_none]; omega)
  all_goals
    intro f2 _ h2
    have := mu_pos ‹H›
    obtain ⟨f2, rfl⟩ : ∃ f', f2 = f' + 1 := ⟨f2 - 1, by omega⟩
    rw [pollLoop.eq_2]
    simp [*]

/-- The fuel of `poll` is never the reason the loop stops: more fuel changes nothing. -/
theorem pollLoop_fuel_irrelevant (h : H) (env : List Ans) (acc : List Out) (k : Nat) :
    pollLoop (pollFuel h + k) h env acc = pollLoop (pollFuel h) h env acc :=
  pollLoop_fuel_gen _ h env acc _ (by have := mu_le_pollFuel h; omega) (mu_le_pollFuel h)

end Beetswap.Proofs.ServerSink
