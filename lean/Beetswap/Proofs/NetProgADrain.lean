import Beetswap.Proofs.NetProgATasks
import Beetswap.Proofs.NetProgAMsg
/-!
Progress, requesting side: the state after `drainA`, component by component of the measure.
-/
namespace Beetswap.Proofs.Net.PA
open Std Beetswap.Net Beetswap.Wl
open Beetswap.Client (PeerSt Sending StoreRes Out TaskSt TaskKind Sys sendFullInterval Task)

theorem prefOf_nil (p : Nat) : Node.prefOf [] p = none := rfl

/-- the outputs of `drainA` -/
def outsA (s : State) : List Out := (Client.drain s.a.client s.a.now s.a.seq (Node.prefOf [])).2.2

theorem outsA_eq (s : State) :
    outsA s = s.a.client.queue ++ (ClientView.afterTasks s.a.client s.a.now s.a.seq).2.2 ++
      (Client.updateHandlers (midA s) s.a.now (Node.prefOf [])).2 := rfl

/-- `update_handlers` outputs wantlists only -/
theorem uh_sends (c : Client.State) (now : Nat) (pref : Nat → Option Nat) :
    ∀ o ∈ (Client.updateHandlers c now pref).2, ∃ p cc m, o = Out.send p cc m := by
  intro o ho
  rw [(ClientView.updateHandlers_spec c now pref).2.2.2.2] at ho
  obtain ⟨p, _, e⟩ := List.mem_filterMap.1 ho
  unfold ClientView.sendOf at e
  split at e
  · cases e
  · split at e
    · next cc m _ => cases e; exact ⟨p, cc, m, rfl⟩
    · cases e

theorem callGets_nil_of_sends (l : List Out) (h : ∀ o ∈ l, ∃ p cc m, o = Out.send p cc m) : callGets l = [] := by
  unfold callGets
  rw [List.filterMap_eq_nil_iff]
  intro o ho
  obtain ⟨p, cc, m, e⟩ := h o ho
  subst e; rfl

theorem callPuts_nil_of_sends (l : List Out) (h : ∀ o ∈ l, ∃ p cc m, o = Out.send p cc m) : callPuts l = [] := by
  unfold callPuts
  rw [List.filterMap_eq_nil_iff]
  intro o ho
  obtain ⟨p, cc, m, e⟩ := h o ho
  subst e; rfl

theorem outsA_calls (s : State) (hq : QEv s) :
    callGets (outsA s) = callGets (ClientView.afterTasks s.a.client s.a.now s.a.seq).2.2 ∧
    callPuts (outsA s) = callPuts (ClientView.afterTasks s.a.client s.a.now s.a.seq).2.2 := by
  rw [outsA_eq, callGets_append, callGets_append, callPuts_append, callPuts_append,
    callGets_nil_of_ev _ hq, callPuts_nil_of_ev _ hq, callGets_nil_of_sends _ (uh_sends _ _ _),
    callPuts_nil_of_sends _ (uh_sends _ _ _)]
  simp

/-- the composition state after `drainA` -/
theorem drainA_state (g : GS) (ha : AInv g) :
    (step g.s .drainA).b = g.s.b ∧ (step g.s .drainA).callsB = g.s.callsB ∧
    (step g.s .drainA).wireBA = g.s.wireBA ∧ (step g.s .drainA).a.now = g.s.a.now ∧
    (step g.s .drainA).a.client = A.drainedC g.s.a.client g.s.a.now g.s.a.seq (Node.prefOf []) ∧
    (step g.s .drainA).callsA = g.s.callsA ++ callGets (outsA g.s) ∧
    (step g.s .drainA).putsA = g.s.putsA ++ callPuts (outsA g.s) ∧
    (step g.s .drainA).wireAB = g.s.wireAB ++ sentList (sentA g.s) := by
  have ea := step_drainA_a g.s ha.srv
  have hw := (drainA_sent g ha (A.ainv_drainA g ha)).1
  refine ⟨?_, ?_, ?_, by rw [ea]; rfl, by rw [ea]; rfl, ?_, ?_, hw⟩
  · rw [step_drainA g.s ha.srv]; exact (absorbA_b _ _).1
  · rw [step_drainA g.s ha.srv]; exact (absorbA_b _ _).2.2.2
  · rw [step_drainA g.s ha.srv]; exact (absorbA_b _ _).2.2.1
  · rw [step_drainA g.s ha.srv]; exact (absorbA_fields _ _).2.2.2.1
  · rw [step_drainA g.s ha.srv]; exact (absorbA_fields _ _).2.2.2.2

/-- the client half of `a` after `drainA`, except for the peer table -/
theorem drainA_client (g : GS) (ha : AInv g) :
    (step g.s .drainA).a.client.tasks = (midA g.s).tasks ∧
    (step g.s .drainA).a.client.runq = [] ∧ (step g.s .drainA).a.client.queue = [] ∧
    (step g.s .drainA).a.client.wantlist = (midA g.s).wantlist ∧
    ¬ (step g.s .drainA).a.client.deadline ≤ (step g.s .drainA).a.now := by
  obtain ⟨_, _, _, e1, e2, _⟩ := drainA_state g ha
  obtain ⟨P, hP⟩ := A.drainedC_frame g.s.a.client g.s.a.now g.s.a.seq (Node.prefOf [])
  obtain ⟨_, _, a3, a4, _⟩ := ClientView.afterTasks_spec g.s.a.client g.s.a.now g.s.a.seq
  obtain ⟨f1, _⟩ := A.afterTasks_frame g.s.a.client g.s.a.now g.s.a.seq
  rw [e1, e2, hP]
  refine ⟨rfl, f1, a3, rfl, ?_⟩
  show ¬ (ClientView.afterTasks g.s.a.client g.s.a.now g.s.a.seq).1.deadline ≤ _
  rw [a4]
  split
  · unfold sendFullInterval; omega
  · assumption

/-- the peer entry of `b` after `drainA` -/
theorem drainA_peer (g : GS) (ha : AInv g) (ps2 : PeerSt) (h2 : (midA g.s).peers[1]? = some ps2) :
    (step g.s .drainA).a.client.peers[1]? =
      if (outsA g.s).any isSend = true then
        ((Client.updatePeer (midA g.s).wantlist g.s.a.now ps2 none).1).map
          (fun ps => ({ ps with sending := .sending 1 } : PeerSt))
      else (Client.updatePeer (midA g.s).wantlist g.s.a.now ps2 none).1 := by
  obtain ⟨_, _, _, _, e2, _⟩ := drainA_state g ha
  have hd := (ClientView.drain_spec_nq g.s.a.client g.s.a.now g.s.a.seq (Node.prefOf [])).2.1 1
  have hn : ClientView.nextPeer (midA g.s) g.s.a.now (Node.prefOf []) 1 =
      (Client.updatePeer (midA g.s).wantlist g.s.a.now ps2 none).1 := by
    unfold ClientView.nextPeer
    rw [h2]; rfl
  rw [e2, A.drainedC_peers _ _ _ _ _ (fun _ => A.drain_tracked g.s.a.now g.s.a.seq (Node.prefOf [])
    (A.ainv_peer ha) (A.ainv_conns ha) (A.ainv_nosend ha)), hd]
  show (if (outsA g.s).any isSend = true ∧ 1 = 1 then
      (ClientView.nextPeer (midA g.s) g.s.a.now (Node.prefOf []) 1).map _ else
      ClientView.nextPeer (midA g.s) g.s.a.now (Node.prefOf []) 1) = _
  rw [hn]
  by_cases h : (outsA g.s).any isSend = true
  · simp [h]
  · simp [h]

/-- What `drainA` does to the exchange with `b`: a wantlist is in flight (nothing happens), a full
wantlist is handed over, nothing is due, or an update is handed over. -/
theorem drainA_cases (g : GS) (ha : AInv g) :
    ∃ ps2 ps3 : PeerSt, (midA g.s).peers[1]? = some ps2 ∧
      ps2.sendFull = ((apeer g.s).sendFull || decide (g.s.a.client.deadline ≤ g.s.a.now)) ∧
      (apeer (step g.s .drainA)).sendFull = ps3.sendFull ∧
      (apeer (step g.s .drainA)).wl = ps3.wl ∧
      ((ps3 = ps2 ∧ sentA g.s = none) ∨
       (ps2.sendFull = true ∧ ps3.sendFull = false ∧ ∃ cm, sentA g.s = some cm) ∨
       (ps2.sendFull = false ∧ ps3.sendFull = false ∧
         ps3.wl = (ps2.wl.genUpdate (midA g.s).wantlist).1 ∧
         (ps2.wl.genUpdate (midA g.s).wantlist).2.isEmpty = true ∧ sentA g.s = none) ∨
       (ps2.sendFull = false ∧ ps3.sendFull = false ∧
         ps3.wl = (ps2.wl.genUpdate (midA g.s).wantlist).1 ∧
         (ps2.wl.genUpdate (midA g.s).wantlist).2.isEmpty = false ∧ ∃ cm, sentA g.s = some cm)) := by
  obtain ⟨ps2, h2, hs, hc, hf, hv, hne, hpi⟩ := midA_peer g ha
  have hsent : sentA g.s = (Client.updatePeer (midA g.s).wantlist g.s.a.now ps2 none).2 := by
    unfold sentA ClientView.sentTo
    rw [h2]; rfl
  have hp' := drainA_peer g ha ps2 h2
  have key : ∀ ps3, (Client.updatePeer (midA g.s).wantlist g.s.a.now ps2 none).1 = some ps3 →
      (apeer (step g.s .drainA)).sendFull = ps3.sendFull ∧ (apeer (step g.s .drainA)).wl = ps3.wl := by
    intro ps3 h3
    rw [h3] at hp'
    unfold apeer
    rw [hp']
    split <;> exact ⟨rfl, rfl⟩
  rcases ha.wire with ⟨hr, _⟩ | ⟨hr, _⟩
  · have hu : Client.updatePeer (midA g.s).wantlist g.s.a.now ps2 none =
        ClientView.goPeer (midA g.s).wantlist g.s.a.now none ps2 := by
      rw [ClientView.updatePeer_eq, hs.trans hr]
    have hgo := ClientView.goPeer_res (midA g.s).wantlist g.s.a.now none ps2
    rw [← hu] at hgo
    generalize hres : Client.updatePeer (midA g.s).wantlist g.s.a.now ps2 none = res at hgo hsent key
    cases hgo with
    | drop hce => rw [hne] at hce; cases hce
    | full _ hfl =>
      obtain ⟨k1, k2⟩ := key _ rfl
      exact ⟨ps2, _, h2, hf, k1, k2, .inr (.inl ⟨hfl, rfl, _, hsent⟩)⟩
    | quiet _ hfl he =>
      obtain ⟨k1, k2⟩ := key _ rfl
      exact ⟨ps2, _, h2, hf, k1, k2, .inr (.inr (.inl ⟨hfl, hfl, rfl, he, hsent⟩))⟩
    | upd _ hfl he =>
      obtain ⟨k1, k2⟩ := key _ rfl
      exact ⟨ps2, _, h2, hf, k1, k2, .inr (.inr (.inr ⟨hfl, rfl, rfl, he, _, hsent⟩))⟩
  · have hu : Client.updatePeer (midA g.s).wantlist g.s.a.now ps2 none = (some ps2, none) := by
      rw [ClientView.updatePeer_eq, hs.trans hr]
    rw [hu] at hsent key
    obtain ⟨k1, k2⟩ := key _ rfl
    exact ⟨ps2, ps2, h2, hf, k1, k2, .inl ⟨rfl, hsent⟩⟩

/-! ### The components of the measure across `drainA` -/

theorem c2_pre (s : State) : (meas s).c2 =
    if ((apeer s).sendFull || decide (s.a.client.deadline ≤ s.a.now)) = true then 1 else 0 := rfl

theorem c3_pre (s : State) : (meas s).c3 =
    if ((apeer s).wl.genUpdate s.a.client.wantlist).2.isEmpty = true then 0 else 1 := rfl

theorem c2_post {s : State} (h : ¬ s.a.client.deadline ≤ s.a.now) :
    (meas s).c2 = if (apeer s).sendFull = true then 1 else 0 := by
  rw [c2_pre]
  simp [h]

theorem sentList_some (cm : Nat × WlMsg) : (sentList (some cm)).length = 1 := by
  cases cm; rfl

/-- lookups and `put`s: the task phase does not increase their weight (counting the calls it
starts); if the lookups weigh the same afterwards, wantlist and exchange state are untouched -/
theorem drainA_c1 (g : GS) (ha : AInv g) (hq : QEv g.s) :
    (meas (step g.s .drainA)).c1 ≤ (meas g.s).c1 ∧
    ((meas (step g.s .drainA)).c1 = (meas g.s).c1 →
      (midA g.s).wantlist = g.s.a.client.wantlist ∧
      ∀ ps2, (midA g.s).peers[1]? = some ps2 → ps2.wl = (apeer g.s).wl) ∧
    (meas (step g.s .drainA)).c7 ≤ (meas g.s).c7 := by
  obtain ⟨_, _, _, _, _, sca, spa, _⟩ := drainA_state g ha
  obtain ⟨ct, _⟩ := drainA_client g ha
  obtain ⟨og, op⟩ := outsA_calls g.s hq
  obtain ⟨w1, w2, w3⟩ := afterTasks_wt g.s.a.client g.s.a.now g.s.a.seq ha.ids_nodup
  unfold gW at w1 w2
  unfold pW at w3
  rw [c1_eq, c1_eq, c7_eq, c7_eq, ct, sca, spa, og, op, List.length_append, List.length_append]
  unfold midA
  refine ⟨by omega, ?_, by omega⟩
  intro h
  obtain ⟨e1, e2⟩ := w2 (by omega)
  refine ⟨e1, ?_⟩
  intro ps2 h2
  obtain ⟨ps, hps⟩ := ha.peer1
  rw [e2 1, hps] at h2
  simp only [Option.map_some, Option.some.injEq] at h2
  rw [apeer_eq hps, ← h2]

/-- with nothing to run and no event queued, a busy `a` hands a wantlist over -/
theorem drainA_busy_sent (g : GS) (ha : AInv g) (hr : g.s.a.client.runq = []) (hqe : g.s.a.client.queue = [])
    (ho : (Node.step g.s.a (.drain [] [])).2.1 ≠ []) : ∃ cm, sentA g.s = some cm := by
  rw [nodeA_drain g.s.a ha.srv] at ho
  have ho : outsA g.s ≠ [] := ho
  have hidle := (afterTasks_idle g.s.a.client g.s.a.now g.s.a.seq hr).2.2.2.2
  have hmem : ∃ o, o ∈ outsA g.s ∧ o ∈ (Client.updateHandlers (midA g.s) g.s.a.now (Node.prefOf [])).2 := by
    rw [outsA_eq, hqe, hidle] at ho ⊢
    simp only [List.nil_append] at ho ⊢
    cases hu : (Client.updateHandlers (midA g.s) g.s.a.now (Node.prefOf [])).2 with
    | nil => exact absurd hu ho
    | cons o rest => exact ⟨o, List.mem_cons_self .., List.mem_cons_self ..⟩
  obtain ⟨o, ho1, ho2⟩ := hmem
  obtain ⟨p, cc, m, e⟩ := uh_sends _ _ _ o ho2
  subst e
  have d6 := (ClientView.drain_spec g.s.a.client g.s.a.now g.s.a.seq (Node.prefOf [])
    (fun p c m => A.ainv_nosend ha p c m)).2.2.2.2.2 p cc m
  have hs := d6.1 ho1
  by_cases hp : p = 1
  · subst hp
    exact ⟨(cc, m), hs⟩
  · rw [show (ClientView.afterTasks g.s.a.client g.s.a.now g.s.a.seq).1 = midA g.s from rfl,
      sentTo_none_of_peer g ha p hp] at hs
    cases hs

/-- the exchange with `b` -/
theorem drainA_c234 (g : GS) (ha : AInv g) (hq : QEv g.s) :
    (meas (step g.s .drainA)).c2 ≤ (meas g.s).c2 ∧
    ((meas (step g.s .drainA)).c1 = (meas g.s).c1 → (meas (step g.s .drainA)).c2 = (meas g.s).c2 →
      (meas (step g.s .drainA)).c3 ≤ (meas g.s).c3) ∧
    (sentList (sentA g.s)).length ≤ 1 ∧
    ((meas (step g.s .drainA)).c1 = (meas g.s).c1 → (sentList (sentA g.s)).length = 1 →
      (meas (step g.s .drainA)).c2 < (meas g.s).c2 ∨
      ((meas (step g.s .drainA)).c2 = (meas g.s).c2 ∧ (meas (step g.s .drainA)).c3 < (meas g.s).c3)) ∧
    ((∃ cm, sentA g.s = some cm) → (sentList (sentA g.s)).length = 1) ∧
    (meas (step g.s .drainA)).c4 = (meas g.s).c4 + (sentList (sentA g.s)).length := by
  obtain ⟨_, _, _, _, _, _, _, swa⟩ := drainA_state g ha
  obtain ⟨_, _, _, cw, cd⟩ := drainA_client g ha
  obtain ⟨ps2, ps3, p2, pf, k1, k2, hcase⟩ := drainA_cases g ha
  have hc2' := c2_post cd
  rw [k1] at hc2'
  have hc2 := c2_pre g.s
  rw [← pf] at hc2
  have hc3' := c3_pre (step g.s .drainA)
  rw [k2, cw] at hc3'
  have hc3 := c3_pre g.s
  have h4 : (meas (step g.s .drainA)).c4 = (meas g.s).c4 + (sentList (sentA g.s)).length := by
    rw [c4_eq, c4_eq, swa, List.length_append]
  have hsome : (∃ cm, sentA g.s = some cm) → (sentList (sentA g.s)).length = 1 := by
    rintro ⟨cm, h⟩; rw [h]; exact sentList_some cm
  rcases hcase with ⟨e3, hn⟩ | ⟨hf2, hf3, cm, hsm⟩ | ⟨hf2, hf3, hwl, hemp, hn⟩ | ⟨hf2, hf3, hwl, hemp, cm, hsm⟩
  · -- a wantlist is in flight
    subst e3
    have hl : (sentList (sentA g.s)).length = 0 := by rw [hn]; rfl
    refine ⟨by omega, ?_, by omega, ?_, hsome, h4⟩
    · intro he1 _
      obtain ⟨e1, e2⟩ := (drainA_c1 g ha hq).2.1 he1
      rw [e2 ps3 p2, e1] at hc3'
      omega
    · intro _ h; omega
  · -- a full wantlist is handed over
    have hl : (sentList (sentA g.s)).length = 1 := by rw [hsm]; exact sentList_some cm
    rw [hf2] at hc2
    rw [hf3] at hc2'
    simp only [if_true] at hc2
    simp only [Bool.false_eq_true, if_false] at hc2'
    refine ⟨by omega, ?_, by omega, ?_, hsome, h4⟩
    · intro _ h; omega
    · intro _ _; left; omega
  · -- nothing is due
    have hl : (sentList (sentA g.s)).length = 0 := by rw [hn]; rfl
    rw [hf2] at hc2
    rw [hf3] at hc2'
    simp only [Bool.false_eq_true, if_false] at hc2 hc2'
    have h30 : (meas (step g.s .drainA)).c3 = 0 := by
      rw [hc3', hwl, if_pos (genUpdate_idem _ _)]
    refine ⟨by omega, ?_, by omega, ?_, hsome, h4⟩
    · intro _ _; omega
    · intro _ h; omega
  · -- an update is handed over
    have hl : (sentList (sentA g.s)).length = 1 := by rw [hsm]; exact sentList_some cm
    rw [hf2] at hc2
    rw [hf3] at hc2'
    simp only [Bool.false_eq_true, if_false] at hc2 hc2'
    have h30 : (meas (step g.s .drainA)).c3 = 0 := by
      rw [hc3', hwl, if_pos (genUpdate_idem _ _)]
    refine ⟨by omega, ?_, by omega, ?_, hsome, h4⟩
    · intro _ _; omega
    · intro he1 _
      obtain ⟨e1, e2⟩ := (drainA_c1 g ha hq).2.1 he1
      rw [← e2 ps2 p2, ← e1, hemp] at hc3
      simp only [Bool.false_eq_true, if_false] at hc3
      right; omega

end Beetswap.Proofs.Net.PA
