import Beetswap.Spec.ServerSpec
/-!
Helper lemmas for `Proofs/Server.lean`, part 1: `KSet`/`KMap` basics and the characterisation
of `processWantlist`.
-/
namespace Beetswap.Proofs.Server
open Std Beetswap.Server Beetswap.Spec.ServerSpec
open Beetswap.Client (Out StoreRes)

/-! ### Sets and maps keyed by `Nat` -/

theorem kset_mem_insert {t : KSet} {k a : Nat} : a ∈ t.insert k ↔ a = k ∨ a ∈ t := by
  rw [ExtTreeSet.mem_insert, compare_eq_iff_eq]; simp [eq_comm]

theorem kset_mem_erase {t : KSet} {k a : Nat} : a ∈ t.erase k ↔ a ≠ k ∧ a ∈ t := by
  rw [ExtTreeSet.mem_erase, Ne, compare_eq_iff_eq]; simp [eq_comm]

theorem kset_not_mem_empty {a : Nat} : a ∉ (∅ : KSet) := ExtTreeSet.not_mem_empty

theorem kset_nodup_toList (t : KSet) : t.toList.Nodup := by
  have := ExtTreeSet.distinct_toList (t := t)
  simpa [List.Nodup] using this

theorem kset_mem_toList {t : KSet} {k : Nat} : k ∈ t.toList ↔ k ∈ t := ExtTreeSet.mem_toList

theorem kmap_get_insert {V : Type} (m : KMap V) (k a : Nat) (v : V) :
    (m.insert k v)[a]? = if a = k then some v else m[a]? := by
  by_cases h : a = k
  · subst h; simp
  · have : ¬ k = a := fun e => h e.symm
    simp [ExtTreeMap.getElem?_insert, h, this]

theorem kmap_get_erase {V : Type} (m : KMap V) (k a : Nat) :
    (m.erase k)[a]? = if a = k then none else m[a]? := by
  by_cases h : a = k
  · subst h; simp
  · have : ¬ k = a := fun e => h e.symm
    simp [ExtTreeMap.getElem?_erase, h, this]

theorem kmap_mem_iff {V : Type} (m : KMap V) (a : Nat) : a ∈ m ↔ ∃ v, m[a]? = some v := by
  rw [ExtTreeMap.mem_iff_isSome_getElem?, Option.isSome_iff_exists]

theorem kmap_mem_keys {V : Type} (m : KMap V) (a : Nat) : a ∈ m.keys ↔ a ∈ m :=
  ExtTreeMap.mem_keys

/-! ### `processWantlist` -/

theorem mem_foldl_insert (l : List Nat) (s0 : KSet) (k : Nat) :
    k ∈ l.foldl (fun s k => s.insert k) s0 ↔ k ∈ l ∨ k ∈ s0 := by
  induction l generalizing s0 with
  | nil => simp
  | cons a as ih => simp only [List.foldl_cons, ih, kset_mem_insert, List.mem_cons]; grind

theorem size_foldl_insert_le (l : List Nat) (s0 : KSet) :
    (l.foldl (fun s k => s.insert k) s0).size ≤ s0.size + l.length := by
  induction l generalizing s0 with
  | nil => simp
  | cons a as ih =>
    simp only [List.foldl_cons, List.length_cons]
    have h1 := ih (s0.insert a)
    have h2 := ExtTreeSet.size_insert_le (t := s0) (k := a)
    omega

/-- the cancel loop of the update branch -/
def cancelLoop (cur : KSet) (acc : List Nat) (cancels : List Nat) : KSet × List Nat :=
  cancels.foldl (fun (acc : KSet × List Nat) k =>
      if k ∈ acc.1 then (acc.1.erase k, acc.2 ++ [k]) else acc) (cur, acc)

theorem cancelLoop_nil (cur : KSet) (acc : List Nat) : cancelLoop cur acc [] = (cur, acc) := rfl

theorem cancelLoop_cons (cur : KSet) (acc : List Nat) (k : Nat) (ks : List Nat) :
    cancelLoop cur acc (k :: ks) =
      if k ∈ cur then cancelLoop (cur.erase k) (acc ++ [k]) ks else cancelLoop cur acc ks := by
  unfold cancelLoop
  simp only [List.foldl_cons]
  split <;> rfl

theorem cancelLoop_spec (cancels : List Nat) (cur : KSet) (acc : List Nat) :
    (∀ k, k ∈ (cancelLoop cur acc cancels).1 ↔ k ∈ cur ∧ k ∉ cancels) ∧
    (∃ r, (cancelLoop cur acc cancels).2 = acc ++ r ∧ r.Nodup ∧
      ∀ k, k ∈ r ↔ k ∈ cur ∧ k ∈ cancels) ∧
    (cancelLoop cur acc cancels).1.size ≤ cur.size := by
  induction cancels generalizing cur acc with
  | nil => simp [cancelLoop_nil]
  | cons a as ih =>
    rw [cancelLoop_cons]
    split
    · rename_i ha
      obtain ⟨h1, ⟨r, h2, h3, h4⟩, h5⟩ := ih (cur.erase a) (acc ++ [a])
      refine ⟨?_, ⟨a :: r, ?_, ?_, ?_⟩, ?_⟩
      · intro k; rw [h1, kset_mem_erase]; simp; grind
      · rw [h2]; simp
      · rw [List.nodup_cons]; refine ⟨?_, h3⟩
        rw [h4, kset_mem_erase]; simp
      · intro k; rw [List.mem_cons, h4, kset_mem_erase, List.mem_cons]; grind
      · have := ExtTreeSet.size_erase_le (t := cur) (k := a); omega
    · rename_i ha
      obtain ⟨h1, ⟨r, h2, h3, h4⟩, h5⟩ := ih cur acc
      refine ⟨?_, ⟨r, h2, h3, ?_⟩, h5⟩
      · intro k; rw [h1]; simp; grind
      · intro k; rw [h4, List.mem_cons]; grind

theorem addLoop_spec (ks : List Nat) (cur : KSet) (added : List Nat) :
    ∃ a, (processWantlist.addLoop cur added ks).2 = added ++ a ∧ a.Nodup ∧
      (∀ k, k ∈ a → k ∉ cur ∧ k ∈ ks) ∧
      (∀ k, k ∈ (processWantlist.addLoop cur added ks).1 ↔ k ∈ cur ∨ k ∈ a) ∧
      (cur.size ≤ maxWantlistEntries →
        (processWantlist.addLoop cur added ks).1.size ≤ maxWantlistEntries) ∧
      (cur.size + ks.length ≤ maxWantlistEntries →
        ∀ k, k ∈ ks → k ∈ (processWantlist.addLoop cur added ks).1) := by
  induction ks generalizing cur added with
  | nil => exact ⟨[], by simp [processWantlist.addLoop]⟩
  | cons x xs ih =>
    unfold processWantlist.addLoop
    split
    · rename_i hfull
      refine ⟨[], by simp, by simp, by simp, by simp, fun h => h, ?_⟩
      intro h; simp at h; omega
    · rename_i hfull
      split
      · rename_i hx
        obtain ⟨a, h1, h2, h3, h4, h5, h6⟩ := ih cur added
        refine ⟨a, h1, h2, ?_, h4, h5, ?_⟩
        · intro k hk; have := h3 k hk; simp [this]
        · intro hs k hk
          rw [List.mem_cons] at hk
          rcases hk with rfl | hk
          · rw [h4]; exact Or.inl hx
          · exact h6 (by simp at hs; omega) k hk
      · rename_i hx
        obtain ⟨a, h1, h2, h3, h4, h5, h6⟩ := ih (cur.insert x) (added ++ [x])
        have hsz := ExtTreeSet.size_insert_le (t := cur) (k := x)
        refine ⟨x :: a, ?_, ?_, ?_, ?_, ?_, ?_⟩
        · rw [h1]; simp
        · rw [List.nodup_cons]; refine ⟨?_, h2⟩
          intro hxa; have := (h3 x hxa).1; rw [kset_mem_insert] at this; simp at this
        · intro k hk
          rw [List.mem_cons] at hk
          rcases hk with rfl | hk
          · simp [hx]
          · have := h3 k hk; rw [kset_mem_insert] at this; simp; grind
        · intro k; rw [h4, kset_mem_insert, List.mem_cons]; grind
        · intro _; apply h5; simp at hfull; omega
        · intro hs k hk
          rw [List.mem_cons] at hk
          rcases hk with rfl | hk
          · rw [h4, kset_mem_insert]; simp
          · exact h6 (by simp at hs; omega) k hk

/-- What `incoming` needs to know about `processWantlist cur full es = (new, added, removed)`. -/
structure PWSpec (cur new : KSet) (added removed : List Nat) : Prop where
  added_nodup : added.Nodup
  removed_nodup : removed.Nodup
  mem_new : ∀ k, k ∈ new ↔ (k ∈ cur ∧ k ∉ removed) ∨ k ∈ added
  removed_sub : ∀ k, k ∈ removed → k ∈ cur
  added_spec : ∀ k, k ∈ added → k ∉ cur ∨ k ∈ removed
  cap : cur.size ≤ maxWantlistEntries → new.size ≤ maxWantlistEntries

/-- the entries of a message the update branch looks at -/
def updCancels (es : List Entry) : List Nat :=
  ((es.filterMap (fun e => e.cid.map (fun k => (e.cancel, k)))).filter (·.1)).map (·.2)
def updAdds (es : List Entry) : List Nat :=
  ((es.filterMap (fun e => e.cid.map (fun k => (e.cancel, k)))).filter (fun e => !e.1)).map (·.2)
def fullWanted (es : List Entry) : List Nat :=
  (es.filterMap (fun e => if e.cancel then none else e.cid)).take maxWantlistEntries

theorem mem_updCancels (es : List Entry) (k : Nat) :
    k ∈ updCancels es ↔ (⟨some k, true⟩ : Entry) ∈ es := by
  unfold updCancels
  simp only [List.mem_map, List.mem_filter, List.mem_filterMap, Option.map_eq_some_iff]
  constructor
  · rintro ⟨⟨c, k'⟩, ⟨⟨e, he, k'', hk, heq⟩, hc⟩, rfl⟩
    cases e with | mk cid cancel =>
    simp at heq hk hc; obtain ⟨rfl, rfl⟩ := heq; subst hk; subst hc; exact he
  · intro h; exact ⟨(true, k), ⟨⟨_, h, k, rfl, rfl⟩, rfl⟩, rfl⟩

theorem mem_updAdds (es : List Entry) (k : Nat) :
    k ∈ updAdds es ↔ (⟨some k, false⟩ : Entry) ∈ es := by
  unfold updAdds
  simp only [List.mem_map, List.mem_filter, List.mem_filterMap, Option.map_eq_some_iff]
  constructor
  · rintro ⟨⟨c, k'⟩, ⟨⟨e, he, k'', hk, heq⟩, hc⟩, rfl⟩
    cases e with | mk cid cancel =>
    simp at heq hk hc; obtain ⟨rfl, rfl⟩ := heq; subst hk; subst hc; exact he
  · intro h; exact ⟨(false, k), ⟨⟨_, h, k, rfl, rfl⟩, rfl⟩, rfl⟩

theorem length_updAdds_le (es : List Entry) : (updAdds es).length ≤ es.length := by
  unfold updAdds
  rw [List.length_map]
  exact Nat.le_trans (List.length_filter_le _ _) (List.length_filterMap_le _ _)

theorem processWantlist_full (cur : KSet) (es : List Entry) :
    processWantlist cur true es =
      let new : KSet := (fullWanted es).foldl (fun s k => s.insert k) ∅
      (new, new.toList.filter (fun k => k ∉ cur), cur.toList.filter (fun k => k ∉ new)) := by
  unfold processWantlist fullWanted; rfl

theorem processWantlist_update (cur : KSet) (es : List Entry) :
    processWantlist cur false es =
      let c := cancelLoop cur [] (updCancels es)
      let a := processWantlist.addLoop c.1 [] (updAdds es)
      (a.1, a.2, c.2) := by
  unfold processWantlist updCancels updAdds cancelLoop; rfl

theorem mem_full_new (cur : KSet) (es : List Entry) (k : Nat) :
    k ∈ (processWantlist cur true es).1 ↔ k ∈ fullWanted es := by
  rw [processWantlist_full]; simp [mem_foldl_insert]

theorem mem_fullWanted_of_short (es : List Entry) (k : Nat)
    (hs : es.length ≤ maxWantlistEntries) :
    k ∈ fullWanted es ↔ (⟨some k, false⟩ : Entry) ∈ es := by
  unfold fullWanted
  rw [List.take_of_length_le (Nat.le_trans (List.length_filterMap_le _ _) hs)]
  simp only [List.mem_filterMap]
  constructor
  · rintro ⟨e, he, h⟩
    cases e with | mk cid cancel =>
    cases cancel <;> simp at h; subst h; exact he
  · intro h; exact ⟨_, h, by simp⟩

theorem mem_fullWanted_sub (es : List Entry) (k : Nat) (h : k ∈ fullWanted es) :
    (⟨some k, false⟩ : Entry) ∈ es := by
  unfold fullWanted at h
  have h := List.mem_of_mem_take h
  simp only [List.mem_filterMap] at h
  obtain ⟨e, he, h⟩ := h
  cases e with | mk cid cancel =>
  cases cancel <;> simp at h; subst h; exact he

theorem pwspec (cur : KSet) (full : Bool) (es : List Entry) :
    PWSpec cur (processWantlist cur full es).1 (processWantlist cur full es).2.1
      (processWantlist cur full es).2.2 := by
  cases full with
  | true =>
    rw [processWantlist_full]
    refine ⟨?_, ?_, ?_, ?_, ?_, ?_⟩
    · exact (kset_nodup_toList _).filter _
    · exact (kset_nodup_toList _).filter _
    · intro k; simp; grind
    · intro k; simp; grind
    · intro k; simp; grind
    · intro _
      have := size_foldl_insert_le (fullWanted es) ∅
      have h2 : (fullWanted es).length ≤ maxWantlistEntries := by
        unfold fullWanted; simp [List.length_take]; omega
      simp only [ExtTreeSet.size_empty] at this
      show (List.foldl (fun (s : KSet) k => s.insert k) ∅ (fullWanted es)).size ≤ _
      omega
  | false =>
    rw [processWantlist_update]
    obtain ⟨c1, ⟨r, c2, c3, c4⟩, c5⟩ := cancelLoop_spec (updCancels es) cur []
    obtain ⟨a, a1, a2, a3, a4, a5, _⟩ :=
      addLoop_spec (updAdds es) (cancelLoop cur [] (updCancels es)).1 []
    simp only [List.nil_append] at c2 a1
    refine ⟨?_, ?_, ?_, ?_, ?_, ?_⟩
    · show (processWantlist.addLoop _ _ _).2.Nodup; rw [a1]; exact a2
    · show (cancelLoop _ _ _).2.Nodup; rw [c2]; exact c3
    · intro k
      show k ∈ (processWantlist.addLoop _ _ _).1 ↔ (k ∈ cur ∧ k ∉ (cancelLoop _ _ _).2) ∨
        k ∈ (processWantlist.addLoop _ _ _).2
      rw [a4, a1, c2, c4, c1]; grind
    · intro k; show k ∈ (cancelLoop _ _ _).2 → _; rw [c2, c4]; exact fun h => h.1
    · intro k
      show k ∈ (processWantlist.addLoop _ _ _).2 → k ∉ cur ∨ k ∈ (cancelLoop _ _ _).2
      rw [a1, c2, c4]; intro hk; have := (a3 k hk).1; rw [c1] at this; grind
    · intro hc; show (processWantlist.addLoop _ _ _).1.size ≤ _; exact a5 (by omega)

theorem update_mem_new (cur : KSet) (es : List Entry) (k : Nat)
    (h : k ∈ (processWantlist cur false es).1) :
    (k ∈ cur ∧ (⟨some k, true⟩ : Entry) ∉ es) ∨ (⟨some k, false⟩ : Entry) ∈ es := by
  rw [processWantlist_update] at h
  obtain ⟨c1, _, _⟩ := cancelLoop_spec (updCancels es) cur []
  obtain ⟨a, a1, a2, a3, a4, a5, _⟩ :=
    addLoop_spec (updAdds es) (cancelLoop cur [] (updCancels es)).1 []
  change k ∈ (processWantlist.addLoop _ _ _).1 at h
  rw [a4, c1, mem_updCancels] at h
  rcases h with h | h
  · exact Or.inl h
  · exact Or.inr ((mem_updAdds es k).1 (a3 k h).2)

theorem update_new_mem (cur : KSet) (es : List Entry) (k : Nat)
    (hk : (⟨some k, false⟩ : Entry) ∈ es)
    (hsmall : cur.size + es.length ≤ maxWantlistEntries) :
    k ∈ (processWantlist cur false es).1 := by
  rw [processWantlist_update]
  obtain ⟨_, _, c5⟩ := cancelLoop_spec (updCancels es) cur []
  obtain ⟨a, a1, a2, a3, a4, a5, a6⟩ :=
    addLoop_spec (updAdds es) (cancelLoop cur [] (updCancels es)).1 []
  have := length_updAdds_le es
  exact a6 (by omega) k ((mem_updAdds es k).2 hk)

end Beetswap.Proofs.Server
