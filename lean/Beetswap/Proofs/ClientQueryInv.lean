import Beetswap.Proofs.ClientQueryBasic
/-!
Preservation of `QInv` by every operation of the client transition system.
-/
namespace Beetswap.Proofs.ClientQuery
open Std Beetswap.Client Beetswap.Wl Beetswap.Spec.ClientSpec

/-! ### get -/

theorem QInv.get {s : State} {outs : List Out} (h : QInv s outs) (k : Nat) (fits : Bool) :
    QInv (get s k fits).1 outs := by
  obtain ⟨f1, f2, f3, f4⟩ := h.fresh s.nextQuery (Nat.le_refl _)
  cases fits with
  | false =>
    simp only [Client.get, Bool.false_eq_true, if_false]
    constructor
    · intro q
      have := h.bound q
      simp only [presence_eq, eventsFor_append, eventsFor_err] at this ⊢
      by_cases hq : s.nextQuery = q
      · subst hq; simp; omega
      · simp [hq]; omega
    · intro q
      have := h.issued q
      simp only [presence_eq, eventsFor_append, eventsFor_err] at this ⊢
      by_cases hq : s.nextQuery = q
      · subst hq; simp
      · simp [hq]; omega
    · exact h.ids_nodup
    · exact h.ids_lt
    · exact h.abort_task
    · exact h.task_abort
    · exact h.want_iff
    · exact h.nonempty
    · intro o ho
      simp only [List.mem_append, List.mem_singleton] at ho
      rcases ho with ho | rfl
      · exact h.queue_ev o ho
      · exact ⟨s.nextQuery, by simp [aboutQuery]⟩
  | true =>
    simp only [Client.get, pushTask, if_true]
    have hlive : ∀ q, isLiveGet q { id := s.nextTask, kind := TaskKind.get s.nextQuery k : Task } =
        (s.nextQuery == q) := by
      intro q; simp [isLiveGet]
    constructor
    · intro q
      have := h.bound q
      simp only [presence_eq, lv_append, lv_single, hlive] at this ⊢
      by_cases hq : s.nextQuery = q
      · subst hq; simp; omega
      · simp [hq]; omega
    · intro q
      have := h.issued q
      simp only [presence_eq, lv_append, lv_single, hlive] at this ⊢
      by_cases hq : s.nextQuery = q
      · subst hq; simp
      · simp [hq]; omega
    · simp only [List.map_append, List.map_cons, List.map_nil]
      refine List.nodup_append.2 ⟨h.ids_nodup, by simp, ?_⟩
      intro a ha b hb
      simp only [List.mem_singleton] at hb
      subst hb
      obtain ⟨t, ht, rfl⟩ := List.mem_map.1 ha
      exact Nat.ne_of_lt (h.ids_lt t ht)
    · intro t ht
      simp only [List.mem_append, List.mem_singleton] at ht
      rcases ht with ht | rfl
      · exact Nat.lt_succ_of_lt (h.ids_lt t ht)
      · exact Nat.lt_succ_self _
    · intro q tid hq
      simp only [ExtTreeMap.getElem?_insert] at hq
      by_cases hqq : s.nextQuery = q
      · subst hqq
        simp at hq
        subst hq
        exact ⟨{ id := s.nextTask, kind := TaskKind.get s.nextQuery k }, by simp, rfl, by simp [hlive]⟩
      · have : compare s.nextQuery q ≠ .eq := by simpa using hqq
        simp [this] at hq
        obtain ⟨t, ht, h1, h2⟩ := h.abort_task q tid hq
        exact ⟨t, by simp [ht], h1, h2⟩
    · intro t ht q hl
      simp only [List.mem_append, List.mem_singleton] at ht
      rcases ht with ht | rfl
      · have hpos := lv_pos_of_mem _ t q ht hl
        have hne : s.nextQuery ≠ q := by
          intro e; subst e; omega
        simp only [ExtTreeMap.getElem?_insert]
        have : compare s.nextQuery q ≠ .eq := by simpa using hne
        simp [this]
        exact h.task_abort t ht q hl
      · simp [hlive] at hl
        subst hl
        simp
    · exact h.want_iff
    · exact h.nonempty
    · exact h.queue_ev

theorem get_nextQuery (s : State) (k : Nat) (fits : Bool) :
    (Client.get s k fits).1.nextQuery = s.nextQuery + 1 := by
  cases fits <;> simp [Client.get, pushTask]

/-! ### cancel -/

/-- first half of `cancel`: the abort handle -/
def cancelA (s : State) (q : Nat) : State :=
  match s.abort[q]? with
    | some tid =>
      let live := s.tasks.any (·.id == tid)
      { s with abort := s.abort.erase q,
               tasks := s.tasks.map (fun t => if t.id == tid then { t with aborted := true } else t),
               runq := if live then enqueue s.runq tid else s.runq }
    | none => s

/-- second half of `cancel`: the waiter list -/
def cancelW (s : State) (q : Nat) : State :=
  match s.waiters.keys.find? (fun k => q ∈ (s.waiters[k]?.getD [])) with
  | none => s
  | some k =>
    let qs := (s.waiters[k]?.getD []).erase q
    if qs.isEmpty then
      { s with waiters := s.waiters.erase k, wantlist := (s.wantlist.remove k).1 }
    else { s with waiters := s.waiters.insert k qs }

theorem cancel_eq (s : State) (q : Nat) : cancel s q = cancelW (cancelA s q) q := rfl

theorem isLiveGet_aborted (q : Nat) (t : Task) : isLiveGet q { t with aborted := true } = false := by
  simp [isLiveGet]

theorem cancelA_spec {s : State} {outs : List Out} (h : QInv s outs) (q : Nat) :
    QInv (cancelA s q) outs ∧ lv (cancelA s q).tasks q = 0 ∧
    (∀ q', q' ≠ q → lv (cancelA s q).tasks q' = lv s.tasks q') ∧
    (cancelA s q).waiters = s.waiters ∧ (cancelA s q).queue = s.queue ∧
    (cancelA s q).nextQuery = s.nextQuery ∧ (cancelA s q).wantlist = s.wantlist := by
  unfold cancelA
  cases ha : s.abort[q]? with
  | none =>
    refine ⟨h, ?_, fun _ _ => rfl, rfl, rfl, rfl, rfl⟩
    apply (lv_eq_zero_iff _ _).2
    intro t ht
    cases hl : isLiveGet q t with
    | false => rfl
    | true => have := h.task_abort t ht q hl; rw [ha] at this; cases this
  | some tid =>
    obtain ⟨t0, ht0, hid0, hl0⟩ := h.abort_task q tid ha
    have huniq : ∀ t ∈ s.tasks, t.id = tid → t = t0 := fun t ht e =>
      uniq_of_nodup _ h.ids_nodup t t0 ht ht0 (e.trans hid0.symm)
    have hk0 := (isLiveGet_iff q t0).1 hl0
    let mark : Task → Task := fun t => if t.id == tid then { t with aborted := true } else t
    have hmark_id : ∀ t, (mark t).id = t.id := by
      intro t; simp only [mark]; split <;> rfl
    have hother : ∀ q', q' ≠ q → ∀ t ∈ s.tasks, isLiveGet q' (mark t) = isLiveGet q' t := by
      intro q' hne t ht
      simp only [mark]
      split
      · rename_i e
        have := huniq t ht (by simpa using e)
        subst this
        rw [isLiveGet_aborted]
        obtain ⟨_, k, hk⟩ := hk0
        simp [isLiveGet, hk, Ne.symm hne]
      · rfl
    have hzero : ∀ t ∈ s.tasks, isLiveGet q (mark t) = false := by
      intro t ht
      simp only [mark]
      split
      · exact isLiveGet_aborted q t
      · rename_i e
        cases hl : isLiveGet q t with
        | false => rfl
        | true =>
          have := h.task_abort t ht q hl
          rw [ha] at this
          simp at this
          simp [this] at e
    have hlv0 : lv (s.tasks.map mark) q = 0 := by
      apply (lv_eq_zero_iff _ _).2
      intro t' ht'
      obtain ⟨t, ht, rfl⟩ := List.mem_map.1 ht'
      exact hzero t ht
    have hlv : ∀ q', q' ≠ q → lv (s.tasks.map mark) q' = lv s.tasks q' :=
      fun q' hne => lv_map_congr _ _ _ (hother q' hne)
    have hle : ∀ q', lv (s.tasks.map mark) q' ≤ lv s.tasks q' := by
      intro q'
      by_cases e : q' = q
      · subst e; omega
      · exact Nat.le_of_eq (hlv q' e)
    refine ⟨?_, hlv0, hlv, rfl, rfl, rfl, rfl⟩
    constructor
    · intro q'
      have := h.bound q'
      have := hle q'
      simp only [presence_eq] at *
      show eventsFor outs q' + (lv (s.tasks.map mark) q' + _ + _) ≤ 1
      omega
    · intro q'
      have := h.issued q'
      have := hle q'
      simp only [presence_eq] at *
      show 0 < eventsFor outs q' + (lv (s.tasks.map mark) q' + _ + _) → _
      omega
    · show ((s.tasks.map mark).map (·.id)).Nodup
      rw [List.map_map]
      have : ((fun t : Task => t.id) ∘ mark) = (fun t : Task => t.id) := by
        funext t; exact hmark_id t
      rw [this]; exact h.ids_nodup
    · intro t' ht'
      obtain ⟨t, ht, rfl⟩ := List.mem_map.1 ht'
      rw [hmark_id]; exact h.ids_lt t ht
    · intro q' tid' hq'
      simp only [ExtTreeMap.getElem?_erase] at hq'
      by_cases e : q = q'
      · subst e; simp at hq'
      · have hc : compare q q' ≠ .eq := by simpa using e
        simp [hc] at hq'
        obtain ⟨t, ht, h1, h2⟩ := h.abort_task q' tid' hq'
        refine ⟨mark t, List.mem_map.2 ⟨t, ht, rfl⟩, by rw [hmark_id]; exact h1, ?_⟩
        rw [hother q' (Ne.symm e) t ht]; exact h2
    · intro t' ht' q' hl
      obtain ⟨t, ht, rfl⟩ := List.mem_map.1 ht'
      by_cases e : q = q'
      · subst e; rw [hzero t ht] at hl; cases hl
      · have hc : compare q q' ≠ .eq := by simpa using e
        rw [hother q' (Ne.symm e) t ht] at hl
        show (s.abort.erase q)[q']? = some (mark t).id
        rw [hmark_id, ExtTreeMap.getElem?_erase]
        simp only [hc, if_false]
        exact h.task_abort t ht q' hl
    · exact h.want_iff
    · exact h.nonempty
    · exact h.queue_ev

theorem mem_remove (w : Wantlist) (k k' : Nat) :
    k' ∈ (w.remove k).1.cids ↔ k' ∈ w.cids ∧ k' ≠ k := by
  unfold Wantlist.remove
  by_cases hk : k ∈ w.cids
  · simp only [hk, if_true, ExtTreeSet.mem_erase]
    constructor
    · rintro ⟨h1, h2⟩; exact ⟨h2, fun e => h1 (by simp [e])⟩
    · rintro ⟨h1, h2⟩; exact ⟨by simpa using Ne.symm h2, h1⟩
  · simp only [hk, if_false]
    constructor
    · intro h; exact ⟨h, fun e => hk (e ▸ h)⟩
    · exact fun h => h.1

theorem mem_insert_wl (w : Wantlist) (k k' : Nat) :
    k' ∈ (w.insert k).1.cids ↔ k' ∈ w.cids ∨ k' = k := by
  unfold Wantlist.insert
  by_cases hk : k ∈ w.cids
  · simp only [hk, if_true]
    constructor
    · exact Or.inl
    · rintro (h | rfl); exact h; exact hk
  · simp only [hk, if_false, ExtTreeSet.mem_insert]
    constructor
    · rintro (h | h)
      · right; simpa using Eq.symm (by simpa using h)
      · exact Or.inl h
    · rintro (h | rfl)
      · exact Or.inr h
      · left; simp

theorem cancelW_spec {s : State} {outs : List Out} (h : QInv s outs) (q : Nat) :
    QInv (cancelW s q) outs ∧ wsum (cancelW s q).waiters q = 0 ∧
    (∀ q', q' ≠ q → wsum (cancelW s q).waiters q' = wsum s.waiters q') ∧
    (cancelW s q).tasks = s.tasks ∧ (cancelW s q).queue = s.queue ∧
    (cancelW s q).nextQuery = s.nextQuery := by
  unfold cancelW
  cases hf : s.waiters.keys.find? (fun k => q ∈ (s.waiters[k]?.getD [])) with
  | none =>
    refine ⟨h, ?_, fun _ _ => rfl, rfl, rfl, rfl⟩
    apply (wsum_eq_zero_iff _ _).2
    intro k qs hk hq
    have := List.find?_eq_none.1 hf k (ExtTreeMap.mem_keys.2 (by
      rw [ExtTreeMap.mem_iff_isSome_getElem?, hk]; rfl))
    simp [hk, hq] at this
  | some k =>
    have hk := List.find?_some hf
    simp only [decide_eq_true_eq] at hk
    cases hw : s.waiters[k]? with
    | none => simp [hw] at hk
    | some qs0 =>
      simp only [hw, Option.getD_some] at hk ⊢
      have hb := h.bound q
      have hc := count_le_wsum _ _ _ q hw
      have hcpos : 0 < qs0.count q := List.count_pos_iff.2 hk
      have he := fun q' => wsum_erase s.waiters k q'
      simp only [hw, Option.getD_some] at he
      simp only [presence_eq] at hb
      by_cases hemp : (qs0.erase q).isEmpty = true
      · rw [if_pos hemp]
        have hlen : qs0.length = 1 := by
          have := List.length_erase_of_mem hk
          simp only [List.isEmpty_iff] at hemp
          rw [hemp] at this
          simp at this
          have := List.length_pos_of_mem hk
          omega
        have hqs0 : qs0 = [q] := by
          match qs0, hlen, hk with
          | [a], _, hk => simp at hk; rw [hk]
        subst hqs0
        have hws : ∀ q', wsum (s.waiters.erase k) q' + (if q = q' then 1 else 0) = wsum s.waiters q' := by
          intro q'
          have := he q'
          rw [List.count_singleton] at this
          simpa using this
        refine ⟨?_, ?_, ?_, rfl, rfl, rfl⟩
        · constructor
          · intro q'
            have := h.bound q'
            have := hws q'
            simp only [presence_eq] at *
            omega
          · intro q'
            have := h.issued q'
            have := hws q'
            simp only [presence_eq] at *
            omega
          · exact h.ids_nodup
          · exact h.ids_lt
          · exact h.abort_task
          · exact h.task_abort
          · intro k'
            show k' ∈ (s.wantlist.remove k).1.cids ↔ ∃ qs, (s.waiters.erase k)[k']? = some qs ∧ qs ≠ []
            rw [mem_remove, h.want_iff k', ExtTreeMap.getElem?_erase]
            by_cases e : k = k'
            · subst e; simp
            · have hc : compare k k' ≠ .eq := by simpa using e
              simp [hc, Ne.symm e]
          · intro k' qs hk'
            simp only [ExtTreeMap.getElem?_erase] at hk'
            split at hk'
            · cases hk'
            · exact h.nonempty k' qs hk'
          · exact h.queue_ev
        · show wsum (s.waiters.erase k) q = 0
          have := hws q; simp at this; omega
        · intro q' hne
          have := hws q'
          simp [Ne.symm hne] at this
          exact this
      · rw [if_neg hemp]
        have hws : ∀ q', wsum (s.waiters.insert k (qs0.erase q)) q' + (if q' = q then 1 else 0)
            = wsum s.waiters q' := by
          intro q'
          have h1 := wsum_insert s.waiters k (qs0.erase q) q'
          simp only [hw, Option.getD_some] at h1
          by_cases e : q' = q
          · subst e
            rw [List.count_erase_self] at h1
            simp; omega
          · rw [List.count_erase_of_ne e] at h1
            simp [e]; omega
        refine ⟨?_, ?_, ?_, rfl, rfl, rfl⟩
        · constructor
          · intro q'
            have := h.bound q'
            have := hws q'
            simp only [presence_eq] at *
            omega
          · intro q'
            have := h.issued q'
            have := hws q'
            simp only [presence_eq] at *
            omega
          · exact h.ids_nodup
          · exact h.ids_lt
          · exact h.abort_task
          · exact h.task_abort
          · intro k'
            show k' ∈ s.wantlist.cids ↔ ∃ qs, (s.waiters.insert k (qs0.erase q))[k']? = some qs ∧ qs ≠ []
            rw [h.want_iff k', ExtTreeMap.getElem?_insert]
            by_cases e : k = k'
            · subst e
              rw [if_pos (by simp)]
              constructor
              · intro _; exact ⟨_, rfl, fun e => hemp (by rw [e]; rfl)⟩
              · intro _; exact ⟨qs0, hw, h.nonempty k qs0 hw⟩
            · have hc : compare k k' ≠ .eq := by simpa using e
              simp [hc]
          · intro k' qs hk'
            simp only [ExtTreeMap.getElem?_insert] at hk'
            split at hk'
            · simp only [Option.some.injEq] at hk'; subst hk'; exact fun e => hemp (by rw [e]; rfl)
            · exact h.nonempty k' qs hk'
          · exact h.queue_ev
        · show wsum (s.waiters.insert k (qs0.erase q)) q = 0
          have := hws q; simp at this; omega
        · intro q' hne
          have := hws q'
          simp [hne] at this
          exact this

theorem QInv.cancel {s : State} {outs : List Out} (h : QInv s outs) (q : Nat) :
    QInv (cancel s q) outs := by
  rw [cancel_eq]
  exact (cancelW_spec (cancelA_spec h q).1 q).1

end Beetswap.Proofs.ClientQuery
