import Beetswap.Proofs.CodecParse
/-!
The nesting pre-check of `Codec::decode` (`Frame.checkNesting`) accepts every schema-valid
field tree.
-/
namespace Beetswap.Proofs.Codec
open Beetswap Beetswap.Proto Beetswap.Frame Beetswap.Spec.Wire Beetswap.Spec.Limit

/-! ### `readVarint` on encoded values -/

theorem readVarintAux_of_decAux : ∀ (bs : List Nat) (i acc v : Nat) (rest : List Nat),
    i ≤ 9 → Varint.decAux i acc bs = .ok v rest → readVarintAux i acc bs = some (v, rest) := by
  intro bs
  induction bs with
  | nil => intro i acc v rest _ h; simp [Varint.decAux] at h
  | cons b bs ih =>
    intro i acc v rest hi h
    simp only [Varint.decAux] at h
    have h10 : ¬ i ≥ 10 := by omega
    simp only [readVarintAux, h10, if_false]
    split at h
    · rename_i hb
      split at h
      · cases h
      · cases h; simp [hb]
    · rename_i hb
      split at h
      · cases h
      · rename_i h9
        simp only [hb, if_false]
        exact ih _ _ _ _ (by omega) h

theorem readVarint_enc (v : Nat) (hv : v < 2 ^ 64) (rest : List Nat) :
    readVarint (Varint.enc v ++ rest) = some (v, rest) :=
  readVarintAux_of_decAux _ 0 0 v rest (by omega) (dec_enc v hv rest)

/-! ### one step of `checkNesting` -/

theorem checkNesting_cons (fuel : Nat) (b : Nat) (bs : List Nat) (n : Nesting) :
    checkNesting (fuel + 1) (b :: bs) n =
      match readVarint (b :: bs) with
      | none => false
      | some (tag, rest) =>
        match (tag % 2 ^ 32) % 8 with
        | 0 =>
          match readVarint rest with
          | some (_, rest) => checkNesting fuel rest n
          | none => false
        | 1 => if rest.length ≥ 8 then checkNesting fuel (rest.drop 8) n else false
        | 5 => if rest.length ≥ 4 then checkNesting fuel (rest.drop 4) n else false
        | 2 =>
          match readVarint rest with
          | none => false
          | some (len, rest) =>
            if len > rest.length then false
            else
              (match nestedOf n (tag % 2 ^ 32) with
               | some sub => checkNesting fuel (rest.take len) sub
               | none => true) && checkNesting fuel (rest.drop len) n
        | _ => false := by
  rw [checkNesting]
  · rfl
  · simp

theorem checkNesting_nil (fuel : Nat) (n : Nesting) : checkNesting (fuel + 1) [] n = true := by
  rw [checkNesting]

theorem enc_append_cons (t : Nat) (l : List Nat) : ∃ b bs, Varint.enc t ++ l = b :: bs := by
  have := enc_length_pos t
  cases h : Varint.enc t with
  | nil => rw [h] at this; simp at this
  | cons b bs => exact ⟨b, bs ++ l, rfl⟩

/-- a varint field -/
theorem check_varint_field (fuel t v : Nat) (tail : List Nat) (n : Nesting)
    (ht : t < 2 ^ 32) (h8 : t % 8 = 0) (hv : v < 2 ^ 64) :
    checkNesting (fuel + 1) (Varint.enc t ++ (Varint.enc v ++ tail)) n = checkNesting fuel tail n := by
  obtain ⟨b, bs, hb⟩ := enc_append_cons t (Varint.enc v ++ tail)
  rw [hb, checkNesting_cons, ← hb, readVarint_enc t (by omega)]
  simp only [Nat.mod_eq_of_lt ht, h8, readVarint_enc v hv]

theorem check_fixed64_field (fuel t : Nat) (bs tail : List Nat) (n : Nesting)
    (ht : t < 2 ^ 32) (h8 : t % 8 = 1) (hl : bs.length = 8) :
    checkNesting (fuel + 1) (Varint.enc t ++ (bs ++ tail)) n = checkNesting fuel tail n := by
  obtain ⟨b, bs', hb⟩ := enc_append_cons t (bs ++ tail)
  rw [hb, checkNesting_cons, ← hb, readVarint_enc t (by omega)]
  simp only [Nat.mod_eq_of_lt ht, h8]
  rw [if_pos (by simp; omega), ← hl, List.drop_left']
  rfl

theorem check_fixed32_field (fuel t : Nat) (bs tail : List Nat) (n : Nesting)
    (ht : t < 2 ^ 32) (h8 : t % 8 = 5) (hl : bs.length = 4) :
    checkNesting (fuel + 1) (Varint.enc t ++ (bs ++ tail)) n = checkNesting fuel tail n := by
  obtain ⟨b, bs', hb⟩ := enc_append_cons t (bs ++ tail)
  rw [hb, checkNesting_cons, ← hb, readVarint_enc t (by omega)]
  simp only [Nat.mod_eq_of_lt ht, h8]
  rw [if_pos (by simp; omega), ← hl, List.drop_left']
  rfl

theorem check_len_field (fuel t : Nat) (bs tail : List Nat) (n : Nesting)
    (ht : t < 2 ^ 32) (h8 : t % 8 = 2) (hl : bs.length < 2 ^ 64) :
    checkNesting (fuel + 1) (Varint.enc t ++ (Varint.enc bs.length ++ (bs ++ tail))) n
      = ((match nestedOf n t with
          | some sub => checkNesting fuel bs sub
          | none => true) && checkNesting fuel tail n) := by
  obtain ⟨b, bs', hb⟩ := enc_append_cons t (Varint.enc bs.length ++ (bs ++ tail))
  rw [hb, checkNesting_cons, ← hb, readVarint_enc t (by omega)]
  simp only [Nat.mod_eq_of_lt ht, h8, readVarint_enc bs.length hl]
  rw [if_neg (by simp), List.take_left', List.drop_left'] <;> rfl

/-! ### unknown fields -/

theorem check_unk {known : List (Nat × Nat)} (u : Unk) (hv : u.Valid known) (fuel : Nat)
    (tail : List Nat) (n : Nesting) (hnest : u.wt = 2 → nestedOf n (u.num * 8 + 2) = none) :
    checkNesting (fuel + 1) (u.ser ++ tail) n = checkNesting fuel tail n := by
  have htag := unk_tag_lt u hv
  obtain ⟨_, _, _, h4⟩ := hv
  rw [unk_ser]
  cases u with
  | varint num v =>
    simp only [Unk.payload, Unk.num, Unk.wt, List.append_assoc] at htag ⊢
    exact check_varint_field fuel _ v tail n htag (by omega) h4
  | fixed64 num bs =>
    simp only [Unk.payload, Unk.num, Unk.wt, List.append_assoc] at htag ⊢
    exact check_fixed64_field fuel _ bs tail n htag (by omega) h4.1
  | fixed32 num bs =>
    simp only [Unk.payload, Unk.num, Unk.wt, List.append_assoc] at htag ⊢
    exact check_fixed32_field fuel _ bs tail n htag (by omega) h4.1
  | len num bs =>
    simp only [Unk.payload, Unk.num, Unk.wt, List.append_assoc] at htag hnest ⊢
    have h4 : bs.length < 2 ^ 32 := h4.1
    rw [check_len_field fuel _ bs tail n htag (by omega) (by omega), hnest trivial]
    simp

/-! ### leaves: Entry, Block, BlockPresence -/

theorem check_entryFld (f : EntryFld) (hv : f.Valid) (fuel : Nat) (tail : List Nat) :
    checkNesting (fuel + 1) (EntryFld.ser f ++ tail) .leaf = checkNesting fuel tail .leaf := by
  cases f with
  | block bs =>
    simp only [EntryFld.ser, uvar_eq_enc', List.append_assoc]
    rw [check_len_field fuel _ bs tail _ (by omega) (by omega) (by have := hv.1; omega)]
    simp [nestedOf]
  | priority v =>
    simp only [EntryFld.ser, uvar_eq_enc', List.append_assoc]
    exact check_varint_field fuel _ v tail _ (by omega) (by omega) (i32wire_lt hv)
  | cancel v =>
    simp only [EntryFld.ser, uvar_eq_enc', List.append_assoc]
    exact check_varint_field fuel _ v tail _ (by omega) (by omega) (boolwire_lt hv)
  | wantType v =>
    simp only [EntryFld.ser, uvar_eq_enc', List.append_assoc]
    exact check_varint_field fuel _ v tail _ (by omega) (by omega) (i32wire_lt hv)
  | sendDontHave v =>
    simp only [EntryFld.ser, uvar_eq_enc', List.append_assoc]
    exact check_varint_field fuel _ v tail _ (by omega) (by omega) (boolwire_lt hv)
  | unk u =>
    exact check_unk u hv fuel tail _ (fun _ => by simp [nestedOf])

theorem check_serEntry : ∀ (fs : List EntryFld) (fuel : Nat),
    (∀ f ∈ fs, f.Valid) → (serEntry fs).length + 1 ≤ fuel →
    checkNesting fuel (serEntry fs) .leaf = true := by
  intro fs
  induction fs with
  | nil =>
    intro fuel _ hf
    obtain ⟨fuel, rfl⟩ : ∃ k, fuel = k + 1 := ⟨fuel - 1, by omega⟩
    simp [serEntry, checkNesting_nil]
  | cons f fs ih =>
    intro fuel hv hf
    obtain ⟨fuel, rfl⟩ : ∃ k, fuel = k + 1 := ⟨fuel - 1, by omega⟩
    have hpos := EntryFld_ser_pos f
    rw [serEntry_cons] at hf ⊢
    simp only [List.length_append] at hf
    rw [check_entryFld f (hv f (by simp))]
    exact ih fuel (fun g hg => hv g (by simp [hg])) (by omega)

theorem check_blockFld (f : BlockFld) (hv : f.Valid) (fuel : Nat) (tail : List Nat) :
    checkNesting (fuel + 1) (BlockFld.ser f ++ tail) .leaf = checkNesting fuel tail .leaf := by
  cases f with
  | pfx bs =>
    simp only [BlockFld.ser, uvar_eq_enc', List.append_assoc]
    rw [check_len_field fuel _ bs tail _ (by omega) (by omega) (by have := hv.1; omega)]
    simp [nestedOf]
  | data bs =>
    simp only [BlockFld.ser, uvar_eq_enc', List.append_assoc]
    rw [check_len_field fuel _ bs tail _ (by omega) (by omega) (by have := hv.1; omega)]
    simp [nestedOf]
  | unk u =>
    exact check_unk u hv fuel tail _ (fun _ => by simp [nestedOf])

theorem check_serBlock : ∀ (fs : List BlockFld) (fuel : Nat),
    (∀ f ∈ fs, f.Valid) → (serBlock fs).length + 1 ≤ fuel →
    checkNesting fuel (serBlock fs) .leaf = true := by
  intro fs
  induction fs with
  | nil =>
    intro fuel _ hf
    obtain ⟨fuel, rfl⟩ : ∃ k, fuel = k + 1 := ⟨fuel - 1, by omega⟩
    simp [serBlock, checkNesting_nil]
  | cons f fs ih =>
    intro fuel hv hf
    obtain ⟨fuel, rfl⟩ : ∃ k, fuel = k + 1 := ⟨fuel - 1, by omega⟩
    have hpos := BlockFld_ser_pos f
    rw [serBlock_cons] at hf ⊢
    simp only [List.length_append] at hf
    rw [check_blockFld f (hv f (by simp))]
    exact ih fuel (fun g hg => hv g (by simp [hg])) (by omega)

theorem check_presenceFld (f : PresenceFld) (hv : f.Valid) (fuel : Nat) (tail : List Nat) :
    checkNesting (fuel + 1) (PresenceFld.ser f ++ tail) .leaf = checkNesting fuel tail .leaf := by
  cases f with
  | cid bs =>
    simp only [PresenceFld.ser, uvar_eq_enc', List.append_assoc]
    rw [check_len_field fuel _ bs tail _ (by omega) (by omega) (by have := hv.1; omega)]
    simp [nestedOf]
  | type v =>
    simp only [PresenceFld.ser, uvar_eq_enc', List.append_assoc]
    exact check_varint_field fuel _ v tail _ (by omega) (by omega) (i32wire_lt hv)
  | unk u =>
    exact check_unk u hv fuel tail _ (fun _ => by simp [nestedOf])

theorem check_serPresence : ∀ (fs : List PresenceFld) (fuel : Nat),
    (∀ f ∈ fs, f.Valid) → (serPresence fs).length + 1 ≤ fuel →
    checkNesting fuel (serPresence fs) .leaf = true := by
  intro fs
  induction fs with
  | nil =>
    intro fuel _ hf
    obtain ⟨fuel, rfl⟩ : ∃ k, fuel = k + 1 := ⟨fuel - 1, by omega⟩
    simp [serPresence, checkNesting_nil]
  | cons f fs ih =>
    intro fuel hv hf
    obtain ⟨fuel, rfl⟩ : ∃ k, fuel = k + 1 := ⟨fuel - 1, by omega⟩
    have hpos := PresenceFld_ser_pos f
    rw [serPresence_cons] at hf ⊢
    simp only [List.length_append] at hf
    rw [check_presenceFld f (hv f (by simp))]
    exact ih fuel (fun g hg => hv g (by simp [hg])) (by omega)

/-! ### Wantlist -/

theorem check_wantlistFld (f : WantlistFld) (hv : f.Valid) (fuel : Nat) (tail : List Nat)
    (hf : (WantlistFld.ser f).length ≤ fuel) :
    checkNesting (fuel + 1) (WantlistFld.ser f ++ tail) .wantlist
      = checkNesting fuel tail .wantlist := by
  cases f with
  | entry fs =>
    simp only [WantlistFld.ser, uvar_eq_enc', List.append_assoc, List.length_append] at hf ⊢
    have hpos := enc_length_pos (1 * 8 + 2)
    rw [check_len_field fuel _ _ tail _ (by omega) (by omega) (by have := hv.2; omega)]
    simp only [nestedOf, if_true]
    rw [check_serEntry fs fuel hv.1 (by omega)]
    simp
  | full v =>
    simp only [WantlistFld.ser, uvar_eq_enc', List.append_assoc]
    exact check_varint_field fuel _ v tail _ (by omega) (by omega) (boolwire_lt hv)
  | unk u =>
    have hv : u.Valid wantlistKnown := hv
    refine check_unk u hv fuel tail _ (fun hw => ?_)
    have h := (wantlistLoop_unk_tag u hv).1
    rw [hw] at h
    simp [nestedOf, h]

theorem check_serWantlist : ∀ (fs : List WantlistFld) (fuel : Nat),
    (∀ f ∈ fs, f.Valid) → (serWantlist fs).length + 1 ≤ fuel →
    checkNesting fuel (serWantlist fs) .wantlist = true := by
  intro fs
  induction fs with
  | nil =>
    intro fuel _ hf
    obtain ⟨fuel, rfl⟩ : ∃ k, fuel = k + 1 := ⟨fuel - 1, by omega⟩
    simp [serWantlist, checkNesting_nil]
  | cons f fs ih =>
    intro fuel hv hf
    obtain ⟨fuel, rfl⟩ : ∃ k, fuel = k + 1 := ⟨fuel - 1, by omega⟩
    have hpos := WantlistFld_ser_pos f
    rw [serWantlist_cons] at hf ⊢
    simp only [List.length_append] at hf
    rw [check_wantlistFld f (hv f (by simp)) fuel _ (by omega)]
    exact ih fuel (fun g hg => hv g (by simp [hg])) (by omega)

/-! ### Message -/

theorem check_msgFld (f : MsgFld) (hv : f.Valid) (fuel : Nat) (tail : List Nat)
    (hf : (MsgFld.ser f).length ≤ fuel) :
    checkNesting (fuel + 1) (MsgFld.ser f ++ tail) .message
      = checkNesting fuel tail .message := by
  cases f with
  | wantlist fs =>
    simp only [MsgFld.ser, uvar_eq_enc', List.append_assoc, List.length_append] at hf ⊢
    have hpos := enc_length_pos (1 * 8 + 2)
    rw [check_len_field fuel _ _ tail _ (by omega) (by omega) (by have := hv.2; omega)]
    simp only [nestedOf, if_true]
    rw [check_serWantlist fs fuel hv.1 (by omega)]
    simp
  | payload fs =>
    simp only [MsgFld.ser, uvar_eq_enc', List.append_assoc, List.length_append] at hf ⊢
    have hpos := enc_length_pos (3 * 8 + 2)
    rw [check_len_field fuel _ _ tail _ (by omega) (by omega) (by have := hv.2; omega)]
    have hc := check_serBlock fs fuel hv.1 (by omega)
    simp [nestedOf, hc]
  | presence fs =>
    simp only [MsgFld.ser, uvar_eq_enc', List.append_assoc, List.length_append] at hf ⊢
    have hpos := enc_length_pos (4 * 8 + 2)
    rw [check_len_field fuel _ _ tail _ (by omega) (by omega) (by have := hv.2; omega)]
    have hc := check_serPresence fs fuel hv.1 (by omega)
    simp [nestedOf, hc]
  | pendingBytes v =>
    simp only [MsgFld.ser, uvar_eq_enc', List.append_assoc]
    exact check_varint_field fuel _ v tail _ (by omega) (by omega) (i32wire_lt hv)
  | unk u =>
    have hv : u.Valid messageKnown := hv
    refine check_unk u hv fuel tail _ (fun hw => ?_)
    obtain ⟨h1, h2, h3, _⟩ := messageLoop_unk_tag u hv
    rw [hw] at h1 h2 h3
    simp [nestedOf, h1, h2, h3]

theorem check_serMessage : ∀ (fs : List MsgFld) (fuel : Nat),
    (∀ f ∈ fs, f.Valid) → (serMessage fs).length + 1 ≤ fuel →
    checkNesting fuel (serMessage fs) .message = true := by
  intro fs
  induction fs with
  | nil =>
    intro fuel _ hf
    obtain ⟨fuel, rfl⟩ : ∃ k, fuel = k + 1 := ⟨fuel - 1, by omega⟩
    simp [serMessage, checkNesting_nil]
  | cons f fs ih =>
    intro fuel hv hf
    obtain ⟨fuel, rfl⟩ : ∃ k, fuel = k + 1 := ⟨fuel - 1, by omega⟩
    have hpos := MsgFld_ser_pos f
    rw [serMessage_cons] at hf ⊢
    simp only [List.length_append] at hf
    rw [check_msgFld f (hv f (by simp)) fuel _ (by omega)]
    exact ih fuel (fun g hg => hv g (by simp [hg])) (by omega)

end Beetswap.Proofs.Codec
