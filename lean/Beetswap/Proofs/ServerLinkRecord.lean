import Beetswap.Proofs.ServerLink
/-!
When the server half knows a peer: exactly while one of the peer's connections is in the swarm's
pool (`Model/ServerLink`), for every schedule.
-/
namespace Beetswap.Proofs.ServerLink
open Std Beetswap Beetswap.ServerLink
open Beetswap.Proofs.Server (uhInner uhStep kmap_get_insert kmap_get_erase kmap_mem_iff kmap_mem_keys uhInner_wl_get updateHandlers_eq
  drain_eq pollTasks_rel incoming_wl incoming_none)

/-! ### Which peers the server behaviour has a record for -/

def known (s : Server.State) (q : Nat) : Bool := (s.wl[q]?).isSome

theorem mem_wl_iff (s : Server.State) (q : Nat) : q ∈ s.wl ↔ known s q = true := by
  rw [kmap_mem_iff, known, Option.isSome_iff_exists]

theorem uhInner_known (k : Nat) (kd : Nat × Nat) (acc : Server.State × Proofs.Server.Batches) (p q : Nat) :
    known (uhInner k kd acc p).1 q = known acc.1 q := by
  unfold known
  rw [uhInner_wl_get]
  split
  · rename_i h; subst h; cases acc.1.wl[q]? <;> rfl
  · rfl

theorem uhInner_fold_known (k : Nat) (kd : Nat × Nat) (ps : List Nat) (acc : Server.State × Proofs.Server.Batches) (q : Nat) :
    known (ps.foldl (uhInner k kd) acc).1 q = known acc.1 q := by
  induction ps generalizing acc with
  | nil => rfl
  | cons p ps ih => rw [List.foldl_cons, ih, uhInner_known]

theorem uhStep_known (acc : Server.State × Proofs.Server.Batches) (kd : Nat × Nat) (q : Nat) :
    known (uhStep acc kd).1 q = known acc.1 q := by
  unfold uhStep
  split
  · rfl
  · rw [uhInner_fold_known]; rfl

theorem uhStep_fold_known (l : List (Nat × Nat)) (acc : Server.State × Proofs.Server.Batches) (q : Nat) :
    known (l.foldl uhStep acc).1 q = known acc.1 q := by
  induction l generalizing acc with
  | nil => rfl
  | cons kd l ih => rw [List.foldl_cons, ih, uhStep_known]

theorem drain_known (s : Server.State) (seq : Nat) (obs : Nat → Option Nat) (q : Nat) :
    known (Server.drain s seq obs).1 q = known s q := by
  rw [drain_eq]
  dsimp only
  rw [updateHandlers_eq]
  dsimp only
  rw [uhStep_fold_known]
  have := (pollTasks_rel s.runq { s with evq := [], runq := [] } seq obs).wl
  unfold known
  dsimp only
  rw [this]

theorem incoming_known (s : Server.State) (p : Nat) (full : Bool) (es : List Server.Entry) (q : Nat) :
    known (Server.incoming s p full es) q = known s q := by
  cases hc : s.wl[p]? with
  | none => rw [incoming_none s p full es hc]
  | some cur =>
    unfold known
    rw [incoming_wl s p full es cur hc, kmap_get_insert]
    split
    · rename_i h; subst h; rw [hc]; rfl
    · rfl

theorem complete_known (s : Server.State) (n : Nat) (r : Client.StoreRes) (q : Nat) :
    known ((Server.complete s n r).getD s) q = known s q := by
  unfold Server.complete
  split <;> rfl

theorem plain_known (s : Server.State) (seq : Nat) (op : Server.Op) (hp : plain op = true) (q : Nat) :
    known (Server.step s seq op).1 q = known s q := by
  cases op with
  | msg p full es => exact incoming_known s p full es q
  | newBlocks bs => rfl
  | complete n r => exact complete_known s n r q
  | _ => simp [plain] at hp

theorem connect_known (s : Server.State) (p q : Nat) :
    known (Server.connect s p) q = (decide (q = p) || known s q) := by
  unfold Server.connect
  split
  · rename_i h
    by_cases hq : q = p
    · subst hq; simp [(mem_wl_iff s q).1 h]
    · simp [hq]
  · unfold known
    dsimp only
    rw [kmap_get_insert]
    by_cases hq : q = p <;> simp [hq]

theorem disconnected_known (s : Server.State) (p q : Nat) :
    known (Server.disconnected s p) q = (!decide (q = p) && known s q) := by
  unfold known Server.disconnected
  dsimp only
  rw [kmap_get_erase]
  by_cases hq : q = p <;> simp [hq]

/-! ### The record invariant -/

/-- peer `p` has a connection in the swarm's pool -/
def Connected (links : KMap Link) (p : Nat) : Prop :=
  ∃ (c : Nat) (l : Link), links[c]? = some l ∧ l.peer = p ∧ l.gone = false

def RInv (s : State) : Prop := ∀ p, known s.sv p = true ↔ Connected s.links p

theorem connected_insert_same {links : KMap Link} {c : Nat} {l l' : Link} (hl : links[c]? = some l)
    (hp : l'.peer = l.peer) (hg : l'.gone = l.gone) (p : Nat) :
    Connected (links.insert c l') p ↔ Connected links p := by
  constructor
  · rintro ⟨c1, l1, h1, h2, h3⟩
    rw [kmap_get_insert] at h1
    by_cases hcc : c1 = c
    · subst hcc
      simp only [if_true, Option.some.injEq] at h1; subst h1
      exact ⟨c1, l, hl, by rw [← hp]; exact h2, by rw [← hg]; exact h3⟩
    · simp only [hcc, if_false] at h1
      exact ⟨c1, l1, h1, h2, h3⟩
  · rintro ⟨c1, l1, h1, h2, h3⟩
    by_cases hcc : c1 = c
    · subst hcc
      rw [hl] at h1; cases h1
      exact ⟨c1, l', by rw [kmap_get_insert]; simp, by rw [hp]; exact h2, by rw [hg]; exact h3⟩
    · exact ⟨c1, l1, by rw [kmap_get_insert]; simp [hcc, h1], h2, h3⟩

theorem connected_iff_pool (links : KMap Link) (p : Nat) : Connected links p ↔ (poolOf links p).isEmpty = false := by
  constructor
  · rintro ⟨c, l, h1, h2, h3⟩
    have := mem_poolOf h1 h2 h3
    cases hp : poolOf links p with
    | nil => rw [hp] at this; cases this
    | cons _ _ => rfl
  · intro h
    cases hp : poolOf links p with
    | nil => rw [hp] at h; cases h
    | cons c cs =>
      obtain ⟨l, a, b, d⟩ := poolOf_mem (links := links) (p := p) (c := c) (by rw [hp]; simp)
      exact ⟨c, l, a, b, d⟩

theorem rinv_init : RInv {} := by
  intro p
  constructor
  · intro h; simp [known] at h
  · rintro ⟨c, l, h1, _, _⟩; simp at h1

theorem rinv_step (s : State) (h : RInv s) (a : Act) : RInv (ServerLink.step s a) := by
  cases a with
  | server op =>
    simp only [ServerLink.step]
    split
    · rename_i hp
      intro p
      show known (Server.step s.sv s.seq op).1 p = true ↔ Connected s.links p
      rw [plain_known s.sv s.seq op hp]; exact h p
    · exact h
  | connect p c =>
    simp only [ServerLink.step]
    split
    · exact h
    · rename_i hc
      have hnone : s.links[c]? = none := by
        cases hg : s.links[c]? with
        | none => rfl
        | some l => exact absurd ((kmap_mem_iff _ _).2 ⟨l, hg⟩) hc
      intro q
      show known (Server.connect s.sv p) q = true ↔ Connected (s.links.insert c { peer := p }) q
      rw [connect_known]
      constructor
      · intro hk
        by_cases hq : q = p
        · subst hq
          exact ⟨c, { peer := q }, by rw [kmap_get_insert]; simp, rfl, rfl⟩
        · simp only [hq, decide_false, Bool.false_or] at hk
          obtain ⟨c1, l1, h1, h2, h3⟩ := (h q).1 hk
          have hcc : c1 ≠ c := by intro e; subst e; rw [hnone] at h1; cases h1
          exact ⟨c1, l1, by rw [kmap_get_insert]; simp [hcc, h1], h2, h3⟩
      · rintro ⟨c1, l1, h1, h2, h3⟩
        rw [kmap_get_insert] at h1
        by_cases hcc : c1 = c
        · subst hcc
          simp only [if_true, Option.some.injEq] at h1; subst h1
          have : p = q := h2
          simp [this]
        · simp only [hcc, if_false] at h1
          have := (h q).2 ⟨c1, l1, h1, h2, h3⟩
          simp [this]
  | drain obs =>
    intro p
    show known (Server.drain s.sv s.seq obs).1 p = true ↔ Connected s.links p
    rw [drain_known]; exact h p
  | take =>
    simp only [ServerLink.step]
    split
    · exact h
    · exact h
  | accept c =>
    simp only [ServerLink.step]
    split
    · split
      · rename_i l hl
        split
        · intro p
          show known s.sv p = true ↔ Connected (s.links.insert c _) p
          (refine (h p).trans (Iff.symm ?_); apply connected_insert_same hl <;> rfl)
        · exact h
      · exact h
    · exact h
  | giveUp =>
    simp only [ServerLink.step]
    split
    · split
      · exact h
      · exact h
    · exact h
  | deliverCmd c =>
    simp only [ServerLink.step]
    split
    · rename_i l hl
      split
      · split
        · exact h
        · intro p
          show known s.sv p = true ↔ Connected (s.links.insert c _) p
          (refine (h p).trans (Iff.symm ?_); apply connected_insert_same hl <;> rfl)
      · exact h
    · exact h
  | handler c i =>
    simp only [ServerLink.step]
    split
    · rename_i l hl
      split
      · exact h
      · intro p
        show known s.sv p = true ↔ Connected (s.links.insert c _) p
        (refine (h p).trans (Iff.symm ?_); apply connected_insert_same hl <;> rfl)
    · exact h
  | beginClose c =>
    simp only [ServerLink.step]
    split
    · rename_i l hl
      split
      · exact h
      · intro p
        show known s.sv p = true ↔ Connected (s.links.insert c _) p
        (refine (h p).trans (Iff.symm ?_); apply connected_insert_same hl <;> rfl)
    · exact h
  | swarmClosed c =>
    simp only [ServerLink.step]
    split
    · rename_i l hl
      split
      · rename_i hcond
        simp only [Bool.and_eq_true, Bool.not_eq_true'] at hcond
        obtain ⟨_, hg⟩ := hcond
        intro q
        -- connections of other peers are untouched
        have hother : q ≠ l.peer → (Connected (s.links.insert c { l with gone := true }) q ↔ Connected s.links q) := by
          intro hq
          constructor
          · rintro ⟨c1, l1, h1, h2, h3⟩
            rw [kmap_get_insert] at h1
            by_cases hcc : c1 = c
            · subst hcc
              simp only [if_true, Option.some.injEq] at h1; subst h1
              cases h3
            · simp only [hcc, if_false] at h1
              exact ⟨c1, l1, h1, h2, h3⟩
          · rintro ⟨c1, l1, h1, h2, h3⟩
            have hcc : c1 ≠ c := by
              intro e; subst e; rw [hl] at h1; cases h1; exact hq h2.symm
            exact ⟨c1, l1, by rw [kmap_get_insert]; simp [hcc, h1], h2, h3⟩
        split
        · rename_i hempty
          show known (Server.disconnected s.sv l.peer) q = true ↔ _
          rw [disconnected_known]
          by_cases hq : q = l.peer
          · subst hq
            simp only [decide_true, Bool.not_true, Bool.false_and, Bool.false_eq_true, false_iff]
            intro hc
            have := (connected_iff_pool _ _).1 hc
            rw [hempty] at this; cases this
          · simp only [hq, decide_false, Bool.not_false, Bool.true_and]
            rw [hother hq]; exact h q
        · rename_i hne
          show known s.sv q = true ↔ _
          by_cases hq : q = l.peer
          · subst hq
            have h1 : known s.sv l.peer = true := (h l.peer).2 ⟨c, l, hl, rfl, hg⟩
            have h2 : Connected (s.links.insert c { l with gone := true }) l.peer := by
              apply (connected_iff_pool _ _).2
              cases hp : (poolOf (s.links.insert c { l with gone := true }) l.peer).isEmpty
              · rfl
              · exact absurd hp hne
            exact ⟨fun _ => h2, fun _ => h1⟩
          · rw [hother hq]; exact h q
      · exact h
    · exact h

theorem rinv_reachable {s : State} (hr : Reachable s) : RInv s := by
  induction hr with
  | init => exact rinv_init
  | step a _ ih => exact rinv_step _ ih a

end Beetswap.Proofs.ServerLink
