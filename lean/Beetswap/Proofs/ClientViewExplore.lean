import Beetswap.Spec.ClientSpec
/-! Scratch: executable falsification of PeerInv / GInv and of the C04 / C17 conclusions.
Not imported by anything. -/
namespace Beetswap.Proofs.ClientViewExplore
open Std Beetswap.Client Beetswap.Wl Beetswap.Spec.ClientSpec

def cidU : List Nat := [0, 1, 2]
def peerU : List Nat := [0, 1]
def connU : List Nat := [1, 2, 3]

def imp (a b : Bool) : Bool := !a || b

/-- Bool version of PeerInv; returns the list of violated conjunct names -/
def peerInvB (s : State) (ps : PeerSt) (g : Ghost) : List String :=
  let r (k : Nat) := ps.wl.req[k]?
  let chk (name : String) (f : Nat → Bool) : List String := if cidU.all f then [] else [name]
  chk "asked_told" (fun k => imp (r k = some .sentWantHave || r k = some .sentWantBlock) (k ∈ g.told))
  ++ chk "got_deliv" (fun k => imp (r k = some .gotBlock) (k ∈ g.deliv))
  ++ chk "got_unwanted" (fun k => imp (r k = some .gotBlock) (k ∉ s.wantlist.cids))
  ++ chk "dh_iff" (fun k => decide (k ∈ g.dh) == decide (r k = some .gotDontHave))
  ++ chk "told_tracked" (fun k => imp (decide (k ∈ g.told) && decide (r k = none)) (k ∈ g.deliv))
  ++ chk "wb_have" (fun k => imp (r k = some .gotHave || r k = some .sentWantBlock) (k ∈ g.haveOk))
  ++ chk "have_forces" (fun k => imp (r k = some .gotHave) ps.wl.force)
  ++ chk "synced_keys" (fun k => imp (ps.wl.synced == s.wantlist.revision)
        (decide (k ∈ ps.wl.req) == decide (k ∈ s.wantlist.cids)))
  ++ (if ps.wl.synced ≤ s.wantlist.revision then [] else ["synced_le"])

def isSend : Out → Bool | .send .. => true | _ => false

def gInvB (x : GSys) : List String :=
  (x.sys.s.peers.toList.flatMap fun (p, ps) =>
    (match x.ghost[p]? with
      | none => ["noghost"]
      | some g => peerInvB x.sys.s ps g)
    ++ (if ps.conns.isEmpty then ["conns_empty"] else []))
  ++ (if x.sys.s.wantlist.revision = 0 && !x.sys.s.wantlist.cids.isEmpty then ["rev_zero"] else [])
  ++ (if x.sys.s.queue.any isSend then ["queue_send"] else [])
  ++ (if x.ghost.keys == x.sys.s.peers.keys then [] else ["ghostkeys"])

def quiescentB (s : State) (ps : PeerSt) : Bool :=
  ps.sending = .ready && ps.sendFull = false && ps.wl.isUpdated s.wantlist

def quiescentChk (x : GSys) : List String :=
  x.sys.s.peers.toList.flatMap fun (p, ps) =>
    match x.ghost[p]? with
    | none => []
    | some g =>
      if quiescentB x.sys.s ps then
        (if cidU.all (fun k => imp (decide (k ∈ g.told) && decide (k ∉ g.deliv)) (k ∈ x.sys.s.wantlist.cids)) then [] else ["q_sound"])
        ++ (if cidU.all (fun k => imp (k ∈ x.sys.s.wantlist.cids) (decide (k ∈ g.told) || decide (k ∈ g.dh))) then [] else ["q_complete"])
      else []

/-- checks on the outputs of a step -/
def stepChk (x : GSys) (x' : GSys) (outs : List Out) : List String :=
  outs.flatMap fun o => match o with
    | .send p _ m =>
      match x.ghost[p]? with
      | none => ["send_no_session"]
      | some g =>
        (if m.full then
          (if m.cancel.isEmpty then [] else ["full_cancel"])
          ++ (if cidU.all (fun k => decide (k ∈ m.wantHave ∨ k ∈ m.wantBlock)
                == (decide (k ∈ x'.sys.s.wantlist.cids) && decide (k ∉ g.dh))) then [] else ["full_exact"])
         else [])
        ++ (if m.wantBlock.all (fun k => k ∈ g.haveOk) then [] else ["wb_needs_have"])
        ++ (if (sendsTo outs p).length ≤ 1 then [] else ["two_sends"])
    | _ => []

def prefs : List (Nat → Option Nat) :=
  [fun _ => none, fun _ => some 1, fun _ => some 2, fun _ => some 3,
   fun p => if p = 0 then some 3 else some 1]

def sendings : List Sending :=
  [.ready, .requested 0 1, .requested 0 2] ++ connU.flatMap fun c =>
    [.requestReceived c, .sending c, .failed c]

def allOps (x : GSys) : Array Op := Id.run do
  let mut a : Array Op := #[]
  for p in peerU do
    for c in connU do
      a := a.push (.connect p c)
      if x.sys.s.nextTask % 3 == 1 then a := a.push (.closed p c)
  for k in cidU do
    a := a.push (.get k true)
  a := a.push (.get 0 false)
  for q in List.range (min x.sys.s.nextQuery 4) do
    a := a.push (.cancel q)
  for n in List.range x.sys.seq do
    if x.sys.s.tasks.any (fun t => match t.st with | .waiting m => m == n | _ => false) then
      for r in [StoreRes.hit 7, .miss, .miss, .miss, .error, .putOk, .putErr] do
        a := a.push (.complete n r)
  for p in peerU do
    for k in cidU do
      a := a.push (.msg p [k] [] [])
      a := a.push (.msg p [] [k] [])
      a := a.push (.msg p [] [] [(k, 9)])
    a := a.push (.msg p [0] [0] [(0, 1), (0, 2)])
    a := a.push (.msg p [0, 1] [1] [(1, 1)])
    for _ in List.range 8 do
      a := a.push (.sending p .ready)
    if x.sys.now % 3 == 0 then
      for st in sendings do
        a := a.push (.sending p st)
      a := a.push (.sending p (.requested x.sys.now 1))
      a := a.push (.sending p (.requested x.sys.now 2))
  a := a.push (.tick 1000)
  a := a.push (.tick 1)
  if x.sys.s.nextQuery % 4 == 3 then a := a.push (.tick 30000)
  for pr in prefs do
    a := a.push (.drain pr)
    a := a.push (.drain pr)
    a := a.push (.drain pr)
  a := a.push .takeNewBlocks
  return a

def opName : Op → String
  | .connect p c => s!"connect {p} {c}"
  | .closed p c => s!"closed {p} {c}"
  | .get k f => s!"get {k} {f}"
  | .cancel q => s!"cancel {q}"
  | .complete n r => s!"complete {n} {repr r}"
  | .msg p hs ds bs => s!"msg {p} {hs} {ds} {bs}"
  | .sending p st => s!"sending {p} {repr st}"
  | .tick ms => s!"tick {ms}"
  | .drain pr => s!"drain pref={[pr 0, pr 1]}"
  | .takeNewBlocks => "takeNewBlocks"

instance : Inhabited Op := ⟨.takeNewBlocks⟩

def lcg (r : Nat) : Nat := (r * 6364136223846793005 + 1442695040888963407) % 18446744073709551616

/-- random walks; returns first violation (trace + names) and total number of transitions -/
def explore (walks depth : Nat) (seed : Nat) : Option (List String × List String) × Nat × Nat := Id.run do
  let mut r := seed
  let mut n := 0
  let mut qn := 0
  for _ in List.range walks do
    let mut x : GSys := {}
    let mut trace : List String := []
    for _ in List.range depth do
      let ops := allOps x
      r := lcg r
      let op := ops[(r / 65536) % ops.size]!
      let (x', outs) := gstep x op
      trace := trace ++ [opName op]
      n := n + 1
      let qc := quiescentChk x'
      if x'.sys.s.peers.toList.any (fun pp => quiescentB x'.sys.s pp.2) then qn := qn + 1
      let v := gInvB x' ++ qc ++ stepChk x x' outs
      if !v.isEmpty then
        return (some (trace, v), n, qn)
      x := x'
  return (none, n, qn)


/-- coverage counters: [full sends, update sends, sends with wantBlock, sends with cancel,
 quiescent with nonempty wantlist, peers with gotBlock entry, peers with dh nonempty, told with deliv] -/
def cover (walks depth : Nat) (seed : Nat) : List Nat := Id.run do
  let mut r := seed
  let mut c : Array Nat := Array.replicate 8 0
  for _ in List.range walks do
    let mut x : GSys := {}
    for _ in List.range depth do
      let ops := allOps x
      r := lcg r
      let op := ops[(r / 65536) % ops.size]!
      let (x', outs) := gstep x op
      for o in outs do
        match o with
        | .send _ _ m =>
          if m.full then c := c.modify 0 (· + 1) else c := c.modify 1 (· + 1)
          if !m.wantBlock.isEmpty then c := c.modify 2 (· + 1)
          if !m.cancel.isEmpty then c := c.modify 3 (· + 1)
        | _ => pure ()
      for (p, ps) in x'.sys.s.peers.toList do
        if quiescentB x'.sys.s ps && !x'.sys.s.wantlist.cids.isEmpty then c := c.modify 4 (· + 1)
        if cidU.any (fun k => ps.wl.req[k]? = some .gotBlock) then c := c.modify 5 (· + 1)
        match x'.ghost[p]? with
        | some g =>
          if !g.dh.isEmpty then c := c.modify 6 (· + 1)
          if cidU.any (fun k => decide (k ∈ g.told) && decide (k ∈ g.deliv)) then c := c.modify 7 (· + 1)
        | none => pure ()
      x := x'
  return c.toList

end Beetswap.Proofs.ClientViewExplore

open Beetswap.Proofs.ClientViewExplore
-- runs performed: explore 10000 60 12345; explore 10000 60 4242; explore 2000 300 777 (1.8M transitions, no violation)
#eval cover 300 60 99
#eval explore 500 60 4242


