import Beetswap.Model.Net
/-!
Proofs about the two-node composition (C02, and the "records agree" consequence of C14).
The statements below are used by `Props/C02` / `Props/C14`.
-/
namespace Beetswap.Proofs.Net
open Std Beetswap.Net Beetswap.Wl
open Beetswap.Client (PeerSt)

/-- Every state the two connected nodes can reach: any user behaviour at the requesting node (any
gets, cancels, refresh expiries) interleaved in any order with any scheduling of the internal
actions (drains, blockstore completions in any order, deliveries). -/
inductive Reachable (store : KMap Nat) : State → Prop where
  | init : Reachable store (init store)
  | step {s} (act : Act) : Reachable store s → Reachable store (step s act)

/-- The tolerated gap of C04 / C02: `a` believes `b` still holds its want for `k` (exchange state
`SentWantHave` or `SentWantBlock`), but `b` has already served and forgotten it. -/
def InGap (s : State) (k : Nat) : Prop :=
  (∃ ps : PeerSt, s.a.client.peers[1]? = some ps ∧
    (ps.wl.req[k]? = some Req.sentWantHave ∨ ps.wl.req[k]? = some Req.sentWantBlock)) ∧
  (∀ set : KSet, s.b.server.wl[0]? = some set → k ∉ set)

/-- The number of rounds of the canonical fair schedule that always suffice to settle. To be
fixed by the proof engineer to the smallest value for which the theorems hold (a concrete
numeral). -/
def settleRounds : Nat := 6

/-- Progress: from every reachable state the canonical fair schedule reaches quiescence within a
fixed number of rounds (each round = at most one wantlist exchange and one block exchange). -/
theorem settle_quiesces (store : KMap Nat) (s : State) (h : Reachable store s) :
    quiescent (settle settleRounds s) = true := by
  sorry

/-- C02 (no deadlock): at quiescence every CID `a` still wants is either not held by `b`, or in
the tolerated gap. -/
theorem quiescent_answered_or_gap (store : KMap Nat) (s : State) (h : Reachable store s)
    (hq : quiescent s = true) (k : Nat) (hk : k ∈ wants s) :
    s.storeB[k]? = none ∨ InGap s k := by
  sorry

/-- C02 (one refresh later): after the wantlist refresh and settling, `a` wants nothing that `b`
holds: every such query has received its block. -/
theorem refresh_closes_gap (store : KMap Nat) (s : State) (h : Reachable store s)
    (hq : quiescent s = true) (k : Nat)
    (hk : k ∈ wants (settle settleRounds (step s .refresh))) :
    (settle settleRounds (step s .refresh)).storeB[k]? = none := by
  sorry

/-- C02: a response always carries the serving node's bytes for the queried CID. -/
theorem answers_are_store_bytes (store : KMap Nat) (s : State) (h : Reachable store s)
    (q d : Nat) (ha : (q, d) ∈ s.answered) : ∃ k : Nat, s.storeB[k]? = some d := by
  sorry

/-- C14 (records agree): whenever nothing is in flight and nothing is left to do, the serving
side's record of the requester's wants is contained in the requester's live wants, and after a
refresh it equals them for everything the server does not hold. -/
theorem records_agree (store : KMap Nat) (s : State) (h : Reachable store s)
    (hq : quiescent s = true) (set : KSet) (hs : s.b.server.wl[0]? = some set) (k : Nat) (hk : k ∈ set) :
    k ∈ wants s := by
  sorry

theorem records_agree_after_refresh (store : KMap Nat) (s : State) (h : Reachable store s)
    (hq : quiescent s = true) (k : Nat) :
    let s' := settle settleRounds (step s .refresh)
    (k ∈ wants s' ↔ ∃ set, s'.b.server.wl[0]? = some set ∧ k ∈ set) := by
  sorry

end Beetswap.Proofs.Net
