import Beetswap.Proofs.NetClean
import Beetswap.Proofs.NetInv
import Beetswap.Proofs.NetRound
import Beetswap.Proofs.NetProgress
/-!
Proofs about the two-node composition (C02, and the "records agree" consequence of C14).
The statements below are used by `Props/C02` / `Props/C14`.

`Reachable`, `InGap` and the invariant live in `NetDefs.lean`. Three of the six candidate
statements were corrected after falsification (see `NET_NOTES.md`):
* `settle_quiesces`: no fixed number of rounds suffices (a lookup task of `b` looks its CIDs up
  one per round), the statement is `∃ n`;
* `refresh_closes_gap`, `records_agree_after_refresh`: for any `n` such that settling for `n`
  rounds after the refresh has reached quiescence, and under the hypothesis that the cap of the
  serving node's record cannot bind (at most `maxWantlistEntries` queries issued so far).
-/
namespace Beetswap.Proofs.Net
open Std Beetswap.Net Beetswap.Wl
open Beetswap.Client (PeerSt Sending StoreRes Out TaskSt TaskKind Sys sendFullInterval)
open Beetswap.Spec.ClientSpec (GSys Ghost gstep grun GInv)

/-! ### Quiescence -/

structure Quiet (s : State) : Prop where
  wireAB : s.wireAB = []
  wireBA : s.wireBA = []
  callsA : s.callsA = []
  putsA : s.putsA = []
  callsB : s.callsB = []
  outA : (Node.step s.a (.drain [] [])).2.1 = []
  outB : (Node.step s.b (.drain [] [])).2.1 = []
  runqA : s.a.client.runq = []
  runqB : s.b.server.runq = []
  outqB : s.b.server.outq = []
  queueA : s.a.client.queue = []

theorem quiet_of_quiescent (s : State) (h : quiescent s = true) : Quiet s := by
  simp only [quiescent, Bool.and_eq_true, List.isEmpty_iff] at h
  obtain ⟨⟨⟨⟨⟨⟨⟨⟨⟨⟨h1, h2⟩, h3⟩, h4⟩, h5⟩, h6⟩, h7⟩, h8⟩, h9⟩, h10⟩, h11⟩ := h
  exact ⟨h1, h2, h3, h4, h5, h6, h7, h8, h9, h10, h11⟩

/-- At quiescence the exchange state of every wanted CID is `SentWantHave`, and every other
exchange entry is `GotBlock`. -/
theorem quiet_req (g : GS) (ha : AInv g) (hq : Quiet g.s) :
    (∀ k, k ∈ g.s.a.client.wantlist.cids → (apeer g.s).wl.req[k]? = some Req.sentWantHave) ∧
    (∀ k r, (apeer g.s).wl.req[k]? = some r → k ∉ g.s.a.client.wantlist.cids → r = Req.gotBlock) := by
  obtain ⟨_, _, he⟩ := quiet_a g ha hq.runqA hq.wireAB hq.outA
  obtain ⟨e1, e2⟩ := genUpdate_empty g.s.a.client (apeer g.s) (ahist g) ha.peerInv he
  refine ⟨?_, e2⟩
  intro k hk
  cases hr : (apeer g.s).wl.req[k]? with
  | none => exact absurd hr (e1 k hk)
  | some r =>
    rcases ha.reqvals k r hr with rfl | rfl
    · rfl
    · exact absurd hk (ha.peerInv.got_unwanted k hr)

theorem mem_wants (s : State) (k : Nat) : k ∈ wants s ↔ k ∈ s.a.client.wantlist.cids := by
  unfold wants; exact ExtTreeSet.mem_toList

theorem mem_bset (s : State) (k : Nat) :
    k ∈ bset s ↔ ∃ set, s.b.server.wl[0]? = some set ∧ k ∈ set := by
  unfold bset
  cases s.b.server.wl[0]? with
  | none => simp [ExtTreeSet.not_mem_empty]
  | some set => simp

/-! ### The theorems -/

/-- Progress: from every reachable state the canonical fair schedule reaches quiescence. (No
fixed number of rounds suffices: `n` distinct gets need `n + 2` rounds, see `NET_NOTES.md`.) -/
theorem settle_quiesces (store : KMap Nat) (s : State) (h : Reachable store s) :
    ∃ n, quiescent (settle n s) = true :=
  settle_terminates store s (pinv_reach store s h)

/-- C02 (no deadlock): at quiescence every CID `a` still wants is either not held by `b`, or in
the tolerated gap. -/
theorem quiescent_answered_or_gap (store : KMap Nat) (s : State) (h : Reachable store s)
    (hq : quiescent s = true) (k : Nat) (hk : k ∈ wants s) :
    s.storeB[k]? = none ∨ InGap s k := by
  obtain ⟨g, rfl, hi⟩ := reach_ninv store s h
  have hQ := quiet_of_quiescent g.s hq
  cases hst : g.s.storeB[k]? with
  | none => exact Or.inl rfl
  | some d =>
    right
    obtain ⟨ps, hps⟩ := hi.a.peer1
    have hreq := (quiet_req g hi.a hQ).1 k ((mem_wants g.s k).1 hk)
    rw [apeer_eq hps] at hreq
    refine ⟨⟨ps, hps, Or.inl hreq⟩, ?_⟩
    intro set hset hmem
    have hkb : k ∈ bset g.s := (mem_bset g.s k).2 ⟨set, hset, hmem⟩
    have := binv_idle_not_held g.s hi.b hQ.runqB hQ.callsB k hkb
    rw [hst] at this; cases this

/-- C02: a response always carries the serving node's bytes for the queried CID. -/
theorem answers_are_store_bytes (store : KMap Nat) (s : State) (h : Reachable store s)
    (q d : Nat) (ha : (q, d) ∈ s.answered) : ∃ k : Nat, s.storeB[k]? = some d := by
  obtain ⟨g, rfl, hi⟩ := reach_ninv store s h
  exact hi.a.answered_ok (q, d) ha

/-- C14 (records agree): whenever nothing is in flight and nothing is left to do, the serving
side's record of the requester's wants is contained in the requester's live wants. -/
theorem records_agree (store : KMap Nat) (s : State) (h : Reachable store s)
    (hq : quiescent s = true) (set : KSet) (hs : s.b.server.wl[0]? = some set) (k : Nat) (hk : k ∈ set) :
    k ∈ wants s := by
  obtain ⟨g, rfl, hi⟩ := reach_ninv store s h
  have hQ := quiet_of_quiescent g.s hq
  have hkb : k ∈ bset g.s := (mem_bset g.s k).2 ⟨set, hs, hk⟩
  have hnone := binv_idle_not_held g.s hi.b hQ.runqB hQ.callsB k hkb
  have htold : k ∈ (ahist g).told :=
    hi.x.set_told k hkb (by rw [hQ.wireAB]; intro m hm; cases hm)
  have hnd : k ∉ (ahist g).deliv := by
    intro hd
    obtain ⟨d, hd⟩ := hi.x.deliv_store k hd
    rw [hnone] at hd; cases hd
  rw [mem_wants]
  apply Classical.byContradiction
  intro hnw
  cases hr : (apeer g.s).wl.req[k]? with
  | none => exact hnd (hi.a.peerInv.told_tracked k htold hr)
  | some r =>
    have := (quiet_req g hi.a hQ).2 k r hr hnw
    subst this
    exact hnd (hi.a.peerInv.got_deliv k hr)

/-- a state with its history, the invariant, `Clean`, and a fixed list of issued gets -/
def CleanAt (store : KMap Nat) (asked : List Nat) (s : State) : Prop :=
  ∃ g : GS, g.s = s ∧ NInv store g ∧ Clean g ∧ g.asked = asked

theorem cleanAt_internal (store : KMap Nat) (asked : List Nat) (s : State) (act : Act)
    (hact : act.internal = true) (h : CleanAt store asked s) : CleanAt store asked (step s act) := by
  obtain ⟨g, rfl, hi, hc, hask⟩ := h
  have hi' := ninv_step store g act hi
  refine ⟨gnext g act, rfl, hi', clean_internal g act hact hi.a hc hi'.a, ?_⟩
  rw [gnext_asked g act (by intro k hk; subst hk; cases hact)]
  exact hask

/-- At a quiescent `Clean` state (cap not binding) `a` wants nothing that `b` holds, and `b`'s
record is exactly `a`'s wantlist. -/
theorem clean_quiet (store : KMap Nat) (g : GS) (hi : NInv store g) (hc : Clean g) (hQ : Quiet g.s)
    (hcap : g.asked.length ≤ Server.maxWantlistEntries) (k : Nat) (hk : k ∈ g.s.a.client.wantlist.cids) :
    g.s.storeB[k]? = none ∧ k ∈ bset g.s := by
  have hreq := (quiet_req g hi.a hQ).1 k hk
  have htold := hi.a.peerInv.asked_told k (Or.inl hreq)
  have hnd := hc.fresh k hk
  have hb : k ∈ bset g.s := by
    rcases hi.x.told_set hcap k htold with h | ⟨bs, hbs, _⟩ | ⟨m, hm, _⟩ | ⟨h, _⟩
    · exact absurd h hnd
    · rw [hQ.wireBA] at hbs; cases hbs
    · rw [hQ.wireAB] at hm; cases hm
    · exact h
  exact ⟨binv_idle_not_held g.s hi.b hQ.runqB hQ.callsB k hb, hb⟩

/-- The refresh timer expires in a quiescent state: `a` is no longer quiescent, and its next drain
hands the full wantlist to `b` and establishes `Clean`. -/
theorem refresh_clean (store : KMap Nat) (g : GS) (hi : NInv store g) (hQ : Quiet g.s) :
    quiescent (step g.s .refresh) = false ∧
    CleanAt store g.asked (step (step g.s .refresh) .drainA) := by
  have hi1 := ninv_step store g .refresh hi
  have hi2 := ninv_step store (gnext g .refresh) .drainA hi1
  -- the state after the tick
  have hcl : (step g.s .refresh).a.client = g.s.a.client := rfl
  have hnow : (step g.s .refresh).a.now = g.s.a.now + sendFullInterval := rfl
  have hrunq : (gnext g .refresh).s.a.client.runq = [] := hQ.runqA
  have hwire : (gnext g .refresh).s.wireAB = [] := hQ.wireAB
  have hdl : (gnext g .refresh).s.a.client.deadline ≤ (gnext g .refresh).s.a.now := hi.a.deadline
  have htasks : g.s.a.client.tasks = [] := ainv_idle_tasks g hi.a hQ.runqA hQ.callsA hQ.putsA
  constructor
  · cases hqq : quiescent (step g.s .refresh) with
    | false => rfl
    | true =>
      have hQ1 := quiet_of_quiescent _ hqq
      exact absurd hdl (quiet_a (gnext g .refresh) hi1.a hrunq hwire hQ1.outA).2.1
  · refine ⟨gnext (gnext g .refresh) .drainA, rfl, hi2, ?_, rfl⟩
    obtain ⟨_, hhist⟩ := drainA_sent (gnext g .refresh) hi1.a hi2.a
    obtain ⟨m1, m2, _⟩ := midA_norun (gnext g .refresh).s hrunq
    -- a full wantlist is sent
    cases hs : sentA (gnext g .refresh).s with
    | none =>
      -- impossible: the deadline has passed
      obtain ⟨ps2, h2, hsd, hcn, hsf, _, hne, _⟩ := midA_peer (gnext g .refresh) hi1.a
      obtain ⟨ps2', h2', he⟩ := sentA_eq (gnext g .refresh) hi1.a
      rw [h2] at h2'; cases h2'
      have hready : ps2.sending = .ready := by
        rw [hsd]
        rcases hi1.a.wire with ⟨h, _⟩ | ⟨_, m, hm⟩
        · exact h
        · rw [hwire] at hm; cases hm
      rw [hs] at he
      have := (updatePeer_none_ready _ _ ps2 hready hne he.symm).1
      rw [hsf] at this
      simp only [Bool.or_eq_false_iff, decide_eq_false_iff_not] at this
      exact absurd hdl this.2
    | some cm =>
      obtain ⟨c, m⟩ := cm
      have hok := sentA_ok (gnext g .refresh) hi1.a c m hs
      have hfull : m.full = true := by
        rw [hok.full_iff]
        simp only [Bool.or_eq_true, decide_eq_true_eq]
        exact Or.inr hdl
      constructor
      · show ∀ t ∈ (step (gnext g .refresh).s .drainA).a.client.tasks, _
        rw [step_drainA_a _ hi1.a.srv, drainedA_tasks, drain_tasks]
        show ∀ t ∈ (midA (gnext g .refresh).s).tasks, _
        rw [m2]
        show ∀ t ∈ g.s.a.client.tasks, _
        rw [htasks]
        intro t ht; cases ht
      · show ∀ k, k ∈ (step (gnext g .refresh).s .drainA).a.client.wantlist.cids → _
        rw [drainA_wantlist _ hi1.a, hhist, hs]
        intro k hk hkd
        have hmem := hok.full_all hfull k hk
        simp only [ClientView.afterSend] at hkd
        exact ((ClientView.recordSend_deliv _ _ _ k).1 hkd).2.1 hmem

/-- The state reached by settling after a refresh from quiescence. -/
theorem refresh_settled (store : KMap Nat) (s : State) (h : Reachable store s)
    (hq : quiescent s = true) (n : Nat) (hn : quiescent (settle n (step s .refresh)) = true) :
    ∃ g : GS, g.s = settle n (step s .refresh) ∧ NInv store g ∧ Clean g ∧
      g.asked.length = s.a.client.nextQuery := by
  obtain ⟨g, rfl, hi⟩ := reach_ninv store s h
  have hQ := quiet_of_quiescent g.s hq
  obtain ⟨hnq, hcl⟩ := refresh_clean store g hi hQ
  cases n with
  | zero =>
    simp only [settle] at hn
    rw [hnq] at hn; cases hn
  | succ n =>
    have e : settle (n + 1) (step g.s .refresh) =
        settle n (roundTail (step (step g.s .refresh) .drainA)) := by
      rw [settle, hnq]; simp only [Bool.false_eq_true, if_false]; rw [round_eq]
    have hP : ∀ s act, act.internal = true → CleanAt store g.asked s → CleanAt store g.asked (step s act) :=
      fun s act ha h => cleanAt_internal store g.asked s act ha h
    have := settle_closed _ hP n _ (roundTail_closed _ hP _ hcl)
    obtain ⟨g', hs', hi', hc', hask'⟩ := this
    exact ⟨g', by rw [hs', e], hi', hc', by rw [hask', hi.a.asked_len]⟩

/-- C02 (one refresh later): after the wantlist refresh and settling, `a` wants nothing that `b`
holds: every such query has received its block. Holds whenever settling (for any number `n` of
rounds) has reached quiescence (`settle_quiesces`: it does), as long as the cap of `b`'s record
cannot bind (at most `maxWantlistEntries` queries issued so far; see `NET_NOTES.md` for the
counterexample beyond the cap). -/
theorem refresh_closes_gap (store : KMap Nat) (s : State) (h : Reachable store s)
    (hq : quiescent s = true) (hcap : s.a.client.nextQuery ≤ Server.maxWantlistEntries) (n : Nat)
    (hn : quiescent (settle n (step s .refresh)) = true) (k : Nat)
    (hk : k ∈ wants (settle n (step s .refresh))) :
    (settle n (step s .refresh)).storeB[k]? = none := by
  obtain ⟨g, hs, hi, hc, hask⟩ := refresh_settled store s h hq n hn
  rw [← hs] at hn hk ⊢
  exact (clean_quiet store g hi hc (quiet_of_quiescent g.s hn) (by rw [hask]; exact hcap) k
    ((mem_wants g.s k).1 hk)).1

/-- C14 (records agree, after a refresh): … and then the serving side's record equals the
requester's live wants (which are all for blocks the server does not hold). -/
theorem records_agree_after_refresh (store : KMap Nat) (s : State) (h : Reachable store s)
    (hq : quiescent s = true) (hcap : s.a.client.nextQuery ≤ Server.maxWantlistEntries) (n : Nat)
    (hn : quiescent (settle n (step s .refresh)) = true) (k : Nat) :
    let s' := settle n (step s .refresh)
    (k ∈ wants s' ↔ ∃ set, s'.b.server.wl[0]? = some set ∧ k ∈ set) := by
  intro s'
  obtain ⟨g, hs, hi, hc, hask⟩ := refresh_settled store s h hq n hn
  have hs' : s' = g.s := hs.symm
  rw [hs']
  have hQ : Quiet g.s := quiet_of_quiescent g.s (by rw [hs]; exact hn)
  constructor
  · intro hk
    exact (mem_bset g.s k).1 (clean_quiet store g hi hc hQ (by rw [hask]; exact hcap) k
      ((mem_wants g.s k).1 hk)).2
  · rintro ⟨set, hset, hmem⟩
    have hreach : Reachable store g.s := by
      rw [hs]
      have hP : ∀ s act, act.internal = true → Reachable store s → Reachable store (step s act) :=
        fun s act _ h => .step act h
      exact settle_closed _ hP n _ (.step .refresh h)
    exact records_agree store g.s hreach (by rw [hs]; exact hn) set hset k hmem

/-! ### Settling is stable, and the refresh theorems without the explicit round count -/

theorem settle_of_quiescent (n : Nat) (s : State) (h : quiescent s = true) : settle n s = s := by
  cases n with
  | zero => rfl
  | succ n => rw [settle, h]; rfl

/-- once quiescence is reached further rounds change nothing -/
theorem settle_stable (n d : Nat) (s : State) (h : quiescent (settle n s) = true) :
    settle (n + d) s = settle n s := by
  induction n generalizing s with
  | zero => simp only [settle] at h ⊢; rw [Nat.zero_add]; exact settle_of_quiescent d s h
  | succ n ih =>
    rw [show n + 1 + d = (n + d) + 1 by omega]
    rw [settle] at h ⊢
    conv => rhs; rw [settle]
    cases hq : quiescent s with
    | true => simp
    | false =>
      simp only [hq, Bool.false_eq_true, if_false] at h ⊢
      exact ih _ h

/-- C02, in one statement: after a refresh from a quiescent state the canonical schedule settles
again, and then `a` wants nothing that `b` holds. -/
theorem refresh_then_settled (store : KMap Nat) (s : State) (h : Reachable store s)
    (hq : quiescent s = true) (hcap : s.a.client.nextQuery ≤ Server.maxWantlistEntries) :
    ∃ n, quiescent (settle n (step s .refresh)) = true ∧
      ∀ k, k ∈ wants (settle n (step s .refresh)) → (settle n (step s .refresh)).storeB[k]? = none := by
  obtain ⟨n, hn⟩ := settle_quiesces store (step s .refresh) (.step .refresh h)
  exact ⟨n, hn, fun k hk => refresh_closes_gap store s h hq hcap n hn k hk⟩

/-! ### The gap is real: a witness -/

theorem reachable_run (store : KMap Nat) (acts : List Act) (s : State) (h : Reachable store s) :
    Reachable store (run s acts) := by
  unfold run
  induction acts generalizing s with
  | nil => exact h
  | cons a acts ih => exact ih _ (.step a h)

theorem reachable_settle (store : KMap Nat) (n : Nat) (s : State) (h : Reachable store s) :
    Reachable store (settle n s) :=
  settle_closed _ (fun _ act _ h => .step act h) n s h

/-- `b` holds CID 0 only. -/
def gapStore : KMap Nat := (∅ : KMap Nat).insert 0 100

/-- `a` asks for CID 0, `b` serves it; the query is cancelled while the block is in flight (the
block is dropped on arrival) and CID 0 is asked for again while another wantlist is in flight (so
no cancel entry ever leaves `a`). -/
def gapTrace : List Act :=
  [.get 0, .drainA, .lookupA 0, .drainA, .deliverAB, .drainA, .deliverAB,
   .get 1, .drainA, .lookupA 1, .drainA, .drainB, .lookupB 0, .drainB, .cancel 0, .deliverBA,
   .get 0, .drainA, .lookupA 2, .drainA, .deliverAB, .drainA]

/-- The tolerated gap occurs: a reachable quiescent state in which `a` wants CID 0, `b` holds
it, `a` believes `b` has its want (`SentWantHave`) and `b` has served and forgotten it. So the
second disjunct of `quiescent_answered_or_gap` cannot be dropped; only the refresh
(`refresh_closes_gap`) gets the block to `a`. -/
theorem gap_witness :
    ∃ s, Reachable gapStore s ∧ quiescent s = true ∧ 0 ∈ wants s ∧ s.storeB[(0 : Nat)]? = some 100 ∧
      InGap s 0 := by
  have hr : Reachable gapStore (settle 6 (run (init gapStore) gapTrace)) :=
    reachable_settle _ _ _ (reachable_run _ _ _ .init)
  have hq : quiescent (settle 6 (run (init gapStore) gapTrace)) = true := by decide
  have hw : 0 ∈ wants (settle 6 (run (init gapStore) gapTrace)) := by decide
  have hs : (settle 6 (run (init gapStore) gapTrace)).storeB[(0 : Nat)]? = some 100 := by decide
  refine ⟨_, hr, hq, hw, hs, ?_⟩
  rcases quiescent_answered_or_gap gapStore _ hr hq 0 hw with h | h
  · rw [hs] at h; cases h
  · exact h

end Beetswap.Proofs.Net
