import Beetswap.Spec.HandlerSpec
/-!
Proofs about the client connection handler automaton (C14, handler side of C05).
The statements are used by `Props/C14` and must keep these exact statements.
-/
namespace Beetswap.Proofs.Handler
open Beetswap.ClientHandler Beetswap.Spec.HandlerSpec

/-! ### The simulation relation between handler states and specification states -/

/-- the events of the reports still queued -/
def repEvs (q : List Report) : List Ev := q.map fun r => Ev.out (.report r)

/-- Simulation relation: the shapes of the handler state reachable under `Obeys`, each with the
specification state it corresponds to. -/
inductive R : H → SpecState → Prop
  | idleReady (st : Option Nat) :
    R { msg := none, sink := .none, ss := .ready, timer := false, halted := false,
        closing := false, queue := [] }
      { phase := .idle, stream := st, closed := false }
  | idleFailed (hl : Bool) (st : Option Nat) :
    R { msg := none, sink := .none, ss := .failed, timer := false, halted := hl,
        closing := false, queue := [] }
      { phase := .idle, stream := st, closed := false }
  | accepted (w : Nat) (sk : Sink) (q : List Report) (st : Option Nat)
      (hq : q = [] ∨ q = [.state .requestReceived])
      (hs : ∀ sid, sk = .ready sid → st = some sid) :
    R { msg := some w, sink := sk, ss := .requestReceived, timer := true, halted := false,
        closing := false, queue := q }
      { phase := .accepted w, stream := st, closed := false }
  | sending (w sid : Nat) :
    R { msg := none, sink := .ready sid, ss := .sending, timer := false, halted := false,
        closing := false, queue := [] }
      { phase := .written w sid false, stream := some sid, closed := false }
  | closing (h : H) (s : SpecState) (hc : h.closing = true) (sc : s.closed = true)
      (hq : (specRun s (repEvs h.queue)).isSome = true) : R h s

theorem specRun_append (s : SpecState) (a b : List Ev) :
    specRun s (a ++ b) = (specRun s a).bind fun s' => specRun s' b := by
  induction a generalizing s with
  | nil => rfl
  | cons e es ih =>
    simp only [List.cons_append, specRun]
    cases specStep s e with
    | none => rfl
    | some s' => exact ih s'

theorem specStep_report_closed (s s' : SpecState) (r : Report)
    (h : specStep s (.out (.report r)) = some s') : s'.closed = s.closed := by
  cases r with
  | closingConn =>
    simp only [specStep] at h
    split at h
    · cases h; rfl
    · cases h
  | state hs =>
    cases hs <;> simp only [specStep] at h <;> split at h <;>
      first
        | (cases h; rfl)
        | cases h
        | (split at h <;> first | (cases h; rfl) | cases h)

/-- the conclusion of the step lemma -/
def Sim (h : H) (s : SpecState) (i : In) : Prop :=
  ∃ s', specRun s (Ev.inp i :: (step h i).2.map Ev.out) = some s' ∧ R (step h i).1 s'

theorem sim_closing (h : H) (s : SpecState) (hc : h.closing = true) (sc : s.closed = true)
    (hq : (specRun s (repEvs h.queue)).isSome = true) : Sim h s .pollClose := by
  obtain ⟨ph, st, cl⟩ := s
  simp only at sc
  subst sc
  unfold Sim
  simp only [step, beginClose, hc, if_true, popClose]
  cases hqq : h.queue with
  | nil =>
    refine ⟨_, rfl, ?_⟩
    exact R.closing _ _ hc rfl (by simp [hqq, repEvs, specRun])
  | cons r rest =>
    rw [hqq] at hq
    simp only [repEvs, List.map_cons, specRun] at hq
    have e1 : specStep { phase := ph, stream := st, closed := true } (.inp .pollClose)
        = some { phase := ph, stream := st, closed := true } := rfl
    cases hst : specStep { phase := ph, stream := st, closed := true } (.out (.report r)) with
    | none => rw [hst] at hq; cases hq
    | some s' =>
      rw [hst] at hq
      refine ⟨s', ?_, ?_⟩
      · simp only [List.nil_append, List.map_cons, List.map_nil, specRun, e1, hst]
      · exact R.closing _ _ rfl (by rw [specStep_report_closed _ _ _ hst]) hq

/-- what the environment guarantees for the first input -/
def Obeys1 (h : H) : In → Prop
  | .sendWantlist _ => h.ss = .ready ∧ h.msg = none ∧ h.queue = [] ∧ ¬ h.closing
  | .setStream _ => (h.sink = .requested ∨ h.halted) ∧ ¬ h.closing
  | .allocFailed => (h.sink = .requested ∨ h.halted) ∧ ¬ h.closing
  | .poll _ => ¬ h.closing
  | .pollClose => True

theorem obeys_cons (h : H) (i : In) (is : List In) (ho : Obeys h (i :: is)) :
    Obeys1 h i ∧ Obeys (step h i).1 is := by
  cases i <;> exact ho

macro "close_R" : tactic => `(tactic| first
  | exact R.idleReady _
  | exact R.idleFailed _ _
  | exact R.sending _ _
  | exact R.accepted _ _ _ _ (by simp) (by simp)
  | (refine R.closing _ _ rfl rfl ?_; simp [repEvs, specRun, specStep]))

macro "sim_simp" : tactic => `(tactic|
  simp [Sim, step, poll, pollFuel, sendWantlist, setStream, allocFailed, beginClose, popClose,
    changeState, dropSink, specRun, specStep])

theorem sim_step (h : H) (s : SpecState) (i : In) (hr : R h s) (ho : Obeys1 h i) : Sim h s i := by
  cases hr with
  | closing _ _ hc sc hq =>
    cases i with
    | pollClose => exact sim_closing h s hc sc hq
    | _ => simp [Obeys1, hc] at ho
  | idleReady st =>
    cases i with
    | poll env =>
      obtain ⟨tf, pr, so, fl⟩ := env
      cases tf <;> cases pr <;> cases so <;> cases fl <;> sim_simp <;> close_R
    | _ => first | (simp [Obeys1] at ho; done) | (sim_simp <;> close_R)
  | idleFailed hl st =>
    cases i with
    | poll env =>
      obtain ⟨tf, pr, so, fl⟩ := env
      cases hl <;> cases tf <;> cases pr <;> cases so <;> cases fl <;> sim_simp <;> close_R
    | _ => cases hl <;> first | (simp [Obeys1] at ho; done) | (sim_simp <;> close_R)
  | accepted w sk q st hq hs =>
    cases sk with
    | ready sid =>
      have := hs sid rfl
      subst this
      rcases hq with rfl | rfl <;> cases i with
      | poll env =>
        obtain ⟨tf, pr, so, fl⟩ := env
        cases tf <;> cases pr <;> cases so <;> cases fl <;> sim_simp <;> close_R
      | _ => first | (simp [Obeys1] at ho; done) | (sim_simp <;> close_R)
    | _ =>
      rcases hq with rfl | rfl <;> cases i with
      | poll env =>
        obtain ⟨tf, pr, so, fl⟩ := env
        cases tf <;> cases pr <;> cases so <;> cases fl <;> sim_simp <;> close_R
      | _ => first | (simp [Obeys1] at ho; done) | (sim_simp <;> close_R)
  | sending w sid =>
    cases i with
    | poll env =>
      obtain ⟨tf, pr, so, fl⟩ := env
      cases tf <;> cases pr <;> cases so <;> cases fl <;> sim_simp <;> close_R
    | _ => first | (simp [Obeys1] at ho; done) | (sim_simp <;> close_R)

theorem refines_gen (ins : List In) (h : H) (s : SpecState) (hr : R h s) (ho : Obeys h ins) :
    (specRun s (traceOf h ins)).isSome = true := by
  induction ins generalizing h s with
  | nil => rfl
  | cons i is ih =>
    obtain ⟨h1, h2⟩ := obeys_cons h i is ho
    obtain ⟨s', e, hr'⟩ := sim_step h s i hr h1
    simp only [traceOf]
    rw [specRun_append, e]
    exact ih _ _ hr' h2

/-- C14 for one connection: for every input sequence obeying the environment's obligations, with
every possible behaviour of the sink and the timer, the interleaved trace is accepted by the
specification: each accepted wantlist gets exactly one complete frame on a stream negotiated
after it was accepted, flushed before `Ready` is reported, or is reported failed; never two
frames, never a frame of another wantlist, never a second outcome. -/
theorem handler_refines_spec (ins : List In) (h : Obeys {} ins) :
    (specRun {} (traceOf {} ins)).isSome = true :=
  refines_gen ins {} {} (R.idleReady none) h

/-- A message that could not be written (sink not ready / `start_send` failed) is kept and retried
on a new stream: nothing is reported, nothing was written. -/
theorem retry_keeps_message (h : H) (w sid : Nat) (env : Env) (hm : h.msg = some w)
    (hs : h.sink = .ready sid) (hq : h.queue = []) (hh : h.halted = false)
    (ht : ¬ (h.timer ∧ env.timerFired))
    (hfail : env.pollReady = .err ∨ (env.pollReady = .ok ∧ env.startSendOk = false)) :
    (step h (.poll env)).1.msg = some w ∧ (step h (.poll env)).1.sink = .requested ∧
    (step h (.poll env)).2 = [.closed sid, .openSubstream] := by
  rcases hfail with hf | ⟨hf, hf'⟩ <;>
    simp [step, poll, pollFuel, dropSink, *]

/-- If `Sending` is not reached within the timeout, the transmission is reported failed and the
connection is halted. -/
theorem timeout_reports_failed_and_halts (h : H) (env : Env) (hq : h.queue = [])
    (hh : h.halted = false) (ht : h.timer = true) (hf : env.timerFired = true)
    (hs : h.ss = .requestReceived) :
    (step h (.poll env)).1.halted = true ∧ (step h (.poll env)).1.msg = none ∧
    Out.report (.state .failed) ∈ (step h (.poll env)).2 := by
  cases hk : h.sink <;>
    simp [step, poll, pollFuel, dropSink, changeState, hq, hh, ht, hf, hs, hk]

/-- Closing the connection mid-transmission reports the transmission as failed before the
closing notification. -/
theorem close_midsend_reports_failed (h : H) (hc : h.closing = false) (hq : h.queue = [])
    (hs : h.ss = .requestReceived ∨ h.ss = .sending) :
    (step h .pollClose).2.getLast? = some (Out.report (.state .failed)) ∧
    (step h .pollClose).1.queue = [.closingConn] ∧ (step h .pollClose).1.msg = none := by
  cases hk : h.sink <;> rcases hs with hs | hs <;>
    simp [step, beginClose, popClose, dropSink, changeState, hc, hq, hs, hk]

/-- A halted handler ignores everything: it never writes, never asks for a stream. -/
theorem halted_is_inert (h : H) (hh : h.halted = true) (hq : h.queue = []) :
    (∀ w, step h (.sendWantlist w) = (h, [])) ∧ (∀ sid, step h (.setStream sid) = (h, [])) ∧
    (∀ env, step h (.poll env) = (h, [])) := by
  refine ⟨?_, ?_, ?_⟩ <;> intro _ <;>
    simp [step, sendWantlist, setStream, poll, pollFuel, hh, hq]

/-- The `debug_assert!`s of `send_wantlist` hold whenever the environment obeys its obligations
(they are exactly the obligation). -/
theorem send_wantlist_asserts (h : H) (w : Nat) (is : List In) (ho : Obeys h (.sendWantlist w :: is)) :
    h.msg = none ∧ h.ss = .ready :=
  ⟨ho.1.2.1, ho.1.1⟩

/-- `debug_assert!(matches!(self.sink_state, SinkState::Requested))` in `stream_allocation_failed`
holds whenever it is evaluated (it is skipped when halted). -/
theorem alloc_failed_assert (h : H) (is : List In) (ho : Obeys h (.allocFailed :: is))
    (hh : h.halted = false) : h.sink = .requested := by
  rcases ho.1.1 with h1 | h1
  · exact h1
  · rw [hh] at h1; cases h1

end Beetswap.Proofs.Handler
