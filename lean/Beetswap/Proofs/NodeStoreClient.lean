import Beetswap.Spec.NodeSpec
import Beetswap.Proofs.ServerLemmas
/-!
Helper lemmas for `Proofs/NodeStore`, client half: the invariant `CInv A c` ("every block held by a
`put` task, and every block in `newBlocks`, satisfies `A`; the event queue holds no store / forward
output") is preserved by every entry point of `Model/Client`, and `incoming` creates a `put` task
holding exactly the blocks `acceptedBy` lists.
-/
namespace Beetswap.Proofs.NodeStore
open Std Beetswap.Client Beetswap.Wl

/-- outputs that are neither a store write nor a forwarded batch -/
def Plain : Out → Prop
  | .callPut _ _ => False
  | .blocks _ _ => False
  | _ => True

/-- a store write holds only `A` blocks, a forwarded batch only `G` blocks -/
def GoodOut (A G : Nat × Nat → Prop) : Out → Prop
  | .callPut _ bs => ∀ kd ∈ bs, A kd
  | .blocks _ bs => ∀ kd ∈ bs, G kd
  | _ => True

theorem GoodOut.of_plain {A G : Nat × Nat → Prop} {o : Out} (h : Plain o) : GoodOut A G o := by
  cases o <;> simp_all [Plain, GoodOut]

theorem GoodOut.mono {A G A' G' : Nat × Nat → Prop} {o : Out} (h : GoodOut A G o)
    (hA : ∀ kd, A kd → A' kd) (hG : ∀ kd, G kd → G' kd) : GoodOut A' G' o := by
  cases o <;> simp_all [GoodOut]

def TasksOk (A : Nat × Nat → Prop) (l : List Task) : Prop :=
  ∀ t ∈ l, ∀ bs, t.kind = .put bs → ∀ kd ∈ bs, A kd

theorem TasksOk.map {A : Nat × Nat → Prop} {l : List Task} (h : TasksOk A l) (f : Task → Task)
    (hf : ∀ u, (f u).kind = u.kind) : TasksOk A (l.map f) := by
  intro t ht bs hk kd hkd
  obtain ⟨u, hu, rfl⟩ := List.mem_map.1 ht
  exact h u hu bs ((hf u).symm.trans hk) kd hkd

theorem TasksOk.filter {A : Nat × Nat → Prop} {l : List Task} (h : TasksOk A l) (p : Task → Bool) :
    TasksOk A (l.filter p) := fun t ht => h t (List.mem_filter.1 ht).1

theorem TasksOk.append {A : Nat × Nat → Prop} {l : List Task} (h : TasksOk A l) (t : Task)
    (ht : ∀ bs, t.kind = .put bs → ∀ kd ∈ bs, A kd) : TasksOk A (l ++ [t]) := by
  intro u hu
  rcases List.mem_append.1 hu with hu | hu
  · exact h u hu
  · rw [List.mem_singleton.1 hu]; exact ht

theorem TasksOk.mono {A A' : Nat × Nat → Prop} {l : List Task} (h : TasksOk A l)
    (hA : ∀ kd, A kd → A' kd) : TasksOk A' l :=
  fun t ht bs hk kd hkd => hA _ (h t ht bs hk kd hkd)

structure CInv (A : Nat × Nat → Prop) (c : State) : Prop where
  tasks : TasksOk A c.tasks
  newBlocks : ∀ kd ∈ c.newBlocks, A kd
  queue : ∀ o ∈ c.queue, Plain o

theorem CInv.mono {A A' : Nat × Nat → Prop} {c : State} (h : CInv A c) (hA : ∀ kd, A kd → A' kd) :
    CInv A' c :=
  ⟨h.tasks.mono hA, fun kd hk => hA _ (h.newBlocks kd hk), h.queue⟩

theorem CInv.of_eq {A : Nat × Nat → Prop} {c c' : State} (h : CInv A c) (h1 : c'.tasks = c.tasks)
    (h2 : c'.newBlocks = c.newBlocks) (h3 : c'.queue = c.queue) : CInv A c' :=
  ⟨h1 ▸ h.tasks, h2 ▸ h.newBlocks, h3 ▸ h.queue⟩

theorem cinv_init (A : Nat × Nat → Prop) : CInv A ({} : State) :=
  ⟨by intro t ht; simp at ht, by intro kd hk; simp at hk, by intro o ho; simp at ho⟩

theorem cinv_connect {A : Nat × Nat → Prop} {s : State} (p c : Nat) (h : CInv A s) :
    CInv A (connect s p c) := h.of_eq rfl rfl rfl

theorem cinv_closed {A : Nat × Nat → Prop} {s : State} (p c : Nat) (h : CInv A s) :
    CInv A (closed s p c) := by
  unfold closed
  split
  · exact h
  · dsimp only
    split <;> exact h.of_eq rfl rfl rfl

theorem cinv_sendingChanged {A : Nat × Nat → Prop} {s : State} (p src : Nat) (st : Sending)
    (h : CInv A s) : CInv A (sendingChanged s p src st) := by
  unfold sendingChanged
  split
  · exact h
  · unfold setSending
    split
    · exact h.of_eq rfl rfl rfl
    · exact h

theorem cinv_get {A : Nat × Nat → Prop} {s : State} (k : Nat) (fits : Bool) (h : CInv A s) :
    CInv A (get s k fits).1 := by
  cases fits
  · refine ⟨h.tasks, h.newBlocks, ?_⟩
    intro o ho
    have ho : o ∈ s.queue ++ [Out.err s.nextQuery 0] := ho
    rcases List.mem_append.1 ho with ho | ho
    · exact h.queue o ho
    · rw [List.mem_singleton.1 ho]; trivial
  · refine ⟨?_, h.newBlocks, h.queue⟩
    have : (get s k true).1.tasks = s.tasks ++ [{ id := s.nextTask, kind := .get s.nextQuery k }] := rfl
    rw [this]
    exact h.tasks.append _ (by intro bs hb; cases hb)

/-- first half of `cancel`: the query's task is aborted -/
def cancel1 (s : State) (q : Nat) : State :=
  match s.abort[q]? with
  | some tid =>
    let live := s.tasks.any (·.id == tid)
    { s with abort := s.abort.erase q,
             tasks := s.tasks.map (fun t => if t.id == tid then { t with aborted := true } else t),
             runq := if live then enqueue s.runq tid else s.runq }
  | none => s

/-- second half of `cancel`: the query leaves the waiter list -/
def cancel2 (s : State) (q : Nat) : State :=
  match s.waiters.keys.find? (fun k => q ∈ (s.waiters[k]?.getD [])) with
  | none => s
  | some k =>
    let qs := (s.waiters[k]?.getD []).erase q
    if qs.isEmpty then
      { s with waiters := s.waiters.erase k, wantlist := (s.wantlist.remove k).1 }
    else { s with waiters := s.waiters.insert k qs }

theorem cancel_eq (s : State) (q : Nat) : cancel s q = cancel2 (cancel1 s q) q := rfl

theorem cinv_cancel {A : Nat × Nat → Prop} {s : State} (q : Nat) (h : CInv A s) :
    CInv A (cancel s q) := by
  rw [cancel_eq]
  have h1 : CInv A (cancel1 s q) := by
    unfold cancel1
    split
    · exact ⟨h.tasks.map _ (by intro u; split <;> rfl), h.newBlocks, h.queue⟩
    · exact h
  unfold cancel2
  split
  · exact h1
  · dsimp only
    split <;> exact h1.of_eq rfl rfl rfl

theorem cinv_complete {A : Nat × Nat → Prop} {s c : State} (seq : Nat) (r : StoreRes)
    (hc : complete s seq r = some c) (h : CInv A s) : CInv A c := by
  unfold complete at hc
  split at hc
  · cases hc
  · cases hc
    exact ⟨h.tasks.map _ (by intro u; split <;> rfl), h.newBlocks, h.queue⟩

/-! ### `incoming` -/

/-- the accepted blocks of a block list, given the wantlist `W` at the start of the message and
the CIDs `r` already accepted -/
def specAcc (W : KSet) : List Nat → List (Nat × Nat) → List (Nat × Nat)
  | _, [] => []
  | r, kd :: bs => if kd.1 ∈ W ∧ kd.1 ∉ r then kd :: specAcc W (kd.1 :: r) bs else specAcc W r bs

theorem spec_fold (W : KSet) (bs : List (Nat × Nat)) (a : List (Nat × Nat)) (r : List Nat) :
    (bs.foldl (fun (acc : List (Nat × Nat) × List Nat) kd =>
        if kd.1 ∈ W ∧ kd.1 ∉ acc.2 then (acc.1 ++ [kd], kd.1 :: acc.2) else acc) (a, r)).1
      = a ++ specAcc W r bs := by
  induction bs generalizing a r with
  | nil => simp [specAcc]
  | cons kd bs ih =>
    simp only [List.foldl_cons, specAcc]
    by_cases hc : kd.1 ∈ W ∧ kd.1 ∉ r
    · rw [if_pos hc, if_pos hc, ih]; simp
    · rw [if_neg hc, if_neg hc, ih]

theorem applyBlock_not_mem (s : State) (p k d : Nat) (acc : List (Nat × Nat))
    (h : k ∉ s.wantlist.cids) : applyBlock s p k d acc = (s, acc) := by
  simp [applyBlock, Wantlist.remove, h]

theorem applyBlock_mem (s : State) (p k d : Nat) (acc : List (Nat × Nat))
    (h : k ∈ s.wantlist.cids) :
    (applyBlock s p k d acc).2 = acc ++ [(k, d)] ∧
    (applyBlock s p k d acc).1.wantlist.cids = s.wantlist.cids.erase k ∧
    (applyBlock s p k d acc).1.tasks = s.tasks ∧
    (applyBlock s p k d acc).1.newBlocks = s.newBlocks ∧
    ∃ qs : List Nat, (applyBlock s p k d acc).1.queue = s.queue ++ qs.map (fun q => Out.resp q d) := by
  unfold applyBlock
  have hr : s.wantlist.remove k =
      ({ cids := s.wantlist.cids.erase k, revision := s.wantlist.revision + 1 }, true) := by
    simp [Wantlist.remove, h]
  rw [hr]
  simp only [Bool.not_true, Bool.false_eq_true, if_false]
  split <;> exact ⟨by simp, by simp, by simp, by simp, _, rfl⟩

theorem applyBlock_fold (W : KSet) (p : Nat) (bs : List (Nat × Nat)) (s : State)
    (nb : List (Nat × Nat)) (r : List Nat)
    (hW : ∀ k, k ∈ s.wantlist.cids ↔ (k ∈ W ∧ k ∉ r)) :
    let res := bs.foldl (fun (acc : State × List (Nat × Nat)) kd =>
      applyBlock acc.1 p kd.1 kd.2 acc.2) (s, nb)
    res.2 = nb ++ specAcc W r bs ∧ res.1.tasks = s.tasks ∧ res.1.newBlocks = s.newBlocks ∧
      ∀ o ∈ res.1.queue, o ∈ s.queue ∨ Plain o := by
  induction bs generalizing s nb r with
  | nil => simp only [specAcc]; exact ⟨by simp, rfl, rfl, fun o ho => Or.inl ho⟩
  | cons kd bs ih =>
    simp only [List.foldl_cons, specAcc]
    by_cases hk : kd.1 ∈ s.wantlist.cids
    · have hc : kd.1 ∈ W ∧ kd.1 ∉ r := (hW _).1 hk
      obtain ⟨e1, e2, e3, e4, qs, e5⟩ := applyBlock_mem s p kd.1 kd.2 nb hk
      have hW' : ∀ k, k ∈ (applyBlock s p kd.1 kd.2 nb).1.wantlist.cids ↔ (k ∈ W ∧ k ∉ kd.1 :: r) := by
        intro k
        rw [e2, Beetswap.Proofs.Server.kset_mem_erase, hW]
        simp only [List.mem_cons, not_or]
        constructor
        · rintro ⟨a, b, c⟩; exact ⟨b, a, c⟩
        · rintro ⟨a, b, c⟩; exact ⟨b, a, c⟩
      have := ih (applyBlock s p kd.1 kd.2 nb).1 (applyBlock s p kd.1 kd.2 nb).2 (kd.1 :: r) hW'
      rw [if_pos hc]
      dsimp only at this ⊢
      obtain ⟨i1, i2, i3, i4⟩ := this
      refine ⟨?_, i2.trans e3, i3.trans e4, ?_⟩
      · rw [i1, e1]; simp
      · intro o ho
        rcases i4 o ho with ho | ho
        · rw [e5] at ho
          rcases List.mem_append.1 ho with ho | ho
          · exact Or.inl ho
          · obtain ⟨q, _, rfl⟩ := List.mem_map.1 ho
            exact Or.inr trivial
        · exact Or.inr ho
    · have hc : ¬ (kd.1 ∈ W ∧ kd.1 ∉ r) := fun hc => hk ((hW _).2 hc)
      rw [if_neg hc, applyBlock_not_mem s p kd.1 kd.2 nb hk]
      exact ih s nb r hW

/-- `incoming` from a known peer: the invariant holds for `A` extended by the accepted blocks. -/
theorem cinv_incoming {A : Nat × Nat → Prop} {s : State} (p : Nat) (hs ds : List Nat)
    (bs : List (Nat × Nat)) (h : CInv A s) :
    CInv (fun kd => A kd ∨ (p ∈ s.peers ∧ kd ∈ specAcc s.wantlist.cids [] bs))
      (incoming s p hs ds bs) := by
  unfold incoming
  split
  · exact h.mono fun kd hk => Or.inl hk
  · rename_i ps hps
    have hp : p ∈ s.peers := by
      rw [Beetswap.Proofs.Server.kmap_mem_iff]; exact ⟨ps, hps⟩
    dsimp only
    generalize hs0 : ({ s with peers := s.peers.insert p { ps with wl := (ds.foldl (fun w k => w.gotDontHave k) (hs.foldl (fun w k => w.gotHave k) ps.wl)) } } : State) = s0
    have hw0 : s0.wantlist = s.wantlist := by rw [← hs0]
    have ht0 : s0.tasks = s.tasks := by rw [← hs0]
    have hn0 : s0.newBlocks = s.newBlocks := by rw [← hs0]
    have hq0 : s0.queue = s.queue := by rw [← hs0]
    have := applyBlock_fold s.wantlist.cids p bs s0 [] [] (by intro k; rw [hw0]; simp)
    dsimp only at this
    obtain ⟨f1, f2, f3, f4⟩ := this
    generalize (bs.foldl (fun (acc : State × List (Nat × Nat)) kd =>
      applyBlock acc.1 p kd.1 kd.2 acc.2) (s0, [])) = res at f1 f2 f3 f4
    obtain ⟨s1, nb⟩ := res
    dsimp only at f1 f2 f3 f4 ⊢
    have hbase : CInv (fun kd => A kd ∨ (p ∈ s.peers ∧ kd ∈ specAcc s.wantlist.cids [] bs)) s1 := by
      refine ⟨?_, ?_, ?_⟩
      · rw [f2, ht0]; exact h.tasks.mono fun kd hk => Or.inl hk
      · rw [f3, hn0]; exact fun kd hk => Or.inl (h.newBlocks kd hk)
      · intro o ho
        rcases f4 o ho with ho | ho
        · rw [hq0] at ho; exact h.queue o ho
        · exact ho
    split
    · exact hbase
    · refine ⟨?_, hbase.newBlocks, hbase.queue⟩
      have : (pushTask s1 (.put nb)).1.tasks = s1.tasks ++ [{ id := s1.nextTask, kind := .put nb }] := rfl
      rw [this]
      refine hbase.tasks.append _ ?_
      intro bs' hb kd hkd
      cases hb
      rw [f1] at hkd
      exact Or.inr ⟨hp, by simpa using hkd⟩

/-! ### `drain` -/

theorem pollTask_inv {A G : Nat × Nat → Prop} (s : State) (seq id : Nat) (h : CInv A s) :
    CInv A (pollTask s seq id).1 ∧ ∀ o ∈ (pollTask s seq id).2.2, GoodOut A G o := by
  unfold pollTask
  cases hf : s.tasks.find? (·.id == id) with
  | none => exact ⟨h, by simp⟩
  | some t =>
    have ht : t ∈ s.tasks := List.mem_of_find?_eq_some hf
    have hdrop : CInv A { s with tasks := s.tasks.filter (·.id != id) } :=
      ⟨h.tasks.filter _, h.newBlocks, h.queue⟩
    have hmap : ∀ n : Nat, CInv A { s with tasks := (s.tasks.map
        (fun u => if u.id == id then { u with st := .waiting n } else u)) } := fun n =>
      ⟨h.tasks.map _ (by intro u; split <;> rfl), h.newBlocks, h.queue⟩
    dsimp only
    by_cases hab : t.aborted = true
    · rw [if_pos hab]; exact ⟨hdrop, by simp⟩
    · rw [if_neg hab]
      cases hst : t.st with
      | fresh =>
        cases hk : t.kind with
        | get q k => exact ⟨hmap seq, by simp [GoodOut]⟩
        | put bs =>
          refine ⟨hmap seq, ?_⟩
          intro o ho
          have ho : o ∈ [Out.callPut seq bs] := ho
          rw [List.mem_singleton.1 ho]
          exact h.tasks t ht bs hk
      | waiting n => exact ⟨h, by simp⟩
      | done r =>
        cases hk : t.kind with
        | get q k =>
          dsimp only
          cases r with
          | hit d => exact ⟨hdrop.of_eq rfl rfl rfl, by simp [GoodOut]⟩
          | miss => exact ⟨hdrop.of_eq rfl rfl rfl, by simp⟩
          | error => exact ⟨hdrop.of_eq rfl rfl rfl, by simp [GoodOut]⟩
          | putOk => exact ⟨hdrop.of_eq rfl rfl rfl, by simp [GoodOut]⟩
          | putErr => exact ⟨hdrop.of_eq rfl rfl rfl, by simp [GoodOut]⟩
        | put bs =>
          dsimp only
          cases r with
          | putOk =>
            refine ⟨⟨hdrop.tasks, ?_, hdrop.queue⟩, by simp⟩
            intro kd hkd
            have hkd : kd ∈ s.newBlocks ++ bs := hkd
            rcases List.mem_append.1 hkd with hkd | hkd
            · exact h.newBlocks kd hkd
            · exact h.tasks t ht bs hk kd hkd
          | hit d => exact ⟨hdrop, by simp⟩
          | miss => exact ⟨hdrop, by simp⟩
          | error => exact ⟨hdrop, by simp⟩
          | putErr => exact ⟨hdrop, by simp⟩

theorem pollTasks_inv {A G : Nat × Nat → Prop} (ids : List Nat) (s : State) (seq : Nat)
    (h : CInv A s) :
    CInv A (pollTasks s seq ids).1 ∧ ∀ o ∈ (pollTasks s seq ids).2.2, GoodOut A G o := by
  induction ids generalizing s seq with
  | nil => exact ⟨h, by simp [pollTasks]⟩
  | cons id ids ih =>
    obtain ⟨h1, o1⟩ := pollTask_inv (G := G) s seq id h
    obtain ⟨h2, o2⟩ := ih (pollTask s seq id).1 (pollTask s seq id).2.1 h1
    refine ⟨h2, ?_⟩
    intro o ho
    have ho : o ∈ (pollTask s seq id).2.2 ++
        (pollTasks (pollTask s seq id).1 (pollTask s seq id).2.1 ids).2.2 := ho
    rcases List.mem_append.1 ho with ho | ho
    · exact o1 o ho
    · exact o2 o ho

theorem updateHandlers_fold {A : Nat × Nat → Prop} (now : Nat) (pref : Nat → Option Nat)
    (ks : List Nat) (acc : State × List Out) :
    let res := ks.foldl (fun (acc : State × List Out) p =>
      match acc.1.peers[p]? with
      | none => acc
      | some ps =>
        let (ps', m) := updatePeer acc.1.wantlist now ps (pref p)
        let peers := match ps' with
          | some ps' => acc.1.peers.insert p ps'
          | none => acc.1.peers.erase p
        ({ acc.1 with peers := peers },
         match m with
         | some (c, m) => acc.2 ++ [Out.send p c m]
         | none => acc.2)) acc
    (CInv A acc.1 → CInv A res.1) ∧ ∀ o ∈ res.2, o ∈ acc.2 ∨ Plain o := by
  induction ks generalizing acc with
  | nil => exact ⟨id, fun o ho => Or.inl ho⟩
  | cons p ks ih =>
    simp only [List.foldl_cons]
    split
    · exact ih acc
    · rename_i ps hps
      obtain ⟨i1, i2⟩ := ih ({ acc.1 with peers := match (updatePeer acc.1.wantlist now ps (pref p)).1 with
          | some ps' => acc.1.peers.insert p ps'
          | none => acc.1.peers.erase p },
         match (updatePeer acc.1.wantlist now ps (pref p)).2 with
         | some (c, m) => acc.2 ++ [Out.send p c m]
         | none => acc.2)
      dsimp only at i1 i2
      refine ⟨fun h => i1 (h.of_eq rfl rfl rfl), ?_⟩
      intro o ho
      rcases i2 o ho with ho | ho
      · split at ho
        · rcases List.mem_append.1 ho with ho | ho
          · exact Or.inl ho
          · rw [List.mem_singleton.1 ho]; exact Or.inr trivial
        · exact Or.inl ho
      · exact Or.inr ho

theorem updateHandlers_inv {A : Nat × Nat → Prop} (s : State) (now : Nat) (pref : Nat → Option Nat)
    (h : CInv A s) :
    CInv A (updateHandlers s now pref).1 ∧ ∀ o ∈ (updateHandlers s now pref).2, Plain o := by
  have := updateHandlers_fold (A := A) now pref s.peers.keys (s, [])
  dsimp only at this
  obtain ⟨h1, h2⟩ := this
  refine ⟨h1 h, ?_⟩
  intro o ho
  rcases h2 o ho with ho | ho
  · simp at ho
  · exact ho

theorem drain_eq (s : State) (now seq : Nat) (pref : Nat → Option Nat) :
    drain s now seq pref =
      let s1 : State := if s.deadline ≤ now then
          { s with queue := [],
                   peers := KMap.tab s.peers.keys (fun p => (s.peers[p]?).map (fun ps => { ps with sendFull := true })),
                   deadline := now + sendFullInterval }
        else { s with queue := [] }
      let r1 := pollTasks { s1 with runq := [] } seq s1.runq
      let r2 := updateHandlers r1.1 now pref
      (r2.1, r1.2.1, s.queue ++ r1.2.2 ++ r2.2) := by
  unfold drain
  dsimp only

theorem drain_inv {A G : Nat × Nat → Prop} (s : State) (now seq : Nat) (pref : Nat → Option Nat)
    (h : CInv A s) :
    CInv A (drain s now seq pref).1 ∧ ∀ o ∈ (drain s now seq pref).2.2, GoodOut A G o := by
  rw [drain_eq]
  dsimp only
  generalize hs1 : (if s.deadline ≤ now then
          ({ s with queue := [],
                    peers := KMap.tab s.peers.keys (fun p => (s.peers[p]?).map (fun ps => { ps with sendFull := true })),
                    deadline := now + sendFullInterval } : State)
        else { s with queue := [] }) = s1
  have h1 : CInv A s1 := by
    rw [← hs1]
    split
    · exact ⟨h.tasks, h.newBlocks, by intro o ho; simp at ho⟩
    · exact ⟨h.tasks, h.newBlocks, by intro o ho; simp at ho⟩
  have h1' : CInv A { s1 with runq := [] } := h1.of_eq rfl rfl rfl
  obtain ⟨h2, o2⟩ := pollTasks_inv (G := G) s1.runq { s1 with runq := [] } seq h1'
  obtain ⟨h3, o3⟩ := updateHandlers_inv (pollTasks { s1 with runq := [] } seq s1.runq).1 now pref h2
  refine ⟨h3, ?_⟩
  intro o ho
  rcases List.mem_append.1 ho with ho | ho
  · rcases List.mem_append.1 ho with ho | ho
    · exact GoodOut.of_plain (h.queue o ho)
    · exact o2 o ho
  · exact GoodOut.of_plain (o3 o ho)

theorem takeNewBlocks_inv {A : Nat × Nat → Prop} (s : State) (h : CInv A s) :
    CInv A (takeNewBlocks s).1 ∧ ∀ kd ∈ (takeNewBlocks s).2, A kd :=
  ⟨⟨h.tasks, by intro kd hk; simp [takeNewBlocks] at hk, h.queue⟩, h.newBlocks⟩

end Beetswap.Proofs.NodeStore
