import Beetswap.Proofs.ClientViewBasic
/-!
`sending_state_changed` with the source connection: a report is either ignored (it comes from a
connection other than the one the transmission is tracked on) or overwrites the sending state.
Everything else in the client is untouched in both cases.
-/
namespace Beetswap.Proofs.ClientSending
open Std Beetswap.Client

theorem sendingChanged_cases (c : State) (p src : Nat) (st : Sending) :
    sendingChanged c p src st = c ∨ sendingChanged c p src st = setSending c p st := by
  unfold sendingChanged
  split
  · exact .inl rfl
  · exact .inr rfl

/-- a report is taken when the transmission is tracked on the reporting connection (or on none) -/
theorem sendingChanged_eq_set (c : State) (p src : Nat) (st : Sending)
    (h : ∀ ps, c.peers[p]? = some ps → ps.sending.conn? = none ∨ ps.sending.conn? = some src) :
    sendingChanged c p src st = setSending c p st := by
  unfold sendingChanged
  have : tracksOther c p src = false := by
    unfold tracksOther
    cases hp : c.peers[p]? with
    | none => rfl
    | some ps =>
      rcases h ps hp with e | e <;> simp [e]
  rw [this]; rfl

/-- a report from another connection than the one the transmission is tracked on is ignored -/
theorem sendingChanged_ignored (c : State) (p src : Nat) (st : Sending) (ps : PeerSt) (t : Nat)
    (hp : c.peers[p]? = some ps) (ht : ps.sending.conn? = some t) (hne : t ≠ src) :
    sendingChanged c p src st = c := by
  unfold sendingChanged
  have : tracksOther c p src = true := by
    unfold tracksOther
    simp [hp, ht, hne]
  rw [this]; rfl

theorem setSending_peers (c : State) (p : Nat) (st : Sending) (q : Nat) :
    (setSending c p st).peers[q]? =
      if q = p then (c.peers[p]?).map (fun ps => ({ ps with sending := st } : PeerSt)) else c.peers[q]? := by
  unfold setSending
  cases hp : c.peers[p]? with
  | none =>
    by_cases hq : q = p
    · subst hq; simp [hp]
    · simp [hq]
  | some ps =>
    simp only [ClientView.kmap_get_insert, Option.map_some]

theorem setSending_fields (c : State) (p : Nat) (st : Sending) :
    (setSending c p st).tasks = c.tasks ∧
    (setSending c p st).wantlist = c.wantlist ∧
    (setSending c p st).deadline = c.deadline ∧
    (setSending c p st).runq = c.runq ∧
    (setSending c p st).queue = c.queue ∧
    (((setSending c p st).peers[p]?).getD {}).sendFull = ((c.peers[p]?).getD {}).sendFull ∧
    (((setSending c p st).peers[p]?).getD {}).wl = ((c.peers[p]?).getD {}).wl := by
  unfold setSending
  cases h : c.peers[p]? with
  | none => simp [h]
  | some ps =>
    dsimp only
    rw [ClientView.kmap_get_insert, if_pos rfl]
    exact ⟨rfl, rfl, rfl, rfl, rfl, rfl, rfl⟩

theorem sendingChanged_fields (c : State) (p src : Nat) (st : Sending) :
    (sendingChanged c p src st).tasks = c.tasks ∧
    (sendingChanged c p src st).wantlist = c.wantlist ∧
    (sendingChanged c p src st).deadline = c.deadline ∧
    (sendingChanged c p src st).runq = c.runq ∧
    (sendingChanged c p src st).queue = c.queue ∧
    (((sendingChanged c p src st).peers[p]?).getD {}).sendFull = ((c.peers[p]?).getD {}).sendFull ∧
    (((sendingChanged c p src st).peers[p]?).getD {}).wl = ((c.peers[p]?).getD {}).wl := by
  rcases sendingChanged_cases c p src st with e | e <;> rw [e]
  · exact ⟨rfl, rfl, rfl, rfl, rfl, rfl, rfl⟩
  · exact setSending_fields c p st

theorem sendingChanged_frame (c : State) (p src : Nat) (st : Sending) :
    ∃ P, sendingChanged c p src st = { c with peers := P } := by
  rcases sendingChanged_cases c p src st with e | e <;> rw [e]
  · exact ⟨c.peers, rfl⟩
  · unfold setSending
    split
    · exact ⟨_, rfl⟩
    · exact ⟨c.peers, rfl⟩

theorem mem_setSending (c : State) (p : Nat) (st : Sending) (q : Nat) :
    q ∈ (setSending c p st).peers ↔ q ∈ c.peers := by
  unfold setSending
  cases hp : c.peers[p]? with
  | none => rfl
  | some ps =>
    simp only [ExtTreeMap.mem_insert]
    constructor
    · rintro (h | h)
      · have : p = q := by simpa using h
        subst this
        exact (ClientView.kmap_mem_iff _ _).2 ⟨ps, hp⟩
      · exact h
    · exact Or.inr

theorem mem_sendingChanged (c : State) (p src : Nat) (st : Sending) (q : Nat) :
    q ∈ (sendingChanged c p src st).peers ↔ q ∈ c.peers := by
  rcases sendingChanged_cases c p src st with e | e <;> rw [e]
  exact mem_setSending c p st q

end Beetswap.Proofs.ClientSending
