import Beetswap.Proofs.NetCore
/-!
How the history variables of `a` for its peer `b` (`ahist`) evolve along the actions of the
composition.
-/
namespace Beetswap.Proofs.Net
open Std Beetswap.Net Beetswap.Wl
open Beetswap.Client (PeerSt Sending StoreRes Out TaskSt TaskKind Sys sendFullInterval)
open Beetswap.Spec.ClientSpec (GSys Ghost gstep grun GInv)
open Beetswap.Proofs.ClientView (gupd base gstep_eq kmap_mem_iff kmap_mem_keys)

/-- the history of peer 1 -/
def hist1 (x : GSys) : Ghost := (x.ghost[1]?).getD {}

theorem ahist_eq (g : GS) : ahist g = hist1 g.x := rfl

theorem hist1_gstep (x : GSys) (op : Beetswap.Client.Op)
    (h1 : 1 ∈ (Beetswap.Client.step x.sys op).1.s.peers) :
    hist1 (gstep x op).1 = gupd x op 1 := by
  rw [gstep_eq]
  unfold hist1
  simp only [KMap.get_tab]
  have : 1 ∈ (Beetswap.Client.step x.sys op).1.s.peers.keys := by
    rw [kmap_mem_keys]; exact (kmap_mem_iff _ _).1 h1
  simp [this]

theorem base_hist1 (x : GSys) (h1 : 1 ∈ x.sys.s.peers) : base x 1 = hist1 x := by
  simp [base, h1, hist1]

/-- the operations that record nothing -/
def quietOp : Beetswap.Client.Op → Bool
  | .msg .. | .drain _ => false
  | _ => true

theorem hist1_quiet (x : GSys) (op : Beetswap.Client.Op) (hq : quietOp op = true)
    (h1 : 1 ∈ x.sys.s.peers) (h1' : 1 ∈ (Beetswap.Client.step x.sys op).1.s.peers) :
    hist1 (gstep x op).1 = hist1 x := by
  rw [hist1_gstep x op h1', ← base_hist1 x h1]
  cases op <;> first | rfl | cases hq

theorem mem_sendingChanged (c : Client.State) (p src : Nat) (st : Sending) (q : Nat) :
    q ∈ (Client.sendingChanged c p src st).peers ↔ q ∈ c.peers :=
  ClientSending.mem_sendingChanged c p src st q

/-- operations that neither record anything nor open / close sessions -/
def calmOp : Beetswap.Client.Op → Bool
  | .get .. | .cancel _ | .complete .. | .sending .. | .tick _ | .takeNewBlocks => true
  | _ => false

theorem mem_step_calm (x : Sys) (op : Beetswap.Client.Op) (hc : calmOp op = true) (q : Nat) :
    q ∈ (Beetswap.Client.step x op).1.s.peers ↔ q ∈ x.s.peers := by
  cases op with
  | get k fits => simp only [Beetswap.Client.step]; rw [(ClientView.get_fields x.s k fits).1]
  | cancel q' => simp only [Beetswap.Client.step]; rw [(ClientView.cancel_fields x.s q').1]
  | complete n r => simp only [Beetswap.Client.step]; rw [(ClientView.complete_fields x.s n r).1]
  | sending p src st => exact mem_sendingChanged x.s p src st q
  | tick ms => rfl
  | takeNewBlocks => rfl
  | _ => cases hc

theorem hist1_calm (x : GSys) (op : Beetswap.Client.Op) (hc : calmOp op = true) (h1 : 1 ∈ x.sys.s.peers) :
    hist1 (gstep x op).1 = hist1 x ∧ 1 ∈ (gstep x op).1.sys.s.peers := by
  have h1' : 1 ∈ (Beetswap.Client.step x.sys op).1.s.peers := (mem_step_calm x.sys op hc 1).2 h1
  refine ⟨hist1_quiet x op ?_ h1 h1', ?_⟩
  · cases op <;> first | rfl | cases hc
  · rw [gstep_eq]; exact h1'

theorem hist1_grun_calm (ops : List Beetswap.Client.Op) (x : GSys) (hc : ∀ op ∈ ops, calmOp op = true)
    (h1 : 1 ∈ x.sys.s.peers) :
    hist1 (grun x ops).1 = hist1 x ∧ 1 ∈ (grun x ops).1.sys.s.peers := by
  induction ops generalizing x with
  | nil => exact ⟨rfl, h1⟩
  | cons op ops ih =>
    obtain ⟨e, m⟩ := hist1_calm x op (hc op (List.mem_cons_self ..)) h1
    have := ih (gstep x op).1 (fun o ho => hc o (List.mem_cons_of_mem _ ho)) m
    simp only [grun]
    exact ⟨this.1.trans e, this.2⟩

theorem AInv.mem1 {g : GS} (h : AInv g) : 1 ∈ g.x.sys.s.peers := by
  rw [h.coh]
  obtain ⟨ps, hps⟩ := h.peer1
  exact (kmap_mem_iff _ _).2 ⟨ps, hps⟩

/-- every action except `drainA` and `deliverBA` leaves the history alone -/
theorem ahist_calm (g : GS) (act : Act) (ha : AInv g)
    (hact : ∀ op ∈ aOps g.s act, calmOp op = true) : ahist (gnext g act) = ahist g :=
  (hist1_grun_calm _ g.x hact ha.mem1).1

theorem aOps_calm (s : State) (act : Act) (h1 : act ≠ .drainA) (h2 : act ≠ .deliverBA) :
    ∀ op ∈ aOps s act, calmOp op = true := by
  intro op hop
  cases act with
  | drainA => exact absurd rfl h1
  | deliverBA => exact absurd rfl h2
  | get k => simp [aOps] at hop; subst hop; rfl
  | cancel q => simp [aOps] at hop; subst hop; rfl
  | refresh => simp [aOps] at hop; subst hop; rfl
  | drainB => simp [aOps] at hop
  | lookupB n => simp [aOps] at hop
  | lookupA n =>
    simp only [aOps] at hop
    split at hop
    · simp at hop; subst hop; rfl
    · simp at hop
  | putDoneA n =>
    simp only [aOps] at hop
    split at hop
    · simp at hop; subst hop; rfl
    · simp at hop
  | deliverAB =>
    simp only [aOps] at hop
    split at hop
    · simp at hop
    · simp at hop; subst hop; rfl

/-! ### `deliverBA` -/

theorem ahist_deliverBA (g : GS) (ha : AInv g) (ha' : AInv (gnext g .deliverBA))
    (bs : List (Nat × Nat)) (rest : List (List (Nat × Nat))) (hw : g.s.wireBA = bs :: rest) :
    (ahist (gnext g .deliverBA)).told = (ahist g).told ∧
    ∀ k, k ∈ (ahist (gnext g .deliverBA)).deliv ↔ k ∈ (ahist g).deliv ∨ k ∈ bs.map (·.1) := by
  have h1' := ha'.mem1
  rw [ahist_eq, ahist_eq]
  simp only [gnext, aOps, hw] at h1' ⊢
  by_cases hb : bs.isEmpty = true
  · have : bs = [] := by simpa using hb
    subst this
    simp [grun]
  · simp only [hb, Bool.false_eq_true, if_false, grun] at h1' ⊢
    have h1'' : 1 ∈ (Beetswap.Client.step g.x.sys (.msg 1 [] [] bs)).1.s.peers := by
      rw [gstep_eq] at h1'; exact h1'
    rw [hist1_gstep _ _ h1'']
    simp only [gupd, ha.mem1, and_self, if_true, base_hist1 _ ha.mem1]
    exact ⟨ClientView.recordMsg_told _ _ _ _ _ _, fun k => ClientView.recordMsg_deliv _ _ _ _ _ _ k⟩

/-! ### `drainA` -/

/-- the state of `a`'s client half after the task phase of the drain -/
def midA (s : State) : Client.State := (ClientView.afterTasks s.a.client s.a.now s.a.seq).1

/-- the wantlist handed to the connection by `drainA`, if any -/
def sentA (s : State) : Option (Nat × WlMsg) := ClientView.sentTo (midA s) s.a.now (Node.prefOf []) 1

def sentList : Option (Nat × WlMsg) → List WlMsg
  | some (_, m) => [m]
  | none => []

def allSends (outs : List Out) : List WlMsg :=
  outs.filterMap fun o => match o with | .send _ _ m => some m | _ => none

theorem absorbA_wireAB (outs : List Out) (s : State) :
    (absorbA s outs).wireAB = s.wireAB ++ allSends outs := by
  unfold absorbA allSends
  induction outs generalizing s with
  | nil => simp
  | cons o outs ih =>
    simp only [List.foldl_cons]
    rw [ih]
    cases o <;> simp

theorem allSends_eq_sendsTo (outs : List Out) (h : ∀ p c m, Out.send p c m ∈ outs → p = 1) :
    allSends outs = Spec.ClientSpec.sendsTo outs 1 := by
  unfold allSends Spec.ClientSpec.sendsTo
  induction outs with
  | nil => rfl
  | cons o outs ih =>
    have ih' := ih (fun p c m hm => h p c m (List.mem_cons_of_mem _ hm))
    cases o with
    | send p c m =>
      have : p = 1 := h p c m (List.mem_cons_self ..)
      subst this
      simp only [List.filterMap_cons, if_true]
      rw [ih']
    | _ => simpa [List.filterMap_cons] using ih'

theorem sentTo_none_of_peer (g : GS) (ha : AInv g) (p : Nat) (hp : p ≠ 1) :
    ClientView.sentTo (midA g.s) g.s.a.now (Node.prefOf []) p = none := by
  unfold ClientView.sentTo midA
  have : p ∉ (ClientView.afterTasks g.s.a.client g.s.a.now g.s.a.seq).1.peers := by
    rw [ClientView.afterTasks_mem, ClientView.kmap_not_mem_iff]
    exact ha.peer_only p hp
  rw [ClientView.kmap_not_mem_iff] at this
  rw [this]; rfl

theorem drainA_sent (g : GS) (ha : AInv g) (ha' : AInv (gnext g .drainA)) :
    (step g.s .drainA).wireAB = g.s.wireAB ++ sentList (sentA g.s) ∧
    ahist (gnext g .drainA) =
      ClientView.afterSend (ahist g) (step g.s .drainA).a.client.wantlist.cids (sentA g.s) := by
  have hq : ∀ p c m, Out.send p c m ∉ g.s.a.client.queue := by
    have := ha.ginv.queue_nosend; rw [ha.coh] at this; exact this
  obtain ⟨d1, d2, d3, d4, d5, d6⟩ :=
    ClientView.drain_spec g.s.a.client g.s.a.now g.s.a.seq (Node.prefOf []) hq
  have hall : ∀ p c m, Out.send p c m ∈ (Client.drain g.s.a.client g.s.a.now g.s.a.seq (Node.prefOf [])).2.2 →
      p = 1 := by
    intro p c m hm
    apply Classical.byContradiction
    intro hp
    have := (d6 p c m).1 hm
    rw [show (ClientView.afterTasks g.s.a.client g.s.a.now g.s.a.seq).1 = midA g.s from rfl,
      sentTo_none_of_peer g ha p hp] at this
    cases this
  have hsl : Spec.ClientSpec.sendsTo (Client.drain g.s.a.client g.s.a.now g.s.a.seq (Node.prefOf [])).2.2 1 =
      sentList (sentA g.s) := by
    rw [d5 1]; unfold sentA midA sentList
    rcases ClientView.sentTo (ClientView.afterTasks g.s.a.client g.s.a.now g.s.a.seq).1 g.s.a.now
      (Node.prefOf []) 1 with _ | ⟨c, m⟩ <;> rfl
  have hwant : (step g.s .drainA).a.client.wantlist = (midA g.s).wantlist := by
    rw [step_drainA_a g.s ha.srv]
    simp only [drainedA]
    split
    · show (Client.sendingChanged _ _ _ _).wantlist = _
      rw [(ClientSending.sendingChanged_fields _ _ _ _).2.1]; exact d1
    · exact d1
  refine ⟨?_, ?_⟩
  · rw [step_drainA g.s ha.srv, absorbA_wireAB, allSends_eq_sendsTo _ hall, hsl]
  · -- the history
    have h1' := ha'.mem1
    rw [ahist_eq, ahist_eq]
    simp only [gnext, aOps] at h1' ⊢
    -- peel the calm tail
    have htail : ∀ (ops : List Beetswap.Client.Op) (x : GSys), (∀ op ∈ ops, calmOp op = true) →
        1 ∈ (grun x ops).1.sys.s.peers → hist1 (grun x ops).1 = hist1 x ∧ 1 ∈ x.sys.s.peers := by
      intro ops
      induction ops with
      | nil => intro x _ h; exact ⟨rfl, h⟩
      | cons op ops ih =>
        intro x hc h
        simp only [grun] at h ⊢
        obtain ⟨e, m⟩ := ih (gstep x op).1 (fun o ho => hc o (List.mem_cons_of_mem _ ho)) h
        have hm : 1 ∈ x.sys.s.peers := by
          rw [gstep_eq] at m
          exact (mem_step_calm x.sys op (hc op (List.mem_cons_self ..)) 1).1 m
        exact ⟨e.trans (hist1_calm x op (hc op (List.mem_cons_self ..)) hm).1, hm⟩
    have hcalm : ∀ op ∈ ([Beetswap.Client.Op.takeNewBlocks] ++
        (if (Node.step g.s.a (.drain [] [])).2.1.any isSend then [Beetswap.Client.Op.sending 1 1 (.sending 1)] else [])),
        calmOp op = true := by
      intro op hop
      split at hop
      · simp at hop; rcases hop with rfl | rfl <;> rfl
      · simp at hop; subst hop; rfl
    rw [show ([Beetswap.Client.Op.drain (Node.prefOf []), Beetswap.Client.Op.takeNewBlocks] ++
        (if (Node.step g.s.a (.drain [] [])).2.1.any isSend then [Beetswap.Client.Op.sending 1 1 (.sending 1)] else []))
        = Beetswap.Client.Op.drain (Node.prefOf []) :: ([Beetswap.Client.Op.takeNewBlocks] ++
        (if (Node.step g.s.a (.drain [] [])).2.1.any isSend then [Beetswap.Client.Op.sending 1 1 (.sending 1)] else []))
        from rfl] at h1' ⊢
    simp only [grun] at h1' ⊢
    obtain ⟨e, m⟩ := htail _ _ hcalm h1'
    rw [e]
    have m' : 1 ∈ (Beetswap.Client.step g.x.sys (.drain (Node.prefOf []))).1.s.peers := by
      rw [gstep_eq] at m; exact m
    rw [hist1_gstep _ _ m']
    show (Spec.ClientSpec.sendsTo (Beetswap.Client.step g.x.sys (.drain (Node.prefOf []))).2 1).foldl
      (fun h m => h.recordSend (Beetswap.Client.step g.x.sys (.drain (Node.prefOf []))).1.s.wantlist.cids m)
      (base g.x 1) = _
    rw [base_hist1 _ ha.mem1, ha.coh]
    show (Spec.ClientSpec.sendsTo (Client.drain g.s.a.client g.s.a.now g.s.a.seq (Node.prefOf [])).2.2 1).foldl
      (fun h m => h.recordSend (Client.drain g.s.a.client g.s.a.now g.s.a.seq (Node.prefOf [])).1.wantlist.cids m)
      (hist1 _) = _
    rw [hsl, hwant, d1]
    unfold sentList ClientView.afterSend midA
    rcases sentA g.s with _ | ⟨c, m⟩ <;> rfl

/-! ### The exchange state after the task phase -/

/-- a property of the exchange state that `wantedAgain` keeps survives the task phase -/
theorem pollTasks_wl_ind (P : WState → Prop) (hP : ∀ wl k, P wl → P (wl.wantedAgain k))
    (ids : List Nat) (c : Client.State) (seq : Nat)
    (h : ∀ (p : Nat) (ps : PeerSt), c.peers[p]? = some ps → P ps.wl) :
    ∀ (p : Nat) (ps : PeerSt), (Client.pollTasks c seq ids).1.peers[p]? = some ps → P ps.wl := by
  induction ids generalizing c seq with
  | nil => exact h
  | cons id ids ih =>
    simp only [Client.pollTasks]
    apply ih
    intro p ps hps
    rcases (ClientView.pollTask_eff c seq id).1 with ⟨_, hp⟩ | ⟨k, _, _, hp⟩
    · rw [hp] at hps; exact h p ps hps
    · rw [hp, ClientView.get_tab_keys' c.peers
        (fun (ps : PeerSt) => ({ ps with wl := ps.wl.wantedAgain k } : PeerSt))] at hps
      cases hc : c.peers[p]? with
      | none => simp [hc] at hps
      | some ps0 =>
        simp only [hc, Option.map_some, Option.some.injEq] at hps
        subst hps
        exact hP _ k (h p ps0 hc)

theorem afterTasks_wl_ind (P : WState → Prop) (hP : ∀ wl k, P wl → P (wl.wantedAgain k))
    (c : Client.State) (now seq : Nat) (h : ∀ (p : Nat) (ps : PeerSt), c.peers[p]? = some ps → P ps.wl) :
    ∀ (p : Nat) (ps : PeerSt), (ClientView.afterTasks c now seq).1.peers[p]? = some ps → P ps.wl := by
  unfold ClientView.afterTasks
  apply pollTasks_wl_ind P hP
  intro p ps hps
  change (ClientView.refresh { c with queue := [] } now).peers[p]? = some ps at hps
  rw [ClientView.refresh_peers] at hps
  cases hc : c.peers[p]? with
  | none => simp [hc] at hps
  | some ps0 =>
    simp only [hc, Option.map_some, Option.some.injEq] at hps
    subst hps
    exact h p ps0 hc

/-- exchange states `b` can produce: it never answers HAVE / DONT_HAVE -/
def ReqVals (wl : WState) : Prop :=
  ∀ (k : Nat) (r : Req), wl.req[k]? = some r → r = Req.sentWantHave ∨ r = Req.gotBlock

theorem reqVals_wantedAgain (wl : WState) (k : Nat) (h : ReqVals wl) : ReqVals (wl.wantedAgain k) := by
  intro j r hr
  rw [ClientView.wantedAgain_req] at hr
  split at hr
  · cases hr
  · exact h j r hr

theorem apeer_eq {s : State} {ps : PeerSt} (h : s.a.client.peers[1]? = some ps) : apeer s = ps := by
  simp [apeer, h]

/-- the peer entry of `b` after the task phase of `drainA`: connections, handshake state and
(up to the refresh) the `send_full` flag are those before the drain; the exchange states are
still of the two kinds `b` can produce; `PeerInv` holds for the unchanged history. -/
theorem midA_peer (g : GS) (ha : AInv g) :
    ∃ ps2, (midA g.s).peers[1]? = some ps2 ∧ ps2.sending = (apeer g.s).sending ∧
      ps2.conns = (apeer g.s).conns ∧
      ps2.sendFull = ((apeer g.s).sendFull || decide (g.s.a.client.deadline ≤ g.s.a.now)) ∧
      ReqVals ps2.wl ∧ ps2.conns.isEmpty = false ∧
      Spec.ClientSpec.PeerInv (midA g.s) ps2 (ahist g) := by
  obtain ⟨ps, hps⟩ := ha.peer1
  have hfr := (ClientView.afterTasks_spec g.s.a.client g.s.a.now g.s.a.seq).2.1 1
  have hmid : ClientView.MidInv g.x.ghost g.s.a.client := by
    have := ha.ginv
    rw [show g.s.a.client = g.x.sys.s by rw [ha.coh]; rfl]
    exact ⟨this.peers, this.rev_zero, this.conns_nonempty⟩
  have hmid2 := (ClientView.afterTasks_spec g.s.a.client g.s.a.now g.s.a.seq).1 _ hmid
  rw [hps] at hfr
  cases h2 : (ClientView.afterTasks g.s.a.client g.s.a.now g.s.a.seq).1.peers[1]? with
  | none => simp [h2] at hfr
  | some ps2 =>
    simp only [h2, Option.map_some, Option.some.injEq, ClientView.pframe, Prod.mk.injEq] at hfr
    obtain ⟨f1, f2, f3⟩ := hfr
    have hv : ReqVals ps2.wl := by
      apply afterTasks_wl_ind ReqVals reqVals_wantedAgain g.s.a.client g.s.a.now g.s.a.seq _ 1 ps2 h2
      intro p ps' hps'
      by_cases hp : p = 1
      · subst hp
        rw [hps] at hps'; cases hps'
        have := ha.reqvals
        rw [apeer_eq hps] at this
        exact this
      · rw [ha.peer_only p hp] at hps'; cases hps'
    obtain ⟨gh, hgh, hpi⟩ := hmid2.peers 1 ps2 h2
    have : ahist g = gh := by simp [ahist, hgh]
    refine ⟨ps2, h2, ?_, ?_, ?_, hv, hmid2.conns_nonempty 1 ps2 h2, this ▸ hpi⟩
    · rw [apeer_eq hps]; exact f2
    · rw [apeer_eq hps]; exact f1
    · rw [apeer_eq hps]; exact f3

/-! ### The wantlist handed over by `drainA` -/

theorem genFull_wantHave_nodup (wl : WState) (w : Wantlist) : (wl.genFull w).2.wantHave.Nodup := by
  unfold WState.genFull
  exact (Server.kset_nodup_toList _).filter _

theorem genUpdate_wantHave_nodup (wl : WState) (w : Wantlist) : (wl.genUpdate w).2.wantHave.Nodup := by
  unfold WState.genUpdate
  split
  · exact List.nodup_nil
  · exact (Server.kset_nodup_toList _).filter _

theorem genUpdate_wantHave_sub (wl : WState) (w : Wantlist) (k : Nat)
    (h : k ∈ (wl.genUpdate w).2.wantHave) : k ∈ w.cids := by
  by_cases hu : wl.isUpdated w = true
  · rw [ClientView.genUpdate_of_updated _ _ hu] at h; cases h
  · have hu : wl.isUpdated w = false := by simpa using hu
    exact ((ClientView.genUpdate_wantHave wl w hu k).1 h).1

theorem genUpdate_wantBlock_nil (wl : WState) (w : Wantlist) (hv : ReqVals wl) :
    (wl.genUpdate w).2.wantBlock = [] := by
  by_cases hu : wl.isUpdated w = true
  · rw [ClientView.genUpdate_of_updated _ _ hu]
  · have hu : wl.isUpdated w = false := by simpa using hu
    apply List.eq_nil_iff_forall_not_mem.2
    intro k hk
    have := ((ClientView.genUpdate_wantBlock wl w hu k).1 hk).2
    rcases hv k _ this with h | h <;> cases h

theorem genFull_wantBlock_nil (wl : WState) (w : Wantlist) (hv : ReqVals wl) :
    (wl.genFull w).2.wantBlock = [] := by
  apply List.eq_nil_iff_forall_not_mem.2
  intro k hk
  rcases ((ClientView.genFull_wantBlock wl w k).1 hk).2 with h | h <;>
    rcases hv k _ h with h' | h' <;> cases h'

/-- what `drainA` can hand to the connection -/
structure SentOK (g : GS) (m : WlMsg) : Prop where
  ready : (apeer g.s).sending = .ready
  wb : m.wantBlock = []
  nodup : m.wantHave.Nodup
  sub : ∀ k ∈ m.wantHave, k ∈ (midA g.s).wantlist.cids
  full_all : m.full = true → ∀ k, k ∈ (midA g.s).wantlist.cids → k ∈ m.wantHave
  full_iff : m.full = true ↔
    ((apeer g.s).sendFull || decide (g.s.a.client.deadline ≤ g.s.a.now)) = true

theorem sentA_eq (g : GS) (ha : AInv g) :
    ∃ ps2, (midA g.s).peers[1]? = some ps2 ∧
      sentA g.s = (Client.updatePeer (midA g.s).wantlist g.s.a.now ps2 none).2 := by
  obtain ⟨ps2, h2, _⟩ := midA_peer g ha
  refine ⟨ps2, h2, ?_⟩
  unfold sentA ClientView.sentTo
  rw [h2]; rfl

theorem sentA_ok (g : GS) (ha : AInv g) (c : Nat) (m : WlMsg) (h : sentA g.s = some (c, m)) :
    SentOK g m := by
  obtain ⟨ps2, h2, hs, hc, hf, hv, hne, hpi⟩ := midA_peer g ha
  have he : sentA g.s = (Client.updatePeer (midA g.s).wantlist g.s.a.now ps2 none).2 := by
    unfold sentA ClientView.sentTo
    rw [h2]; rfl
  rw [he, ClientView.updatePeer_eq] at h
  rcases ha.wire with ⟨hr, _⟩ | ⟨hr, _⟩
  · rw [hs, hr] at h
    simp only at h
    have hgo := ClientView.goPeer_res (midA g.s).wantlist g.s.a.now none ps2
    generalize hres : ClientView.goPeer (midA g.s).wantlist g.s.a.now none ps2 = res at hgo h
    cases hgo with
    | drop hce => rw [hne] at hce; cases hce
    | full _ hfl =>
      simp only [Option.some.injEq, Prod.mk.injEq] at h
      obtain ⟨_, rfl⟩ := h
      refine ⟨hr, genFull_wantBlock_nil _ _ hv, genFull_wantHave_nodup _ _, ?_, ?_, ?_⟩
      · intro k hk; exact ((ClientView.genFull_wantHave _ _ k).1 hk).1
      · intro _ k hk
        rw [ClientView.genFull_wantHave]
        refine ⟨hk, ?_⟩
        cases hr2 : ps2.wl.req[k]? with
        | none => exact Or.inl rfl
        | some r =>
          rcases hv k r hr2 with rfl | rfl
          · exact Or.inr rfl
          · exact absurd hk (hpi.got_unwanted k hr2)
      · rw [← hf, hfl]; simp [ClientView.genFull_full]
    | quiet _ _ _ => cases h
    | upd _ hfl hemp =>
      simp only [Option.some.injEq, Prod.mk.injEq] at h
      obtain ⟨_, rfl⟩ := h
      refine ⟨hr, genUpdate_wantBlock_nil _ _ hv, genUpdate_wantHave_nodup _ _,
        fun k hk => genUpdate_wantHave_sub _ _ k hk, ?_, ?_⟩
      · intro hfull; rw [ClientView.genUpdate_full] at hfull; cases hfull
      · rw [← hf, hfl, ClientView.genUpdate_full]
  · rw [hs, hr] at h
    cases h

/-! ### Quiescence of `a` -/

theorem AInv.peerInv {g : GS} (ha : AInv g) :
    Spec.ClientSpec.PeerInv g.s.a.client (apeer g.s) (ahist g) := by
  obtain ⟨ps, hps⟩ := ha.peer1
  have hp : g.x.sys.s.peers[1]? = some ps := by rw [ha.coh]; exact hps
  obtain ⟨gh, hgh, hpi⟩ := ha.ginv.peers 1 ps hp
  have e1 : ahist g = gh := by simp [ahist, hgh]
  rw [apeer_eq hps, e1]
  have : g.x.sys.s = g.s.a.client := by rw [ha.coh]; rfl
  rw [← this]; exact hpi

theorem AInv.conns {g : GS} (ha : AInv g) : (apeer g.s).conns.isEmpty = false := by
  obtain ⟨ps, hps⟩ := ha.peer1
  have hp : g.x.sys.s.peers[1]? = some ps := by rw [ha.coh]; exact hps
  rw [apeer_eq hps]
  exact ha.ginv.conns_nonempty 1 ps hp

theorem refresh_fields (c : Client.State) (now : Nat) :
    (ClientView.refresh c now).runq = c.runq ∧ (ClientView.refresh c now).tasks = c.tasks := by
  unfold ClientView.refresh; split <;> exact ⟨rfl, rfl⟩

/-- with nothing to run, the task phase only refreshes the `send_full` flags -/
theorem midA_norun (s : State) (hr : s.a.client.runq = []) :
    (midA s).wantlist = s.a.client.wantlist ∧ (midA s).tasks = s.a.client.tasks ∧
    (∀ p : Nat, (midA s).peers[p]? = (s.a.client.peers[p]?).map (fun ps =>
      ({ ps with sendFull := ps.sendFull || decide (s.a.client.deadline ≤ s.a.now) } : PeerSt))) := by
  unfold midA ClientView.afterTasks
  have hrr : (ClientView.refresh { s.a.client with queue := [] } s.a.now).runq = [] := by
    rw [(refresh_fields _ _).1]; exact hr
  simp only [hrr, Client.pollTasks]
  refine ⟨ClientView.refresh_wantlist _ _, (refresh_fields _ _).2, fun p => ?_⟩
  exact ClientView.refresh_peers { s.a.client with queue := [] } s.a.now p

/-- An empty update: every wanted CID has an exchange entry, every other entry is `GotBlock`. -/
theorem genUpdate_empty (c : Client.State) (ps : PeerSt) (gh : Ghost)
    (hpi : Spec.ClientSpec.PeerInv c ps gh) (he : (ps.wl.genUpdate c.wantlist).2.isEmpty = true) :
    (∀ k, k ∈ c.wantlist.cids → ps.wl.req[k]? ≠ none) ∧
    (∀ k r, ps.wl.req[k]? = some r → k ∉ c.wantlist.cids → r = Req.gotBlock) := by
  by_cases hu : ps.wl.isUpdated c.wantlist = true
  · simp only [WState.isUpdated, Bool.and_eq_true, Bool.not_eq_true', beq_iff_eq] at hu
    have hk := hpi.synced_keys hu.2
    refine ⟨?_, ?_⟩
    · intro k hkw hn
      have := (hk k).2 hkw
      rw [ClientView.kmap_mem_iff] at this
      obtain ⟨v, hv⟩ := this
      rw [hn] at hv; cases hv
    · intro k r hr hkw
      exact absurd ((hk k).1 ((ClientView.kmap_mem_iff _ _).2 ⟨r, hr⟩)) hkw
  · have hu : ps.wl.isUpdated c.wantlist = false := by simpa using hu
    simp only [WlMsg.isEmpty, Bool.and_eq_true, List.isEmpty_iff] at he
    obtain ⟨⟨h1, _⟩, h3⟩ := he
    refine ⟨?_, ?_⟩
    · intro k hkw hn
      have : k ∈ (ps.wl.genUpdate c.wantlist).2.wantHave :=
        (ClientView.genUpdate_wantHave _ _ hu k).2 ⟨hkw, hn⟩
      rw [h1] at this; cases this
    · intro k r hr hkw
      apply Classical.byContradiction
      intro hne
      have : k ∈ (ps.wl.genUpdate c.wantlist).2.cancel :=
        (ClientView.genUpdate_cancel _ _ hu k).2 ⟨hkw, r, hr, hne⟩
      rw [h3] at this; cases this

theorem updatePeer_none_ready (w : Wantlist) (now : Nat) (ps2 : PeerSt) (hr : ps2.sending = .ready)
    (hc : ps2.conns.isEmpty = false) (hn : (Client.updatePeer w now ps2 none).2 = none) :
    ps2.sendFull = false ∧ (ps2.wl.genUpdate w).2.isEmpty = true := by
  rw [ClientView.updatePeer_eq, hr] at hn
  simp only at hn
  have hgo := ClientView.goPeer_res w now none ps2
  generalize ClientView.goPeer w now none ps2 = res at hgo hn
  cases hgo with
  | drop hce => rw [hc] at hce; cases hce
  | full _ _ => cases hn
  | upd _ _ _ => cases hn
  | quiet _ hf he => exact ⟨hf, he⟩

/-- `a` has nothing to send: no full wantlist is due and the update is empty. -/
theorem quiet_a (g : GS) (ha : AInv g) (hr : g.s.a.client.runq = []) (hw : g.s.wireAB = [])
    (hout : (Node.step g.s.a (.drain [] [])).2.1 = []) :
    (apeer g.s).sendFull = false ∧ ¬ g.s.a.client.deadline ≤ g.s.a.now ∧
    ((apeer g.s).wl.genUpdate g.s.a.client.wantlist).2.isEmpty = true := by
  rw [nodeA_drain g.s.a ha.srv] at hout
  simp only at hout
  have hq : ∀ p c m, Out.send p c m ∉ g.s.a.client.queue := by
    have := ha.ginv.queue_nosend; rw [ha.coh] at this; exact this
  obtain ⟨_, _, _, _, _, d6⟩ :=
    ClientView.drain_spec g.s.a.client g.s.a.now g.s.a.seq (Node.prefOf []) hq
  have hnone : sentA g.s = none := by
    cases hs : sentA g.s with
    | none => rfl
    | some cm =>
      have := (d6 1 cm.1 cm.2).2 hs
      rw [hout] at this; cases this
  obtain ⟨ps, hps⟩ := ha.peer1
  obtain ⟨m1, _, m3⟩ := midA_norun g.s hr
  have h2 := m3 1
  rw [hps] at h2
  simp only [Option.map_some] at h2
  have he : sentA g.s = (Client.updatePeer (midA g.s).wantlist g.s.a.now
      ({ ps with sendFull := ps.sendFull || decide (g.s.a.client.deadline ≤ g.s.a.now) } : PeerSt) none).2 := by
    unfold sentA ClientView.sentTo
    rw [h2]; rfl
  have hready : ps.sending = .ready := by
    rcases ha.wire with ⟨h, _⟩ | ⟨_, m, hm⟩
    · rw [apeer_eq hps] at h; exact h
    · rw [hw] at hm; cases hm
  have hc := ha.conns
  rw [apeer_eq hps] at hc ⊢
  rw [he, m1] at hnone
  have := updatePeer_none_ready g.s.a.client.wantlist g.s.a.now
    ({ ps with sendFull := ps.sendFull || decide (g.s.a.client.deadline ≤ g.s.a.now) } : PeerSt)
    hready hc hnone
  simp only [Bool.or_eq_false_iff, decide_eq_false_iff_not] at this
  exact ⟨this.1.1, this.1.2, this.2⟩

end Beetswap.Proofs.Net
