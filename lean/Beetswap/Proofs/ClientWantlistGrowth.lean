import Beetswap.Proofs.ClientView
/-!
When the wantlist grows: only when a local blockstore lookup for that CID has completed with a
miss. A lookup that hits answers the query, one that fails yields an error event, a cancelled one
yields nothing — none of them turns into a request to the network (C03). This is the rule the
monitor "a CID enters the wantlist only because a local lookup for it missed" checks on the
implementation's traces.
-/
namespace Beetswap.Proofs.ClientQuery
open Std Beetswap.Client Beetswap.Wl
open Beetswap.Proofs.ClientView (kset_mem_insert)

/-- task `t` is a finished, not cancelled lookup for `k` that missed -/
def MissedLookup (t : Task) (k : Nat) : Prop :=
  t.aborted = false ∧ t.st = .done .miss ∧ ∃ q, t.kind = .get q k

theorem insert_mem (w : Wantlist) (k a : Nat) (h : a ∈ (w.insert k).1.cids) : a = k ∨ a ∈ w.cids := by
  unfold Wantlist.insert at h
  split at h
  · exact Or.inr h
  · exact (kset_mem_insert _ _ _).1 h

/-- One task is polled: the wantlist grows only by the CID of a lookup that missed. -/
theorem pollTask_wantlist (s : State) (seq id k : Nat)
    (h : k ∈ (pollTask s seq id).1.wantlist.cids) :
    k ∈ s.wantlist.cids ∨ ∃ t ∈ s.tasks, t.id = id ∧ MissedLookup t k := by
  unfold pollTask at h
  split at h
  · exact Or.inl h
  · rename_i t ht
    have hmem : t ∈ s.tasks := List.mem_of_find?_eq_some ht
    have hid : t.id = id := by
      have := List.find?_some ht
      simpa using this
    dsimp only at h
    split at h
    · exact Or.inl h
    · rename_i hab
      split at h
      · exact Or.inl h
      · exact Or.inl h
      · exact Or.inl h
      · rename_i r q k' hst hkind
        split at h
        · exact Or.inl h
        · -- the miss arm
          rcases insert_mem _ k' k h with e | e
          · subst e
            exact Or.inr ⟨t, hmem, hid, by simpa using hab, hst, q, hkind⟩
          · exact Or.inl e
        · exact Or.inl h
      · rename_i r bs hst hkind
        split at h <;> exact Or.inl h

/-- polling a task finishes no other task: a finished task that is there afterwards was there before -/
theorem pollTask_done_old (s : State) (seq id : Nat) (t' : Task) (r : StoreRes)
    (h : t' ∈ (pollTask s seq id).1.tasks) (hd : t'.st = .done r) : t' ∈ s.tasks := by
  unfold pollTask at h
  split at h
  · exact h
  · rename_i t ht
    dsimp only at h
    have hfilter : ∀ (s0 : State), t' ∈ (s0.tasks.filter (·.id != id)) → t' ∈ s0.tasks :=
      fun s0 hx => (List.mem_filter.1 hx).1
    have hmap : t' ∈ s.tasks.map (fun u => if u.id == id then { u with st := TaskSt.waiting seq } else u) → t' ∈ s.tasks := by
      intro hx
      obtain ⟨u, hu, e⟩ := List.mem_map.1 hx
      split at e
      · subst e; cases hd
      · subst e; exact hu
    split at h
    · exact hfilter s h
    · split at h
      · exact hmap h
      · exact hmap h
      · exact h
      · split at h
        · exact hfilter s h
        · exact hfilter s h
        · exact hfilter s h
      · split at h <;> exact hfilter s h

theorem pollTasks_wantlist (ids : List Nat) (s : State) (seq k : Nat)
    (h : k ∈ (pollTasks s seq ids).1.wantlist.cids) :
    k ∈ s.wantlist.cids ∨ ∃ t ∈ s.tasks, MissedLookup t k := by
  induction ids generalizing s seq with
  | nil => exact Or.inl h
  | cons id ids ih =>
    unfold pollTasks at h
    rcases ih _ _ h with h1 | ⟨t, ht, hm⟩
    · rcases pollTask_wantlist s seq id k h1 with h2 | ⟨t, ht, _, hm⟩
      · exact Or.inl h2
      · exact Or.inr ⟨t, ht, hm⟩
    · exact Or.inr ⟨t, pollTask_done_old s seq id t .miss ht hm.2.1, hm⟩

theorem updateHandlers_wantlist (s : State) (now : Nat) (pref : Nat → Option Nat) :
    (updateHandlers s now pref).1.wantlist = s.wantlist := by
  unfold updateHandlers
  generalize s.peers.keys = ks
  have : ∀ (acc : State × List Out), (ks.foldl (fun (acc : State × List Out) p =>
      match acc.1.peers[p]? with
      | none => acc
      | some ps =>
        let (ps', m) := updatePeer acc.1.wantlist now ps (pref p)
        let peers := match ps' with
          | some ps' => acc.1.peers.insert p ps'
          | none => acc.1.peers.erase p
        ({ acc.1 with peers := peers },
         match m with
         | some (c, m) => acc.2 ++ [Out.send p c m]
         | none => acc.2)) acc).1.wantlist = acc.1.wantlist := by
    induction ks with
    | nil => intro acc; rfl
    | cons p ps ih =>
      intro acc
      rw [List.foldl_cons, ih]
      split <;> rfl
  exact this (s, [])

/-- C03: a poll of the behaviour adds a CID to the wantlist only if a local lookup for it had
completed with a miss (and was not cancelled). -/
theorem drain_wantlist (s : State) (now seq : Nat) (pref : Nat → Option Nat) (k : Nat)
    (h : k ∈ (drain s now seq pref).1.wantlist.cids) :
    k ∈ s.wantlist.cids ∨ ∃ t ∈ s.tasks, MissedLookup t k := by
  rw [ClientView.drain_eq] at h
  dsimp only at h
  rw [updateHandlers_wantlist] at h
  unfold ClientView.afterTasks at h
  have hr : ∀ s0 : State, (ClientView.refresh s0 now).wantlist = s0.wantlist ∧ (ClientView.refresh s0 now).tasks = s0.tasks := by
    intro s0; unfold ClientView.refresh; split <;> exact ⟨rfl, rfl⟩
  rcases pollTasks_wantlist _ _ _ k h with h1 | ⟨t, ht, hm⟩
  · exact Or.inl (by have := (hr { s with queue := [] }).1; simpa [this] using h1)
  · exact Or.inr ⟨t, by have := (hr { s with queue := [] }).2; simpa [this] using ht, hm⟩

end Beetswap.Proofs.ClientQuery
