import Beetswap.Proofs.NodeStoreClient
import Beetswap.Proofs.ServerDrain
/-!
Helper lemmas for `Proofs/NodeStore`, server half: the invariant `SInv G sv` ("every block in the
outgoing queue, every finished lookup with a hit and every completed-but-unpolled hit satisfies
`G`; the event queue is empty; task ids are pairwise distinct") is preserved by every entry point
of `Model/Server`, and `drain` dispatches only `G` blocks.
-/
namespace Beetswap.Proofs.NodeStore
open Std Beetswap.Server
open Beetswap.Client (Out StoreRes)
open Beetswap.Proofs.Server (taskHit Batches uhInner uhStep)

def TaskOk (G : Nat × Nat → Prop) (t : Task) : Prop :=
  (∀ k d, (k, StoreRes.hit d) ∈ t.results → G (k, d)) ∧
  (∀ d k rest, t.st = .ready (.hit d) → t.todo = k :: rest → G (k, d))

theorem TaskOk.mono {G G' : Nat × Nat → Prop} {t : Task} (h : TaskOk G t)
    (hG : ∀ kd, G kd → G' kd) : TaskOk G' t :=
  ⟨fun k d hk => hG _ (h.1 k d hk), fun d k rest h1 h2 => hG _ (h.2 d k rest h1 h2)⟩

theorem TaskOk.of_taskHit {G : Nat × Nat → Prop} {t : Task} (h : TaskOk G t) {k d : Nat}
    (hh : taskHit t k d) : G (k, d) := by
  rcases hh with hh | ⟨hd, r, hst, rfl⟩
  · exact h.1 k d hh
  · cases htd : t.todo with
    | nil => rw [htd] at hd; simp at hd
    | cons k' rest =>
      rw [htd] at hd
      simp at hd
      subst hd
      exact h.2 d k' rest hst htd

structure SInv (G : Nat × Nat → Prop) (sv : State) : Prop where
  outq : ∀ kd ∈ sv.outq, G kd
  tasks : ∀ t ∈ sv.tasks, TaskOk G t
  evq : sv.evq = []
  ids : (sv.tasks.map (·.id)).Nodup
  lt : ∀ t ∈ sv.tasks, t.id < sv.nextTask

theorem SInv.mono {G G' : Nat × Nat → Prop} {sv : State} (h : SInv G sv)
    (hG : ∀ kd, G kd → G' kd) : SInv G' sv :=
  ⟨fun kd hk => hG _ (h.outq kd hk), fun t ht => (h.tasks t ht).mono hG, h.evq, h.ids, h.lt⟩

theorem SInv.of_eq {G : Nat × Nat → Prop} {sv sv' : State} (h : SInv G sv)
    (h1 : sv'.outq = sv.outq) (h2 : sv'.tasks = sv.tasks) (h3 : sv'.evq = sv.evq)
    (h4 : sv'.nextTask = sv.nextTask) : SInv G sv' :=
  ⟨h1 ▸ h.outq, h2 ▸ h.tasks, h3 ▸ h.evq, h2 ▸ h.ids, by rw [h2, h4]; exact h.lt⟩

theorem sinv_init (G : Nat × Nat → Prop) : SInv G ({} : State) :=
  ⟨by intro kd hk; simp at hk, by intro t ht; simp at ht, rfl, by simp,
   by intro t ht; simp at ht⟩

theorem sinv_connect {G : Nat × Nat → Prop} {s : State} (p : Nat) (h : SInv G s) :
    SInv G (connect s p) := by
  unfold connect
  split
  · exact h
  · exact h.of_eq rfl rfl rfl rfl

theorem sinv_disconnected {G : Nat × Nat → Prop} {s : State} (p : Nat) (h : SInv G s) :
    SInv G (disconnected s p) := h.of_eq rfl rfl rfl rfl

theorem sinv_newBlocks {G : Nat × Nat → Prop} {s : State} (bs : List (Nat × Nat)) (h : SInv G s)
    (hb : ∀ kd ∈ bs, G kd) : SInv G (newBlocks s bs) := by
  refine ⟨?_, h.tasks, h.evq, h.ids, h.lt⟩
  intro kd hk
  have hk : kd ∈ s.outq ++ bs := hk
  rcases List.mem_append.1 hk with hk | hk
  · exact h.outq kd hk
  · exact hb kd hk

theorem incomingMid_outq (s : State) (p : Nat) (new : KSet) (added removed : List Nat) :
    (Beetswap.Proofs.Server.incomingMid s p new added removed).outq = s.outq := by
  unfold Beetswap.Proofs.Server.incomingMid
  obtain ⟨_, h2, _⟩ := Beetswap.Proofs.Server.foldl_add_fields added
    (removed.foldl (fun s k => cancelRequest s p k) { s with wl := s.wl.insert p new }) p
  obtain ⟨_, g2, _⟩ := Beetswap.Proofs.Server.foldl_cancel_fields removed
    { s with wl := s.wl.insert p new } p
  exact h2.trans g2

theorem sinv_incoming {G : Nat × Nat → Prop} {s : State} (p : Nat) (full : Bool)
    (es : List Entry) (h : SInv G s) : SInv G (incoming s p full es) := by
  cases hc : s.wl[p]? with
  | none => rw [Beetswap.Proofs.Server.incoming_none s p full es hc]; exact h
  | some cur =>
    rw [Beetswap.Proofs.Server.incoming_eq s p full es cur hc]
    dsimp only
    obtain ⟨_, f2, f3, _, f5⟩ := Beetswap.Proofs.Server.incomingMid_fields s p
      (processWantlist cur full es).1 (processWantlist cur full es).2.1 (processWantlist cur full es).2.2
    have f1 := incomingMid_outq s p
      (processWantlist cur full es).1 (processWantlist cur full es).2.1 (processWantlist cur full es).2.2
    generalize Beetswap.Proofs.Server.incomingMid s p
      (processWantlist cur full es).1 (processWantlist cur full es).2.1 (processWantlist cur full es).2.2 = m
      at f1 f2 f3 f5
    refine ⟨?_, ?_, ?_, ?_, ?_⟩
    · show ∀ kd ∈ m.outq, G kd
      rw [f1]; exact h.outq
    · show ∀ t ∈ m.tasks ++ [_], TaskOk G t
      intro t ht
      rcases List.mem_append.1 ht with ht | ht
      · rw [f3] at ht; exact h.tasks t ht
      · rw [List.mem_singleton.1 ht]
        exact ⟨by intro k d hk; simp at hk, by intro d k rest hst; cases hst⟩
    · show m.evq = []
      rw [f2]; exact h.evq
    · show (List.map Server.Task.id (m.tasks ++ [_])).Nodup
      rw [List.map_append, f3, f5]
      refine List.nodup_append.2 ⟨h.ids, by simp, ?_⟩
      intro a ha b hb
      obtain ⟨t, ht, rfl⟩ := List.mem_map.1 ha
      simp at hb
      have := h.lt t ht
      omega
    · show ∀ t ∈ m.tasks ++ [_], t.id < m.nextTask + 1
      intro t ht
      rcases List.mem_append.1 ht with ht | ht
      · rw [f3] at ht; rw [f5]; have := h.lt t ht; omega
      · rw [List.mem_singleton.1 ht]; exact Nat.lt_succ_self _

theorem eq_of_id_eq {l : List Task} (hn : (l.map (·.id)).Nodup) {t u : Task} (ht : t ∈ l)
    (hu : u ∈ l) (hid : t.id = u.id) : t = u := by
  induction l with
  | nil => cases ht
  | cons a l ih =>
    rw [List.map_cons, List.nodup_cons] at hn
    rcases List.mem_cons.1 ht with rfl | ht' <;> rcases List.mem_cons.1 hu with rfl | hu'
    · rfl
    · exact absurd (hn.1 (List.mem_map.2 ⟨u, hu', hid.symm⟩)) id
    · exact absurd (hn.1 (List.mem_map.2 ⟨t, ht', hid⟩)) id
    · exact ih hn.2 ht' hu'

theorem map_ids_eq (l : List Task) (f : Task → Task) (hf : ∀ u, (f u).id = u.id) :
    (l.map f).map (·.id) = l.map (·.id) := by
  rw [List.map_map]
  exact List.map_congr_left (fun u _ => hf u)

/-- the blocks a `complete seq (hit d)` makes available to the server half -/
def extOf (s : State) (seq : Nat) : StoreRes → List (Nat × Nat)
  | .hit d => s.tasks.filterMap fun t => match t.st, t.todo with
      | .waiting n, k :: _ => if n = seq then some (k, d) else none
      | _, _ => none
  | _ => []

theorem sinv_complete {G : Nat × Nat → Prop} {s sv : State} (seq : Nat) (r : StoreRes)
    (hc : complete s seq r = some sv) (h : SInv G s) :
    SInv (fun kd => G kd ∨ kd ∈ extOf s seq r) sv := by
  unfold complete at hc
  split at hc
  · cases hc
  · rename_i t hf
    cases hc
    have ht : t ∈ s.tasks := List.mem_of_find?_eq_some hf
    have hw := List.find?_some hf
    have hids : (s.tasks.map (fun u => if u.id == t.id then { u with st := .ready r } else u)).map (·.id)
        = s.tasks.map (·.id) := map_ids_eq _ _ (by intro u; split <;> rfl)
    refine ⟨fun kd hk => Or.inl (h.outq kd hk), ?_, h.evq, ?_, ?_⟩
    · intro u' hu'
      obtain ⟨u, hu, rfl⟩ := List.mem_map.1 hu'
      split
      · rename_i hid
        have : u = t := eq_of_id_eq h.ids hu ht (by simpa using hid)
        subst this
        refine ⟨fun k d hk => Or.inl ((h.tasks u hu).1 k d hk), ?_⟩
        intro d k rest hst htd
        cases hst
        right
        cases hst : u.st with
        | waiting n =>
          rw [hst] at hw
          have hn : n = seq := by simpa using hw
          simp only [extOf, List.mem_filterMap]
          exact ⟨u, hu, by rw [hst, htd]; simp [hn]⟩
        | fresh => rw [hst] at hw; simp at hw
        | ready r' => rw [hst] at hw; simp at hw
      · exact (h.tasks u hu).mono fun kd hk => Or.inl hk
    · show (List.map Server.Task.id (s.tasks.map _)).Nodup
      rw [hids]; exact h.ids
    · intro u' hu'
      obtain ⟨u, hu, rfl⟩ := List.mem_map.1 hu'
      have := h.lt u hu
      split <;> exact this

/-! ### `drain` -/

theorem pollTask_shape' (s : State) (seq : Nat) (obs : Nat → Option Nat) (id : Nat) :
    (pollTask s seq obs id = (s, seq, [])) ∨
    (∃ t ∈ s.tasks, ∃ rs, pollTask s seq obs id =
        (finish { s with tasks := s.tasks.filter (·.id != id) } rs, seq, []) ∧
        ∀ k d, (k, StoreRes.hit d) ∈ rs → taskHit t k d) ∨
    (∃ t ∈ s.tasks, ∃ t' k, pollTask s seq obs id =
        ({ s with tasks := s.tasks.map (fun u => if u.id == id then t' else u) }, seq + 1,
          [Out.callGet seq k]) ∧
        (∃ n, t'.st = LookupSt.waiting n) ∧
        (∀ k d, (k, StoreRes.hit d) ∈ t'.results → taskHit t k d) ∧ t'.id = id) := by
  unfold pollTask
  cases hf : s.tasks.find? (·.id == id) with
  | none => left; rfl
  | some t =>
    have ht : t ∈ s.tasks := List.mem_of_find?_eq_some hf
    have hid : t.id = id := by simpa using List.find?_some hf
    dsimp only
    cases hst : t.st with
    | fresh =>
      dsimp only
      cases htd : t.todo with
      | nil =>
        right; left
        exact ⟨t, ht, t.results, rfl, fun k d h => Or.inl h⟩
      | cons k0 rest =>
        right; right
        refine ⟨t, ht, _, _, rfl, ⟨seq, rfl⟩, fun k d h => Or.inl h, hid⟩
    | waiting n => left; rfl
    | ready r =>
      dsimp only
      cases htd : t.todo with
      | nil =>
        right; left
        exact ⟨t, ht, t.results, rfl, fun k d h => Or.inl h⟩
      | cons k rest =>
        dsimp only
        cases hr : rest with
        | nil =>
          right; left
          refine ⟨t, ht, _, rfl, ?_⟩
          intro k' d h
          simp at h
          rcases h with h | ⟨rfl, rfl⟩
          · exact Or.inl h
          · exact Or.inr ⟨by simp [htd], _, hst, rfl⟩
        | cons k0 rest' =>
          right; right
          refine ⟨t, ht, _, _, rfl, ⟨seq, rfl⟩, ?_, hid⟩
          intro k' d h
          simp at h
          rcases h with h | ⟨rfl, rfl⟩
          · exact Or.inl h
          · exact Or.inr ⟨by simp [htd], _, hst, rfl⟩

theorem pollTask_sinv {A G : Nat × Nat → Prop} (s : State) (seq : Nat) (obs : Nat → Option Nat)
    (id : Nat) (h : SInv G s) :
    SInv G (pollTask s seq obs id).1 ∧ ∀ o ∈ (pollTask s seq obs id).2.2, GoodOut A G o := by
  rcases pollTask_shape' s seq obs id with e | ⟨t, ht, rs, e, hrs⟩ | ⟨t, ht, t', k, e, ⟨n, hn⟩, hres, hid⟩
  · rw [e]; exact ⟨h, by simp⟩
  · rw [e]
    refine ⟨⟨?_, ?_, h.evq, ?_, ?_⟩, by simp⟩
    · intro kd hk
      have hk : kd ∈ s.outq ++ rs.filterMap (fun kr => match kr.2 with
          | .hit d => some (kr.1, d)
          | _ => none) := hk
      rcases List.mem_append.1 hk with hk | hk
      · exact h.outq kd hk
      · obtain ⟨kr, hkr, hm⟩ := List.mem_filterMap.1 hk
        obtain ⟨k, r⟩ := kr
        cases r <;> simp at hm
        subst hm
        exact (h.tasks t ht).of_taskHit (hrs _ _ hkr)
    · intro u hu
      exact h.tasks u (List.mem_filter.1 hu).1
    · show (List.map Server.Task.id (s.tasks.filter _)).Nodup
      exact h.ids.sublist (List.filter_sublist.map _)
    · intro u hu
      exact h.lt u (List.mem_filter.1 hu).1
  · rw [e]
    dsimp only
    refine ⟨⟨h.outq, ?_, h.evq, ?_, ?_⟩, by simp [GoodOut]⟩
    · intro u' hu'
      obtain ⟨u, hu, rfl⟩ := List.mem_map.1 hu'
      split
      · refine ⟨fun k d hk => (h.tasks t ht).of_taskHit (hres k d hk), ?_⟩
        intro d k rest hst
        rw [hn] at hst; cases hst
      · exact h.tasks u hu
    · show (List.map Server.Task.id (s.tasks.map _)).Nodup
      rw [map_ids_eq _ _ (by
        intro u
        split
        · rename_i hu
          rw [hid]; exact (by simpa using hu : u.id = id).symm
        · rfl)]
      exact h.ids
    · intro u' hu'
      obtain ⟨u, hu, rfl⟩ := List.mem_map.1 hu'
      have := h.lt u hu
      split
      · rename_i hu1
        have : u.id = id := by simpa using hu1
        show t'.id < s.nextTask
        omega
      · exact this

theorem pollTasks_sinv {A G : Nat × Nat → Prop} (ids : List Nat) (s : State) (seq : Nat)
    (obs : Nat → Option Nat) (h : SInv G s) :
    SInv G (pollTasks s seq obs ids).1 ∧ ∀ o ∈ (pollTasks s seq obs ids).2.2, GoodOut A G o := by
  induction ids generalizing s seq with
  | nil => exact ⟨h, by simp [pollTasks]⟩
  | cons id ids ih =>
    obtain ⟨h1, o1⟩ := pollTask_sinv (A := A) s seq obs id h
    obtain ⟨h2, o2⟩ := ih (pollTask s seq obs id).1 (pollTask s seq obs id).2.1 h1
    refine ⟨h2, ?_⟩
    intro o ho
    have ho : o ∈ (pollTask s seq obs id).2.2 ++
        (pollTasks (pollTask s seq obs id).1 (pollTask s seq obs id).2.1 obs ids).2.2 := ho
    rcases List.mem_append.1 ho with ho | ho
    · exact o1 o ho
    · exact o2 o ho

theorem addBlock_good {G : Nat × Nat → Prop} (acc : Batches) (p : Nat) (kd : Nat × Nat)
    (h : ∀ e ∈ acc, ∀ x ∈ e.2, G x) (hkd : G kd) : ∀ e ∈ addBlock acc p kd, ∀ x ∈ e.2, G x := by
  unfold addBlock
  split
  · intro e he x hx
    obtain ⟨e0, he0, rfl⟩ := List.mem_map.1 he
    split at hx
    · rcases List.mem_append.1 hx with hx | hx
      · exact h e0 he0 x hx
      · rw [List.mem_singleton.1 hx]; exact hkd
    · exact h e0 he0 x hx
  · intro e he x hx
    rcases List.mem_append.1 he with he | he
    · exact h e he x hx
    · rw [List.mem_singleton.1 he] at hx
      rw [List.mem_singleton.1 hx]; exact hkd

/-- what the dispatch loop keeps: the queue stays empty, tasks / event queue / id counter are
those of `s0`, and the batches hold only `G` blocks -/
def UHP (G : Nat × Nat → Prop) (s0 : State) (acc : State × Batches) : Prop :=
  acc.1.outq = [] ∧ acc.1.tasks = s0.tasks ∧ acc.1.evq = s0.evq ∧ acc.1.nextTask = s0.nextTask ∧
    ∀ e ∈ acc.2, ∀ x ∈ e.2, G x

theorem uhInner_fold_uhp {G : Nat × Nat → Prop} (s0 : State) (k : Nat) (kd : Nat × Nat)
    (hkd : G kd) (ps : List Nat) (acc : State × Batches) (h : UHP G s0 acc) :
    UHP G s0 (ps.foldl (uhInner k kd) acc) := by
  induction ps generalizing acc with
  | nil => exact h
  | cons p ps ih =>
    rw [List.foldl_cons]
    apply ih
    obtain ⟨h1, h2, h3, h4, h5⟩ := h
    exact ⟨h1, h2, h3, h4, addBlock_good acc.2 p kd h5 hkd⟩

theorem uhStep_uhp {G : Nat × Nat → Prop} (s0 : State) (kd : Nat × Nat) (hkd : G kd)
    (acc : State × Batches) (h : UHP G s0 acc) : UHP G s0 (uhStep acc kd) := by
  unfold uhStep
  split
  · exact h
  · apply uhInner_fold_uhp s0 kd.1 kd hkd
    obtain ⟨h1, h2, h3, h4, h5⟩ := h
    exact ⟨h1, h2, h3, h4, h5⟩

theorem uhStep_fold_uhp {G : Nat × Nat → Prop} (s0 : State) (l : List (Nat × Nat))
    (hl : ∀ kd ∈ l, G kd) (acc : State × Batches) (h : UHP G s0 acc) :
    UHP G s0 (l.foldl uhStep acc) := by
  induction l generalizing acc with
  | nil => exact h
  | cons kd l ih =>
    rw [List.foldl_cons]
    exact ih (fun x hx => hl x (List.mem_cons_of_mem _ hx)) _
      (uhStep_uhp s0 kd (hl kd List.mem_cons_self) acc h)

theorem updateHandlers_sinv {A G : Nat × Nat → Prop} (s : State) (h : SInv G s) :
    SInv G (updateHandlers s).1 ∧ ∀ o ∈ (updateHandlers s).2, GoodOut A G o := by
  rw [Beetswap.Proofs.Server.updateHandlers_eq]
  have := uhStep_fold_uhp (G := G) s s.outq h.outq ({ s with outq := [] }, [])
    ⟨rfl, rfl, rfl, rfl, by intro e he; simp at he⟩
  obtain ⟨h1, h2, h3, h4, h5⟩ := this
  refine ⟨⟨?_, ?_, ?_, ?_, ?_⟩, ?_⟩
  · intro kd hk; rw [h1] at hk; simp at hk
  · rw [h2]; exact h.tasks
  · rw [h3]; exact h.evq
  · rw [h2]; exact h.ids
  · rw [h2, h4]; exact h.lt
  · intro o ho
    obtain ⟨e, he, rfl⟩ := List.mem_map.1 ho
    exact h5 e he

theorem drain_sinv {A G : Nat × Nat → Prop} (s : State) (seq : Nat) (obs : Nat → Option Nat)
    (h : SInv G s) :
    SInv G (drain s seq obs).1 ∧ ∀ o ∈ (drain s seq obs).2.2, GoodOut A G o := by
  rw [Beetswap.Proofs.Server.drain_eq]
  dsimp only
  have h0 : SInv G { s with evq := [], runq := [] } := ⟨h.outq, h.tasks, rfl, h.ids, h.lt⟩
  obtain ⟨h1, o1⟩ := pollTasks_sinv (A := A) s.runq { s with evq := [], runq := [] } seq obs h0
  obtain ⟨h2, o2⟩ := updateHandlers_sinv (A := A)
    (pollTasks { s with evq := [], runq := [] } seq obs s.runq).1 h1
  refine ⟨h2, ?_⟩
  intro o ho
  rcases List.mem_append.1 ho with ho | ho
  · rcases List.mem_append.1 ho with ho | ho
    · rw [h.evq] at ho; simp at ho
    · exact o1 o ho
  · exact o2 o ho

end Beetswap.Proofs.NodeStore
