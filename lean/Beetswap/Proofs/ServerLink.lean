import Beetswap.Model.ServerLink
import Beetswap.Proofs.ServerSink
import Beetswap.Proofs.Server
/-!
The pipeline from the server behaviour to the wire, for every schedule of `Model/ServerLink`:
where every dispatched `QueueOutgoingMessages` event is (exactly one place), what every handler
holds (conservation through the handler), to whom it can go (connections of its own peer only),
and when the server forgets a peer (with its last connection, not before).
-/
namespace Beetswap.Proofs.ServerLink
open Std Beetswap Beetswap.ServerLink Beetswap.ServerSink
open Beetswap.Proofs.Server (kmap_get_insert kmap_mem_iff kmap_mem_keys)
open Beetswap.Proofs.ServerSink (pendingOf)

def ids (es : List Ev) : List Nat := es.map (·.id)

@[simp] theorem ids_nil : ids [] = [] := rfl
@[simp] theorem ids_cons (e : Ev) (es : List Ev) : ids (e :: es) = e.id :: ids es := rfl
@[simp] theorem ids_append (a b : List Ev) : ids (a ++ b) = ids a ++ ids b := by simp [ids]

theorem mem_ids {es : List Ev} {n : Nat} : n ∈ ids es ↔ ∃ e ∈ es, e.id = n := by
  simp [ids]

theorem mem_ids_of_mem {es : List Ev} {e : Ev} (h : e ∈ es) : e.id ∈ ids es := mem_ids.2 ⟨e, h, rfl⟩

/-! ### The sink automaton: runs extended by one input -/

theorem run_snoc (h : H) (ins : List In) (i : In) :
    ServerSink.run h (ins ++ [i]) =
      ((ServerSink.step (ServerSink.run h ins).1 i).1, (ServerSink.run h ins).2 ++ (ServerSink.step (ServerSink.run h ins).1 i).2) := by
  induction ins generalizing h with
  | nil => simp [ServerSink.run]
  | cons j js ih =>
    simp only [List.cons_append, Proofs.ServerSink.run_cons, ih, List.append_assoc]

theorem queuedOf_snoc (ins : List In) (i : In) : queuedOf (ins ++ [i]) = queuedOf ins ++ queuedOf [i] := by
  induction ins with
  | nil => simp [queuedOf]
  | cons j js ih =>
    rw [List.cons_append, Proofs.ServerSink.queuedOf_cons, ih, Proofs.ServerSink.queuedOf_cons j js, List.append_assoc]

theorem blocksOf_snoc (es : List Ev) (e : Ev) : blocksOf (es ++ [e]) = blocksOf es ++ e.blocks.map encB := by
  simp [blocksOf]

/-! ### `mkEvs` -/

theorem mkEvs_spec (n : Nat) (outs : List Client.Out) :
    (∀ e ∈ mkEvs n outs, n ≤ e.id ∧ e.id < n + (mkEvs n outs).length) ∧ (ids (mkEvs n outs)).Nodup := by
  induction outs generalizing n with
  | nil => simp [mkEvs]
  | cons o os ih =>
    cases o with
    | blocks p bs =>
      simp only [mkEvs]
      obtain ⟨h1, h2⟩ := ih (n + 1)
      refine ⟨?_, ?_⟩
      · intro e he
        rcases List.mem_cons.1 he with rfl | he
        · simp
        · have := h1 e he
          simp only [List.length_cons]
          omega
      · simp only [ids_cons, List.nodup_cons]
        refine ⟨?_, h2⟩
        intro hm
        obtain ⟨e, he, hid⟩ := mem_ids.1 hm
        have := (h1 e he).1
        omega
    | _ => simpa [mkEvs] using ih n

theorem mkEvs_mem (n : Nat) (outs : List Client.Out) (e : Ev) (he : e ∈ mkEvs n outs) :
    Client.Out.blocks e.peer e.blocks ∈ outs := by
  induction outs generalizing n with
  | nil => simp [mkEvs] at he
  | cons o os ih =>
    cases o with
    | blocks p bs =>
      simp only [mkEvs, List.mem_cons] at he
      rcases he with rfl | he
      · simp
      · exact List.mem_cons_of_mem _ (ih (n + 1) he)
    | _ =>
      simp only [mkEvs] at he
      exact List.mem_cons_of_mem _ (ih n he)

/-! ### The invariant -/

/-- what is known about one connection -/
structure LinkOk (place : Nat → Place) (nextE : Nat) (c : Nat) (l : Link) : Prop where
  coh : ServerSink.run {} l.ins = (l.h, l.outs)
  queued : queuedOf l.ins = blocksOf l.delivered
  cmd_place : ∀ e ∈ l.cmds, place e.id = .cmd c ∧ e.peer = l.peer ∧ e.id < nextE
  del_place : ∀ e ∈ l.delivered, place e.id = .handler c ∧ e.peer = l.peer ∧ e.id < nextE
  cmd_nodup : (ids l.cmds).Nodup
  del_nodup : (ids l.delivered).Nodup
  closing_nocmd : l.closing = true → l.cmds = []
  gone_closing : l.gone = true → l.closing = true

/-- event `n` is where `pl` says -/
def At (links : KMap Link) (outbox : List Ev) (pend : Option (Ev × List Nat)) (lost : List Ev) (n : Nat) : Place → Prop
  | .nowhere => False
  | .outbox => n ∈ ids outbox
  | .pend => ∃ e cs, pend = some (e, cs) ∧ e.id = n
  | .cmd c => ∃ l, links[c]? = some l ∧ n ∈ ids l.cmds
  | .handler c => ∃ l, links[c]? = some l ∧ n ∈ ids l.delivered
  | .lost => n ∈ ids lost

structure PInv (links : KMap Link) (outbox : List Ev) (pend : Option (Ev × List Nat)) (nextE : Nat)
    (place : Nat → Place) (lost : List Ev) : Prop where
  link : ∀ c l, links[c]? = some l → LinkOk place nextE c l
  outbox_place : ∀ e ∈ outbox, place e.id = .outbox ∧ e.id < nextE
  outbox_nodup : (ids outbox).Nodup
  pend_place : ∀ e cs, pend = some (e, cs) → place e.id = .pend ∧ e.id < nextE ∧
    ∀ c ∈ cs, ∃ l, links[c]? = some l ∧ l.peer = e.peer
  lost_place : ∀ e ∈ lost, place e.id = .lost ∧ e.id < nextE
  lost_nodup : (ids lost).Nodup
  fresh : ∀ n, nextE ≤ n → place n = .nowhere
  found : ∀ n, n < nextE → At links outbox pend lost n (place n)

def SInv (s : State) : Prop := PInv s.links s.outbox s.pend s.nextE s.place s.lost

theorem linkOk_mono {place place' : Nat → Place} {n n' c : Nat} {l : Link} (h : LinkOk place n c l)
    (hp : ∀ e, e ∈ l.cmds ∨ e ∈ l.delivered → place' e.id = place e.id) (hn : n ≤ n') :
    LinkOk place' n' c l where
  coh := h.coh
  queued := h.queued
  cmd_place := fun e he => by
    obtain ⟨a, b, d⟩ := h.cmd_place e he
    exact ⟨by rw [hp e (Or.inl he)]; exact a, b, by omega⟩
  del_place := fun e he => by
    obtain ⟨a, b, d⟩ := h.del_place e he
    exact ⟨by rw [hp e (Or.inr he)]; exact a, b, by omega⟩
  cmd_nodup := h.cmd_nodup
  del_nodup := h.del_nodup
  closing_nocmd := h.closing_nocmd
  gone_closing := h.gone_closing

theorem setPlace_ne {f : Nat → Place} {n m : Nat} {x : Place} (h : m ≠ n) : setPlace f n x m = f m := by
  simp [setPlace, h]

theorem setPlace_eq {f : Nat → Place} {n : Nat} {x : Place} : setPlace f n x n = x := by
  simp [setPlace]

theorem sinv_init : SInv {} := by
  refine ⟨?_, ?_, ?_, ?_, ?_, ?_, ?_, ?_⟩
  · intro c l hl; simp at hl
  · intro e he; simp at he
  · simp
  · intro e cs h; simp at h
  · intro e he; simp at he
  · simp
  · intro n _; rfl
  · intro n hn; simp at hn


/-! ### Moving events around -/

theorem at_mono {links links' : KMap Link} {ob ob' : List Ev} {pd pd' : Option (Ev × List Nat)}
    {lost lost' : List Ev} {n : Nat} {pl : Place} (h : At links ob pd lost n pl)
    (hob : n ∈ ids ob → n ∈ ids ob')
    (hpd : ∀ e cs, pd = some (e, cs) → e.id = n → ∃ e' cs', pd' = some (e', cs') ∧ e'.id = n)
    (hl : ∀ (c : Nat) (l : Link), links[c]? = some l → ∃ l' : Link, links'[c]? = some l' ∧
      (n ∈ ids l.cmds → n ∈ ids l'.cmds) ∧ (n ∈ ids l.delivered → n ∈ ids l'.delivered))
    (hlost : n ∈ ids lost → n ∈ ids lost') : At links' ob' pd' lost' n pl := by
  cases pl with
  | nowhere => exact h
  | outbox => exact hob h
  | pend => obtain ⟨e, cs, h1, h2⟩ := h; exact hpd e cs h1 h2
  | cmd c =>
    obtain ⟨l, h1, h2⟩ := h
    obtain ⟨l', a, b, _⟩ := hl c l h1
    exact ⟨l', a, b h2⟩
  | handler c =>
    obtain ⟨l, h1, h2⟩ := h
    obtain ⟨l', a, _, b⟩ := hl c l h1
    exact ⟨l', a, b h2⟩
  | lost => exact hlost h

/-- replacing the record of connection `c`: what happens to the lookups -/
theorem links_insert_lookup {links : KMap Link} {c : Nat} {l l' : Link} (hl : links[c]? = some l)
    (n : Nat) (hc : n ∈ ids l.cmds → n ∈ ids l'.cmds) (hd : n ∈ ids l.delivered → n ∈ ids l'.delivered) :
    ∀ (c1 : Nat) (l1 : Link), links[c1]? = some l1 → ∃ l2 : Link, (links.insert c l')[c1]? = some l2 ∧
      (n ∈ ids l1.cmds → n ∈ ids l2.cmds) ∧ (n ∈ ids l1.delivered → n ∈ ids l2.delivered) := by
  intro c1 l1 h1
  rw [kmap_get_insert]
  by_cases hcc : c1 = c
  · subst hcc
    rw [hl] at h1; cases h1
    exact ⟨l', by simp, hc, hd⟩
  · exact ⟨l1, by simp [hcc, h1], id, id⟩

/-- The record of connection `c` is replaced by one with the same events; nothing moves. -/
theorem pinv_replace {links : KMap Link} {ob : List Ev} {pd : Option (Ev × List Nat)} {nextE : Nat}
    {place : Nat → Place} {lost : List Ev} (h : PInv links ob pd nextE place lost)
    {c : Nat} {l l' : Link} (hl : links[c]? = some l) (hok : LinkOk place nextE c l')
    (hc : l'.cmds = l.cmds) (hd : l'.delivered = l.delivered) (hp : l'.peer = l.peer) :
    PInv (links.insert c l') ob pd nextE place lost where
  link := by
    intro c1 l1 h1
    rw [kmap_get_insert] at h1
    by_cases hcc : c1 = c
    · subst hcc; simp at h1; subst h1; exact hok
    · simp [hcc] at h1; exact h.link c1 l1 h1
  outbox_place := h.outbox_place
  outbox_nodup := h.outbox_nodup
  pend_place := by
    intro e cs hpd
    obtain ⟨a, b, d⟩ := h.pend_place e cs hpd
    refine ⟨a, b, ?_⟩
    intro c1 hc1
    obtain ⟨l1, h1, h2⟩ := d c1 hc1
    rw [kmap_get_insert]
    by_cases hcc : c1 = c
    · subst hcc; rw [hl] at h1; cases h1
      exact ⟨l', by simp, by rw [hp]; exact h2⟩
    · exact ⟨l1, by simp [hcc, h1], h2⟩
  lost_place := h.lost_place
  lost_nodup := h.lost_nodup
  fresh := h.fresh
  found := by
    intro n hn
    refine at_mono (h.found n hn) id (fun e cs a b => ⟨e, cs, a, b⟩) ?_ id
    exact links_insert_lookup hl n (by rw [hc]; exact id) (by rw [hd]; exact id)

theorem sinv_server (s : State) (h : SInv s) (op : Server.Op) : SInv (ServerLink.step s (.server op)) := by
  simp only [ServerLink.step]
  split
  · exact h
  · exact h

theorem sinv_connect (s : State) (h : SInv s) (p c : Nat) : SInv (ServerLink.step s (.connect p c)) := by
  simp only [ServerLink.step]
  split
  · exact h
  · rename_i hc
    have hnone : s.links[c]? = none := by
      cases hg : s.links[c]? with
      | none => rfl
      | some l => exact absurd ((kmap_mem_iff _ _).2 ⟨l, hg⟩) hc
    show PInv (s.links.insert c { peer := p }) s.outbox s.pend s.nextE s.place s.lost
    refine ⟨?_, h.outbox_place, h.outbox_nodup, ?_, h.lost_place, h.lost_nodup, h.fresh, ?_⟩
    · intro c1 l1 h1
      rw [kmap_get_insert] at h1
      by_cases hcc : c1 = c
      · subst hcc; simp at h1; subst h1
        exact ⟨rfl, rfl, fun e he => absurd he List.not_mem_nil, fun e he => absurd he List.not_mem_nil, List.nodup_nil, List.nodup_nil, fun h => Bool.noConfusion h, fun h => Bool.noConfusion h⟩
      · simp [hcc] at h1; exact h.link c1 l1 h1
    · intro e cs hpd
      obtain ⟨a, b, d⟩ := h.pend_place e cs hpd
      refine ⟨a, b, ?_⟩
      intro c1 hc1
      obtain ⟨l1, h1, h2⟩ := d c1 hc1
      have hcc : c1 ≠ c := by intro e; subst e; rw [hnone] at h1; cases h1
      exact ⟨l1, by rw [kmap_get_insert]; simp [hcc, h1], h2⟩
    · intro n hn
      refine at_mono (h.found n hn) id (fun e cs a b => ⟨e, cs, a, b⟩) ?_ id
      intro c1 l1 h1
      have hcc : c1 ≠ c := by intro e; subst e; rw [hnone] at h1; cases h1
      exact ⟨l1, by rw [kmap_get_insert]; simp [hcc, h1], id, id⟩

theorem sinv_handler (s : State) (h : SInv s) (c : Nat) (i : In) : SInv (ServerLink.step s (.handler c i)) := by
  simp only [ServerLink.step]
  split
  · rename_i l hl
    split
    · exact h
    · rename_i hcond
      have hal : allowed l.h i = true := by
        cases ha : allowed l.h i <;> simp [ha] at hcond ⊢
      have hq : queuedOf [i] = [] := by
        cases i <;> simp [allowed] at hal <;> simp [queuedOf]
      have hok := h.link c l hl
      refine pinv_replace h hl ?_ rfl rfl rfl
      refine ⟨?_, ?_, hok.cmd_place, hok.del_place, hok.cmd_nodup, hok.del_nodup, hok.closing_nocmd, hok.gone_closing⟩
      · show ServerSink.run {} (l.ins ++ [i]) = _
        rw [run_snoc, hok.coh]
      · show queuedOf (l.ins ++ [i]) = _
        rw [queuedOf_snoc, hq, List.append_nil]; exact hok.queued
  · exact h

theorem sinv_swarmClosed (s : State) (h : SInv s) (c : Nat) : SInv (ServerLink.step s (.swarmClosed c)) := by
  simp only [ServerLink.step]
  split
  · rename_i l hl
    split
    · rename_i hcond
      have hcl : l.closing = true := by
        cases hc : l.closing <;> simp [hc] at hcond ⊢
      have hok := h.link c l hl
      refine pinv_replace h hl ?_ rfl rfl rfl
      exact ⟨hok.coh, hok.queued, hok.cmd_place, hok.del_place, hok.cmd_nodup, hok.del_nodup, hok.closing_nocmd, fun _ => hcl⟩
    · exact h
  · exact h


theorem mkEvs_ids (n : Nat) (outs : List Client.Out) :
    ids (mkEvs n outs) = List.range' n (mkEvs n outs).length := by
  induction outs generalizing n with
  | nil => simp [mkEvs]
  | cons o os ih =>
    cases o with
    | blocks p bs => simp only [mkEvs, ids_cons, List.length_cons, List.range'_succ, ih (n + 1)]
    | _ => simpa [mkEvs] using ih n

theorem mem_mkEvs_ids (n : Nat) (outs : List Client.Out) (m : Nat) :
    m ∈ ids (mkEvs n outs) ↔ n ≤ m ∧ m < n + (mkEvs n outs).length := by
  rw [mkEvs_ids, List.mem_range'_1]

theorem poolOf_mem {links : KMap Link} {p c : Nat} (h : c ∈ poolOf links p) :
    ∃ l, links[c]? = some l ∧ l.peer = p ∧ l.gone = false := by
  unfold poolOf at h
  rw [List.mem_filter] at h
  obtain ⟨_, h2⟩ := h
  cases hl : links[c]? with
  | none => simp [hl] at h2
  | some l =>
    simp only [hl, Bool.and_eq_true, beq_iff_eq, Bool.not_eq_true'] at h2
    exact ⟨l, rfl, h2.1, h2.2⟩

theorem mem_poolOf {links : KMap Link} {p c : Nat} {l : Link} (hl : links[c]? = some l) (hp : l.peer = p)
    (hg : l.gone = false) : c ∈ poolOf links p := by
  unfold poolOf
  rw [List.mem_filter]
  refine ⟨(kmap_mem_keys _ _).2 ((kmap_mem_iff _ _).2 ⟨l, hl⟩), ?_⟩
  simp [hl, hp, hg]

theorem place_ne_of {f : Nat → Place} {a b : Nat} {x y : Place} (ha : f a = x) (hb : f b = y) (hxy : x ≠ y) : a ≠ b := by
  intro e; subst e; rw [ha] at hb; exact hxy hb

theorem sinv_take (s : State) (h : SInv s) : SInv (ServerLink.step s .take) := by
  simp only [ServerLink.step]
  split
  · rename_i e rest hpd hob
    have hob' : s.outbox = e :: rest := hob
    have hpd' : s.pend = none := hpd
    have he := h.outbox_place e (by rw [hob']; simp)
    have hnd := h.outbox_nodup
    rw [hob'] at hnd
    simp only [ids_cons, List.nodup_cons] at hnd
    show PInv s.links rest (some (e, poolOf s.links e.peer)) s.nextE (setPlace s.place e.id .pend) s.lost
    refine ⟨?_, ?_, hnd.2, ?_, ?_, h.lost_nodup, ?_, ?_⟩
    · intro c l hl
      refine linkOk_mono (h.link c l hl) ?_ (Nat.le_refl _)
      intro e' he'
      apply setPlace_ne
      rcases he' with he' | he'
      · exact place_ne_of ((h.link c l hl).cmd_place e' he').1 he.1 (by simp)
      · exact place_ne_of ((h.link c l hl).del_place e' he').1 he.1 (by simp)
    · intro e' he'
      have := h.outbox_place e' (by rw [hob']; exact List.mem_cons_of_mem _ he')
      refine ⟨?_, this.2⟩
      rw [setPlace_ne]; exact this.1
      intro heq; exact hnd.1 (heq ▸ mem_ids_of_mem he')
    · intro e' cs hp
      simp only [Option.some.injEq, Prod.mk.injEq] at hp
      obtain ⟨rfl, rfl⟩ := hp
      refine ⟨setPlace_eq, he.2, ?_⟩
      intro c hc
      obtain ⟨l, a, b, _⟩ := poolOf_mem hc
      exact ⟨l, a, b⟩
    · intro e' he'
      have := h.lost_place e' he'
      refine ⟨?_, this.2⟩
      rw [setPlace_ne]; exact this.1
      exact place_ne_of this.1 he.1 (by simp)
    · intro n hn
      rw [setPlace_ne]; exact h.fresh n hn
      have := he.2; omega
    · intro n hn
      by_cases hne : n = e.id
      · subst hne
        rw [setPlace_eq]
        exact ⟨e, _, rfl, rfl⟩
      · rw [setPlace_ne hne]
        refine at_mono (h.found n hn) ?_ ?_ (fun c l hl => ⟨l, hl, id, id⟩) id
        · intro hm
          rw [hob'] at hm
          simp only [ids_cons, List.mem_cons] at hm
          rcases hm with hm | hm
          · exact absurd hm hne
          · exact hm
        · intro e' cs hp
          rw [hpd'] at hp; cases hp
  · exact h

theorem sinv_accept (s : State) (h : SInv s) (c : Nat) : SInv (ServerLink.step s (.accept c)) := by
  simp only [ServerLink.step]
  split
  · rename_i e cs hpd
    split
    · rename_i l hl
      split
      · rename_i hcond
        simp only [Bool.and_eq_true, decide_eq_true_eq, Bool.not_eq_true'] at hcond
        obtain ⟨⟨hc, hcl⟩, hg⟩ := hcond
        have hpd' : s.pend = some (e, cs) := hpd
        obtain ⟨hpl, hlt, hcand⟩ := h.pend_place e cs hpd'
        obtain ⟨l0, hl0, hpeer⟩ := hcand c hc
        rw [hl] at hl0; cases hl0
        have hok := h.link c l hl
        have hnc : e.id ∉ ids l.cmds := by
          intro hm
          obtain ⟨e', he', hid⟩ := mem_ids.1 hm
          have := (hok.cmd_place e' he').1
          rw [hid, hpl] at this; cases this
        show PInv (s.links.insert c { l with cmds := l.cmds ++ [e] }) s.outbox none s.nextE
          (setPlace s.place e.id (.cmd c)) s.lost
        refine ⟨?_, ?_, h.outbox_nodup, ?_, ?_, h.lost_nodup, ?_, ?_⟩
        · intro c1 l1 h1
          rw [kmap_get_insert] at h1
          by_cases hcc : c1 = c
          · subst hcc
            simp only [if_true, Option.some.injEq] at h1
            subst h1
            refine ⟨hok.coh, hok.queued, ?_, ?_, ?_, hok.del_nodup, ?_, hok.gone_closing⟩
            · intro e' he'
              rcases List.mem_append.1 he' with he' | he'
              · obtain ⟨a, b, d⟩ := hok.cmd_place e' he'
                refine ⟨?_, b, d⟩
                rw [setPlace_ne]; exact a
                exact place_ne_of a hpl (by simp)
              · simp only [List.mem_singleton] at he'
                subst he'
                exact ⟨setPlace_eq, hpeer.symm, hlt⟩
            · intro e' he'
              obtain ⟨a, b, d⟩ := hok.del_place e' he'
              refine ⟨?_, b, d⟩
              rw [setPlace_ne]; exact a
              exact place_ne_of a hpl (by simp)
            · show (ids (l.cmds ++ [e])).Nodup
              rw [ids_append, List.nodup_append]
              refine ⟨hok.cmd_nodup, by simp, ?_⟩
              intro a ha b hb
              simp only [ids_cons, ids_nil, List.mem_singleton] at hb
              subst hb
              intro heq; subst heq; exact hnc ha
            · intro hcl'
              have : l.closing = true := hcl'
              rw [hcl] at this; cases this
          · simp only [hcc, if_false] at h1
            refine linkOk_mono (h.link c1 l1 h1) ?_ (Nat.le_refl _)
            intro e' he'
            apply setPlace_ne
            rcases he' with he' | he'
            · exact place_ne_of ((h.link c1 l1 h1).cmd_place e' he').1 hpl (by simp)
            · exact place_ne_of ((h.link c1 l1 h1).del_place e' he').1 hpl (by simp)
        · intro e' he'
          have := h.outbox_place e' he'
          refine ⟨?_, this.2⟩
          rw [setPlace_ne]; exact this.1
          exact place_ne_of this.1 hpl (by simp)
        · intro e' cs' hp; cases hp
        · intro e' he'
          have := h.lost_place e' he'
          refine ⟨?_, this.2⟩
          rw [setPlace_ne]; exact this.1
          exact place_ne_of this.1 hpl (by simp)
        · intro n hn
          rw [setPlace_ne]; exact h.fresh n hn
          omega
        · intro n hn
          by_cases hne : n = e.id
          · subst hne
            rw [setPlace_eq]
            exact ⟨{ l with cmds := l.cmds ++ [e] }, by rw [kmap_get_insert]; simp, by show e.id ∈ ids (l.cmds ++ [e]); simp⟩
          · rw [setPlace_ne hne]
            refine at_mono (h.found n hn) id ?_ ?_ id
            · intro e' cs' hp hid
              rw [hpd'] at hp
              simp only [Option.some.injEq, Prod.mk.injEq] at hp
              obtain ⟨rfl, _⟩ := hp
              exact absurd hid.symm hne
            · exact links_insert_lookup hl n (by intro hm; show n ∈ ids (l.cmds ++ [e]); rw [ids_append]; exact List.mem_append_left _ hm) id
      · exact h
    · exact h
  · exact h


theorem sinv_giveUp (s : State) (h : SInv s) : SInv (ServerLink.step s .giveUp) := by
  simp only [ServerLink.step]
  split
  · rename_i e cs hpd
    split
    · have hpd' : s.pend = some (e, cs) := hpd
      obtain ⟨hpl, hlt, _⟩ := h.pend_place e cs hpd'
      have hnl : e.id ∉ ids s.lost := by
        intro hm
        obtain ⟨e', he', hid⟩ := mem_ids.1 hm
        have := (h.lost_place e' he').1
        rw [hid, hpl] at this; cases this
      show PInv s.links s.outbox none s.nextE (setPlace s.place e.id .lost) (s.lost ++ [e])
      refine ⟨?_, ?_, h.outbox_nodup, ?_, ?_, ?_, ?_, ?_⟩
      · intro c1 l1 h1
        refine linkOk_mono (h.link c1 l1 h1) ?_ (Nat.le_refl _)
        intro e' he'
        apply setPlace_ne
        rcases he' with he' | he'
        · exact place_ne_of ((h.link c1 l1 h1).cmd_place e' he').1 hpl (by simp)
        · exact place_ne_of ((h.link c1 l1 h1).del_place e' he').1 hpl (by simp)
      · intro e' he'
        have := h.outbox_place e' he'
        refine ⟨?_, this.2⟩
        rw [setPlace_ne]; exact this.1
        exact place_ne_of this.1 hpl (by simp)
      · intro e' cs' hp; cases hp
      · intro e' he'
        rcases List.mem_append.1 he' with he' | he'
        · have := h.lost_place e' he'
          refine ⟨?_, this.2⟩
          rw [setPlace_ne]; exact this.1
          intro heq; exact hnl (heq ▸ mem_ids_of_mem he')
        · simp only [List.mem_singleton] at he'
          subst he'
          exact ⟨setPlace_eq, hlt⟩
      · rw [ids_append, List.nodup_append]
        refine ⟨h.lost_nodup, by simp, ?_⟩
        intro a ha b hb
        simp only [ids_cons, ids_nil, List.mem_singleton] at hb
        subst hb
        intro heq; subst heq; exact hnl ha
      · intro n hn
        rw [setPlace_ne]; exact h.fresh n hn
        omega
      · intro n hn
        by_cases hne : n = e.id
        · subst hne
          rw [setPlace_eq]
          show e.id ∈ ids (s.lost ++ [e])
          simp
        · rw [setPlace_ne hne]
          refine at_mono (h.found n hn) id ?_ (fun c l hl => ⟨l, hl, id, id⟩) ?_
          · intro e' cs' hp hid
            rw [hpd'] at hp
            simp only [Option.some.injEq, Prod.mk.injEq] at hp
            obtain ⟨rfl, _⟩ := hp
            exact absurd hid.symm hne
          · intro hm; rw [ids_append]; exact List.mem_append_left _ hm
    · exact h
  · exact h

/-- the record of a connection after its task handed event `e` to the handler -/
def dlv (l : Link) (e : Ev) (rest : List Ev) : Link :=
  { l with cmds := rest, h := ServerSink.queue l.h (e.blocks.map encB), ins := l.ins ++ [In.queue (e.blocks.map encB)], delivered := l.delivered ++ [e] }

theorem sinv_deliverCmd (s : State) (h : SInv s) (c : Nat) : SInv (ServerLink.step s (.deliverCmd c)) := by
  simp only [ServerLink.step]
  split
  · rename_i l hl
    split
    · rename_i e rest hcm
      split
      · exact h
      · rename_i hcond
        simp only [Bool.or_eq_true, not_or, Bool.not_eq_true] at hcond
        obtain ⟨hcl, hg⟩ := hcond
        have hcm' : l.cmds = e :: rest := hcm
        have hok := h.link c l hl
        obtain ⟨hpl, hpeer, hlt⟩ := hok.cmd_place e (by rw [hcm']; simp)
        have hnd := hok.cmd_nodup
        rw [hcm'] at hnd
        simp only [ids_cons, List.nodup_cons] at hnd
        have hndl : e.id ∉ ids l.delivered := by
          intro hm
          obtain ⟨e', he', hid⟩ := mem_ids.1 hm
          have := (hok.del_place e' he').1
          rw [hid, hpl] at this; cases this
        show PInv (s.links.insert c (dlv l e rest))
          s.outbox s.pend s.nextE (setPlace s.place e.id (.handler c)) s.lost
        refine ⟨?_, ?_, h.outbox_nodup, ?_, ?_, h.lost_nodup, ?_, ?_⟩
        · intro c1 l1 h1
          rw [kmap_get_insert] at h1
          by_cases hcc : c1 = c
          · subst hcc
            simp only [if_true, Option.some.injEq] at h1
            subst h1
            refine ⟨?_, ?_, ?_, ?_, hnd.2, ?_, ?_, hok.gone_closing⟩
            · show ServerSink.run {} (l.ins ++ [.queue (e.blocks.map encB)]) = _
              rw [run_snoc, hok.coh]
              simp [ServerSink.step, dlv]
            · show queuedOf (l.ins ++ [.queue (e.blocks.map encB)]) = blocksOf (l.delivered ++ [e])
              rw [queuedOf_snoc, blocksOf_snoc, hok.queued]
              simp [queuedOf]
            · intro e' he'
              obtain ⟨a, b, d⟩ := hok.cmd_place e' (by rw [hcm']; exact List.mem_cons_of_mem _ he')
              refine ⟨?_, b, d⟩
              rw [setPlace_ne]; exact a
              intro heq; exact hnd.1 (heq ▸ mem_ids_of_mem he')
            · intro e' he'
              rcases List.mem_append.1 he' with he' | he'
              · obtain ⟨a, b, d⟩ := hok.del_place e' he'
                refine ⟨?_, b, d⟩
                rw [setPlace_ne]; exact a
                exact place_ne_of a hpl (by simp)
              · simp only [List.mem_singleton] at he'
                subst he'
                exact ⟨setPlace_eq, hpeer, hlt⟩
            · show (ids (l.delivered ++ [e])).Nodup
              rw [ids_append, List.nodup_append]
              refine ⟨hok.del_nodup, by simp, ?_⟩
              intro a ha b hb
              simp only [ids_cons, ids_nil, List.mem_singleton] at hb
              subst hb
              intro heq; subst heq; exact hndl ha
            · intro hcl'
              have : l.closing = true := hcl'
              rw [hcl] at this; cases this
          · simp only [hcc, if_false] at h1
            refine linkOk_mono (h.link c1 l1 h1) ?_ (Nat.le_refl _)
            intro e' he'
            apply setPlace_ne
            rcases he' with he' | he'
            · refine place_ne_of ((h.link c1 l1 h1).cmd_place e' he').1 hpl ?_
              intro heq; cases heq; exact hcc rfl
            · exact place_ne_of ((h.link c1 l1 h1).del_place e' he').1 hpl (by simp)
        · intro e' he'
          have := h.outbox_place e' he'
          refine ⟨?_, this.2⟩
          rw [setPlace_ne]; exact this.1
          exact place_ne_of this.1 hpl (by simp)
        · intro e' cs hp
          obtain ⟨a, b, d⟩ := h.pend_place e' cs hp
          refine ⟨?_, b, ?_⟩
          · rw [setPlace_ne]; exact a
            exact place_ne_of a hpl (by simp)
          · intro c1 hc1
            obtain ⟨l1, h1, h2⟩ := d c1 hc1
            rw [kmap_get_insert]
            by_cases hcc : c1 = c
            · subst hcc; rw [hl] at h1; cases h1
              exact ⟨dlv l e rest, by simp, h2⟩
            · exact ⟨l1, by simp [hcc, h1], h2⟩
        · intro e' he'
          have := h.lost_place e' he'
          refine ⟨?_, this.2⟩
          rw [setPlace_ne]; exact this.1
          exact place_ne_of this.1 hpl (by simp)
        · intro n hn
          rw [setPlace_ne]; exact h.fresh n hn
          omega
        · intro n hn
          by_cases hne : n = e.id
          · subst hne
            rw [setPlace_eq]
            exact ⟨dlv l e rest, by rw [kmap_get_insert]; simp, by show e.id ∈ ids (l.delivered ++ [e]); simp⟩
          · rw [setPlace_ne hne]
            refine at_mono (h.found n hn) id (fun e cs a b => ⟨e, cs, a, b⟩) ?_ id
            refine links_insert_lookup hl n ?_ ?_
            · intro hm
              rw [hcm'] at hm
              simp only [ids_cons, List.mem_cons] at hm
              rcases hm with hm | hm
              · exact absurd hm hne
              · exact hm
            · intro hm; show n ∈ ids (l.delivered ++ [e]); rw [ids_append]; exact List.mem_append_left _ hm
    · exact h
  · exact h


theorem setPlaces_not_mem {f : Nat → Place} {ns : List Nat} {x : Place} {m : Nat} (h : m ∉ ns) :
    setPlaces f ns x m = f m := by
  simp [setPlaces, h]

theorem setPlaces_mem {f : Nat → Place} {ns : List Nat} {x : Place} {m : Nat} (h : m ∈ ns) :
    setPlaces f ns x m = x := by
  simp [setPlaces, h]

theorem sinv_beginClose (s : State) (h : SInv s) (c : Nat) : SInv (ServerLink.step s (.beginClose c)) := by
  simp only [ServerLink.step]
  split
  · rename_i l hl
    split
    · exact h
    · rename_i hcl
      have hok := h.link c l hl
      -- an event elsewhere is not one of the events waiting in the channel of `c`
      have hout : ∀ (n : Nat) (x : Place), s.place n = x → x ≠ .cmd c → n ∉ ids l.cmds := by
        intro n x hx hne hm
        obtain ⟨e', he', hid⟩ := mem_ids.1 hm
        have := (hok.cmd_place e' he').1
        rw [hid, hx] at this; exact hne this
      show PInv (s.links.insert c { l with closing := true, cmds := [] }) s.outbox s.pend s.nextE
        (setPlaces s.place (ids l.cmds) .lost) (s.lost ++ l.cmds)
      refine ⟨?_, ?_, h.outbox_nodup, ?_, ?_, ?_, ?_, ?_⟩
      · intro c1 l1 h1
        rw [kmap_get_insert] at h1
        by_cases hcc : c1 = c
        · subst hcc
          simp only [if_true, Option.some.injEq] at h1
          subst h1
          refine ⟨hok.coh, hok.queued, fun e he => absurd he List.not_mem_nil, ?_, List.nodup_nil, hok.del_nodup,
            fun _ => rfl, fun _ => rfl⟩
          intro e' he'
          obtain ⟨a, b, d⟩ := hok.del_place e' he'
          refine ⟨?_, b, d⟩
          rw [setPlaces_not_mem]; exact a
          exact hout _ _ a (by simp)
        · simp only [hcc, if_false] at h1
          refine linkOk_mono (h.link c1 l1 h1) ?_ (Nat.le_refl _)
          intro e' he'
          apply setPlaces_not_mem
          rcases he' with he' | he'
          · refine hout _ _ ((h.link c1 l1 h1).cmd_place e' he').1 ?_
            intro heq; cases heq; exact hcc rfl
          · exact hout _ _ ((h.link c1 l1 h1).del_place e' he').1 (by simp)
      · intro e' he'
        have := h.outbox_place e' he'
        refine ⟨?_, this.2⟩
        rw [setPlaces_not_mem]; exact this.1
        exact hout _ _ this.1 (by simp)
      · intro e' cs hp
        obtain ⟨a, b, d⟩ := h.pend_place e' cs hp
        refine ⟨?_, b, ?_⟩
        · rw [setPlaces_not_mem]; exact a
          exact hout _ _ a (by simp)
        · intro c1 hc1
          obtain ⟨l1, h1, h2⟩ := d c1 hc1
          rw [kmap_get_insert]
          by_cases hcc : c1 = c
          · subst hcc; rw [hl] at h1; cases h1
            exact ⟨{ l with closing := true, cmds := [] }, by simp, h2⟩
          · exact ⟨l1, by simp [hcc, h1], h2⟩
      · intro e' he'
        rcases List.mem_append.1 he' with he' | he'
        · have := h.lost_place e' he'
          refine ⟨?_, this.2⟩
          rw [setPlaces_not_mem]; exact this.1
          exact hout _ _ this.1 (by simp)
        · refine ⟨setPlaces_mem (mem_ids_of_mem he'), (hok.cmd_place e' he').2.2⟩
      · rw [ids_append, List.nodup_append]
        refine ⟨h.lost_nodup, hok.cmd_nodup, ?_⟩
        intro a ha b hb heq
        subst heq
        obtain ⟨e', he', hid⟩ := mem_ids.1 ha
        have := (h.lost_place e' he').1
        rw [hid] at this
        exact hout _ _ this (by simp) hb
      · intro n hn
        rw [setPlaces_not_mem]; exact h.fresh n hn
        intro hm
        obtain ⟨e', he', hid⟩ := mem_ids.1 hm
        have := (hok.cmd_place e' he').2.2
        omega
      · intro n hn
        by_cases hm : n ∈ ids l.cmds
        · rw [setPlaces_mem hm]
          show n ∈ ids (s.lost ++ l.cmds)
          rw [ids_append]; exact List.mem_append_right _ hm
        · rw [setPlaces_not_mem hm]
          refine at_mono (h.found n hn) id (fun e cs a b => ⟨e, cs, a, b⟩) ?_ ?_
          · exact links_insert_lookup hl n (fun hm' => absurd hm' hm) id
          · intro hm'; rw [ids_append]; exact List.mem_append_left _ hm'
  · exact h

theorem sinv_drain (s : State) (h : SInv s) (obs : Nat → Option Nat) : SInv (ServerLink.step s (.drain obs)) := by
  simp only [ServerLink.step]
  generalize hevs : mkEvs s.nextE (Server.drain s.sv s.seq obs).2.2 = evs
  have hid : ∀ m, m ∈ ids evs ↔ s.nextE ≤ m ∧ m < s.nextE + evs.length := by
    intro m; rw [← hevs]; exact mem_mkEvs_ids _ _ m
  have hnd : (ids evs).Nodup := by rw [← hevs]; exact (mkEvs_spec _ _).2
  have hold : ∀ m, m < s.nextE → m ∉ ids evs := by
    intro m hm hmem; have := (hid m).1 hmem; omega
  show PInv s.links (s.outbox ++ evs) s.pend (s.nextE + evs.length)
    (setPlaces s.place (ids evs) .outbox) s.lost
  refine ⟨?_, ?_, ?_, ?_, ?_, h.lost_nodup, ?_, ?_⟩
  · intro c l hl
    refine linkOk_mono (h.link c l hl) ?_ (Nat.le_add_right _ _)
    intro e' he'
    apply setPlaces_not_mem
    rcases he' with he' | he'
    · exact hold _ ((h.link c l hl).cmd_place e' he').2.2
    · exact hold _ ((h.link c l hl).del_place e' he').2.2
  · intro e' he'
    rcases List.mem_append.1 he' with he' | he'
    · have := h.outbox_place e' he'
      refine ⟨?_, by omega⟩
      rw [setPlaces_not_mem (hold _ this.2)]; exact this.1
    · have hm : e'.id ∈ ids evs := mem_ids_of_mem he'
      exact ⟨setPlaces_mem hm, ((hid _).1 hm).2⟩
  · rw [ids_append, List.nodup_append]
    refine ⟨h.outbox_nodup, hnd, ?_⟩
    intro a ha b hb heq
    subst heq
    obtain ⟨e', he', hid'⟩ := mem_ids.1 ha
    have := (h.outbox_place e' he').2
    rw [hid'] at this
    exact hold _ this hb
  · intro e' cs hp
    obtain ⟨a, b, d⟩ := h.pend_place e' cs hp
    refine ⟨?_, by omega, d⟩
    rw [setPlaces_not_mem (hold _ b)]; exact a
  · intro e' he'
    have := h.lost_place e' he'
    refine ⟨?_, by omega⟩
    rw [setPlaces_not_mem (hold _ this.2)]; exact this.1
  · intro n hn
    rw [setPlaces_not_mem]; exact h.fresh n (by omega)
    intro hm; have := (hid n).1 hm; omega
  · intro n hn
    by_cases hm : n ∈ ids evs
    · rw [setPlaces_mem hm]
      show n ∈ ids (s.outbox ++ evs)
      rw [ids_append]; exact List.mem_append_right _ hm
    · rw [setPlaces_not_mem hm]
      have hlt : n < s.nextE := by
        by_cases hlt : n < s.nextE
        · exact hlt
        · exact absurd ((hid n).2 ⟨by omega, hn⟩) hm
      refine at_mono (h.found n hlt) ?_ (fun e cs a b => ⟨e, cs, a, b⟩) (fun c l hl => ⟨l, hl, id, id⟩) id
      intro hm'; rw [ids_append]; exact List.mem_append_left _ hm'

theorem sinv_step (s : State) (h : SInv s) (a : Act) : SInv (ServerLink.step s a) := by
  cases a with
  | server op => exact sinv_server s h op
  | connect p c => exact sinv_connect s h p c
  | drain obs => exact sinv_drain s h obs
  | take => exact sinv_take s h
  | accept c => exact sinv_accept s h c
  | giveUp => exact sinv_giveUp s h
  | deliverCmd c => exact sinv_deliverCmd s h c
  | handler c i => exact sinv_handler s h c i
  | beginClose c => exact sinv_beginClose s h c
  | swarmClosed c => exact sinv_swarmClosed s h c

theorem sinv_reachable {s : State} (hr : Reachable s) : SInv s := by
  induction hr with
  | init => exact sinv_init
  | step a _ ih => exact sinv_step _ ih a

end Beetswap.Proofs.ServerLink
