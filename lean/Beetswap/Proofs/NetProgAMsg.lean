import Beetswap.Proofs.NetProgABase
/-!
Progress, requesting side: a batch of blocks arrives (`deliverBA`).
-/
namespace Beetswap.Proofs.Net.PA
open Std Beetswap.Net Beetswap.Wl
open Beetswap.Client (PeerSt Sending StoreRes Out TaskSt TaskKind Sys sendFullInterval Task)

theorem c3_le_one (s : State) : (meas s).c3 ≤ 1 := by
  show (if _ then 0 else 1) ≤ 1
  split <;> omega

theorem c3_zero_of {s : State} (h : ((apeer s).wl.genUpdate s.a.client.wantlist).2.isEmpty = true) :
    (meas s).c3 = 0 := by
  show (if _ then 0 else 1) = 0
  rw [if_pos h]

theorem c3_one_of {s : State} (h : ((apeer s).wl.genUpdate s.a.client.wantlist).2.isEmpty = false) :
    (meas s).c3 = 1 := by
  show (if _ then 0 else 1) = 1
  rw [if_neg (by rw [h]; simp)]

theorem c2_le_one (s : State) : (meas s).c2 ≤ 1 := by
  show (if _ then 1 else 0) ≤ 1
  split <;> omega

/-- accepted blocks keep an empty update empty -/
theorem upd_empty_blocks (wl wl' : WState) (w w' : Wantlist) (bk : List Nat)
    (hreq : ∀ j, wl'.req[j]? = if j ∈ bk ∧ j ∈ w.cids then (wl.req[j]?).map (fun _ => Req.gotBlock)
      else wl.req[j]?)
    (hc : ∀ j, j ∈ w'.cids ↔ j ∈ w.cids ∧ j ∉ bk)
    (h1 : ∀ k, k ∈ w.cids → ∃ r, wl.req[k]? = some r ∧ r ≠ Req.gotHave)
    (h2 : ∀ k r, wl.req[k]? = some r → k ∉ w.cids → r = Req.gotBlock) :
    (wl'.genUpdate w').2.isEmpty = true := by
  apply genUpdate_isEmpty_of
  · intro k hk
    obtain ⟨hkw, hkb⟩ := (hc k).1 hk
    rw [hreq k, if_neg (fun h => hkb h.1)]
    exact h1 k hkw
  · intro k r hr hk
    rw [hreq k] at hr
    by_cases hb : k ∈ bk ∧ k ∈ w.cids
    · rw [if_pos hb] at hr
      cases h : wl.req[k]? with
      | none => rw [h] at hr; cases hr
      | some r0 => rw [h] at hr; simp only [Option.map_some, Option.some.injEq] at hr; exact hr.symm
    · rw [if_neg hb] at hr
      apply h2 k r hr
      intro hkw
      by_cases hkb : k ∈ bk
      · exact hb ⟨hkb, hkw⟩
      · exact hk ((hc k).2 ⟨hkw, hkb⟩)

theorem sum_append_put (tasks : List Task) (id : Nat) (nb : List (Nat × Nat)) :
    ((tasks ++ [({ id := id, kind := .put nb } : Task)]).map wtGet).sum = (tasks.map wtGet).sum := by
  simp [wtGet]

/-- what a batch of blocks from `b` does to the parts of `a`'s client half the measure reads -/
theorem incoming_meas (c : Client.State) (bs : List (Nat × Nat)) (ps : PeerSt) (hps : c.peers[1]? = some ps) :
    ((Client.incoming c 1 [] [] bs).tasks.map wtGet).sum = (c.tasks.map wtGet).sum ∧
    (Client.incoming c 1 [] [] bs).deadline = c.deadline ∧
    (∀ j, j ∈ (Client.incoming c 1 [] [] bs).wantlist.cids ↔ j ∈ c.wantlist.cids ∧ j ∉ bs.map (·.1)) ∧
    ∃ ps', (Client.incoming c 1 [] [] bs).peers[1]? = some ps' ∧ ps'.sendFull = ps.sendFull ∧
      ∀ j, ps'.wl.req[j]? = if j ∈ bs.map (·.1) ∧ j ∈ c.wantlist.cids
        then (ps.wl.req[j]?).map (fun _ => Req.gotBlock) else ps.wl.req[j]? := by
  obtain ⟨f1, _, _, _, f5, _⟩ := A.applyBlocks_facts 1 bs { c with peers := c.peers.insert 1 ps } []
  have hrel := ClientView.blocks_fold_rel 1 bs { c with peers := c.peers.insert 1 ps } []
  change (A.blocksApplied c ps bs).1.tasks = c.tasks at f1
  change (A.blocksApplied c ps bs).1.deadline = c.deadline at f5
  change ClientView.BlockRel 1 (bs.map (·.1)) { c with peers := c.peers.insert 1 ps } (A.blocksApplied c ps bs).1 at hrel
  obtain ⟨ps', a1, _, _, a4, _, _, a7⟩ := hrel.peer ps (by
    show (c.peers.insert 1 ps)[1]? = some ps
    rw [ClientView.kmap_get_insert]; simp)
  rw [A.incoming_eq c bs ps hps]
  split
  · exact ⟨by rw [f1], f5, hrel.cids, ps', a1, a4, a7⟩
  · refine ⟨?_, f5, hrel.cids, ps', a1, a4, a7⟩
    show (((A.blocksApplied c ps bs).1.tasks ++ [_]).map wtGet).sum = _
    rw [sum_append_put, f1]

end Beetswap.Proofs.Net.PA
