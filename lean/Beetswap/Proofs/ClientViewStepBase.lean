import Beetswap.Proofs.ClientViewDrain
import Beetswap.Proofs.ClientViewMsg
namespace Beetswap.Proofs.ClientView
open Std Beetswap.Client Beetswap.Wl Beetswap.Spec.ClientSpec

/-- the history of `p` carried over a step, before the step's own events are recorded -/
def base (x : GSys) (p : Nat) : Ghost :=
  if p ∈ x.sys.s.peers then (x.ghost[p]?).getD {} else {}

/-- the new history of `p` after `op` (the `upd` of `gstep`) -/
def gupd (x : GSys) (op : Op) (p : Nat) : Ghost :=
  match op with
  | .msg q hs ds bs =>
    if q = p ∧ p ∈ x.sys.s.peers then
      (base x p).recordMsg (fun k => k ∈ ((x.sys.s.peers[p]?).map (·.wl.req)).getD ∅)
                  (fun k => k ∈ x.sys.s.wantlist.cids) hs ds bs
    else base x p
  | .drain _ => (sendsTo (step x.sys op).2 p).foldl
      (fun g m => g.recordSend (step x.sys op).1.s.wantlist.cids m) (base x p)
  | _ => base x p

theorem gstep_eq (x : GSys) (op : Op) :
    gstep x op =
      ({ sys := (step x.sys op).1,
         ghost := KMap.tab (step x.sys op).1.s.peers.keys (fun p => some (gupd x op p)) },
       (step x.sys op).2) := by
  cases op <;> rfl

theorem ginv_of_tab (sys' : Sys) (upd : Nat → Ghost)
    (hp : ∀ p ps, sys'.s.peers[p]? = some ps → PeerInv sys'.s ps (upd p) ∧ ps.conns.isEmpty = false)
    (hz : sys'.s.wantlist.revision = 0 → ∀ k, k ∉ sys'.s.wantlist.cids)
    (hq : ∀ p c m, Out.send p c m ∉ sys'.s.queue) :
    GInv { sys := sys', ghost := KMap.tab sys'.s.peers.keys (fun p => some (upd p)) } := by
  constructor
  · intro p ps hps
    refine ⟨upd p, ?_, (hp p ps hps).1⟩
    simp only [KMap.get_tab]
    have : p ∈ sys'.s.peers.keys := (kmap_mem_keys _ _).2 ⟨ps, hps⟩
    simp [this]
  · exact hz
  · intro p ps hps; exact (hp p ps hps).2
  · exact hq

theorem base_of_some {x : GSys} (h : GInv x) {p : Nat} {ps : PeerSt} (hp : x.sys.s.peers[p]? = some ps) :
    x.ghost[p]? = some (base x p) ∧ PeerInv x.sys.s ps (base x p) := by
  obtain ⟨g, hg, hi⟩ := h.peers p ps hp
  have : p ∈ x.sys.s.peers := (kmap_mem_iff _ _).2 ⟨ps, hp⟩
  simp only [base, this, if_true, hg, Option.getD_some]
  exact ⟨trivial, hi⟩

theorem base_of_none {x : GSys} {p : Nat} (hp : x.sys.s.peers[p]? = none) : base x p = {} := by
  have : p ∉ x.sys.s.peers := (kmap_not_mem_iff _ _).2 hp
  simp [base, this]

/-- A peer entry after a step whose wantlist-exchange state is that of the old entry (or a
fresh one), under a wantlist that only lost CIDs. -/
theorem peerInv_carry {x : GSys} (h : GInv x) {s' : State} {p : Nat} {ps' : PeerSt}
    (hsub : ∀ j, j ∈ s'.wantlist.cids → j ∈ x.sys.s.wantlist.cids)
    (hrev : s'.wantlist = x.sys.s.wantlist ∨ x.sys.s.wantlist.revision < s'.wantlist.revision)
    (hold : (∃ ps, x.sys.s.peers[p]? = some ps ∧ ps'.wl = ps.wl) ∨
            (x.sys.s.peers[p]? = none ∧ ps'.wl = {})) :
    PeerInv s' ps' (base x p) := by
  rcases hold with ⟨ps, hps, hwl⟩ | ⟨hnone, hwl⟩
  · exact peerInv_shrink (base_of_some h hps).2 hsub hrev hwl
  · rw [base_of_none hnone]
    have hz : s'.wantlist.revision = 0 → ∀ k, k ∉ s'.wantlist.cids := by
      rcases hrev with e | e
      · rw [e]; exact h.rev_zero
      · intro h0; omega
    exact (peerInv_init s' hz).congr rfl hwl

theorem rev_zero_carry {x : GSys} (h : GInv x) {s' : State}
    (hrev : s'.wantlist = x.sys.s.wantlist ∨ x.sys.s.wantlist.revision < s'.wantlist.revision) :
    s'.wantlist.revision = 0 → ∀ k, k ∉ s'.wantlist.cids := by
  rcases hrev with e | e
  · rw [e]; exact h.rev_zero
  · intro h0; omega

theorem closed_peers (s : State) (p c : Nat) (ps : PeerSt) (h : s.peers[p]? = some ps) (q : Nat) :
    (closed s p c).peers[q]? =
      if q = p then (if (ps.conns.erase c).isEmpty then none else some { ps with conns := ps.conns.erase c })
      else s.peers[q]? := by
  simp only [closed, h]
  by_cases he : (ps.conns.erase c).isEmpty = true
  · simp only [he, if_true, kmap_get_erase]
  · simp only [he, Bool.false_eq_true, if_false, kmap_get_insert]

end Beetswap.Proofs.ClientView
