import Beetswap.Spec.ClientSpec
/-!
Proofs about the per-peer wantlist exchange (C04, C05, C15, C17). The statements are used by
`Props/` and must keep these exact statements.
-/
namespace Beetswap.Proofs.ClientView
open Std Beetswap.Client Beetswap.Wl Beetswap.Spec.ClientSpec

/-! ### The invariant -/

theorem ginv_init : GInv ({} : GSys) := by
  sorry

theorem ginv_step (x : GSys) (op : Op) (h : GInv x) : GInv (gstep x op).1 := by
  sorry

theorem ginv_reachable (x : GSys) (h : GReachable x) : GInv x := by
  sorry

/-! ### C04: the peer's view converges to the live queries -/

/-- Q1: whenever the node has nothing further to send to the peer, every CID in the peer's view
that the peer has not itself delivered belongs to the node's wantlist (= the CIDs of its
unresolved, uncancelled queries, see `ClientQuery.wantlist_eq_waiter_keys`). -/
theorem quiescent_sound (x : GSys) (h : GReachable x) (p : Nat) (ps : PeerSt) (g : Ghost)
    (hp : x.sys.s.peers[p]? = some ps) (hg : x.ghost[p]? = some g) (hq : Quiescent x.sys.s ps)
    (k : Nat) (hk : k ∈ g.told) (hd : k ∉ g.deliv) : k ∈ x.sys.s.wantlist.cids := by
  sorry

/-- Q2: … and every wanted CID is in the peer's view unless the peer answered DONT_HAVE for it.
(Stronger than the property, which also tolerates "already delivered since being asked".) -/
theorem quiescent_complete (x : GSys) (h : GReachable x) (p : Nat) (ps : PeerSt) (g : Ghost)
    (hp : x.sys.s.peers[p]? = some ps) (hg : x.ghost[p]? = some g) (hq : Quiescent x.sys.s ps)
    (k : Nat) (hk : k ∈ x.sys.s.wantlist.cids) : k ∈ g.told ∨ k ∈ g.dh := by
  sorry

/-- Q3: every full wantlist lists exactly the wanted CIDs minus the DONT_HAVE ones, and carries
no cancel entries. -/
theorem full_exact (x : GSys) (h : GReachable x) (op : Op) (p c : Nat) (m : WlMsg)
    (hs : Out.send p c m ∈ (gstep x op).2) (hf : m.full = true) (g : Ghost)
    (hg : x.ghost[p]? = some g) :
    m.cancel = [] ∧
    ∀ k, (k ∈ m.wantHave ∨ k ∈ m.wantBlock) ↔
      (k ∈ (gstep x op).1.sys.s.wantlist.cids ∧ k ∉ g.dh) := by
  sorry

/-- Wantlists are only handed to peers with a running session (so `g` above always exists). -/
theorem no_send_without_session (x : GSys) (h : GReachable x) (op : Op) (p c : Nat) (m : WlMsg)
    (hs : Out.send p c m ∈ (gstep x op).2) : ∃ g, x.ghost[p]? = some g := by
  sorry

/-- An update cancels every CID that is no longer wanted and that the peer was told about
and has not delivered. -/
theorem update_cancels_unwanted (s : WState) (w : Wantlist) (hu : s.isUpdated w = false) (k : Nat)
    (r : Req) (hr : s.req[k]? = some r) (hb : r ≠ Req.gotBlock) (hk : k ∉ w.cids) :
    k ∈ (s.genUpdate w).2.cancel ∧ (s.genUpdate w).1.req[k]? = none := by
  sorry

/-- An update announces every wanted CID the peer has no exchange entry for. -/
theorem update_announces_new (s : WState) (w : Wantlist) (hu : s.isUpdated w = false) (k : Nat)
    (hr : s.req[k]? = none) (hk : k ∈ w.cids) :
    k ∈ (s.genUpdate w).2.wantHave ∧ (s.genUpdate w).1.req[k]? = some Req.sentWantHave := by
  sorry

/-- `is_updated` never hides a pending difference: every change of the wantlist makes every
peer state not-updated. -/
theorem insert_unsyncs (w : Wantlist) (k : Nat) (s : WState) (hs : s.synced ≤ w.revision)
    (hi : (w.insert k).2 = true) : s.isUpdated (w.insert k).1 = false := by
  sorry

theorem remove_unsyncs (w : Wantlist) (k : Nat) (s : WState) (hs : s.synced ≤ w.revision)
    (hi : (w.remove k).2 = true) : s.isUpdated (w.remove k).1 = false := by
  sorry

/-! ### C17: full blocks are requested only from peers that announced them -/

/-- A want-block entry for `k` is sent to `p` only if `p` answered HAVE for `k` during the
session and has not answered DONT_HAVE for it since. -/
theorem want_block_needs_have (x : GSys) (h : GReachable x) (op : Op) (p c : Nat) (m : WlMsg)
    (hs : Out.send p c m ∈ (gstep x op).2) (k : Nat) (hk : k ∈ m.wantBlock) :
    ∃ g, x.ghost[p]? = some g ∧ k ∈ g.haveOk := by
  sorry

/-- A peer whose latest answer is HAVE is sent the want-block with the next update. -/
theorem have_gets_want_block (s : WState) (w : Wantlist) (k : Nat)
    (hr : s.req[k]? = some Req.gotHave) (hf : s.force = true) (hk : k ∈ w.cids) :
    k ∈ (s.genUpdate w).2.wantBlock ∧ (s.genUpdate w).1.req[k]? = some Req.sentWantBlock := by
  sorry

/-- HAVE for a CID with an exchange entry forces an update. -/
theorem have_forces_update (s : WState) (w : Wantlist) (k : Nat) :
    (s.gotHave k).isUpdated w = false := by
  sorry

/-! ### C05: self-healing after a transmission fault (behaviour side) -/

/-- What `update_handlers` does for one peer whose handshake is in a fault state on connection
`c`: the connection is dropped; either no connection remains and the peer is dropped, or a full
wantlist is handed to one of the remaining connections. -/
def FaultOutcome (now : Nat) (ps : PeerSt) (c : Nat) (res : Option PeerSt × Option (Nat × WlMsg)) : Prop :=
  (res = (none, none) ∧ (ps.conns.erase c).isEmpty = true) ∨
  (∃ ps' c' m, res = (some ps', some (c', m)) ∧ m.full = true ∧ c' ≠ c ∧ c' ∈ ps.conns
    ∧ c ∉ ps'.conns ∧ ps'.sending = Sending.requested now c' ∧ ps'.sendFull = false)

/-- After a transmission is reported failed, the connection is dropped and the next wantlist
is a full one over a remaining connection (or the peer is dropped if none remains). -/
theorem failed_forces_full (w : Wantlist) (now : Nat) (ps : PeerSt) (pref : Option Nat) (c : Nat)
    (hs : ps.sending = Sending.failed c) : FaultOutcome now ps c (updatePeer w now ps pref) := by
  sorry

/-- Same when the handler never acknowledged the request within the timeout. -/
theorem ack_timeout_forces_full (w : Wantlist) (now : Nat) (ps : PeerSt) (pref : Option Nat)
    (t c : Nat) (hs : ps.sending = Sending.requested t c) (ht : ¬ now - t < receiveRequestTimeout) :
    FaultOutcome now ps c (updatePeer w now ps pref) := by
  sorry

/-- While a transmission is in flight nothing is handed to any connection of the peer and the
peer state is untouched. -/
theorem one_in_flight (w : Wantlist) (now : Nat) (ps : PeerSt) (pref : Option Nat)
    (hs : (∃ c, ps.sending = Sending.requestReceived c) ∨ (∃ c, ps.sending = Sending.sending c) ∨
          (∃ t c, ps.sending = Sending.requested t c ∧ now - t < receiveRequestTimeout)) :
    updatePeer w now ps pref = (some ps, none) := by
  sorry

/-- A pending full wantlist is sent as soon as the peer is ready, over one of its connections. -/
theorem sendfull_next_is_full (w : Wantlist) (now : Nat) (ps : PeerSt) (pref : Option Nat)
    (hr : ps.sending = Sending.ready) (hf : ps.sendFull = true) (hc : ps.conns.isEmpty = false) :
    ∃ ps' c m, updatePeer w now ps pref = (some ps', some (c, m)) ∧ m.full = true ∧ c ∈ ps.conns
      ∧ ps'.sendFull = false ∧ ps'.sending = Sending.requested now c := by
  sorry

/-- Every wantlist is handed to exactly one connection, which is one of the peer's. -/
theorem send_on_own_connection (w : Wantlist) (now : Nat) (ps : PeerSt) (pref : Option Nat)
    (ps' : PeerSt) (c : Nat) (m : WlMsg) (h : updatePeer w now ps pref = (some ps', some (c, m))) :
    c ∈ ps.conns ∧ c ∈ ps'.conns ∧ ps'.sending = Sending.requested now c := by
  sorry

/-- The first wantlist of every new peer session is full. -/
theorem first_of_session_full (s : State) (p c : Nat) (h : s.peers[p]? = none) :
    ∃ ps, (connect s p c).peers[p]? = some ps ∧ ps.sendFull = true ∧ ps.sending = Sending.ready
      ∧ c ∈ ps.conns := by
  sorry

/-- When the refresh timer has expired, a drain marks every peer for a full wantlist: each
peer either is sent a full wantlist in this drain, or still has it pending, or is dropped. -/
theorem refresh_sets_full_all (s : State) (now seq : Nat) (pref : Nat → Option Nat)
    (hd : s.deadline ≤ now) (p : Nat) (ps : PeerSt) (hp : s.peers[p]? = some ps) :
    (drain s now seq pref).1.deadline = now + sendFullInterval ∧
    ((∃ c m, Out.send p c m ∈ (drain s now seq pref).2.2 ∧ m.full = true) ∨
     (∃ ps', (drain s now seq pref).1.peers[p]? = some ps' ∧ ps'.sendFull = true) ∨
     (drain s now seq pref).1.peers[p]? = none) := by
  sorry

/-! ### C15: extra connections neither duplicate nor reset the exchange (client side) -/

theorem extra_connection_keeps_state (s : State) (p c : Nat) (ps : PeerSt)
    (h : s.peers[p]? = some ps) :
    ∃ ps', (connect s p c).peers[p]? = some ps' ∧ ps'.wl = ps.wl ∧ ps'.sending = ps.sending
      ∧ ps'.sendFull = ps.sendFull ∧ (∀ c', c' ∈ ps'.conns ↔ (c' = c ∨ c' ∈ ps.conns))
      ∧ (∀ q, q ≠ p → (connect s p c).peers[q]? = s.peers[q]?)
      ∧ (connect s p c).wantlist = s.wantlist ∧ (connect s p c).queue = s.queue := by
  sorry

theorem close_one_keeps_peer (s : State) (p c : Nat) (ps : PeerSt) (h : s.peers[p]? = some ps)
    (c2 : Nat) (h2 : c2 ∈ ps.conns) (hne : c2 ≠ c) :
    ∃ ps', (closed s p c).peers[p]? = some ps' ∧ ps'.wl = ps.wl ∧ ps'.sending = ps.sending
      ∧ ps'.sendFull = ps.sendFull ∧ (∀ c', c' ∈ ps'.conns ↔ (c' ≠ c ∧ c' ∈ ps.conns)) := by
  sorry

theorem discard_only_on_last (s : State) (p c : Nat) (ps : PeerSt) (h : s.peers[p]? = some ps) :
    ((closed s p c).peers[p]? = none ↔ ∀ c', c' ∈ ps.conns → c' = c) := by
  sorry

end Beetswap.Proofs.ClientView
