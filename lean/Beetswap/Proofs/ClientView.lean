import Beetswap.Spec.ClientSpec
import Beetswap.Proofs.ClientViewStep
/-!
Proofs about the per-peer wantlist exchange (C04, C05, C15, C17). The statements are used by
`Props/` and must keep these exact statements.
-/
namespace Beetswap.Proofs.ClientView
open Std Beetswap.Client Beetswap.Wl Beetswap.Spec.ClientSpec

/-! ### The invariant -/

theorem ginv_init : GInv ({} : GSys) := by
  constructor
  · intro p ps hp
    have : ({} : GSys).sys.s.peers[p]? = none := kmap_get_empty p
    rw [this] at hp; cases hp
  · intro _ k; exact kset_not_mem_empty k
  · intro p ps hp
    have : ({} : GSys).sys.s.peers[p]? = none := kmap_get_empty p
    rw [this] at hp; cases hp
  · intro p c m hm; cases hm

theorem ginv_step (x : GSys) (op : Op) (h : GInv x) : GInv (gstep x op).1 := by
  exact ginv_step' x op h

theorem ginv_reachable (x : GSys) (h : GReachable x) : GInv x := by
  induction h with
  | init => exact ginv_init
  | step op _ ih => exact ginv_step _ op ih

/-! ### C04: the peer's view converges to the live queries -/

/-- Every `send` output of a step comes from `updatePeer` run on a peer entry that satisfies
the invariant with its pre-step history (under the post-step wantlist). -/
theorem send_origin (x : GSys) (hinv : GInv x) (op : Op) (p c : Nat) (m : WlMsg)
    (hs : Out.send p c m ∈ (gstep x op).2) :
    ∃ (ps2 : PeerSt) (g : Ghost) (now : Nat) (pref : Option Nat) (ops : Option PeerSt),
      x.ghost[p]? = some g ∧ PeerInv (gstep x op).1.sys.s ps2 g ∧
      updatePeer (gstep x op).1.sys.s.wantlist now ps2 pref = (ops, some (c, m)) := by
  rw [gstep_eq] at hs ⊢
  cases op with
  | drain pref =>
    change Out.send p c m ∈ (drain x.sys.s x.sys.now x.sys.seq pref).2.2 at hs
    show ∃ (ps2 : PeerSt) (g : Ghost) (now : Nat) (pref' : Option Nat) (ops : Option PeerSt),
      x.ghost[p]? = some g ∧ PeerInv (drain x.sys.s x.sys.now x.sys.seq pref).1 ps2 g ∧
      updatePeer (drain x.sys.s x.sys.now x.sys.seq pref).1.wantlist now ps2 pref' = (ops, some (c, m))
    have hmid : MidInv x.ghost x.sys.s := ⟨hinv.peers, hinv.rev_zero, hinv.conns_nonempty⟩
    obtain ⟨d1, d2, d3, d4, d5, d6⟩ := drain_spec x.sys.s x.sys.now x.sys.seq pref hinv.queue_nosend
    have hmid2 := (afterTasks_spec x.sys.s x.sys.now x.sys.seq).1 _ hmid
    have hsent := (d6 p c m).1 hs
    unfold sentTo at hsent
    cases hps2 : (afterTasks x.sys.s x.sys.now x.sys.seq).1.peers[p]? with
    | none => simp [hps2] at hsent
    | some ps2 =>
      simp only [hps2, Option.bind_some] at hsent
      obtain ⟨g, hg, hi⟩ := hmid2.peers p ps2 hps2
      refine ⟨ps2, g, x.sys.now, pref p,
        (updatePeer (afterTasks x.sys.s x.sys.now x.sys.seq).1.wantlist x.sys.now ps2 (pref p)).1,
        hg, hi.congr d1 rfl, ?_⟩
      rw [d1]
      exact Prod.ext rfl hsent
  | _ => cases hs


/-- Q1: whenever the node has nothing further to send to the peer, every CID in the peer's view
that the peer has not itself delivered belongs to the node's wantlist (= the CIDs of its
unresolved, uncancelled queries, see `ClientQuery.wantlist_eq_waiter_keys`). -/
theorem quiescent_sound (x : GSys) (h : GReachable x) (p : Nat) (ps : PeerSt) (g : Ghost)
    (hp : x.sys.s.peers[p]? = some ps) (hg : x.ghost[p]? = some g) (hq : Quiescent x.sys.s ps)
    (k : Nat) (hk : k ∈ g.told) (hd : k ∉ g.deliv) : k ∈ x.sys.s.wantlist.cids := by
  have hinv := ginv_reachable x h
  obtain ⟨g', hg', hi⟩ := hinv.peers p ps hp
  rw [hg] at hg'; cases hg'
  obtain ⟨_, _, hu⟩ := hq
  simp only [WState.isUpdated, Bool.and_eq_true, Bool.not_eq_true', beq_iff_eq] at hu
  have hreq : ps.wl.req[k]? ≠ none := fun hn => hd (hi.told_tracked k hk hn)
  have hmem : k ∈ ps.wl.req := by
    rw [kmap_mem_iff]
    cases hr : ps.wl.req[k]? with
    | none => exact absurd hr hreq
    | some r => exact ⟨r, rfl⟩
  exact (hi.synced_keys hu.2 k).1 hmem

/-- Q2: … and every wanted CID is in the peer's view unless the peer answered DONT_HAVE for it.
(Stronger than the property, which also tolerates "already delivered since being asked".) -/
theorem quiescent_complete (x : GSys) (h : GReachable x) (p : Nat) (ps : PeerSt) (g : Ghost)
    (hp : x.sys.s.peers[p]? = some ps) (hg : x.ghost[p]? = some g) (hq : Quiescent x.sys.s ps)
    (k : Nat) (hk : k ∈ x.sys.s.wantlist.cids) : k ∈ g.told ∨ k ∈ g.dh := by
  have hinv := ginv_reachable x h
  obtain ⟨g', hg', hi⟩ := hinv.peers p ps hp
  rw [hg] at hg'; cases hg'
  obtain ⟨_, _, hu⟩ := hq
  simp only [WState.isUpdated, Bool.and_eq_true, Bool.not_eq_true', beq_iff_eq] at hu
  have hmem : k ∈ ps.wl.req := (hi.synced_keys hu.2 k).2 hk
  rw [kmap_mem_iff] at hmem
  obtain ⟨r, hr⟩ := hmem
  cases r with
  | sentWantHave => exact .inl (hi.asked_told k (.inl hr))
  | sentWantBlock => exact .inl (hi.asked_told k (.inr hr))
  | gotDontHave => exact .inr ((hi.dh_iff k).2 hr)
  | gotBlock => exact absurd hk (hi.got_unwanted k hr)
  | gotHave =>
    have := hi.have_forces k hr
    rw [hu.1] at this; cases this

/-- Q3: every full wantlist lists exactly the wanted CIDs minus the DONT_HAVE ones, and carries
no cancel entries. -/
theorem full_exact (x : GSys) (h : GReachable x) (op : Op) (p c : Nat) (m : WlMsg)
    (hs : Out.send p c m ∈ (gstep x op).2) (hf : m.full = true) (g : Ghost)
    (hg : x.ghost[p]? = some g) :
    m.cancel = [] ∧
    ∀ k, (k ∈ m.wantHave ∨ k ∈ m.wantBlock) ↔
      (k ∈ (gstep x op).1.sys.s.wantlist.cids ∧ k ∉ g.dh) := by
  have hinv := ginv_reachable x h
  obtain ⟨ps2, g', now, pref, ops, hg', hi, hu⟩ := send_origin x hinv op p c m hs
  rw [hg] at hg'; cases hg'
  rcases updatePeer_msg hu with rfl | rfl
  · refine ⟨genFull_cancel _ _, ?_⟩
    intro k
    rw [genFull_wantHave, genFull_wantBlock, hi.dh_iff k]
    have hgu := hi.got_unwanted k
    rcases hr : ps2.wl.req[k]? with _ | r
    · simp
    · cases r <;> simp_all
  · rw [genUpdate_full] at hf; cases hf

/-- Wantlists are only handed to peers with a running session (so `g` above always exists). -/
theorem no_send_without_session (x : GSys) (h : GReachable x) (op : Op) (p c : Nat) (m : WlMsg)
    (hs : Out.send p c m ∈ (gstep x op).2) : ∃ g, x.ghost[p]? = some g := by
  have hinv := ginv_reachable x h
  obtain ⟨ps2, g, now, pref, ops, hg, _⟩ := send_origin x hinv op p c m hs
  exact ⟨g, hg⟩

/-- An update cancels every CID that is no longer wanted and that the peer was told about
and has not delivered. -/
theorem update_cancels_unwanted (s : WState) (w : Wantlist) (hu : s.isUpdated w = false) (k : Nat)
    (r : Req) (hr : s.req[k]? = some r) (hb : r ≠ Req.gotBlock) (hk : k ∉ w.cids) :
    k ∈ (s.genUpdate w).2.cancel ∧ (s.genUpdate w).1.req[k]? = none := by
  rw [genUpdate_cancel s w hu, genUpdate_req s w hu, fullNext_eq]
  exact ⟨⟨hk, r, hr, hb⟩, by simp [hk]⟩

/-- An update announces every wanted CID the peer has no exchange entry for. -/
theorem update_announces_new (s : WState) (w : Wantlist) (hu : s.isUpdated w = false) (k : Nat)
    (hr : s.req[k]? = none) (hk : k ∈ w.cids) :
    k ∈ (s.genUpdate w).2.wantHave ∧ (s.genUpdate w).1.req[k]? = some Req.sentWantHave := by
  rw [genUpdate_wantHave s w hu, genUpdate_req s w hu, fullNext_eq]
  exact ⟨⟨hk, hr⟩, by simp [hk, hr]⟩

/-- `is_updated` never hides a pending difference: every change of the wantlist makes every
peer state not-updated. -/
theorem insert_unsyncs (w : Wantlist) (k : Nat) (s : WState) (hs : s.synced ≤ w.revision)
    (hi : (w.insert k).2 = true) : s.isUpdated (w.insert k).1 = false := by
  unfold Wantlist.insert at hi ⊢
  split at hi
  · simp at hi
  · rename_i h
    simp only [h, if_false, WState.isUpdated]
    have : s.synced ≠ w.revision + 1 := by omega
    simp [this]

theorem remove_unsyncs (w : Wantlist) (k : Nat) (s : WState) (hs : s.synced ≤ w.revision)
    (hi : (w.remove k).2 = true) : s.isUpdated (w.remove k).1 = false := by
  unfold Wantlist.remove at hi ⊢
  split at hi
  · rename_i h
    simp only [h, if_true, WState.isUpdated]
    have : s.synced ≠ w.revision + 1 := by omega
    simp [this]
  · simp at hi

/-! ### C17: full blocks are requested only from peers that announced them -/

/-- A want-block entry for `k` is sent to `p` only if `p` answered HAVE for `k` during the
session and has not answered DONT_HAVE for it since. -/
theorem want_block_needs_have (x : GSys) (h : GReachable x) (op : Op) (p c : Nat) (m : WlMsg)
    (hs : Out.send p c m ∈ (gstep x op).2) (k : Nat) (hk : k ∈ m.wantBlock) :
    ∃ g, x.ghost[p]? = some g ∧ k ∈ g.haveOk := by
  have hinv := ginv_reachable x h
  obtain ⟨ps2, g, now, pref, ops, hg, hi, hu⟩ := send_origin x hinv op p c m hs
  refine ⟨g, hg, ?_⟩
  rcases updatePeer_msg hu with rfl | rfl
  · rw [genFull_wantBlock] at hk
    exact hi.wb_have k hk.2
  · by_cases hup : ps2.wl.isUpdated (gstep x op).1.sys.s.wantlist = true
    · rw [genUpdate_of_updated _ _ hup] at hk; cases hk
    · have hup : ps2.wl.isUpdated (gstep x op).1.sys.s.wantlist = false := by simpa using hup
      rw [genUpdate_wantBlock _ _ hup] at hk
      exact hi.wb_have k (.inl hk.2)

/-- A peer whose latest answer is HAVE is sent the want-block with the next update. -/
theorem have_gets_want_block (s : WState) (w : Wantlist) (k : Nat)
    (hr : s.req[k]? = some Req.gotHave) (hf : s.force = true) (hk : k ∈ w.cids) :
    k ∈ (s.genUpdate w).2.wantBlock ∧ (s.genUpdate w).1.req[k]? = some Req.sentWantBlock := by
  have hu : s.isUpdated w = false := by simp [WState.isUpdated, hf]
  rw [genUpdate_wantBlock s w hu, genUpdate_req s w hu, fullNext_eq]
  exact ⟨⟨hk, hr⟩, by simp [hk, hr]⟩

/-- HAVE for a CID with an exchange entry forces an update. -/
theorem have_forces_update (s : WState) (w : Wantlist) (k : Nat) :
    (s.gotHave k).isUpdated w = false := by
  simp [WState.isUpdated, WState.gotHave]

/-! ### C05: self-healing after a transmission fault (behaviour side) -/

/-- What `update_handlers` does for one peer whose handshake is in a fault state on connection
`c`: the connection is dropped; either no connection remains and the peer is dropped, or a full
wantlist is handed to one of the remaining connections. -/
def FaultOutcome (now : Nat) (ps : PeerSt) (c : Nat) (res : Option PeerSt × Option (Nat × WlMsg)) : Prop :=
  (res = (none, none) ∧ (ps.conns.erase c).isEmpty = true) ∨
  (∃ ps' c' m, res = (some ps', some (c', m)) ∧ m.full = true ∧ c' ≠ c ∧ c' ∈ ps.conns
    ∧ c ∉ ps'.conns ∧ ps'.sending = Sending.requested now c' ∧ ps'.sendFull = false)

theorem fault_go (w : Wantlist) (now : Nat) (ps : PeerSt) (pref : Option Nat) (c : Nat) :
    FaultOutcome now ps c
      (goPeer w now pref { ps with conns := ps.conns.erase c, sendFull := true, sending := .ready }) := by
  by_cases he : (ps.conns.erase c).isEmpty = true
  · left; exact ⟨goPeer_empty _ _ _ _ he, he⟩
  · right
    have he' : (ps.conns.erase c).isEmpty = false := by simpa using he
    have hm := pickConn_mem _ pref he'
    rw [goPeer_full _ _ _ _ rfl he']
    rw [kset_mem_erase] at hm
    refine ⟨_, _, _, rfl, rfl, hm.1, hm.2, ?_, rfl, rfl⟩
    simp

/-- After a transmission is reported failed, the connection is dropped and the next wantlist
is a full one over a remaining connection (or the peer is dropped if none remains). -/
theorem failed_forces_full (w : Wantlist) (now : Nat) (ps : PeerSt) (pref : Option Nat) (c : Nat)
    (hs : ps.sending = Sending.failed c) : FaultOutcome now ps c (updatePeer w now ps pref) := by
  rw [updatePeer_eq, hs]
  exact fault_go w now ps pref c

/-- Same when the handler never acknowledged the request within the timeout. -/
theorem ack_timeout_forces_full (w : Wantlist) (now : Nat) (ps : PeerSt) (pref : Option Nat)
    (t c : Nat) (hs : ps.sending = Sending.requested t c) (ht : ¬ now - t < receiveRequestTimeout) :
    FaultOutcome now ps c (updatePeer w now ps pref) := by
  rw [updatePeer_eq, hs]
  simp only [ht, if_false]
  exact fault_go w now ps pref c

/-- While a transmission is in flight nothing is handed to any connection of the peer and the
peer state is untouched. -/
theorem one_in_flight (w : Wantlist) (now : Nat) (ps : PeerSt) (pref : Option Nat)
    (hs : (∃ c, ps.sending = Sending.requestReceived c) ∨ (∃ c, ps.sending = Sending.sending c) ∨
          (∃ t c, ps.sending = Sending.requested t c ∧ now - t < receiveRequestTimeout)) :
    updatePeer w now ps pref = (some ps, none) := by
  rw [updatePeer_eq]
  rcases hs with ⟨c, h⟩ | ⟨c, h⟩ | ⟨t, c, h, ht⟩
  · rw [h]
  · rw [h]
  · rw [h]; simp [ht]

/-- A pending full wantlist is sent as soon as the peer is ready, over one of its connections. -/
theorem sendfull_next_is_full (w : Wantlist) (now : Nat) (ps : PeerSt) (pref : Option Nat)
    (hr : ps.sending = Sending.ready) (hf : ps.sendFull = true) (hc : ps.conns.isEmpty = false) :
    ∃ ps' c m, updatePeer w now ps pref = (some ps', some (c, m)) ∧ m.full = true ∧ c ∈ ps.conns
      ∧ ps'.sendFull = false ∧ ps'.sending = Sending.requested now c := by
  rw [updatePeer_eq, hr]
  simp only [goPeer_full _ _ _ _ hf hc]
  exact ⟨_, _, _, rfl, rfl, pickConn_mem _ _ hc, rfl, rfl⟩

/-- Every wantlist is handed to exactly one connection, which is one of the peer's. -/
theorem send_on_own_connection (w : Wantlist) (now : Nat) (ps : PeerSt) (pref : Option Nat)
    (ps' : PeerSt) (c : Nat) (m : WlMsg) (h : updatePeer w now ps pref = (some ps', some (c, m))) :
    c ∈ ps.conns ∧ c ∈ ps'.conns ∧ ps'.sending = Sending.requested now c := by
  have hr := updatePeer_res w now ps pref
  rw [h] at hr
  generalize hres : (some ps', some (c, m)) = res at hr
  cases hr with
  | idle => cases hres
  | go ps0 _ hwl hsub _ hgo =>
    cases hgo with
    | drop => cases hres
    | full hc0 hf =>
      cases hres
      exact ⟨hsub _ (pickConn_mem _ _ hc0), pickConn_mem _ _ hc0, rfl⟩
    | quiet hc0 hf he => cases hres
    | upd hc0 hf he =>
      cases hres
      exact ⟨hsub _ (pickConn_mem _ _ hc0), pickConn_mem _ _ hc0, rfl⟩

/-- The first wantlist of every new peer session is full. -/
theorem first_of_session_full (s : State) (p c : Nat) (h : s.peers[p]? = none) :
    ∃ ps, (connect s p c).peers[p]? = some ps ∧ ps.sendFull = true ∧ ps.sending = Sending.ready
      ∧ c ∈ ps.conns := by
  refine ⟨_, by simp only [connect, kmap_get_insert, if_true]; rfl, ?_, ?_, ?_⟩
  · simp [h]
  · simp [h]
  · simp

/-- When the refresh timer has expired, a drain marks every peer for a full wantlist: each
peer either is sent a full wantlist in this drain, or still has it pending, or is dropped. -/
theorem refresh_sets_full_all (s : State) (now seq : Nat) (pref : Nat → Option Nat)
    (hd : s.deadline ≤ now) (p : Nat) (ps : PeerSt) (hp : s.peers[p]? = some ps) :
    (drain s now seq pref).1.deadline = now + sendFullInterval ∧
    ((∃ c m, Out.send p c m ∈ (drain s now seq pref).2.2 ∧ m.full = true) ∨
     (∃ ps', (drain s now seq pref).1.peers[p]? = some ps' ∧ ps'.sendFull = true) ∨
     (drain s now seq pref).1.peers[p]? = none) := by
  obtain ⟨d1, d2, d3⟩ := drain_spec_nq s now seq pref
  refine ⟨by rw [d1]; simp [hd], ?_⟩
  have hfr := (afterTasks_spec s now seq).2.1 p
  rw [hp] at hfr
  cases hps2 : (afterTasks s now seq).1.peers[p]? with
  | none => rw [hps2] at hfr; cases hfr
  | some ps2 =>
    rw [hps2] at hfr
    simp only [Option.map_some, pframe, hd, decide_true, Bool.or_true, Option.some.injEq,
      Prod.mk.injEq] at hfr
    have hsf : ps2.sendFull = true := hfr.2.2
    have hnext : (drain s now seq pref).1.peers[p]? =
        (updatePeer (afterTasks s now seq).1.wantlist now ps2 (pref p)).1 := by
      rw [d2 p]; simp [nextPeer, hps2]
    have hsent : ∀ c m, (updatePeer (afterTasks s now seq).1.wantlist now ps2 (pref p)).2 = some (c, m) →
        Out.send p c m ∈ (drain s now seq pref).2.2 := by
      intro c m hu
      apply d3
      simp [sentTo, hps2, hu]
    have hr := updatePeer_res (afterTasks s now seq).1.wantlist now ps2 (pref p)
    generalize hres : updatePeer (afterTasks s now seq).1.wantlist now ps2 (pref p) = res at hr hnext hsent
    cases hr with
    | idle => right; left; exact ⟨ps2, hnext, hsf⟩
    | go ps0 _ hwl hsub hf0 hgo =>
      have hf0 : ps0.sendFull = true := by
        rcases hf0 with e | e
        · exact e
        · rw [e]; exact hsf
      cases hgo with
      | drop => right; right; exact hnext
      | full hc0 _ => left; exact ⟨_, _, hsent _ _ rfl, rfl⟩
      | quiet _ hff _ => rw [hf0] at hff; cases hff
      | upd _ hff _ => rw [hf0] at hff; cases hff

/-! ### C15: extra connections neither duplicate nor reset the exchange (client side) -/

theorem extra_connection_keeps_state (s : State) (p c : Nat) (ps : PeerSt)
    (h : s.peers[p]? = some ps) :
    ∃ ps', (connect s p c).peers[p]? = some ps' ∧ ps'.wl = ps.wl ∧ ps'.sending = ps.sending
      ∧ ps'.sendFull = ps.sendFull ∧ (∀ c', c' ∈ ps'.conns ↔ (c' = c ∨ c' ∈ ps.conns))
      ∧ (∀ q, q ≠ p → (connect s p c).peers[q]? = s.peers[q]?)
      ∧ (connect s p c).wantlist = s.wantlist ∧ (connect s p c).queue = s.queue := by
  refine ⟨_, by simp only [connect, kmap_get_insert, if_true]; rfl, ?_, ?_, ?_, ?_, ?_, rfl, rfl⟩
  · simp [h]
  · simp [h]
  · simp [h]
  · intro c'; simp only [h, Option.getD_some]; exact kset_mem_insert _ _ _
  · intro q hq; simp [connect, kmap_get_insert, hq]

theorem close_one_keeps_peer (s : State) (p c : Nat) (ps : PeerSt) (h : s.peers[p]? = some ps)
    (c2 : Nat) (h2 : c2 ∈ ps.conns) (hne : c2 ≠ c) :
    ∃ ps', (closed s p c).peers[p]? = some ps' ∧ ps'.wl = ps.wl ∧ ps'.sending = ps.sending
      ∧ ps'.sendFull = ps.sendFull ∧ (∀ c', c' ∈ ps'.conns ↔ (c' ≠ c ∧ c' ∈ ps.conns)) := by
  have hne' : (ps.conns.erase c).isEmpty = false := by
    rw [ExtTreeSet.isEmpty_eq_false_iff]
    exact ExtTreeSet.ne_empty_of_mem ((kset_mem_erase _ _ _).2 ⟨hne, h2⟩)
  refine ⟨{ ps with conns := ps.conns.erase c }, ?_, rfl, rfl, rfl, ?_⟩
  · rw [closed_peers s p c ps h]; simp [hne']
  · intro c'; exact kset_mem_erase _ _ _

theorem discard_only_on_last (s : State) (p c : Nat) (ps : PeerSt) (h : s.peers[p]? = some ps) :
    ((closed s p c).peers[p]? = none ↔ ∀ c', c' ∈ ps.conns → c' = c) := by
  rw [closed_peers s p c ps h]
  simp only [if_true]
  by_cases he : (ps.conns.erase c).isEmpty = true
  · simp only [he, if_true, true_iff]
    intro c' hc'
    rw [ExtTreeSet.isEmpty_iff, ExtTreeSet.eq_empty_iff_forall_not_mem] at he
    have := he c'
    rw [kset_mem_erase] at this
    exact Classical.byContradiction fun hn => this ⟨hn, hc'⟩
  · simp only [he, Bool.false_eq_true, if_false, reduceCtorEq, false_iff]
    intro hall
    apply he
    rw [ExtTreeSet.isEmpty_iff, ExtTreeSet.eq_empty_iff_forall_not_mem]
    intro a ha
    rw [kset_mem_erase] at ha
    exact ha.1 (hall a ha.2)

end Beetswap.Proofs.ClientView
