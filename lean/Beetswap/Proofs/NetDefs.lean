import Beetswap.Model.Net
import Beetswap.Spec.ClientSpec
import Beetswap.Spec.ServerSpec
/-!
Definitions for the proofs about the two-node composition `Model/Net.lean`:
reachability, the history-extended composition (`GS`), and the inductive invariant
(`BInv` serving side, `AInv` requesting side, `XInv` across the connection).
-/
namespace Beetswap.Proofs.Net
open Std Beetswap.Net Beetswap.Wl
open Beetswap.Client (PeerSt Sending StoreRes Out TaskSt TaskKind Sys sendFullInterval)
open Beetswap.Spec.ClientSpec (GSys Ghost gstep grun GInv)

/-- Every state the two connected nodes can reach: any user behaviour at the requesting node (any
gets, cancels, refresh expiries) interleaved in any order with any scheduling of the internal
actions (drains, blockstore completions in any order, deliveries). -/
inductive Reachable (store : KMap Nat) : State → Prop where
  | init : Reachable store (init store)
  | step {s} (act : Act) : Reachable store s → Reachable store (step s act)

/-- The tolerated gap of C04 / C02: `a` believes `b` still holds its want for `k` (exchange state
`SentWantHave` or `SentWantBlock`), but `b` has already served and forgotten it. -/
def InGap (s : State) (k : Nat) : Prop :=
  (∃ ps : PeerSt, s.a.client.peers[1]? = some ps ∧
    (ps.wl.req[k]? = some Req.sentWantHave ∨ ps.wl.req[k]? = some Req.sentWantBlock)) ∧
  (∀ set : KSet, s.b.server.wl[0]? = some set → k ∉ set)

/-- The actions that need neither the user nor the clock. -/
def _root_.Beetswap.Net.Act.internal : Act → Bool
  | .get _ | .cancel _ | .refresh => false
  | _ => true

/-! ### The history-extended composition -/

/-- the client half of `a` as a `Client.Sys` -/
def aSys (s : State) : Sys := { s := s.a.client, now := s.a.now, seq := s.a.seq }

def isSend : Out → Bool
  | .send .. => true
  | _ => false

/-- The client operations node `a` performs during one action of the composition. -/
def aOps (s : State) : Act → List Beetswap.Client.Op
  | .get k => [.get k true]
  | .cancel q => [.cancel q]
  | .refresh => [.tick sendFullInterval]
  | .drainA =>
    [.drain (Node.prefOf []), .takeNewBlocks] ++
      (if (Node.step s.a (.drain [] [])).2.1.any isSend then [.sending 1 1 (.sending 1)] else [])
  | .drainB => []
  | .lookupA seq => if s.callsA.any (·.1 == seq) then [.complete seq .miss] else []
  | .putDoneA seq => if seq ∈ s.putsA then [.complete seq .putOk] else []
  | .lookupB _ => []
  | .deliverAB =>
    match s.wireAB with
    | [] => []
    | _ :: _ => [.sending 1 1 .ready]
  | .deliverBA =>
    match s.wireBA with
    | [] => []
    | bs :: _ => if bs.isEmpty then [] else [.msg 1 [] [] bs]

/-- Composition state with history: `x` runs the client half of `a` with the per-peer history
variables of `Spec.ClientSpec` (what `b` was told, what `b` delivered); `asked` lists the CIDs of
all `get`s issued so far. -/
structure GS where
  s : State
  x : GSys := {}
  asked : List Nat := []

def ginit (store : KMap Nat) : GS :=
  { s := init store, x := (gstep {} (.connect 1 1)).1, asked := [] }

def gnext (g : GS) (act : Act) : GS :=
  { s := step g.s act,
    x := (grun g.x (aOps g.s act)).1,
    asked := match act with
      | .get k => g.asked ++ [k]
      | _ => g.asked }

inductive GReach (store : KMap Nat) : GS → Prop where
  | init : GReach store (ginit store)
  | step {g} (act : Act) : GReach store g → GReach store (gnext g act)

/-! ### Vocabulary -/

/-- `b`'s record of `a`'s wants -/
def bset (s : State) : KSet := (s.b.server.wl[0]?).getD ∅

/-- `a`'s exchange state with `b` -/
def apeer (s : State) : PeerSt := (s.a.client.peers[1]?).getD {}

/-- the history variables of `a` for its peer `b` -/
def ahist (g : GS) : Ghost := (g.x.ghost[1]?).getD {}

def lookupRes (store : KMap Nat) (k : Nat) : StoreRes :=
  match store[k]? with
  | some d => .hit d
  | none => .miss

/-! ### The invariant -/

/-- The serving node. -/
structure BInv (s : State) : Prop where
  sinv : Spec.ServerSpec.Inv s.b.server
  wl0 : ∃ set, s.b.server.wl[0]? = some set
  outq_nil : s.b.server.outq = []
  cl_tasks : s.b.client.tasks = []
  cl_runq : s.b.client.runq = []
  cl_queue : s.b.client.queue = []
  cl_nb : s.b.client.newBlocks = []
  ids_nodup : (s.b.server.tasks.map (·.id)).Nodup
  ids_lt : ∀ t ∈ s.b.server.tasks, t.id < s.b.server.nextTask
  sched : ∀ t ∈ s.b.server.tasks, (t.id ∈ s.b.server.runq ∧ ∀ n, t.st ≠ .waiting n) ∨
    ∃ n k rest, t.st = .waiting n ∧ t.todo = k :: rest ∧ (n, k) ∈ s.callsB
  ready_ok : ∀ t ∈ s.b.server.tasks, ∀ r, t.st = .ready r →
    ∃ k rest, t.todo = k :: rest ∧ r = lookupRes s.storeB k
  results_ok : ∀ t ∈ s.b.server.tasks, ∀ kr ∈ t.results, kr.2 = lookupRes s.storeB kr.1
  calls_task : ∀ c ∈ s.callsB, ∃ t ∈ s.b.server.tasks, t.st = .waiting c.1 ∧ t.todo.head? = some c.2
  calls_lt : ∀ c ∈ s.callsB, c.1 < s.b.seq
  calls_nodup : (s.callsB.map (·.1)).Nodup
  wait_lt : ∀ t ∈ s.b.server.tasks, ∀ n, t.st = .waiting n → n < s.b.seq
  wait_inj : ∀ t ∈ s.b.server.tasks, ∀ t' ∈ s.b.server.tasks, ∀ n,
    t.st = .waiting n → t'.st = .waiting n → t.id = t'.id
  wire_ok : ∀ bs ∈ s.wireBA, ∀ kd ∈ bs, s.storeB[kd.1]? = some kd.2
  /-- a recorded want for a block `b` holds is being worked on -/
  pending : ∀ k, k ∈ bset s → ∀ d, s.storeB[k]? = some d →
    ∃ t ∈ s.b.server.tasks, k ∈ t.todo ∨ (k, StoreRes.hit d) ∈ t.results

/-- The requesting node (with its history variables). -/
structure AInv (g : GS) : Prop where
  coh : g.x.sys = aSys g.s
  ginv : GInv g.x
  srv_tasks : g.s.a.server.tasks = []
  srv_runq : g.s.a.server.runq = []
  srv_evq : g.s.a.server.evq = []
  srv_outq : g.s.a.server.outq = []
  srv_waiting : ∀ k : Nat, g.s.a.server.waiting[k]? = none
  peer1 : ∃ ps, g.s.a.client.peers[1]? = some ps
  peer_only : ∀ p : Nat, p ≠ 1 → g.s.a.client.peers[p]? = none
  wire : ((apeer g.s).sending = .ready ∧ g.s.wireAB = []) ∨
    ((apeer g.s).sending = .sending 1 ∧ ∃ m, g.s.wireAB = [m])
  reqvals : ∀ (k : Nat) (r : Req), (apeer g.s).wl.req[k]? = some r → r = Req.sentWantHave ∨ r = Req.gotBlock
  /-- the one connection between the two nodes is connection 1 -/
  conn1 : ∀ x : Nat, x ∈ (apeer g.s).conns ↔ x = 1
  deadline : g.s.a.client.deadline ≤ g.s.a.now + sendFullInterval
  no_hit : ∀ t ∈ g.s.a.client.tasks, ∀ d, t.st ≠ TaskSt.done (StoreRes.hit d)
  queue_ok : ∀ q d, Out.resp q d ∈ g.s.a.client.queue → ∃ k : Nat, g.s.storeB[k]? = some d
  answered_ok : ∀ qd ∈ g.s.answered, ∃ k : Nat, g.s.storeB[k]? = some qd.2
  ids_nodup : (g.s.a.client.tasks.map (·.id)).Nodup
  ids_lt : ∀ t ∈ g.s.a.client.tasks, t.id < g.s.a.client.nextTask
  sched : ∀ t ∈ g.s.a.client.tasks,
    (t.id ∈ g.s.a.client.runq ∧ (t.aborted = true ∨ ∀ n, t.st ≠ .waiting n)) ∨
    ∃ n, t.st = .waiting n ∧ (n ∈ g.s.callsA.map (·.1) ∨ n ∈ g.s.putsA)
  wait_lt : ∀ t ∈ g.s.a.client.tasks, ∀ n, t.st = .waiting n → n < g.s.a.seq
  wait_inj : ∀ t ∈ g.s.a.client.tasks, ∀ t' ∈ g.s.a.client.tasks, ∀ n,
    t.st = .waiting n → t'.st = .waiting n → t.id = t'.id
  asked_len : g.asked.length = g.s.a.client.nextQuery
  get_asked : ∀ t ∈ g.s.a.client.tasks, ∀ q k, t.kind = TaskKind.get q k → k ∈ g.asked
  want_asked : ∀ k, k ∈ g.s.a.client.wantlist.cids → k ∈ g.asked

/-- Across the connection: `b`'s record against what `a` told `b`. -/
structure XInv (g : GS) : Prop where
  told_asked : ∀ k, k ∈ (ahist g).told → k ∈ g.asked
  set_asked : ∀ k, k ∈ bset g.s → k ∈ g.asked
  msg_wb : ∀ m ∈ g.s.wireAB, m.wantBlock = []
  msg_nodup : ∀ m ∈ g.s.wireAB, m.wantHave.Nodup
  msg_told : ∀ m ∈ g.s.wireAB, ∀ k ∈ m.wantHave, k ∈ (ahist g).told
  /-- `b` records only what it was told -/
  set_told : ∀ k, k ∈ bset g.s → (∀ m ∈ g.s.wireAB, m.full = false ∧ k ∉ m.cancel) → k ∈ (ahist g).told
  /-- what `b` was told it records until it has served it (as long as the cap of `b`'s record
  cannot bind: at most `maxWantlistEntries` queries so far) -/
  told_set : g.asked.length ≤ Server.maxWantlistEntries → ∀ k, k ∈ (ahist g).told →
    k ∈ (ahist g).deliv ∨ (∃ bs ∈ g.s.wireBA, ∃ d, (k, d) ∈ bs) ∨ (∃ m ∈ g.s.wireAB, k ∈ m.wantHave) ∨
    (k ∈ bset g.s ∧ ∀ m ∈ g.s.wireAB, m.full = false ∧ k ∉ m.cancel)
  deliv_store : ∀ k, k ∈ (ahist g).deliv → ∃ d, g.s.storeB[k]? = some d

/-- Since the last full wantlist nothing was delivered that `a` still wants, and no lookup of `a`
can add a want: the state a refresh from quiescence establishes, stable under internal actions. -/
structure Clean (g : GS) : Prop where
  no_get : ∀ t ∈ g.s.a.client.tasks, ∀ q k, t.kind = TaskKind.get q k → t.aborted = true
  fresh : ∀ k, k ∈ g.s.a.client.wantlist.cids → k ∉ (ahist g).deliv

structure NInv (store : KMap Nat) (g : GS) : Prop where
  store_eq : g.s.storeB = store
  b : BInv g.s
  a : AInv g
  x : XInv g

end Beetswap.Proofs.Net
