import Beetswap.Model.ServerHandler
import Beetswap.Proofs.Codec
/-!
Proofs for the outbound side of C09 (`take_next_message`). Statements are used by `Props/C09`.
-/
namespace Beetswap.Proofs.Pack
open Beetswap Beetswap.Proto Beetswap.Frame Beetswap.ServerHandler

/-! ### `takeCount` -/

theorem takeCount_ge : ∀ (bs : List Block) (size count : Nat), count ≤ takeCount size count bs := by
  intro bs
  induction bs with
  | nil => intro size count; simp [takeCount]
  | cons b bs ih =>
    intro size count
    rw [takeCount]
    split
    · exact Nat.le_refl _
    · have := ih (size + blockFieldSize b) (count + 1); omega

theorem takeCount_le : ∀ (bs : List Block) (size count : Nat),
    takeCount size count bs ≤ count + bs.length := by
  intro bs
  induction bs with
  | nil => intro size count; simp [takeCount]
  | cons b bs ih =>
    intro size count
    rw [takeCount]
    split
    · simp
    · have := ih (size + blockFieldSize b) (count + 1); simp only [List.length_cons]; omega

theorem takeCount_pos (b : Block) (bs : List Block) (size : Nat) :
    1 ≤ takeCount size 0 (b :: bs) := by
  rw [takeCount]
  simp only [Nat.lt_irrefl, false_and, if_false]
  exact takeCount_ge bs _ _

theorem takeCount_sum : ∀ (bs : List Block) (size count : Nat),
    size ≤ maxMessageSize →
    (count = 0 → ∀ b, bs.head? = some b → size + blockFieldSize b ≤ maxMessageSize) →
    size + ((bs.take (takeCount size count bs - count)).map blockFieldSize).sum
      ≤ maxMessageSize := by
  intro bs
  induction bs with
  | nil => intro size count hs _; simpa [takeCount] using hs
  | cons b bs ih =>
    intro size count hs hfirst
    rw [takeCount]
    split
    · simpa using hs
    · rename_i hc
      have hfit : size + blockFieldSize b ≤ maxMessageSize := by
        by_cases h0 : count = 0
        · exact hfirst h0 b rfl
        · have : ¬ (size + blockFieldSize b > maxMessageSize) := fun h => hc ⟨by omega, h⟩
          omega
      have hge := takeCount_ge bs (size + blockFieldSize b) (count + 1)
      have ih' := ih (size + blockFieldSize b) (count + 1) hfit (by omega)
      have : takeCount (size + blockFieldSize b) (count + 1) bs - count
          = (takeCount (size + blockFieldSize b) (count + 1) bs - (count + 1)) + 1 := by omega
      rw [this, List.take_succ_cons, List.map_cons, List.sum_cons]
      omega

theorem sizeMessage_payload (l : List Block) :
    sizeMessage { payload := l } = (l.map blockFieldSize).sum := by
  simp [sizeMessage]
  rfl

/-! ### `packNext` -/

/-- Nothing is lost, duplicated or reordered by one packing step. -/
theorem packNext_concat (p : List Block) : (packNext p).1.payload ++ (packNext p).2 = p := by
  simp [packNext]

/-- Every message takes at least one block (so the handler makes progress). -/
theorem packNext_progress (p : List Block) (h : p ≠ []) : (packNext p).1.payload ≠ [] := by
  cases p with
  | nil => exact absurd rfl h
  | cons b bs =>
    have := takeCount_pos b bs 0
    simp only [packNext]
    intro hnil
    have hl := congrArg List.length hnil
    simp only [List.length_take, List.length_cons, List.length_nil] at hl
    omega

/-- If each single block fits in a frame, the message does not exceed the limit. -/
theorem packNext_within_limit (p : List Block) (h : ∀ b ∈ p, blockFieldSize b ≤ maxMessageSize) :
    sizeMessage (packNext p).1 ≤ maxMessageSize := by
  have := takeCount_sum p 0 0 (Nat.zero_le _) (by
    intro _ b hb
    have : b ∈ p := by
      cases p with
      | nil => simp at hb
      | cons a as => simp at hb; simp [hb]
    simpa using h b this)
  simp only [packNext, sizeMessage_payload]
  simpa using this

theorem packNext_rest_length (p : List Block) (h : p ≠ []) :
    (packNext p).2.length < p.length := by
  have h1 := packNext_progress p h
  have h2 := congrArg List.length (packNext_concat p)
  rw [List.length_append] at h2
  have : 0 < (packNext p).1.payload.length := List.length_pos_iff.mpr h1
  omega

/-! ### `packAll` / `frames` -/

theorem packAll_concat : ∀ (fuel : Nat) (p : List Block), p.length ≤ fuel →
    ((packAll fuel p).map (·.payload)).flatten = p := by
  intro fuel
  induction fuel with
  | zero =>
    intro p hp
    have : p = [] := List.length_eq_zero_iff.mp (by omega)
    subst this; simp [packAll]
  | succ fuel ih =>
    intro p hp
    rw [packAll]
    split
    · rename_i he
      simp at he; subst he; simp
    · rename_i he
      have hne : p ≠ [] := by simpa using he
      have hlt := packNext_rest_length p hne
      have := ih (packNext p).2 (by omega)
      simp only [List.map_cons, List.flatten_cons, this]
      exact packNext_concat p

theorem packAll_mem : ∀ (fuel : Nat) (p : List Block) (m : Message), m ∈ packAll fuel p →
    ∃ q : List Block, q ≠ [] ∧ (∀ b ∈ q, b ∈ p) ∧ m = (packNext q).1 := by
  intro fuel
  induction fuel with
  | zero => intro p m hm; simp [packAll] at hm
  | succ fuel ih =>
    intro p m hm
    rw [packAll] at hm
    split at hm
    · simp at hm
    · rename_i he
      have hne : p ≠ [] := by simpa using he
      simp only [List.mem_cons] at hm
      rcases hm with hm | hm
      · exact ⟨p, hne, fun _ hb => hb, hm⟩
      · obtain ⟨q, hq, hsub, hmq⟩ := ih _ m hm
        refine ⟨q, hq, fun b hb => ?_, hmq⟩
        have := hsub b hb
        have hc := packNext_concat p
        rw [← hc]; exact List.mem_append_right _ this

/-- All frames sent for a batch: together they carry exactly the pending blocks, in order … -/
theorem frames_concat (p : List Block) : ((frames p).map (·.payload)).flatten = p :=
  packAll_concat p.length p (Nat.le_refl _)

/-- … and no frame exceeds the limit as long as each individual block fits in one: the encoded
frame is the length prefix (at most 4 bytes) plus at most 4 MiB. -/
theorem frames_within_limit (p : List Block) (h : ∀ b ∈ p, blockFieldSize b ≤ maxMessageSize)
    (m : Message) (hm : m ∈ frames p) :
    sizeMessage m ≤ maxMessageSize ∧ (encode m).length ≤ maxMessageSize + 4 := by
  obtain ⟨q, _, hsub, rfl⟩ := packAll_mem _ p m hm
  have hs := packNext_within_limit q (fun b hb => h b (hsub b hb))
  refine ⟨hs, ?_⟩
  have h4 := Codec.enc_length_le_four hs
  have hl := Codec.size_eq_length (packNext q).1
  simp only [encode, List.length_append]
  omega

/-- The frames carry blocks only. -/
theorem frames_only_blocks (p : List Block) (m : Message) (hm : m ∈ frames p) :
    m.wantlist = none ∧ m.presences = [] ∧ m.pendingBytes = 0 ∧ m.payload ≠ [] := by
  obtain ⟨q, hq, _, rfl⟩ := packAll_mem _ p m hm
  exact ⟨rfl, rfl, rfl, packNext_progress q hq⟩

end Beetswap.Proofs.Pack
