import Beetswap.Proofs.ClientViewStepBase
/-!
`GInv` is preserved by every operation.
-/
namespace Beetswap.Proofs.ClientView
open Std Beetswap.Client Beetswap.Wl Beetswap.Spec.ClientSpec

theorem isEmpty_insert_false (s : KSet) (c : Nat) : (s.insert c).isEmpty = false := by
  rw [ExtTreeSet.isEmpty_eq_false_iff]; exact ExtTreeSet.insert_ne_empty

theorem ginv_connect (x : GSys) (h : GInv x) (p c : Nat) : GInv (gstep x (.connect p c)).1 := by
  rw [gstep_eq]
  apply ginv_of_tab
  · intro q ps' hps'
    simp only [step, connect, kmap_get_insert] at hps'
    show PeerInv (connect x.sys.s p c) ps' (base x q) ∧ _
    by_cases hq : q = p
    · subst hq
      simp only [if_true, Option.some.injEq] at hps'
      subst hps'
      refine ⟨peerInv_carry h (fun _ hj => hj) (.inl rfl) ?_, isEmpty_insert_false _ _⟩
      cases hp : x.sys.s.peers[q]? with
      | none => exact .inr ⟨rfl, rfl⟩
      | some ps => exact .inl ⟨ps, rfl, rfl⟩
    · simp only [hq, if_false] at hps'
      exact ⟨peerInv_carry h (fun _ hj => hj) (.inl rfl) (.inl ⟨ps', hps', rfl⟩),
        h.conns_nonempty q ps' hps'⟩
  · exact h.rev_zero
  · exact h.queue_nosend

theorem closed_fields (s : State) (p c : Nat) :
    (closed s p c).wantlist = s.wantlist ∧ (closed s p c).queue = s.queue := by
  unfold closed
  split
  · exact ⟨rfl, rfl⟩
  · dsimp only
    split <;> exact ⟨rfl, rfl⟩

theorem ginv_closed (x : GSys) (h : GInv x) (p c : Nat) : GInv (gstep x (.closed p c)).1 := by
  rw [gstep_eq]
  apply ginv_of_tab
  · intro q ps' hps'
    show PeerInv (closed x.sys.s p c) ps' (base x q) ∧ _
    have hw : (closed x.sys.s p c).wantlist = x.sys.s.wantlist := (closed_fields _ _ _).1
    change (closed x.sys.s p c).peers[q]? = some ps' at hps'
    cases hp : x.sys.s.peers[p]? with
    | none =>
      have : closed x.sys.s p c = x.sys.s := by simp [closed, hp]
      rw [this] at hps' ⊢
      exact ⟨peerInv_carry h (fun _ hj => hj) (.inl rfl) (.inl ⟨ps', hps', rfl⟩),
        h.conns_nonempty q ps' hps'⟩
    | some ps =>
      rw [closed_peers _ _ _ _ hp] at hps'
      by_cases hq : q = p
      · subst hq
        simp only [if_true] at hps'
        split at hps'
        · cases hps'
        · rename_i he
          cases hps'
          exact ⟨peerInv_carry h (fun _ hj => hw ▸ hj) (.inl hw) (.inl ⟨ps, hp, rfl⟩), by simpa using he⟩
      · simp only [hq, if_false] at hps'
        exact ⟨peerInv_carry h (fun _ hj => hw ▸ hj) (.inl hw) (.inl ⟨ps', hps', rfl⟩),
          h.conns_nonempty q ps' hps'⟩
  · have hw : (closed x.sys.s p c).wantlist = x.sys.s.wantlist := (closed_fields _ _ _).1
    show (closed x.sys.s p c).wantlist.revision = 0 → ∀ k, k ∉ (closed x.sys.s p c).wantlist.cids
    rw [hw]; exact h.rev_zero
  · have hq : (closed x.sys.s p c).queue = x.sys.s.queue := (closed_fields _ _ _).2
    show ∀ p' c' m, Out.send p' c' m ∉ (closed x.sys.s p c).queue
    rw [hq]; exact h.queue_nosend

/-- steps that leave the peer table alone and can only shrink the wantlist -/
theorem ginv_quiet (x : GSys) (h : GInv x) (op : Op) (hupd : ∀ p, gupd x op p = base x p)
    (hpeers : (step x.sys op).1.s.peers = x.sys.s.peers)
    (hsub : ∀ j, j ∈ (step x.sys op).1.s.wantlist.cids → j ∈ x.sys.s.wantlist.cids)
    (hrev : (step x.sys op).1.s.wantlist = x.sys.s.wantlist ∨
      x.sys.s.wantlist.revision < (step x.sys op).1.s.wantlist.revision)
    (hq : ∀ p c m, Out.send p c m ∉ (step x.sys op).1.s.queue) : GInv (gstep x op).1 := by
  rw [gstep_eq]
  apply ginv_of_tab
  · intro q ps' hps'
    rw [hupd]
    rw [hpeers] at hps'
    exact ⟨peerInv_carry h hsub hrev (.inl ⟨ps', hps', rfl⟩), h.conns_nonempty q ps' hps'⟩
  · exact rev_zero_carry h hrev
  · exact hq

theorem get_fields (s : State) (k : Nat) (fits : Bool) :
    (Client.get s k fits).1.peers = s.peers ∧ (Client.get s k fits).1.wantlist = s.wantlist ∧
    ∀ p c m, Out.send p c m ∈ (Client.get s k fits).1.queue → Out.send p c m ∈ s.queue := by
  unfold Client.get
  cases fits
  · refine ⟨rfl, rfl, ?_⟩
    intro p c m hm
    simp only [Bool.false_eq_true, if_false, List.mem_append, List.mem_singleton] at hm
    rcases hm with hm | hm
    · exact hm
    · cases hm
  · exact ⟨rfl, rfl, fun _ _ _ hm => hm⟩

theorem cancel_fields (s : State) (q : Nat) :
    (cancel s q).peers = s.peers ∧ (cancel s q).queue = s.queue ∧
    ((cancel s q).wantlist = s.wantlist ∨ ∃ k, (cancel s q).wantlist = (s.wantlist.remove k).1) := by
  unfold cancel
  split
  · dsimp only
    split
    · exact ⟨rfl, rfl, .inl rfl⟩
    · split
      · exact ⟨rfl, rfl, .inr ⟨_, rfl⟩⟩
      · exact ⟨rfl, rfl, .inl rfl⟩
  · dsimp only
    split
    · exact ⟨rfl, rfl, .inl rfl⟩
    · split
      · exact ⟨rfl, rfl, .inr ⟨_, rfl⟩⟩
      · exact ⟨rfl, rfl, .inl rfl⟩

theorem complete_fields (s : State) (n : Nat) (r : StoreRes) :
    ((complete s n r).getD s).peers = s.peers ∧ ((complete s n r).getD s).wantlist = s.wantlist ∧
    ((complete s n r).getD s).queue = s.queue := by
  unfold complete
  split <;> exact ⟨rfl, rfl, rfl⟩

theorem remove_rev (w : Wantlist) (k : Nat) :
    (w.remove k).1 = w ∨ w.revision < (w.remove k).1.revision := by
  by_cases hk : k ∈ w.cids
  · right; rw [remove_revision]; simp [hk]
  · left; exact remove_of_not_mem w k hk

theorem ginv_sending (x : GSys) (h : GInv x) (p src : Nat) (st : Sending) :
    GInv (gstep x (.sending p src st)).1 := by
  by_cases ht : tracksOther x.sys.s p src = true
  · -- the report comes from a connection that was given up: ignored
    have hs : (step x.sys (.sending p src st)).1.s = x.sys.s := by
      show sendingChanged x.sys.s p src st = x.sys.s
      unfold sendingChanged; rw [if_pos ht]
    exact ginv_quiet x h _ (fun _ => rfl) (by rw [hs]) (fun _ hj => by rw [hs] at hj; exact hj)
      (.inl (by rw [hs])) (by rw [hs]; exact h.queue_nosend)
  have hsc : sendingChanged x.sys.s p src st = setSending x.sys.s p st := by
    unfold sendingChanged; rw [if_neg ht]
  rw [gstep_eq]
  apply ginv_of_tab
  · intro q ps' hps'
    show PeerInv (sendingChanged x.sys.s p src st) ps' (base x q) ∧ _
    change (sendingChanged x.sys.s p src st).peers[q]? = some ps' at hps'
    rw [hsc] at hps' ⊢
    unfold setSending at hps' ⊢
    cases hp : x.sys.s.peers[p]? with
    | none =>
      simp only [hp] at hps' ⊢
      exact ⟨peerInv_carry h (fun _ hj => hj) (.inl rfl) (.inl ⟨ps', hps', rfl⟩),
        h.conns_nonempty q ps' hps'⟩
    | some ps =>
      simp only [hp, kmap_get_insert] at hps' ⊢
      by_cases hq : q = p
      · subst hq
        simp only [if_true, Option.some.injEq] at hps'
        subst hps'
        exact ⟨peerInv_carry h (fun _ hj => hj) (.inl rfl) (.inl ⟨ps, hp, rfl⟩),
          h.conns_nonempty q ps hp⟩
      · simp only [hq, if_false] at hps'
        exact ⟨peerInv_carry h (fun _ hj => hj) (.inl rfl) (.inl ⟨ps', hps', rfl⟩),
          h.conns_nonempty q ps' hps'⟩
  · show (sendingChanged x.sys.s p src st).wantlist.revision = 0 → ∀ k, k ∉ (sendingChanged x.sys.s p src st).wantlist.cids
    have : (sendingChanged x.sys.s p src st).wantlist = x.sys.s.wantlist := by
      rw [hsc]; unfold setSending; split <;> rfl
    rw [this]; exact h.rev_zero
  · show ∀ p' c' m, Out.send p' c' m ∉ (sendingChanged x.sys.s p src st).queue
    have : (sendingChanged x.sys.s p src st).queue = x.sys.s.queue := by
      rw [hsc]; unfold setSending; split <;> rfl
    rw [this]; exact h.queue_nosend

theorem ginv_msg (x : GSys) (h : GInv x) (p : Nat) (hs ds : List Nat) (bs : List (Nat × Nat)) :
    GInv (gstep x (.msg p hs ds bs)).1 := by
  cases hp : x.sys.s.peers[p]? with
  | none =>
    have hinc : incoming x.sys.s p hs ds bs = x.sys.s := incoming_none _ _ _ _ _ hp
    have hnm : p ∉ x.sys.s.peers := (kmap_not_mem_iff _ _).2 hp
    apply ginv_quiet x h
    · intro q
      have : ¬ (p = q ∧ q ∈ x.sys.s.peers) := fun ⟨e, hm⟩ => hnm (e ▸ hm)
      simp only [gupd, this, if_false]
    · show (incoming x.sys.s p hs ds bs).peers = _; rw [hinc]
    · show ∀ j, j ∈ (incoming x.sys.s p hs ds bs).wantlist.cids → _; rw [hinc]; exact fun _ hj => hj
    · left; show (incoming x.sys.s p hs ds bs).wantlist = _; rw [hinc]
    · show ∀ p' c m, Out.send p' c m ∉ (incoming x.sys.s p hs ds bs).queue; rw [hinc]; exact h.queue_nosend
  | some ps =>
    obtain ⟨hc, hrev, hoth, ⟨ps1, hps1, hconn, hsync, hforce, hreq⟩, hqueue⟩ :=
      incoming_rel x.sys.s p hs ds bs ps hp
    have hpm : p ∈ x.sys.s.peers := (kmap_mem_iff _ _).2 ⟨ps, hp⟩
    rw [gstep_eq]
    apply ginv_of_tab
    · intro q ps' hps'
      change (incoming x.sys.s p hs ds bs).peers[q]? = some ps' at hps'
      show PeerInv (incoming x.sys.s p hs ds bs) ps' (gupd x (.msg p hs ds bs) q) ∧ _
      by_cases hq : q = p
      · subst hq
        rw [hps1] at hps'
        cases hps'
        refine ⟨?_, by rw [hconn]; exact h.conns_nonempty q ps hp⟩
        have hg : gupd x (.msg q hs ds bs) q =
            (base x q).recordMsg (fun k => decide (k ∈ ps.wl.req))
              (fun k => decide (k ∈ x.sys.s.wantlist.cids)) hs ds bs := by
          simp only [gupd, hpm, and_self, if_true, hp, Option.map_some, Option.getD_some]
        rw [hg]
        exact peerInv_msg (base_of_some h hp).2 hs ds bs hc hrev hsync hforce hreq
      · rw [hoth q hq] at hps'
        have hg : gupd x (.msg p hs ds bs) q = base x q := by
          have : ¬ (p = q) := fun e => hq e.symm
          simp [gupd, this]
        rw [hg]
        exact ⟨peerInv_carry h (fun j hj => ((hc j).1 hj).1) hrev (.inl ⟨ps', hps', rfl⟩),
          h.conns_nonempty q ps' hps'⟩
    · exact rev_zero_carry h hrev
    · intro p' c m hm
      exact h.queue_nosend p' c m (hqueue p' c m hm)

theorem ginv_drain (x : GSys) (h : GInv x) (pref : Nat → Option Nat) :
    GInv (gstep x (.drain pref)).1 := by
  have hmid : MidInv x.ghost x.sys.s := ⟨h.peers, h.rev_zero, h.conns_nonempty⟩
  obtain ⟨d1, d2, d3, d4, d5, d6⟩ := drain_spec x.sys.s x.sys.now x.sys.seq pref h.queue_nosend
  have hmid2 := (afterTasks_spec x.sys.s x.sys.now x.sys.seq).1 _ hmid
  rw [gstep_eq]
  apply ginv_of_tab
  · intro p ps3 hps3
    change (drain x.sys.s x.sys.now x.sys.seq pref).1.peers[p]? = some ps3 at hps3
    show PeerInv (drain x.sys.s x.sys.now x.sys.seq pref).1 ps3 (gupd x (.drain pref) p) ∧ _
    rw [d4 p] at hps3
    unfold nextPeer at hps3
    cases hps2 : (afterTasks x.sys.s x.sys.now x.sys.seq).1.peers[p]? with
    | none => simp [hps2] at hps3
    | some ps2 =>
      simp only [hps2, Option.bind_some] at hps3
      obtain ⟨g, hg, hi⟩ := hmid2.peers p ps2 hps2
      have hpm : p ∈ x.sys.s.peers :=
        (afterTasks_mem _ _ _ p).1 ((kmap_mem_iff _ _).2 ⟨ps2, hps2⟩)
      have hbase : base x p = g := by simp [base, hpm, hg]
      have hu : updatePeer (afterTasks x.sys.s x.sys.now x.sys.seq).1.wantlist x.sys.now ps2 (pref p) =
          (some ps3, (updatePeer (afterTasks x.sys.s x.sys.now x.sys.seq).1.wantlist x.sys.now ps2 (pref p)).2) := by
        rw [← hps3]
      have := updatePeer_inv hi (hmid2.conns_nonempty p ps2 hps2) d1 hu
      refine ⟨?_, this.2⟩
      have hgu : gupd x (.drain pref) p = afterSend g (afterTasks x.sys.s x.sys.now x.sys.seq).1.wantlist.cids
          (updatePeer (afterTasks x.sys.s x.sys.now x.sys.seq).1.wantlist x.sys.now ps2 (pref p)).2 := by
        show (sendsTo (drain x.sys.s x.sys.now x.sys.seq pref).2.2 p).foldl
          (fun g m => g.recordSend (drain x.sys.s x.sys.now x.sys.seq pref).1.wantlist.cids m) (base x p) = _
        rw [d5 p, d1, hbase]
        unfold sentTo
        simp only [hps2, Option.bind_some]
        rcases (updatePeer (afterTasks x.sys.s x.sys.now x.sys.seq).1.wantlist x.sys.now ps2 (pref p)).2
          with _ | ⟨c, m⟩ <;> rfl
      rw [hgu]
      exact this.1
  · show (drain x.sys.s x.sys.now x.sys.seq pref).1.wantlist.revision = 0 →
      ∀ k, k ∉ (drain x.sys.s x.sys.now x.sys.seq pref).1.wantlist.cids
    rw [d1]; exact hmid2.rev_zero
  · show ∀ p c m, Out.send p c m ∉ (drain x.sys.s x.sys.now x.sys.seq pref).1.queue
    rw [d2]; simp

theorem ginv_step' (x : GSys) (op : Op) (h : GInv x) : GInv (gstep x op).1 := by
  cases op with
  | connect p c => exact ginv_connect x h p c
  | closed p c => exact ginv_closed x h p c
  | get k fits =>
    obtain ⟨g1, g2, g3⟩ := get_fields x.sys.s k fits
    exact ginv_quiet x h _ (fun _ => rfl) g1 (fun _ hj => g2 ▸ hj) (.inl g2)
      (fun p c m hm => h.queue_nosend p c m (g3 p c m hm))
  | cancel q =>
    obtain ⟨g1, g2, g3⟩ := cancel_fields x.sys.s q
    refine ginv_quiet x h _ (fun _ => rfl) g1 ?_ ?_ ?_
    · show ∀ j, j ∈ (cancel x.sys.s q).wantlist.cids → _
      rcases g3 with e | ⟨k, e⟩
      · rw [e]; exact fun _ hj => hj
      · rw [e]; exact fun j hj => ((remove_cids _ _ _).1 hj).2
    · show (cancel x.sys.s q).wantlist = _ ∨ _ < (cancel x.sys.s q).wantlist.revision
      rcases g3 with e | ⟨k, e⟩
      · exact .inl e
      · rw [e]; exact remove_rev _ _
    · show ∀ p c m, Out.send p c m ∉ (cancel x.sys.s q).queue
      rw [g2]; exact h.queue_nosend
  | complete n r =>
    obtain ⟨g1, g2, g3⟩ := complete_fields x.sys.s n r
    refine ginv_quiet x h _ (fun _ => rfl) g1 (fun _ hj => g2 ▸ hj) (.inl g2) ?_
    show ∀ p c m, Out.send p c m ∉ ((complete x.sys.s n r).getD x.sys.s).queue
    rw [g3]; exact h.queue_nosend
  | msg p hs ds bs => exact ginv_msg x h p hs ds bs
  | sending p src st => exact ginv_sending x h p src st
  | tick ms => exact ginv_quiet x h _ (fun _ => rfl) rfl (fun _ hj => hj) (.inl rfl) h.queue_nosend
  | drain pref => exact ginv_drain x h pref
  | takeNewBlocks =>
    exact ginv_quiet x h _ (fun _ => rfl) rfl (fun _ hj => hj) (.inl rfl) h.queue_nosend

end Beetswap.Proofs.ClientView
