import Beetswap.Proofs.NetProgDefs
import Beetswap.Proofs.NetProgBClient
import Beetswap.Proofs.NetProgBMeas
/-!
Progress, serving side: the invariant of `b`'s own client half, and the effect of the actions
that touch `b` (`drainB`, `lookupB`, `deliverAB`) on the lexicographic measure `meas`.

Helpers (namespace `PB`): `NetProgBClient.lean` (the client half of `b` in a drain),
`NetProgBMeas.lean` (weights of the lookup tasks of `b` along polls / drains / completions).
-/
namespace Beetswap.Proofs.Net
open Std Beetswap.Net Beetswap.Wl
open Beetswap.Client (PeerSt Sending StoreRes Out TaskSt TaskKind Sys sendFullInterval)

namespace PB

/-- the components of the measure that only read `a`, its calls and the wantlists in flight -/
theorem meas_a {s s' : State} (ha : s'.a = s.a) (hc : s'.callsA = s.callsA)
    (hw : s'.wireAB = s.wireAB) (hp : s'.putsA = s.putsA) :
    (meas s').c1 = (meas s).c1 ∧ (meas s').c2 = (meas s).c2 ∧ (meas s').c3 = (meas s).c3 ∧
    (meas s').c4 = (meas s).c4 ∧ (meas s').c7 = (meas s).c7 ∧
    (meas s').c8 + s.b.server.runq.length + bReady s =
      (meas s).c8 + s'.b.server.runq.length + bReady s' := by
  have hap : apeer s' = apeer s := by unfold apeer; rw [ha]
  refine ⟨?_, ?_, ?_, ?_, ?_, ?_⟩
  · simp only [meas, hap, ha, hc, hw, hp]
  · simp only [meas, hap, ha, hc, hw, hp]
  · simp only [meas, hap, ha, hc, hw, hp]
  · simp only [meas, hap, ha, hc, hw, hp]
  · simp only [meas, hap, ha, hc, hw, hp]
  · simp only [meas, hap, ha, hc, hw, hp]
    omega

theorem meas_c5 (s : State) : (meas s).c5 = tw s.b.server.tasks + s.callsB.length := rfl
theorem meas_c6 (s : State) : (meas s).c6 = s.wireBA.length := rfl

theorem length_filter_lt {α : Type} (p : α → Bool) (l : List α) (x : α) (hx : x ∈ l)
    (hp : p x = false) : (l.filter p).length < l.length := by
  induction l with
  | nil => cases hx
  | cons a as ih =>
    rw [List.filter_cons]
    rcases List.mem_cons.1 hx with e | hx'
    · subst e
      rw [hp]
      have := List.length_filter_le p as
      simp only [Bool.false_eq_true, if_false, List.length_cons]
      omega
    · have := ih hx'
      split
      · simp only [List.length_cons]; omega
      · simp only [List.length_cons]; omega

theorem init_b_client (store : KMap Nat) : (init store).b.client = Client.connect {} 0 1 := rfl

theorem init_peers (p : Nat) :
    (Client.connect {} 0 1).peers[p]? =
      if p = 0 then some { conns := (∅ : KSet).insert 1 } else none := by
  unfold Client.connect
  dsimp only
  rw [Server.kmap_get_insert]
  split
  · simp
  · simp

theorem sendingChanged_fields (c : Client.State) (p src : Nat) (st : Sending) :
    (Client.sendingChanged c p src st).tasks = c.tasks ∧
    (Client.sendingChanged c p src st).wantlist = c.wantlist ∧
    (Client.sendingChanged c p src st).deadline = c.deadline ∧
    (Client.sendingChanged c p src st).runq = c.runq ∧
    (Client.sendingChanged c p src st).queue = c.queue ∧
    (((Client.sendingChanged c p src st).peers[p]?).getD {}).sendFull = ((c.peers[p]?).getD {}).sendFull ∧
    (((Client.sendingChanged c p src st).peers[p]?).getD {}).wl = ((c.peers[p]?).getD {}).wl :=
  ClientSending.sendingChanged_fields c p src st

end PB

/-! ### `b`'s own client half -/

theorem bcinv_init (store : KMap Nat) : BCInv (init store) := by
  refine ⟨rfl, by rw [PB.init_b_client]; decide, ?_, ?_⟩
  · intro p hp
    rw [PB.init_b_client, PB.init_peers, if_neg hp]
  · intro p ps h
    rw [PB.init_b_client, PB.init_peers] at h
    split at h
    · cases h
      exact ⟨by simp, Or.inl ⟨rfl, rfl⟩⟩
    · cases h

theorem bcinv_step (s : State) (act : Act) (hb : BInv s) (h : BCInv s) : BCInv (step s act) := by
  by_cases ht : act.touchesB = false
  · obtain ⟨f1, _, _⟩ := step_b_frame s act ht
    exact PB.bcinv_frame h (by rw [f1]) (by rw [f1])
  · cases act with
    | drainB => exact PB.bcinv_drainB s hb h
    | lookupB n =>
      obtain ⟨e1, e2⟩ := PB.lookupB_client s hb n
      exact PB.bcinv_frame h e1 e2
    | deliverAB =>
      obtain ⟨e1, e2⟩ := PB.deliverAB_client s
      exact PB.bcinv_frame h e1 e2
    | _ => exact absurd rfl ht

/-- if `b` is not quiescent on its own account, it is busy in the sense of the measure -/
theorem busyB_of_out (s : State) (hb : BInv s) (hc : BCInv s)
    (h : s.b.server.runq ≠ [] ∨ (Node.step s.b (.drain [] [])).2.1 ≠ []) : BusyB s := by
  by_cases hr : s.b.server.runq = []
  · rcases h with h | h
    · exact absurd hr h
    · right
      obtain ⟨_, _, d3⟩ := PB.client_drain_b s.b.client s.b.seq (fun _ => none) hb.cl hc.deadline
      obtain ⟨c1, c2, _⟩ := client_drain_triv s.b.client s.b.now s.b.seq (fun _ => none) hb.cl
      rw [node_drain_eq] at h
      dsimp only at h
      have hnb : (Client.takeNewBlocks
          (Client.drain s.b.client s.b.now s.b.seq (fun _ => none)).1).2 = [] := c1.2.2.2
      rw [hnb] at h
      simp only [List.isEmpty_nil, if_true] at h
      rw [PB.server_drain_idle _ _ _ hr hb.outq_nil hb.sinv.evq_nil, List.append_nil,
        hc.now0] at h
      cases ho : (Client.drain s.b.client 0 s.b.seq (fun _ => none)).2.2 with
      | nil => exact absurd ho h
      | cons o os =>
        obtain ⟨p, ps, cm, hp, hu⟩ := d3 o (by rw [ho]; exact List.mem_cons_self ..)
        have hp0 : p = 0 := by
          by_cases e : p = 0
          · exact e
          · rw [hc.only0 p e] at hp; cases hp
        subst hp0
        unfold bReady
        rw [hp]
        dsimp only
        rcases PB.updatePeer_ok s.b.client.wantlist ps none (hc.peers 0 ps hp) with
          ⟨hrd, _⟩ | ⟨_, h1⟩
        · rw [if_pos hrd]
        · rw [h1] at hu; cases hu
  · exact Or.inl hr

/-- `b` stays busy while only `a` acts … -/
theorem busyB_frame (s : State) (act : Act) (h : act.touchesB = false) (hB : BusyB s) :
    BusyB (step s act) := by
  obtain ⟨f1, _, _⟩ := step_b_frame s act h
  unfold BusyB bReady at *
  rw [f1]
  exact hB

/-- … and when a wantlist arrives -/
theorem busyB_deliverAB (s : State) (hb : BInv s) (hB : BusyB s) : BusyB (step s .deliverAB) := by
  cases hw : s.wireAB with
  | nil => rw [deliverAB_nil s hw]; exact hB
  | cons m rest =>
    obtain ⟨cur, hc⟩ := hb.wl0
    left
    rw [deliverAB_eq s m rest hw]
    show (Server.incoming s.b.server 0 m.full (entriesOf m)).runq ≠ []
    rw [(incoming_fields s.b.server 0 m.full (entriesOf m) cur hc).2.2.2.2.1]
    simp

/-! ### The measure under the actions of `b` -/

theorem meas_drainB (s : State) (hb : BInv s) (hc : BCInv s) :
    (meas (step s .drainB)).le (meas s) ∧ (BusyB s → (meas (step s .drainB)).lt (meas s)) := by
  obtain ⟨a1, a2, a3, a4, _, _⟩ := drainB_frame s
  obtain ⟨m1, m2, m3, m4, m7, m8⟩ := PB.meas_a a1 a3 a2 a4
  obtain ⟨e1, _, _, e4, e5, _⟩ := drainB_fields s hb.cl
  obtain ⟨w0, w1, w2⟩ := PB.server_drain_wt hb.sinv hb.minv hb.outq_nil
  obtain ⟨r1, r2⟩ := PB.bReady_drainB s hb hc
  have h5 : (meas (step s .drainB)).c5 =
      PB.tw (Server.drain s.b.server s.b.seq (fun _ => none)).1.tasks + s.callsB.length +
        ((Server.drain s.b.server s.b.seq (fun _ => none)).2.2.filterMap outCalls).length := by
    rw [PB.meas_c5, e1, e4, List.length_append]; omega
  have h6 : (meas (step s .drainB)).c6 = (meas s).c6 +
      ((Server.drain s.b.server s.b.seq (fun _ => none)).2.2.filterMap outBlocks).length := by
    rw [PB.meas_c6, PB.meas_c6, e5, List.length_append]
  have h5' := PB.meas_c5 s
  have hrq : (step s .drainB).b.server.runq.length = 0 := by rw [e1, w0]; rfl
  have h56 : (meas (step s .drainB)).c6 = (meas s).c6 ∨
      (meas (step s .drainB)).c5 < (meas s).c5 := by
    rcases w2 with w2 | w2
    · left; rw [h6, w2]; rfl
    · right; omega
  refine ⟨?_, ?_⟩
  · unfold Meas.le Meas.lt
    omega
  · intro hB
    have h8 : (meas (step s .drainB)).c8 < (meas s).c8 := by
      rcases hB with hB | hB
      · have : 0 < s.b.server.runq.length := List.length_pos_iff.2 hB
        omega
      · have := r2 hB
        omega
    unfold Meas.lt
    omega

theorem meas_lookupB (s : State) (hb : BInv s) (n : Nat) :
    (meas (step s (.lookupB n))).le (meas s) ∧
    (n ∈ s.callsB.map (·.1) → (meas (step s (.lookupB n))).lt (meas s)) := by
  obtain ⟨a1, a2, _, a4, a5, _, _⟩ := lookupB_frame s n
  obtain ⟨m1, m2, m3, m4, _, _⟩ := PB.meas_a a1 a4 a2 a5
  cases hf : s.callsB.find? (·.1 == n) with
  | none =>
    have e : step s (.lookupB n) = s := by rw [lookupB_eq, hf]
    rw [e]
    refine ⟨Meas.le_refl _, ?_⟩
    intro hn
    exfalso
    rw [List.mem_map] at hn
    obtain ⟨c, hc, rfl⟩ := hn
    have := List.find?_eq_none.1 hf c hc
    simp at this
  | some c =>
    obtain ⟨n', k⟩ := c
    have hn : n' = n := by simpa using List.find?_some hf
    subst hn
    have hc : (n', k) ∈ s.callsB := List.mem_of_find?_eq_some hf
    have h5 : (meas (step s (.lookupB n'))).c5 < (meas s).c5 := by
      rw [PB.meas_c5, PB.meas_c5, lookupB_eq, hf]
      dsimp only
      have hl := PB.length_filter_lt (fun c : Nat × Nat => c.1 != n') s.callsB (n', k) hc (by simp)
      rw [node_complete _ _ _ hb.cl_tasks]
      cases hcm : Server.complete s.b.server n' (lookupRes s.storeB k) with
      | none => dsimp only; omega
      | some sv' =>
        have := PB.server_complete_wt _ _ _ _ hcm
        dsimp only
        omega
    have hlt : (meas (step s (.lookupB n'))).lt (meas s) := by
      unfold Meas.lt; omega
    exact ⟨Or.inl hlt, fun _ => hlt⟩

theorem meas_deliverAB (s : State) (hb : BInv s) :
    (meas (step s .deliverAB)).le (meas s) ∧
    (s.wireAB ≠ [] → (meas (step s .deliverAB)).lt (meas s)) := by
  have _ := hb
  cases hw : s.wireAB with
  | nil =>
    rw [deliverAB_nil s hw]
    exact ⟨Meas.le_refl _, fun h => absurd rfl h⟩
  | cons m rest =>
    obtain ⟨f1, _, f3, _, _, _, _, f8⟩ := deliverAB_frame s m rest hw
    obtain ⟨g1, g2, g3, _, _, g6, g7⟩ := PB.sendingChanged_fields s.a.client 1 1 .ready
    have ha : (step s .deliverAB).a =
        { s.a with client := Client.sendingChanged s.a.client 1 1 .ready } := f8
    have hlt : (meas (step s .deliverAB)).lt (meas s) := by
      have c1 : (meas (step s .deliverAB)).c1 = (meas s).c1 := by
        simp only [meas, ha, f3, g1]
      have c2 : (meas (step s .deliverAB)).c2 = (meas s).c2 := by
        simp only [meas, apeer, ha, g3, g6]
        rfl
      have c3 : (meas (step s .deliverAB)).c3 = (meas s).c3 := by
        simp only [meas, apeer, ha, g2, g7]
        rfl
      have c4 : (meas (step s .deliverAB)).c4 + 1 = (meas s).c4 := by
        simp only [meas, f1, hw, List.length_cons]
      unfold Meas.lt
      omega
    exact ⟨Or.inl hlt, fun _ => hlt⟩

end Beetswap.Proofs.Net
