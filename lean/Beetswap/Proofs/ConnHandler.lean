import Beetswap.Model.ConnHandler
import Beetswap.Proofs.ServerSink
import Beetswap.Proofs.Inbound
import Beetswap.Proofs.Handler
/-!
Proofs about `Model/ConnHandler` (lib.rs `ConnHandler`): routing between the client half, the
server half and the inbound substreams of one connection. Used by `Props/C14`, `Props/C16`, `Props/C06`.
-/
namespace Beetswap.Proofs.ConnHandler
open Beetswap Beetswap.Proto Beetswap.ConnHandler

/-! ### Projections: what each half sees of a run of the whole handler -/

/-- the inputs the client half receives during a run of the connection handler: its own events,
and a `poll` whenever no inbound substream had a message to forward in that call -/
def clientIns : CH → List In → List ClientHandler.In
  | _, [] => []
  | h, i :: is =>
    let h' := (step h i).1
    match i with
    | .sendWantlist w => .sendWantlist w :: clientIns h' is
    | .outbound .client sid => .setStream sid :: clientIns h' is
    | .dialError .client => .allocFailed :: clientIns h' is
    | .pollClose => .pollClose :: clientIns h' is
    | .poll env =>
      match (Inbound.selectPoll h.streams env.inbound env.order).2 with
      | some _ => clientIns h' is
      | none => .poll env.client :: clientIns h' is
    | _ => clientIns h' is

/-- the inputs the server half receives: its own events, and a `poll` whenever neither an inbound
substream nor the client half was ready in that call -/
def serverIns : CH → List In → List ServerSink.In
  | _, [] => []
  | h, i :: is =>
    let h' := (step h i).1
    match i with
    | .queueBlocks bs => .queue bs :: serverIns h' is
    | .outbound .server sid => .setStream sid :: serverIns h' is
    | .dialError .server => .allocFailed :: serverIns h' is
    | .poll env =>
      match (Inbound.selectPoll h.streams env.inbound env.order).2 with
      | some _ => serverIns h' is
      | none =>
        match (ClientHandler.poll ClientHandler.pollFuel h.client env.client []).2.1 with
        | .pending => .poll env.server :: serverIns h' is
        | _ => serverIns h' is
    | _ => serverIns h' is

def clientOutsOf : List Out → List ClientHandler.Out
  | [] => []
  | .client o :: os => o :: clientOutsOf os
  | .ev (.report r) :: os => .report r :: clientOutsOf os
  | .ev (.openSubstream .client) :: os => .openSubstream :: clientOutsOf os
  | _ :: os => clientOutsOf os

def serverOutsOf : List Out → List ServerSink.Out
  | [] => []
  | .server o :: os => o :: serverOutsOf os
  | .ev (.openSubstream .server) :: os => .openSubstream :: serverOutsOf os
  | _ :: os => serverOutsOf os

/-! ### Helpers: lists of effects -/

theorem clientOutsOf_append (a b : List Out) :
    clientOutsOf (a ++ b) = clientOutsOf a ++ clientOutsOf b := by
  induction a with
  | nil => rfl
  | cons o os ih =>
    match o with
    | .client o => simp [clientOutsOf, ih]
    | .server o => simp [clientOutsOf, ih]
    | .ev (.incoming _ _) => simp [clientOutsOf, ih]
    | .ev (.report _) => simp [clientOutsOf, ih]
    | .ev (.openSubstream .client) => simp [clientOutsOf, ih]
    | .ev (.openSubstream .server) => simp [clientOutsOf, ih]

theorem serverOutsOf_append (a b : List Out) :
    serverOutsOf (a ++ b) = serverOutsOf a ++ serverOutsOf b := by
  induction a with
  | nil => rfl
  | cons o os ih =>
    match o with
    | .client o => simp [serverOutsOf, ih]
    | .server o => simp [serverOutsOf, ih]
    | .ev (.incoming _ _) => simp [serverOutsOf, ih]
    | .ev (.report _) => simp [serverOutsOf, ih]
    | .ev (.openSubstream .client) => simp [serverOutsOf, ih]
    | .ev (.openSubstream .server) => simp [serverOutsOf, ih]

/-- an effect of the client half on its stream (neither a report nor a substream request) -/
def isData : ClientHandler.Out → Bool
  | .report _ => false
  | .openSubstream => false
  | _ => true

/-- an effect of the server half other than a substream request -/
def isSData : ServerSink.Out → Bool
  | .openSubstream => false
  | _ => true

theorem clientOutsOf_clientOuts (os : List ClientHandler.Out) (h : ∀ o ∈ os, isData o = true) :
    clientOutsOf (clientOuts os) = os := by
  induction os with
  | nil => rfl
  | cons o os ih =>
    have ho := h o List.mem_cons_self
    have ih' := ih (fun o' h' => h o' (List.mem_cons_of_mem _ h'))
    simp only [clientOuts] at ih' ⊢
    cases o <;> simp [isData] at ho <;> simp [clientOutsOf, ih']

theorem clientOutsOf_serverOuts (os : List ServerSink.Out) : clientOutsOf (serverOuts os) = [] := by
  induction os with
  | nil => rfl
  | cons o os ih =>
    simp only [serverOuts] at ih ⊢
    cases o <;> simp [clientOutsOf, ih]

theorem serverOutsOf_clientOuts (os : List ClientHandler.Out) : serverOutsOf (clientOuts os) = [] := by
  induction os with
  | nil => rfl
  | cons o os ih =>
    simp only [clientOuts] at ih ⊢
    cases o <;> simp [serverOutsOf, ih]

theorem serverOutsOf_serverOuts (os : List ServerSink.Out) (h : ∀ o ∈ os, isSData o = true) :
    serverOutsOf (serverOuts os) = os := by
  induction os with
  | nil => rfl
  | cons o os ih =>
    have ho := h o List.mem_cons_self
    have ih' := ih (fun o' h' => h o' (List.mem_cons_of_mem _ h'))
    simp only [serverOuts] at ih' ⊢
    cases o <;> simp [isSData] at ho <;> simp [serverOutsOf, ih']

theorem mem_clientOuts (x : Out) (os : List ClientHandler.Out) (h : x ∈ clientOuts os) :
    ∃ o, x = .client o := by
  simp only [clientOuts, List.mem_filterMap] at h
  obtain ⟨o, _, ho⟩ := h
  cases o <;> simp at ho <;> exact ⟨_, ho.symm⟩

theorem mem_serverOuts (x : Out) (os : List ServerSink.Out) (h : x ∈ serverOuts os) :
    ∃ o, x = .server o := by
  simp only [serverOuts, List.mem_filterMap] at h
  obtain ⟨o, _, ho⟩ := h
  cases o <;> simp at ho <;> exact ⟨_, ho.symm⟩

/-! ### Helpers: the effects accumulated by the two loops -/

theorem dropSink_quiet (h : ClientHandler.H) : ∀ o ∈ (ClientHandler.dropSink h).2, isData o = true := by
  unfold ClientHandler.dropSink
  split <;> simp [isData]

theorem dropSink_quiet' {h h' : ClientHandler.H} {os : List ClientHandler.Out}
    (hd : ClientHandler.dropSink h = (h', os)) : ∀ o ∈ os, isData o = true := by
  have := dropSink_quiet h
  rw [hd] at this
  exact this

theorem quiet_append {acc os : List ClientHandler.Out} (ha : ∀ o ∈ acc, isData o = true)
    (hb : ∀ o ∈ os, isData o = true) : ∀ o ∈ acc ++ os, isData o = true := by
  intro o ho
  rcases List.mem_append.mp ho with ho | ho
  · exact ha o ho
  · exact hb o ho

theorem cpoll_quiet (fuel : Nat) (h : ClientHandler.H) (env : ClientHandler.Env)
    (acc : List ClientHandler.Out) :
    (∀ o ∈ acc, isData o = true) →
    ∀ o ∈ (ClientHandler.poll fuel h env acc).2.2, isData o = true := by
  fun_induction ClientHandler.poll fuel h env acc
  case case4 hd _ ih =>
    intro ha
    exact ih (quiet_append ha (dropSink_quiet' hd))
  case case9 hd ih =>
    intro ha
    exact ih (quiet_append ha (dropSink_quiet' hd))
  case case12 hd ih =>
    intro ha
    exact ih (quiet_append ha (dropSink_quiet' hd))
  case case14 hd ih =>
    intro ha
    exact ih (quiet_append ha (dropSink_quiet' hd))
  case case10 ih =>
    intro ha
    exact ih (quiet_append ha (by simp [isData]))
  case case13 ih =>
    intro ha
    exact ih (quiet_append ha (by simp [isData]))
  all_goals intro ha; exact ha

theorem beginClose_quiet (h : ClientHandler.H) :
    ∀ o ∈ (ClientHandler.beginClose h).2, isData o = true := by
  unfold ClientHandler.beginClose
  split
  · simp
  · exact dropSink_quiet _

theorem squiet_append {acc os : List ServerSink.Out} (ha : ∀ o ∈ acc, isSData o = true)
    (hb : ∀ o ∈ os, isSData o = true) : ∀ o ∈ acc ++ os, isSData o = true := by
  intro o ho
  rcases List.mem_append.mp ho with ho | ho
  · exact ha o ho
  · exact hb o ho

theorem spoll_quiet (fuel : Nat) (h : ServerSink.H) (env : List ServerSink.Ans)
    (acc : List ServerSink.Out) :
    (∀ o ∈ acc, isSData o = true) →
    ∀ o ∈ (ServerSink.pollLoop fuel h env acc).2.2, isSData o = true := by
  fun_induction ServerSink.pollLoop fuel h env acc
  case case4 => intro ha; exact squiet_append ha (by simp [isSData])
  case case9 ih => intro ha; exact ih (squiet_append ha (by simp [isSData]))
  case case10 ih => intro ha; exact ih (squiet_append ha (by simp [isSData]))
  case case11 ih => intro ha; exact ih (squiet_append ha (by simp [isSData]))
  all_goals intro ha; exact ha

/-! ### Helpers: `poll` of the connection handler, by cases -/

theorem poll_some (h : CH) (env : Env) (ss : Inbound.Streams) (sid m : Nat)
    (hsp : Inbound.selectPoll h.streams env.inbound env.order = (ss, some (sid, m))) :
    poll h env = ({ h with streams := ss }, [.ev (.incoming sid m)]) := by
  unfold poll; rw [hsp]

theorem poll_none (h : CH) (env : Env) (ss : Inbound.Streams)
    (hsp : Inbound.selectPoll h.streams env.inbound env.order = (ss, none)) :
    poll h env =
      match (ClientHandler.poll ClientHandler.pollFuel h.client env.client []).2.1 with
      | .event rep =>
        ({ client := (ClientHandler.poll ClientHandler.pollFuel h.client env.client []).1,
           server := h.server, streams := ss },
          clientOuts (ClientHandler.poll ClientHandler.pollFuel h.client env.client []).2.2
            ++ [.ev (.report rep)])
      | .openSubstream =>
        ({ client := (ClientHandler.poll ClientHandler.pollFuel h.client env.client []).1,
           server := h.server, streams := ss },
          clientOuts (ClientHandler.poll ClientHandler.pollFuel h.client env.client []).2.2
            ++ [.ev (.openSubstream .client)])
      | .pending =>
        ({ client := (ClientHandler.poll ClientHandler.pollFuel h.client env.client []).1,
           server := (ServerSink.poll h.server env.server).1, streams := ss },
          clientOuts (ClientHandler.poll ClientHandler.pollFuel h.client env.client []).2.2
            ++ serverOuts (ServerSink.poll h.server env.server).2.2
            ++ (match (ServerSink.poll h.server env.server).2.1 with
                | .openSubstream => [.ev (.openSubstream .server)]
                | .pending => [])) := by
  unfold poll; rw [hsp]
  simp only []
  generalize ClientHandler.poll ClientHandler.pollFuel h.client env.client [] = cp
  obtain ⟨c, r, co⟩ := cp
  cases r
  · rfl
  · rfl
  · generalize ServerSink.poll h.server env.server = sp
    obtain ⟨s, r, so⟩ := sp
    cases r <;> simp

/-! ### Helpers: runs -/

theorem run_cons (h : CH) (i : In) (is : List In) :
    run h (i :: is) = ((run (step h i).1 is).1, (step h i).2 ++ (run (step h i).1 is).2) := rfl

theorem crun_cons (c : ClientHandler.H) (i : ClientHandler.In) (is : List ClientHandler.In) :
    ClientHandler.run c (i :: is) = ((ClientHandler.run (ClientHandler.step c i).1 is).1,
      (ClientHandler.step c i).2 ++ (ClientHandler.run (ClientHandler.step c i).1 is).2) := rfl

theorem crun_append (c : ClientHandler.H) (a b : List ClientHandler.In) :
    ClientHandler.run c (a ++ b) = ((ClientHandler.run (ClientHandler.run c a).1 b).1,
      (ClientHandler.run c a).2 ++ (ClientHandler.run (ClientHandler.run c a).1 b).2) := by
  induction a generalizing c with
  | nil => simp [ClientHandler.run]
  | cons i is ih => simp only [List.cons_append, crun_cons, ih, List.append_assoc]

theorem srun_append (c : ServerSink.H) (a b : List ServerSink.In) :
    ServerSink.run c (a ++ b) = ((ServerSink.run (ServerSink.run c a).1 b).1,
      (ServerSink.run c a).2 ++ (ServerSink.run (ServerSink.run c a).1 b).2) := by
  induction a generalizing c with
  | nil => simp [ServerSink.run]
  | cons i is ih => simp only [List.cons_append, Proofs.ServerSink.run_cons, ih, List.append_assoc]

/-- what one input of the connection handler is for the client half -/
def clientIn1 (h : CH) : In → List ClientHandler.In
  | .sendWantlist w => [.sendWantlist w]
  | .outbound .client sid => [.setStream sid]
  | .dialError .client => [.allocFailed]
  | .pollClose => [.pollClose]
  | .poll env =>
    match (Inbound.selectPoll h.streams env.inbound env.order).2 with
    | some _ => []
    | none => [.poll env.client]
  | _ => []

/-- what one input of the connection handler is for the server half -/
def serverIn1 (h : CH) : In → List ServerSink.In
  | .queueBlocks bs => [.queue bs]
  | .outbound .server sid => [.setStream sid]
  | .dialError .server => [.allocFailed]
  | .poll env =>
    match (Inbound.selectPoll h.streams env.inbound env.order).2 with
    | some _ => []
    | none =>
      match (ClientHandler.poll ClientHandler.pollFuel h.client env.client []).2.1 with
      | .pending => [.poll env.server]
      | _ => []
  | _ => []

theorem clientIns_cons (h : CH) (i : In) (is : List In) :
    clientIns h (i :: is) = clientIn1 h i ++ clientIns (step h i).1 is := by
  cases i with
  | outbound r sid => cases r <;> rfl
  | dialError r => cases r <;> rfl
  | poll env =>
    simp only [clientIns, clientIn1]
    split <;> rfl
  | _ => rfl

theorem serverIns_cons (h : CH) (i : In) (is : List In) :
    serverIns h (i :: is) = serverIn1 h i ++ serverIns (step h i).1 is := by
  cases i with
  | outbound r sid => cases r <;> rfl
  | dialError r => cases r <;> rfl
  | poll env =>
    simp only [serverIns, serverIn1]
    split
    · rfl
    · split <;> rfl
  | _ => rfl

theorem client_step (h : CH) (i : In) :
    (step h i).1.client = (ClientHandler.run h.client (clientIn1 h i)).1 ∧
    clientOutsOf (step h i).2 = (ClientHandler.run h.client (clientIn1 h i)).2 := by
  cases i with
  | sendWantlist w => simp [step, clientIn1, ClientHandler.run, ClientHandler.step, clientOutsOf]
  | queueBlocks bs => simp [step, clientIn1, ClientHandler.run, clientOutsOf]
  | outbound r sid =>
    cases r <;> simp [step, clientIn1, ClientHandler.run, ClientHandler.step, clientOutsOf]
  | dialError r =>
    cases r <;> simp [step, clientIn1, ClientHandler.run, ClientHandler.step, clientOutsOf]
  | inbound sid => simp [step, clientIn1, ClientHandler.run, clientOutsOf]
  | pollClose =>
    have hq := beginClose_quiet h.client
    simp only [step, clientIn1, ClientHandler.run, ClientHandler.step, List.append_nil]
    generalize ClientHandler.beginClose h.client = bc at hq ⊢
    obtain ⟨c, o⟩ := bc
    simp only
    generalize ClientHandler.popClose c = pc
    obtain ⟨c', r⟩ := pc
    refine ⟨by first | rfl | trivial, ?_⟩
    simp only [clientOutsOf_append, clientOutsOf_clientOuts o hq]
    cases r <;> simp [clientOutsOf]
  | poll env =>
    generalize hsp : Inbound.selectPoll h.streams env.inbound env.order = sp
    obtain ⟨ss, o⟩ := sp
    cases o with
    | some x =>
      obtain ⟨sid, m⟩ := x
      simp [step, clientIn1, hsp, poll_some h env ss sid m hsp, ClientHandler.run, clientOutsOf]
    | none =>
      have hq := cpoll_quiet ClientHandler.pollFuel h.client env.client [] (by simp)
      simp only [step, clientIn1, hsp, poll_none h env ss hsp, ClientHandler.run,
        ClientHandler.step, List.append_nil]
      generalize ClientHandler.poll ClientHandler.pollFuel h.client env.client [] = cp at hq ⊢
      obtain ⟨c, r, co⟩ := cp
      cases r <;>
        simp [clientOutsOf_append, clientOutsOf_clientOuts co hq, clientOutsOf_serverOuts,
          clientOutsOf]
      split <;> rfl

theorem server_step (h : CH) (i : In) :
    (step h i).1.server = (ServerSink.run h.server (serverIn1 h i)).1 ∧
    serverOutsOf (step h i).2 = (ServerSink.run h.server (serverIn1 h i)).2 := by
  cases i with
  | sendWantlist w => simp [step, serverIn1, ServerSink.run, serverOutsOf]
  | queueBlocks bs => simp [step, serverIn1, ServerSink.run, ServerSink.step, serverOutsOf]
  | outbound r sid =>
    cases r <;> simp [step, serverIn1, ServerSink.run, ServerSink.step, serverOutsOf]
  | dialError r =>
    cases r <;> simp [step, serverIn1, ServerSink.run, ServerSink.step, serverOutsOf]
  | inbound sid => simp [step, serverIn1, ServerSink.run, serverOutsOf]
  | pollClose =>
    simp only [step, serverIn1, ServerSink.run]
    generalize ClientHandler.beginClose h.client = bc
    obtain ⟨c, o⟩ := bc
    simp only
    generalize ClientHandler.popClose c = pc
    obtain ⟨c', r⟩ := pc
    refine ⟨by first | rfl | trivial, ?_⟩
    simp only [serverOutsOf_append, serverOutsOf_clientOuts]
    cases r <;> simp [serverOutsOf]
  | poll env =>
    generalize hsp : Inbound.selectPoll h.streams env.inbound env.order = sp
    obtain ⟨ss, o⟩ := sp
    cases o with
    | some x =>
      obtain ⟨sid, m⟩ := x
      simp [step, serverIn1, hsp, poll_some h env ss sid m hsp, ServerSink.run, serverOutsOf]
    | none =>
      have hq := spoll_quiet (ServerSink.pollFuel h.server) h.server env.server [] (by simp)
      simp only [step, serverIn1, hsp, poll_none h env ss hsp]
      generalize ClientHandler.poll ClientHandler.pollFuel h.client env.client [] = cp
      obtain ⟨c, r, co⟩ := cp
      cases r with
      | event rep =>
        simp [serverOutsOf_append, serverOutsOf_clientOuts, serverOutsOf, ServerSink.run]
      | openSubstream =>
        simp [serverOutsOf_append, serverOutsOf_clientOuts, serverOutsOf, ServerSink.run]
      | pending =>
        simp only [ServerSink.run, Proofs.ServerSink.step_poll, ServerSink.poll, List.append_nil]
        refine ⟨by first | rfl | trivial, ?_⟩
        simp only [serverOutsOf_append, serverOutsOf_clientOuts, List.nil_append,
          serverOutsOf_serverOuts _ hq]
        cases (ServerSink.pollLoop (ServerSink.pollFuel h.server) h.server env.server []).2.1 <;>
          simp [serverOutsOf]

/-- The client half of any run of the connection handler is a run of `Model/ClientHandler` on the
projected inputs: same final state, same outputs in the same order. Nothing the server half or
the inbound substreams do is visible to it. -/
theorem client_projection (h : CH) (ins : List In) :
    (run h ins).1.client = (ClientHandler.run h.client (clientIns h ins)).1 ∧
    clientOutsOf (run h ins).2 = (ClientHandler.run h.client (clientIns h ins)).2 := by
  induction ins generalizing h with
  | nil => exact ⟨rfl, rfl⟩
  | cons i is ih =>
    have hs := client_step h i
    have hi := ih (step h i).1
    rw [run_cons, clientIns_cons, crun_append, clientOutsOf_append]
    simp only
    rw [← hs.1, ← hs.2, ← hi.1, ← hi.2]
    exact ⟨rfl, rfl⟩

/-- The same for the server half. -/
theorem server_projection (h : CH) (ins : List In) :
    (run h ins).1.server = (ServerSink.run h.server (serverIns h ins)).1 ∧
    serverOutsOf (run h ins).2 = (ServerSink.run h.server (serverIns h ins)).2 := by
  induction ins generalizing h with
  | nil => exact ⟨rfl, rfl⟩
  | cons i is ih =>
    have hs := server_step h i
    have hi := ih (step h i).1
    rw [run_cons, serverIns_cons, srun_append, serverOutsOf_append]
    simp only
    rw [← hs.1, ← hs.2, ← hi.1, ← hi.2]
    exact ⟨rfl, rfl⟩

/-- C14 for the whole connection handler: if the behaviour obeys its obligations towards the
client half, the client half's trace inside any run of the connection handler — whatever arrives
on inbound substreams, whatever the server half does — is accepted by the specification. -/
theorem client_trace_accepted (ins : List In)
    (ho : Spec.HandlerSpec.Obeys {} (clientIns {} ins)) :
    (Spec.HandlerSpec.specRun {} (Spec.HandlerSpec.traceOf {} (clientIns {} ins))).isSome = true :=
  Proofs.Handler.handler_refines_spec (clientIns {} ins) ho

/-- Conservation of blocks for the whole connection handler. -/
theorem blocks_conserved (ins : List In) :
    ServerSink.takenOf (serverOutsOf (run {} ins).2) ++ ((run {} ins).1.server.pending.getD []) =
      ServerSink.queuedOf (serverIns {} ins) := by
  have hp := server_projection {} ins
  have hc := Proofs.ServerSink.run_conservation ({} : CH).server (serverIns {} ins)
  rw [hp.1, hp.2]
  simpa [Proofs.ServerSink.pendingOf] using hc

/-- every block handed to the connection handler reaches the server half -/
def queuedBlocks : List In → List Block
  | [] => []
  | .queueBlocks bs :: is => bs ++ queuedBlocks is
  | _ :: is => queuedBlocks is

theorem queuedOf_append (a b : List ServerSink.In) :
    ServerSink.queuedOf (a ++ b) = ServerSink.queuedOf a ++ ServerSink.queuedOf b := by
  induction a with
  | nil => rfl
  | cons i is ih =>
    rw [List.cons_append, Proofs.ServerSink.queuedOf_cons, ih,
      Proofs.ServerSink.queuedOf_cons i is, List.append_assoc]

theorem queuedOf_serverIn1 (h : CH) (i : In) (is : List In) :
    ServerSink.queuedOf (serverIn1 h i) ++ queuedBlocks is = queuedBlocks (i :: is) := by
  cases i with
  | queueBlocks bs => simp [serverIn1, ServerSink.queuedOf, queuedBlocks]
  | outbound r sid => cases r <;> simp [serverIn1, ServerSink.queuedOf, queuedBlocks]
  | dialError r => cases r <;> simp [serverIn1, ServerSink.queuedOf, queuedBlocks]
  | poll env =>
    simp only [serverIn1, queuedBlocks]
    split
    · rfl
    · split <;> rfl
  | _ => simp [serverIn1, ServerSink.queuedOf, queuedBlocks]

theorem queued_reach_server (h : CH) (ins : List In) :
    ServerSink.queuedOf (serverIns h ins) = queuedBlocks ins := by
  induction ins generalizing h with
  | nil => rfl
  | cons i is ih => rw [serverIns_cons, queuedOf_append, ih, queuedOf_serverIn1]

/-! ### Isolation (C16) -/

/-- An inbound substream that ends — bad frame, fatal message, end of stream — changes nothing else:
in a `poll` in which no message is forwarded, the client half and the server half are polled exactly
as if the substreams did not exist, and every other substream follows its own answers. -/
theorem stream_end_costs_nothing_else (h : CH) (env : Env)
    (hnone : (Inbound.selectPoll h.streams env.inbound env.order).2 = none) :
    (poll h env).1.client = (ClientHandler.poll ClientHandler.pollFuel h.client env.client []).1 ∧
    ((ClientHandler.poll ClientHandler.pollFuel h.client env.client []).2.1 = .pending →
      (poll h env).1.server = (ServerSink.poll h.server env.server).1) ∧
    (poll h env).1.streams = (Inbound.selectPoll h.streams env.inbound env.order).1 := by
  generalize hsp : Inbound.selectPoll h.streams env.inbound env.order = sp at hnone
  obtain ⟨ss, o⟩ := sp
  simp only at hnone
  subst hnone
  rw [poll_none h env ss hsp]
  cases hr : (ClientHandler.poll ClientHandler.pollFuel h.client env.client []).2.1 <;> simp

/-- Inputs for one part leave the other parts untouched. -/
theorem routing (h : CH) :
    (∀ w, (step h (.sendWantlist w)).1.server = h.server ∧ (step h (.sendWantlist w)).1.streams = h.streams) ∧
    (∀ bs, (step h (.queueBlocks bs)).1.client = h.client ∧ (step h (.queueBlocks bs)).1.streams = h.streams) ∧
    (∀ sid, (step h (.inbound sid)).1.client = h.client ∧ (step h (.inbound sid)).1.server = h.server) ∧
    (∀ sid, (step h (.outbound .client sid)).1.server = h.server ∧ (step h (.outbound .server sid)).1.client = h.client) ∧
    ((step h (.dialError .server)).1.client = h.client ∧ (step h (.dialError .client)).1.server = h.server) := by
  refine ⟨fun _ => ⟨rfl, rfl⟩, fun _ => ⟨rfl, rfl⟩, fun _ => ⟨rfl, rfl⟩, fun _ => ⟨rfl, rfl⟩, rfl, rfl⟩

theorem changeState_halted (c : ClientHandler.H) (s : ClientHandler.HS) :
    (ClientHandler.changeState c s).halted = c.halted := by
  unfold ClientHandler.changeState; split <;> rfl

theorem dropSink_halted (c : ClientHandler.H) : (ClientHandler.dropSink c).1.halted = c.halted := by
  unfold ClientHandler.dropSink; split <;> rfl

theorem beginClose_halted (c : ClientHandler.H) :
    (ClientHandler.beginClose c).1.halted = c.halted := by
  unfold ClientHandler.beginClose
  split
  · rfl
  · simp only
    split <;> simp [changeState_halted, dropSink_halted]

theorem popClose_halted (c : ClientHandler.H) : (ClientHandler.popClose c).1.halted = c.halted := by
  unfold ClientHandler.popClose; split <;> rfl

/-- The connection is kept alive exactly as long as the client half has not halted; neither the
server half nor any inbound substream can close the connection. -/
theorem keepAlive_only_client (h : CH) (i : In) (hk : keepAlive h = true)
    (hnot : keepAlive (step h i).1 = false) :
    ∃ env, i = .poll env ∧ (Inbound.selectPoll h.streams env.inbound env.order).2 = none ∧
      (ClientHandler.poll ClientHandler.pollFuel h.client env.client []).1.halted = true := by
  have hk' : h.client.halted = false := by simpa [keepAlive] using hk
  have hn' : (step h i).1.client.halted = true := by simpa [keepAlive] using hnot
  cases i with
  | sendWantlist w =>
    simp [step, ClientHandler.sendWantlist, hk', changeState_halted] at hn'
  | queueBlocks bs => simp [step, hk'] at hn'
  | outbound r sid => cases r <;> simp [step, ClientHandler.setStream, hk'] at hn'
  | dialError r => cases r <;> simp [step, ClientHandler.allocFailed, ServerSink.allocFailed, hk'] at hn'
  | inbound sid => simp [step, hk'] at hn'
  | pollClose =>
    have : (step h .pollClose).1.client.halted = h.client.halted := by
      show (ClientHandler.popClose (ClientHandler.beginClose h.client).1).1.halted = _
      rw [popClose_halted, beginClose_halted]
    rw [this, hk'] at hn'
    cases hn'
  | poll env =>
    refine ⟨env, rfl, ?_⟩
    generalize hsp : Inbound.selectPoll h.streams env.inbound env.order = sp at hn' ⊢
    obtain ⟨ss, o⟩ := sp
    cases o with
    | some x =>
      obtain ⟨sid, m⟩ := x
      simp [step, poll_some h env ss sid m hsp, hk'] at hn'
    | none =>
      refine ⟨rfl, ?_⟩
      simp only [step, poll_none h env ss hsp] at hn'
      cases hr : (ClientHandler.poll ClientHandler.pollFuel h.client env.client []).2.1 <;>
        rw [hr] at hn' <;> exact hn'

/-- A message in the outputs of `poll` is the item `SelectAll` returned. -/
theorem incoming_is_selected (h : CH) (env : Env) (sid m : Nat)
    (hm : Out.ev (.incoming sid m) ∈ (poll h env).2) :
    (Inbound.selectPoll h.streams env.inbound env.order).2 = some (sid, m) := by
  generalize hsp : Inbound.selectPoll h.streams env.inbound env.order = sp
  obtain ⟨ss, o⟩ := sp
  cases o with
  | some x =>
    obtain ⟨sid', m'⟩ := x
    rw [poll_some h env ss sid' m' hsp] at hm
    simp only [List.mem_singleton, Out.ev.injEq, Ev.incoming.injEq] at hm
    obtain ⟨rfl, rfl⟩ := hm
    rfl
  | none =>
    exfalso
    rw [poll_none h env ss hsp] at hm
    have hc : ∀ os, Out.ev (.incoming sid m) ∉ clientOuts os := by
      intro os hx
      obtain ⟨o, ho⟩ := mem_clientOuts _ _ hx
      cases ho
    have hs : ∀ os, Out.ev (.incoming sid m) ∉ serverOuts os := by
      intro os hx
      obtain ⟨o, ho⟩ := mem_serverOuts _ _ hx
      cases ho
    cases hr : (ClientHandler.poll ClientHandler.pollFuel h.client env.client []).2.1 with
    | event rep =>
      rw [hr] at hm
      simp only [List.mem_append, List.mem_singleton, Out.ev.injEq] at hm
      rcases hm with hm | hm
      · exact hc _ hm
      · cases hm
    | openSubstream =>
      rw [hr] at hm
      simp only [List.mem_append, List.mem_singleton, Out.ev.injEq] at hm
      rcases hm with hm | hm
      · exact hc _ hm
      · cases hm
    | pending =>
      rw [hr] at hm
      simp only [List.mem_append] at hm
      rcases hm with (hm | hm) | hm
      · exact hc _ hm
      · exact hs _ hm
      · cases hr2 : (ServerSink.poll h.server env.server).2.1 <;> rw [hr2] at hm <;> simp at hm

/-- A message forwarded to the behaviour comes from one of the connection's own substreams and is
what that substream's `poll_next` returned. -/
theorem incoming_origin (h : CH) (hnd : Proofs.Inbound.Nodup h.streams) (env : Env)
    (hord : env.order.Nodup) (sid m : Nat) (hm : Out.ev (.incoming sid m) ∈ (poll h env).2) :
    sid ∈ env.order ∧ ∃ s, h.streams.lookup sid = some s ∧
      (Inbound.poll s (env.inbound sid).reads (env.inbound sid).procs).2 = .item m :=
  Proofs.Inbound.selectPoll_item h.streams hnd env.inbound env.order hord sid m
    (incoming_is_selected h env sid m hm)

/-- … and, however often `SelectAll` presents the substreams in one call, from a substream of this
connection that exists and was polled. -/
theorem incoming_origin_any (h : CH) (env : Env) (sid m : Nat)
    (hm : Out.ev (.incoming sid m) ∈ (poll h env).2) :
    sid ∈ env.order ∧ (h.streams.lookup sid).isSome = true :=
  Proofs.Inbound.selectPoll_item_any h.streams env.inbound env.order sid m
    (incoming_is_selected h env sid m hm)

end Beetswap.Proofs.ConnHandler
