import Beetswap.Spec.ClientSpec
/-!
Pointwise characterisations used by `ClientView`: finite sets, the wantlist layer
(`genFull`, `genUpdate`), the history-variable updates (`recordSend`, `recordMsg`).
-/
namespace Beetswap.Proofs.ClientView
open Std Beetswap.Client Beetswap.Wl Beetswap.Spec.ClientSpec

/-! ### finite sets -/

theorem kset_mem_erase (s : KSet) (a k : Nat) : k ∈ s.erase a ↔ k ≠ a ∧ k ∈ s := by
  simp only [ExtTreeSet.mem_erase, compare_eq_iff_eq, ne_eq]
  constructor
  · rintro ⟨h1, h2⟩; exact ⟨fun h => h1 h.symm, h2⟩
  · rintro ⟨h1, h2⟩; exact ⟨fun h => h1 h.symm, h2⟩

theorem kset_mem_insert (s : KSet) (a k : Nat) : k ∈ s.insert a ↔ k = a ∨ k ∈ s := by
  simp only [ExtTreeSet.mem_insert, compare_eq_iff_eq]
  constructor
  · rintro (h | h); exact .inl h.symm; exact .inr h
  · rintro (h | h); exact .inl h.symm; exact .inr h

theorem kset_not_mem_empty (k : Nat) : k ∉ (∅ : KSet) := ExtTreeSet.not_mem_empty

theorem mem_eraseAll (s : KSet) (ks : List Nat) (k : Nat) : k ∈ eraseAll s ks ↔ k ∈ s ∧ k ∉ ks := by
  unfold eraseAll
  induction ks generalizing s with
  | nil => simp
  | cons a as ih =>
    simp only [List.foldl_cons, ih, kset_mem_erase, List.mem_cons, not_or]
    constructor
    · rintro ⟨⟨h1, h2⟩, h3⟩; exact ⟨h2, h1, h3⟩
    · rintro ⟨h2, h1, h3⟩; exact ⟨⟨h1, h2⟩, h3⟩

theorem mem_insertAll (s : KSet) (ks : List Nat) (k : Nat) : k ∈ insertAll s ks ↔ k ∈ s ∨ k ∈ ks := by
  unfold insertAll
  induction ks generalizing s with
  | nil => simp
  | cons a as ih =>
    simp only [List.foldl_cons, ih, kset_mem_insert, List.mem_cons]
    constructor
    · rintro ((h | h) | h)
      · exact .inr (.inl h)
      · exact .inl h
      · exact .inr (.inr h)
    · rintro (h | h | h)
      · exact .inl (.inr h)
      · exact .inl (.inl h)
      · exact .inr h

theorem mem_restrict_aux (keep : KSet) (l : List Nat) (acc : KSet) (k : Nat) :
    k ∈ l.foldl (fun acc k => if k ∈ keep then acc else acc.erase k) acc ↔
      k ∈ acc ∧ (k ∈ l → k ∈ keep) := by
  induction l generalizing acc with
  | nil => simp
  | cons a as ih =>
    simp only [List.foldl_cons, ih, List.mem_cons]
    by_cases ha : a ∈ keep
    · simp only [ha, if_true]
      constructor
      · rintro ⟨h1, h2⟩
        refine ⟨h1, ?_⟩
        rintro (h | h)
        · exact h ▸ ha
        · exact h2 h
      · rintro ⟨h1, h2⟩; exact ⟨h1, fun h => h2 (.inr h)⟩
    · simp only [ha, if_false, kset_mem_erase]
      constructor
      · rintro ⟨⟨h0, h1⟩, h2⟩
        refine ⟨h1, ?_⟩
        rintro (h | h)
        · exact absurd h h0
        · exact h2 h
      · rintro ⟨h1, h2⟩
        refine ⟨⟨?_, h1⟩, fun h => h2 (.inr h)⟩
        intro h; exact ha (h ▸ h2 (.inl h))

theorem mem_restrict (s keep : KSet) (k : Nat) : k ∈ restrict s keep ↔ k ∈ s ∧ k ∈ keep := by
  unfold restrict
  rw [mem_restrict_aux]
  constructor
  · rintro ⟨h1, h2⟩; exact ⟨h1, h2 (ExtTreeSet.mem_toList.2 h1)⟩
  · rintro ⟨h1, h2⟩; exact ⟨h1, fun _ => h2⟩

/-! ### maps -/

theorem kmap_mem_iff {V : Type} (m : KMap V) (k : Nat) : k ∈ m ↔ ∃ v, m[k]? = some v := by
  rw [ExtTreeMap.mem_iff_isSome_getElem?, Option.isSome_iff_exists]

theorem kmap_not_mem_iff {V : Type} (m : KMap V) (k : Nat) : k ∉ m ↔ m[k]? = none := by
  rw [kmap_mem_iff]
  cases m[k]? <;> simp

theorem kmap_get_insert {V : Type} (m : KMap V) (a k : Nat) (v : V) :
    (m.insert a v)[k]? = if k = a then some v else m[k]? := by
  rw [ExtTreeMap.getElem?_insert]
  by_cases h : k = a
  · subst h; simp
  · have : a ≠ k := fun h' => h h'.symm
    simp [h, this]

theorem kmap_get_erase {V : Type} (m : KMap V) (a k : Nat) :
    (m.erase a)[k]? = if k = a then none else m[k]? := by
  rw [ExtTreeMap.getElem?_erase]
  by_cases h : k = a
  · subst h; simp
  · have : a ≠ k := fun h' => h h'.symm
    simp [h, this]

theorem kmap_mem_keys {V : Type} (m : KMap V) (k : Nat) : k ∈ m.keys ↔ ∃ v, m[k]? = some v := by
  rw [ExtTreeMap.mem_keys, kmap_mem_iff]

theorem kmap_get_empty {V : Type} (k : Nat) : (∅ : KMap V)[k]? = none := ExtTreeMap.getElem?_empty

/-- `KMap.tab` over the map's own keys: a pointwise rewrite of the values. -/
theorem get_tab_keys {V W : Type} (m : KMap V) (f : Nat → V → W) (k : Nat) :
    (KMap.tab m.keys (fun p => (m[p]?).map (f p)))[k]? = (m[k]?).map (f k) := by
  rw [KMap.get_tab]
  by_cases h : k ∈ m.keys
  · simp [h]
  · simp only [h, if_false]
    rw [kmap_mem_keys] at h
    cases hm : m[k]? with
    | none => rfl
    | some v => exact absurd ⟨v, hm⟩ h

/-! ### wantlist layer -/

theorem modifyReq_get (req : KMap Req) (a : Nat) (r : Req) (k : Nat) :
    (modifyReq req a r)[k]? = if k = a ∧ k ∈ req then some r else req[k]? := by
  unfold modifyReq
  by_cases ha : a ∈ req
  · simp only [ha, if_true, kmap_get_insert]
    by_cases h : k = a
    · subst h; simp [ha]
    · simp [h]
  · simp only [ha, if_false]
    by_cases h : k = a
    · subst h; simp [ha]
    · simp [h]

theorem mem_candKeys (s : WState) (w : Wantlist) (k : Nat) :
    k ∈ candKeys s w ↔ k ∈ s.req ∨ k ∈ w.cids := by
  simp [candKeys, ExtTreeMap.mem_keys, ExtTreeSet.mem_toList]

theorem updNext_eq_fullNext : updNext = fullNext := rfl

theorem genFull_req (s : WState) (w : Wantlist) (k : Nat) :
    (s.genFull w).1.req[k]? = fullNext s w k := by
  simp only [WState.genFull, KMap.get_tab, mem_candKeys]
  by_cases h : k ∈ s.req ∨ k ∈ w.cids
  · simp [h]
  · have : k ∉ w.cids := fun h' => h (.inr h')
    simp [fullNext, this]

theorem genFull_force (s : WState) (w : Wantlist) : (s.genFull w).1.force = s.force := rfl
theorem genFull_synced (s : WState) (w : Wantlist) : (s.genFull w).1.synced = s.synced := rfl
theorem genFull_full (s : WState) (w : Wantlist) : (s.genFull w).2.full = true := rfl
theorem genFull_cancel (s : WState) (w : Wantlist) : (s.genFull w).2.cancel = [] := rfl

theorem genFull_wantHave (s : WState) (w : Wantlist) (k : Nat) :
    k ∈ (s.genFull w).2.wantHave ↔ k ∈ w.cids ∧ (s.req[k]? = none ∨ s.req[k]? = some .sentWantHave) := by
  simp only [WState.genFull, List.mem_filter, ExtTreeSet.mem_toList, fullIsWantHave]
  rcases s.req[k]? with _ | r
  · simp
  · cases r <;> simp

theorem genFull_wantBlock (s : WState) (w : Wantlist) (k : Nat) :
    k ∈ (s.genFull w).2.wantBlock ↔ k ∈ w.cids ∧ (s.req[k]? = some .gotHave ∨ s.req[k]? = some .sentWantBlock) := by
  simp only [WState.genFull, List.mem_filter, ExtTreeSet.mem_toList, fullIsWantBlock]
  rcases s.req[k]? with _ | r
  · simp
  · cases r <;> simp

theorem genUpdate_of_updated (s : WState) (w : Wantlist) (h : s.isUpdated w = true) :
    s.genUpdate w = (s, { full := false, wantHave := [], wantBlock := [], cancel := [] }) := by
  simp [WState.genUpdate, h]

theorem genUpdate_req (s : WState) (w : Wantlist) (h : s.isUpdated w = false) (k : Nat) :
    (s.genUpdate w).1.req[k]? = fullNext s w k := by
  simp only [WState.genUpdate, h, Bool.false_eq_true, if_false, KMap.get_tab, mem_candKeys,
    updNext_eq_fullNext]
  by_cases h : k ∈ s.req ∨ k ∈ w.cids
  · simp [h]
  · have : k ∉ w.cids := fun h' => h (.inr h')
    simp [fullNext, this]

theorem genUpdate_force (s : WState) (w : Wantlist) (h : s.isUpdated w = false) :
    (s.genUpdate w).1.force = false := by
  simp [WState.genUpdate, h]

theorem genUpdate_synced (s : WState) (w : Wantlist) (h : s.isUpdated w = false) :
    (s.genUpdate w).1.synced = w.revision := by
  simp [WState.genUpdate, h]

theorem genUpdate_full (s : WState) (w : Wantlist) : (s.genUpdate w).2.full = false := by
  unfold WState.genUpdate; split <;> rfl

theorem genUpdate_wantHave (s : WState) (w : Wantlist) (h : s.isUpdated w = false) (k : Nat) :
    k ∈ (s.genUpdate w).2.wantHave ↔ k ∈ w.cids ∧ s.req[k]? = none := by
  simp only [WState.genUpdate, h, Bool.false_eq_true, if_false, List.mem_filter,
    ExtTreeSet.mem_toList, updIsWantHave]
  rcases s.req[k]? with _ | r
  · simp
  · cases r <;> simp

theorem genUpdate_wantBlock (s : WState) (w : Wantlist) (h : s.isUpdated w = false) (k : Nat) :
    k ∈ (s.genUpdate w).2.wantBlock ↔ k ∈ w.cids ∧ s.req[k]? = some .gotHave := by
  simp only [WState.genUpdate, h, Bool.false_eq_true, if_false, List.mem_filter,
    ExtTreeSet.mem_toList, updIsWantBlock]
  rcases s.req[k]? with _ | r
  · simp
  · cases r <;> simp

theorem genUpdate_cancel (s : WState) (w : Wantlist) (h : s.isUpdated w = false) (k : Nat) :
    k ∈ (s.genUpdate w).2.cancel ↔
      k ∉ w.cids ∧ ∃ r, s.req[k]? = some r ∧ r ≠ .gotBlock := by
  simp only [WState.genUpdate, h, Bool.false_eq_true, if_false, List.mem_filter,
    kmap_mem_keys, updIsCancel]
  rcases s.req[k]? with _ | r
  · simp
  · cases r <;> simp

theorem fullNext_eq (s : WState) (w : Wantlist) (k : Nat) :
    fullNext s w k =
      if k ∈ w.cids then
        (match s.req[k]? with
          | none => some .sentWantHave
          | some .gotHave => some .sentWantBlock
          | some r => some r)
      else none := rfl

end Beetswap.Proofs.ClientView
