import Beetswap.Proofs.NetProgDefs
/-!
Helpers for `Proofs/NetProgB.lean`, part 2: the weight of the lookup tasks of `b` along
`Server.pollTask(s)`, `Server.drain` and `Server.complete`.
-/
namespace Beetswap.Proofs.Net.PB
open Std Beetswap.Net Beetswap.Wl Beetswap.Proofs.Net
open Beetswap.Client (PeerSt Sending StoreRes Out TaskSt TaskKind Sys sendFullInterval)
open Beetswap.Server (Task LookupSt)
open Beetswap.Spec.ServerSpec (Inv)

/-- total weight of a list of lookup tasks -/
def tw (l : List Task) : Nat := (l.map wtB).sum

theorem tw_nil : tw [] = 0 := rfl
theorem tw_cons (t : Task) (l : List Task) : tw (t :: l) = wtB t + tw l := by simp [tw]

theorem tw_filter_le (p : Task → Bool) (l : List Task) : tw (l.filter p) ≤ tw l := by
  induction l with
  | nil => exact Nat.le_refl _
  | cons u us ih =>
    rw [List.filter_cons]
    split
    · rw [tw_cons, tw_cons]; omega
    · rw [tw_cons]; omega

/-- dropping the tasks with a given id loses at least the weight of one of them -/
theorem tw_drop (l : List Task) (id : Nat) (t : Task) (ht : t ∈ l) (hid : t.id = id) :
    tw (l.filter (·.id != id)) + wtB t ≤ tw l := by
  induction l with
  | nil => cases ht
  | cons u us ih =>
    rw [List.filter_cons]
    rcases List.mem_cons.1 ht with e | ht'
    · subst e
      have : (t.id != id) = false := by simp [hid]
      rw [this]
      simp only [Bool.false_eq_true, if_false]
      have := tw_filter_le (·.id != id) us
      rw [tw_cons]; omega
    · have := ih ht'
      split
      · rw [tw_cons, tw_cons]; omega
      · rw [tw_cons]; omega

theorem tw_map_le (f : Task → Task) (l : List Task) (h : ∀ u ∈ l, wtB (f u) ≤ wtB u) :
    tw (l.map f) ≤ tw l := by
  induction l with
  | nil => exact Nat.le_refl _
  | cons u us ih =>
    rw [List.map_cons, tw_cons, tw_cons]
    have := h u (List.mem_cons_self ..)
    have := ih (fun v hv => h v (List.mem_cons_of_mem _ hv))
    omega

theorem tw_map_lt (f : Task → Task) (l : List Task) (c : Nat) (h : ∀ u ∈ l, wtB (f u) ≤ wtB u)
    (t : Task) (ht : t ∈ l) (hc : wtB (f t) + c ≤ wtB t) : tw (l.map f) + c ≤ tw l := by
  induction l with
  | nil => cases ht
  | cons u us ih =>
    rw [List.map_cons, tw_cons, tw_cons]
    have h1 := h u (List.mem_cons_self ..)
    have h2 : ∀ v ∈ us, wtB (f v) ≤ wtB v := fun v hv => h v (List.mem_cons_of_mem _ hv)
    rcases List.mem_cons.1 ht with e | ht'
    · subst e
      have := tw_map_le f us h2
      omega
    · have := ih h2 ht'
      omega

/-- replacing the task `t` (the only one with its id) by a lighter one -/
theorem tw_replace (l : List Task) (id : Nat) (t t' : Task) (c : Nat) (ht : t ∈ l)
    (hid : t.id = id) (hu : ∀ u ∈ l, u.id = id → u = t) (hc : wtB t' + c ≤ wtB t) :
    tw (replaceTask l id t') + c ≤ tw l := by
  unfold replaceTask
  apply tw_map_lt _ l c _ t ht
  · simp only [hid, beq_self_eq_true, if_true]; exact hc
  · intro u hu'
    split
    · rename_i e
      have e' : u.id = id := by simpa using e
      rw [hu u hu' e']
      omega
    · exact Nat.le_refl _

/-! ### one poll -/

section
variable {store : KMap Nat} {W : KSet} {sv : Server.State} {seq : Nat}
  {calls : List (Nat × Nat)} {ids : List Nat} {id : Nat}

theorem pollTask_wt (h : MInv store W sv seq calls (id :: ids)) :
    tw (Server.pollTask sv seq (fun _ => none) id).1.tasks +
        ((Server.pollTask sv seq (fun _ => none) id).2.2.filterMap outCalls).length ≤ tw sv.tasks ∧
    ((Server.pollTask sv seq (fun _ => none) id).1.outq = sv.outq ∨
      tw (Server.pollTask sv seq (fun _ => none) id).1.tasks +
        ((Server.pollTask sv seq (fun _ => none) id).2.2.filterMap outCalls).length < tw sv.tasks) := by
  rcases pollTask_cases sv seq id with ⟨e, _⟩ | ⟨t, ht, hid, rs, hs, e⟩ |
      ⟨t, ht, hid, t', k0, rest, hs, e⟩
  · rw [e]
    exact ⟨by simp, Or.inl rfl⟩
  · rw [e]
    have hw : 2 ≤ wtB t := by
      unfold wtB
      rcases hs with ⟨htd, _, hnw⟩ | ⟨k, r, hr, htd, _⟩
      · cases hst : t.st with
        | fresh => simp
        | waiting n => exact absurd hst (hnw n)
        | ready r =>
          obtain ⟨k, rest, e1, _⟩ := h.ready_ok t ht r hst
          rw [htd] at e1; cases e1
      · rw [htd]; simp; omega
    have := tw_drop sv.tasks id t ht hid
    have e2 : (Server.finish { sv with tasks := sv.tasks.filter (·.id != id) } rs).tasks =
        sv.tasks.filter (·.id != id) := rfl
    dsimp only
    rw [e2]
    simp only [List.filterMap_nil, List.length_nil, Nat.add_zero]
    exact ⟨by omega, Or.inr (by omega)⟩
  · rw [e]
    have hold : ∀ u ∈ sv.tasks, u.id = id → u = t := fun u hu e => h.uniq hu ht (e.trans hid.symm)
    obtain ⟨s1, s2, s3, s4⟩ := hs
    have hw : wtB t' + 1 ≤ wtB t := by
      unfold wtB
      rw [s2]
      rcases s4 with ⟨hf, htd, _⟩ | ⟨r, k, hr, htd, _⟩
      · rw [hf, htd]; simp
      · rw [hr, htd]; simp; omega
    have := tw_replace sv.tasks id t t' 1 ht hid hold hw
    dsimp only
    have hl : ([Out.callGet seq k0].filterMap outCalls).length = 1 := rfl
    rw [hl]
    exact ⟨by omega, Or.inl rfl⟩

end

theorem pollTasks_wt {store : KMap Nat} {W : KSet} (ids : List Nat) (sv : Server.State)
    (seq : Nat) (calls : List (Nat × Nat)) (h : MInv store W sv seq calls ids) :
    tw (Server.pollTasks sv seq (fun _ => none) ids).1.tasks +
        ((Server.pollTasks sv seq (fun _ => none) ids).2.2.filterMap outCalls).length ≤ tw sv.tasks ∧
    ((Server.pollTasks sv seq (fun _ => none) ids).1.outq = sv.outq ∨
      tw (Server.pollTasks sv seq (fun _ => none) ids).1.tasks +
        ((Server.pollTasks sv seq (fun _ => none) ids).2.2.filterMap outCalls).length < tw sv.tasks) := by
  induction ids generalizing sv seq calls with
  | nil => exact ⟨by simp [Server.pollTasks], Or.inl rfl⟩
  | cons id ids ih =>
    obtain ⟨p1, _, _⟩ := pollTask_minv h
    obtain ⟨w1, w2⟩ := pollTask_wt h
    obtain ⟨v1, v2⟩ := ih _ _ _ p1
    rw [pollTasks_cons]
    dsimp only
    rw [List.filterMap_append, List.length_append]
    refine ⟨by omega, ?_⟩
    rcases w2 with w2 | w2
    · rcases v2 with v2 | v2
      · exact Or.inl (v2.trans w2)
      · exact Or.inr (by omega)
    · exact Or.inr (by omega)

/-! ### `Server.drain` -/

theorem server_drain_wt {store : KMap Nat} {W : KSet} {sv : Server.State} {seq : Nat}
    {calls : List (Nat × Nat)} (hi : Inv sv) (h : MInv store W sv seq calls sv.runq)
    (ho : sv.outq = []) :
    (Server.drain sv seq (fun _ => none)).1.runq = [] ∧
    tw (Server.drain sv seq (fun _ => none)).1.tasks +
      ((Server.drain sv seq (fun _ => none)).2.2.filterMap outCalls).length ≤ tw sv.tasks ∧
    ((Server.drain sv seq (fun _ => none)).2.2.filterMap outBlocks = [] ∨
      tw (Server.drain sv seq (fun _ => none)).1.tasks +
        ((Server.drain sv seq (fun _ => none)).2.2.filterMap outCalls).length < tw sv.tasks) := by
  have h0 : MInv store W { sv with evq := [], runq := [] } seq calls sv.runq :=
    h.change rfl rfl h.outq_ok (fun k hk d hd => ⟨hk, id⟩)
  obtain ⟨_, _, m3⟩ := pollTasks_minv sv.runq _ seq calls h0
  obtain ⟨w1, w2⟩ := pollTasks_wt sv.runq _ seq calls h0
  have hr := Server.pollTasks_rel sv.runq { sv with evq := [], runq := [] } seq (fun _ => none)
  rw [Server.drain_eq]
  generalize Server.pollTasks { sv with evq := [], runq := [] } seq (fun _ => none) sv.runq = r1
    at m3 w1 w2 hr
  dsimp only
  rw [Server.updateHandlers_eq]
  dsimp only
  have F := uh_fold_frame r1.1.outq ({ r1.1 with outq := [] }, [])
  have hnil : r1.1.outq = [] →
      (r1.1.outq.foldl Server.uhStep ({ r1.1 with outq := [] }, [])).2 = [] := by
    intro e; rw [e]; rfl
  generalize r1.1.outq.foldl Server.uhStep ({ r1.1 with outq := [] }, []) = r2 at F hnil
  obtain ⟨f1, f2, _, _, _⟩ := F
  dsimp only at f1 f2
  have hcalls : (sv.evq ++ r1.2.2 ++ r2.2.map (fun e => Out.blocks e.1 e.2)).filterMap outCalls =
      r1.2.2.filterMap outCalls := by
    rw [hi.evq_nil, List.nil_append, List.filterMap_append, filterMap_calls_blocks,
      List.append_nil]
  have hblocks : (sv.evq ++ r1.2.2 ++ r2.2.map (fun e => Out.blocks e.1 e.2)).filterMap outBlocks =
      r2.2.map (·.2) := by
    rw [hi.evq_nil, List.nil_append, List.filterMap_append, filterMap_blocks_blocks,
      filterMap_blocks_calls _ hr.outs, List.nil_append]
  rw [hcalls, hblocks, f1, f2, m3]
  refine ⟨rfl, w1, ?_⟩
  rcases w2 with w2 | w2
  · left
    rw [hnil (w2.trans ho)]
    rfl
  · exact Or.inr w2

/-! ### `Server.complete` -/

theorem server_complete_wt (sv sv' : Server.State) (n : Nat) (r : StoreRes)
    (h : Server.complete sv n r = some sv') : tw sv'.tasks ≤ tw sv.tasks := by
  unfold Server.complete at h
  split at h
  · cases h
  · cases h
    dsimp only
    apply tw_map_le
    intro u _
    split
    · unfold wtB; dsimp only; omega
    · exact Nat.le_refl _

end Beetswap.Proofs.Net.PB
