import Beetswap.Proofs.ClientView
import Beetswap.Proofs.ClientSending
import Beetswap.Model.ClientLink
/-!
What the operations of the client behaviour do to the part of a peer entry that the hand-over
discipline depends on: the set of usable connections and the sending state.
-/
namespace Beetswap.Proofs.ClientLink
open Std Beetswap.Client Beetswap.Wl
open Beetswap.ClientLink (plain)
open Beetswap.Proofs.ClientView (kmap_get_insert kset_mem_erase kset_mem_insert pframe)

/-- connections and sending state of a peer entry -/
def cs (ps : PeerSt) : KSet × Sending := (ps.conns, ps.sending)

def NoSend (q : List Out) : Prop := ∀ p c m, Out.send p c m ∉ q

theorem cs_of_pframe {a b : Option PeerSt} (h : a.map pframe = b.map pframe) : a.map cs = b.map cs := by
  cases a <;> cases b <;> simp [pframe, cs] at h ⊢
  exact ⟨h.1, h.2.1⟩

/-! ### operations without a handler -/

theorem get_frame (s : Client.State) (k : Nat) (fits : Bool) :
    (Client.get s k fits).1.peers = s.peers ∧ (NoSend s.queue → NoSend (Client.get s k fits).1.queue) := by
  cases fits
  · refine ⟨rfl, ?_⟩
    intro h p c m hm
    simp only [Client.get, Bool.false_eq_true, if_false] at hm
    rcases List.mem_append.1 hm with hm | hm
    · exact h p c m hm
    · simp at hm
  · exact ⟨rfl, fun h => h⟩

theorem cancel_frame (s : Client.State) (q : Nat) :
    (cancel s q).peers = s.peers ∧ (cancel s q).queue = s.queue := by
  unfold cancel
  dsimp only
  repeat' split
  all_goals exact ⟨rfl, rfl⟩

theorem incoming_cs (s : Client.State) (p : Nat) (hs ds : List Nat) (bs : List (Nat × Nat)) (q : Nat) :
    ((incoming s p hs ds bs).peers[q]?).map cs = (s.peers[q]?).map cs := by
  cases hp : s.peers[p]? with
  | none => rw [ClientView.incoming_none s p hs ds bs hp]
  | some ps =>
    let wl2 := ds.foldl (fun w k => w.gotDontHave k) (hs.foldl (fun w k => w.gotHave k) ps.wl)
    let s0 : Client.State := { s with peers := s.peers.insert p { ps with wl := wl2 } }
    let F := bs.foldl (fun (acc : Client.State × List (Nat × Nat)) kd => applyBlock acc.1 p kd.1 kd.2 acc.2) (s0, [])
    have hrel : ClientView.BlockRel p (bs.map (·.1)) s0 F.1 := ClientView.blocks_fold_rel p bs s0 []
    have hinc : (incoming s p hs ds bs).peers = F.1.peers := by
      simp only [incoming, hp]
      split <;> rfl
    rw [hinc]
    have hp0 : s0.peers[p]? = some { ps with wl := wl2 } := by simp [s0]
    by_cases hq : q = p
    · subst hq
      obtain ⟨ps', a1, a2, a3, _⟩ := hrel.peer _ hp0
      rw [a1, hp]
      simp only [Option.map_some, cs, a2, a3]
    · rw [hrel.others q hq]
      simp [s0, kmap_get_insert, hq]

theorem incoming_nosend (s : Client.State) (p : Nat) (hs ds : List Nat) (bs : List (Nat × Nat))
    (h : NoSend s.queue) : NoSend (incoming s p hs ds bs).queue := by
  cases hp : s.peers[p]? with
  | none => rw [ClientView.incoming_none s p hs ds bs hp]; exact h
  | some ps =>
    intro q c m hm
    exact h q c m ((ClientView.incoming_rel s p hs ds bs ps hp).2.2.2.2 q c m hm)

/-- plain operations leave connections and sending states alone -/
theorem plain_cs (x : Sys) (op : Op) (hp : plain op = true) (p : Nat) :
    ((Client.step x op).1.s.peers[p]?).map cs = (x.s.peers[p]?).map cs := by
  cases op with
  | get k fits => simp only [Client.step]; rw [(get_frame x.s k fits).1]
  | cancel q => simp only [Client.step]; rw [(cancel_frame x.s q).1]
  | complete n r => simp only [Client.step]; rw [(ClientView.complete_fields x.s n r).1]
  | msg q hs ds bs => simp only [Client.step]; exact incoming_cs x.s q hs ds bs p
  | tick ms => rfl
  | takeNewBlocks => rfl
  | _ => simp [plain] at hp

theorem plain_nosend (x : Sys) (op : Op) (hp : plain op = true) (h : NoSend x.s.queue) :
    NoSend (Client.step x op).1.s.queue := by
  cases op with
  | get k fits => simp only [Client.step]; exact (get_frame x.s k fits).2 h
  | cancel q => simp only [Client.step]; rw [(cancel_frame x.s q).2]; exact h
  | complete n r => simp only [Client.step]; rw [(ClientView.complete_fields x.s n r).2.2]; exact h
  | msg q hs ds bs => simp only [Client.step]; exact incoming_nosend x.s q hs ds bs h
  | tick ms => exact h
  | takeNewBlocks => exact h
  | _ => simp [plain] at hp

/-! ### `update_handlers` for one peer -/

/-- What `update_handlers` does to one peer, as far as connections and the sending state go:
connections are only given up; without a hand-over the sending state stays, or becomes `Ready`
after the tracked connection was given up; a wantlist is handed to a connection that is kept and
that the previous transmission was not tracked on, and the new one is tracked there. -/
theorem updatePeer_cs (w : Wantlist) (now : Nat) (ps : PeerSt) (pref : Option Nat) (ps' : PeerSt)
    (m : Option (Nat × WlMsg)) (h : updatePeer w now ps pref = (some ps', m)) :
    (∀ c, c ∈ ps'.conns → c ∈ ps.conns) ∧
    (m = none → ps'.sending = ps.sending ∨
      (ps'.sending = .ready ∧ ∀ c, c ∈ ps'.conns → ps.sending.conn? ≠ some c)) ∧
    (∀ c msg, m = some (c, msg) → c ∈ ps'.conns ∧ ps'.sending = .requested now c ∧
      ∀ c', c' ∈ ps'.conns → ps.sending.conn? ≠ some c') := by
  -- the `go` part, on a peer state whose transmission is tracked nowhere
  have go : ∀ ps0 : PeerSt, ps0.sending = .ready → ClientView.goPeer w now pref ps0 = (some ps', m) →
      ps'.conns = ps0.conns ∧ (m = none → ps'.sending = .ready) ∧
      (∀ c msg, m = some (c, msg) → c ∈ ps'.conns ∧ ps'.sending = .requested now c) := by
    intro ps0 hr hg
    have hres := ClientView.goPeer_res w now pref ps0
    rw [hg] at hres
    cases hres with
    | full hc _ =>
      refine ⟨rfl, (by intro h; cases h), ?_⟩
      intro c msg e
      cases e
      exact ⟨ClientView.pickConn_mem _ _ hc, rfl⟩
    | quiet _ _ _ => exact ⟨rfl, fun _ => hr, (by intro c msg e; cases e)⟩
    | upd hc _ _ =>
      refine ⟨rfl, (by intro h; cases h), ?_⟩
      intro c msg e
      cases e
      exact ⟨ClientView.pickConn_mem _ _ hc, rfl⟩
  rw [ClientView.updatePeer_eq] at h
  cases hs : ps.sending with
  | ready =>
    rw [hs] at h
    obtain ⟨g1, g2, g3⟩ := go ps hs h
    refine ⟨fun c hc => g1 ▸ hc, fun hm => .inl (g2 hm), ?_⟩
    intro c msg e
    obtain ⟨a, b⟩ := g3 c msg e
    exact ⟨a, b, fun c' _ => by simp [Sending.conn?]⟩
  | requested t c0 =>
    rw [hs] at h
    dsimp only at h
    split at h
    · cases h
      exact ⟨fun c hc => hc, fun _ => .inl hs, (by intro c msg e; cases e)⟩
    · obtain ⟨g1, g2, g3⟩ := go _ rfl h
      have hsub : ∀ c, c ∈ ps'.conns → c ≠ c0 ∧ c ∈ ps.conns := by
        intro c hc; rw [g1] at hc; exact (kset_mem_erase _ _ _).1 hc
      refine ⟨fun c hc => (hsub c hc).2, ?_, ?_⟩
      · intro hm
        right
        refine ⟨g2 hm, ?_⟩
        intro c hc e
        simp only [Sending.conn?, Option.some.injEq] at e
        exact (hsub c hc).1 e.symm
      · intro c msg e
        obtain ⟨a, b⟩ := g3 c msg e
        refine ⟨a, b, ?_⟩
        intro c' hc' e'
        simp only [Sending.conn?, Option.some.injEq] at e'
        exact (hsub c' hc').1 e'.symm
  | requestReceived c0 =>
    rw [hs] at h; cases h
    exact ⟨fun c hc => hc, fun _ => .inl hs, (by intro c msg e; cases e)⟩
  | sending c0 =>
    rw [hs] at h; cases h
    exact ⟨fun c hc => hc, fun _ => .inl hs, (by intro c msg e; cases e)⟩
  | failed c0 =>
    rw [hs] at h
    obtain ⟨g1, g2, g3⟩ := go _ rfl h
    have hsub : ∀ c, c ∈ ps'.conns → c ≠ c0 ∧ c ∈ ps.conns := by
      intro c hc; rw [g1] at hc; exact (kset_mem_erase _ _ _).1 hc
    refine ⟨fun c hc => (hsub c hc).2, ?_, ?_⟩
    · intro hm
      right
      refine ⟨g2 hm, ?_⟩
      intro c hc e
      simp only [Sending.conn?, Option.some.injEq] at e
      exact (hsub c hc).1 e.symm
    · intro c msg e
      obtain ⟨a, b⟩ := g3 c msg e
      refine ⟨a, b, ?_⟩
      intro c' hc' e'
      simp only [Sending.conn?, Option.some.injEq] at e'
      exact (hsub c' hc').1 e'.symm

theorem updatePeer_none (w : Wantlist) (now : Nat) (ps : PeerSt) (pref : Option Nat)
    (m : Option (Nat × WlMsg)) (h : updatePeer w now ps pref = (none, m)) : m = none := by
  have go : ∀ ps0 : PeerSt, ClientView.goPeer w now pref ps0 = (none, m) → m = none := by
    intro ps0 hg
    have hres := ClientView.goPeer_res w now pref ps0
    rw [hg] at hres
    cases hres
    rfl
  rw [ClientView.updatePeer_eq] at h
  cases hs : ps.sending with
  | ready => rw [hs] at h; exact go _ h
  | requested t c0 =>
    rw [hs] at h
    dsimp only at h
    split at h
    · cases h
    · exact go _ h
  | requestReceived c0 => rw [hs] at h; cases h
  | sending c0 => rw [hs] at h; cases h
  | failed c0 => rw [hs] at h; exact go _ h

end Beetswap.Proofs.ClientLink
