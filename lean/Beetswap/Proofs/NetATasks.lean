import Beetswap.Proofs.NetCore
import Beetswap.Proofs.ClientQueryStep
/-!
The task phase of a drain of the requesting node: a relational specification of `Client.pollTask`
and the invariants `pollTasks` keeps.
-/
namespace Beetswap.Proofs.Net.A
open Std Beetswap.Net Beetswap.Wl
open Beetswap.Client (PeerSt Sending StoreRes Out TaskSt TaskKind Sys sendFullInterval Task)
open Beetswap.Spec.ClientSpec (GSys Ghost gstep grun GInv)

/-! ### `pollTask` as a relation -/

def setWaiting (tasks : List Task) (id seq : Nat) : List Task :=
  tasks.map (fun u => if u.id == id then { u with st := .waiting seq } else u)

def dropTask (tasks : List Task) (id : Nat) : List Task := tasks.filter (·.id != id)

/-- the state after a `get` task reported a miss: the CID enters the wantlist -/
def missState (s : Client.State) (id q k : Nat) : Client.State :=
  { s with tasks := dropTask s.tasks id, abort := s.abort.erase q,
           wantlist := (s.wantlist.insert k).1,
           peers := if (s.wantlist.insert k).2 then
               KMap.tab s.peers.keys (fun p => (s.peers[p]?).map (fun ps => { ps with wl := ps.wl.wantedAgain k }))
             else s.peers,
           waiters := s.waiters.insert k ((s.waiters[k]?.getD []) ++ [q]) }

/-- Everything `pollTask s seq id` can return. -/
inductive PollRes (s : Client.State) (seq id : Nat) : Client.State × Nat × List Out → Prop where
  | absent : s.tasks.find? (·.id == id) = none → PollRes s seq id (s, seq, [])
  | aborted (t : Task) : s.tasks.find? (·.id == id) = some t → t.aborted = true →
      PollRes s seq id ({ s with tasks := dropTask s.tasks id }, seq, [])
  | freshGet (t : Task) (q k : Nat) : s.tasks.find? (·.id == id) = some t → t.aborted = false →
      t.st = .fresh → t.kind = .get q k →
      PollRes s seq id ({ s with tasks := setWaiting s.tasks id seq }, seq + 1, [.callGet seq k])
  | freshPut (t : Task) (bs : List (Nat × Nat)) : s.tasks.find? (·.id == id) = some t → t.aborted = false →
      t.st = .fresh → t.kind = .put bs →
      PollRes s seq id ({ s with tasks := setWaiting s.tasks id seq }, seq + 1, [.callPut seq bs])
  | waiting (t : Task) (n : Nat) : s.tasks.find? (·.id == id) = some t → t.aborted = false →
      t.st = .waiting n → PollRes s seq id (s, seq, [])
  | hit (t : Task) (q k d : Nat) : s.tasks.find? (·.id == id) = some t → t.aborted = false →
      t.st = .done (.hit d) → t.kind = .get q k →
      PollRes s seq id ({ s with tasks := dropTask s.tasks id, abort := s.abort.erase q }, seq, [.resp q d])
  | miss (t : Task) (q k : Nat) : s.tasks.find? (·.id == id) = some t → t.aborted = false →
      t.st = .done .miss → t.kind = .get q k →
      PollRes s seq id (missState s id q k, seq, [])
  | err (t : Task) (q k : Nat) (r : StoreRes) : s.tasks.find? (·.id == id) = some t → t.aborted = false →
      t.st = .done r → t.kind = .get q k → (∀ d, r ≠ .hit d) → r ≠ .miss →
      PollRes s seq id ({ s with tasks := dropTask s.tasks id, abort := s.abort.erase q }, seq, [.err q 1])
  | putOk (t : Task) (bs : List (Nat × Nat)) : s.tasks.find? (·.id == id) = some t → t.aborted = false →
      t.st = .done .putOk → t.kind = .put bs →
      PollRes s seq id ({ s with tasks := dropTask s.tasks id, newBlocks := s.newBlocks ++ bs }, seq, [])
  | putFail (t : Task) (bs : List (Nat × Nat)) (r : StoreRes) : s.tasks.find? (·.id == id) = some t →
      t.aborted = false → t.st = .done r → t.kind = .put bs → r ≠ .putOk →
      PollRes s seq id ({ s with tasks := dropTask s.tasks id }, seq, [])

theorem pollTask_res (s : Client.State) (seq id : Nat) : PollRes s seq id (Client.pollTask s seq id) := by
  unfold Client.pollTask
  split
  · next h => exact .absent h
  · next t h =>
    dsimp only
    split
    · next ha => exact .aborted t h ha
    · next ha =>
      have ha : t.aborted = false := by simpa using ha
      split
      · next q k hst hk => exact .freshGet t q k h ha hst hk
      · next bs hst hk => exact .freshPut t bs h ha hst hk
      · next n hst => exact .waiting t n h ha hst
      · next r q k hst hk =>
        split
        · next d => exact .hit t q k d h ha hst hk
        · exact .miss t q k h ha hst hk
        · next h1 h2 => exact .err t q k r h ha hst hk (fun d e => h1 d e) (fun e => h2 e)
      · next r bs hst hk =>
        split
        · exact .putOk t bs h ha hst hk
        · next h1 => exact .putFail t bs r h ha hst hk (fun e => h1 e)

/-! ### Task bookkeeping -/

/-- The task bookkeeping of the requesting node, with the list `todo` of task ids still to poll in
place of the run queue and a predicate `P` for "blockstore call `n` is pending". -/
structure TInv (tasks : List Task) (nextTask : Nat) (todo : List Nat) (seq : Nat) (P : Nat → Prop) : Prop where
  no_hit : ∀ t ∈ tasks, ∀ d, t.st ≠ TaskSt.done (StoreRes.hit d)
  ids_nodup : (tasks.map (·.id)).Nodup
  ids_lt : ∀ t ∈ tasks, t.id < nextTask
  sched : ∀ t ∈ tasks, (t.id ∈ todo ∧ (t.aborted = true ∨ ∀ n, t.st ≠ .waiting n)) ∨
    ∃ n, t.st = .waiting n ∧ P n
  wait_lt : ∀ t ∈ tasks, ∀ n, t.st = .waiting n → n < seq
  wait_inj : ∀ t ∈ tasks, ∀ t' ∈ tasks, ∀ n, t.st = .waiting n → t'.st = .waiting n → t.id = t'.id

theorem TInv.mono {tasks : List Task} {nt : Nat} {todo : List Nat} {seq : Nat} {P P' : Nat → Prop}
    (h : TInv tasks nt todo seq P) (hp : ∀ m, P m → P' m) : TInv tasks nt todo seq P' :=
  ⟨h.no_hit, h.ids_nodup, h.ids_lt,
   fun t ht => (h.sched t ht).imp id (fun ⟨n, a, b⟩ => ⟨n, a, hp n b⟩), h.wait_lt, h.wait_inj⟩

theorem mem_dropTask {tasks : List Task} {id : Nat} {t : Task} :
    t ∈ dropTask tasks id ↔ t ∈ tasks ∧ t.id ≠ id := by
  simp [dropTask]

theorem mem_setWaiting {tasks : List Task} {id seq : Nat} {t' : Task} :
    t' ∈ setWaiting tasks id seq ↔
      ∃ t ∈ tasks, t' = if t.id = id then { t with st := .waiting seq } else t := by
  simp only [setWaiting, List.mem_map, beq_iff_eq]
  constructor
  · rintro ⟨t, ht, e⟩; exact ⟨t, ht, e.symm⟩
  · rintro ⟨t, ht, e⟩; exact ⟨t, ht, e.symm⟩

theorem setWaiting_ids (tasks : List Task) (id seq : Nat) :
    (setWaiting tasks id seq).map (·.id) = tasks.map (·.id) := by
  simp only [setWaiting, List.map_map]
  apply List.map_congr_left
  intro t _
  simp only [Function.comp]
  split <;> rfl

theorem find_task {tasks : List Task} {id : Nat} {t : Task} (h : tasks.find? (·.id == id) = some t) :
    t ∈ tasks ∧ t.id = id :=
  ⟨List.mem_of_find?_eq_some h, by simpa using List.find?_some h⟩

theorem find_task_none {tasks : List Task} {id : Nat} (h : tasks.find? (·.id == id) = none) :
    ∀ t ∈ tasks, t.id ≠ id := by
  intro t ht
  simpa using List.find?_eq_none.1 h t ht

theorem TInv.absent {tasks : List Task} {nt id : Nat} {todo : List Nat} {seq : Nat} {P : Nat → Prop}
    (h : TInv tasks nt (id :: todo) seq P) (hn : ∀ t ∈ tasks, t.id ≠ id) : TInv tasks nt todo seq P := by
  refine ⟨h.no_hit, h.ids_nodup, h.ids_lt, ?_, h.wait_lt, h.wait_inj⟩
  intro t ht
  rcases h.sched t ht with ⟨hm, hr⟩ | hr
  · left
    rcases List.mem_cons.1 hm with e | hm
    · exact absurd e (hn t ht)
    · exact ⟨hm, hr⟩
  · exact .inr hr

theorem TInv.drop {tasks : List Task} {nt id : Nat} {todo : List Nat} {seq : Nat} {P : Nat → Prop}
    (h : TInv tasks nt (id :: todo) seq P) : TInv (dropTask tasks id) nt todo seq P := by
  refine ⟨fun t ht => h.no_hit t (mem_dropTask.1 ht).1, ?_, fun t ht => h.ids_lt t (mem_dropTask.1 ht).1, ?_,
    fun t ht => h.wait_lt t (mem_dropTask.1 ht).1,
    fun t ht t' ht' => h.wait_inj t (mem_dropTask.1 ht).1 t' (mem_dropTask.1 ht').1⟩
  · exact (List.Sublist.map _ List.filter_sublist).nodup h.ids_nodup
  · intro t ht
    obtain ⟨h1, h2⟩ := mem_dropTask.1 ht
    rcases h.sched t h1 with ⟨hm, hr⟩ | hr
    · left
      rcases List.mem_cons.1 hm with e | hm
      · exact absurd e h2
      · exact ⟨hm, hr⟩
    · exact .inr hr

theorem TInv.keep {tasks : List Task} {nt id : Nat} {todo : List Nat} {seq : Nat} {P : Nat → Prop}
    (h : TInv tasks nt (id :: todo) seq P) {t : Task} (ht : t ∈ tasks) (hid : t.id = id)
    (ha : t.aborted = false) {n : Nat} (hst : t.st = .waiting n) : TInv tasks nt todo seq P := by
  refine ⟨h.no_hit, h.ids_nodup, h.ids_lt, ?_, h.wait_lt, h.wait_inj⟩
  intro u hu
  rcases h.sched u hu with ⟨hm, hr⟩ | hr
  · rcases List.mem_cons.1 hm with e | hm
    · have : u = t := ClientQuery.uniq_of_nodup tasks h.ids_nodup u t hu ht (e.trans hid.symm)
      subst this
      rcases hr with hr | hr
      · rw [ha] at hr; cases hr
      · exact absurd hst (hr n)
    · exact .inl ⟨hm, hr⟩
  · exact .inr hr

theorem TInv.setWaiting {tasks : List Task} {nt id : Nat} {todo : List Nat} {seq : Nat} {P : Nat → Prop}
    (h : TInv tasks nt (id :: todo) seq P) :
    TInv (setWaiting tasks id seq) nt todo (seq + 1) (fun m => P m ∨ m = seq) := by
  constructor
  · intro t' ht' d
    obtain ⟨t, ht, e⟩ := mem_setWaiting.1 ht'
    subst e
    split
    · simp
    · exact h.no_hit t ht d
  · rw [setWaiting_ids]; exact h.ids_nodup
  · intro t' ht'
    obtain ⟨t, ht, e⟩ := mem_setWaiting.1 ht'
    subst e
    have := h.ids_lt t ht
    split <;> exact this
  · intro t' ht'
    obtain ⟨t, ht, e⟩ := mem_setWaiting.1 ht'
    subst e
    by_cases hid : t.id = id
    · simp only [hid, if_true]
      exact .inr ⟨seq, rfl, .inr rfl⟩
    · simp only [hid, if_false]
      rcases h.sched t ht with ⟨hm, hr⟩ | ⟨n, h1, h2⟩
      · rcases List.mem_cons.1 hm with e | hm
        · exact absurd e hid
        · exact .inl ⟨hm, hr⟩
      · exact .inr ⟨n, h1, .inl h2⟩
  · intro t' ht' n hn
    obtain ⟨t, ht, e⟩ := mem_setWaiting.1 ht'
    subst e
    by_cases hid : t.id = id
    · simp only [hid, if_true] at hn
      cases hn; omega
    · simp only [hid, if_false] at hn
      have := h.wait_lt t ht n hn; omega
  · intro t' ht' u' hu' n hn hn'
    obtain ⟨t, ht, e⟩ := mem_setWaiting.1 ht'
    obtain ⟨u, hu, e'⟩ := mem_setWaiting.1 hu'
    subst e e'
    by_cases hid : t.id = id <;> by_cases hid' : u.id = id
    · simp [hid, hid']
    · simp only [hid, if_true] at hn
      simp only [hid', if_false] at hn'
      cases hn
      have := h.wait_lt u hu _ hn'; omega
    · simp only [hid, if_false] at hn
      simp only [hid', if_true] at hn'
      cases hn'
      have := h.wait_lt t ht _ hn; omega
    · simp only [hid, if_false] at hn ⊢
      simp only [hid', if_false] at hn' ⊢
      exact h.wait_inj t ht u hu n hn hn'

/-- sequence number of a blockstore call output -/
def callSeq : Out → Option Nat
  | .callGet n _ => some n
  | .callPut n _ => some n
  | _ => none

def callSeqs (outs : List Out) : List Nat := outs.filterMap callSeq

theorem callSeqs_append (a b : List Out) : callSeqs (a ++ b) = callSeqs a ++ callSeqs b := by
  simp [callSeqs]

/-- one `pollTask` of the task phase keeps the bookkeeping; without a `hit` completion it answers
no query -/
theorem pollTask_tinv {s : Client.State} {seq id : Nat} {todo : List Nat} {P : Nat → Prop}
    (h : TInv s.tasks s.nextTask (id :: todo) seq P) :
    TInv (Client.pollTask s seq id).1.tasks (Client.pollTask s seq id).1.nextTask todo
      (Client.pollTask s seq id).2.1 (fun m => P m ∨ m ∈ callSeqs (Client.pollTask s seq id).2.2) ∧
    seq ≤ (Client.pollTask s seq id).2.1 ∧
    (∀ q d, Out.resp q d ∉ (Client.pollTask s seq id).2.2) := by
  have hr := pollTask_res s seq id
  generalize Client.pollTask s seq id = r at hr
  cases hr with
  | absent hf => exact ⟨(h.absent (find_task_none hf)).mono (fun _ => .inl), Nat.le_refl _, by simp⟩
  | aborted t hf ha => exact ⟨h.drop.mono (fun _ => .inl), Nat.le_refl _, by simp⟩
  | freshGet t q k hf ha hst hk =>
    refine ⟨h.setWaiting.mono ?_, Nat.le_succ _, by simp⟩
    intro m hm
    rcases hm with hm | hm
    · exact .inl hm
    · right; simp [callSeqs, callSeq, hm]
  | freshPut t bs hf ha hst hk =>
    refine ⟨h.setWaiting.mono ?_, Nat.le_succ _, by simp⟩
    intro m hm
    rcases hm with hm | hm
    · exact .inl hm
    · right; simp [callSeqs, callSeq, hm]
  | waiting t n hf ha hst =>
    exact ⟨(h.keep (find_task hf).1 (find_task hf).2 ha hst).mono (fun _ => .inl), Nat.le_refl _, by simp⟩
  | hit t q k d hf ha hst hk => exact absurd hst (h.no_hit t (find_task hf).1 d)
  | miss t q k hf ha hst hk => exact ⟨h.drop.mono (fun _ => .inl), Nat.le_refl _, by simp⟩
  | err t q k r hf ha hst hk h1 h2 => exact ⟨h.drop.mono (fun _ => .inl), Nat.le_refl _, by simp⟩
  | putOk t bs hf ha hst hk => exact ⟨h.drop.mono (fun _ => .inl), Nat.le_refl _, by simp⟩
  | putFail t bs r hf ha hst hk h1 => exact ⟨h.drop.mono (fun _ => .inl), Nat.le_refl _, by simp⟩

theorem pollTasks_tinv (ids : List Nat) : ∀ {s : Client.State} {seq : Nat} {P : Nat → Prop},
    TInv s.tasks s.nextTask ids seq P →
    TInv (Client.pollTasks s seq ids).1.tasks (Client.pollTasks s seq ids).1.nextTask []
      (Client.pollTasks s seq ids).2.1 (fun m => P m ∨ m ∈ callSeqs (Client.pollTasks s seq ids).2.2) ∧
    seq ≤ (Client.pollTasks s seq ids).2.1 ∧
    (∀ q d, Out.resp q d ∉ (Client.pollTasks s seq ids).2.2) := by
  induction ids with
  | nil =>
    intro s seq P h
    exact ⟨h.mono (fun _ => .inl), Nat.le_refl _, by simp [Client.pollTasks]⟩
  | cons id ids ih =>
    intro s seq P h
    obtain ⟨h1, h2, h3⟩ := pollTask_tinv h
    obtain ⟨i1, i2, i3⟩ := ih h1
    simp only [Client.pollTasks]
    refine ⟨i1.mono ?_, Nat.le_trans h2 i2, ?_⟩
    · intro m hm
      rw [callSeqs_append, List.mem_append]
      rcases hm with (hm | hm) | hm
      · exact .inl hm
      · exact .inr (.inl hm)
      · exact .inr (.inr hm)
    · intro q d hm
      rcases List.mem_append.1 hm with hm | hm
      · exact h3 q d hm
      · exact i3 q d hm

/-! ### What the task phase does to the other fields -/

/-- every task of `tasks'` is a task of `tasks`, possibly in another state -/
def TSub (tasks' tasks : List Task) : Prop :=
  ∀ t' ∈ tasks', ∃ t ∈ tasks, t'.id = t.id ∧ t'.kind = t.kind ∧ t'.aborted = t.aborted

theorem TSub.refl (tasks : List Task) : TSub tasks tasks := fun t ht => ⟨t, ht, rfl, rfl, rfl⟩

theorem TSub.trans {a b c : List Task} (h1 : TSub a b) (h2 : TSub b c) : TSub a c := by
  intro t ht
  obtain ⟨u, hu, e1, e2, e3⟩ := h1 t ht
  obtain ⟨v, hv, f1, f2, f3⟩ := h2 u hu
  exact ⟨v, hv, e1.trans f1, e2.trans f2, e3.trans f3⟩

theorem tsub_drop (tasks : List Task) (id : Nat) : TSub (dropTask tasks id) tasks :=
  fun t ht => ⟨t, (mem_dropTask.1 ht).1, rfl, rfl, rfl⟩

theorem tsub_setWaiting (tasks : List Task) (id seq : Nat) : TSub (setWaiting tasks id seq) tasks := by
  intro t' ht'
  obtain ⟨t, ht, e⟩ := mem_setWaiting.1 ht'
  subst e
  refine ⟨t, ht, ?_⟩
  split <;> exact ⟨rfl, rfl, rfl⟩

/-- the exchange states only lose entries -/
def ReqSub (s s' : Client.State) : Prop :=
  ∀ (p : Nat) (ps' : PeerSt), s'.peers[p]? = some ps' →
    ∃ ps, s.peers[p]? = some ps ∧ ∀ (k : Nat) (r : Req), ps'.wl.req[k]? = some r → ps.wl.req[k]? = some r

theorem ReqSub.refl (s : Client.State) : ReqSub s s := fun _ ps h => ⟨ps, h, fun _ _ h => h⟩

theorem ReqSub.of_peers {s s' : Client.State} (h : s'.peers = s.peers) : ReqSub s s' := by
  intro p ps hp; rw [h] at hp; exact ⟨ps, hp, fun _ _ h => h⟩

theorem ReqSub.trans {a b c : Client.State} (h1 : ReqSub a b) (h2 : ReqSub b c) : ReqSub a c := by
  intro p ps hp
  obtain ⟨ps1, e1, f1⟩ := h2 p ps hp
  obtain ⟨ps0, e0, f0⟩ := h1 p ps1 e1
  exact ⟨ps0, e0, fun k r h => f0 k r (f1 k r h)⟩

theorem PollEff.reqSub {s s' : Client.State} (h : ClientView.PollEff s s') : ReqSub s s' := by
  cases h with
  | same _ hp => exact ReqSub.of_peers hp
  | want k _ _ hp =>
    intro p ps' hps'
    rw [hp, ClientView.get_tab_keys' s.peers (fun (ps : PeerSt) => ({ ps with wl := ps.wl.wantedAgain k } : PeerSt))] at hps'
    cases hps : s.peers[p]? with
    | none => simp [hps] at hps'
    | some ps =>
      simp only [hps, Option.map_some, Option.some.injEq] at hps'
      refine ⟨ps, rfl, ?_⟩
      intro j r hr
      rw [← hps'] at hr
      simp only [ClientView.wantedAgain_req] at hr
      split at hr
      · cases hr
      · exact hr

/-- where the CIDs of the wantlist after the task phase come from -/
def CidsFrom (s s' : Client.State) : Prop :=
  ∀ j, j ∈ s'.wantlist.cids → j ∈ s.wantlist.cids ∨
    ∃ t ∈ s.tasks, ∃ q, t.aborted = false ∧ t.kind = TaskKind.get q j

/-- no lookup of the user is pending -/
def NoGet (tasks : List Task) : Prop :=
  ∀ t ∈ tasks, ∀ q k, t.kind = TaskKind.get q k → t.aborted = true

theorem NoGet.sub {a b : List Task} (h : NoGet b) (hs : TSub a b) : NoGet a := by
  intro t ht q k hk
  obtain ⟨u, hu, _, e2, e3⟩ := hs t ht
  rw [e3]; exact h u hu q k (e2 ▸ hk)

theorem pollTask_frame (s : Client.State) (seq id : Nat) :
    (Client.pollTask s seq id).1.runq = s.runq ∧
    (Client.pollTask s seq id).1.nextTask = s.nextTask ∧
    (Client.pollTask s seq id).1.nextQuery = s.nextQuery ∧
    TSub (Client.pollTask s seq id).1.tasks s.tasks ∧
    CidsFrom s (Client.pollTask s seq id).1 ∧
    (NoGet s.tasks → (Client.pollTask s seq id).1.wantlist = s.wantlist ∧
      (Client.pollTask s seq id).1.peers = s.peers) := by
  have hr := pollTask_res s seq id
  generalize Client.pollTask s seq id = r at hr
  cases hr with
  | absent hf => exact ⟨rfl, rfl, rfl, TSub.refl _, fun j h => .inl h, fun _ => ⟨rfl, rfl⟩⟩
  | aborted t hf ha => exact ⟨rfl, rfl, rfl, tsub_drop _ _, fun j h => .inl h, fun _ => ⟨rfl, rfl⟩⟩
  | freshGet t q k hf ha hst hk =>
    exact ⟨rfl, rfl, rfl, tsub_setWaiting _ _ _, fun j h => .inl h, fun _ => ⟨rfl, rfl⟩⟩
  | freshPut t bs hf ha hst hk =>
    exact ⟨rfl, rfl, rfl, tsub_setWaiting _ _ _, fun j h => .inl h, fun _ => ⟨rfl, rfl⟩⟩
  | waiting t n hf ha hst => exact ⟨rfl, rfl, rfl, TSub.refl _, fun j h => .inl h, fun _ => ⟨rfl, rfl⟩⟩
  | hit t q k d hf ha hst hk => exact ⟨rfl, rfl, rfl, tsub_drop _ _, fun j h => .inl h, fun _ => ⟨rfl, rfl⟩⟩
  | miss t q k hf ha hst hk =>
    refine ⟨rfl, rfl, rfl, tsub_drop _ _, ?_, ?_⟩
    · intro j hj
      have hj : j ∈ (s.wantlist.insert k).1.cids := hj
      rw [ClientView.insert_cids] at hj
      rcases hj with e | hj
      · subst e; exact .inr ⟨t, (find_task hf).1, q, ha, hk⟩
      · exact .inl hj
    · intro hn
      have := hn t (find_task hf).1 q k hk
      rw [ha] at this; cases this
  | err t q k r hf ha hst hk h1 h2 => exact ⟨rfl, rfl, rfl, tsub_drop _ _, fun j h => .inl h, fun _ => ⟨rfl, rfl⟩⟩
  | putOk t bs hf ha hst hk => exact ⟨rfl, rfl, rfl, tsub_drop _ _, fun j h => .inl h, fun _ => ⟨rfl, rfl⟩⟩
  | putFail t bs r hf ha hst hk h1 => exact ⟨rfl, rfl, rfl, tsub_drop _ _, fun j h => .inl h, fun _ => ⟨rfl, rfl⟩⟩

theorem CidsFrom.trans {a b c : Client.State} (h1 : CidsFrom a b) (ht : TSub b.tasks a.tasks)
    (h2 : CidsFrom b c) : CidsFrom a c := by
  intro j hj
  rcases h2 j hj with h | ⟨t, ht', q, ha, hk⟩
  · exact h1 j h
  · obtain ⟨u, hu, _, e2, e3⟩ := ht t ht'
    exact .inr ⟨u, hu, q, e3 ▸ ha, e2 ▸ hk⟩

theorem pollTasks_frame (ids : List Nat) : ∀ (s : Client.State) (seq : Nat),
    (Client.pollTasks s seq ids).1.runq = s.runq ∧
    (Client.pollTasks s seq ids).1.nextTask = s.nextTask ∧
    (Client.pollTasks s seq ids).1.nextQuery = s.nextQuery ∧
    TSub (Client.pollTasks s seq ids).1.tasks s.tasks ∧
    CidsFrom s (Client.pollTasks s seq ids).1 ∧
    ReqSub s (Client.pollTasks s seq ids).1 ∧
    (NoGet s.tasks → (Client.pollTasks s seq ids).1.wantlist = s.wantlist ∧
      (Client.pollTasks s seq ids).1.peers = s.peers) := by
  induction ids with
  | nil =>
    intro s seq
    exact ⟨rfl, rfl, rfl, TSub.refl _, fun j h => .inl h, ReqSub.refl _, fun _ => ⟨rfl, rfl⟩⟩
  | cons id ids ih =>
    intro s seq
    obtain ⟨a1, a2, a3, a4, a5, a6⟩ := pollTask_frame s seq id
    obtain ⟨b1, b2, b3, b4, b5, b6, b7⟩ := ih (Client.pollTask s seq id).1 (Client.pollTask s seq id).2.1
    have e := (ClientView.pollTask_eff s seq id).1
    simp only [Client.pollTasks]
    refine ⟨b1.trans a1, b2.trans a2, b3.trans a3, b4.trans a4, a5.trans a4 b5, (PollEff.reqSub e).trans b6, ?_⟩
    intro hn
    obtain ⟨c1, c2⟩ := a6 hn
    obtain ⟨d1, d2⟩ := b7 (hn.sub a4)
    exact ⟨d1.trans c1, d2.trans c2⟩

/-! ### The task phase `afterTasks` -/

theorem refresh_fields (s : Client.State) (now : Nat) :
    (ClientView.refresh s now).tasks = s.tasks ∧ (ClientView.refresh s now).runq = s.runq ∧
    (ClientView.refresh s now).nextTask = s.nextTask ∧ (ClientView.refresh s now).nextQuery = s.nextQuery := by
  unfold ClientView.refresh; split <;> exact ⟨rfl, rfl, rfl, rfl⟩

theorem refresh_reqSub (s : Client.State) (now : Nat) : ReqSub s (ClientView.refresh s now) := by
  intro p ps' hps'
  rw [ClientView.refresh_peers] at hps'
  cases hps : s.peers[p]? with
  | none => simp [hps] at hps'
  | some ps =>
    simp only [hps, Option.map_some, Option.some.injEq] at hps'
    refine ⟨ps, rfl, ?_⟩
    intro k r hr
    rw [← hps'] at hr
    exact hr

theorem afterTasks_tinv {c : Client.State} {now seq : Nat} {P : Nat → Prop}
    (h : TInv c.tasks c.nextTask c.runq seq P) :
    TInv (ClientView.afterTasks c now seq).1.tasks (ClientView.afterTasks c now seq).1.nextTask []
      (ClientView.afterTasks c now seq).2.1 (fun m => P m ∨ m ∈ callSeqs (ClientView.afterTasks c now seq).2.2) ∧
    seq ≤ (ClientView.afterTasks c now seq).2.1 ∧
    (∀ q d, Out.resp q d ∉ (ClientView.afterTasks c now seq).2.2) := by
  unfold ClientView.afterTasks
  obtain ⟨r1, r2, r3, r4⟩ := refresh_fields { c with queue := [] } now
  dsimp only
  apply pollTasks_tinv
  show TInv (ClientView.refresh { c with queue := [] } now).tasks
    (ClientView.refresh { c with queue := [] } now).nextTask _ _ _
  rw [r1, r2, r3]
  exact h

theorem afterTasks_frame (c : Client.State) (now seq : Nat) :
    (ClientView.afterTasks c now seq).1.runq = [] ∧
    (ClientView.afterTasks c now seq).1.nextTask = c.nextTask ∧
    (ClientView.afterTasks c now seq).1.nextQuery = c.nextQuery ∧
    TSub (ClientView.afterTasks c now seq).1.tasks c.tasks ∧
    CidsFrom c (ClientView.afterTasks c now seq).1 ∧
    ReqSub c (ClientView.afterTasks c now seq).1 := by
  unfold ClientView.afterTasks
  obtain ⟨r1, r2, r3, r4⟩ := refresh_fields { c with queue := [] } now
  dsimp only
  obtain ⟨b1, b2, b3, b4, b5, b6, _⟩ := pollTasks_frame (ClientView.refresh { c with queue := [] } now).runq
    { ClientView.refresh { c with queue := [] } now with runq := [] } seq
  refine ⟨b1, b2.trans r3, b3.trans r4, ?_, ?_, ?_⟩
  · intro t ht
    obtain ⟨u, hu, e⟩ := b4 t ht
    exact ⟨u, (show u ∈ (ClientView.refresh { c with queue := [] } now).tasks from hu) |> (r1 ▸ ·), e⟩
  · intro j hj
    rcases b5 j hj with h | ⟨t, ht, e⟩
    · left
      have : j ∈ (ClientView.refresh { c with queue := [] } now).wantlist.cids := h
      rw [ClientView.refresh_wantlist] at this
      exact this
    · right
      exact ⟨t, (show t ∈ (ClientView.refresh { c with queue := [] } now).tasks from ht) |> (r1 ▸ ·), e⟩
  · have h0 : ReqSub c { c with queue := [] } := ReqSub.of_peers rfl
    have h1 := refresh_reqSub { c with queue := [] } now
    have h2 : ReqSub (ClientView.refresh { c with queue := [] } now)
        { ClientView.refresh { c with queue := [] } now with runq := [] } := ReqSub.of_peers rfl
    exact (h0.trans h1).trans (h2.trans b6)

theorem afterTasks_noget' (c : Client.State) (now seq : Nat) (h : NoGet c.tasks) :
    (ClientView.afterTasks c now seq).1.wantlist = c.wantlist ∧
    (∀ p : Nat, ((ClientView.afterTasks c now seq).1.peers[p]?).map (·.wl) = (c.peers[p]?).map (·.wl)) ∧
    NoGet (ClientView.afterTasks c now seq).1.tasks := by
  refine ⟨?_, ?_, h.sub (afterTasks_frame c now seq).2.2.2.1⟩
  · unfold ClientView.afterTasks
    obtain ⟨r1, r2, r3, r4⟩ := refresh_fields { c with queue := [] } now
    dsimp only
    have := ((pollTasks_frame (ClientView.refresh { c with queue := [] } now).runq
      { ClientView.refresh { c with queue := [] } now with runq := [] } seq).2.2.2.2.2.2 (by
        show NoGet (ClientView.refresh { c with queue := [] } now).tasks
        rw [r1]; exact h)).1
    rw [this]
    show (ClientView.refresh { c with queue := [] } now).wantlist = _
    rw [ClientView.refresh_wantlist]
  · intro p
    unfold ClientView.afterTasks
    obtain ⟨r1, r2, r3, r4⟩ := refresh_fields { c with queue := [] } now
    dsimp only
    have := ((pollTasks_frame (ClientView.refresh { c with queue := [] } now).runq
      { ClientView.refresh { c with queue := [] } now with runq := [] } seq).2.2.2.2.2.2 (by
        show NoGet (ClientView.refresh { c with queue := [] } now).tasks
        rw [r1]; exact h)).2
    rw [this]
    show ((ClientView.refresh { c with queue := [] } now).peers[p]?).map (·.wl) = _
    rw [ClientView.refresh_peers]
    show ((c.peers[p]?).map _).map _ = _
    cases c.peers[p]? <;> rfl

theorem afterTasks_idle' (c : Client.State) (now seq : Nat) (hr : c.runq = []) :
    (ClientView.afterTasks c now seq).1.wantlist = c.wantlist ∧
    (∀ p : Nat, (ClientView.afterTasks c now seq).1.peers[p]? =
      (c.peers[p]?).map (fun ps => ({ ps with sendFull := ps.sendFull || decide (c.deadline ≤ now) } : PeerSt))) ∧
    (ClientView.afterTasks c now seq).1.tasks = c.tasks ∧
    (ClientView.afterTasks c now seq).2.1 = seq ∧ (ClientView.afterTasks c now seq).2.2 = [] := by
  unfold ClientView.afterTasks
  obtain ⟨r1, r2, r3, r4⟩ := refresh_fields { c with queue := [] } now
  have hq : (ClientView.refresh { c with queue := [] } now).runq = [] := r2.trans hr
  dsimp only
  rw [hq]
  simp only [Client.pollTasks]
  refine ⟨ClientView.refresh_wantlist _ _, ?_, r1, trivial, trivial⟩
  intro p
  exact ClientView.refresh_peers { c with queue := [] } now p

/-! ### `update_handlers` only touches the peer table -/

theorem uhStep_frame (now : Nat) (pref : Nat → Option Nat) (acc : Client.State × List Out) (p : Nat) :
    ∃ P, (ClientView.uhStep now pref acc p).1 = { acc.1 with peers := P } := by
  unfold ClientView.uhStep
  split
  · exact ⟨acc.1.peers, rfl⟩
  · exact ⟨_, rfl⟩

theorem uh_fold_frame (now : Nat) (pref : Nat → Option Nat) (l : List Nat) :
    ∀ acc : Client.State × List Out, ∃ P, (l.foldl (ClientView.uhStep now pref) acc).1 = { acc.1 with peers := P } := by
  induction l with
  | nil => intro acc; exact ⟨acc.1.peers, rfl⟩
  | cons a as ih =>
    intro acc
    obtain ⟨P1, h1⟩ := uhStep_frame now pref acc a
    obtain ⟨P2, h2⟩ := ih (ClientView.uhStep now pref acc a)
    refine ⟨P2, ?_⟩
    rw [List.foldl_cons, h2, h1]

theorem updateHandlers_frame (s : Client.State) (now : Nat) (pref : Nat → Option Nat) :
    (Client.updateHandlers s now pref).1 = { s with peers := (Client.updateHandlers s now pref).1.peers } := by
  rw [ClientView.updateHandlers_eq]
  obtain ⟨P, h⟩ := uh_fold_frame now pref s.peers.keys (s, [])
  rw [h]

theorem drain_tasks' (c : Client.State) (now seq : Nat) (pref : Nat → Option Nat) :
    (Client.drain c now seq pref).1.tasks = (ClientView.afterTasks c now seq).1.tasks := by
  rw [ClientView.drain_eq]
  show (Client.updateHandlers _ now pref).1.tasks = _
  rw [updateHandlers_frame]

end Beetswap.Proofs.Net.A
