import Beetswap.Proofs.ServerLemmas
/-!
Helper lemmas, part 2: the waiter lists seen as a total function, `connect`, `disconnected`,
`incoming`.
-/
namespace Beetswap.Proofs.Server
open Std Beetswap.Server Beetswap.Spec.ServerSpec
open Beetswap.Client (Out StoreRes)

/-- the waiter list of `k`, `[]` when there is no entry -/
def wlist (s : State) (k : Nat) : List Nat := (s.waiting[k]?).getD []

/-- no waiter entry holds the empty list -/
def NoEmpty (s : State) : Prop := ∀ k : Nat, s.waiting[k]? ≠ some []

theorem waits_iff (s : State) (p k : Nat) : Waits s p k ↔ p ∈ wlist s k := by
  unfold Waits wlist
  cases h : s.waiting[k]? <;> simp

theorem wants_iff (s : State) (p k : Nat) :
    Wants s p k ↔ ∃ set, s.wl[p]? = some set ∧ k ∈ set := Iff.rfl

theorem wlist_of_get {s : State} {k : Nat} {ps : List Nat} (h : s.waiting[k]? = some ps) :
    wlist s k = ps := by simp [wlist, h]

theorem wlist_of_none {s : State} {k : Nat} (h : s.waiting[k]? = none) :
    wlist s k = [] := by simp [wlist, h]

theorem get_of_wlist {s : State} (hne : NoEmpty s) (k : Nat) :
    s.waiting[k]? = if wlist s k = [] then none else some (wlist s k) := by
  unfold wlist
  cases h : s.waiting[k]? with
  | none => simp
  | some ps =>
    have := hne k; rw [h] at this
    simp at this ⊢; simp [this]

/-- `Inv` in terms of `wlist`. -/
theorem inv_iff (s : State) :
    Inv s ↔ (∀ p k, p ∈ wlist s k ↔ Wants s p k) ∧ (∀ k, (wlist s k).Nodup) ∧ NoEmpty s ∧
      (∀ (p : Nat) (set : KSet), s.wl[p]? = some set → set.size ≤ maxWantlistEntries) ∧
      s.evq = [] := by
  constructor
  · intro h
    refine ⟨?_, ?_, ?_, h.cap, h.evq_nil⟩
    · intro p k; rw [← waits_iff]; exact ⟨h.waits_wants p k, h.wants_waits p k⟩
    · intro k
      cases hk : s.waiting[k]? with
      | none => simp [wlist, hk]
      | some ps => simpa [wlist, hk] using (h.nodup k ps hk).1
    · intro k hk; exact (h.nodup k [] hk).2 rfl
  · rintro ⟨h1, h2, h3, h4, h5⟩
    refine ⟨?_, ?_, ?_, h4, h5⟩
    · intro p k hw; exact (h1 p k).1 ((waits_iff s p k).1 hw)
    · intro p k hw; exact (waits_iff s p k).2 ((h1 p k).2 hw)
    · intro k ps hk
      refine ⟨?_, ?_⟩
      · have := h2 k; rwa [wlist_of_get hk] at this
      · rintro rfl; exact h3 k hk

theorem inv_congr {s s' : State} (h1 : s'.wl = s.wl) (h2 : s'.waiting = s.waiting)
    (h3 : s'.evq = s.evq) (h : Inv s) : Inv s' := by
  rw [inv_iff] at h ⊢
  unfold wlist NoEmpty Wants at *
  rw [h1, h2, h3]; exact h

/-! ### `connect` -/

theorem connect_of_mem (s : State) (p : Nat) (h : p ∈ s.wl) : connect s p = s := by
  simp [connect, h]

theorem inv_connect (s : State) (p : Nat) (h : Inv s) : Inv (connect s p) := by
  unfold connect
  split
  · exact h
  · rename_i hp
    have hnone : s.wl[p]? = none := by
      cases hg : s.wl[p]? with
      | none => rfl
      | some v => exact absurd ((kmap_mem_iff _ _).2 ⟨v, hg⟩) hp
    rw [inv_iff] at h ⊢
    obtain ⟨h1, h2, h3, h4, h5⟩ := h
    refine ⟨?_, h2, h3, ?_, h5⟩
    · intro q k
      show q ∈ wlist s k ↔ _
      rw [h1]
      unfold Wants
      simp only [kmap_get_insert]
      by_cases hq : q = p
      · subst hq; simp [hnone]
      · simp [hq]
    · intro q set
      simp only [kmap_get_insert]
      split
      · intro hs; simp at hs; subst hs; simp
      · exact h4 q set

/-! ### `disconnected` -/

theorem disconnected_waiting_get (s : State) (p k : Nat) :
    (disconnected s p).waiting[k]? =
      match (wlist s k).filter (· != p) with
      | [] => none
      | l => some l := by
  unfold disconnected wlist
  simp only [KMap.get_tab, kmap_mem_keys]
  split
  · rfl
  · rename_i hk
    have : s.waiting[k]? = none := by
      cases hg : s.waiting[k]? with
      | none => rfl
      | some v => exact absurd ((kmap_mem_iff _ _).2 ⟨v, hg⟩) hk
    simp [this]

theorem wlist_disconnected (s : State) (p k : Nat) :
    wlist (disconnected s p) k = (wlist s k).filter (· != p) := by
  conv => lhs; unfold wlist
  rw [disconnected_waiting_get]
  split
  · rename_i h; rw [h]; rfl
  · rfl

theorem noEmpty_disconnected (s : State) (p : Nat) : NoEmpty (disconnected s p) := by
  intro k
  rw [disconnected_waiting_get]
  split <;> simp_all

theorem inv_disconnected (s : State) (p : Nat) (h : Inv s) : Inv (disconnected s p) := by
  rw [inv_iff] at h ⊢
  obtain ⟨h1, h2, h3, h4, h5⟩ := h
  refine ⟨?_, ?_, noEmpty_disconnected s p, ?_, h5⟩
  · intro q k
    rw [wlist_disconnected]
    simp only [List.mem_filter, h1]
    unfold Wants disconnected
    simp only [kmap_get_erase]
    by_cases hq : q = p
    · subst hq; simp
    · simp [hq]
  · intro k; rw [wlist_disconnected]; exact (h2 k).filter _
  · intro q set
    unfold disconnected
    simp only [kmap_get_erase]
    split
    · simp
    · exact h4 q set

/-! ### `cancelRequest` and the registration of additions -/

/-- registration of one new want -/
def addWaiter (p : Nat) (s : State) (k : Nat) : State :=
  { s with waiting := s.waiting.insert k ((s.waiting[k]?.getD []) ++ [p]) }

theorem wlist_cancelRequest (s : State) (p k k' : Nat) :
    wlist (cancelRequest s p k) k' = if k' = k then (wlist s k).erase p else wlist s k' := by
  unfold cancelRequest
  cases hk : s.waiting[k]? with
  | none =>
    simp only
    split
    · subst k'; simp [wlist, hk]
    · rfl
  | some ps =>
    simp only
    split
    · rename_i he
      unfold wlist
      simp only [kmap_get_erase]
      split
      · subst k'; simp at he; simp [hk, he]
      · rfl
    · unfold wlist
      simp only [kmap_get_insert]
      split
      · subst k'; simp [hk]
      · rfl

theorem noEmpty_cancelRequest (s : State) (p k : Nat) (hne : NoEmpty s) :
    NoEmpty (cancelRequest s p k) := by
  intro k'
  unfold cancelRequest
  cases hk : s.waiting[k]? with
  | none => exact hne k'
  | some ps =>
    simp only
    split
    · simp only [kmap_get_erase]
      split
      · simp
      · exact hne k'
    · rename_i he
      simp only [kmap_get_insert]
      split
      · simp at he ⊢; exact he
      · exact hne k'

theorem cancelRequest_fields (s : State) (p k : Nat) :
    (cancelRequest s p k).wl = s.wl ∧ (cancelRequest s p k).outq = s.outq ∧
    (cancelRequest s p k).evq = s.evq ∧ (cancelRequest s p k).tasks = s.tasks ∧
    (cancelRequest s p k).runq = s.runq ∧ (cancelRequest s p k).nextTask = s.nextTask := by
  unfold cancelRequest
  split
  · simp
  · dsimp only
    split <;> simp

theorem foldl_cancel_fields (l : List Nat) (s : State) (p : Nat) :
    (l.foldl (fun s k => cancelRequest s p k) s).wl = s.wl ∧
    (l.foldl (fun s k => cancelRequest s p k) s).outq = s.outq ∧
    (l.foldl (fun s k => cancelRequest s p k) s).evq = s.evq ∧
    (l.foldl (fun s k => cancelRequest s p k) s).tasks = s.tasks ∧
    (l.foldl (fun s k => cancelRequest s p k) s).runq = s.runq ∧
    (l.foldl (fun s k => cancelRequest s p k) s).nextTask = s.nextTask := by
  induction l generalizing s with
  | nil => simp
  | cons a as ih =>
    simp only [List.foldl_cons]
    obtain ⟨h1, h2, h3, h4, h5, h6⟩ := ih (cancelRequest s p a)
    obtain ⟨g1, g2, g3, g4, g5, g6⟩ := cancelRequest_fields s p a
    exact ⟨h1.trans g1, h2.trans g2, h3.trans g3, h4.trans g4, h5.trans g5, h6.trans g6⟩

theorem foldl_cancel_spec (l : List Nat) (s : State) (p : Nat) (hne : NoEmpty s) (hl : l.Nodup) :
    NoEmpty (l.foldl (fun s k => cancelRequest s p k) s) ∧
    ∀ k, wlist (l.foldl (fun s k => cancelRequest s p k) s) k =
      if k ∈ l then (wlist s k).erase p else wlist s k := by
  induction l generalizing s with
  | nil => simp [hne]
  | cons a as ih =>
    simp only [List.foldl_cons]
    rw [List.nodup_cons] at hl
    obtain ⟨h1, h2⟩ := ih (cancelRequest s p a) (noEmpty_cancelRequest s p a hne) hl.2
    refine ⟨h1, ?_⟩
    intro k
    rw [h2, wlist_cancelRequest]
    by_cases hka : k = a
    · subst hka; simp [hl.1]
    · simp [hka]

theorem wlist_addWaiter (s : State) (p k k' : Nat) :
    wlist (addWaiter p s k) k' = if k' = k then wlist s k ++ [p] else wlist s k' := by
  unfold addWaiter wlist
  simp only [kmap_get_insert]
  split
  · subst k'; simp
  · rfl

theorem noEmpty_addWaiter (s : State) (p k : Nat) (hne : NoEmpty s) :
    NoEmpty (addWaiter p s k) := by
  intro k'
  unfold addWaiter
  simp only [kmap_get_insert]
  split
  · simp
  · exact hne k'

theorem foldl_add_fields (l : List Nat) (s : State) (p : Nat) :
    (l.foldl (addWaiter p) s).wl = s.wl ∧
    (l.foldl (addWaiter p) s).outq = s.outq ∧
    (l.foldl (addWaiter p) s).evq = s.evq ∧
    (l.foldl (addWaiter p) s).tasks = s.tasks ∧
    (l.foldl (addWaiter p) s).runq = s.runq ∧
    (l.foldl (addWaiter p) s).nextTask = s.nextTask := by
  induction l generalizing s with
  | nil => simp
  | cons a as ih =>
    simp only [List.foldl_cons]
    obtain ⟨h1, h2, h3, h4, h5, h6⟩ := ih (addWaiter p s a)
    exact ⟨h1, h2, h3, h4, h5, h6⟩

theorem foldl_add_spec (l : List Nat) (s : State) (p : Nat) (hne : NoEmpty s) (hl : l.Nodup) :
    NoEmpty (l.foldl (addWaiter p) s) ∧
    ∀ k, wlist (l.foldl (addWaiter p) s) k =
      if k ∈ l then wlist s k ++ [p] else wlist s k := by
  induction l generalizing s with
  | nil => simp [hne]
  | cons a as ih =>
    simp only [List.foldl_cons]
    rw [List.nodup_cons] at hl
    obtain ⟨h1, h2⟩ := ih (addWaiter p s a) (noEmpty_addWaiter s p a hne) hl.2
    refine ⟨h1, ?_⟩
    intro k
    rw [h2, wlist_addWaiter]
    by_cases hka : k = a
    · subst hka; simp [hl.1]
    · simp [hka]

/-! ### `incoming` -/

/-- the state after the two registration loops of `incoming` -/
def incomingMid (s : State) (p : Nat) (new : KSet) (added removed : List Nat) : State :=
  added.foldl (addWaiter p)
    (removed.foldl (fun s k => cancelRequest s p k) { s with wl := s.wl.insert p new })

theorem incoming_none (s : State) (p : Nat) (full : Bool) (es : List Entry)
    (h : s.wl[p]? = none) : incoming s p full es = s := by
  simp [incoming, h]

theorem incoming_eq (s : State) (p : Nat) (full : Bool) (es : List Entry) (cur : KSet)
    (hc : s.wl[p]? = some cur) :
    incoming s p full es =
      let r := processWantlist cur full es
      let m := incomingMid s p r.1 r.2.1 r.2.2
      { m with tasks := m.tasks ++ [{ id := m.nextTask, peer := p, todo := r.2.1 }],
               runq := m.runq ++ [m.nextTask], nextTask := m.nextTask + 1 } := by
  unfold incoming
  rw [hc]
  rfl

theorem incomingMid_fields (s : State) (p : Nat) (new : KSet) (added removed : List Nat) :
    (incomingMid s p new added removed).wl = s.wl.insert p new ∧
    (incomingMid s p new added removed).evq = s.evq ∧
    (incomingMid s p new added removed).tasks = s.tasks ∧
    (incomingMid s p new added removed).runq = s.runq ∧
    (incomingMid s p new added removed).nextTask = s.nextTask := by
  unfold incomingMid
  obtain ⟨h1, h2, h3, h4, h5, h6⟩ := foldl_add_fields added
    (removed.foldl (fun s k => cancelRequest s p k) { s with wl := s.wl.insert p new }) p
  obtain ⟨g1, g2, g3, g4, g5, g6⟩ := foldl_cancel_fields removed
    { s with wl := s.wl.insert p new } p
  exact ⟨h1.trans g1, h3.trans g3, h4.trans g4, h5.trans g5, h6.trans g6⟩

theorem incomingMid_spec (s : State) (p : Nat) (new : KSet) (added removed : List Nat)
    (hne : NoEmpty s) (ha : added.Nodup) (hr : removed.Nodup) :
    NoEmpty (incomingMid s p new added removed) ∧
    ∀ k, wlist (incomingMid s p new added removed) k =
      if k ∈ added then (if k ∈ removed then (wlist s k).erase p else wlist s k) ++ [p]
      else (if k ∈ removed then (wlist s k).erase p else wlist s k) := by
  unfold incomingMid
  have hne1 : NoEmpty { s with wl := s.wl.insert p new } := hne
  obtain ⟨c1, c2⟩ := foldl_cancel_spec removed _ p hne1 hr
  obtain ⟨a1, a2⟩ := foldl_add_spec added _ p c1 ha
  refine ⟨a1, ?_⟩
  intro k
  rw [a2, c2]
  rfl

theorem incoming_wl (s : State) (p : Nat) (full : Bool) (es : List Entry) (cur : KSet)
    (hc : s.wl[p]? = some cur) :
    (incoming s p full es).wl = s.wl.insert p (processWantlist cur full es).1 := by
  rw [incoming_eq s p full es cur hc]
  exact (incomingMid_fields _ _ _ _ _).1

theorem wants_incoming_self (s : State) (p : Nat) (full : Bool) (es : List Entry) (cur : KSet)
    (hc : s.wl[p]? = some cur) (k : Nat) :
    Wants (incoming s p full es) p k ↔ k ∈ (processWantlist cur full es).1 := by
  unfold Wants
  rw [incoming_wl s p full es cur hc, kmap_get_insert]
  simp

theorem wlist_incoming (s : State) (p : Nat) (full : Bool) (es : List Entry) (cur : KSet)
    (hc : s.wl[p]? = some cur) (k : Nat) :
    wlist (incoming s p full es) k =
      wlist (incomingMid s p (processWantlist cur full es).1 (processWantlist cur full es).2.1
        (processWantlist cur full es).2.2) k := by
  rw [incoming_eq s p full es cur hc]
  rfl

theorem incoming_waiting (s : State) (p : Nat) (full : Bool) (es : List Entry) (cur : KSet)
    (hc : s.wl[p]? = some cur) :
    (incoming s p full es).waiting =
      (incomingMid s p (processWantlist cur full es).1 (processWantlist cur full es).2.1
        (processWantlist cur full es).2.2).waiting := by
  rw [incoming_eq s p full es cur hc]

theorem inv_incoming (s : State) (p : Nat) (full : Bool) (es : List Entry) (h : Inv s) :
    Inv (incoming s p full es) := by
  cases hc : s.wl[p]? with
  | none => rw [incoming_none s p full es hc]; exact h
  | some cur =>
    have pw := pwspec cur full es
    generalize hnew : (processWantlist cur full es).1 = new at pw
    generalize hadd : (processWantlist cur full es).2.1 = added at pw
    generalize hrem : (processWantlist cur full es).2.2 = removed at pw
    have hwl : (incoming s p full es).wl = s.wl.insert p new := by
      rw [incoming_wl s p full es cur hc, hnew]
    have hw : ∀ k, wlist (incoming s p full es) k = wlist (incomingMid s p new added removed) k := by
      intro k; rw [wlist_incoming s p full es cur hc, hnew, hadd, hrem]
    have hwait : (incoming s p full es).waiting = (incomingMid s p new added removed).waiting := by
      rw [incoming_waiting s p full es cur hc, hnew, hadd, hrem]
    have hevq : (incoming s p full es).evq = s.evq := by
      rw [incoming_eq s p full es cur hc]
      exact (incomingMid_fields _ _ _ _ _).2.1
    rw [inv_iff] at h ⊢
    obtain ⟨h1, h2, h3, h4, h5⟩ := h
    obtain ⟨m1, m2⟩ := incomingMid_spec s p new added removed h3 pw.added_nodup pw.removed_nodup
    have hcur : ∀ k, p ∈ wlist s k ↔ k ∈ cur := by
      intro k; rw [h1]; unfold Wants; simp [hc]
    refine ⟨?_, ?_, ?_, ?_, ?_⟩
    · intro q k
      rw [hw, m2]
      unfold Wants
      rw [hwl, kmap_get_insert]
      by_cases hq : q = p
      · subst hq
        simp only [if_true, Option.some.injEq, exists_eq_left']
        rw [pw.mem_new]
        have := hcur k
        have hnd := h2 k
        by_cases hka : k ∈ added <;> by_cases hkr : k ∈ removed <;>
          simp [hka, hkr, hnd.mem_erase_iff, this]
      · simp only [hq, if_false]
        have := h1 q k
        unfold Wants at this
        rw [← this]
        by_cases hka : k ∈ added <;> by_cases hkr : k ∈ removed <;>
          simp [hka, hkr, hq, List.mem_erase_of_ne]
    · intro k
      rw [hw, m2]
      have hnd := h2 k
      have hnd' : (if k ∈ removed then (wlist s k).erase p else wlist s k).Nodup := by
        split
        · exact hnd.erase p
        · exact hnd
      split
      · rename_i hka
        rw [List.nodup_append]
        refine ⟨hnd', by simp, ?_⟩
        intro a ha b hb
        simp at hb; subst hb
        rintro rfl
        rcases pw.added_spec k hka with hk | hk
        · have : a ∉ wlist s k := by rw [hcur]; exact hk
          split at ha
          · exact this (List.mem_of_mem_erase ha)
          · exact this ha
        · rw [if_pos hk, hnd.mem_erase_iff] at ha
          exact ha.1 rfl
      · exact hnd'
    · intro k; rw [hwait]; exact m1 k
    · intro q set
      rw [hwl, kmap_get_insert]
      split
      · intro hs; simp at hs; subst hs
        exact pw.cap (h4 p cur hc)
      · exact h4 q set
    · rw [hevq]; exact h5

end Beetswap.Proofs.Server
