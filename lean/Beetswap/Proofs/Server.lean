import Beetswap.Spec.ServerSpec
import Beetswap.Proofs.ServerDrain
/-!
Proofs for the serving side. The statements at the end are used by `Props/C06`, `C07`, `C13`
and must keep these exact statements.
-/
namespace Beetswap.Proofs.Server
open Std Beetswap.Server Beetswap.Spec.ServerSpec
open Beetswap.Client (Out StoreRes)

theorem inv_init : Inv ({} : State) := by
  rw [inv_iff]
  refine ⟨?_, ?_, ?_, ?_, rfl⟩
  · intro p k; simp [wlist, Wants]
  · intro k; simp [wlist]
  · intro k; simp
  · intro p set; simp

theorem inv_step (s : State) (seq : Nat) (op : Op) (h : Inv s) : Inv (step s seq op).1 := by
  cases op with
  | connect p => exact inv_connect s p h
  | disconnected p => exact inv_disconnected s p h
  | msg p full es => exact inv_incoming s p full es h
  | newBlocks bs => exact inv_congr (s := s) rfl rfl rfl h
  | complete n r =>
    show Inv ((complete s n r).getD s)
    unfold complete
    split
    · exact h
    · exact inv_congr (s := s) rfl rfl rfl h
  | drain obs =>
    obtain ⟨mid, b, _, _, _, _, _, _, hu⟩ := drain_spec s seq obs h
    exact hu.inv

theorem inv_reachable (s : State) (seq : Nat) (h : Reachable s seq) : Inv s := by
  induction h with
  | init => exact inv_init
  | step op _ ih => exact inv_step _ _ op ih

/-- C07: a block is dispatched to a peer only if, when the drain started, the peer's recorded
wantlist held its CID. -/
theorem sent_implies_wanted (s : State) (seq : Nat) (obs : Nat → Option Nat) (h : Inv s)
    (p k d : Nat) (hs : (k, d) ∈ sentTo (drain s seq obs).2.2 p) : Wants s p k := by
  obtain ⟨mid, b, hmid, hwl, hwait, hq, hav, hsent, hu⟩ := drain_spec s seq obs h
  rw [hsent] at hs
  rcases hu.sent p k d hs with hs | ⟨_, hw, _⟩
  · simp [sentB_nil] at hs
  · unfold Wants at hw ⊢; rw [← hwl]; exact hw

/-- C07: the dispatched bytes are bytes the blockstore returned for that CID (or bytes the
client half accepted and stored for it). -/
theorem sent_is_available (s : State) (seq : Nat) (obs : Nat → Option Nat) (h : Inv s)
    (p k d : Nat) (hs : (k, d) ∈ sentTo (drain s seq obs).2.2 p) : Available s k d := by
  obtain ⟨mid, b, hmid, hwl, hwait, hq, hav, hsent, hu⟩ := drain_spec s seq obs h
  rw [hsent] at hs
  rcases hu.sent p k d hs with hs | ⟨hl, _, _⟩
  · simp [sentB_nil] at hs
  · exact hav k d (Or.inl hl)

/-- C07: at most one copy per expressed want: in one drain a peer gets at most one block per CID … -/
theorem one_copy_per_drain (s : State) (seq : Nat) (obs : Nat → Option Nat) (h : Inv s)
    (p k : Nat) : ((sentTo (drain s seq obs).2.2 p).filter (fun kd => kd.1 = k)).length ≤ 1 := by
  obtain ⟨mid, b, hmid, hwl, hwait, hq, hav, hsent, hu⟩ := drain_spec s seq obs h
  rw [hsent]
  exact (hu.one p k (by simp [sentB_nil]) (by simp [sentB_nil])).1

/-- … and the want is forgotten once served, so a second copy needs a new want. -/
theorem served_want_forgotten (s : State) (seq : Nat) (obs : Nat → Option Nat) (h : Inv s)
    (p k d : Nat) (hs : (k, d) ∈ sentTo (drain s seq obs).2.2 p) :
    ¬ Wants (drain s seq obs).1 p k := by
  obtain ⟨mid, b, hmid, hwl, hwait, hq, hav, hsent, hu⟩ := drain_spec s seq obs h
  rw [hsent] at hs
  rcases hu.sent p k d hs with hs | ⟨_, _, hnw⟩
  · simp [sentB_nil] at hs
  · exact hnw

/-- C06: whatever is queued for dispatch reaches every peer that waits for it. -/
theorem queued_block_dispatched (s : State) (seq : Nat) (obs : Nat → Option Nat) (h : Inv s)
    (p k d : Nat) (hq : (k, d) ∈ s.outq) (hw : Wants s p k) :
    ∃ d', (k, d') ∈ sentTo (drain s seq obs).2.2 p := by
  obtain ⟨mid, b, hmid, hwl, hwait, hq', hav, hsent, hu⟩ := drain_spec s seq obs h
  rw [hsent]
  apply hu.disp p k d (hq' _ hq)
  unfold Wants at hw ⊢; rw [← hwl] at hw; exact hw

/-- C06: blocks that become available through the node's own fetches are queued. -/
theorem newBlocks_queued (s : State) (bs : List (Nat × Nat)) (kd : Nat × Nat) (h : kd ∈ bs) :
    kd ∈ (newBlocks s bs).outq := by
  unfold newBlocks; exact List.mem_append_right _ h

/-- C06: a want that is new for the peer's record (first expression, re-expression after it was
served, or first in a new session) registers the peer and schedules a blockstore lookup. -/
theorem new_want_scheduled (s : State) (p : Nat) (full : Bool) (es : List Entry) (h : Inv s)
    (cur : KSet) (hc : s.wl[p]? = some cur) (k : Nat) (hk : k ∉ cur)
    (hnew : Wants (incoming s p full es) p k) :
    Waits (incoming s p full es) p k ∧
    ∃ t ∈ (incoming s p full es).tasks, t.peer = p ∧ k ∈ t.todo ∧ t.id ∈ (incoming s p full es).runq := by
  have pw := pwspec cur full es
  have hkn : k ∈ (processWantlist cur full es).1 := (wants_incoming_self s p full es cur hc k).1 hnew
  have hka : k ∈ (processWantlist cur full es).2.1 := by
    rcases (pw.mem_new k).1 hkn with hh | hh
    · exact absurd hh.1 hk
    · exact hh
  have hne : NoEmpty s := ((inv_iff s).1 h).2.2.1
  refine ⟨?_, ?_⟩
  · rw [waits_iff, wlist_incoming s p full es cur hc]
    rw [(incomingMid_spec s p _ _ _ hne pw.added_nodup pw.removed_nodup).2 k, if_pos hka]
    simp
  · rw [incoming_eq s p full es cur hc]
    dsimp only
    refine ⟨_, List.mem_append_right _ (List.mem_singleton_self _), rfl, hka, ?_⟩
    exact List.mem_append_right _ (List.mem_singleton_self _)

/-- C06: an update with a non-cancel entry for `k` records the want when the record is below
the cap and the message does not cancel `k`. -/
theorem update_want_recorded (s : State) (p : Nat) (es : List Entry) (cur : KSet)
    (hc : s.wl[p]? = some cur) (k : Nat) (hk : (⟨some k, false⟩ : Entry) ∈ es)
    (hsmall : cur.size + es.length ≤ maxWantlistEntries) :
    Wants (incoming s p false es) p k := by
  rw [wants_incoming_self s p false es cur hc]
  exact update_new_mem cur es k hk hsmall

/-- C06: a full wantlist records every wanted CID among its first 1024 wanted entries. -/
theorem full_want_recorded (s : State) (p : Nat) (es : List Entry) (cur : KSet)
    (hc : s.wl[p]? = some cur) (k : Nat) (hk : (⟨some k, false⟩ : Entry) ∈ es)
    (hsmall : es.length ≤ maxWantlistEntries) :
    Wants (incoming s p true es) p k := by
  rw [wants_incoming_self s p true es cur hc, mem_full_new, mem_fullWanted_of_short es k hsmall]
  exact hk

/-- C07: a cancel, or a full wantlist omitting the CID, withdraws the want. -/
theorem cancel_withdraws (s : State) (p : Nat) (es : List Entry) (cur : KSet)
    (hc : s.wl[p]? = some cur) (k : Nat) (hk : (⟨some k, true⟩ : Entry) ∈ es)
    (hno : (⟨some k, false⟩ : Entry) ∉ es) : ¬ Wants (incoming s p false es) p k := by
  rw [wants_incoming_self s p false es cur hc]
  intro hm
  rcases update_mem_new cur es k hm with hh | hh
  · exact hh.2 hk
  · exact hno hh

theorem full_omission_withdraws (s : State) (p : Nat) (es : List Entry) (cur : KSet)
    (hc : s.wl[p]? = some cur) (k : Nat) (hno : (⟨some k, false⟩ : Entry) ∉ es) :
    ¬ Wants (incoming s p true es) p k := by
  rw [wants_incoming_self s p true es cur hc, mem_full_new]
  exact fun hm => hno (mem_fullWanted_sub es k hm)

/-- C13: whatever mix of update and full wantlists a peer sends, at most 1024 CIDs are recorded. -/
theorem server_cap (s : State) (seq : Nat) (h : Reachable s seq) (p : Nat) (set : KSet)
    (hp : s.wl[p]? = some set) : set.size ≤ 1024 := by
  exact (inv_reachable s seq h).cap p set hp

/-- C13: all server-side state about a peer is dropped when its last connection closes. -/
theorem disconnect_drops (s : State) (p : Nat) :
    (disconnected s p).wl[p]? = none ∧ ∀ k, ¬ Waits (disconnected s p) p k := by
  refine ⟨?_, ?_⟩
  · unfold disconnected; simp
  · intro k; rw [waits_iff, wlist_disconnected]; simp

/-- C06: … and a reconnecting peer starts from an empty record, so every want is new again. -/
theorem reconnect_fresh (s : State) (p : Nat) :
    (connect (disconnected s p) p).wl[p]? = some ∅ := by
  have hp : p ∉ (disconnected s p).wl := by
    unfold disconnected; simp
  unfold connect
  rw [if_neg hp]
  simp

/-- C15 (server side): a further connection of a known peer changes nothing. -/
theorem extra_connection_keeps_state (s : State) (p : Nat) (h : p ∈ s.wl) : connect s p = s := by
  exact connect_of_mem s p h

end Beetswap.Proofs.Server
