import Beetswap.Model.KMap
/-!
Generic lemmas about sums over `KMap.toList` (used for `presence` / `retained`).
-/
namespace Beetswap.Proofs.ClientQuery
open Std

/-- Sum of `f v` over all bindings of the map. -/
def msum {V : Type} (f : V → Nat) (m : KMap V) : Nat := (m.toList.map (fun kv => f kv.2)).sum

theorem toList_nodup {V : Type} (m : KMap V) : m.toList.Nodup := by
  have h := ExtTreeMap.distinct_keys_toList (t := m)
  refine h.imp ?_
  intro a b hab heq
  apply hab
  subst heq
  exact Std.ReflCmp.compare_self

theorem perm_cons_erase {V : Type} (m : KMap V) (k : Nat) (v : V) (h : m[k]? = some v) :
    m.toList.Perm ((k, v) :: (m.erase k).toList) := by
  apply (List.perm_ext_iff_of_nodup (toList_nodup m) ?_).2
  · intro ⟨a, b⟩
    simp only [ExtTreeMap.mem_toList_iff_getElem?_eq_some, List.mem_cons, Prod.mk.injEq]
    by_cases hak : k = a
    · subst hak
      simp [h]
      exact eq_comm
    · have : ¬ a = k := fun h => hak h.symm
      simp [hak, this, ExtTreeMap.getElem?_erase]
  · refine List.nodup_cons.2 ⟨?_, toList_nodup _⟩
    simp

theorem erase_toList_of_not_mem {V : Type} (m : KMap V) (k : Nat) (h : m[k]? = none) :
    m.erase k = m := by
  apply ExtTreeMap.ext_getElem?
  intro a
  rw [ExtTreeMap.getElem?_erase]
  by_cases hak : k = a
  · subst hak; simp [h]
  · simp [hak]

theorem msum_empty {V : Type} (f : V → Nat) : msum f (∅ : KMap V) = 0 := by
  have : (∅ : KMap V).toList = [] := ExtTreeMap.toList_eq_nil_iff.2 rfl
  simp [msum, this]

theorem sum_map_eq_zero {α : Type} (g : α → Nat) (l : List α) (h : ∀ x ∈ l, g x = 0) :
    (l.map g).sum = 0 := by
  induction l with
  | nil => rfl
  | cons a as ih =>
    simp only [List.map_cons, List.sum_cons]
    rw [h a (by simp), ih (fun x hx => h x (by simp [hx]))]

/-- Removing a key removes its contribution. -/
theorem msum_erase {V : Type} (f : V → Nat) (m : KMap V) (k : Nat) :
    msum f (m.erase k) + (match m[k]? with | some v => f v | none => 0) = msum f m := by
  cases h : m[k]? with
  | none => simp [erase_toList_of_not_mem m k h]
  | some v =>
    have hp := perm_cons_erase m k v h
    have := (hp.map (fun kv => f kv.2)).sum_nat
    simp only [msum]
    rw [this]
    simp
    omega

theorem erase_insert_eq {V : Type} (m : KMap V) (k : Nat) (v : V) :
    (m.insert k v).erase k = m.erase k := by
  apply ExtTreeMap.ext_getElem?
  intro a
  simp only [ExtTreeMap.getElem?_erase, ExtTreeMap.getElem?_insert]
  by_cases hak : k = a
  · subst hak; simp
  · simp [hak]

/-- Overwriting a key replaces its contribution. -/
theorem msum_insert {V : Type} (f : V → Nat) (m : KMap V) (k : Nat) (v : V) :
    msum f (m.insert k v) = msum f (m.erase k) + f v := by
  have h := msum_erase f (m.insert k v) k
  rw [erase_insert_eq] at h
  simp at h
  omega

theorem le_msum {V : Type} (f : V → Nat) (m : KMap V) (k : Nat) (v : V) (h : m[k]? = some v) :
    f v ≤ msum f m := by
  have := msum_erase f m k
  rw [h] at this
  simp at this
  omega

theorem msum_eq_zero_iff {V : Type} (f : V → Nat) (m : KMap V) :
    msum f m = 0 ↔ ∀ (k : Nat) (v : V), m[k]? = some v → f v = 0 := by
  constructor
  · intro h k v hk
    have := le_msum f m k v hk
    omega
  · intro h
    unfold msum
    apply sum_map_eq_zero
    intro ⟨a, b⟩ hab
    exact h a b (ExtTreeMap.mem_toList_iff_getElem?_eq_some.1 hab)

end Beetswap.Proofs.ClientQuery
