import Beetswap.Spec.Wire
import Beetswap.Spec.Limit
/-!
Varint layer: `Varint.enc` / `Varint.dec`, `uvar`, and the quick-protobuf varint readers on
encoded values.
-/
namespace Beetswap.Proofs.Codec
open Beetswap Beetswap.Proto Beetswap.Frame Beetswap.Spec.Wire Beetswap.Spec.Limit

/-! ### `enc` basics -/

theorem enc_lt {n : Nat} (h : n < 128) : Varint.enc n = [n] := by
  rw [Varint.enc]; simp [h]

theorem enc_ge {n : Nat} (h : ¬ n < 128) :
    Varint.enc n = (n % 128 + 128) :: Varint.enc (n / 128) := by
  rw [Varint.enc]; simp [h]

theorem uvar_eq_enc' (v : Nat) : uvar v = Varint.enc v := by
  induction v using Nat.strongRecOn with
  | _ v ih =>
    rw [uvar, Varint.enc]
    split
    · rfl
    · rw [ih (v / 128) (by omega)]

theorem enc_length_pos (n : Nat) : 0 < (Varint.enc n).length := by
  rw [Varint.enc]; split <;> simp

theorem enc_ne_nil (n : Nat) : Varint.enc n ≠ [] := by
  intro h; have := enc_length_pos n; rw [h] at this; simp at this

/-- `n < 128^k` (k ≥ 1) gives at most `k` bytes. -/
theorem enc_length_le : ∀ (k n : Nat), n < 128 ^ (k + 1) → (Varint.enc n).length ≤ k + 1 := by
  intro k
  induction k with
  | zero => intro n h; rw [enc_lt (by simpa using h)]; simp
  | succ k ih =>
    intro n h
    by_cases hn : n < 128
    · rw [enc_lt hn]; simp
    · rw [enc_ge hn]
      have : n / 128 < 128 ^ (k + 1) := by
        rw [Nat.div_lt_iff_lt_mul (by decide)]
        rw [Nat.pow_succ] at h; exact h
      have := ih (n / 128) this
      simp; omega

/-- `128^k ≤ n` gives more than `k` bytes. -/
theorem enc_length_gt : ∀ (k n : Nat), 128 ^ k ≤ n → k < (Varint.enc n).length := by
  intro k
  induction k with
  | zero => intro n _; exact enc_length_pos n
  | succ k ih =>
    intro n h
    have h128 : 128 ≤ n := by
      have : 128 ^ 1 ≤ 128 ^ (k + 1) := Nat.pow_le_pow_right (by decide) (by omega)
      omega
    rw [enc_ge (by omega)]
    have : 128 ^ k ≤ n / 128 := by
      rw [Nat.le_div_iff_mul_le (by decide)]
      rw [Nat.pow_succ] at h; exact h
    have := ih (n / 128) this
    simp; omega

theorem enc_length_le_ten {n : Nat} (h : n < 2 ^ 64) : (Varint.enc n).length ≤ 10 := by
  apply enc_length_le 9 n
  have : (2:Nat) ^ 64 ≤ 128 ^ 10 := by decide
  omega

theorem enc_length_le_four {n : Nat} (h : n ≤ maxMessageSize) : (Varint.enc n).length ≤ 4 := by
  apply enc_length_le 3 n
  simp [maxMessageSize] at h ⊢
  omega

theorem enc_length_one {n : Nat} (h : n < 128) : (Varint.enc n).length = 1 := by
  rw [enc_lt h]; rfl

/-! ### `Varint.dec` round trip -/

theorem decAux_enc (n : Nat) : ∀ (i acc : Nat) (rest : List Nat),
    i ≤ 9 → n < 2 ^ (64 - 7 * i) → acc < 2 ^ (7 * i) → (0 < i → 0 < n) →
    Varint.decAux i acc (Varint.enc n ++ rest) = .ok (acc + n * 2 ^ (7 * i)) rest := by
  induction n using Nat.strongRecOn with
  | _ n ih =>
    intro i acc rest hi hn hacc hpos
    rw [Varint.enc]
    split
    · rename_i h
      have hne : ¬ (n = 0 ∧ 0 < i) := by
        rintro ⟨h0, h1⟩; have := hpos h1; omega
      simp only [List.cons_append, List.nil_append, Varint.decAux, h, if_true, hne, if_false]
      have hi' : i = 0 ∨ i = 1 ∨ i = 2 ∨ i = 3 ∨ i = 4 ∨ i = 5 ∨ i = 6 ∨ i = 7 ∨ i = 8 ∨ i = 9 := by omega
      rcases hi' with rfl | rfl | rfl | rfl | rfl | rfl | rfl | rfl | rfl | rfl <;>
        simp at hn hacc ⊢ <;> omega
    · rename_i h
      have hb : ¬ (n % 128 + 128 < 128) := by omega
      simp only [List.cons_append, Varint.decAux, hb, if_false]
      have hi' : i = 0 ∨ i = 1 ∨ i = 2 ∨ i = 3 ∨ i = 4 ∨ i = 5 ∨ i = 6 ∨ i = 7 ∨ i = 8 ∨ i = 9 := by omega
      have h9 : i ≠ 9 := by
        rintro rfl; simp at hn; omega
      simp only [h9, if_false]
      rw [ih (n / 128) (by omega) (i + 1)]
      · rcases hi' with rfl | rfl | rfl | rfl | rfl | rfl | rfl | rfl | rfl | rfl <;>
          simp at hn hacc ⊢ <;> omega
      · omega
      · rcases hi' with rfl | rfl | rfl | rfl | rfl | rfl | rfl | rfl | rfl | rfl <;>
          simp at hn hacc ⊢ <;> omega
      · rcases hi' with rfl | rfl | rfl | rfl | rfl | rfl | rfl | rfl | rfl | rfl <;>
          simp at hn hacc ⊢ <;> omega
      · intro _; omega

theorem dec_enc (n : Nat) (h : n < 2 ^ 64) (rest : List Nat) :
    Varint.dec (Varint.enc n ++ rest) = .ok n rest := by
  have := decAux_enc n 0 0 rest (by omega) (by simpa using h) (by simp) (by simp)
  simpa [Varint.dec] using this

/-! ### quick-protobuf readers on `enc v` -/

theorem u8_cons (b : Nat) (rest : List Nat) (n : Nat) (h : 0 < n) :
    u8 (b :: rest) n = .ok b rest (n - 1) := by
  simp [u8]; omega

theorem skipCont_enc : ∀ (k v r : Nat) (rest : List Nat) (n : Nat),
    (Varint.enc v).length ≤ k → (Varint.enc v).length ≤ n →
    skipCont k r (Varint.enc v ++ rest) n = .ok r rest (n - (Varint.enc v).length) := by
  intro k
  induction k with
  | zero => intro v r rest n hk; have := enc_length_pos v; omega
  | succ k ih =>
    intro v r rest n hk hn
    by_cases hv : v < 128
    · rw [enc_lt hv] at hn ⊢
      simp at hn
      simp [skipCont, u8_cons _ _ _ hn, hv]
    · rw [enc_ge hv] at hk hn ⊢
      simp at hk hn
      have hb : ¬ (v % 128 + 128 < 128) := by omega
      simp only [List.cons_append, skipCont, u8_cons _ _ _ (show 0 < n by omega), hb, if_false]
      rw [ih (v / 128) r rest (n - 1) (by omega) (by omega)]
      simp; omega

theorem varint32Aux_enc : ∀ (i v r : Nat) (rest : List Nat) (n : Nat),
    i ≤ 4 → v < 2 ^ (64 - 7 * (4 - i)) → (Varint.enc v).length ≤ n →
    varint32Aux i r (Varint.enc v ++ rest) n
      = .ok (r + (v % 2 ^ (32 - 7 * (4 - i))) * 2 ^ (7 * (4 - i))) rest
          (n - (Varint.enc v).length) := by
  intro i
  induction i with
  | zero =>
    intro v r rest n _ hv hn
    by_cases h : v < 128
    · rw [enc_lt h] at hn ⊢
      simp at hn
      simp [varint32Aux, u8_cons _ _ _ hn, h]
    · have hlen : (Varint.enc (v / 128)).length ≤ 5 := by
        apply enc_length_le 4
        simp at hv ⊢; omega
      rw [enc_ge h] at hn ⊢
      simp at hn
      have hb : ¬ (v % 128 + 128 < 128) := by omega
      simp only [List.cons_append, varint32Aux, u8_cons _ _ _ (show 0 < n by omega), hb, if_false]
      rw [skipCont_enc 5 (v / 128) _ rest (n - 1) hlen (by omega)]
      simp
      refine ⟨by omega, by omega⟩
  | succ i ih =>
    intro v r rest n hi hv hn
    have hi' : i = 0 ∨ i = 1 ∨ i = 2 ∨ i = 3 := by omega
    by_cases h : v < 128
    · rw [enc_lt h] at hn ⊢
      simp at hn
      simp only [List.cons_append, List.nil_append, varint32Aux, u8_cons _ _ _ hn, h, if_true]
      rcases hi' with rfl | rfl | rfl | rfl <;> simp <;> omega
    · rw [enc_ge h] at hn ⊢
      simp at hn
      have hb : ¬ (v % 128 + 128 < 128) := by omega
      simp only [List.cons_append, varint32Aux, u8_cons _ _ _ (show 0 < n by omega), hb, if_false]
      rw [ih (v / 128) _ rest (n - 1) (by omega)
        (by rcases hi' with rfl | rfl | rfl | rfl <;> simp at hv ⊢ <;> omega) (by omega)]
      simp
      refine ⟨?_, by omega⟩
      rcases hi' with rfl | rfl | rfl | rfl <;> simp at hv ⊢ <;> omega

theorem readVarint32_enc (v : Nat) (hv : v < 2 ^ 64) (rest : List Nat) (n : Nat)
    (hn : (Varint.enc v).length ≤ n) :
    readVarint32 (Varint.enc v ++ rest) n = .ok (v % 2 ^ 32) rest (n - (Varint.enc v).length) := by
  have := varint32Aux_enc 4 v 0 rest n (by omega) (by simpa using hv) hn
  simpa [readVarint32] using this

theorem varint64Aux_enc : ∀ (i v r : Nat) (rest : List Nat) (n : Nat),
    i ≤ 9 → v < 2 ^ (64 - 7 * (9 - i)) → (Varint.enc v).length ≤ n →
    varint64Aux i r (Varint.enc v ++ rest) n
      = .ok (r + v * 2 ^ (7 * (9 - i))) rest (n - (Varint.enc v).length) := by
  intro i
  induction i with
  | zero =>
    intro v r rest n _ hv hn
    have h : v < 128 := by simp at hv; omega
    rw [enc_lt h] at hn ⊢
    simp at hn
    simp [varint64Aux, u8_cons _ _ _ hn, h]
    simp at hv
    omega
  | succ i ih =>
    intro v r rest n hi hv hn
    have hi' : i = 0 ∨ i = 1 ∨ i = 2 ∨ i = 3 ∨ i = 4 ∨ i = 5 ∨ i = 6 ∨ i = 7 ∨ i = 8 := by omega
    by_cases h : v < 128
    · rw [enc_lt h] at hn ⊢
      simp at hn
      simp only [List.cons_append, List.nil_append, varint64Aux, u8_cons _ _ _ hn, h, if_true]
      rcases hi' with rfl | rfl | rfl | rfl | rfl | rfl | rfl | rfl | rfl <;> simp <;> omega
    · rw [enc_ge h] at hn ⊢
      simp at hn
      have hb : ¬ (v % 128 + 128 < 128) := by omega
      simp only [List.cons_append, varint64Aux, u8_cons _ _ _ (show 0 < n by omega), hb, if_false]
      rw [ih (v / 128) _ rest (n - 1) (by omega)
        (by rcases hi' with rfl | rfl | rfl | rfl | rfl | rfl | rfl | rfl | rfl <;>
              simp at hv ⊢ <;> omega) (by omega)]
      simp
      refine ⟨?_, by omega⟩
      rcases hi' with rfl | rfl | rfl | rfl | rfl | rfl | rfl | rfl | rfl <;>
        simp at hv ⊢ <;> omega

theorem readVarint64_enc (v : Nat) (hv : v < 2 ^ 64) (rest : List Nat) (n : Nat)
    (hn : (Varint.enc v).length ≤ n) :
    readVarint64 (Varint.enc v ++ rest) n = .ok v rest (n - (Varint.enc v).length) := by
  have := varint64Aux_enc 9 v 0 rest n (by omega) (by simpa using hv) hn
  simpa [readVarint64] using this

end Beetswap.Proofs.Codec
