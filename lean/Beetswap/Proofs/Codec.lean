import Beetswap.Spec.Wire
import Beetswap.Spec.Limit
import Beetswap.Proofs.CodecFrame
import Beetswap.Proofs.CodecOverrun
import Beetswap.Proofs.CodecOverrunCex
/-!
Helper lemmas and proofs for the codec layer (C08 codec part, C09, C10, C11).
The statements used by `Props/` are at the end of this file; they must keep these exact
statements.
-/
namespace Beetswap.Proofs.Codec
-- some hypotheses of the fixed statements below are not needed by the proofs
set_option linter.unusedVariables false
open Beetswap Beetswap.Proto Beetswap.Frame Beetswap.Spec.Wire Beetswap.Spec.Limit

theorem uvar_eq_enc (v : Nat) : uvar v = Varint.enc v :=
  uvar_eq_enc' v

theorem size_eq_length (m : Message) : sizeMessage m = (encodeBody m).length :=
  sizeMessage_eq m

theorem emit_conformant (m : Message) : encodeBody m = serMessage (messageFields m) :=
  encodeBody_eq m

theorem frame_is_length_prefixed (m : Message) :
    encode m = uvar (encodeBody m).length ++ encodeBody m := by
  unfold encode
  rw [uvar_eq_enc', sizeMessage_eq]

theorem messageFields_valid (m : Message) (h : MessageWF m)
    (hs : (encodeBody m).length < 2 ^ 32) : MsgValid (messageFields m) :=
  messageFields_valid' m h hs

theorem interp_messageFields (m : Message) (h : MessageWF m) :
    interpMessage (messageFields m) = m :=
  interpMessage_fields m h

theorem parse_valid_encoding (fs : List MsgFld) (h : MsgValid fs) (rest : List Nat) :
    parseMessage (serMessage fs ++ rest) (serMessage fs).length
      = .ok (interpMessage fs) rest 0 :=
  parseMessage_ser fs h.1 rest

theorem decode_valid_frame (fs : List MsgFld) (h : MsgValid fs)
    (hs : (serMessage fs).length ≤ maxMessageSize) (rest : List Nat) :
    decode (uvar (serMessage fs).length ++ serMessage fs ++ rest)
      = .ok (interpMessage fs) rest :=
  decode_valid_frame' fs h hs rest

theorem decode_encode (m : Message) (h : MessageWF m) (hs : (encodeBody m).length < 2 ^ 32)
    (rest : List Nat) :
    parseMessage (encodeBody m ++ rest) (encodeBody m).length = .ok m rest 0 :=
  decode_encode' m h hs rest

theorem frame_roundtrip (m : Message) (h : MessageWF m) (hs : sizeMessage m ≤ maxMessageSize)
    (rest : List Nat) : decode (encode m ++ rest) = .ok m rest :=
  frame_roundtrip' m h hs rest

theorem needMore_on_strict_prefix (m : Message) (h : MessageWF m)
    (hs : sizeMessage m ≤ maxMessageSize) (p : List Nat) (hp : p <+: encode m)
    (hne : p ≠ encode m) : decode p = .needMore :=
  needMore_on_strict_prefix' m hs p hp hne

theorem chunk_independent (ms : List Message)
    (hwf : ∀ m ∈ ms, MessageWF m ∧ sizeMessage m ≤ maxMessageSize)
    (chunks : List (List Nat)) (hne : ∀ c ∈ chunks, c ≠ [])
    (hcat : chunks.flatten = (ms.map encode).flatten) :
    (framedRead chunks).msgs = ms ∧ (framedRead chunks).fin = .eof :=
  chunk_independent' ms hwf chunks hcat

theorem truncated_stream (ms : List Message) (m : Message)
    (hwf : ∀ m' ∈ m :: ms, MessageWF m' ∧ sizeMessage m' ≤ maxMessageSize)
    (p : List Nat) (hp : p <+: encode m) (hp0 : p ≠ []) (hp1 : p ≠ encode m)
    (chunks : List (List Nat)) (hne : ∀ c ∈ chunks, c ≠ [])
    (hcat : chunks.flatten = (ms.map encode).flatten ++ p) :
    (framedRead chunks).msgs = ms ∧ (framedRead chunks).fin = .err :=
  truncated_stream' ms m hwf p hp hp0 hp1 chunks hcat

theorem oversize_rejected (p : List Nat) (hp : CompleteVarint p)
    (hv : natValue p > maxMessageSize) (rest : List Nat) : decode (p ++ rest) = .err :=
  oversize_rejected' p hp hv rest

theorem nonminimal_rejected (p : List Nat) (hp : CompleteVarint p) (hm : ¬ Minimal p)
    (rest : List Nat) : decode (p ++ rest) = .err :=
  nonminimal_rejected' p hp hm rest

theorem overlong_rejected (p : List Nat) (hl : p.length = 10) (hc : ∀ b ∈ p, 128 ≤ b)
    (rest : List Nat) : decode (p ++ rest) = .err :=
  overlong_rejected' p hl hc rest

theorem needMore_bounded (buf : List Nat) (h : decode buf = .needMore) :
    buf.length < maxMessageSize + 4 :=
  needMore_bounded' buf h

theorem buffer_bounded (chunks : List (List Nat)) (hc : ∀ c ∈ chunks, c.length ≤ 8192) :
    (framedRead chunks).maxBuf ≤ maxMessageSize + 4 + 8192 :=
  buffer_bounded' chunks hc

/-! ### The nesting pre-check of `Codec::decode` (repair of F5 / F6) -/

/-- Every schema-valid encoding passes the pre-check (so the check rejects nothing an encoder
conforming to the schema can produce). -/
theorem check_valid_encoding (fs : List MsgFld) (h : MsgValid fs)
    (hs : (serMessage fs).length ≤ maxMessageSize) :
    checkNesting ((serMessage fs).length + 1) (serMessage fs) .message = true :=
  check_serMessage fs _ h.1 (Nat.le_refl _)

/-- A frame body that passes the pre-check never makes the parser read across the end of a
slice: the unspecified class of the codec model is excluded.

The hypothesis `hl` (the body is shorter than 4 GiB; `decode` only checks bodies of at most
`maxMessageSize` = 4 MiB) is necessary: quick-protobuf reads the length of a nested message with
`read_varint32`, i.e. modulo `2 ^ 32`, so on a body of `2 ^ 32` bytes or more the parser can cut a
nested slice that is not the one the pre-check validated (`CodecOverrunCex.lean`:
`checked_overruns_without_bound`). -/
theorem checked_never_overruns (bs rest : List Nat) (hb : ∀ b ∈ bs, b < 256)
    (hl : bs.length < 2 ^ 32)
    (h : checkNesting (bs.length + 1) bs .message = true) :
    parseMessage (bs ++ rest) bs.length ≠ PRes.overrun := by
  rcases parseMessage_checked _ bs rest hl h with ⟨m, hm⟩ | hm <;> rw [hm] <;> simp

/-- C08 for the codec: for EVERY byte string `decode` returns a message, asks for more bytes or
fails the stream; the parser's unspecified class is unreachable. -/
theorem decode_never_overruns (buf : List Nat) (hb : ∀ b ∈ buf, b < 256) : decode buf ≠ DecRes.overrun := by
  unfold decode
  split
  · simp
  · simp
  · simp
  · rename_i len rest hd
    split
    · simp
    split
    · simp
    split
    · simp
    split
    · simp
    · rename_i hmax hlen hchk
      simp only [Bool.not_eq_true, Bool.not_eq_false'] at hchk
      have hlen' : len ≤ rest.length := by omega
      have hl : (rest.take len).length = len := by rw [List.length_take]; omega
      have hlt : (rest.take len).length < 2 ^ 32 := by
        have := maxMessageSize_lt; omega
      have := parseMessage_checked (len + 1) (rest.take len) (rest.drop len) hlt hchk
      rw [List.take_append_drop, hl] at this
      rcases this with ⟨m, hm⟩ | hm <;> rw [hm] <;> simp

end Beetswap.Proofs.Codec
