import Beetswap.Spec.Wire
import Beetswap.Spec.Limit
/-!
Helper lemmas and proofs for the codec layer (C08 codec part, C09, C10, C11).
The statements used by `Props/` are at the end of this file; they must keep these exact
statements.
-/
namespace Beetswap.Proofs.Codec
open Beetswap Beetswap.Proto Beetswap.Frame Beetswap.Spec.Wire Beetswap.Spec.Limit

theorem uvar_eq_enc (v : Nat) : uvar v = Varint.enc v := by
  sorry

theorem size_eq_length (m : Message) : sizeMessage m = (encodeBody m).length := by
  sorry

theorem emit_conformant (m : Message) : encodeBody m = serMessage (messageFields m) := by
  sorry

theorem frame_is_length_prefixed (m : Message) :
    encode m = uvar (encodeBody m).length ++ encodeBody m := by
  sorry

theorem messageFields_valid (m : Message) (h : MessageWF m)
    (hs : (encodeBody m).length < 2 ^ 32) : MsgValid (messageFields m) := by
  sorry

theorem interp_messageFields (m : Message) (h : MessageWF m) :
    interpMessage (messageFields m) = m := by
  sorry

theorem parse_valid_encoding (fs : List MsgFld) (h : MsgValid fs) (rest : List Nat) :
    parseMessage (serMessage fs ++ rest) (serMessage fs).length
      = .ok (interpMessage fs) rest 0 := by
  sorry

theorem decode_valid_frame (fs : List MsgFld) (h : MsgValid fs)
    (hs : (serMessage fs).length ≤ maxMessageSize) (rest : List Nat) :
    decode (uvar (serMessage fs).length ++ serMessage fs ++ rest)
      = .ok (interpMessage fs) rest := by
  sorry

theorem decode_encode (m : Message) (h : MessageWF m) (hs : (encodeBody m).length < 2 ^ 32)
    (rest : List Nat) :
    parseMessage (encodeBody m ++ rest) (encodeBody m).length = .ok m rest 0 := by
  sorry

theorem frame_roundtrip (m : Message) (h : MessageWF m) (hs : sizeMessage m ≤ maxMessageSize)
    (rest : List Nat) : decode (encode m ++ rest) = .ok m rest := by
  sorry

theorem needMore_on_strict_prefix (m : Message) (h : MessageWF m)
    (hs : sizeMessage m ≤ maxMessageSize) (p : List Nat) (hp : p <+: encode m)
    (hne : p ≠ encode m) : decode p = .needMore := by
  sorry

theorem chunk_independent (ms : List Message)
    (hwf : ∀ m ∈ ms, MessageWF m ∧ sizeMessage m ≤ maxMessageSize)
    (chunks : List (List Nat)) (hne : ∀ c ∈ chunks, c ≠ [])
    (hcat : chunks.flatten = (ms.map encode).flatten) :
    (framedRead chunks).msgs = ms ∧ (framedRead chunks).fin = .eof := by
  sorry

theorem truncated_stream (ms : List Message) (m : Message)
    (hwf : ∀ m' ∈ m :: ms, MessageWF m' ∧ sizeMessage m' ≤ maxMessageSize)
    (p : List Nat) (hp : p <+: encode m) (hp0 : p ≠ []) (hp1 : p ≠ encode m)
    (chunks : List (List Nat)) (hne : ∀ c ∈ chunks, c ≠ [])
    (hcat : chunks.flatten = (ms.map encode).flatten ++ p) :
    (framedRead chunks).msgs = ms ∧ (framedRead chunks).fin = .err := by
  sorry

theorem oversize_rejected (p : List Nat) (hp : CompleteVarint p)
    (hv : natValue p > maxMessageSize) (rest : List Nat) : decode (p ++ rest) = .err := by
  sorry

theorem nonminimal_rejected (p : List Nat) (hp : CompleteVarint p) (hm : ¬ Minimal p)
    (rest : List Nat) : decode (p ++ rest) = .err := by
  sorry

theorem overlong_rejected (p : List Nat) (hl : p.length = 10) (hc : ∀ b ∈ p, 128 ≤ b)
    (rest : List Nat) : decode (p ++ rest) = .err := by
  sorry

theorem needMore_bounded (buf : List Nat) (h : decode buf = .needMore) :
    buf.length < maxMessageSize + 4 := by
  sorry

theorem buffer_bounded (chunks : List (List Nat)) (hc : ∀ c ∈ chunks, c.length ≤ 8192) :
    (framedRead chunks).maxBuf ≤ maxMessageSize + 4 + 8192 := by
  sorry

end Beetswap.Proofs.Codec
