import Beetswap.Proofs.Handler
import Beetswap.Model.ClientLink
/-!
What one call of the client connection handler adds to the reports on their way to the behaviour,
for every shape of the handler state reachable under the environment's obligations
(`Proofs.Handler.R`) and every answer of the sink and the timer.
-/
namespace Beetswap.Proofs.ClientLink
open Beetswap.ClientHandler Beetswap.Spec.HandlerSpec Beetswap.Proofs.Handler

/-- the sending states among some handler events -/
def states (rs : List Report) : List HS :=
  rs.filterMap fun r => match r with
    | .state s => some s
    | .closingConn => none

theorem states_append (a b : List Report) : states (a ++ b) = states a ++ states b := by
  simp [states, List.filterMap_append]

/-- the events created by one call: returned from it or left in the handler's queue -/
def added (h : H) (i : In) : List Report :=
  (Beetswap.ClientLink.reportsOf (step h i).2 ++ (step h i).1.queue).drop h.queue.length

/-- the summary of one call -/
structure Adds (h : H) (i : In) : Prop where
  flight : Beetswap.ClientLink.reportsOf (step h i).2 ++ (step h i).1.queue = h.queue ++ added h i
  last : (step h i).1.ss = ((states (added h i)).getLast?).getD h.ss
  quiet : h.ss = .ready → states (added h i) = []
  ready_last : ∀ x ∈ (states (added h i)).dropLast, x ≠ .ready

macro "hs_simp" : tactic => `(tactic|
  simp [added, states, Beetswap.ClientLink.reportsOf, step, poll, pollFuel, setStream, allocFailed,
    beginClose, popClose, changeState, dropSink])

theorem adds_closing (h : H) (hc : h.closing = true) : Adds h .pollClose := by
  cases hq : h.queue with
  | nil =>
    constructor <;> simp [added, states, Beetswap.ClientLink.reportsOf, step, beginClose, popClose, hc, hq]
  | cons r rest =>
    constructor <;> simp [added, states, Beetswap.ClientLink.reportsOf, step, beginClose, popClose, hc, hq]

theorem adds_idleReady (i : In) (st : Option Nat)
    (ho : Obeys1 { msg := none, sink := .none, ss := .ready, timer := false, halted := false, closing := false, queue := [] } i)
    (hi : ∀ w, i ≠ .sendWantlist w) :
    Adds { msg := none, sink := .none, ss := .ready, timer := false, halted := false, closing := false, queue := [] } i := by
  cases i with
  | sendWantlist w => exact absurd rfl (hi w)
  | poll env =>
    obtain ⟨tf, pr, so, fl⟩ := env
    constructor <;> cases tf <;> cases pr <;> cases so <;> cases fl <;> hs_simp
  | _ => first | (simp [Obeys1] at ho; done) | (constructor <;> hs_simp)

theorem adds_idleFailed (i : In) (hl : Bool)
    (ho : Obeys1 { msg := none, sink := .none, ss := .failed, timer := false, halted := hl, closing := false, queue := [] } i)
    (hi : ∀ w, i ≠ .sendWantlist w) :
    Adds { msg := none, sink := .none, ss := .failed, timer := false, halted := hl, closing := false, queue := [] } i := by
  cases i with
  | sendWantlist w => exact absurd rfl (hi w)
  | poll env =>
    obtain ⟨tf, pr, so, fl⟩ := env
    constructor <;> cases hl <;> cases tf <;> cases pr <;> cases so <;> cases fl <;> hs_simp
  | _ => cases hl <;> first | (simp [Obeys1] at ho; done) | (constructor <;> hs_simp)

theorem adds_accepted_poll (w : Nat) (sk : Sink) (q : List Report) (hq : q = [] ∨ q = [.state .requestReceived])
    (env : Env) :
    Adds { msg := some w, sink := sk, ss := .requestReceived, timer := true, halted := false, closing := false, queue := q }
      (.poll env) := by
  obtain ⟨tf, pr, so, fl⟩ := env
  rcases hq with rfl | rfl <;> cases sk <;> constructor <;> cases tf <;> cases pr <;> cases so <;> cases fl <;> hs_simp

theorem adds_accepted_other (w : Nat) (sk : Sink) (q : List Report) (hq : q = [] ∨ q = [.state .requestReceived])
    (i : In)
    (ho : Obeys1 { msg := some w, sink := sk, ss := .requestReceived, timer := true, halted := false, closing := false, queue := q } i)
    (hi : ∀ w, i ≠ .sendWantlist w) (hp : ∀ env, i ≠ .poll env) :
    Adds { msg := some w, sink := sk, ss := .requestReceived, timer := true, halted := false, closing := false, queue := q } i := by
  cases i with
  | sendWantlist w => exact absurd rfl (hi w)
  | poll env => exact absurd rfl (hp env)
  | _ =>
    rcases hq with rfl | rfl <;> cases sk <;>
      first | (simp [Obeys1] at ho; done) | (constructor <;> hs_simp)

theorem adds_sending (sid : Nat) (i : In)
    (ho : Obeys1 { msg := none, sink := .ready sid, ss := .sending, timer := false, halted := false, closing := false, queue := [] } i)
    (hi : ∀ w, i ≠ .sendWantlist w) :
    Adds { msg := none, sink := .ready sid, ss := .sending, timer := false, halted := false, closing := false, queue := [] } i := by
  cases i with
  | sendWantlist w => exact absurd rfl (hi w)
  | poll env =>
    obtain ⟨tf, pr, so, fl⟩ := env
    constructor <;> cases tf <;> cases pr <;> cases so <;> cases fl <;> hs_simp
  | _ => first | (simp [Obeys1] at ho; done) | (constructor <;> hs_simp)

theorem step_adds (h : H) (sp : SpecState) (i : In) (hr : R h sp) (ho : Obeys1 h i)
    (hi : ∀ w, i ≠ .sendWantlist w) : Adds h i := by
  cases hr with
  | closing _ _ hc sc hq =>
    cases i with
    | pollClose => exact adds_closing h hc
    | _ => simp [Obeys1, hc] at ho
  | idleReady st => exact adds_idleReady i st ho hi
  | idleFailed hl st => exact adds_idleFailed i hl ho hi
  | accepted w sk q st hq hs =>
    by_cases hp : ∃ env, i = .poll env
    · obtain ⟨env, rfl⟩ := hp
      exact adds_accepted_poll w sk q hq env
    · exact adds_accepted_other w sk q hq i ho hi (fun env e => hp ⟨env, e⟩)
  | sending w sid => exact adds_sending sid i ho hi

end Beetswap.Proofs.ClientLink
