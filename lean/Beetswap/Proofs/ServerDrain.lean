import Beetswap.Proofs.ServerIncoming
/-!
Helper lemmas, part 3: lookup tasks (`pollTask`, `pollTasks`), `addBlock`, `updateHandlers`,
`drain`.
-/
namespace Beetswap.Proofs.Server
open Std Beetswap.Server Beetswap.Spec.ServerSpec
open Beetswap.Client (Out StoreRes)

/-! ### Lookup tasks -/
def taskHit (t : Task) (k d : Nat) : Prop :=
  (k, StoreRes.hit d) ∈ t.results ∨
    (t.todo.head? = some k ∧ ∃ r, t.st = LookupSt.ready r ∧ r = StoreRes.hit d)

theorem pollTask_shape (s : State) (seq : Nat) (obs : Nat → Option Nat) (id : Nat) :
    (pollTask s seq obs id = (s, seq, [])) ∨
    (∃ t ∈ s.tasks, ∃ rs, pollTask s seq obs id =
        (finish { s with tasks := s.tasks.filter (·.id != id) } rs, seq, []) ∧
        ∀ k d, (k, StoreRes.hit d) ∈ rs → taskHit t k d) ∨
    (∃ t ∈ s.tasks, ∃ t' k, pollTask s seq obs id =
        ({ s with tasks := s.tasks.map (fun u => if u.id == id then t' else u) }, seq + 1,
          [Out.callGet seq k]) ∧
        (∃ n, t'.st = LookupSt.waiting n) ∧
        ∀ k d, (k, StoreRes.hit d) ∈ t'.results → taskHit t k d) := by
  unfold pollTask
  cases hf : s.tasks.find? (·.id == id) with
  | none => left; rfl
  | some t =>
    have ht : t ∈ s.tasks := List.mem_of_find?_eq_some hf
    dsimp only
    cases hst : t.st with
    | fresh =>
      dsimp only
      cases htd : t.todo with
      | nil => 
        right; left
        exact ⟨t, ht, t.results, rfl, fun k d h => Or.inl h⟩
      | cons k0 rest =>
        right; right
        refine ⟨t, ht, _, _, rfl, ⟨seq, rfl⟩, fun k d h => Or.inl h⟩
    | waiting n => left; rfl
    | ready r =>
      dsimp only
      cases htd : t.todo with
      | nil =>
        right; left
        exact ⟨t, ht, t.results, rfl, fun k d h => Or.inl h⟩
      | cons k rest =>
        dsimp only
        cases hr : rest with
        | nil =>
          right; left
          refine ⟨t, ht, _, rfl, ?_⟩
          intro k' d h
          simp at h
          rcases h with h | ⟨rfl, rfl⟩
          · exact Or.inl h
          · exact Or.inr ⟨by simp [htd], _, hst, rfl⟩
        | cons k0 rest' =>
          right; right
          refine ⟨t, ht, _, _, rfl, ⟨seq, rfl⟩, ?_⟩
          intro k' d h
          simp at h
          rcases h with h | ⟨rfl, rfl⟩
          · exact Or.inl h
          · exact Or.inr ⟨by simp [htd], _, hst, rfl⟩

theorem available_iff (s : State) (k d : Nat) :
    Available s k d ↔ (k, d) ∈ s.outq ∨ ∃ t ∈ s.tasks, taskHit t k d := Iff.rfl

/-- what a round of task polling may change -/
structure PollRel (s s' : State) (outs : List Out) : Prop where
  wl : s'.wl = s.wl
  waiting : s'.waiting = s.waiting
  evq : s'.evq = s.evq
  outq : ∀ x, x ∈ s.outq → x ∈ s'.outq
  avail : ∀ k d, Available s' k d → Available s k d
  outs : ∀ o ∈ outs, ∃ a b, o = Out.callGet a b

theorem PollRel.refl (s : State) : PollRel s s [] :=
  ⟨rfl, rfl, rfl, fun _ h => h, fun _ _ h => h, by simp⟩

theorem PollRel.trans {s s' s'' : State} {o o' : List Out} (h : PollRel s s' o)
    (h' : PollRel s' s'' o') : PollRel s s'' (o ++ o') :=
  ⟨h'.wl.trans h.wl, h'.waiting.trans h.waiting, h'.evq.trans h.evq,
   fun x hx => h'.outq x (h.outq x hx), fun k d ha => h.avail k d (h'.avail k d ha),
   by
    intro x hx
    rcases List.mem_append.1 hx with hx | hx
    · exact h.outs x hx
    · exact h'.outs x hx⟩

theorem mem_finish_outq (s : State) (rs : List (Nat × StoreRes)) (k d : Nat) :
    (k, d) ∈ (finish s rs).outq ↔ (k, d) ∈ s.outq ∨ (k, StoreRes.hit d) ∈ rs := by
  unfold finish
  simp only [List.mem_append, List.mem_filterMap]
  constructor
  · rintro (h | ⟨⟨k', r⟩, hm, he⟩)
    · exact Or.inl h
    · right
      cases r <;> simp at he
      obtain ⟨rfl, rfl⟩ := he; exact hm
  · rintro (h | h)
    · exact Or.inl h
    · exact Or.inr ⟨_, h, rfl⟩

theorem pollTask_rel (s : State) (seq : Nat) (obs : Nat → Option Nat) (id : Nat) :
    PollRel s (pollTask s seq obs id).1 (pollTask s seq obs id).2.2 := by
  rcases pollTask_shape s seq obs id with h | ⟨t, ht, rs, h, hrs⟩ | ⟨t, ht, t', k, h, ⟨n, hn⟩, hrs⟩
  · rw [h]; exact PollRel.refl s
  · rw [h]
    refine ⟨rfl, rfl, rfl, ?_, ?_, by simp⟩
    · intro x hx; cases x with | mk a b => exact (mem_finish_outq _ _ _ _).2 (Or.inl hx)
    · intro k d ha
      rw [available_iff] at ha ⊢
      rcases ha with ha | ⟨u, hu, hh⟩
      · rcases (mem_finish_outq _ _ _ _).1 ha with ha | ha
        · exact Or.inl ha
        · exact Or.inr ⟨t, ht, hrs k d ha⟩
      · exact Or.inr ⟨u, (List.mem_filter.1 hu).1, hh⟩
  · rw [h]
    refine ⟨rfl, rfl, rfl, fun _ hx => hx, ?_, by simp⟩
    intro k d ha
    rw [available_iff] at ha ⊢
    rcases ha with ha | ⟨u, hu, hh⟩
    · exact Or.inl ha
    · right
      simp only [List.mem_map] at hu
      obtain ⟨v, hv, rfl⟩ := hu
      split at hh
      · refine ⟨t, ht, ?_⟩
        rcases hh with hh | ⟨_, r, hr, _⟩
        · exact hrs k d hh
        · rw [hn] at hr; cases hr
      · exact ⟨v, hv, hh⟩

theorem pollTasks_rel (ids : List Nat) (s : State) (seq : Nat) (obs : Nat → Option Nat) :
    PollRel s (pollTasks s seq obs ids).1 (pollTasks s seq obs ids).2.2 := by
  induction ids generalizing s seq with
  | nil => exact PollRel.refl s
  | cons id ids ih =>
    unfold pollTasks
    exact (pollTask_rel s seq obs id).trans (ih _ _)

/-! ### Batches -/

/-- the blocks batched for `q` -/
def sentB (b : List (Nat × List (Nat × Nat))) (q : Nat) : List (Nat × Nat) :=
  (b.filterMap (fun e => if e.1 = q then some e.2 else none)).flatten

def KeysNodup (b : List (Nat × List (Nat × Nat))) : Prop := (b.map (·.1)).Nodup

theorem sentB_nil (q : Nat) : sentB [] q = [] := rfl

theorem sentB_cons (e : Nat × List (Nat × Nat)) (b : List (Nat × List (Nat × Nat))) (q : Nat) :
    sentB (e :: b) q = (if e.1 = q then e.2 else []) ++ sentB b q := by
  unfold sentB
  rw [List.filterMap_cons]
  split <;> rename_i h <;> split at h <;> simp_all

theorem sentB_append (b b' : List (Nat × List (Nat × Nat))) (q : Nat) :
    sentB (b ++ b') q = sentB b q ++ sentB b' q := by
  unfold sentB; simp [List.filterMap_append]

theorem sentB_of_not_mem (b : List (Nat × List (Nat × Nat))) (q : Nat)
    (h : q ∉ b.map (·.1)) : sentB b q = [] := by
  induction b with
  | nil => rfl
  | cons e b ih =>
    simp only [List.map_cons, List.mem_cons, not_or] at h
    rw [sentB_cons, ih h.2, if_neg (fun e' => h.1 e'.symm)]; rfl

theorem sentTo_append (a b : List Out) (p : Nat) : sentTo (a ++ b) p = sentTo a p ++ sentTo b p := by
  unfold sentTo; simp [List.filterMap_append]

theorem sentTo_map_blocks (b : List (Nat × List (Nat × Nat))) (q : Nat) :
    sentTo (b.map (fun e => Out.blocks e.1 e.2)) q = sentB b q := by
  unfold sentTo sentB
  rw [List.filterMap_map]
  rfl

theorem sentTo_of_callGets (o : List Out) (p : Nat) (h : ∀ x ∈ o, ∃ a b, x = Out.callGet a b) :
    sentTo o p = [] := by
  induction o with
  | nil => rfl
  | cons x xs ih =>
    obtain ⟨a, b, rfl⟩ := h _ (List.mem_cons_self ..)
    have := ih (fun y hy => h y (List.mem_cons_of_mem _ hy))
    unfold sentTo at this ⊢
    simpa using this

theorem addBlock_map_spec (acc : List (Nat × List (Nat × Nat))) (p : Nat) (kd : Nat × Nat)
    (q : Nat) (hn : KeysNodup acc) (hp : p ∈ acc.map (·.1)) :
    sentB (acc.map (fun e => if e.1 == p then (e.1, e.2 ++ [kd]) else e)) q =
      sentB acc q ++ if q = p then [kd] else [] := by
  induction acc with
  | nil => simp at hp
  | cons e rest ih =>
    unfold KeysNodup at hn
    simp only [List.map_cons, List.nodup_cons] at hn
    rw [List.map_cons, sentB_cons, sentB_cons]
    by_cases he : e.1 = p
    · have hrest : rest.map (fun e => if e.1 == p then (e.1, e.2 ++ [kd]) else e) = rest := by
        conv => rhs; rw [← List.map_id rest]
        apply List.map_congr_left
        intro x hx
        have : x.1 ≠ p := by
          rintro rfl; exact hn.1 (he ▸ List.mem_map_of_mem hx)
        simp [this]
      rw [hrest]
      simp only [he, beq_self_eq_true, if_true]
      by_cases hq : q = p
      · subst hq
        have : sentB rest q = [] := sentB_of_not_mem rest q (he ▸ hn.1)
        simp [this]
      · have : ¬ p = q := fun h => hq h.symm
        simp [hq, this]
    · have hp' : p ∈ rest.map (·.1) := by
        simp only [List.map_cons, List.mem_cons] at hp
        rcases hp with hp | hp
        · exact absurd hp.symm he
        · exact hp
      rw [ih hn.2 hp']
      simp [he, List.append_assoc]

theorem addBlock_spec (acc : List (Nat × List (Nat × Nat))) (p : Nat) (kd : Nat × Nat)
    (hn : KeysNodup acc) :
    KeysNodup (addBlock acc p kd) ∧
    ∀ q, sentB (addBlock acc p kd) q = sentB acc q ++ if q = p then [kd] else [] := by
  unfold addBlock
  by_cases hp : p ∈ acc.map (·.1)
  · have hany : acc.any (·.1 == p) = true := by
      simp only [List.mem_map] at hp
      obtain ⟨e, he, rfl⟩ := hp
      exact List.any_eq_true.2 ⟨e, he, by simp⟩
    rw [if_pos hany]
    refine ⟨?_, fun q => addBlock_map_spec acc p kd q hn hp⟩
    unfold KeysNodup at hn ⊢
    have : (acc.map (fun e => if e.1 == p then (e.1, e.2 ++ [kd]) else e)).map (·.1) =
        acc.map (·.1) := by
      rw [List.map_map]
      apply List.map_congr_left
      intro x _
      simp only [Function.comp]
      split <;> rfl
    rw [this]; exact hn
  · have hany : ¬ acc.any (·.1 == p) = true := by
      intro h
      obtain ⟨e, he, hep⟩ := List.any_eq_true.1 h
      simp at hep
      exact hp (hep ▸ List.mem_map_of_mem he)
    rw [if_neg hany]
    refine ⟨?_, ?_⟩
    · unfold KeysNodup at hn ⊢
      rw [List.map_append, List.nodup_append]
      refine ⟨hn, by simp, ?_⟩
      intro a ha b hb
      simp at hb; subst hb
      rintro rfl; exact hp ha
    · intro q
      rw [sentB_append, sentB_cons, sentB_nil]
      by_cases hq : q = p
      · subst hq; simp
      · have : ¬ p = q := fun h => hq h.symm
        simp [hq, this]

/-! ### `updateHandlers` -/

abbrev Batches := List (Nat × List (Nat × Nat))

/-- the block `kd` (with CID `k`) goes to the waiting peer `p` -/
def uhInner (k : Nat) (kd : Nat × Nat) (acc : State × Batches) (p : Nat) : State × Batches :=
  ({ acc.1 with wl := match acc.1.wl[p]? with
      | some set => acc.1.wl.insert p (set.erase k)
      | none => acc.1.wl },
   addBlock acc.2 p kd)

/-- dispatch of one queued block -/
def uhStep (acc : State × Batches) (kd : Nat × Nat) : State × Batches :=
  match acc.1.waiting[kd.1]? with
  | none => acc
  | some ps =>
    ps.foldl (uhInner kd.1 kd) ({ acc.1 with waiting := acc.1.waiting.erase kd.1 }, acc.2)

theorem updateHandlers_eq (s : State) :
    updateHandlers s =
      ((s.outq.foldl uhStep ({ s with outq := [] }, [])).1,
       (s.outq.foldl uhStep ({ s with outq := [] }, [])).2.map (fun e => Out.blocks e.1 e.2)) := by
  rfl

theorem uhInner_wl_get (k : Nat) (kd : Nat × Nat) (acc : State × Batches) (p q : Nat) :
    (uhInner k kd acc p).1.wl[q]? =
      if q = p then (acc.1.wl[p]?).map (·.erase k) else acc.1.wl[q]? := by
  unfold uhInner
  dsimp only
  cases h : acc.1.wl[p]? with
  | none =>
    dsimp only
    split
    · subst q; simp [h]
    · rfl
  | some set =>
    dsimp only
    rw [kmap_get_insert]
    split <;> simp

theorem uhInner_fold_spec (k : Nat) (kd : Nat × Nat) (ps : List Nat) (acc : State × Batches)
    (hps : ps.Nodup) (hb : KeysNodup acc.2) :
    (ps.foldl (uhInner k kd) acc).1.waiting = acc.1.waiting ∧
    (ps.foldl (uhInner k kd) acc).1.evq = acc.1.evq ∧
    (∀ q, (ps.foldl (uhInner k kd) acc).1.wl[q]? =
      if q ∈ ps then (acc.1.wl[q]?).map (·.erase k) else acc.1.wl[q]?) ∧
    KeysNodup (ps.foldl (uhInner k kd) acc).2 ∧
    (∀ q, sentB (ps.foldl (uhInner k kd) acc).2 q =
      sentB acc.2 q ++ if q ∈ ps then [kd] else []) := by
  induction ps generalizing acc with
  | nil => simp [hb]
  | cons p ps ih =>
    rw [List.nodup_cons] at hps
    simp only [List.foldl_cons]
    obtain ⟨a1, a2⟩ := addBlock_spec acc.2 p kd hb
    obtain ⟨h1, h2, h3, h4, h5⟩ := ih (uhInner k kd acc p) hps.2 a1
    refine ⟨h1, h2, ?_, h4, ?_⟩
    · intro q
      rw [h3, uhInner_wl_get]
      by_cases hq : q = p
      · subst hq; simp [hps.1]
      · simp [hq]
    · intro q
      rw [h5]
      show sentB (addBlock acc.2 p kd) q ++ _ = _
      rw [a2]
      by_cases hq : q = p
      · subst hq; simp [hps.1]
      · simp [hq]

theorem uhStep_spec (st : State) (b : Batches) (kd : Nat × Nat) (h : Inv st) (hb : KeysNodup b) :
    Inv (uhStep (st, b) kd).1 ∧ KeysNodup (uhStep (st, b) kd).2 ∧
    (∀ q, sentB (uhStep (st, b) kd).2 q = sentB b q ++ if q ∈ wlist st kd.1 then [kd] else []) ∧
    (∀ q k, Wants (uhStep (st, b) kd).1 q k ↔ Wants st q k ∧ k ≠ kd.1) := by
  have hi := (inv_iff st).1 h
  obtain ⟨i1, i2, i3, i4, i5⟩ := hi
  unfold uhStep
  cases hw : st.waiting[kd.1]? with
  | none =>
    dsimp only
    have hwl : wlist st kd.1 = [] := wlist_of_none hw
    refine ⟨h, hb, ?_, ?_⟩
    · intro q; simp [hwl]
    · intro q k
      constructor
      · intro hq
        refine ⟨hq, ?_⟩
        rintro rfl
        have := (i1 q kd.1).2 hq
        rw [hwl] at this; simp at this
      · exact fun hq => hq.1
  | some ps =>
    dsimp only
    have hwl : wlist st kd.1 = ps := wlist_of_get hw
    have hnd : ps.Nodup := hwl ▸ i2 kd.1
    obtain ⟨f1, f2, f3, f4, f5⟩ := uhInner_fold_spec kd.1 kd ps
      ({ st with waiting := st.waiting.erase kd.1 }, b) hnd hb
    generalize ps.foldl (uhInner kd.1 kd) ({ st with waiting := st.waiting.erase kd.1 }, b) = r
      at f1 f2 f3 f4 f5
    dsimp only at f1 f2 f3 f5
    have hwants : ∀ q k, Wants r.1 q k ↔ Wants st q k ∧ k ≠ kd.1 := by
      intro q k
      unfold Wants
      rw [f3]
      by_cases hq : q ∈ ps
      · simp only [hq, if_true, Option.map_eq_some_iff]
        constructor
        · rintro ⟨set, ⟨set0, hs0, rfl⟩, hk⟩
          rw [kset_mem_erase] at hk
          exact ⟨⟨set0, hs0, hk.2⟩, hk.1⟩
        · rintro ⟨⟨set0, hs0, hk⟩, hne⟩
          exact ⟨_, ⟨set0, hs0, rfl⟩, kset_mem_erase.2 ⟨hne, hk⟩⟩
      · simp only [hq, if_false]
        constructor
        · rintro ⟨set, hs, hk⟩
          refine ⟨⟨set, hs, hk⟩, ?_⟩
          rintro rfl
          have := (i1 q kd.1).2 ⟨set, hs, hk⟩
          rw [hwl] at this; exact hq this
        · exact fun hh => hh.1
    have hwlist : ∀ k, wlist r.1 k = if k = kd.1 then [] else wlist st k := by
      intro k
      unfold wlist
      rw [f1, kmap_get_erase]
      split <;> simp
    refine ⟨?_, f4, ?_, hwants⟩
    · rw [inv_iff]
      refine ⟨?_, ?_, ?_, ?_, ?_⟩
      · intro q k
        rw [hwlist, hwants, ← i1]
        split
        · rename_i hk; simp [hk]
        · rename_i hk; simp [hk]
      · intro k; rw [hwlist]; split
        · simp
        · exact i2 k
      · intro k
        rw [f1, kmap_get_erase]
        split
        · simp
        · exact i3 k
      · intro q set
        rw [f3]
        split
        · intro hs
          rw [Option.map_eq_some_iff] at hs
          obtain ⟨set0, hs0, rfl⟩ := hs
          have := i4 q set0 hs0
          have := ExtTreeSet.size_erase_le (t := set0) (k := kd.1)
          omega
        · exact i4 q set
      · rw [f2]; exact i5
    · intro q; rw [f5, hwl]

/-- the dispatch loop over a list of queued blocks, relative to the state before it -/
structure UHRes (st : State) (b : Batches) (l : List (Nat × Nat)) (st' : State) (b' : Batches) :
    Prop where
  inv : Inv st'
  keys : KeysNodup b'
  wants_sub : ∀ q k, Wants st' q k → Wants st q k
  sent : ∀ q k d, (k, d) ∈ sentB b' q →
    (k, d) ∈ sentB b q ∨ ((k, d) ∈ l ∧ Wants st q k ∧ ¬ Wants st' q k)
  sent_mono : ∀ q x, x ∈ sentB b q → x ∈ sentB b' q
  disp : ∀ q k d, (k, d) ∈ l → Wants st q k → ∃ d', (k, d') ∈ sentB b' q
  one : ∀ q k, ((sentB b q).filter (fun kd => kd.1 = k)).length ≤ 1 →
    (Wants st q k → (sentB b q).filter (fun kd => kd.1 = k) = []) →
    ((sentB b' q).filter (fun kd => kd.1 = k)).length ≤ 1 ∧
    (Wants st' q k → (sentB b' q).filter (fun kd => kd.1 = k) = [])

theorem uh_fold_spec (l : List (Nat × Nat)) (st : State) (b : Batches) (h : Inv st)
    (hb : KeysNodup b) :
    UHRes st b l (l.foldl uhStep (st, b)).1 (l.foldl uhStep (st, b)).2 := by
  induction l generalizing st b with
  | nil =>
    exact ⟨h, hb, fun _ _ h => h, fun _ _ _ h => Or.inl h, fun _ _ h => h,
      fun _ _ _ h => by simp at h, fun _ _ h1 h2 => ⟨h1, h2⟩⟩
  | cons kd l ih =>
    show UHRes st b (kd :: l)
      (l.foldl uhStep ((uhStep (st, b) kd).1, (uhStep (st, b) kd).2)).1
      (l.foldl uhStep ((uhStep (st, b) kd).1, (uhStep (st, b) kd).2)).2
    obtain ⟨s1, s2, s3, s4⟩ := uhStep_spec st b kd h hb
    have hi := (inv_iff st).1 h
    have ih' := ih (uhStep (st, b) kd).1 (uhStep (st, b) kd).2 s1 s2
    generalize (uhStep (st, b) kd).1 = st1 at *
    generalize (uhStep (st, b) kd).2 = b1 at *
    generalize (l.foldl uhStep (st1, b1)).1 = st' at *
    generalize (l.foldl uhStep (st1, b1)).2 = b' at *
    refine ⟨ih'.inv, ih'.keys, ?_, ?_, ?_, ?_, ?_⟩
    · intro q k hq; exact ((s4 q k).1 (ih'.wants_sub q k hq)).1
    · intro q k d hs
      rcases ih'.sent q k d hs with hs | ⟨hl, hw, hnw⟩
      · rw [s3, List.mem_append] at hs
        rcases hs with hs | hs
        · exact Or.inl hs
        · right
          split at hs
          · rename_i hq
            simp at hs; subst hs
            refine ⟨List.mem_cons_self .., (hi.1 q k).1 hq, ?_⟩
            intro hw
            exact ((s4 q k).1 (ih'.wants_sub q k hw)).2 rfl
          · simp at hs
      · exact Or.inr ⟨List.mem_cons_of_mem _ hl, ((s4 q k).1 hw).1, hnw⟩
    · intro q x hx
      apply ih'.sent_mono
      rw [s3]; exact List.mem_append_left _ hx
    · intro q k d hl hw
      by_cases hk : k = kd.1
      · refine ⟨kd.2, ih'.sent_mono q _ ?_⟩
        rw [s3, List.mem_append]
        right
        have : q ∈ wlist st kd.1 := hk ▸ (hi.1 q k).2 hw
        rw [if_pos this, hk]; simp
      · have hl' : (k, d) ∈ l := by
          rcases List.mem_cons.1 hl with hl | hl
          · exact absurd (congrArg Prod.fst hl) hk
          · exact hl
        exact ih'.disp q k d hl' ((s4 q k).2 ⟨hw, hk⟩)
    · intro q k h1 h2
      apply ih'.one q k
      · rw [s3, List.filter_append]
        by_cases hc : q ∈ wlist st kd.1 ∧ kd.1 = k
        · have hw : Wants st q k := hc.2 ▸ (hi.1 q kd.1).1 hc.1
          rw [h2 hw, if_pos hc.1]
          simp [hc.2]
        · have : List.filter (fun kd => decide (kd.1 = k))
              (if q ∈ wlist st kd.1 then [kd] else []) = [] := by
            split
            · rename_i hq
              have : ¬ kd.1 = k := fun e => hc ⟨hq, e⟩
              simp [this]
            · rfl
          rw [this, List.append_nil]; exact h1
      · intro hw
        have hw' := (s4 q k).1 hw
        rw [s3, List.filter_append, h2 hw'.1]
        split
        · have : ¬ kd.1 = k := fun e => hw'.2 e.symm
          simp [this]
        · rfl

/-! ### `drain` -/

theorem drain_eq (s : State) (seq : Nat) (obs : Nat → Option Nat) :
    drain s seq obs =
      let r1 := pollTasks { s with evq := [], runq := [] } seq obs s.runq
      let r2 := updateHandlers r1.1
      (r2.1, r1.2.1, s.evq ++ r1.2.2 ++ r2.2) := by
  rfl

/-- Everything the theorems about `drain` need. -/
theorem drain_spec (s : State) (seq : Nat) (obs : Nat → Option Nat) (h : Inv s) :
    ∃ (mid : State) (b : Batches),
      Inv mid ∧ mid.wl = s.wl ∧ mid.waiting = s.waiting ∧
      (∀ x, x ∈ s.outq → x ∈ mid.outq) ∧
      (∀ k d, Available mid k d → Available s k d) ∧
      (∀ p, sentTo (drain s seq obs).2.2 p = sentB b p) ∧
      UHRes { mid with outq := [] } [] mid.outq (drain s seq obs).1 b := by
  rw [drain_eq]
  have hr := pollTasks_rel s.runq { s with evq := [], runq := [] } seq obs
  generalize pollTasks { s with evq := [], runq := [] } seq obs s.runq = r1 at hr
  dsimp only
  rw [updateHandlers_eq]
  dsimp only
  have hmid : Inv r1.1 := by
    apply inv_congr (s := s) hr.wl hr.waiting _ h
    rw [hr.evq]; exact h.evq_nil.symm
  have hmid' : Inv { r1.1 with outq := [] } := inv_congr (s := r1.1) rfl rfl rfl hmid
  refine ⟨r1.1, (r1.1.outq.foldl uhStep ({ r1.1 with outq := [] }, [])).2, hmid, hr.wl,
    hr.waiting, hr.outq, ?_, ?_, uh_fold_spec r1.1.outq _ [] hmid' (by simp [KeysNodup])⟩
  · intro k d ha
    have := hr.avail k d ha
    rw [available_iff] at this ⊢
    exact this
  · intro p
    rw [sentTo_append, sentTo_append, h.evq_nil, sentTo_of_callGets _ p hr.outs, sentTo_map_blocks]
    rfl

end Beetswap.Proofs.Server
