import Beetswap.Proofs.NetATasks
/-!
`AInv` split into groups of conjuncts that read the same part of the state, and what the client
operations other than `drain` do to each group.
-/
namespace Beetswap.Proofs.Net.A
open Std Beetswap.Net Beetswap.Wl
open Beetswap.Client (PeerSt Sending StoreRes Out TaskSt TaskKind Sys sendFullInterval Task)
open Beetswap.Spec.ClientSpec (GSys Ghost gstep grun GInv)

/-- blockstore call `n` of node `a` is pending -/
def Pend (s : State) (n : Nat) : Prop := n ∈ s.callsA.map (·.1) ∨ n ∈ s.putsA

/-- `b` never answers HAVE / DONT_HAVE -/
def ReqVals (ps : PeerSt) : Prop :=
  ∀ (k : Nat) (r : Req), ps.wl.req[k]? = some r → r = Req.sentWantHave ∨ r = Req.gotBlock

/-- the peer table of `a` and the handshake with the wantlists in flight `w` -/
structure APeer (c : Client.State) (w : List WlMsg) : Prop where
  only : ∀ p : Nat, p ≠ 1 → c.peers[p]? = none
  one : ∃ ps, c.peers[1]? = some ps ∧
    ((ps.sending = .ready ∧ w = []) ∨ (ps.sending = .sending 1 ∧ ∃ m, w = [m])) ∧ ReqVals ps
  conn1 : ∀ ps, c.peers[1]? = some ps → ∀ x : Nat, x ∈ ps.conns ↔ x = 1

structure AAsk (c : Client.State) (asked : List Nat) : Prop where
  len : asked.length = c.nextQuery
  get_asked : ∀ t ∈ c.tasks, ∀ q k, t.kind = TaskKind.get q k → k ∈ asked
  want_asked : ∀ k, k ∈ c.wantlist.cids → k ∈ asked

def QOk (queue : List Out) (store : KMap Nat) : Prop :=
  ∀ q d, Out.resp q d ∈ queue → ∃ k : Nat, store[k]? = some d

def AnsOk (answered : List (Nat × Nat)) (store : KMap Nat) : Prop :=
  ∀ qd ∈ answered, ∃ k : Nat, store[k]? = some qd.2

theorem ainv_peer {g : GS} (h : AInv g) : APeer g.s.a.client g.s.wireAB := by
  obtain ⟨ps, hps⟩ := h.peer1
  have e : apeer g.s = ps := by simp [apeer, hps]
  refine ⟨h.peer_only, ⟨ps, hps, ?_, ?_⟩, ?_⟩
  · have := h.wire; rw [e] at this; exact this
  · intro k r hr; have := h.reqvals k r; rw [e] at this; exact this hr
  · intro ps' hps' x
    rw [hps] at hps'; cases hps'
    have := h.conn1 x; rw [e] at this; exact this

theorem ainv_task {g : GS} (h : AInv g) :
    TInv g.s.a.client.tasks g.s.a.client.nextTask g.s.a.client.runq g.s.a.seq (Pend g.s) :=
  ⟨h.no_hit, h.ids_nodup, h.ids_lt, h.sched, h.wait_lt, h.wait_inj⟩

theorem ainv_ask {g : GS} (h : AInv g) : AAsk g.s.a.client g.asked :=
  ⟨h.asked_len, h.get_asked, h.want_asked⟩

theorem ainv_of_parts {g : GS} (coh : g.x.sys = aSys g.s) (ginv : GInv g.x) (srv : SrvIdle g.s.a.server)
    (peer : APeer g.s.a.client g.s.wireAB)
    (deadline : g.s.a.client.deadline ≤ g.s.a.now + sendFullInterval)
    (queue : QOk g.s.a.client.queue g.s.storeB) (ans : AnsOk g.s.answered g.s.storeB)
    (task : TInv g.s.a.client.tasks g.s.a.client.nextTask g.s.a.client.runq g.s.a.seq (Pend g.s))
    (ask : AAsk g.s.a.client g.asked) : AInv g := by
  obtain ⟨ps, hps, hw, hv⟩ := peer.one
  have e : apeer g.s = ps := by simp [apeer, hps]
  exact
    { coh := coh, ginv := ginv, srv_tasks := srv.tasks, srv_runq := srv.runq, srv_evq := srv.evq,
      srv_outq := srv.outq, srv_waiting := srv.waiting, peer1 := ⟨ps, hps⟩, peer_only := peer.only,
      wire := by rw [e]; exact hw, reqvals := by rw [e]; exact hv,
      conn1 := by rw [e]; exact peer.conn1 ps hps, deadline := deadline,
      no_hit := task.no_hit, queue_ok := queue, answered_ok := ans, ids_nodup := task.ids_nodup,
      ids_lt := task.ids_lt, sched := task.sched, wait_lt := task.wait_lt, wait_inj := task.wait_inj,
      asked_len := ask.len, get_asked := ask.get_asked, want_asked := ask.want_asked }

/-- the connections of `b` as seen by `a` are never empty -/
theorem ainv_conns {g : GS} (h : AInv g) (ps : PeerSt) (hps : g.s.a.client.peers[1]? = some ps) :
    ps.conns.isEmpty = false := by
  have := h.ginv.conns_nonempty 1 ps
  rw [h.coh] at this
  exact this hps

theorem ainv_nosend {g : GS} (h : AInv g) (p c : Nat) (m : WlMsg) : Out.send p c m ∉ g.s.a.client.queue := by
  have := h.ginv.queue_nosend p c m
  rw [h.coh] at this
  exact this

theorem APeer.congr {c c' : Client.State} {w : List WlMsg} (h : APeer c w) (hp : c'.peers = c.peers) :
    APeer c' w := by
  obtain ⟨h1, h2, h3⟩ := h
  constructor
  · rw [hp]; exact h1
  · rw [hp]; exact h2
  · rw [hp]; exact h3

/-! ### Pushing a task (`get`, accepted blocks) -/

theorem TInv.push {tasks : List Task} {nt : Nat} {todo : List Nat} {seq : Nat} {P : Nat → Prop}
    (h : TInv tasks nt todo seq P) (kind : TaskKind) :
    TInv (tasks ++ [{ id := nt, kind := kind }]) (nt + 1) (todo ++ [nt]) seq P := by
  constructor
  · intro t ht d
    rcases List.mem_append.1 ht with ht | ht
    · exact h.no_hit t ht d
    · simp only [List.mem_singleton] at ht; subst ht; simp
  · rw [List.map_append, List.nodup_append]
    refine ⟨h.ids_nodup, by simp, ?_⟩
    intro a ha b hb
    simp only [List.map_cons, List.map_nil, List.mem_singleton] at hb
    obtain ⟨t, ht, e⟩ := List.mem_map.1 ha
    have := h.ids_lt t ht
    omega
  · intro t ht
    rcases List.mem_append.1 ht with ht | ht
    · have := h.ids_lt t ht; omega
    · simp only [List.mem_singleton] at ht; subst ht; exact Nat.lt_succ_self _
  · intro t ht
    rcases List.mem_append.1 ht with ht | ht
    · rcases h.sched t ht with ⟨hm, hr⟩ | hr
      · exact .inl ⟨List.mem_append_left _ hm, hr⟩
      · exact .inr hr
    · simp only [List.mem_singleton] at ht; subst ht
      exact .inl ⟨by simp, .inr (by simp)⟩
  · intro t ht n hn
    rcases List.mem_append.1 ht with ht | ht
    · exact h.wait_lt t ht n hn
    · simp only [List.mem_singleton] at ht; subst ht; cases hn
  · intro t ht t' ht' n hn hn'
    rcases List.mem_append.1 ht with ht | ht
    · rcases List.mem_append.1 ht' with ht' | ht'
      · exact h.wait_inj t ht t' ht' n hn hn'
      · simp only [List.mem_singleton] at ht'; subst ht'; cases hn'
    · simp only [List.mem_singleton] at ht; subst ht; cases hn

/-! ### `cancel` -/

theorem mem_enqueue (l : List Nat) (id x : Nat) : x ∈ Client.enqueue l id ↔ x ∈ l ∨ x = id := by
  unfold Client.enqueue
  split
  · constructor
    · exact .inl
    · rintro (h | h)
      · exact h
      · subst h; assumption
  · simp

def setAborted (tasks : List Task) (tid : Nat) : List Task :=
  tasks.map (fun t => if t.id == tid then { t with aborted := true } else t)

theorem mem_setAborted {tasks : List Task} {tid : Nat} {t' : Task} :
    t' ∈ setAborted tasks tid ↔
      ∃ t ∈ tasks, t' = if t.id = tid then { t with aborted := true } else t := by
  simp only [setAborted, List.mem_map, beq_iff_eq]
  constructor
  · rintro ⟨t, ht, e⟩; exact ⟨t, ht, e.symm⟩
  · rintro ⟨t, ht, e⟩; exact ⟨t, ht, e.symm⟩

theorem setAborted_ids (tasks : List Task) (tid : Nat) :
    (setAborted tasks tid).map (·.id) = tasks.map (·.id) := by
  simp only [setAborted, List.map_map]
  apply List.map_congr_left
  intro t _
  simp only [Function.comp]
  split <;> rfl

theorem TInv.abort {tasks : List Task} {nt : Nat} {todo : List Nat} {seq : Nat} {P : Nat → Prop}
    (h : TInv tasks nt todo seq P) (tid : Nat) :
    TInv (setAborted tasks tid) nt (if tasks.any (·.id == tid) then Client.enqueue todo tid else todo) seq P := by
  have hst : ∀ t : Task, (if t.id = tid then { t with aborted := true } else t).st = t.st := by
    intro t; split <;> rfl
  have hid : ∀ t : Task, (if t.id = tid then { t with aborted := true } else t).id = t.id := by
    intro t; split <;> rfl
  constructor
  · intro t' ht' d
    obtain ⟨t, ht, e⟩ := mem_setAborted.1 ht'
    subst e; rw [hst]; exact h.no_hit t ht d
  · rw [setAborted_ids]; exact h.ids_nodup
  · intro t' ht'
    obtain ⟨t, ht, e⟩ := mem_setAborted.1 ht'
    subst e; rw [hid]; exact h.ids_lt t ht
  · intro t' ht'
    obtain ⟨t, ht, e⟩ := mem_setAborted.1 ht'
    subst e
    by_cases ht1 : t.id = tid
    · have hany : tasks.any (·.id == tid) = true := List.any_eq_true.2 ⟨t, ht, by simpa using ht1⟩
      rw [if_pos ht1, if_pos hany]
      exact .inl ⟨(mem_enqueue _ _ _).2 (.inr ht1), .inl rfl⟩
    · simp only [ht1, if_false]
      rcases h.sched t ht with ⟨hm, hr⟩ | hr
      · left
        refine ⟨?_, hr⟩
        split
        · exact (mem_enqueue _ _ _).2 (.inl hm)
        · exact hm
      · exact .inr hr
  · intro t' ht' n hn
    obtain ⟨t, ht, e⟩ := mem_setAborted.1 ht'
    subst e; rw [hst] at hn; exact h.wait_lt t ht n hn
  · intro t' ht' u' hu' n hn hn'
    obtain ⟨t, ht, e⟩ := mem_setAborted.1 ht'
    obtain ⟨u, hu, e'⟩ := mem_setAborted.1 hu'
    subst e e'
    rw [hst] at hn hn'; rw [hid, hid]
    exact h.wait_inj t ht u hu n hn hn'

theorem cancelA_facts (c : Client.State) (q : Nat) :
    (ClientQuery.cancelA c q).peers = c.peers ∧ (ClientQuery.cancelA c q).queue = c.queue ∧
    (ClientQuery.cancelA c q).wantlist = c.wantlist ∧ (ClientQuery.cancelA c q).deadline = c.deadline ∧
    (ClientQuery.cancelA c q).nextTask = c.nextTask ∧ (ClientQuery.cancelA c q).nextQuery = c.nextQuery ∧
    (((ClientQuery.cancelA c q).tasks = c.tasks ∧ (ClientQuery.cancelA c q).runq = c.runq) ∨
      ∃ tid, (ClientQuery.cancelA c q).tasks = setAborted c.tasks tid ∧
        (ClientQuery.cancelA c q).runq = if c.tasks.any (·.id == tid) then Client.enqueue c.runq tid else c.runq) := by
  unfold ClientQuery.cancelA
  split
  · next tid _ => exact ⟨rfl, rfl, rfl, rfl, rfl, rfl, .inr ⟨tid, rfl, rfl⟩⟩
  · exact ⟨rfl, rfl, rfl, rfl, rfl, rfl, .inl ⟨rfl, rfl⟩⟩

theorem cancelW_facts (c : Client.State) (q : Nat) :
    (ClientQuery.cancelW c q).peers = c.peers ∧ (ClientQuery.cancelW c q).queue = c.queue ∧
    (ClientQuery.cancelW c q).deadline = c.deadline ∧
    (ClientQuery.cancelW c q).nextTask = c.nextTask ∧ (ClientQuery.cancelW c q).nextQuery = c.nextQuery ∧
    (ClientQuery.cancelW c q).tasks = c.tasks ∧ (ClientQuery.cancelW c q).runq = c.runq ∧
    (∀ j, j ∈ (ClientQuery.cancelW c q).wantlist.cids → j ∈ c.wantlist.cids) := by
  unfold ClientQuery.cancelW
  split
  · exact ⟨rfl, rfl, rfl, rfl, rfl, rfl, rfl, fun _ h => h⟩
  · dsimp only
    split
    · refine ⟨rfl, rfl, rfl, rfl, rfl, rfl, rfl, ?_⟩
      intro j hj
      exact ((ClientView.remove_cids _ _ _).1 hj).2
    · exact ⟨rfl, rfl, rfl, rfl, rfl, rfl, rfl, fun _ h => h⟩

theorem TSub_setAborted_kind {tasks : List Task} {tid : Nat} {t' : Task} (ht' : t' ∈ setAborted tasks tid) :
    ∃ t ∈ tasks, t'.kind = t.kind := by
  obtain ⟨t, ht, e⟩ := mem_setAborted.1 ht'
  subst e
  refine ⟨t, ht, ?_⟩
  split <;> rfl

/-! ### `complete` -/

def setDone (tasks : List Task) (tid : Nat) (r : StoreRes) : List Task :=
  tasks.map (fun u => if u.id == tid then { u with st := .done r } else u)

theorem mem_setDone {tasks : List Task} {tid : Nat} {r : StoreRes} {t' : Task} :
    t' ∈ setDone tasks tid r ↔
      ∃ t ∈ tasks, t' = if t.id = tid then { t with st := .done r } else t := by
  simp only [setDone, List.mem_map, beq_iff_eq]
  constructor
  · rintro ⟨t, ht, e⟩; exact ⟨t, ht, e.symm⟩
  · rintro ⟨t, ht, e⟩; exact ⟨t, ht, e.symm⟩

theorem setDone_ids (tasks : List Task) (tid : Nat) (r : StoreRes) :
    (setDone tasks tid r).map (·.id) = tasks.map (·.id) := by
  simp only [setDone, List.map_map]
  apply List.map_congr_left
  intro t _
  simp only [Function.comp]
  split <;> rfl

def waitsOn (n : Nat) (t : Task) : Bool :=
  match t.st with
  | .waiting m => m == n
  | _ => false

theorem waitsOn_iff (n : Nat) (t : Task) : waitsOn n t = true ↔ t.st = .waiting n := by
  unfold waitsOn
  split
  · next m h => rw [h]; simp
  · next h =>
    constructor
    · intro e; cases e
    · intro e; exact absurd e (h n)

theorem TInv.setDone {tasks : List Task} {nt : Nat} {todo : List Nat} {seq : Nat} {P P' : Nat → Prop}
    (h : TInv tasks nt todo seq P) {t : Task} (ht : t ∈ tasks) {n : Nat} (hw : t.st = .waiting n)
    (r : StoreRes) (hr : ∀ d, r ≠ .hit d) (hp : ∀ m, m ≠ n → P m → P' m) :
    TInv (setDone tasks t.id r) nt (Client.enqueue todo t.id) seq P' := by
  have hid : ∀ u : Task, (if u.id = t.id then { u with st := TaskSt.done r } else u).id = u.id := by
    intro u; split <;> rfl
  constructor
  · intro u' hu' d
    obtain ⟨u, hu, e⟩ := mem_setDone.1 hu'
    subst e
    split
    · intro e; cases e; exact hr d rfl
    · exact h.no_hit u hu d
  · rw [setDone_ids]; exact h.ids_nodup
  · intro u' hu'
    obtain ⟨u, hu, e⟩ := mem_setDone.1 hu'
    subst e; rw [hid]; exact h.ids_lt u hu
  · intro u' hu'
    obtain ⟨u, hu, e⟩ := mem_setDone.1 hu'
    subst e
    by_cases h1 : u.id = t.id
    · simp only [h1, if_true]
      exact .inl ⟨(mem_enqueue _ _ _).2 (.inr rfl), .inr (by simp)⟩
    · simp only [h1, if_false]
      rcases h.sched u hu with ⟨hm, hq⟩ | ⟨m, hm, hq⟩
      · exact .inl ⟨(mem_enqueue _ _ _).2 (.inl hm), hq⟩
      · refine .inr ⟨m, hm, hp m ?_ hq⟩
        intro e; subst e
        exact h1 (h.wait_inj u hu t ht m hm hw)
  · intro u' hu' m hm
    obtain ⟨u, hu, e⟩ := mem_setDone.1 hu'
    subst e
    by_cases h1 : u.id = t.id
    · simp only [h1, if_true] at hm; cases hm
    · simp only [h1, if_false] at hm; exact h.wait_lt u hu m hm
  · intro u' hu' v' hv' m hm hm'
    obtain ⟨u, hu, e⟩ := mem_setDone.1 hu'
    obtain ⟨v, hv, e'⟩ := mem_setDone.1 hv'
    subst e e'
    rw [hid, hid]
    by_cases h1 : u.id = t.id
    · simp only [h1, if_true] at hm; cases hm
    · by_cases h2 : v.id = t.id
      · simp only [h2, if_true] at hm'; cases hm'
      · simp only [h1, if_false] at hm
        simp only [h2, if_false] at hm'
        exact h.wait_inj u hu v hv m hm hm'

theorem complete_eq (c : Client.State) (n : Nat) (r : StoreRes) :
    (Client.complete c n r).getD c =
      match c.tasks.find? (waitsOn n) with
      | none => c
      | some t => { c with tasks := setDone c.tasks t.id r, runq := Client.enqueue c.runq t.id } := by
  unfold Client.complete
  show (match c.tasks.find? (waitsOn n) with | none => none | some t => _).getD c = _
  split <;> rfl

theorem complete_tinv {c : Client.State} {seq : Nat} {P P' : Nat → Prop}
    (h : TInv c.tasks c.nextTask c.runq seq P) (n : Nat) (r : StoreRes) (hr : ∀ d, r ≠ .hit d)
    (hp : ∀ m, m ≠ n → P m → P' m) :
    TInv ((Client.complete c n r).getD c).tasks ((Client.complete c n r).getD c).nextTask
      ((Client.complete c n r).getD c).runq seq P' := by
  rw [complete_eq]
  split
  · next hf =>
    refine ⟨h.no_hit, h.ids_nodup, h.ids_lt, ?_, h.wait_lt, h.wait_inj⟩
    intro t ht
    rcases h.sched t ht with hl | ⟨m, hm, hq⟩
    · exact .inl hl
    · refine .inr ⟨m, hm, hp m ?_ hq⟩
      intro e; subst e
      have := List.find?_eq_none.1 hf t ht
      exact this ((waitsOn_iff _ _).2 hm)
  · next t hf =>
    exact h.setDone (List.mem_of_find?_eq_some hf) ((waitsOn_iff _ _).1 (List.find?_some hf)) r hr hp

theorem complete_kinds (c : Client.State) (n : Nat) (r : StoreRes) :
    ((Client.complete c n r).getD c).nextQuery = c.nextQuery ∧
    ((Client.complete c n r).getD c).deadline = c.deadline ∧
    TSub ((Client.complete c n r).getD c).tasks c.tasks := by
  rw [complete_eq]
  split
  · exact ⟨rfl, rfl, TSub.refl _⟩
  · refine ⟨rfl, rfl, ?_⟩
    intro u' hu'
    obtain ⟨u, hu, e⟩ := mem_setDone.1 hu'
    subst e
    refine ⟨u, hu, ?_⟩
    split <;> exact ⟨rfl, rfl, rfl⟩

/-! ### `sendingChanged` -/

theorem sendingChanged_frame (c : Client.State) (p src : Nat) (st : Sending) :
    ∃ P, Client.sendingChanged c p src st = { c with peers := P } :=
  ClientSending.sendingChanged_frame c p src st

/-- on the one connection of the composition every report is taken -/
theorem sendingChanged_peers (c : Client.State) (st : Sending) (q : Nat)
    (h : ∀ ps, c.peers[1]? = some ps → ps.sending.conn? = none ∨ ps.sending.conn? = some 1) :
    (Client.sendingChanged c 1 1 st).peers[q]? =
      if q = 1 then (c.peers[1]?).map (fun ps => ({ ps with sending := st } : PeerSt)) else c.peers[q]? := by
  rw [ClientSending.sendingChanged_eq_set c 1 1 st h]
  exact ClientSending.setSending_peers c 1 st q

/-! ### `incoming` (blocks from `b`) -/

theorem applyBlock_facts (s : Client.State) (p k d : Nat) (acc : List (Nat × Nat)) :
    (Client.applyBlock s p k d acc).1.tasks = s.tasks ∧ (Client.applyBlock s p k d acc).1.runq = s.runq ∧
    (Client.applyBlock s p k d acc).1.nextTask = s.nextTask ∧
    (Client.applyBlock s p k d acc).1.nextQuery = s.nextQuery ∧
    (Client.applyBlock s p k d acc).1.deadline = s.deadline ∧
    (∀ q e, Out.resp q e ∈ (Client.applyBlock s p k d acc).1.queue → Out.resp q e ∈ s.queue ∨ e = d) := by
  by_cases hk : k ∈ s.wantlist.cids
  · rw [ClientView.applyBlock_wanted s p k d acc hk]
    refine ⟨rfl, rfl, rfl, rfl, rfl, ?_⟩
    intro q e he
    simp only [List.mem_append, List.mem_map] at he
    rcases he with he | ⟨_, _, he⟩
    · exact .inl he
    · cases he; exact .inr rfl
  · rw [ClientView.applyBlock_unwanted s p k d acc hk]
    exact ⟨rfl, rfl, rfl, rfl, rfl, fun _ _ h => .inl h⟩

theorem applyBlocks_facts (p : Nat) (bs : List (Nat × Nat)) : ∀ (s : Client.State) (acc : List (Nat × Nat)),
    (bs.foldl (fun (acc : Client.State × List (Nat × Nat)) kd => Client.applyBlock acc.1 p kd.1 kd.2 acc.2) (s, acc)).1.tasks = s.tasks ∧
    (bs.foldl (fun (acc : Client.State × List (Nat × Nat)) kd => Client.applyBlock acc.1 p kd.1 kd.2 acc.2) (s, acc)).1.runq = s.runq ∧
    (bs.foldl (fun (acc : Client.State × List (Nat × Nat)) kd => Client.applyBlock acc.1 p kd.1 kd.2 acc.2) (s, acc)).1.nextTask = s.nextTask ∧
    (bs.foldl (fun (acc : Client.State × List (Nat × Nat)) kd => Client.applyBlock acc.1 p kd.1 kd.2 acc.2) (s, acc)).1.nextQuery = s.nextQuery ∧
    (bs.foldl (fun (acc : Client.State × List (Nat × Nat)) kd => Client.applyBlock acc.1 p kd.1 kd.2 acc.2) (s, acc)).1.deadline = s.deadline ∧
    (∀ q e, Out.resp q e ∈ (bs.foldl (fun (acc : Client.State × List (Nat × Nat)) kd => Client.applyBlock acc.1 p kd.1 kd.2 acc.2) (s, acc)).1.queue →
      Out.resp q e ∈ s.queue ∨ ∃ k, (k, e) ∈ bs) := by
  induction bs with
  | nil => intro s acc; exact ⟨rfl, rfl, rfl, rfl, rfl, fun _ _ h => .inl h⟩
  | cons b bs ih =>
    intro s acc
    obtain ⟨a1, a2, a3, a4, a5, a6⟩ := applyBlock_facts s p b.1 b.2 acc
    obtain ⟨b1, b2, b3, b4, b5, b6⟩ := ih (Client.applyBlock s p b.1 b.2 acc).1 (Client.applyBlock s p b.1 b.2 acc).2
    simp only [List.foldl_cons]
    refine ⟨b1.trans a1, b2.trans a2, b3.trans a3, b4.trans a4, b5.trans a5, ?_⟩
    intro q e he
    rcases b6 q e he with h | ⟨k, hk⟩
    · rcases a6 q e h with h | h
      · exact .inl h
      · exact .inr ⟨b.1, by subst h; exact List.mem_cons_self ..⟩
    · exact .inr ⟨k, List.mem_cons_of_mem _ hk⟩

/-- the state after the blocks were applied, before the `put` task is pushed -/
def blocksApplied (c : Client.State) (ps : PeerSt) (bs : List (Nat × Nat)) : Client.State × List (Nat × Nat) :=
  bs.foldl (fun (acc : Client.State × List (Nat × Nat)) kd => Client.applyBlock acc.1 1 kd.1 kd.2 acc.2)
    ({ c with peers := c.peers.insert 1 ps }, [])

theorem incoming_eq (c : Client.State) (bs : List (Nat × Nat)) (ps : PeerSt) (hp : c.peers[1]? = some ps) :
    Client.incoming c 1 [] [] bs =
      if (blocksApplied c ps bs).2.isEmpty then (blocksApplied c ps bs).1
      else (Client.pushTask (blocksApplied c ps bs).1 (.put (blocksApplied c ps bs).2)).1 := by
  simp only [Client.incoming, hp, List.foldl_nil]
  rfl

theorem incoming_groups {c : Client.State} {w : List WlMsg} {seq : Nat} {P : Nat → Prop} {asked : List Nat}
    {store : KMap Nat} (bs : List (Nat × Nat)) (hpeer : APeer c w)
    (ht : TInv c.tasks c.nextTask c.runq seq P) (hk : AAsk c asked) (hq : QOk c.queue store)
    (hb : ∀ kd ∈ bs, store[kd.1]? = some kd.2) :
    APeer (Client.incoming c 1 [] [] bs) w ∧
    TInv (Client.incoming c 1 [] [] bs).tasks (Client.incoming c 1 [] [] bs).nextTask
      (Client.incoming c 1 [] [] bs).runq seq P ∧
    AAsk (Client.incoming c 1 [] [] bs) asked ∧ QOk (Client.incoming c 1 [] [] bs).queue store ∧
    (Client.incoming c 1 [] [] bs).deadline = c.deadline := by
  obtain ⟨ps, hps, hw, hv⟩ := hpeer.one
  obtain ⟨f1, f2, f3, f4, f5, f6⟩ := applyBlocks_facts 1 bs { c with peers := c.peers.insert 1 ps } []
  have hrel := ClientView.blocks_fold_rel 1 bs { c with peers := c.peers.insert 1 ps } []
  change (blocksApplied c ps bs).1.tasks = c.tasks at f1
  change (blocksApplied c ps bs).1.runq = c.runq at f2
  change (blocksApplied c ps bs).1.nextTask = c.nextTask at f3
  change (blocksApplied c ps bs).1.nextQuery = c.nextQuery at f4
  change (blocksApplied c ps bs).1.deadline = c.deadline at f5
  change ∀ q e, Out.resp q e ∈ (blocksApplied c ps bs).1.queue → Out.resp q e ∈ c.queue ∨ ∃ k, (k, e) ∈ bs at f6
  change ClientView.BlockRel 1 (bs.map (·.1)) { c with peers := c.peers.insert 1 ps } (blocksApplied c ps bs).1 at hrel
  -- the groups for the state before the push
  have hpeerF : APeer (blocksApplied c ps bs).1 w := by
    constructor
    · intro p hp1
      rw [hrel.others p hp1]
      show (c.peers.insert 1 ps)[p]? = none
      rw [ClientView.kmap_get_insert]; simp only [hp1, if_false]
      exact hpeer.only p hp1
    · obtain ⟨ps', a1, a2, a3, a4, a5, a6, a7⟩ := hrel.peer ps (by
        show (c.peers.insert 1 ps)[1]? = some ps
        rw [ClientView.kmap_get_insert]; simp)
      refine ⟨ps', a1, by rw [a3]; exact hw, ?_⟩
      intro k r hr
      rw [a7 k] at hr
      split at hr
      · cases hpk : ps.wl.req[k]? with
        | none => simp [hpk] at hr
        | some r0 => simp only [hpk, Option.map_some, Option.some.injEq] at hr; exact .inr hr.symm
      · exact hv k r hr
    · obtain ⟨ps', a1, a2, _⟩ := hrel.peer ps (by
        show (c.peers.insert 1 ps)[1]? = some ps
        rw [ClientView.kmap_get_insert]; simp)
      intro ps'' hps'' x
      rw [a1] at hps''; cases hps''
      rw [a2]; exact hpeer.conn1 ps hps x
  have htF : TInv (blocksApplied c ps bs).1.tasks (blocksApplied c ps bs).1.nextTask
      (blocksApplied c ps bs).1.runq seq P := by rw [f1, f2, f3]; exact ht
  have hkF : AAsk (blocksApplied c ps bs).1 asked := by
    refine ⟨by rw [f4]; exact hk.len, by rw [f1]; exact hk.get_asked, ?_⟩
    intro j hj
    exact hk.want_asked j ((hrel.cids j).1 hj).1
  have hqF : QOk (blocksApplied c ps bs).1.queue store := by
    intro q e he
    rcases f6 q e he with h | ⟨k, h⟩
    · exact hq q e h
    · exact ⟨k, hb (k, e) h⟩
  rw [incoming_eq c bs ps hps]
  split
  · exact ⟨hpeerF, htF, hkF, hqF, f5⟩
  · refine ⟨hpeerF.congr rfl, htF.push _, ?_, hqF, f5⟩
    refine ⟨hkF.len, ?_, hkF.want_asked⟩
    intro t ht' q k hkind
    rcases List.mem_append.1 ht' with h | h
    · exact hkF.get_asked t h q k hkind
    · simp only [List.mem_singleton] at h; subst h; cases hkind

end Beetswap.Proofs.Net.A
