import Beetswap.Proofs.NetProgDefs
import Beetswap.Proofs.NetGhost
import Beetswap.Proofs.NetProgABase
import Beetswap.Proofs.NetProgAMsg
import Beetswap.Proofs.NetProgADrain
/-!
Progress, requesting side: the effect of the actions that touch `a` (`drainA`, `lookupA`,
`putDoneA`, `deliverBA`) on the lexicographic measure `meas`.
-/
namespace Beetswap.Proofs.Net
open Std Beetswap.Net Beetswap.Wl
open Beetswap.Client (PeerSt Sending StoreRes Out TaskSt TaskKind Sys sendFullInterval)

theorem meas_lookupA (g : GS) (ha : AInv g) (n : Nat) :
    (meas (step g.s (.lookupA n))).le (meas g.s) ∧
    (n ∈ g.s.callsA.map (·.1) → (meas (step g.s (.lookupA n))).lt (meas g.s)) := by
  by_cases hany : g.s.callsA.any (·.1 == n) = true
  · have hlt : (meas (step g.s (.lookupA n))).lt (meas g.s) := by
      have hs : step g.s (.lookupA n) = ({ g.s with a := (Node.step g.s.a (.complete n .miss)).1, callsA := g.s.callsA.filter (·.1 != n) } : State) := by
        simp only [step, hany, if_true]
      have ha' := nodeA_complete g.s.a ha.srv n .miss
      have e1 : (step g.s (.lookupA n)).a.client = (Client.complete g.s.a.client n .miss).getD g.s.a.client := by
        rw [hs]; simp only [ha']
      have e2 : (step g.s (.lookupA n)).callsA = g.s.callsA.filter (·.1 != n) := by rw [hs]
      obtain ⟨w1, _⟩ := PA.complete_wt g.s.a.client n .miss
      obtain ⟨c, hc, hcn⟩ := List.any_eq_true.1 hany
      have hlen := PA.filter_length_lt (fun c : Nat × Nat => c.1 != n) g.s.callsA c hc (by simpa using hcn)
      unfold Meas.lt
      left
      rw [PA.c1_eq, PA.c1_eq, e1, e2]
      omega
    exact ⟨Meas.le_of_lt hlt, fun _ => hlt⟩
  · have hs : step g.s (.lookupA n) = g.s := by simp only [step, hany]; rfl
    rw [hs]
    refine ⟨Meas.le_refl _, ?_⟩
    intro hm
    exfalso; apply hany
    rw [List.any_eq_true]
    obtain ⟨c, hc, e⟩ := List.mem_map.1 hm
    exact ⟨c, hc, by simp [e]⟩

theorem meas_putDoneA (g : GS) (ha : AInv g) (n : Nat) :
    (meas (step g.s (.putDoneA n))).le (meas g.s) ∧
    (n ∈ g.s.putsA → (meas (step g.s (.putDoneA n))).lt (meas g.s)) := by
  by_cases hmem : n ∈ g.s.putsA
  · have hlt : (meas (step g.s (.putDoneA n))).lt (meas g.s) := by
      have hs : step g.s (.putDoneA n) = ({ g.s with a := (Node.step g.s.a (.complete n .putOk)).1, putsA := g.s.putsA.filter (· != n) } : State) := by
        simp only [step, hmem, if_true]
      have ha' := nodeA_complete g.s.a ha.srv n .putOk
      have e1 : (step g.s (.putDoneA n)).a.client = (Client.complete g.s.a.client n .putOk).getD g.s.a.client := by
        rw [hs]; simp only [ha']
      have e2 : (step g.s (.putDoneA n)).putsA = g.s.putsA.filter (· != n) := by rw [hs]
      have e3 : (step g.s (.putDoneA n)).a.now = g.s.a.now := by rw [hs]; simp only [ha']
      have e4 : (step g.s (.putDoneA n)).b = g.s.b := by rw [hs]
      have e5 : (step g.s (.putDoneA n)).callsB = g.s.callsB := by rw [hs]
      have e6 : (step g.s (.putDoneA n)).callsA = g.s.callsA := by rw [hs]
      have e7 : (step g.s (.putDoneA n)).wireAB = g.s.wireAB := by rw [hs]
      have e8 : (step g.s (.putDoneA n)).wireBA = g.s.wireBA := by rw [hs]
      obtain ⟨w1, w2⟩ := PA.complete_wt g.s.a.client n .putOk
      obtain ⟨f1, f2, _⟩ := ClientView.complete_fields g.s.a.client n .putOk
      obtain ⟨_, f3, _⟩ := A.complete_kinds g.s.a.client n .putOk
      have hlen := PA.filter_length_lt (fun c : Nat => c != n) g.s.putsA n hmem (by simp)
      have h2 : (meas (step g.s (.putDoneA n))).c2 = (meas g.s).c2 :=
        PA.c2_congr (by rw [e1, f1]) (by rw [e1, f3]) e3
      have h3 : (meas (step g.s (.putDoneA n))).c3 = (meas g.s).c3 :=
        PA.c3_congr (by rw [e1, f1]) (by rw [e1, f2])
      have h5 : (meas (step g.s (.putDoneA n))).c5 = (meas g.s).c5 := PA.c5_congr e4 e5
      have h1 : (meas (step g.s (.putDoneA n))).c1 ≤ (meas g.s).c1 := by
        rw [PA.c1_eq, PA.c1_eq, e1, e6]; omega
      have h4 : (meas (step g.s (.putDoneA n))).c4 = (meas g.s).c4 := by
        rw [PA.c4_eq, PA.c4_eq, e7]
      have h6 : (meas (step g.s (.putDoneA n))).c6 = (meas g.s).c6 := by
        rw [PA.c6_eq, PA.c6_eq, e8]
      have h7 : (meas (step g.s (.putDoneA n))).c7 < (meas g.s).c7 := by
        rw [PA.c7_eq, PA.c7_eq, e1, e2]; omega
      unfold Meas.lt
      omega
    exact ⟨Meas.le_of_lt hlt, fun _ => hlt⟩
  · have hs : step g.s (.putDoneA n) = g.s := by simp only [step, hmem]; rfl
    rw [hs]
    exact ⟨Meas.le_refl _, fun h => absurd h hmem⟩

theorem meas_deliverBA (g : GS) (ha : AInv g) :
    (meas (step g.s .deliverBA)).le (meas g.s) ∧
    (g.s.wireBA ≠ [] → (meas (step g.s .deliverBA)).lt (meas g.s)) := by
  cases hw : g.s.wireBA with
  | nil =>
    have hs : step g.s .deliverBA = g.s := by simp only [step, hw]
    rw [hs]
    exact ⟨Meas.le_refl _, fun h => absurd rfl h⟩
  | cons bs rest =>
    have hlt : (meas (step g.s .deliverBA)).lt (meas g.s) := by
      have hs : step g.s .deliverBA = ({ g.s with a := (Node.step g.s.a (.msg 1 [] [] bs none)).1, wireBA := rest } : State) := by
        simp only [step, hw]
      have e4 : (step g.s .deliverBA).b = g.s.b := by rw [hs]
      have e5 : (step g.s .deliverBA).callsB = g.s.callsB := by rw [hs]
      have e6 : (step g.s .deliverBA).callsA = g.s.callsA := by rw [hs]
      have e7 : (step g.s .deliverBA).wireAB = g.s.wireAB := by rw [hs]
      have e8 : (step g.s .deliverBA).wireBA = rest := by rw [hs]
      have h4 : (meas (step g.s .deliverBA)).c4 = (meas g.s).c4 := by
        rw [PA.c4_eq, PA.c4_eq, e7]
      have h5 : (meas (step g.s .deliverBA)).c5 = (meas g.s).c5 := PA.c5_congr e4 e5
      have h6 : (meas (step g.s .deliverBA)).c6 < (meas g.s).c6 := by
        rw [PA.c6_eq, PA.c6_eq, e8, hw]; simp
      by_cases hb : bs.isEmpty = true
      · have ea : (step g.s .deliverBA).a = g.s.a := by rw [hs]; simp [Node.step, hb]
        have h1 : (meas (step g.s .deliverBA)).c1 = (meas g.s).c1 := by
          rw [PA.c1_eq, PA.c1_eq, ea, e6]
        have h2 : (meas (step g.s .deliverBA)).c2 = (meas g.s).c2 :=
          PA.c2_congr (by rw [ea]) (by rw [ea]) (by rw [ea])
        have h3 : (meas (step g.s .deliverBA)).c3 = (meas g.s).c3 :=
          PA.c3_congr (by rw [ea]) (by rw [ea])
        unfold Meas.lt
        omega
      · have ec : (step g.s .deliverBA).a.client = Client.incoming g.s.a.client 1 [] [] bs := by
          rw [hs]; simp [Node.step, hb]
        have en : (step g.s .deliverBA).a.now = g.s.a.now := by
          rw [hs]; simp [Node.step, hb]
        obtain ⟨ps, hps⟩ := ha.peer1
        obtain ⟨m1, m2, m3, ps', m4, m5, m6⟩ := PA.incoming_meas g.s.a.client bs ps hps
        have hp' : (step g.s .deliverBA).a.client.peers[1]? = some ps' := by rw [ec]; exact m4
        have h1 : (meas (step g.s .deliverBA)).c1 = (meas g.s).c1 := by
          rw [PA.c1_eq, PA.c1_eq, ec, e6, m1]
        have h2 : (meas (step g.s .deliverBA)).c2 = (meas g.s).c2 :=
          PA.c2_congr' (by rw [apeer_eq hp', apeer_eq hps]; exact m5) (by rw [ec]; exact m2) en
        have h3 : (meas (step g.s .deliverBA)).c3 ≤ (meas g.s).c3 := by
          by_cases he : ((apeer g.s).wl.genUpdate g.s.a.client.wantlist).2.isEmpty = true
          · obtain ⟨v1, v2⟩ := PA.genUpdate_empty_vals g.s.a.client (apeer g.s) (ahist g) ha.peerInv
              ha.reqvals he
            rw [apeer_eq hps] at v1 v2
            have : (meas (step g.s .deliverBA)).c3 = 0 := by
              apply PA.c3_zero_of
              rw [apeer_eq hp', ec]
              exact PA.upd_empty_blocks ps.wl ps'.wl g.s.a.client.wantlist _ (bs.map (·.1)) m6 m3 v1 v2
            omega
          · have he : ((apeer g.s).wl.genUpdate g.s.a.client.wantlist).2.isEmpty = false := by simpa using he
            have := PA.c3_one_of he
            have := PA.c3_le_one (step g.s .deliverBA)
            omega
        unfold Meas.lt
        omega
    exact ⟨Meas.le_of_lt hlt, fun _ => hlt⟩

/-- `hq`: the event queue of `a` holds user events only (`PA.qev_reach`: true of every reachable
state). `AInv` alone does not exclude a blockstore call sitting in the event queue, which a drain
would flush into `callsA`. -/
theorem meas_drainA (g : GS) (ha : AInv g) (hq : PA.QEv g.s) :
    (meas (step g.s .drainA)).le (meas g.s) ∧
    (BusyA g.s → (meas (step g.s .drainA)).lt (meas g.s)) := by
  obtain ⟨sb, scb, swb, _⟩ := PA.drainA_state g ha
  obtain ⟨_, cr, cq, _⟩ := PA.drainA_client g ha
  obtain ⟨h1, _, h7⟩ := PA.drainA_c1 g ha hq
  obtain ⟨h2, h3, hn, h4', hsome, h4⟩ := PA.drainA_c234 g ha hq
  have h5 : (meas (step g.s .drainA)).c5 = (meas g.s).c5 := PA.c5_congr sb scb
  have h6 : (meas (step g.s .drainA)).c6 = (meas g.s).c6 := by
    rw [PA.c6_eq, PA.c6_eq, swb]
  have h8' : (meas (step g.s .drainA)).c8 = g.s.b.server.runq.length + bReady g.s := by
    rw [PA.c8_eq, cr, cq, sb, PA.bReady_congr sb]; simp
  have h8 := PA.c8_eq g.s
  constructor
  · unfold Meas.le Meas.lt
    omega
  · intro hbusy
    by_cases hr : g.s.a.client.runq = []
    · by_cases hqe : g.s.a.client.queue = []
      · rcases hbusy with hb | hb | hb
        · exact absurd hr hb
        · exact absurd hqe hb
        · have hs := hsome (PA.drainA_busy_sent g ha hr hqe hb)
          unfold Meas.lt
          omega
      · have : 0 < g.s.a.client.queue.length := List.length_pos_iff.2 hqe
        unfold Meas.lt
        omega
    · have : 0 < g.s.a.client.runq.length := List.length_pos_iff.2 hr
      unfold Meas.lt
      omega

end Beetswap.Proofs.Net
