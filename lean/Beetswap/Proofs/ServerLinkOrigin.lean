import Beetswap.Proofs.ServerLinkThms
/-!
Where the events of `Model/ServerLink` come from: every event the state holds anywhere was put
into the behaviour's queue by a drain of a reachable state — so what C07 says about a drain
(`dispatched_was_wanted`) holds for every block that is ever written on a connection.
-/
namespace Beetswap.Proofs.ServerLink
open Std Beetswap Beetswap.ServerLink Beetswap.ServerSink
open Beetswap.Proofs.Server (kmap_get_insert)
open Beetswap.Spec.ServerSpec (Wants Available)

/-- the state holds event `e` somewhere -/
def Has (s : State) (e : Ev) : Prop :=
  e ∈ s.outbox ∨ (∃ cs, s.pend = some (e, cs)) ∨ e ∈ s.lost ∨
  ∃ (c : Nat) (l : Link), s.links[c]? = some l ∧ (e ∈ l.cmds ∨ e ∈ l.delivered)

/-- `e` was dispatched by a drain of a reachable state -/
def Dispatched (e : Ev) : Prop :=
  ∃ (s0 : State) (obs : Nat → Option Nat), Reachable s0 ∧ e ∈ (ServerLink.step s0 (.drain obs)).outbox ∧ e ∉ s0.outbox

theorem has_of_link {s : State} {e : Ev} {c : Nat} {l : Link} (hl : s.links[c]? = some l)
    (h : e ∈ l.cmds ∨ e ∈ l.delivered) : Has s e := Or.inr (Or.inr (Or.inr ⟨c, l, hl, h⟩))

/-- replacing the record of one connection by one that holds no other events -/
theorem has_insert {s : State} {links' : KMap Link} {c : Nat} {l l' : Link} {e : Ev}
    (hl : s.links[c]? = some l) (hlinks : links' = s.links.insert c l')
    (hsub : e ∈ l'.cmds ∨ e ∈ l'.delivered → Has s e)
    {c1 : Nat} {l1 : Link} (h1 : links'[c1]? = some l1) (he : e ∈ l1.cmds ∨ e ∈ l1.delivered) : Has s e := by
  subst hlinks
  rw [kmap_get_insert] at h1
  by_cases hcc : c1 = c
  · subst hcc
    simp only [if_true, Option.some.injEq] at h1
    subst h1
    exact hsub he
  · simp only [hcc, if_false] at h1
    exact has_of_link h1 he

/-- An action creates no event except a drain, and loses none from sight. -/
theorem has_step (s : State) (a : Act) (e : Ev) (h : Has (ServerLink.step s a) e) :
    Has s e ∨ ∃ obs, a = .drain obs ∧ e ∈ (ServerLink.step s a).outbox ∧ e ∉ s.outbox := by
  cases a with
  | server op =>
    left
    simp only [ServerLink.step] at h
    split at h <;> exact h
  | connect p c =>
    left
    simp only [ServerLink.step] at h
    split at h
    · exact h
    · rename_i hc
      rcases h with h | h | h | ⟨c1, l1, h1, he⟩
      · exact Or.inl h
      · exact Or.inr (Or.inl h)
      · exact Or.inr (Or.inr (Or.inl h))
      · have h1' : (s.links.insert c { peer := p })[c1]? = some l1 := h1
        rw [kmap_get_insert] at h1'
        by_cases hcc : c1 = c
        · subst hcc
          simp only [if_true, Option.some.injEq] at h1'
          subst h1'
          rcases he with he | he <;> exact absurd he List.not_mem_nil
        · simp only [hcc, if_false] at h1'
          exact has_of_link h1' he
  | drain obs =>
    rcases h with h | h | h | ⟨c1, l1, h1, he⟩
    · by_cases hin : e ∈ s.outbox
      · exact Or.inl (Or.inl hin)
      · exact Or.inr ⟨obs, rfl, h, hin⟩
    · exact Or.inl (Or.inr (Or.inl h))
    · exact Or.inl (Or.inr (Or.inr (Or.inl h)))
    · exact Or.inl (has_of_link h1 he)
  | take =>
    left
    simp only [ServerLink.step] at h
    split at h
    · rename_i e0 rest hpd hob
      have hob' : s.outbox = e0 :: rest := hob
      rcases h with h | ⟨cs, h⟩ | h | ⟨c1, l1, h1, he⟩
      · exact Or.inl (by rw [hob']; exact List.mem_cons_of_mem _ h)
      · simp only [Option.some.injEq, Prod.mk.injEq] at h
        exact Or.inl (by rw [hob', h.1]; exact List.mem_cons_self)
      · exact Or.inr (Or.inr (Or.inl h))
      · exact has_of_link h1 he
    · exact h
  | accept c =>
    left
    simp only [ServerLink.step] at h
    split at h
    · rename_i e0 cs hpd
      split at h
      · rename_i l hl
        split at h
        · rcases h with h | ⟨cs', h⟩ | h | ⟨c1, l1, h1, he⟩
          · exact Or.inl h
          · cases h
          · exact Or.inr (Or.inr (Or.inl h))
          · refine has_insert hl rfl ?_ h1 he
            intro hx
            rcases hx with hx | hx
            · rcases List.mem_append.1 hx with hx | hx
              · exact has_of_link hl (Or.inl hx)
              · simp only [List.mem_singleton] at hx
                subst hx
                exact Or.inr (Or.inl ⟨cs, hpd⟩)
            · exact has_of_link hl (Or.inr hx)
        · exact h
      · exact h
    · exact h
  | giveUp =>
    left
    simp only [ServerLink.step] at h
    split at h
    · rename_i e0 cs hpd
      split at h
      · rcases h with h | ⟨cs', h⟩ | h | ⟨c1, l1, h1, he⟩
        · exact Or.inl h
        · cases h
        · rcases List.mem_append.1 h with h | h
          · exact Or.inr (Or.inr (Or.inl h))
          · simp only [List.mem_singleton] at h
            subst h
            exact Or.inr (Or.inl ⟨cs, hpd⟩)
        · exact has_of_link h1 he
      · exact h
    · exact h
  | deliverCmd c =>
    left
    simp only [ServerLink.step] at h
    split at h
    · rename_i l hl
      split at h
      · rename_i e0 rest hcm
        have hcm' : l.cmds = e0 :: rest := hcm
        split at h
        · exact h
        · rcases h with h | h | h | ⟨c1, l1, h1, he⟩
          · exact Or.inl h
          · exact Or.inr (Or.inl h)
          · exact Or.inr (Or.inr (Or.inl h))
          · refine has_insert hl rfl ?_ h1 he
            intro hx
            rcases hx with hx | hx
            · exact has_of_link hl (Or.inl (by rw [hcm']; exact List.mem_cons_of_mem _ hx))
            · rcases List.mem_append.1 hx with hx | hx
              · exact has_of_link hl (Or.inr hx)
              · simp only [List.mem_singleton] at hx
                subst hx
                exact has_of_link hl (Or.inl (by rw [hcm']; exact List.mem_cons_self))
      · exact h
    · exact h
  | handler c i =>
    left
    simp only [ServerLink.step] at h
    split at h
    · rename_i l hl
      split at h
      · exact h
      · rcases h with h | h | h | ⟨c1, l1, h1, he⟩
        · exact Or.inl h
        · exact Or.inr (Or.inl h)
        · exact Or.inr (Or.inr (Or.inl h))
        · refine has_insert hl rfl ?_ h1 he
          exact fun hx => has_of_link hl hx
    · exact h
  | beginClose c =>
    left
    simp only [ServerLink.step] at h
    split at h
    · rename_i l hl
      split at h
      · exact h
      · rcases h with h | h | h | ⟨c1, l1, h1, he⟩
        · exact Or.inl h
        · exact Or.inr (Or.inl h)
        · rcases List.mem_append.1 h with h | h
          · exact Or.inr (Or.inr (Or.inl h))
          · exact has_of_link hl (Or.inl h)
        · refine has_insert hl rfl ?_ h1 he
          intro hx
          rcases hx with hx | hx
          · exact absurd hx List.not_mem_nil
          · exact has_of_link hl (Or.inr hx)
    · exact h
  | swarmClosed c =>
    left
    simp only [ServerLink.step] at h
    split at h
    · rename_i l hl
      split at h
      · rcases h with h | h | h | ⟨c1, l1, h1, he⟩
        · exact Or.inl h
        · exact Or.inr (Or.inl h)
        · exact Or.inr (Or.inr (Or.inl h))
        · refine has_insert hl rfl ?_ h1 he
          exact fun hx => has_of_link hl hx
      · exact h
    · exact h

/-- Every event a reachable state holds anywhere was dispatched by a drain of a reachable state. -/
theorem has_dispatched {s : State} (hr : Reachable s) : ∀ e, Has s e → Dispatched e := by
  induction hr with
  | init =>
    intro e h
    rcases h with h | ⟨cs, h⟩ | h | ⟨c, l, hl, _⟩
    · cases h
    · cases h
    · cases h
    · simp at hl
  | step a hr' ih =>
    intro e h
    rcases has_step _ a e h with h | ⟨obs, rfl, h1, h2⟩
    · exact ih e h
    · exact ⟨_, obs, hr', h1, h2⟩

/-- C07 from the behaviour to the wire: every block written on a connection — in every schedule,
whatever connections opened, closed or failed meanwhile — belongs to an event for that connection's
peer, dispatched by a drain of a reachable state in which the peer's recorded wantlist held the
block's CID and the bytes were available for that CID. -/
theorem written_was_wanted (s : State) (hr : Reachable s) (c : Nat) (l : Link) (hl : s.links[c]? = some l)
    (b : Proto.Block) (hb : b ∈ writtenOf l.outs) :
    ∃ (s0 : State) (k d : Nat), Reachable s0 ∧ b = encB (k, d) ∧ Wants s0.sv l.peer k ∧ Available s0.sv k d := by
  obtain ⟨e, he, hpeer, hbe⟩ := written_from_own_event s hr c l hl b hb
  obtain ⟨s0, obs, hr0, h1, h2⟩ := has_dispatched hr e (has_of_link hl (Or.inr he))
  rw [List.mem_map] at hbe
  obtain ⟨⟨k, d⟩, hkd, rfl⟩ := hbe
  obtain ⟨hw, ha⟩ := dispatched_was_wanted s0 hr0 obs e h1 h2 k d hkd
  exact ⟨s0, k, d, hr0, rfl, hpeer ▸ hw, ha⟩

end Beetswap.Proofs.ServerLink
