import Beetswap.Proofs.NetDefs
import Beetswap.Proofs.Server
/-!
The serving node `b` of the composition: `BInv` is inductive, and what `drainB` / `deliverAB` do to
`b`'s record of `a`'s wants (`bset`) and to the blocks in flight (`wireBA`).
-/
namespace Beetswap.Proofs.Net
open Std Beetswap.Net Beetswap.Wl
open Beetswap.Client (PeerSt Sending StoreRes Out TaskSt TaskKind Sys sendFullInterval)

/-- the actions that touch node `b`, its pending calls or append to `wireBA` -/
def _root_.Beetswap.Net.Act.touchesB : Act → Bool
  | .drainB | .lookupB _ | .deliverAB => true
  | _ => false

theorem step_storeB (s : State) (act : Act) : (step s act).storeB = s.storeB := by
  sorry

/-- actions of `a` leave `b`, its calls and the store alone; `wireBA` can only lose its head
(`deliverBA`) -/
theorem step_b_frame (s : State) (act : Act) (h : act.touchesB = false) :
    (step s act).b = s.b ∧ (step s act).callsB = s.callsB ∧
    (∀ bs, bs ∈ (step s act).wireBA → bs ∈ s.wireBA) := by
  sorry

theorem bset_frame (s : State) (act : Act) (h : act.touchesB = false) : bset (step s act) = bset s := by
  sorry

theorem binv_init (store : KMap Nat) : BInv (init store) := by
  sorry

theorem binv_step (s : State) (act : Act) (h : BInv s) : BInv (step s act) := by
  sorry

/-! ### `drainB` -/

/-- `drainB` leaves `a` and everything of `a` alone -/
theorem drainB_frame (s : State) :
    (step s .drainB).a = s.a ∧ (step s .drainB).wireAB = s.wireAB ∧ (step s .drainB).callsA = s.callsA ∧
    (step s .drainB).putsA = s.putsA ∧ (step s .drainB).answered = s.answered ∧
    (step s .drainB).errors = s.errors := by
  sorry

theorem drainB_wire (s : State) : ∃ new, (step s .drainB).wireBA = s.wireBA ++ new := by
  sorry

/-- `b` only forgets wants while draining … -/
theorem drainB_bset_sub (s : State) (h : BInv s) (k : Nat) (hk : k ∈ bset (step s .drainB)) :
    k ∈ bset s := by
  sorry

/-- … and every want it forgets has been served: the block is on the wire -/
theorem drainB_lost (s : State) (h : BInv s) (k : Nat) (hk : k ∈ bset s)
    (hn : k ∉ bset (step s .drainB)) :
    ∃ bs ∈ (step s .drainB).wireBA, ∃ d, (k, d) ∈ bs := by
  sorry

/-! ### `lookupB` -/

theorem lookupB_frame (s : State) (n : Nat) :
    (step s (.lookupB n)).a = s.a ∧ (step s (.lookupB n)).wireAB = s.wireAB ∧
    (step s (.lookupB n)).wireBA = s.wireBA ∧ (step s (.lookupB n)).callsA = s.callsA ∧
    (step s (.lookupB n)).putsA = s.putsA ∧ (step s (.lookupB n)).answered = s.answered ∧
    (step s (.lookupB n)).errors = s.errors := by
  sorry

theorem lookupB_bset (s : State) (h : BInv s) (n : Nat) : bset (step s (.lookupB n)) = bset s := by
  sorry

/-! ### `deliverAB` -/

theorem deliverAB_nil (s : State) (hw : s.wireAB = []) : step s .deliverAB = s := by
  sorry

/-- the wantlist is processed against `b`'s record -/
theorem deliverAB_bset (s : State) (h : BInv s) (m : WlMsg) (rest : List WlMsg)
    (hw : s.wireAB = m :: rest) :
    bset (step s .deliverAB) = (Server.processWantlist (bset s) m.full (entriesOf m)).1 := by
  sorry

theorem deliverAB_frame (s : State) (m : WlMsg) (rest : List WlMsg) (hw : s.wireAB = m :: rest) :
    (step s .deliverAB).wireAB = rest ∧ (step s .deliverAB).wireBA = s.wireBA ∧
    (step s .deliverAB).callsA = s.callsA ∧ (step s .deliverAB).putsA = s.putsA ∧
    (step s .deliverAB).callsB = s.callsB ∧ (step s .deliverAB).answered = s.answered ∧
    (step s .deliverAB).errors = s.errors ∧
    (step s .deliverAB).a = (Node.step s.a (.sending 1 .ready)).1 := by
  sorry

/-! ### Quiescence of `b` -/

/-- with nothing to run and no call pending, `b` has no lookup task left … -/
theorem binv_idle_tasks (s : State) (h : BInv s) (hr : s.b.server.runq = []) (hc : s.callsB = []) :
    s.b.server.tasks = [] := by
  sorry

/-- … so it records no want for a block it holds -/
theorem binv_idle_not_held (s : State) (h : BInv s) (hr : s.b.server.runq = []) (hc : s.callsB = [])
    (k : Nat) (hk : k ∈ bset s) : s.storeB[k]? = none := by
  sorry

end Beetswap.Proofs.Net
