import Beetswap.Proofs.NetDefs
import Beetswap.Proofs.Server
import Beetswap.Proofs.NetBDrain
/-!
The serving node `b` of the composition: `BInv` is inductive, and what `drainB` / `deliverAB` do to
`b`'s record of `a`'s wants (`bset`) and to the blocks in flight (`wireBA`).

Helpers: `NetBBase.lean` (`absorbB`, the trivial client half of `b`), `NetBInv.lean` (the task part
of `BInv` as an invariant `MInv` of the server half, along `pollTask` / `complete` / `incoming`),
`NetBDrain.lean` (`Server.drain` against `MInv`).
-/
namespace Beetswap.Proofs.Net
open Std Beetswap.Net Beetswap.Wl
open Beetswap.Client (PeerSt Sending StoreRes Out TaskSt TaskKind Sys sendFullInterval)

/-- the actions that touch node `b`, its pending calls or append to `wireBA` -/
def _root_.Beetswap.Net.Act.touchesB : Act → Bool
  | .drainB | .lookupB _ | .deliverAB => true
  | _ => false

/-! ### The steps, unfolded -/

theorem absorbA_frame (outs : List Out) (s : State) :
    (absorbA s outs).b = s.b ∧ (absorbA s outs).storeB = s.storeB ∧
    (absorbA s outs).callsB = s.callsB ∧ (absorbA s outs).wireBA = s.wireBA := by
  induction outs generalizing s with
  | nil => exact ⟨rfl, rfl, rfl, rfl⟩
  | cons o os ih =>
    have : absorbA s (o :: os) = absorbA (absorbA s [o]) os := by simp [absorbA]
    rw [this]
    obtain ⟨h1, h2, h3, h4⟩ := ih (absorbA s [o])
    rw [h1, h2, h3, h4]
    cases o <;> exact ⟨rfl, rfl, rfl, rfl⟩

theorem lookupB_eq (s : State) (n : Nat) :
    step s (.lookupB n) =
      match s.callsB.find? (·.1 == n) with
      | some (_, k) =>
        { s with b := (Node.step s.b (.complete n (lookupRes s.storeB k))).1,
                 callsB := s.callsB.filter (·.1 != n) }
      | none => s := rfl

theorem deliverAB_eq (s : State) (m : WlMsg) (rest : List WlMsg) (hw : s.wireAB = m :: rest) :
    step s .deliverAB =
      { s with a := (Node.step s.a (.sending 1 1 .ready)).1,
               b := { s.b with server := Server.incoming s.b.server 0 m.full (entriesOf m) },
               wireAB := rest } := by
  simp only [step, hw]
  rfl

theorem node_complete (b : Node.State) (n : Nat) (r : StoreRes) (hc : b.client.tasks = []) :
    (Node.step b (.complete n r)).1 =
      match Server.complete b.server n r with
      | some sv => { b with server := sv }
      | none => b := by
  have : Client.complete b.client n r = none := by
    unfold Client.complete; rw [hc]; rfl
  simp only [Node.step, this]
  cases Server.complete b.server n r <;> rfl

/-- `drainB` with a trivial client half at `b`, field by field -/
theorem drainB_fields (s : State) (hc : ClTriv s.b.client) :
    (step s .drainB).b.server = (Server.drain s.b.server s.b.seq (fun _ => none)).1 ∧
    (step s .drainB).b.seq = (Server.drain s.b.server s.b.seq (fun _ => none)).2.1 ∧
    ClTriv (step s .drainB).b.client ∧
    (step s .drainB).callsB =
      s.callsB ++ (Server.drain s.b.server s.b.seq (fun _ => none)).2.2.filterMap outCalls ∧
    (step s .drainB).wireBA =
      s.wireBA ++ (Server.drain s.b.server s.b.seq (fun _ => none)).2.2.filterMap outBlocks ∧
    (step s .drainB).storeB = s.storeB := by
  obtain ⟨n1, n2, n3, n4, n5⟩ := node_drain_triv s.b hc
  rw [drainB_eq, absorbB_spec]
  dsimp only
  rw [n4, n5]
  exact ⟨n1, n2, n3, rfl, rfl, rfl⟩

theorem step_storeB (s : State) (act : Act) : (step s act).storeB = s.storeB := by
  cases act with
  | get k => rfl
  | cancel q => rfl
  | refresh => rfl
  | drainA =>
    simp only [step]
    exact (absorbA_frame _ _).2.1
  | drainB => rw [drainB_eq, absorbB_spec]
  | lookupA n => simp only [step]; split <;> rfl
  | putDoneA n => simp only [step]; split <;> rfl
  | lookupB n => rw [lookupB_eq]; split <;> rfl
  | deliverAB => simp only [step]; split <;> rfl
  | deliverBA => simp only [step]; split <;> rfl

/-- actions of `a` leave `b`, its calls and the store alone; `wireBA` can only lose its head
(`deliverBA`) -/
theorem step_b_frame (s : State) (act : Act) (h : act.touchesB = false) :
    (step s act).b = s.b ∧ (step s act).callsB = s.callsB ∧
    (∀ bs, bs ∈ (step s act).wireBA → bs ∈ s.wireBA) := by
  cases act with
  | get k => exact ⟨rfl, rfl, fun _ h => h⟩
  | cancel q => exact ⟨rfl, rfl, fun _ h => h⟩
  | refresh => exact ⟨rfl, rfl, fun _ h => h⟩
  | drainA =>
    simp only [step]
    refine ⟨(absorbA_frame _ _).1, (absorbA_frame _ _).2.2.1, ?_⟩
    intro bs hbs
    rw [(absorbA_frame _ _).2.2.2] at hbs
    exact hbs
  | drainB => cases h
  | lookupA n =>
    simp only [step]
    split
    · exact ⟨rfl, rfl, fun _ h => h⟩
    · exact ⟨rfl, rfl, fun _ h => h⟩
  | putDoneA n =>
    simp only [step]
    split
    · exact ⟨rfl, rfl, fun _ h => h⟩
    · exact ⟨rfl, rfl, fun _ h => h⟩
  | lookupB n => cases h
  | deliverAB => cases h
  | deliverBA =>
    simp only [step]
    split
    · exact ⟨rfl, rfl, fun _ h => h⟩
    · rename_i bs rest hw
      refine ⟨rfl, rfl, ?_⟩
      intro x hx
      rw [hw]
      exact List.mem_cons_of_mem _ hx

theorem bset_frame (s : State) (act : Act) (h : act.touchesB = false) : bset (step s act) = bset s := by
  unfold bset
  rw [(step_b_frame s act h).1]

/-! ### `BInv` and `MInv` -/

theorem BInv.minv {s : State} (h : BInv s) :
    MInv s.storeB (bset s) s.b.server s.b.seq s.callsB s.b.server.runq :=
  ⟨h.ids_nodup, h.ids_lt, h.sched, h.ready_ok, h.results_ok, h.calls_task, h.calls_lt,
   h.calls_nodup, h.wait_lt, h.wait_inj, by rw [h.outq_nil]; simp,
   fun k hk d hd => Or.inr (h.pending k hk d hd)⟩

theorem BInv.cl {s : State} (h : BInv s) : ClTriv s.b.client :=
  ⟨h.cl_tasks, h.cl_runq, h.cl_queue, h.cl_nb⟩

theorem binv_of_minv {s : State}
    (hm : MInv s.storeB (bset s) s.b.server s.b.seq s.callsB s.b.server.runq)
    (hi : Spec.ServerSpec.Inv s.b.server) (h0 : ∃ set, s.b.server.wl[0]? = some set)
    (hq : s.b.server.outq = []) (hc : ClTriv s.b.client)
    (hw : ∀ bs ∈ s.wireBA, ∀ kd ∈ bs, s.storeB[kd.1]? = some kd.2) : BInv s := by
  refine ⟨hi, h0, hq, hc.1, hc.2.1, hc.2.2.1, hc.2.2.2, hm.ids_nodup, hm.ids_lt, hm.sched,
    hm.ready_ok, hm.results_ok, hm.calls_task, hm.calls_lt, hm.calls_nodup, hm.wait_lt,
    hm.wait_inj, hw, ?_⟩
  intro k hk d hd
  rcases hm.pend k hk d hd with h1 | h1
  · rw [hq] at h1; cases h1
  · exact h1

/-- a step that leaves `b`, its calls and the store alone and adds nothing to `wireBA` -/
theorem binv_frame {s s' : State} (h : BInv s) (hb : s'.b = s.b) (hc : s'.callsB = s.callsB)
    (hs : s'.storeB = s.storeB) (hw : ∀ bs, bs ∈ s'.wireBA → bs ∈ s.wireBA) : BInv s' := by
  have hset : bset s' = bset s := by unfold bset; rw [hb]
  apply binv_of_minv
  · rw [hs, hset, hb, hc]; exact h.minv
  · rw [hb]; exact h.sinv
  · rw [hb]; exact h.wl0
  · rw [hb]; exact h.outq_nil
  · rw [hb]; exact h.cl
  · intro bs hbs kd hkd
    rw [hs]
    exact h.wire_ok bs (hw bs hbs) kd hkd

theorem binv_init (store : KMap Nat) : BInv (init store) := by
  have hb : (init store).b.server = Server.connect {} 0 := rfl
  have hwl : (Server.connect {} 0).wl[0]? = some ∅ := by
    unfold Server.connect
    rw [if_neg (by simp)]
    simp
  have htasks : (Server.connect {} 0).tasks = [] := by
    unfold Server.connect; split <;> rfl
  have hrunq : (Server.connect {} 0).runq = [] := by
    unfold Server.connect; split <;> rfl
  have houtq : (Server.connect {} 0).outq = [] := by
    unfold Server.connect; split <;> rfl
  have hcalls : (init store).callsB = [] := rfl
  have hwire : (init store).wireBA = [] := rfl
  have hset : bset (init store) = ∅ := by
    unfold bset; rw [hb, hwl]; rfl
  apply binv_of_minv
  · rw [hb, hcalls, hset]
    refine ⟨?_, ?_, ?_, ?_, ?_, ?_, ?_, ?_, ?_, ?_, ?_, ?_⟩
    · rw [htasks]; simp
    · rw [htasks]; simp
    · rw [htasks]; simp
    · rw [htasks]; simp
    · rw [htasks]; simp
    · simp
    · simp
    · simp
    · rw [htasks]; simp
    · rw [htasks]; simp
    · rw [houtq]; simp
    · intro k hk; exact absurd hk Server.kset_not_mem_empty
  · rw [hb]; exact Server.inv_connect _ _ Server.inv_init
  · rw [hb]; exact ⟨_, hwl⟩
  · rw [hb]; exact houtq
  · exact ⟨rfl, rfl, rfl, rfl⟩
  · rw [hwire]; simp

/-! ### `drainB` -/

/-- `drainB` leaves `a` and everything of `a` alone -/
theorem drainB_frame (s : State) :
    (step s .drainB).a = s.a ∧ (step s .drainB).wireAB = s.wireAB ∧ (step s .drainB).callsA = s.callsA ∧
    (step s .drainB).putsA = s.putsA ∧ (step s .drainB).answered = s.answered ∧
    (step s .drainB).errors = s.errors := by
  rw [drainB_eq, absorbB_spec]
  exact ⟨rfl, rfl, rfl, rfl, rfl, rfl⟩

theorem drainB_wire (s : State) : ∃ new, (step s .drainB).wireBA = s.wireBA ++ new := by
  rw [drainB_eq, absorbB_spec]
  exact ⟨_, rfl⟩

/-- everything about `drainB` from a state satisfying `BInv` -/
theorem drainB_spec (s : State) (h : BInv s) :
    BInv (step s .drainB) ∧
    (∀ k, k ∈ bset (step s .drainB) → k ∈ bset s) ∧
    (∀ k, k ∈ bset s → k ∉ bset (step s .drainB) →
      ∃ bs ∈ (step s .drainB).wireBA, ∃ d, (k, d) ∈ bs) := by
  obtain ⟨e1, e2, e3, e4, e5, e6⟩ := drainB_fields s h.cl
  obtain ⟨d1, d2, d3, d4, d5, d6⟩ := server_drain_minv h.sinv h.minv
  have hset : bset (step s .drainB) =
      ((Server.drain s.b.server s.b.seq (fun _ => none)).1.wl[0]?).getD ∅ := by
    unfold bset; rw [e1]
  refine ⟨?_, ?_, ?_⟩
  · apply binv_of_minv
    · rw [e6, hset, e1, e2, e4]; exact d1
    · rw [e1]; exact Server.inv_step s.b.server s.b.seq (.drain (fun _ => none)) h.sinv
    · rw [e1]
      obtain ⟨set, hs⟩ := h.wl0
      have := d3 0
      rw [hs] at this
      cases hg : (Server.drain s.b.server s.b.seq (fun _ => none)).1.wl[0]? with
      | none => rw [hg] at this; cases this
      | some set' => exact ⟨set', rfl⟩
    · rw [e1]; exact d2
    · exact e3
    · intro bs hbs kd hkd
      rw [e6]
      rw [e5, List.mem_append] at hbs
      rcases hbs with hbs | hbs
      · exact h.wire_ok bs hbs kd hkd
      · exact d5 bs hbs kd hkd
  · intro k hk
    rw [hset] at hk
    exact d4 k hk
  · intro k hk hnk
    rw [hset] at hnk
    obtain ⟨bs, hbs, d, hd⟩ := d6 k hk hnk
    exact ⟨bs, by rw [e5]; exact List.mem_append_right _ hbs, d, hd⟩

/-- `b` only forgets wants while draining … -/
theorem drainB_bset_sub (s : State) (h : BInv s) (k : Nat) (hk : k ∈ bset (step s .drainB)) :
    k ∈ bset s := (drainB_spec s h).2.1 k hk

/-- … and every want it forgets has been served: the block is on the wire -/
theorem drainB_lost (s : State) (h : BInv s) (k : Nat) (hk : k ∈ bset s)
    (hn : k ∉ bset (step s .drainB)) :
    ∃ bs ∈ (step s .drainB).wireBA, ∃ d, (k, d) ∈ bs := (drainB_spec s h).2.2 k hk hn

/-! ### `lookupB` -/

theorem lookupB_frame (s : State) (n : Nat) :
    (step s (.lookupB n)).a = s.a ∧ (step s (.lookupB n)).wireAB = s.wireAB ∧
    (step s (.lookupB n)).wireBA = s.wireBA ∧ (step s (.lookupB n)).callsA = s.callsA ∧
    (step s (.lookupB n)).putsA = s.putsA ∧ (step s (.lookupB n)).answered = s.answered ∧
    (step s (.lookupB n)).errors = s.errors := by
  rw [lookupB_eq]
  split <;> exact ⟨rfl, rfl, rfl, rfl, rfl, rfl, rfl⟩

/-- everything about `lookupB` from a state satisfying `BInv` -/
theorem lookupB_spec (s : State) (h : BInv s) (n : Nat) :
    BInv (step s (.lookupB n)) ∧ bset (step s (.lookupB n)) = bset s := by
  rw [lookupB_eq]
  cases hf : s.callsB.find? (·.1 == n) with
  | none => exact ⟨h, rfl⟩
  | some c =>
    obtain ⟨n', k⟩ := c
    have hn : n' = n := by simpa using List.find?_some hf
    subst hn
    have hc : (n', k) ∈ s.callsB := List.mem_of_find?_eq_some hf
    obtain ⟨sv', c1, c2, c3, c4, c5, c6⟩ := minv_complete h.minv hc
    have hb : (Node.step s.b (.complete n' (lookupRes s.storeB k))).1 = { s.b with server := sv' } := by
      rw [node_complete _ _ _ h.cl_tasks, c1]
    dsimp only
    rw [hb]
    have hset : bset { s with b := { s.b with server := sv' }, callsB := s.callsB.filter (·.1 != n') } = bset s := by
      unfold bset
      show (sv'.wl[0]?).getD ∅ = _
      rw [c3]
    refine ⟨?_, hset⟩
    apply binv_of_minv
    · rw [hset]; exact c2
    · exact Server.inv_congr (s := s.b.server) c3 c4 c6 h.sinv
    · show ∃ set, sv'.wl[0]? = some set
      rw [c3]; exact h.wl0
    · show sv'.outq = []
      rw [c5]; exact h.outq_nil
    · exact h.cl
    · exact h.wire_ok

theorem lookupB_bset (s : State) (h : BInv s) (n : Nat) : bset (step s (.lookupB n)) = bset s :=
  (lookupB_spec s h n).2

/-! ### `deliverAB` -/

theorem deliverAB_nil (s : State) (hw : s.wireAB = []) : step s .deliverAB = s := by
  simp only [step, hw]

/-- the wantlist is processed against `b`'s record -/
theorem deliverAB_bset (s : State) (h : BInv s) (m : WlMsg) (rest : List WlMsg)
    (hw : s.wireAB = m :: rest) :
    bset (step s .deliverAB) = (Server.processWantlist (bset s) m.full (entriesOf m)).1 := by
  obtain ⟨cur, hc⟩ := h.wl0
  rw [deliverAB_eq s m rest hw]
  have hb : bset s = cur := by unfold bset; rw [hc]; rfl
  unfold bset
  show ((Server.incoming s.b.server 0 m.full (entriesOf m)).wl[0]?).getD ∅ = _
  rw [(incoming_fields s.b.server 0 m.full (entriesOf m) cur hc).1, Server.kmap_get_insert,
    if_pos rfl, hc]
  rfl

theorem deliverAB_frame (s : State) (m : WlMsg) (rest : List WlMsg) (hw : s.wireAB = m :: rest) :
    (step s .deliverAB).wireAB = rest ∧ (step s .deliverAB).wireBA = s.wireBA ∧
    (step s .deliverAB).callsA = s.callsA ∧ (step s .deliverAB).putsA = s.putsA ∧
    (step s .deliverAB).callsB = s.callsB ∧ (step s .deliverAB).answered = s.answered ∧
    (step s .deliverAB).errors = s.errors ∧
    (step s .deliverAB).a = (Node.step s.a (.sending 1 1 .ready)).1 := by
  rw [deliverAB_eq s m rest hw]
  exact ⟨rfl, rfl, rfl, rfl, rfl, rfl, rfl, rfl⟩

theorem binv_deliverAB (s : State) (h : BInv s) : BInv (step s .deliverAB) := by
  cases hw : s.wireAB with
  | nil => rw [deliverAB_nil s hw]; exact h
  | cons m rest =>
    obtain ⟨cur, hc⟩ := h.wl0
    have hb : bset s = cur := by unfold bset; rw [hc]; rfl
    have hset := deliverAB_bset s h m rest hw
    rw [hb] at hset
    have hm := h.minv
    rw [hb] at hm
    have hm' := minv_incoming hm 0 m.full (entriesOf m) hc
    obtain ⟨f1, f2, f3, _, _, _⟩ := incoming_fields s.b.server 0 m.full (entriesOf m) cur hc
    rw [deliverAB_eq s m rest hw] at hset ⊢
    apply binv_of_minv
    · rw [hset]; exact hm'
    · exact Server.inv_incoming _ _ _ _ h.sinv
    · show ∃ set, (Server.incoming s.b.server 0 m.full (entriesOf m)).wl[0]? = some set
      rw [f1, Server.kmap_get_insert, if_pos rfl]
      exact ⟨_, rfl⟩
    · show (Server.incoming s.b.server 0 m.full (entriesOf m)).outq = []
      rw [f2]; exact h.outq_nil
    · exact h.cl
    · exact h.wire_ok

/-! ### `BInv` is inductive -/

theorem binv_step (s : State) (act : Act) (h : BInv s) : BInv (step s act) := by
  by_cases ht : act.touchesB = false
  · obtain ⟨f1, f2, f3⟩ := step_b_frame s act ht
    exact binv_frame h f1 f2 (step_storeB s act) f3
  · cases act with
    | drainB => exact (drainB_spec s h).1
    | lookupB n => exact (lookupB_spec s h n).1
    | deliverAB => exact binv_deliverAB s h
    | _ => exact absurd rfl ht

theorem binv_reachable (store : KMap Nat) (s : State) (h : Reachable store s) : BInv s := by
  induction h with
  | init => exact binv_init store
  | step act _ ih => exact binv_step _ act ih

/-! ### Quiescence of `b` -/

/-- with nothing to run and no call pending, `b` has no lookup task left … -/
theorem binv_idle_tasks (s : State) (h : BInv s) (hr : s.b.server.runq = []) (hc : s.callsB = []) :
    s.b.server.tasks = [] := by
  cases ht : s.b.server.tasks with
  | nil => rfl
  | cons t ts =>
    exfalso
    have hm : t ∈ s.b.server.tasks := by rw [ht]; exact List.mem_cons_self ..
    rcases h.sched t hm with ⟨h1, _⟩ | ⟨n, k, rest, _, _, h3⟩
    · rw [hr] at h1; cases h1
    · rw [hc] at h3; cases h3

/-- … so it records no want for a block it holds -/
theorem binv_idle_not_held (s : State) (h : BInv s) (hr : s.b.server.runq = []) (hc : s.callsB = [])
    (k : Nat) (hk : k ∈ bset s) : s.storeB[k]? = none := by
  cases hd : s.storeB[k]? with
  | none => rfl
  | some d =>
    exfalso
    obtain ⟨t, ht, _⟩ := h.pending k hk d hd
    rw [binv_idle_tasks s h hr hc] at ht
    cases ht

end Beetswap.Proofs.Net
