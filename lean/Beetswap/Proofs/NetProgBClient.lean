import Beetswap.Proofs.NetProgDefs
/-!
Helpers for `Proofs/NetProgB.lean`, part 1: the client half of the serving node `b` during a drain
(clock at 0, no tasks, empty queue), `BCInv` along the actions, `bReady`.
-/
namespace Beetswap.Proofs.Net.PB
open Std Beetswap.Net Beetswap.Wl Beetswap.Proofs.Net
open Beetswap.Client (PeerSt Sending StoreRes Out TaskSt TaskKind Sys sendFullInterval)

/-- the peer part of `BCInv` -/
def PeerOk (ps : PeerSt) : Prop :=
  ps.conns.isEmpty = false ∧
    ((ps.sending = .ready ∧ ps.sendFull = true) ∨ ∃ c, ps.sending = .requested 0 c)

/-- `updatePeer` at time 0 on a peer satisfying `PeerOk` -/
theorem updatePeer_ok (w : Wantlist) (ps : PeerSt) (pref : Option Nat) (h : PeerOk ps) :
    (ps.sending = .ready ∧
      ∃ ps', (Client.updatePeer w 0 ps pref).1 = some ps' ∧ PeerOk ps' ∧ ps'.sending ≠ .ready) ∨
    ((∃ c, ps.sending = .requested 0 c) ∧ Client.updatePeer w 0 ps pref = (some ps, none)) := by
  obtain ⟨hc, ⟨hr, hf⟩ | ⟨c, hq⟩⟩ := h
  · left
    refine ⟨hr, ?_⟩
    rw [ClientView.updatePeer_eq, hr]
    dsimp only
    rw [ClientView.goPeer_full _ _ _ _ hf hc]
    refine ⟨_, rfl, ⟨hc, Or.inr ⟨_, rfl⟩⟩, ?_⟩
    intro e; cases e
  · right
    refine ⟨⟨c, hq⟩, ?_⟩
    rw [ClientView.updatePeer_eq, hq]
    dsimp only
    rw [if_pos (by decide)]

theorem afterTasks_triv (c : Client.State) (seq : Nat) (h : ClTriv c) (hd : 0 < c.deadline) :
    ClientView.afterTasks c 0 seq = ({ c with queue := [], runq := [] }, seq, []) := by
  obtain ⟨h1, h2, h3, h4⟩ := h
  have hr : ClientView.refresh { c with queue := [] } 0 = { c with queue := [] } := by
    unfold ClientView.refresh
    rw [if_neg]
    show ¬ c.deadline ≤ 0
    omega
  unfold ClientView.afterTasks
  dsimp only
  rw [hr]
  show Client.pollTasks _ seq c.runq = _
  rw [h2]
  rfl

/-- the client half of `b` in a drain: the deadline stays, every peer is updated, and every output
is a wantlist produced by the update of a peer -/
theorem client_drain_b (c : Client.State) (seq : Nat) (pref : Nat → Option Nat) (h : ClTriv c)
    (hd : 0 < c.deadline) :
    (Client.drain c 0 seq pref).1.deadline = c.deadline ∧
    (∀ p : Nat, (Client.drain c 0 seq pref).1.peers[p]? =
      (c.peers[p]?).bind (fun ps => (Client.updatePeer c.wantlist 0 ps (pref p)).1)) ∧
    (∀ o ∈ (Client.drain c 0 seq pref).2.2, ∃ p ps cm,
      c.peers[p]? = some ps ∧ (Client.updatePeer c.wantlist 0 ps (pref p)).2 = some cm) := by
  have ha := afterTasks_triv c seq h hd
  obtain ⟨u1, u2, u3, u4, u5⟩ :=
    ClientView.updateHandlers_spec (ClientView.afterTasks c 0 seq).1 0 pref
  rw [ClientView.drain_eq]
  dsimp only
  refine ⟨?_, ?_, ?_⟩
  · rw [u3, ha]
  · intro p
    rw [u4 p, ha]
    rfl
  · intro o ho
    rw [u5] at ho
    rw [ha] at ho
    rw [h.2.2.1] at ho
    simp only [List.nil_append] at ho
    rw [List.mem_filterMap] at ho
    obtain ⟨p, _, hs⟩ := ho
    unfold ClientView.sendOf at hs
    dsimp only at hs
    cases hp : c.peers[p]? with
    | none => rw [hp] at hs; cases hs
    | some ps =>
      rw [hp] at hs
      dsimp only at hs
      cases hu : (Client.updatePeer c.wantlist 0 ps (pref p)).2 with
      | none => rw [hu] at hs; cases hs
      | some cm => exact ⟨p, ps, cm, hp, hu⟩

/-- the client half, the clock and the outputs of the client half of a drained node -/
theorem node_drain_client (b : Node.State) :
    (Node.step b (.drain [] [])).1.now = b.now ∧
    (Node.step b (.drain [] [])).1.client.deadline =
      (Client.drain b.client b.now b.seq (fun _ => none)).1.deadline ∧
    (Node.step b (.drain [] [])).1.client.peers =
      (Client.drain b.client b.now b.seq (fun _ => none)).1.peers := by
  rw [node_drain_eq]
  exact ⟨rfl, rfl, rfl⟩

theorem drainB_b (s : State) : (step s .drainB).b = (Node.step s.b (.drain [] [])).1 := by
  rw [drainB_eq, absorbB_spec]

/-- `drainB` on the client half of `b` -/
theorem drainB_client (s : State) (hb : BInv s) (hc : BCInv s) :
    (step s .drainB).b.now = 0 ∧
    (step s .drainB).b.client.deadline = s.b.client.deadline ∧
    (∀ p : Nat, (step s .drainB).b.client.peers[p]? =
      (s.b.client.peers[p]?).bind
        (fun ps => (Client.updatePeer s.b.client.wantlist 0 ps none).1)) := by
  obtain ⟨n1, n2, n3⟩ := node_drain_client s.b
  obtain ⟨d1, d2, _⟩ := client_drain_b s.b.client s.b.seq (fun _ => none) hb.cl hc.deadline
  rw [drainB_b, n1, n2, n3, hc.now0]
  exact ⟨rfl, d1, d2⟩

theorem bcinv_peerOk {s : State} (hc : BCInv s) (p : Nat) (ps : PeerSt)
    (h : s.b.client.peers[p]? = some ps) : PeerOk ps := hc.peers p ps h

theorem bcinv_drainB (s : State) (hb : BInv s) (hc : BCInv s) : BCInv (step s .drainB) := by
  obtain ⟨e1, e2, e3⟩ := drainB_client s hb hc
  refine ⟨e1, by rw [e2]; exact hc.deadline, ?_, ?_⟩
  · intro p hp
    rw [e3 p, hc.only0 p hp]
    rfl
  · intro p ps' hps'
    rw [e3 p] at hps'
    cases hp : s.b.client.peers[p]? with
    | none => rw [hp] at hps'; cases hps'
    | some ps =>
      rw [hp, Option.bind_some] at hps'
      have hok : PeerOk ps := hc.peers p ps hp
      rcases updatePeer_ok s.b.client.wantlist ps none hok with
        ⟨_, ps1, h1, h2, _⟩ | ⟨_, h1⟩
      · rw [h1] at hps'; cases hps'; exact h2
      · rw [h1] at hps'; cases hps'; exact hok

/-- `bReady` does not increase in a drain, and drops from 1 to 0 -/
theorem bReady_drainB (s : State) (hb : BInv s) (hc : BCInv s) :
    bReady (step s .drainB) ≤ bReady s ∧ (bReady s = 1 → bReady (step s .drainB) = 0) := by
  obtain ⟨_, _, e3⟩ := drainB_client s hb hc
  unfold bReady
  rw [e3 0]
  cases hp : s.b.client.peers[0]? with
  | none => exact ⟨Nat.le_refl _, fun h => by cases h⟩
  | some ps =>
    rw [Option.bind_some]
    rcases updatePeer_ok s.b.client.wantlist ps none (hc.peers 0 ps hp) with
      ⟨hr, ps1, h1, _, h3⟩ | ⟨⟨c, hq⟩, h1⟩
    · rw [h1]
      dsimp only
      rw [if_neg h3, if_pos hr]
      exact ⟨by omega, fun _ => rfl⟩
    · rw [h1]
      dsimp only
      have : ps.sending ≠ .ready := by rw [hq]; intro e; cases e
      rw [if_neg this]
      exact ⟨Nat.le_refl _, fun h => by cases h⟩

/-- a step that leaves the client half and the clock of `b` alone -/
theorem bcinv_frame {s s' : State} (h : BCInv s) (hc : s'.b.client = s.b.client)
    (hn : s'.b.now = s.b.now) : BCInv s' := by
  refine ⟨by rw [hn]; exact h.now0, by rw [hc]; exact h.deadline, ?_, ?_⟩
  · rw [hc]; exact h.only0
  · rw [hc]; exact h.peers

theorem lookupB_client (s : State) (hb : BInv s) (n : Nat) :
    (step s (.lookupB n)).b.client = s.b.client ∧ (step s (.lookupB n)).b.now = s.b.now := by
  rw [lookupB_eq]
  split
  · dsimp only
    rw [node_complete _ _ _ hb.cl_tasks]
    split <;> exact ⟨rfl, rfl⟩
  · exact ⟨rfl, rfl⟩

theorem deliverAB_client (s : State) :
    (step s .deliverAB).b.client = s.b.client ∧ (step s .deliverAB).b.now = s.b.now := by
  cases hw : s.wireAB with
  | nil => rw [deliverAB_nil s hw]; exact ⟨rfl, rfl⟩
  | cons m rest => rw [deliverAB_eq s m rest hw]; exact ⟨rfl, rfl⟩

/-- with nothing queued the server half of a node outputs nothing in a drain -/
theorem server_drain_idle (sv : Server.State) (seq : Nat) (obs : Nat → Option Nat)
    (h1 : sv.runq = []) (h2 : sv.outq = []) (h3 : sv.evq = []) :
    (Server.drain sv seq obs).2.2 = [] := by
  rw [Server.drain_eq, h1]
  dsimp only
  rw [Server.updateHandlers_eq]
  dsimp only
  show sv.evq ++ [] ++ _ = []
  have : (Server.pollTasks { sv with evq := [], runq := [] } seq obs []).1.outq = [] := h2
  rw [h3, this]
  rfl

end Beetswap.Proofs.Net.PB
