import Beetswap.Proofs.ClientLinkInv
/-!
The hand-over discipline between the client behaviour and its connection handlers, for every
schedule of the composition `Model/ClientLink` — late acknowledgements, several connections,
closes and handler failures at any point included.
-/
namespace Beetswap.Proofs.ClientLink
open Std Beetswap.ClientLink
open Beetswap.Client (PeerSt Sending Out)
open Beetswap.ClientHandler (H HS Report In Env IoRes)
open Beetswap.Spec.HandlerSpec (Obeys SpecState specRun traceOf)

theorem linv_init : LInv {} := by
  refine ⟨(by intro p c m hm; cases hm), ?_, ?_⟩
  · intro p ps hps
    simp [ClientView.kmap_get_empty] at hps
  · intro c l hl
    simp [ClientView.kmap_get_empty] at hl

theorem linv_step (s : State) (h : LInv s) (a : Act) : LInv (step s a) := by
  cases a with
  | client op => exact linv_client s h op
  | connect p c => exact linv_connect s h p c
  | drain pref => exact linv_drain s h pref
  | deliverCmd c => exact linv_deliverCmd s h c
  | handler c i => exact linv_handler s h c i
  | deliverRep c => exact linv_deliverRep s h c
  | swarmClosed c => exact linv_swarmClosed s h c

theorem linv_reachable {s : State} (hr : Reachable s) : LInv s := by
  induction hr with
  | init => exact linv_init
  | step a _ ih => exact linv_step _ ih a

theorem reachable_run (s : State) (hr : Reachable s) (acts : List Act) : Reachable (run s acts) := by
  induction acts generalizing s with
  | nil => exact hr
  | cons a as ih => exact ih _ (Reachable.step a hr)

/-- The behaviour obeys every connection handler's environment obligations, whatever the
schedule: the inputs each handler has seen — every `send_wantlist` among them — form a history
that `Obeys`. In particular a handler is handed a wantlist only when it has reported the outcome
of the previous one (`Ready`, nothing pending, nothing queued). -/
theorem link_obeys (s : State) (hr : Reachable s) (c : Nat) (l : Link) (hl : s.links[c]? = some l) :
    l.h = (ClientHandler.run {} l.ins).1 ∧ Obeys {} l.ins :=
  ⟨((linv_reachable hr).link c l hl).coh, ((linv_reachable hr).link c l hl).obeys⟩

/-- … hence the trace of every connection of every reachable state is accepted by the
specification of C14 (one whole frame per wantlist on a stream negotiated after it was accepted,
or a failure report; never two outcomes, never a second wantlist before the outcome). -/
theorem link_trace_accepted (s : State) (hr : Reachable s) (c : Nat) (l : Link) (hl : s.links[c]? = some l) :
    (specRun {} (traceOf {} l.ins)).isSome = true :=
  Proofs.Handler.handler_refines_spec l.ins (link_obeys s hr c l hl).2

/-- A wantlist on its way to a live connection finds the handler free, it is the only one, and
nothing the handler reported is still on its way to the behaviour: the outcome of the previous
wantlist is known to the behaviour. -/
theorem handover_finds_free (s : State) (hr : Reachable s) (c : Nat) (l : Link) (hl : s.links[c]? = some l)
    (w : Nat) (rest : List Nat) (hc : l.cmds = w :: rest) (hcl : l.h.closing = false) :
    rest = [] ∧ l.h.ss = .ready ∧ l.h.msg = none ∧ l.h.queue = [] ∧ states l.reps = [] := by
  have hi := (linv_reachable hr).link c l hl
  obtain ⟨hf, hss⟩ := hi.cmd_idle (by rw [hc]; simp)
  obtain ⟨sp, hsp⟩ := hi.shape
  have hidle := idle_shape l.h sp hsp hss hcl
  refine ⟨?_, hss, by rw [hidle], by rw [hidle], ?_⟩
  · have := hi.one; rw [hc] at this
    cases rest with
    | nil => rfl
    | cons _ _ => simp at this
  · unfold flight at hf
    rw [states_append] at hf
    exact (List.append_eq_nil_iff.1 hf).1

theorem disciplined_of_linv (s : State) (h : LInv s) : disciplined s = true := by
  unfold disciplined
  rw [List.all_eq_true]
  intro cl hcl
  have hl : s.links[cl.1]? = some cl.2 := by
    have := ExtTreeMap.mem_toList_iff_getElem?_eq_some.1 hcl
    exact this
  have hi := h.link cl.1 cl.2 hl
  simp only [Bool.and_eq_true, decide_eq_true_eq, Bool.or_eq_true]
  refine ⟨hi.one, ?_⟩
  by_cases hc : cl.2.cmds = []
  · left; left; left; simp [hc]
  · by_cases hcl : cl.2.h.closing = true
    · left; right; exact hcl
    · right
      have hcl : cl.2.h.closing = false := by simpa using hcl
      obtain ⟨_, hss⟩ := hi.cmd_idle hc
      obtain ⟨sp, hsp⟩ := hi.shape
      have hidle := idle_shape cl.2.h sp hsp hss hcl
      rw [hidle]; rfl

/-- The executable check `disciplined` holds in every reachable state. -/
theorem disciplined_reachable (s : State) (hr : Reachable s) : disciplined s = true :=
  disciplined_of_linv s (linv_reachable hr)

/-- A usable connection on which the current transmission is not tracked is at rest: nothing was
handed to it that it has not finished, and nothing it reported is still under way. -/
theorem untracked_connection_at_rest (s : State) (hr : Reachable s) (c : Nat) (l : Link)
    (hl : s.links[c]? = some l) (ps : PeerSt) (hp : s.cl.s.peers[l.peer]? = some ps) (hm : c ∈ ps.conns)
    (ht : ps.sending.conn? ≠ some c) :
    l.cmds = [] ∧ states (l.reps ++ l.h.queue) = [] ∧ l.h.ss = .ready :=
  ((linv_reachable hr).link c l hl).silent ps hp hm ht

/-! ### Finding F14: the same composition before the repair -/

/-- peer 0, connections 1 and 2; connection 1 is given the first wantlist and is starved for more
than `RECEIVE_REQUEST_TIMEOUT`; the wantlist goes to connection 2; connection 1 then runs and
its reports reach the behaviour; a further `get` makes the behaviour hand connection 2 a second
wantlist while the first is still pending there. -/
def f14Trace : List Act :=
  let okEnv : Env := { timerFired := false, pollReady := .ok, startSendOk := true, flush := .ok }
  [.connect 0 1, .connect 0 2, .client (.get 7 true), .drain (fun _ => some 1), .client (.complete 0 .miss),
   .drain (fun _ => some 1),                 -- full wantlist handed to connection 1
   .client (.tick 1000), .drain (fun _ => some 2),  -- not acknowledged in time: handed to connection 2
   .deliverCmd 2, .deliverCmd 1,
   .handler 1 (.poll okEnv), .handler 1 (.poll okEnv), .handler 1 (.setStream 5),
   .handler 1 (.poll okEnv), .handler 1 (.poll okEnv), .handler 1 (.poll okEnv),
   .deliverRep 1, .deliverRep 1, .deliverRep 1,     -- RequestReceived, Sending, Ready of connection 1
   .client (.get 8 true), .drain (fun _ => some 2), .client (.complete 1 .miss),
   .drain (fun _ => some 2)]                 -- an update is handed to connection 2

theorem f14_pinned_undisciplined : disciplined (f14Trace.foldl stepPinned {}) = false := by decide

theorem f14_repaired_disciplined : disciplined (run {} f14Trace) = true := by decide

/-! ### Finding F13 (known, not repaired) as a statement about the model -/

/-- peer 0, one connection. The first wantlist of the session is handed to it; its task does not run
for `RECEIVE_REQUEST_TIMEOUT`; the behaviour gives the connection up and, it being the only one,
the peer. The task then runs: the handler sends that wantlist and reports; nobody listens. -/
def f13Trace : List Act :=
  let okEnv : Env := { timerFired := false, pollReady := .ok, startSendOk := true, flush := .ok }
  [.connect 0 1, .client (.get 7 true), .drain (fun _ => some 1), .client (.complete 0 .miss),
   .drain (fun _ => some 1),                          -- full wantlist handed to connection 1
   .client (.tick 1000), .drain (fun _ => some 1),    -- not acknowledged in time: connection and peer given up
   .deliverCmd 1, .handler 1 (.poll okEnv), .handler 1 (.poll okEnv), .handler 1 (.setStream 5),
   .handler 1 (.poll okEnv), .handler 1 (.poll okEnv), .handler 1 (.poll okEnv),
   .deliverRep 1, .deliverRep 1, .deliverRep 1,       -- RequestReceived, Sending, Ready: ignored
   .client (.get 8 true), .drain (fun _ => some 1), .client (.complete 1 .miss), .drain (fun _ => some 1)]

/-- Finding F13: a reachable state in which a connection is alive — not closed, not closing, its
handler `Ready` after a complete transmission — while the behaviour has no entry for its peer: the
node wants CIDs 7 and 8, and 8 is never announced to the peer although its connection works (C05's
"the peer keeps receiving updates as long as it has a working connection" fails under a late
acknowledgement). It heals only when the connection is re-established. -/
theorem f13_live_connection_given_up :
    (run {} f13Trace).cl.s.peers.toList.map (·.1) = [] ∧
    ((run {} f13Trace).links[1]?.map fun l =>
      (!l.gone && !l.h.closing && decide (l.h.ss = HS.ready) && l.cmds.isEmpty && l.reps.isEmpty)) = some true ∧
    (run {} f13Trace).cl.s.wantlist.cids.toList = [7, 8] := by decide

theorem f13_reachable : Reachable (run {} f13Trace) := reachable_run {} Reachable.init f13Trace

end Beetswap.Proofs.ClientLink
