import Beetswap.Proofs.CodecParse
/-!
Writer layer: `encodeBody` is the serialisation of the canonical field tree, `sizeMessage` its
length, the canonical tree is valid and denotes the message.
-/
namespace Beetswap.Proofs.Codec
open Beetswap Beetswap.Proto Beetswap.Frame Beetswap.Spec.Wire Beetswap.Spec.Limit

/-! ### emission -/

theorem encodeEntry_eq (e : Entry) : encodeEntry e = serEntry (entryFields e) := by
  cases h1 : e.block.isEmpty <;> cases h2 : (e.priority == 0) <;> cases h3 : e.cancel <;>
    cases h4 : (e.wantType == 0) <;> cases h5 : e.sendDontHave <;>
    simp [encodeEntry, entryFields, serEntry, wBytesField, wVarintField, wVarint, EntryFld.ser,
      uvar_eq_enc', i32ToU64, i32Wire, bool01, h1, h2, h3, h4, h5]

theorem encodeBlock_eq (b : Block) : encodeBlock b = serBlock (blockFields b) := by
  cases h1 : b.pfx.isEmpty <;> cases h2 : b.data.isEmpty <;>
    simp [encodeBlock, blockFields, serBlock, wBytesField, wVarint, BlockFld.ser,
      uvar_eq_enc', h1, h2]

theorem encodePresence_eq (p : Presence) : encodePresence p = serPresence (presenceFields p) := by
  cases h1 : p.cid.isEmpty <;> cases h2 : (p.type == 0) <;>
    simp [encodePresence, presenceFields, serPresence, wBytesField, wVarintField, wVarint,
      PresenceFld.ser, uvar_eq_enc', h1, h2]

theorem encodeWantlist_eq (w : Wantlist) : encodeWantlist w = serWantlist (wantlistFields w) := by
  cases h1 : w.full <;>
    simp [encodeWantlist, wantlistFields, serWantlist, wMsgField, wVarintField, wVarint,
      WantlistFld.ser, uvar_eq_enc', bool01, h1, encodeEntry_eq, Function.comp_def]

theorem encodeBody_eq (m : Message) : encodeBody m = serMessage (messageFields m) := by
  cases h1 : m.wantlist <;> cases h2 : (m.pendingBytes == 0) <;>
    simp [encodeBody, messageFields, serMessage, wMsgField, wVarintField, wVarint,
      MsgFld.ser, uvar_eq_enc', i32ToU64, i32Wire, h1, h2, encodeWantlist_eq, encodeBlock_eq,
      encodePresence_eq, Function.comp_def]

/-! ### sizes -/

theorem sizeEntry_eq (e : Entry) : sizeEntry e = (encodeEntry e).length := by
  cases h1 : e.block.isEmpty <;> cases h2 : (e.priority == 0) <;> cases h3 : e.cancel <;>
    cases h4 : (e.wantType == 0) <;> cases h5 : e.sendDontHave <;>
    simp [encodeEntry, sizeEntry, wBytesField, wVarintField, wVarint, sizeofLen, sizeofVarint,
      enc_lt, h1, h2, h3, h4, h5] <;> omega

theorem sizeBlock_eq (b : Block) : sizeBlock b = (encodeBlock b).length := by
  cases h1 : b.pfx.isEmpty <;> cases h2 : b.data.isEmpty <;>
    simp [encodeBlock, sizeBlock, wBytesField, wVarint, sizeofLen, sizeofVarint, enc_lt, h1, h2]
    <;> omega

theorem sizePresence_eq (p : Presence) : sizePresence p = (encodePresence p).length := by
  cases h1 : p.cid.isEmpty <;> cases h2 : (p.type == 0) <;>
    simp [encodePresence, sizePresence, wBytesField, wVarintField, wVarint, sizeofLen,
      sizeofVarint, enc_lt, h1, h2] <;> omega

theorem wMsgField_length (tag : Nat) (ht : tag < 128) (body : List Nat) :
    (wMsgField tag body).length = 1 + sizeofLen body.length := by
  simp [wMsgField, wVarint, sizeofLen, sizeofVarint, enc_lt ht]; omega

theorem sizeWantlist_eq (w : Wantlist) : sizeWantlist w = (encodeWantlist w).length := by
  cases h1 : w.full <;>
    simp [encodeWantlist, sizeWantlist, wVarintField, wVarint, sizeofVarint, enc_lt, h1,
      List.length_flatten, Function.comp_def, wMsgField_length, sizeEntry_eq, bool01]

theorem sizeMessage_eq (m : Message) : sizeMessage m = (encodeBody m).length := by
  cases h1 : m.wantlist <;> cases h2 : (m.pendingBytes == 0) <;>
    simp [encodeBody, sizeMessage, wVarintField, wVarint, sizeofVarint, enc_lt, h1, h2,
      List.length_flatten, Function.comp_def, wMsgField_length, sizeWantlist_eq, sizeBlock_eq,
      sizePresence_eq] <;> omega

/-! ### interpretation of the canonical tree -/

theorem i32OfWire_i32Wire (i : Int) (h : I32 i) : i32OfWire (i32Wire i) = i := by
  unfold i32OfWire i32Wire
  obtain ⟨h1, h2⟩ := h
  by_cases h0 : 0 ≤ i
  · simp only [h0, if_true]
    have : i.toNat < 2 ^ 31 := by omega
    simp only [this, if_true]; omega
  · simp only [h0, if_false]
    have : ¬ (i + 2 ^ 64).toNat < 2 ^ 31 := by omega
    simp only [this, if_false]; omega

theorem i32Wire_I32Wire (i : Int) (h : I32 i) : I32Wire (i32Wire i) := by
  unfold I32Wire i32Wire
  obtain ⟨h1, h2⟩ := h
  by_cases h0 : 0 ≤ i
  · simp only [h0, if_true]; left; omega
  · simp only [h0, if_false]; right; omega

theorem interpEntry_fields (e : Entry) (h : EntryWF e) : interpEntry (entryFields e) = e := by
  obtain ⟨b, p, c, w, s⟩ := e
  obtain ⟨_, _, hp, hw⟩ := h
  simp only at hp hw
  have hw' : w = 0 ∨ w = 1 := by omega
  cases h1 : b.isEmpty <;> cases h2 : (p == 0) <;> cases c <;>
    rcases hw' with rfl | rfl <;> cases s <;>
    simp [interpEntry, entryFields, EntryFld.apply, enumOfWire, i32OfWire_i32Wire p hp,
      h1, h2] <;> simp_all

theorem interpBlock_fields (b : Block) : interpBlock (blockFields b) = b := by
  obtain ⟨p, d⟩ := b
  cases h1 : p.isEmpty <;> cases h2 : d.isEmpty <;>
    simp [interpBlock, blockFields, BlockFld.apply, h1, h2] <;> simp_all

theorem interpPresence_fields (p : Presence) (h : PresenceWF p) :
    interpPresence (presenceFields p) = p := by
  obtain ⟨c, t⟩ := p
  obtain ⟨_, _, ht⟩ := h
  simp only at ht
  have ht' : t = 0 ∨ t = 1 := by omega
  cases h1 : c.isEmpty <;> rcases ht' with rfl | rfl <;>
    simp [interpPresence, presenceFields, PresenceFld.apply, enumOfWire, h1] <;> simp_all

theorem foldl_entries (es : List Entry) (h : ∀ e ∈ es, EntryWF e) (w : Wantlist) :
    (es.map (fun e => WantlistFld.entry (entryFields e))).foldl WantlistFld.apply w
      = { w with entries := w.entries ++ es } := by
  induction es generalizing w with
  | nil => simp
  | cons e es ih =>
    simp only [List.map_cons, List.foldl_cons]
    rw [ih (fun e' he' => h e' (by simp [he']))]
    simp [WantlistFld.apply, interpEntry_fields e (h e (by simp))]

theorem interpWantlist_fields (w : Wantlist) (h : WantlistWF w) :
    interpWantlist (wantlistFields w) = w := by
  obtain ⟨es, f⟩ := w
  cases f <;>
    simp [interpWantlist, wantlistFields, List.foldl_append, foldl_entries es h,
      WantlistFld.apply]

theorem foldl_payload (bs : List Block) (m : Message) :
    (bs.map (fun b => MsgFld.payload (blockFields b))).foldl MsgFld.apply m
      = { m with payload := m.payload ++ bs } := by
  induction bs generalizing m with
  | nil => simp
  | cons b bs ih =>
    simp only [List.map_cons, List.foldl_cons]
    rw [ih]
    simp [MsgFld.apply, interpBlock_fields]

theorem foldl_presences (ps : List Presence) (h : ∀ p ∈ ps, PresenceWF p) (m : Message) :
    (ps.map (fun p => MsgFld.presence (presenceFields p))).foldl MsgFld.apply m
      = { m with presences := m.presences ++ ps } := by
  induction ps generalizing m with
  | nil => simp
  | cons p ps ih =>
    simp only [List.map_cons, List.foldl_cons]
    rw [ih (fun e' he' => h e' (by simp [he']))]
    simp [MsgFld.apply, interpPresence_fields p (h p (by simp))]

theorem interpMessage_fields (m : Message) (h : MessageWF m) :
    interpMessage (messageFields m) = m := by
  obtain ⟨w, bs, ps, pb⟩ := m
  obtain ⟨hw, _, hp, hpb⟩ := h
  simp only at hw hp hpb
  cases w with
  | none =>
    cases h2 : (pb == 0) <;>
      simp [interpMessage, messageFields, List.foldl_append, foldl_payload, foldl_presences ps hp,
        MsgFld.apply, i32OfWire_i32Wire pb hpb, h2] <;> simp_all
  | some w =>
    cases h2 : (pb == 0) <;>
      simp [interpMessage, messageFields, List.foldl_append, foldl_payload, foldl_presences ps hp,
        MsgFld.apply, i32OfWire_i32Wire pb hpb, h2, interpWantlist_fields w (hw w rfl)]
      <;> simp_all

/-! ### validity of the canonical tree -/

theorem length_le_flatten {α : Type} (L : List (List α)) (l : List α) (h : l ∈ L) :
    l.length ≤ L.flatten.length := by
  induction L with
  | nil => simp at h
  | cons x xs ih =>
    simp only [List.mem_cons] at h
    simp only [List.flatten_cons, List.length_append]
    rcases h with rfl | h
    · omega
    · have := ih h; omega

theorem entryFields_valid (e : Entry) (h : EntryWF e) : ∀ f ∈ entryFields e, f.Valid := by
  obtain ⟨hb, hl, hp, hw⟩ := h
  intro f hf
  simp only [entryFields, List.mem_append] at hf
  rcases hf with (((hf | hf) | hf) | hf) | hf <;> split at hf <;> simp at hf <;> subst hf
  · exact ⟨hl, hb⟩
  · exact i32Wire_I32Wire _ hp
  · right; rfl
  · left; omega
  · right; rfl

theorem blockFields_valid (b : Block) (h : BlockWF b) : ∀ f ∈ blockFields b, f.Valid := by
  obtain ⟨h1, h2, h3, h4⟩ := h
  intro f hf
  simp only [blockFields, List.mem_append] at hf
  rcases hf with hf | hf <;> split at hf <;> simp at hf <;> subst hf
  · exact ⟨h3, h1⟩
  · exact ⟨h4, h2⟩

theorem presenceFields_valid (p : Presence) (h : PresenceWF p) :
    ∀ f ∈ presenceFields p, f.Valid := by
  obtain ⟨h1, h2, h3⟩ := h
  intro f hf
  simp only [presenceFields, List.mem_append] at hf
  rcases hf with hf | hf <;> split at hf <;> simp at hf <;> subst hf
  · exact ⟨h2, h1⟩
  · left; omega

theorem wantlistFld_ser_le (f : WantlistFld) (fs : List WantlistFld) (h : f ∈ fs) :
    (WantlistFld.ser f).length ≤ (serWantlist fs).length :=
  length_le_flatten _ _ (List.mem_map_of_mem h)

theorem msgFld_ser_le (f : MsgFld) (fs : List MsgFld) (h : f ∈ fs) :
    (MsgFld.ser f).length ≤ (serMessage fs).length :=
  length_le_flatten _ _ (List.mem_map_of_mem h)

theorem wantlistFields_valid (w : Wantlist) (h : WantlistWF w)
    (hs : (serWantlist (wantlistFields w)).length < 2 ^ 32) :
    ∀ f ∈ wantlistFields w, f.Valid := by
  intro f hf
  have hle := wantlistFld_ser_le f _ hf
  simp only [wantlistFields, List.mem_append, List.mem_map] at hf
  rcases hf with ⟨e, he, rfl⟩ | hf
  · refine ⟨entryFields_valid e (h e he), ?_⟩
    simp only [WantlistFld.ser, List.length_append] at hle
    omega
  · split at hf <;> simp at hf; subst hf
    right; rfl

theorem messageFields_valid' (m : Message) (h : MessageWF m)
    (hs : (encodeBody m).length < 2 ^ 32) : MsgValid (messageFields m) := by
  rw [encodeBody_eq] at hs
  obtain ⟨hw, hb, hp, hpb⟩ := h
  constructor
  · intro f hf
    have hle := msgFld_ser_le f _ hf
    simp only [messageFields, List.mem_append, List.mem_map] at hf
    rcases hf with ((hf | ⟨b, hb', rfl⟩) | ⟨p, hp', rfl⟩) | hf
    · split at hf <;> simp at hf; subst hf
      rename_i w hw'
      simp only [MsgFld.ser, List.length_append] at hle
      exact ⟨wantlistFields_valid w (hw w hw') (by omega), by omega⟩
    · simp only [MsgFld.ser, List.length_append] at hle
      exact ⟨blockFields_valid b (hb b hb'), by omega⟩
    · simp only [MsgFld.ser, List.length_append] at hle
      exact ⟨presenceFields_valid p (hp p hp'), by omega⟩
    · split at hf <;> simp at hf; subst hf
      exact i32Wire_I32Wire _ hpb
  · have e1 : (m.payload.map (fun b => MsgFld.payload (blockFields b))).filter isWantlistFld
        = [] := by simp [List.filter_eq_nil_iff, isWantlistFld]
    have e2 : (m.presences.map (fun p => MsgFld.presence (presenceFields p))).filter isWantlistFld
        = [] := by simp [List.filter_eq_nil_iff, isWantlistFld]
    simp only [messageFields, List.filter_append, e1, e2]
    cases h1 : m.wantlist <;> cases h2 : (m.pendingBytes == 0) <;>
      simp [List.filter_cons, isWantlistFld]

end Beetswap.Proofs.Codec
