import Beetswap.Proofs.NetADrain
/-!
`AInv` is kept by every action of the composition (one lemma per action).
-/
namespace Beetswap.Proofs.Net.A
open Std Beetswap.Net Beetswap.Wl
open Beetswap.Client (PeerSt Sending StoreRes Out TaskSt TaskKind Sys sendFullInterval Task)
open Beetswap.Spec.ClientSpec (GSys Ghost gstep grun GInv)

/-- coherence with the history-extended run, `GInv`, and the idle server half -/
theorem ainv_core (g : GS) (act : Act) (ha : AInv g) :
    (gnext g act).x.sys = aSys (gnext g act).s ∧ GInv (gnext g act).x ∧ SrvIdle (gnext g act).s.a.server := by
  obtain ⟨h1, h2⟩ := aSys_step g.s act ha.srv
  refine ⟨?_, ginv_grun _ _ ha.ginv, h2⟩
  show (grun g.x (aOps g.s act)).1.sys = aSys (step g.s act)
  rw [grun_sys, ha.coh, h1]

/-- assemble `AInv` of the next state from the groups -/
theorem ainv_next (g : GS) (act : Act) (ha : AInv g)
    (peer : APeer (step g.s act).a.client (step g.s act).wireAB)
    (deadline : (step g.s act).a.client.deadline ≤ (step g.s act).a.now + sendFullInterval)
    (queue : QOk (step g.s act).a.client.queue (step g.s act).storeB)
    (ans : AnsOk (step g.s act).answered (step g.s act).storeB)
    (task : TInv (step g.s act).a.client.tasks (step g.s act).a.client.nextTask (step g.s act).a.client.runq
      (step g.s act).a.seq (Pend (step g.s act)))
    (ask : AAsk (step g.s act).a.client (gnext g act).asked) : AInv (gnext g act) := by
  obtain ⟨c1, c2, c3⟩ := ainv_core g act ha
  exact ainv_of_parts c1 c2 c3 peer deadline queue ans task ask

theorem ainv_queue {g : GS} (h : AInv g) : QOk g.s.a.client.queue g.s.storeB := h.queue_ok
theorem ainv_ans {g : GS} (h : AInv g) : AnsOk g.s.answered g.s.storeB := h.answered_ok

/-- an action that leaves everything of `a` alone -/
theorem ainv_frame (g : GS) (act : Act) (ha : AInv g)
    (h1 : (step g.s act).a = g.s.a) (h4 : (step g.s act).wireAB = g.s.wireAB)
    (h5 : (step g.s act).callsA = g.s.callsA) (h6 : (step g.s act).putsA = g.s.putsA)
    (h7 : (step g.s act).answered = g.s.answered) (h8 : (step g.s act).storeB = g.s.storeB)
    (h9 : (gnext g act).asked = g.asked) : AInv (gnext g act) := by
  apply ainv_next g act ha
  · rw [h1, h4]; exact (ainv_peer ha)
  · rw [h1]; exact ha.deadline
  · rw [h1, h8]; exact (ainv_queue ha)
  · rw [h7, h8]; exact (ainv_ans ha)
  · rw [h1]
    apply (ainv_task ha).mono
    intro m hm
    unfold Pend; rw [h5, h6]; exact hm
  · rw [h1, h9]; exact (ainv_ask ha)

/-! ### The user's actions -/

theorem ainv_get (g : GS) (k : Nat) (ha : AInv g) : AInv (gnext g (.get k)) := by
  have hc : (step g.s (.get k)).a.client = (Client.get g.s.a.client k true).1 := rfl
  have hc' : (Client.get g.s.a.client k true).1 =
      { g.s.a.client with
        nextQuery := g.s.a.client.nextQuery + 1,
        tasks := g.s.a.client.tasks ++ [{ id := g.s.a.client.nextTask, kind := .get g.s.a.client.nextQuery k }],
        runq := g.s.a.client.runq ++ [g.s.a.client.nextTask],
        nextTask := g.s.a.client.nextTask + 1,
        abort := g.s.a.client.abort.insert g.s.a.client.nextQuery g.s.a.client.nextTask } := rfl
  apply ainv_next g (.get k) ha
  · rw [hc, hc']; exact (ainv_peer ha).congr rfl
  · rw [hc, hc']; exact ha.deadline
  · rw [hc, hc']; exact (ainv_queue ha)
  · exact (ainv_ans ha)
  · rw [hc, hc']; exact (ainv_task ha).push _
  · rw [hc, hc']
    have hk := (ainv_ask ha)
    refine ⟨?_, ?_, ?_⟩
    · show (g.asked ++ [k]).length = g.s.a.client.nextQuery + 1
      rw [List.length_append, hk.len]; rfl
    · intro t ht q k' hkind
      show k' ∈ g.asked ++ [k]
      rcases List.mem_append.1 ht with h | h
      · exact List.mem_append_left _ (hk.get_asked t h q k' hkind)
      · simp only [List.mem_singleton] at h; subst h
        cases hkind
        exact List.mem_append_right _ (List.mem_singleton.2 rfl)
    · intro j hj
      exact List.mem_append_left _ (hk.want_asked j hj)

theorem ainv_cancel (g : GS) (q : Nat) (ha : AInv g) : AInv (gnext g (.cancel q)) := by
  have hc : (step g.s (.cancel q)).a.client =
      ClientQuery.cancelW (ClientQuery.cancelA g.s.a.client q) q := rfl
  obtain ⟨a1, a2, a3, a4, a5, a6, a7⟩ := cancelA_facts g.s.a.client q
  obtain ⟨w1, w2, w3, w4, w5, w6, w7, w8⟩ := cancelW_facts (ClientQuery.cancelA g.s.a.client q) q
  apply ainv_next g (.cancel q) ha
  · rw [hc]; exact (ainv_peer ha).congr (w1.trans a1)
  · rw [hc, w3, a4]; exact ha.deadline
  · rw [hc, w2, a2]; exact (ainv_queue ha)
  · exact (ainv_ans ha)
  · rw [hc, w6, w4, w7, a5]
    rcases a7 with ⟨e1, e2⟩ | ⟨tid, e1, e2⟩
    · rw [e1, e2]; exact (ainv_task ha)
    · rw [e1, e2]; exact (ainv_task ha).abort tid
  · rw [hc]
    have hk := (ainv_ask ha)
    refine ⟨?_, ?_, ?_⟩
    · rw [w5, a6]; exact hk.len
    · rw [w6]
      rcases a7 with ⟨e1, _⟩ | ⟨tid, e1, _⟩
      · rw [e1]; exact hk.get_asked
      · rw [e1]
        intro t ht q' k hkind
        obtain ⟨u, hu, e⟩ := TSub_setAborted_kind ht
        exact hk.get_asked u hu q' k (e ▸ hkind)
    · intro j hj
      have := w8 j hj
      rw [a3] at this
      exact hk.want_asked j this

theorem ainv_refresh (g : GS) (ha : AInv g) : AInv (gnext g .refresh) := by
  have hc : (step g.s .refresh).a.client = g.s.a.client := rfl
  have hn : (step g.s .refresh).a.now = g.s.a.now + sendFullInterval := rfl
  apply ainv_next g .refresh ha
  · exact (ainv_peer ha)
  · rw [hc, hn]; have := ha.deadline; omega
  · exact (ainv_queue ha)
  · exact (ainv_ans ha)
  · exact (ainv_task ha)
  · exact (ainv_ask ha)

/-! ### Blockstore completions at `a` -/

theorem ainv_complete (g : GS) (act : Act) (n : Nat) (r : StoreRes) (ha : AInv g) (hr : ∀ d, r ≠ .hit d)
    (calls : List (Nat × Nat)) (puts : List Nat)
    (hs : step g.s act = { g.s with a := (Node.step g.s.a (.complete n r)).1, callsA := calls, putsA := puts })
    (hp : ∀ m, m ≠ n → Pend g.s m → m ∈ calls.map (·.1) ∨ m ∈ puts)
    (hasked : (gnext g act).asked = g.asked) : AInv (gnext g act) := by
  have hnode := nodeA_complete g.s.a ha.srv n r
  obtain ⟨f1, f2, f3⟩ := ClientView.complete_fields g.s.a.client n r
  obtain ⟨k1, k2, k3⟩ := complete_kinds g.s.a.client n r
  apply ainv_next g act ha
  · rw [hs, hnode]; exact (ainv_peer ha).congr f1
  · rw [hs, hnode]; show ((Client.complete g.s.a.client n r).getD g.s.a.client).deadline ≤ _
    rw [k2]; exact ha.deadline
  · rw [hs, hnode]; show QOk ((Client.complete g.s.a.client n r).getD g.s.a.client).queue _
    rw [f3]; exact (ainv_queue ha)
  · rw [hs]; exact (ainv_ans ha)
  · rw [hs, hnode]
    exact complete_tinv (ainv_task ha) n r hr hp
  · rw [hs, hnode, hasked]
    have hk := (ainv_ask ha)
    refine ⟨?_, ?_, ?_⟩
    · show _ = ((Client.complete g.s.a.client n r).getD g.s.a.client).nextQuery
      rw [k1]; exact hk.len
    · intro t ht q k hkind
      obtain ⟨u, hu, _, e2, _⟩ := k3 t ht
      exact hk.get_asked u hu q k (e2 ▸ hkind)
    · intro j hj
      have hj : j ∈ ((Client.complete g.s.a.client n r).getD g.s.a.client).wantlist.cids := hj
      rw [f2] at hj
      exact hk.want_asked j hj

theorem ainv_lookupA (g : GS) (n : Nat) (ha : AInv g) : AInv (gnext g (.lookupA n)) := by
  by_cases h : g.s.callsA.any (·.1 == n) = true
  · apply ainv_complete g (.lookupA n) n .miss ha (by simp) (g.s.callsA.filter (·.1 != n)) g.s.putsA
    · simp only [step, h, if_true]
    · intro m hm hp
      rcases hp with hp | hp
      · left
        obtain ⟨c, hc, e⟩ := List.mem_map.1 hp
        exact List.mem_map.2 ⟨c, List.mem_filter.2 ⟨hc, by simp [e, hm]⟩, e⟩
      · exact .inr hp
    · rfl
  · have hs : step g.s (.lookupA n) = g.s := by simp only [step, h, Bool.false_eq_true, if_false]
    apply ainv_frame g (.lookupA n) ha <;> first | rw [hs] | rfl

theorem ainv_putDoneA (g : GS) (n : Nat) (ha : AInv g) : AInv (gnext g (.putDoneA n)) := by
  by_cases h : n ∈ g.s.putsA
  · apply ainv_complete g (.putDoneA n) n .putOk ha (by simp) g.s.callsA (g.s.putsA.filter (· != n))
    · simp only [step, h, if_true]
    · intro m hm hp
      rcases hp with hp | hp
      · exact .inl hp
      · right
        exact List.mem_filter.2 ⟨hp, by simp [hm]⟩
    · rfl
  · have hs : step g.s (.putDoneA n) = g.s := by simp only [step, h, if_false]
    apply ainv_frame g (.putDoneA n) ha <;> first | rw [hs] | rfl

/-! ### Deliveries -/

theorem ainv_deliverAB (g : GS) (ha : AInv g) : AInv (gnext g .deliverAB) := by
  cases hw : g.s.wireAB with
  | nil =>
    have hs : step g.s .deliverAB = g.s := by simp only [step, hw]
    apply ainv_frame g .deliverAB ha <;> first | rw [hs] | rfl
  | cons m rest =>
    have hs : step g.s .deliverAB =
        { g.s with a := (Node.step g.s.a (.sending 1 1 .ready)).1,
                   b := (Node.step g.s.b (.msg 0 [] [] [] (some (m.full, entriesOf m)))).1,
                   wireAB := rest } := by
      simp only [step, hw]
    have hc : (Node.step g.s.a (.sending 1 1 .ready)).1.client = Client.sendingChanged g.s.a.client 1 1 .ready := rfl
    have hn : (Node.step g.s.a (.sending 1 1 .ready)).1.now = g.s.a.now := rfl
    have hq : (Node.step g.s.a (.sending 1 1 .ready)).1.seq = g.s.a.seq := rfl
    obtain ⟨P, hP⟩ := sendingChanged_frame g.s.a.client 1 1 .ready
    apply ainv_next g .deliverAB ha
    · rw [hs]
      show APeer (Node.step g.s.a (.sending 1 1 .ready)).1.client rest
      rw [hc]
      have hp := (ainv_peer ha)
      obtain ⟨ps, hps, hwire, hv⟩ := hp.one
      rw [hw] at hwire
      have hrest : rest = [] := by
        rcases hwire with ⟨_, e⟩ | ⟨_, m', e⟩
        · cases e
        · cases e; rfl
      have htr : ∀ ps0, g.s.a.client.peers[1]? = some ps0 →
          ps0.sending.conn? = none ∨ ps0.sending.conn? = some 1 := by
        intro ps0 h0
        rw [hps] at h0; cases h0
        rcases hwire with ⟨e, _⟩ | ⟨e, _⟩ <;> rw [e]
        · exact .inl rfl
        · exact .inr rfl
      constructor
      · intro p hp1
        rw [sendingChanged_peers _ _ _ htr]; simp only [hp1, if_false]
        exact hp.only p hp1
      · refine ⟨{ ps with sending := .ready }, ?_, .inl ⟨rfl, hrest⟩, hv⟩
        rw [sendingChanged_peers _ _ _ htr, hps]; simp
      · intro ps0 h0 x
        rw [sendingChanged_peers _ _ _ htr, hps] at h0
        simp only [if_true, Option.map_some, Option.some.injEq] at h0
        subst h0
        exact hp.conn1 ps hps x
    · rw [hs]
      show (Node.step g.s.a (.sending 1 1 .ready)).1.client.deadline ≤ (Node.step g.s.a (.sending 1 1 .ready)).1.now + _
      rw [hc, hn, hP]; exact ha.deadline
    · rw [hs]
      show QOk (Node.step g.s.a (.sending 1 1 .ready)).1.client.queue g.s.storeB
      rw [hc, hP]; exact (ainv_queue ha)
    · rw [hs]; exact (ainv_ans ha)
    · rw [hs]
      show TInv (Node.step g.s.a (.sending 1 1 .ready)).1.client.tasks (Node.step g.s.a (.sending 1 1 .ready)).1.client.nextTask
        (Node.step g.s.a (.sending 1 1 .ready)).1.client.runq (Node.step g.s.a (.sending 1 1 .ready)).1.seq _
      rw [hc, hq, hP]
      exact (ainv_task ha)
    · rw [hs]
      show AAsk (Node.step g.s.a (.sending 1 1 .ready)).1.client g.asked
      rw [hc, hP]
      exact ⟨(ainv_ask ha).len, (ainv_ask ha).get_asked, (ainv_ask ha).want_asked⟩

theorem ainv_deliverBA (g : GS) (ha : AInv g) (hb : BInv g.s) : AInv (gnext g .deliverBA) := by
  cases hw : g.s.wireBA with
  | nil =>
    have hs : step g.s .deliverBA = g.s := by simp only [step, hw]
    apply ainv_frame g .deliverBA ha <;> first | rw [hs] | rfl
  | cons bs rest =>
    have hs : step g.s .deliverBA =
        { g.s with a := (Node.step g.s.a (.msg 1 [] [] bs none)).1, wireBA := rest } := by
      simp only [step, hw]
    by_cases he : bs.isEmpty = true
    · have hnode : (Node.step g.s.a (.msg 1 [] [] bs none)).1 = g.s.a := by
        simp [Node.step, he]
      apply ainv_frame g .deliverBA ha <;> first | (rw [hs, hnode]) | (rw [hs]) | rfl
    · have hnode : (Node.step g.s.a (.msg 1 [] [] bs none)).1 =
          { g.s.a with client := Client.incoming g.s.a.client 1 [] [] bs } := by
        simp [Node.step, he]
      have hbs : ∀ kd ∈ bs, g.s.storeB[kd.1]? = some kd.2 :=
        hb.wire_ok bs (by rw [hw]; exact List.mem_cons_self ..)
      obtain ⟨i1, i2, i3, i4, i5⟩ := incoming_groups bs (ainv_peer ha) (ainv_task ha) (ainv_ask ha) (ainv_queue ha) hbs
      apply ainv_next g .deliverBA ha
      · rw [hs, hnode]; exact i1
      · rw [hs, hnode]; show (Client.incoming g.s.a.client 1 [] [] bs).deadline ≤ _
        rw [i5]; exact ha.deadline
      · rw [hs, hnode]; exact i4
      · rw [hs]; exact (ainv_ans ha)
      · rw [hs, hnode]; exact i2
      · rw [hs, hnode]; exact i3

/-! ### Actions of `b` -/

theorem absorbB_frameA (outs : List Out) (s : State) :
    (absorbB s outs).wireAB = s.wireAB ∧ (absorbB s outs).callsA = s.callsA ∧
    (absorbB s outs).putsA = s.putsA ∧ (absorbB s outs).answered = s.answered ∧
    (absorbB s outs).storeB = s.storeB := by
  unfold absorbB
  induction outs generalizing s with
  | nil => exact ⟨rfl, rfl, rfl, rfl, rfl⟩
  | cons o outs ih =>
    simp only [List.foldl_cons]
    obtain ⟨h1, h2, h3, h4, h5⟩ := ih (s := _)
    rw [h1, h2, h3, h4, h5]
    cases o <;> exact ⟨rfl, rfl, rfl, rfl, rfl⟩

theorem ainv_drainB (g : GS) (ha : AInv g) : AInv (gnext g .drainB) := by
  have hs : step g.s .drainB =
      absorbB { g.s with b := (Node.step g.s.b (.drain [] [])).1 } (Node.step g.s.b (.drain [] [])).2.1 := rfl
  obtain ⟨f1, f2, f3, f4, f5⟩ := absorbB_frameA (Node.step g.s.b (.drain [] [])).2.1
    { g.s with b := (Node.step g.s.b (.drain [] [])).1 }
  apply ainv_frame g .drainB ha
  · rw [hs, absorbB_a]
  · rw [hs, f1]
  · rw [hs, f2]
  · rw [hs, f3]
  · rw [hs, f4]
  · rw [hs, f5]
  · rfl

theorem ainv_lookupB (g : GS) (n : Nat) (ha : AInv g) : AInv (gnext g (.lookupB n)) := by
  apply ainv_frame g (.lookupB n) ha
  all_goals first
    | rfl
    | (simp only [step]; split <;> rfl)

/-! ### `drainA` -/

theorem ainv_drainA (g : GS) (ha : AInv g) : AInv (gnext g .drainA) := by
  have hs := step_drainA g.s ha.srv
  have hA : (step g.s .drainA).a = drainedA g.s.a := step_drainA_a g.s ha.srv
  have hc : (drainedA g.s.a).client = drainedC g.s.a.client g.s.a.now g.s.a.seq (Node.prefOf []) := rfl
  have hseq : (drainedA g.s.a).seq = (Client.drain g.s.a.client g.s.a.now g.s.a.seq (Node.prefOf [])).2.1 := rfl
  have hnow : (drainedA g.s.a).now = g.s.a.now := rfl
  obtain ⟨e1, e2, _, e4, e5⟩ := absorbA_eq (Client.drain g.s.a.client g.s.a.now g.s.a.seq (Node.prefOf [])).2.2
    { g.s with a := drainedA g.s.a }
  obtain ⟨_, b2, _, _⟩ := absorbA_b (Client.drain g.s.a.client g.s.a.now g.s.a.seq (Node.prefOf [])).2.2
    { g.s with a := drainedA g.s.a }
  obtain ⟨d1, d2, d3, d4, d5, d6⟩ := drain_groups g.s.a.now (Node.prefOf []) (ainv_peer ha) (ainv_conns ha) (ainv_nosend ha)
    (ainv_task ha) (ainv_ask ha) ha.deadline
  apply ainv_next g .drainA ha
  · rw [hA, hc, hs, e1]; exact d1
  · rw [hA, hc, hnow]; exact d5
  · rw [hA, hc, d4]
    intro q d hm; cases hm
  · rw [hs, e2, b2]
    intro qd hqd
    rcases List.mem_append.1 hqd with h | h
    · exact (ainv_ans ha) qd h
    · obtain ⟨q, d⟩ := qd
      exact (ainv_queue ha) q d (d6 q d ((mem_outResps _ q d).1 h))
  · rw [hA, hc, hseq]
    apply d2.mono
    intro m hm
    unfold Pend
    rw [hs, e4, e5]
    rcases hm with (hm | hm) | hm | hm
    · exact .inl (by rw [List.map_append]; exact List.mem_append_left _ hm)
    · exact .inr (List.mem_append_left _ hm)
    · exact .inl (by rw [List.map_append]; exact List.mem_append_right _ hm)
    · exact .inr (List.mem_append_right _ hm)
  · rw [hA, hc]; exact d3

end Beetswap.Proofs.Net.A
